//! C14: Score comparison through Ord / PartialOrd / PartialEq / max / min on all pairs of a pool.
use crate::rng::Rng;
use chess_engine::Score;
use std::cmp::Ordering;
use std::io::Write;

pub fn enc(s: Score) -> String {
    match s {
        Score::Min => "m".into(),
        Score::Max => "M".into(),
        Score::BlackMateIn(n) => format!("b{n}"),
        Score::WhiteMateIn(n) => format!("w{n}"),
        Score::Raw(z) => format!("r{z}"),
    }
}

fn ord(o: Ordering) -> &'static str {
    match o {
        Ordering::Less => "L",
        Ordering::Equal => "E",
        Ordering::Greater => "G",
    }
}

pub fn pool(rng: &mut Rng, extra: usize) -> Vec<Score> {
    let mut v = vec![Score::Min, Score::Max];
    let d16 = [0u16, 1, 2, 3, 255, 256, 32767, 32768, 65534, 65535];
    let d32 = [
        i32::MIN,
        i32::MIN + 1,
        -65536,
        -901,
        -2,
        -1,
        0,
        1,
        2,
        900,
        65535,
        65536,
        i32::MAX - 1,
        i32::MAX,
    ];
    for &d in &d16 {
        v.push(Score::BlackMateIn(d));
        v.push(Score::WhiteMateIn(d));
    }
    for &z in &d32 {
        v.push(Score::Raw(z));
    }
    for _ in 0..extra {
        v.push(match rng.below(3) {
            0 => Score::BlackMateIn(rng.next() as u16),
            1 => Score::WhiteMateIn(rng.next() as u16),
            _ => Score::Raw(rng.next() as i32),
        });
    }
    v
}

pub fn dec(s: &str) -> Option<Score> {
    let rest = &s[1..];
    Some(match s.as_bytes()[0] {
        b'm' => Score::Min,
        b'M' => Score::Max,
        b'b' => Score::BlackMateIn(rest.parse().ok()?),
        b'w' => Score::WhiteMateIn(rest.parse().ok()?),
        b'r' => Score::Raw(rest.parse().ok()?),
        _ => return None,
    })
}

pub fn replay(out: &mut dyn Write, f: &[&str]) {
    if let (Some(a), Some(b)) = (dec(f[1]), dec(f[2])) {
        pair(out, a, b)
    }
}

pub fn run(out: &mut dyn Write, rng: &mut Rng, extra: usize) {
    let p = pool(rng, extra);
    for &a in &p {
        for &b in &p {
            pair(out, a, b)
        }
    }
}

fn pair(out: &mut dyn Write, a: Score, b: Score) {
    {
        {
            let pc = match a.partial_cmp(&b) {
                Some(o) => ord(o),
                None => "N",
            };
            writeln!(
                out,
                "SC\t{}\t{}\t{}\t{}\t{}\t{}{}{}{}\t{}\t{}",
                enc(a),
                enc(b),
                ord(a.cmp(&b)),
                pc,
                (a == b) as u8,
                (a < b) as u8,
                (a <= b) as u8,
                (a > b) as u8,
                (a >= b) as u8,
                enc(a.max(b)),
                enc(a.min(b)),
            )
            .unwrap();
        }
    }
}
