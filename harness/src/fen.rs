//! C05 / C06: the FEN parser on three byte streams, and the incremental builder.
use crate::chess::{debug_view, p, random_fen, sorted_moves, xfen, CORPUS};
use crate::rng::Rng;
use chess_bitboard::{Color, File, Piece};
use chess_movegen::fen::{MissingWhitespace, ParseFenError};
use chess_movegen::{Board, BoardValidationError};
use std::collections::BTreeMap;
use std::io::Write;
use std::panic::{catch_unwind, AssertUnwindSafe};

fn hex(b: &[u8]) -> String {
    b.iter().map(|x| format!("{x:02x}")).collect()
}
fn unhex(s: &str) -> Vec<u8> {
    (0..s.len() / 2).map(|i| u8::from_str_radix(&s[2 * i..2 * i + 2], 16).unwrap()).collect()
}

fn verr(e: &BoardValidationError) -> &'static str {
    match e {
        BoardValidationError::MissingKings => "MissingKings",
        BoardValidationError::InvalidCastleRights => "InvalidCastleRights",
        BoardValidationError::InvalidEnpassant => "InvalidEnpassant",
        BoardValidationError::TooManyPieces => "TooManyPieces",
        BoardValidationError::OpponentInCheck => "OpponentInCheck",
    }
}

pub fn err_code(e: &ParseFenError) -> String {
    match e {
        ParseFenError::InvalidPiece(b, pos) => format!("InvalidPiece:{b}:{}", *pos as u8),
        ParseFenError::MissingPiece(pos) => format!("MissingPiece:{}", *pos as u8),
        ParseFenError::MissingWhitespace(k) => format!(
            "MissingWhitespace:{}",
            match k {
                MissingWhitespace::Pieces => 0,
                MissingWhitespace::Turn => 1,
                MissingWhitespace::CastleRights => 2,
                MissingWhitespace::Enpassant => 3,
                MissingWhitespace::HalfMoveClock => 4,
            }
        ),
        ParseFenError::InvalidTurn(b) => format!("InvalidTurn:{b}"),
        ParseFenError::MissingTurn => "MissingTurn".into(),
        ParseFenError::FileOutOfBounds(r) => format!("FileOutOfBounds:{}", *r as u8),
        ParseFenError::InvalidEnpassant { file, rank } => format!("InvalidEnpassant:{file}:{rank}"),
        ParseFenError::MissingEnpassant => "MissingEnpassant".into(),
        ParseFenError::MissingCastleRights => "MissingCastleRights".into(),
        ParseFenError::MissingHalfClock => "MissingHalfClock".into(),
        ParseFenError::MissingFullClock => "MissingFullClock".into(),
        ParseFenError::TrailingBytes => "TrailingBytes".into(),
        ParseFenError::BoardValidation(e) => format!("BoardValidation:{}", verr(e)),
    }
}

fn ok_fields(b: &Board) -> String {
    let dv = debug_view(b);
    format!("OK\t{}\t{:x}\t{:x}\t{:x}\t{:x}", xfen(b), b.zobrist(), dv.pinned, dv.checkers, dv.move_zobrist)
}

pub fn parse_line(out: &mut dyn Write, bytes: &[u8], hist: &mut BTreeMap<String, u64>) {
    let r = catch_unwind(AssertUnwindSafe(|| chess_movegen::fen::parse_fen(bytes)));
    let res = match r {
        Ok(Ok(b)) => {
            *hist.entry("Ok".into()).or_default() += 1;
            // the accepted board must be usable: generate its moves, play each of them, print and re-generate on every child
            // (a panic anywhere here is caught as TRAP2)
            match catch_unwind(AssertUnwindSafe(|| {
                let l = sorted_moves(&b);
                let mut acc = l.len();
                for m in &l {
                    if let Some(c) = b.move_new(*m) {
                        acc += format!("{c:?}").len() + c.to_string().len() + sorted_moves(&c).len();
                    }
                }
                acc
            })) {
                Ok(_) => ok_fields(&b),
                Err(_) => "TRAP2\t-\t0\t0\t0\t0".into(),
            }
        }
        Ok(Err(e)) => {
            let c = err_code(&e);
            let _ = e.to_string(); // Display of every error must not panic either
            *hist.entry(c.split(':').next().unwrap().to_string() + if c.starts_with("BoardValidation") { &c[15..] } else { "" }).or_default() += 1;
            format!("E\t{c}\t0\t0\t0\t0")
        }
        Err(_) => {
            *hist.entry("TRAP".into()).or_default() += 1;
            "TRAP\t-\t0\t0\t0\t0".into()
        }
    };
    writeln!(out, "FP\t{}\t{}", hex(bytes), res).unwrap();
}

/// canonical FEN of a position reached by legal play: must be accepted (judged at spec level by the driver)
pub fn reached_line(out: &mut dyn Write, bytes: &[u8]) {
    let tag = match catch_unwind(AssertUnwindSafe(|| chess_movegen::fen::parse_fen(bytes))) {
        Ok(Ok(_)) => "OK".to_string(),
        Ok(Err(e)) => format!("E:{}", err_code(&e)),
        Err(_) => "TRAP".to_string(),
    };
    writeln!(out, "FR\t{}\t{}", hex(bytes), tag).unwrap();
}

pub fn run(out: &mut dyn Write, rng: &mut Rng, n: usize, mutation_seeds: usize) {
    let mut hist: BTreeMap<String, u64> = BTreeMap::new();
    // stream 1: writer output of reachable boards + structured random FEN text
    let mut valid: Vec<String> = CORPUS.iter().map(|s| s.to_string()).collect();
    // FEN text of the reached boards, assembled by the harness itself (not through the Display under test)
    let mut reached: Vec<String> = Vec::new();
    crate::chess::positions(rng, n / 4, |_rng, b, _l, _| {
        valid.push(b.to_string());
        reached.push(crate::chess::xfen(b));
    });
    for s in &valid {
        parse_line(out, s.as_bytes(), &mut hist);
    }
    // stream 1a: "every canonical FEN of a legally reachable position is accepted"
    for s in &reached {
        reached_line(out, s.as_bytes());
    }
    for _ in 0..n / 4 {
        let men = if rng.chance(1, 3) { 40 } else { 12 };
        let s = random_fen(rng, men);
        parse_line(out, s.as_bytes(), &mut hist);
    }
    // stream 1b: clock fields at and beyond the four-digit / 16-bit boundaries
    let clocks = ["0", "00", "007", "9", "99", "100", "999", "1000", "9999", "10000", "12345", "65535", "65536", "65537", "99999", "100000", "655360", "4294967296", "18446744073709551616"];
    for i in 0..(n / 40).max(3) {
        let base = &valid[(i * 31) % valid.len()];
        let f: Vec<&str> = base.split(' ').collect();
        if f.len() == 6 {
            for c in clocks {
                parse_line(out, format!("{} {} {} {} {} {}", f[0], f[1], f[2], f[3], c, f[5]).as_bytes(), &mut hist);
                parse_line(out, format!("{} {} {} {} {} {}", f[0], f[1], f[2], f[3], f[4], c).as_bytes(), &mut hist);
            }
        }
    }
    // stream 1d: every castling right with every kind of occupant on its rook corner (right rook, wrong-colour rook, another man of
    // either colour, nothing) and the king at home or one file off, both sides to move
    for (right, corner, krank, own_upper) in [("K", 7usize, 0usize, true), ("Q", 0, 0, true), ("k", 63, 7, false), ("q", 56, 7, false)] {
        for occ in ["r", "R", "n", "N", "q", "Q", ""] {
            for kfile in [4usize, 3, 5] {
                for turn in ["w", "b"] {
                    let mut cells: Vec<String> = vec![String::new(); 64];
                    cells[4] = "K".into();
                    cells[60] = "k".into();
                    let home = krank * 8 + 4;
                    cells[home] = String::new();
                    cells[krank * 8 + kfile] = if own_upper { "K".into() } else { "k".into() };
                    cells[corner] = occ.to_string();
                    let mut t = String::new();
                    for r in (0..8).rev() {
                        let mut missing = 0;
                        for f in 0..8 {
                            let c = &cells[r * 8 + f];
                            if c.is_empty() {
                                missing += 1;
                            } else {
                                if missing > 0 {
                                    t.push_str(&missing.to_string());
                                    missing = 0;
                                }
                                t.push_str(c);
                            }
                        }
                        if missing > 0 {
                            t.push_str(&missing.to_string());
                        }
                        if r != 0 {
                            t.push('/');
                        }
                    }
                    parse_line(out, format!("{t} {turn} {right} - 0 1").as_bytes(), &mut hist);
                }
            }
        }
    }
    // stream 1f: very long digit runs in the clock fields (also cut off in the middle of the run)
    for nd in [5usize, 9, 10, 100, 255, 256, 259, 260, 261, 300, 516, 520, 1030] {
        let run: String = "7".repeat(nd);
        for s in [format!("4k3/8/8/8/8/8/8/4K3 w - - {run} 1"), format!("4k3/8/8/8/8/8/8/4K3 w - - 0 {run}"), format!("4k3/8/8/8/8/8/8/4K3 w - - {run}"),
                  format!("4k3/8/8/8/8/8/8/4K3 w - - 1 0{run}")] {
            parse_line(out, s.as_bytes(), &mut hist);
        }
    }
    // stream 1e: en-passant markers with every kind of occupant on the victim square and on the marker square, capturers on both sides
    for (turn, vr, mr, own_p, opp_p) in [("w", 4usize, 5usize, 'P', 'p'), ("b", 3, 2, 'p', 'P')] {
        for f in 0..8usize {
            for victim in [Some(opp_p), Some(own_p), Some(if own_p == 'P' { 'n' } else { 'N' }), Some(if own_p == 'P' { 'N' } else { 'n' }), None] {
                for marker_occ in [None, Some(opp_p), Some(own_p)] {
                    let mut cells: Vec<Option<char>> = vec![None; 64];
                    cells[4] = Some('K');
                    cells[60] = Some('k');
                    cells[vr * 8 + f] = victim;
                    cells[mr * 8 + f] = marker_occ;
                    if f > 0 { cells[vr * 8 + f - 1] = Some(own_p); }
                    if f < 7 { cells[vr * 8 + f + 1] = Some(own_p); }
                    let mut t = String::new();
                    for r in (0..8).rev() {
                        let mut missing = 0;
                        for ff in 0..8 {
                            match cells[r * 8 + ff] {
                                Some(c) => { if missing > 0 { t.push_str(&missing.to_string()); missing = 0; } t.push(c); }
                                None => missing += 1,
                            }
                        }
                        if missing > 0 { t.push_str(&missing.to_string()); }
                        if r != 0 { t.push('/'); }
                    }
                    let sq = format!("{}{}", (b'a' + f as u8) as char, mr + 1);
                    parse_line(out, format!("{t} {turn} - {sq} 0 1").as_bytes(), &mut hist);
                }
            }
        }
    }
    // stream 1c: one side with 16..24 highly mobile men (must be rejected above 16; if ever accepted, generating
    // its moves overflows the 18-entry move list)
    for n in 15..=24usize {
        for (me, other) in [("N", "k"), ("n", "K"), ("Q", "k"), ("q", "K")] {
            for turn in ["w", "b"] {
                // men on alternating squares of ranks 3..6 so that most are mobile; the kings in opposite corners
                let mut cells: Vec<String> = vec![String::new(); 64];
                let mut placed = 0;
                for sq in (16..48).chain(8..16).chain(48..56) {
                    if placed < n && (sq + sq / 8) % 2 == 0 {
                        cells[sq] = me.to_string();
                        placed += 1;
                    }
                }
                let upper = me.chars().next().unwrap().is_ascii_uppercase();
                cells[if upper { 0 } else { 63 }] = if upper { "K".into() } else { "k".into() };
                cells[if upper { 63 } else { 0 }] = other.to_string();
                let mut s = String::new();
                for r in (0..8).rev() {
                    let mut missing = 0;
                    for f in 0..8 {
                        let c = &cells[r * 8 + f];
                        if c.is_empty() {
                            missing += 1;
                        } else {
                            if missing > 0 {
                                s.push_str(&missing.to_string());
                                missing = 0;
                            }
                            s.push_str(c);
                        }
                    }
                    if missing > 0 {
                        s.push_str(&missing.to_string());
                    }
                    if r != 0 {
                        s.push('/');
                    }
                }
                parse_line(out, format!("{s} {turn} - - 0 1").as_bytes(), &mut hist);
            }
        }
    }
    // stream 2: every single-byte edit of a few seeds
    for k in 0..mutation_seeds {
        let seed = valid[(k * 7919) % valid.len()].clone().into_bytes();
        for i in 0..=seed.len() {
            if i < seed.len() {
                let mut d = seed.clone();
                d.remove(i);
                parse_line(out, &d, &mut hist);
                let mut d = seed.clone();
                d.insert(i, seed[i]);
                parse_line(out, &d, &mut hist);
                for b in 0..=255u8 {
                    if b != seed[i] {
                        let mut d = seed.clone();
                        d[i] = b;
                        parse_line(out, &d, &mut hist);
                    }
                }
            }
            for b in [b' ', b'/', b'8', b'9', b'0', b'K', b'k', b'-', b'w', 0u8, 255u8] {
                let mut d = seed.clone();
                d.insert(i, b);
                parse_line(out, &d, &mut hist);
            }
        }
        // truncations
        for i in 0..seed.len() {
            parse_line(out, &seed[..i], &mut hist);
        }
    }
    // stream 2b: random multi-edit mutations
    let alphabet = b"pnbrqkPNBRQK12345678/ wb-KQkqabcdefgh36 09";
    for _ in 0..n / 4 {
        let mut d = valid[rng.below(valid.len() as u64) as usize].clone().into_bytes();
        for _ in 0..1 + rng.below(3) {
            if d.is_empty() {
                break;
            }
            let i = rng.below(d.len() as u64) as usize;
            match rng.below(4) {
                0 => {
                    d.remove(i);
                }
                1 => d.insert(i, *rng.pick(alphabet)),
                2 => d[i] = *rng.pick(alphabet),
                _ => d[i] = rng.next() as u8,
            }
        }
        parse_line(out, &d, &mut hist);
    }
    // stream 3: raw random bytes
    for _ in 0..n / 4 {
        let len = rng.below(121) as usize;
        let d: Vec<u8> = (0..len).map(|_| if rng.chance(3, 4) { *rng.pick(alphabet) } else { rng.next() as u8 }).collect();
        parse_line(out, &d, &mut hist);
    }
    let mut s = String::from("DIST");
    for (k, v) in &hist {
        s.push_str(&format!("\tfen_{k}={v}"));
    }
    writeln!(out, "{s}").unwrap();
}

// ------------------------------------------------------------------ builder

pub fn builder_line(out: &mut dyn Write, ops: &[String]) {
    let r = catch_unwind(AssertUnwindSafe(|| {
        let mut bd = Board::builder();
        let mut flags = String::new();
        for op in ops {
            let (k, rest) = op.split_at(1);
            match k {
                "t" => {
                    bd.turn(if rest == "0" { Color::White } else { Color::Black });
                }
                "h" => {
                    bd.half_move_clock(rest.parse().unwrap());
                }
                "f" => {
                    bd.full_move_clock(rest.parse().unwrap());
                }
                "e" => {
                    bd.enpassant(if rest == "-" { None } else { File::from_u8(rest.parse().unwrap()) });
                }
                "p" => {
                    let f: Vec<u8> = rest.split('.').map(|x| x.parse().unwrap()).collect();
                    let ok = bd.place(p(f[0]), if f[1] == 0 { Color::White } else { Color::Black }, Piece::from_u8(f[2]).unwrap()).is_ok();
                    flags.push(if ok { '1' } else { '0' });
                }
                _ => {
                    bd.remove(p(rest.parse().unwrap()));
                }
            }
        }
        (flags, bd.build())
    }));
    let res = match r {
        Ok((flags, Ok(b))) => format!("{flags}\t{}", ok_fields(&b)),
        Ok((flags, Err(e))) => format!("{flags}\tE\tBoardValidation:{}\t0\t0\t0\t0", verr(&e)),
        Err(_) => "-\tTRAP\t-\t0\t0\t0\t0".into(),
    };
    writeln!(out, "BL\t{}\t{}", ops.join(" "), res).unwrap();
}

pub fn builders(out: &mut dyn Write, rng: &mut Rng, n: usize) {
    for i in 0..n {
        let mut ops: Vec<String> = Vec::new();
        // mostly start from a sensible skeleton
        if i % 5 != 0 {
            let wk = rng.below(64);
            let mut bk = rng.below(64);
            if bk == wk {
                bk = (bk + 17) % 64;
            }
            ops.push(format!("p{wk}.0.5"));
            ops.push(format!("p{bk}.1.5"));
        }
        let len = rng.below(14);
        for _ in 0..len {
            ops.push(match rng.below(12) {
                0 => format!("t{}", rng.below(2)),
                1 => format!("h{}", if rng.chance(1, 2) { rng.below(120) } else { rng.below(10000) }),
                2 => format!("f{}", if rng.chance(1, 2) { rng.below(120) } else { rng.below(10000) }),
                3 => {
                    if rng.chance(1, 3) {
                        "e-".into()
                    } else {
                        format!("e{}", rng.below(8))
                    }
                }
                4 | 5 => format!("r{}", rng.below(64)),
                _ => format!("p{}.{}.{}", rng.below(64), rng.below(2), {
                    let x = rng.below(12);
                    if x < 5 {
                        0
                    } else if x < 11 {
                        x - 5
                    } else {
                        5
                    }
                }),
            });
        }
        // sometimes make the en-passant marker meaningful
        if rng.chance(1, 4) {
            let f = rng.below(8);
            let t = rng.below(2);
            let (pr, _cr) = if t == 0 { (4, 5) } else { (3, 2) };
            ops.push(format!("t{t}"));
            ops.push(format!("p{}.{}.0", pr * 8 + f, 1 - t));
            ops.push(format!("e{f}"));
        }
        builder_line(out, &ops);
    }
    // order independence: same pieces placed in two different orders give identical boards (compared by the driver via the model)
}

pub fn replay(out: &mut dyn Write, f: &[&str]) {
    let mut hist = BTreeMap::new();
    match f[0] {
        "FP" => parse_line(out, &unhex(f[1]), &mut hist),
        "FR" => reached_line(out, &unhex(f[1])),
        "BL" => builder_line(out, &f[1].split(' ').filter(|x| !x.is_empty()).map(|x| x.to_string()).collect::<Vec<_>>()),
        _ => {}
    }
}
