//! C16: stable-ABI move / optional move / score encodings, exhaustively where finite.
use crate::rng::Rng;
use crate::score::enc;
use chess_api::{EvaluatedMove, StableChessMove};
use chess_bitboard::{Pos, PromotionPiece};
use chess_engine::Score;
use chess_movegen::ChessMove;
use std::io::Write;

fn pr(p: Option<PromotionPiece>) -> String {
    match p {
        None => "-".into(),
        Some(PromotionPiece::Knight) => "n".into(),
        Some(PromotionPiece::Bishop) => "b".into(),
        Some(PromotionPiece::Rook) => "r".into(),
        Some(PromotionPiece::Queen) => "q".into(),
    }
}
fn mv(m: Option<ChessMove>) -> String {
    match m {
        None => "none".into(),
        Some(m) => format!("{},{},{}", m.source as u8, m.dest as u8, pr(m.piece)),
    }
}

pub fn run(out: &mut dyn Write, rng: &mut Rng, random: usize) {
    let promos = [None, Some(PromotionPiece::Knight), Some(PromotionPiece::Bishop), Some(PromotionPiece::Rook), Some(PromotionPiece::Queen)];
    for a in 0..64u8 {
        for b in 0..64u8 {
            for p in promos {
                let m = ChessMove { source: Pos::from_u8(a).unwrap(), dest: Pos::from_u8(b).unwrap(), piece: p };
                let via_stable = ChessMove::from(StableChessMove::from(m));
                let sc = Score::Raw((a as i32) * 64 + b as i32);
                let ev = EvaluatedMove::new(Some(m), sc);
                writeln!(out, "AB\t{}\t{}\t{}\t{}", mv(Some(m)), mv(Some(via_stable)), mv(ev.chess_move()), enc(ev.score())).unwrap();
            }
        }
    }
    let ev = EvaluatedMove::new(None, Score::Min);
    writeln!(out, "AB\tnone\tnone\t{}\t{}", mv(ev.chess_move()), enc(ev.score())).unwrap();
    // scores
    let mut scores = vec![Score::Min, Score::Max];
    for d in 0..=u16::MAX {
        scores.push(Score::BlackMateIn(d));
        scores.push(Score::WhiteMateIn(d));
    }
    for z in [i32::MIN, i32::MIN + 1, -65536, -1, 0, 1, 65536, i32::MAX - 1, i32::MAX] {
        scores.push(Score::Raw(z));
    }
    for _ in 0..random {
        scores.push(Score::Raw(rng.next() as i32));
    }
    for (i, s) in scores.iter().enumerate() {
        let m = if i % 3 == 0 { None } else { Some(ChessMove { source: Pos::from_u8((i % 64) as u8).unwrap(), dest: Pos::from_u8((i / 64 % 64) as u8).unwrap(), piece: promos[i % 5] }) };
        let ev = EvaluatedMove::new(m, *s);
        writeln!(out, "AS\t{}\t{}\t{}\t{}", enc(*s), enc(ev.score()), mv(m), mv(ev.chess_move())).unwrap();
    }
}
