//! C18: every public operation of BitBoard / BitBoardIter on structured and random words.
use crate::rng::Rng;
use chess_bitboard::{BitBoard, File, Pos, Rank};
use std::io::Write;
use std::panic::{catch_unwind, AssertUnwindSafe};

fn p(i: u8) -> Pos {
    Pos::from_u8(i).unwrap()
}
fn h(b: BitBoard) -> String {
    format!("{:x}", b.to_u64())
}

pub fn words(rng: &mut Rng, random: usize) -> Vec<u64> {
    let mut v = vec![0u64, u64::MAX];
    for i in 0..64 {
        v.push(1u64 << i);
    }
    for f in 0..8u8 {
        v.push(BitBoard::from_file(File::from_u8(f).unwrap()).to_u64());
        v.push(BitBoard::from_rank(Rank::from_u8(f).unwrap()).to_u64());
    }
    // all two-square boards
    for i in 0..64 {
        for j in (i + 1)..64 {
            v.push((1u64 << i) | (1u64 << j));
        }
    }
    for _ in 0..random {
        v.push(rng.word());
    }
    v
}

pub fn unary(out: &mut dyn Write, a: u64) {
    let b = BitBoard::from_u64(a);
    writeln!(
        out,
        "BU\t{a:x}\t{}\t{}\t{}\t{}\t{}\t{}\t{}\t{}{}{}{}\t{}",
        h(!b),
        h(b.shift_up()),
        h(b.shift_down()),
        h(b.shift_left()),
        h(b.shift_right()),
        h(b.flip_ranks()),
        b.count(),
        b.any() as u8,
        b.none() as u8,
        b.all() as u8,
        b.some() as u8,
        {
            let it = b.iter();
            let (lo, hi) = it.size_hint();
            let l: Vec<String> = it.map(|x| (x as u8).to_string()).collect();
            format!("{lo}:{}:{}", hi.map(|x| x as i64).unwrap_or(-1), l.join(","))
        }
    )
    .unwrap();
    // pop
    let mut c = b;
    let r = c.pop();
    writeln!(out, "BP\t{a:x}\t{}\t{}", r.map(|x| (x as u8).to_string()).unwrap_or("-".into()), h(c)).unwrap();
    // collect back from iterator of squares and of boards
    let sq: BitBoard = b.iter().collect();
    let bs: BitBoard = b.iter().map(BitBoard::from_pos).collect();
    writeln!(out, "BF\t{a:x}\t{}\t{}", h(sq), h(bs)).unwrap();
}

pub fn square_ops(out: &mut dyn Write, a: u64, s: u8) {
    let b = BitBoard::from_u64(a);
    let mut c = b;
    c.set(p(s));
    let mut d = b;
    d.clear(p(s));
    let mut e = b;
    e -= p(s);
    writeln!(
        out,
        "BS\t{a:x}\t{s}\t{}\t{}\t{}\t{}{}",
        b.contains(p(s)) as u8,
        h(b.with(p(s))),
        h(b.cleared(p(s))),
        (c == b.with(p(s))) as u8,
        (d == b.cleared(p(s)) && e == d && (b - p(s)) == d) as u8
    )
    .unwrap();
}

pub fn binary(out: &mut dyn Write, a: u64, b: u64) {
    let x = BitBoard::from_u64(a);
    let y = BitBoard::from_u64(b);
    let mut t1 = x;
    t1 |= y;
    let mut t2 = x;
    t2 &= y;
    let mut t3 = x;
    t3 ^= y;
    let mut t4 = x;
    t4 -= y;
    let ok = t1 == x.or(y) && t2 == x.and(y) && t3 == x.xor(y) && t4 == x.diff(y);
    writeln!(out, "BB\t{a:x}\t{b:x}\t{}\t{}\t{}\t{}\t{}", h(x | y), h(x & y), h(x ^ y), h(x - y), ok as u8).unwrap();
    // collecting boards is a UNION, also when the collected boards overlap or repeat
    let c1: BitBoard = [x, y, x].into_iter().collect();
    let c2: BitBoard = [y, y].into_iter().collect();
    let c3: BitBoard = [x & y, x, y, x | y].into_iter().collect();
    writeln!(out, "BG\t{a:x}\t{b:x}\t{}\t{}\t{}", h(c1), h(c2), h(c3)).unwrap();
}

pub fn nth(out: &mut dyn Write, a: u64, n: u64) {
    let r = catch_unwind(AssertUnwindSafe(|| {
        let mut it = BitBoard::from_u64(a).iter();
        let r = it.nth(n as usize);
        let rest: BitBoard = it.collect();
        (r, rest)
    }));
    match r {
        Ok((r, rest)) => writeln!(out, "BN\t{a:x}\t{n:x}\t{}\t{}", r.map(|x| (x as u8).to_string()).unwrap_or("-".into()), h(rest)).unwrap(),
        Err(_) => writeln!(out, "BN\t{a:x}\t{n:x}\tTRAP\t0").unwrap(),
    }
}

pub fn ctor(out: &mut dyn Write) {
    for s in 0..64u8 {
        writeln!(out, "BC\tpos\t{s}\t{}\t{}", h(BitBoard::from_pos(p(s))), h(BitBoard::from(p(s)))).unwrap();
    }
    for f in 0..8u8 {
        let fl = File::from_u8(f).unwrap();
        let rk = Rank::from_u8(f).unwrap();
        let fi: BitBoard = fl.into_iter().collect();
        let ri: BitBoard = rk.into_iter().collect();
        writeln!(out, "BC\tfile\t{f}\t{}\t{}", h(BitBoard::from_file(fl)), h(fi)).unwrap();
        writeln!(out, "BC\trank\t{f}\t{}\t{}", h(BitBoard::from_rank(rk)), h(ri)).unwrap();
    }
    writeln!(out, "BC\tempty\t0\t{}\t{}", h(BitBoard::empty()), h(BitBoard::from(None::<Pos>))).unwrap();
}

pub fn run(out: &mut dyn Write, rng: &mut Rng, random: usize) {
    ctor(out);
    let ws = words(rng, random);
    let ns: [u64; 14] = [0, 1, 2, 3, 7, 31, 62, 63, 64, 65, 127, 128, 1 << 32, u64::MAX];
    for (i, &a) in ws.iter().enumerate() {
        unary(out, a);
        let cnt = a.count_ones() as u64;
        for n in [cnt.wrapping_sub(1), cnt, cnt + 1] {
            nth(out, a, n);
        }
        // structured words get the full n grid, others a sample
        if i < 2 + 64 + 16 || i % 7 == 0 {
            for &n in &ns {
                nth(out, a, n);
            }
            for s in 0..64u8 {
                if i < 82 || s % 9 == (i % 9) as u8 {
                    square_ops(out, a, s);
                }
            }
        } else {
            nth(out, a, rng.below(70));
            square_ops(out, a, rng.below(64) as u8);
        }
        let b = ws[rng.below(ws.len() as u64) as usize];
        binary(out, a, b);
        binary(out, a, rng.word());
    }
}

pub fn replay(out: &mut dyn Write, f: &[&str]) {
    let hx = |s: &str| u64::from_str_radix(s, 16).unwrap();
    match f[0] {
        "BU" | "BP" | "BF" => unary(out, hx(f[1])),
        "BS" => square_ops(out, hx(f[1]), f[2].parse().unwrap()),
        "BB" | "BG" => binary(out, hx(f[1]), hx(f[2])),
        "BN" => nth(out, hx(f[1]), hx(f[2])),
        _ => ctor(out),
    }
}
