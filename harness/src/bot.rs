//! C15: the engine plugin (chess-bot cdylib) driven through its stable interface:
//! set_board / make_move (legal and illegal) / board / evaluate.
use crate::chess::{mv_parse, mv_str, p, pick_move, sorted_moves, xfen, CORPUS};
use crate::rng::Rng;
use crate::score::enc;
use crate::search::CountingTimeout;
use chess_api::{ChessApiRef, ChessEngine};
use chess_bitboard::{Piece, PromotionPiece};
use chess_movegen::{Board, ChessMove};
use std::cell::Cell;
use std::io::Write;
use std::panic::{catch_unwind, AssertUnwindSafe};

pub fn run_ops(engine: &mut ChessEngine, ops: &[String]) -> Vec<String> {
    let mut res = Vec::new();
    for op in ops {
        let (k, rest) = op.split_at(1);
        res.push(match k {
            "s" => match rest.replace('_', " ").parse::<Board>() {
                Ok(b) => {
                    engine.set_board(b);
                    ".".to_string()
                }
                Err(_) => "BADFEN".to_string(),
            },
            "m" => {
                let r = engine.make_move(mv_parse(rest).unwrap());
                format!("{}{}", r.is_valid as u8, r.is_three_fold_draw as u8)
            }
            "b" => xfen(&engine.board()).replace(' ', "_"),
            "e" => {
                let t = CountingTimeout { k: rest.parse().unwrap_or(0), polls: Cell::new(0) };
                let (mv, sc) = engine.evaluate(&t);
                format!("{},{}", mv.map(mv_str).unwrap_or("-".into()), enc(sc))
            }
            _ => "?".into(),
        });
    }
    res
}

pub fn line(out: &mut dyn Write, api: &ChessApiRef, ops: &[String]) {
    let r = catch_unwind(AssertUnwindSafe(|| {
        let mut e = api.new_engine();
        run_ops(&mut e, ops)
    }));
    match r {
        Ok(res) => writeln!(out, "BT\t{}\t{}", ops.join(" "), res.join(" ")).unwrap(),
        Err(_) => writeln!(out, "BT\t{}\tTRAP", ops.join(" ")).unwrap(),
    }
}

fn reversible(b: &Board, m: &ChessMove) -> bool {
    let pc = b.raw().get(m.source).map(|x| x.1);
    pc != Some(Piece::Pawn) && b.raw().get(m.dest).is_none()
}

pub fn run(out: &mut dyn Write, rng: &mut Rng, n: usize, so: &str) {
    let api = match ChessApiRef::load_from_file(std::path::Path::new(so)) {
        Ok(a) => a,
        Err(e) => {
            writeln!(out, "BT\tLOAD\tLOADFAIL:{}", e.to_string().replace(['\t', '\n'], " ")).unwrap();
            return;
        }
    };
    let starts: Vec<String> = CORPUS.iter().map(|s| s.to_string()).filter(|s| s.parse::<Board>().is_ok()).collect();
    let promos = [None, None, None, Some(PromotionPiece::Queen), Some(PromotionPiece::Knight)];
    let mut reps = 0u64;
    let mut illegal = 0u64;
    let mut calls = 0u64;
    for i in 0..n {
        let mut ops: Vec<String> = Vec::new();
        // the plugin starts on the standard position; half of the histories set a board first
        let mut b = Board::standard();
        if i % 2 == 1 {
            let f = rng.pick(&starts).clone();
            b = f.parse().unwrap();
            ops.push(format!("s{}", f.replace(' ', "_")));
        }
        let total = 40 + rng.below(260) as usize;
        let mut seen: Vec<Board> = Vec::new();
        while ops.len() < total {
            let legals = sorted_moves(&b);
            if legals.is_empty() {
                let f = rng.pick(&starts).clone();
                b = f.parse().unwrap();
                ops.push(format!("s{}", f.replace(' ', "_")));
                seen.clear();
                continue;
            }
            match rng.below(20) {
                0 => ops.push("b".into()),
                1 => {
                    // illegal / near-miss move
                    let mut m = *rng.pick(&legals);
                    match rng.below(3) {
                        0 => m.dest = p(rng.below(64) as u8),
                        1 => m.source = p(rng.below(64) as u8),
                        _ => m.piece = *rng.pick(&promos),
                    }
                    if !legals.contains(&m) {
                        illegal += 1;
                    }
                    ops.push(format!("m{}", mv_str(m)));
                    if legals.contains(&m) {
                        b = b.move_new(m).unwrap();
                        seen.push(b);
                    }
                }
                2 if i % 2 == 0 => ops.push(format!("e{}", rng.below(60))),
                3 if rng.chance(1, 6) => {
                    // re-set the board in mid-history (clears the repetition table)
                    let f = xfen(&b);
                    ops.push(format!("s{}", f.replace(' ', "_")));
                    seen.clear();
                }
                4..=12 => {
                    // a reversible cycle a, x, a', x' repeated so that positions recur (sometimes by another move order)
                    let mine: Vec<ChessMove> = legals.iter().copied().filter(|m| reversible(&b, m)).collect();
                    if mine.is_empty() {
                        continue;
                    }
                    let a = *rng.pick(&mine);
                    let Some(b1) = b.move_new(a) else { continue };
                    let theirs: Vec<ChessMove> = sorted_moves(&b1).into_iter().filter(|m| reversible(&b1, m)).collect();
                    if theirs.is_empty() {
                        continue;
                    }
                    let x = *rng.pick(&theirs);
                    let Some(b2) = b1.move_new(x) else { continue };
                    let a_back = ChessMove { source: a.dest, dest: a.source, piece: None };
                    let x_back = ChessMove { source: x.dest, dest: x.source, piece: None };
                    let Some(b3) = b2.move_new(a_back) else { continue };
                    if b3.move_new(x_back).is_none() {
                        continue;
                    }
                    let cycles = 1 + rng.below(4);
                    for _ in 0..cycles {
                        for m in [a, x, a_back, x_back] {
                            ops.push(format!("m{}", mv_str(m)));
                            b = b.move_new(m).unwrap();
                            if seen.iter().filter(|s| **s == b).count() >= 1 {
                                reps += 1;
                            }
                            seen.push(b);
                        }
                        if rng.chance(1, 5) {
                            ops.push("b".into());
                        }
                    }
                }
                _ => {
                    let m = pick_move(rng, &b, &legals);
                    ops.push(format!("m{}", mv_str(m)));
                    b = b.move_new(m).unwrap();
                    seen.push(b);
                }
            }
        }
        ops.push("b".into());
        ops.push(if i % 3 == 0 { "e45".to_string() } else { "e3".to_string() });
        calls += ops.len() as u64;
        line(out, &api, &ops);
    }
    // scripted: a proposal obtained in one position must not be honoured after the board was set to another position
    // (evaluate on a position with a single legal move, set_board elsewhere, submit that move where it is illegal / legal)
    for (fa, mv, fb) in [
        ("1r5k/8/8/8/8/8/8/K7 w - - 0 1", "0.8.-", "6r1/8/8/8/8/1k6/7P/K7 w - - 0 1"),
        ("1R5K/8/8/8/8/8/8/k7 b - - 0 1", "0.8.-", "6R1/8/8/8/8/1K6/7p/k7 b - - 0 1"),
        ("1r5k/8/8/8/8/8/8/K7 w - - 0 1", "0.8.-", "7k/8/8/8/8/8/8/K7 w - - 0 1"),
        ("k7/8/8/8/8/8/8/K6r w - - 0 1", "0.8.-", "k7/8/8/8/8/8/1r6/K7 w - - 0 1"),
    ] {
        for k in [0u64, 3, 40] {
            let ops: Vec<String> = vec![
                format!("s{}", fa.replace(' ', "_")), format!("e{k}"), format!("s{}", fb.replace(' ', "_")), format!("m{mv}"), "b".into(),
                format!("e{k}"), format!("m{mv}"), "b".into(),
            ];
            calls += ops.len() as u64;
            line(out, &api, &ops);
        }
    }
    // scripted: positions whose best move is an under-promotion (the proposal travels through the optional-move ABI types)
    for f in ["6br/5Ppk/6pp/8/8/8/8/K7 w - - 0 1", "k7/8/8/8/8/6PP/5pPK/6BR b - - 0 1", "5b1r/4P1pk/6pp/8/8/8/8/K7 w - - 0 1"] {
        let ops: Vec<String> = vec![format!("s{}", f.replace(' ', "_")), "e400".into(), "b".into()];
        calls += ops.len() as u64;
        line(out, &api, &ops);
    }
    // one long shuffle: every position of a 4-ply knight cycle recurs 300 times (u8 counter boundary at 256)
    if std::env::var("VERIF_SEED").map(|s| s.ends_with('1') || s.len() > 6).unwrap_or(true) {
        let mut ops: Vec<String> = Vec::new();
        for _ in 0..300 {
            for m in ["6.21.-", "62.45.-", "21.6.-", "45.62.-"] {
                ops.push(format!("m{m}"));
            }
        }
        ops.push("b".into());
        calls += ops.len() as u64;
        line(out, &api, &ops);
    }
    writeln!(out, "DIST\tbot_histories={n}\tbot_calls={calls}\tbot_repeated_positions={reps}\tbot_illegal_moves_offered={illegal}").unwrap();
}

pub fn replay(out: &mut dyn Write, f: &[&str], so: &str) {
    if let Ok(api) = ChessApiRef::load_from_file(std::path::Path::new(so)) {
        let ops: Vec<String> = f[1].split(' ').filter(|x| !x.is_empty()).map(|x| x.to_string()).collect();
        line(out, &api, &ops);
    }
}
