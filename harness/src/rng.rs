//! Single deterministic PRNG (splitmix64) — every random choice of the harness derives from it.
#[derive(Clone)]
pub struct Rng(pub u64);

impl Rng {
    pub fn new(seed: u64) -> Self {
        Rng(seed ^ 0x9E37_79B9_7F4A_7C15)
    }
    pub fn next(&mut self) -> u64 {
        self.0 = self.0.wrapping_add(0x9E37_79B9_7F4A_7C15);
        let mut z = self.0;
        z = (z ^ (z >> 30)).wrapping_mul(0xBF58_476D_1CE4_E5B9);
        z = (z ^ (z >> 27)).wrapping_mul(0x94D0_49BB_1331_11EB);
        z ^ (z >> 31)
    }
    pub fn below(&mut self, n: u64) -> u64 {
        if n == 0 {
            0
        } else {
            self.next() % n
        }
    }
    pub fn chance(&mut self, num: u64, den: u64) -> bool {
        self.below(den) < num
    }
    pub fn pick<'a, T>(&mut self, xs: &'a [T]) -> &'a T {
        &xs[self.below(xs.len() as u64) as usize]
    }
    /// sparse / dense / structured 64-bit words
    pub fn word(&mut self) -> u64 {
        match self.below(6) {
            0 => self.next(),
            1 => self.next() & self.next(),
            2 => self.next() & self.next() & self.next(),
            3 => self.next() | self.next(),
            4 => 1u64 << self.below(64),
            _ => (1u64 << self.below(64)) | (1u64 << self.below(64)),
        }
    }
}

pub fn seed_from_env() -> u64 {
    std::env::var("VERIF_SEED")
        .ok()
        .and_then(|s| s.trim().parse::<u64>().ok())
        .unwrap_or(1)
}
