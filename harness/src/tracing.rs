//! C20: real threads driven one operation at a time (hand-off through channels gives the
//! happens-before edges); after every step every thread reports is_enabled().
use crate::rng::Rng;
use std::io::Write;
use std::sync::mpsc::{channel, Receiver, Sender};

const OPS: &[u8] = b"EDTedtkri";

enum Cmd {
    Op(u8),
    Report,
    Quit,
}

fn worker(rx: Receiver<Cmd>, tx: Sender<bool>) {
    let mut saved: Vec<tracing_enabled::LocalEnableState> = Vec::new();
    for cmd in rx {
        match cmd {
            Cmd::Op(op) => {
                match op {
                    b'E' => tracing_enabled::enable(),
                    b'D' => tracing_enabled::disable(),
                    b'T' => tracing_enabled::toggle(),
                    b'e' => tracing_enabled::local_enable(),
                    b'd' => tracing_enabled::local_disable(),
                    b't' => tracing_enabled::local_toggle(),
                    b'k' => saved.push(tracing_enabled::local_take()),
                    b'r' => {
                        if let Some(s) = saved.pop() {
                            tracing_enabled::restore(s)
                        }
                    }
                    _ => {
                        let _ = tracing_enabled::is_enabled();
                    }
                }
                tx.send(true).unwrap();
            }
            Cmd::Report => tx.send(tracing_enabled::is_enabled()).unwrap(),
            Cmd::Quit => break,
        }
    }
}

pub fn case(out: &mut dyn Write, nthreads: usize, trace: &[(usize, u8)]) {
    // reset the global flag from a throw-away thread (its local override dies with it)
    std::thread::spawn(tracing_enabled::enable).join().unwrap();
    let mut txs = Vec::new();
    let mut rxs = Vec::new();
    let mut handles = Vec::new();
    for _ in 0..nthreads {
        let (tx, rx) = channel::<Cmd>();
        let (rtx, rrx) = channel::<bool>();
        handles.push(std::thread::spawn(move || worker(rx, rtx)));
        txs.push(tx);
        rxs.push(rrx);
    }
    let mut rows: Vec<String> = Vec::new();
    for &(t, op) in trace {
        txs[t].send(Cmd::Op(op)).unwrap();
        rxs[t].recv().unwrap();
        let mut row = String::new();
        for u in 0..nthreads {
            txs[u].send(Cmd::Report).unwrap();
            row.push(if rxs[u].recv().unwrap() { '1' } else { '0' });
        }
        rows.push(row);
    }
    for tx in &txs {
        tx.send(Cmd::Quit).unwrap();
    }
    for h in handles {
        h.join().unwrap();
    }
    let tr: Vec<String> = trace.iter().map(|(t, o)| format!("{t}{}", *o as char)).collect();
    writeln!(out, "TR\t{nthreads}\t{}\t{}", tr.join(","), rows.join(",")).unwrap();
}

pub fn run(out: &mut dyn Write, rng: &mut Rng, exhaustive_len: usize, random: usize) {
    // all 2-thread schedules up to the given length over the whole op alphabet
    let alpha: Vec<(usize, u8)> = (0..2).flat_map(|t| OPS.iter().map(move |&o| (t, o))).collect();
    for len in 1..=exhaustive_len {
        let total = alpha.len().pow(len as u32);
        for i in 0..total {
            let mut k = i;
            let mut tr = Vec::with_capacity(len);
            for _ in 0..len {
                tr.push(alpha[k % alpha.len()]);
                k /= alpha.len();
            }
            case(out, 2, &tr);
        }
    }
    for _ in 0..random {
        let n = 2 + rng.below(2) as usize;
        let len = 1 + rng.below(14) as usize;
        let tr: Vec<(usize, u8)> = (0..len).map(|_| (rng.below(n as u64) as usize, *rng.pick(OPS))).collect();
        case(out, n, &tr);
    }
}

pub fn replay(out: &mut dyn Write, f: &[&str]) {
    let n: usize = f[1].parse().unwrap();
    let tr: Vec<(usize, u8)> = f[2]
        .split(',')
        .filter(|x| !x.is_empty())
        .map(|x| ((x.as_bytes()[0] - b'0') as usize, x.as_bytes()[1]))
        .collect();
    case(out, n, &tr);
}
