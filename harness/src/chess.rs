//! Position-based observations (C01-C07): generators of reachable / accepted positions and one
//! canonical line per observation of the implementation.
use crate::rng::Rng;
use chess_bitboard::{BitBoard, Color, File, Piece, Pos, PromotionPiece, Rank};
use chess_movegen::{Board, ChessMove, GameState};
use std::io::Write;
use std::panic::{catch_unwind, AssertUnwindSafe};

pub fn p(i: u8) -> Pos {
    Pos::from_u8(i).unwrap()
}

pub fn mv_str(m: ChessMove) -> String {
    let pr = match m.piece {
        None => '-',
        Some(PromotionPiece::Knight) => 'n',
        Some(PromotionPiece::Bishop) => 'b',
        Some(PromotionPiece::Rook) => 'r',
        Some(PromotionPiece::Queen) => 'q',
    };
    format!("{}.{}.{}", m.source as u8, m.dest as u8, pr)
}
pub fn mv_parse(s: &str) -> Option<ChessMove> {
    let f: Vec<&str> = s.split('.').collect();
    if f.len() != 3 {
        return None;
    }
    Some(ChessMove {
        source: Pos::from_u8(f[0].parse().ok()?)?,
        dest: Pos::from_u8(f[1].parse().ok()?)?,
        piece: match f[2] {
            "n" => Some(PromotionPiece::Knight),
            "b" => Some(PromotionPiece::Bishop),
            "r" => Some(PromotionPiece::Rook),
            "q" => Some(PromotionPiece::Queen),
            _ => None,
        },
    })
}

pub fn sorted_moves(b: &Board) -> Vec<ChessMove> {
    let mut v: Vec<ChessMove> = b.legals().collect();
    v.sort_by_key(|m| (m.source as u8, m.dest as u8, m.piece.map(|x| x as u8).unwrap_or(0)));
    v
}
pub fn moves_csv(v: &[ChessMove]) -> String {
    v.iter().map(|m| mv_str(*m)).collect::<Vec<_>>().join(" ")
}

const PIECES: [[char; 6]; 2] = [['P', 'N', 'B', 'R', 'Q', 'K'], ['p', 'n', 'b', 'r', 'q', 'k']];

/// fields that only Debug exposes: castle rights text, en-passant file, pinned / checkers grid, raw piece hash
pub struct DebugView {
    pub rights: String,
    pub ep: Option<char>,
    pub pinned: u64,
    pub checkers: u64,
    pub move_zobrist: u64,
}
pub fn debug_view(b: &Board) -> DebugView {
    let d = format!("{b:?}");
    let mut rights = String::new();
    let mut ep = None;
    let mut pinned = 0u64;
    let mut checkers = 0u64;
    let mut mz = 0u64;
    let mut in_board = false;
    for line in d.lines() {
        if let Some(r) = line.strip_prefix("castle rights: ") {
            rights = r.trim().to_string();
        } else if let Some(e) = line.strip_prefix("en-passant: ") {
            ep = e.trim().chars().next().map(|c| c.to_ascii_lowercase());
        } else if let Some(z) = line.strip_prefix("move zobrist: ") {
            mz = z.trim().parse().unwrap_or(0);
        } else if line.starts_with("board:") {
            in_board = true;
        } else if in_board {
            let bytes = line.as_bytes();
            if !bytes.is_empty() && (b'1'..=b'8').contains(&bytes[0]) {
                let rank = bytes[0] - b'1';
                for file in 0..8usize {
                    let mark = bytes.get(1 + 2 * file).copied().unwrap_or(b' ');
                    let sq = rank as u64 * 8 + file as u64;
                    if mark == b'#' {
                        pinned |= 1 << sq;
                    } else if mark == b'*' {
                        checkers |= 1 << sq;
                    }
                }
            }
        }
    }
    DebugView { rights, ep, pinned, checkers, move_zobrist: mz }
}

/// interchange FEN assembled from accessors (placement through raw().get, turn(), clocks) and the Debug fields,
/// NOT through the Display implementation under test
pub fn xfen(b: &Board) -> String {
    let dv = debug_view(b);
    let mut s = String::new();
    for r in (0..8u8).rev() {
        let mut missing = 0;
        for f in 0..8u8 {
            match b.raw().get(p(r * 8 + f)) {
                Some((c, pc)) => {
                    if missing > 0 {
                        s.push_str(&missing.to_string());
                        missing = 0;
                    }
                    s.push(PIECES[c as usize][pc as usize]);
                }
                None => missing += 1,
            }
        }
        if missing > 0 {
            s.push_str(&missing.to_string());
        }
        if r != 0 {
            s.push('/');
        }
    }
    s.push(' ');
    s.push(match b.turn() {
        Color::White => 'w',
        Color::Black => 'b',
    });
    s.push(' ');
    s.push_str(&dv.rights);
    s.push(' ');
    match dv.ep {
        Some(f) => {
            s.push(f);
            s.push(match b.turn() {
                Color::White => '6',
                Color::Black => '3',
            });
        }
        None => s.push('-'),
    }
    s.push_str(&format!(" {} {}", b.half_move_clock(), b.full_move_clock()));
    s
}

fn state_code(b: &Board) -> &'static str {
    match b.state() {
        GameState::CheckMate => "M",
        GameState::StaleMate => "D",
        GameState::Check => "C",
        GameState::Running => "R",
    }
}

/// PO line: everything observable about one position, plus agreement with the same position rebuilt from its text
/// near-equal pairs: the same placement with the en-passant marker dropped, one castling right dropped, the clocks changed.
/// `==` must compare placement, side to move, castling rights and en-passant file (and nothing else), and boards that
/// compare equal must hash equal (zobrist() and std Hash).
pub fn pair_lines(out: &mut dyn Write, b: &Board) {
    use std::hash::{Hash, Hasher};
    let x = xfen(b);
    let f: Vec<&str> = x.split(' ').collect();
    if f.len() != 6 {
        return;
    }
    let mut vars: Vec<String> = Vec::new();
    if f[3] != "-" {
        vars.push(format!("{} {} {} - {} {}", f[0], f[1], f[2], f[4], f[5]));
    }
    if f[2] != "-" {
        for (i, _) in f[2].char_indices() {
            let mut r: String = f[2].to_string();
            r.remove(i);
            if r.is_empty() {
                r = "-".into();
            }
            vars.push(format!("{} {} {} {} {} {}", f[0], f[1], r, f[3], f[4], f[5]));
        }
    }
    vars.push(format!("{} {} {} {} 7 {}", f[0], f[1], f[2], f[3], f[5]));
    vars.push(format!("{} {} {} {} {} 77", f[0], f[1], f[2], f[3], f[4]));
    let h = |b: &Board| {
        let mut s = std::collections::hash_map::DefaultHasher::new();
        b.hash(&mut s);
        s.finish()
    };
    for v in vars {
        if let Ok(vb) = v.parse::<Board>() {
            writeln!(out, "PE\t{}\t{}\t{}\t{:x}\t{:x}\t{}", x, xfen(&vb), (*b == vb) as u8, b.zobrist(), vb.zobrist(), (h(b) == h(&vb)) as u8).unwrap();
        }
    }
}

pub fn pos_line(out: &mut dyn Write, b: &Board) {
    if b.zobrist() % 8 == 0 {
        pair_lines(out, b);
    }
    let dv = debug_view(b);
    let legals = sorted_moves(b);
    let disp = b.to_string();
    let fresh = match disp.parse::<Board>() {
        Ok(f) => {
            let flags = [
                moves_csv(&sorted_moves(&f)) == moves_csv(&legals),
                f.in_check() == b.in_check(),
                f.zobrist() == b.zobrist(),
                f.to_string() == disp,
                format!("{f:?}") == format!("{b:?}"),
                f == *b && f.half_move_clock() == b.half_move_clock() && f.full_move_clock() == b.full_move_clock(),
            ];
            flags.iter().map(|x| if *x { '1' } else { '0' }).collect::<String>()
        }
        Err(e) => format!("PARSEFAIL:{e:?}").replace(['\t', '\n'], " "),
    };
    let it = b.legals();
    let (lo, hi) = it.size_hint();
    writeln!(
        out,
        "PO\t{}\t{}\t{}\t{}:{}:{}:{}\t{}\t{}\t{:x}\t{:x}\t{:x}\t{:x}\t{}",
        xfen(b),
        disp,
        moves_csv(&legals),
        it.len(),
        lo,
        hi.map(|x| x as i64).unwrap_or(-1),
        it.is_empty() as u8,
        b.in_check() as u8,
        state_code(b),
        b.zobrist(),
        dv.pinned,
        dv.checkers,
        dv.move_zobrist,
        fresh
    )
    .unwrap();
}

fn after_fields(a: &Board) -> String {
    let dv = debug_view(a);
    format!("{}\t{:x}\t{:x}\t{:x}\t{:x}", xfen(a), a.zobrist(), dv.pinned, dv.checkers, dv.move_zobrist)
}

/// MV line: one legal move applied through the three checked operations
pub fn move_line(out: &mut dyn Write, b: &Board, m: ChessMove) {
    let new = b.move_new(m);
    let mut mu = *b;
    let ok_mut = mu.move_mut(m);
    let mut into = Board::standard();
    let ok_into = b.move_into(m, &mut into);
    let agree = match new {
        Some(n) => ok_mut && ok_into && format!("{n:?}") == format!("{mu:?}") && format!("{n:?}") == format!("{into:?}"),
        None => false,
    };
    match new {
        Some(n) => writeln!(out, "MV\t{}\t{}\t{}\t{}\t{:x}\t{:x}", xfen(b), mv_str(m), after_fields(&n), agree as u8, mu.zobrist(), into.zobrist()).unwrap(),
        None => writeln!(out, "MV\t{}\t{}\tREFUSED\t0\t0\t0\t0\t0", xfen(b), mv_str(m)).unwrap(),
    }
}

/// CK line: an arbitrary (from,to,promotion) triple offered to the checked operations
pub fn check_line(out: &mut dyn Write, b: &Board, m: ChessMove) {
    let before = format!("{b:?}");
    let legal = b.is_legal(m);
    let new = b.move_new(m);
    let mut mu = *b;
    let ok_mut = mu.move_mut(m);
    let sentinel = Board::standard();
    let mut into = sentinel;
    let ok_into = b.move_into(m, &mut into);
    let untouched = if ok_mut { true } else { format!("{mu:?}") == before } && if ok_into { true } else { format!("{into:?}") == format!("{sentinel:?}") };
    let after = match new {
        Some(n) => after_fields(&n),
        None => "-\t0\t0\t0\t0".to_string(),
    };
    writeln!(
        out,
        "CK\t{}\t{}\t{}{}{}{}\t{}\t{}",
        xfen(b),
        mv_str(m),
        legal as u8,
        new.is_some() as u8,
        ok_mut as u8,
        ok_into as u8,
        untouched as u8,
        after
    )
    .unwrap();
}

/// LG line: the set of all 20480 triples the implementation declares legal
pub fn legal_set_line(out: &mut dyn Write, b: &Board) {
    let promos = [None, Some(PromotionPiece::Knight), Some(PromotionPiece::Bishop), Some(PromotionPiece::Rook), Some(PromotionPiece::Queen)];
    let mut v = Vec::new();
    for s in 0..64u8 {
        for d in 0..64u8 {
            for pr in promos {
                let m = ChessMove { source: p(s), dest: p(d), piece: pr };
                if b.is_legal(m) {
                    v.push(m);
                }
            }
        }
    }
    v.sort_by_key(|m| (m.source as u8, m.dest as u8, m.piece.map(|x| x as u8).unwrap_or(0)));
    writeln!(out, "LG\t{}\t{}", xfen(b), moves_csv(&v)).unwrap();
}

// ------------------------------------------------------------------------------------------------ generators

pub const CORPUS: &[&str] = &[
    "rnbqkbnr/pppppppp/8/8/8/8/PPPPPPPP/RNBQKBNR w KQkq - 0 1",
    "r3k2r/p1ppqpb1/bn2pnp1/3PN3/1p2P3/2N2Q1p/PPPBBPPP/R3K2R w KQkq - 0 1",
    "8/2p5/3p4/KP5r/1R3p1k/8/4P1P1/8 w - - 0 1",
    "r3k2r/Pppp1ppp/1b3nbN/nP6/BBP1P3/q4N2/Pp1P2PP/R2Q1RK1 w kq - 0 1",
    "rnbq1k1r/pp1Pbppp/2p5/8/2B5/8/PPP1NnPP/RNBQK2R w KQ - 1 8",
    "r4rk1/1pp1qppp/p1np1n2/2b1p1B1/2B1P1b1/P1NP1N2/1PP1QPPP/R4RK1 w - - 0 10",
    "8/P1k5/K7/8/8/8/8/8 w - - 0 1",
    "8/8/8/8/8/k7/p1K5/8 b - - 0 1",
    "r3k2r/8/8/8/8/8/8/R3K2R w KQkq - 0 1",
    "r3k2r/8/8/8/8/8/8/R3K2R b KQkq - 0 1",
    "4k3/8/8/8/8/8/8/4K2R w K - 0 1",
    "4k2r/8/8/8/8/8/8/4K3 b k - 0 1",
    "1b2k3/3p4/8/4P3/5K2/8/8/8 b - - 0 1",
    "3r2k1/3p4/8/4P3/8/8/8/3K4 b - - 0 1",
    "8/8/8/2k5/3Pp3/8/8/4K3 b - d3 0 1",
    "8/8/8/8/k2Pp2R/8/8/4K3 b - d3 0 1",
    "4k3/8/8/KPp4r/8/8/8/8 w - c6 0 1",
    "8/5k2/8/2Pp4/8/8/B7/4K3 w - d6 0 1",
    "rnbqkbnr/ppp1p1pp/8/3pPp2/8/8/PPPP1PPP/RNBQKBNR w KQkq f6 0 3",
    "4k3/1P6/8/8/8/8/1p6/4K3 w - - 0 1",
    "n1n5/PPPk4/8/8/8/8/4Kppp/5N1N b - - 0 1",
    "8/8/1k6/2b5/2pP4/8/5K2/8 b - d3 0 1",
    "5k2/8/8/8/8/8/8/4K2R w K - 0 1",
    "3k4/8/8/8/8/8/8/R3K3 w Q - 0 1",
    "r3k2r/1b4bq/8/8/8/8/7B/R3K2R w KQkq - 0 1",
    "r3k2r/8/3Q4/8/8/5q2/8/R3K2R b KQkq - 0 1",
    "2K2r2/4P3/8/8/8/8/8/3k4 w - - 0 1",
    "8/8/1P2K3/8/2n5/1q6/8/5k2 b - - 0 1",
    "K1k5/8/P7/8/8/8/8/8 w - - 0 1",
    "8/k1P5/8/1K6/8/8/8/8 w - - 0 1",
    "8/8/2k5/5q2/5n2/8/5K2/8 b - - 0 1",
    "6k1/5ppp/8/8/8/8/8/R3K3 w Q - 0 1",
    "7k/5KQ1/8/8/8/8/8/8 b - - 0 1",
    "k7/2Q5/2K5/8/8/8/8/8 b - - 97 60",
    "4k3/8/8/8/8/8/4R3/4K3 b - - 99 80",
    // every non-trivial subset of the castling rights (the writer's castling field incl. its "-" placeholder), both sides to move
    "r3k2r/8/8/8/8/8/8/R3K2R w K - 0 1", "r3k2r/8/8/8/8/8/8/R3K2R w Q - 0 1", "r3k2r/8/8/8/8/8/8/R3K2R w k - 0 1", "r3k2r/8/8/8/8/8/8/R3K2R w q - 0 1",
    "r3k2r/8/8/8/8/8/8/R3K2R b KQ - 0 1", "r3k2r/8/8/8/8/8/8/R3K2R b Kk - 0 1", "r3k2r/8/8/8/8/8/8/R3K2R b Kq - 0 1", "r3k2r/8/8/8/8/8/8/R3K2R b Qk - 0 1",
    "r3k2r/8/8/8/8/8/8/R3K2R w Qq - 0 1", "r3k2r/8/8/8/8/8/8/R3K2R w kq - 0 1", "r3k2r/8/8/8/8/8/8/R3K2R w KQk - 0 1", "r3k2r/8/8/8/8/8/8/R3K2R b KQq - 0 1",
    "r3k2r/8/8/8/8/8/8/R3K2R b Kkq - 0 1", "r3k2r/8/8/8/8/8/8/R3K2R w Qkq - 0 1", "r3k2r/8/8/8/8/8/8/R3K2R b q - 0 1", "r3k2r/8/8/8/8/8/8/R3K2R b - - 0 1",
    // a king (or another man without castling rights of its own) captures a rook on its home square while the right is still set
    "4k2r/p5K1/8/8/8/8/8/8 w k - 0 1",
    "r3k3/1K5p/8/8/8/8/8/8 w q - 0 1",
    "8/8/8/8/8/8/1k6/R3K3 b Q - 3 40",
    "8/8/8/8/8/8/P5k1/4K2R b K - 3 40",
    "r3k2r/8/8/8/8/8/6B1/4K3 w kq - 0 1",
    "4k3/8/8/8/8/8/1p6/R3K2R b KQ - 0 1",
    // extremal move lists: 16 mobile men plus two en-passant capturers = 18 entries (ArrayVec capacity)
    "4k3/8/8/2PpP3/P6P/3P4/1P3PP1/RNBQKBNR w KQ d6 0 1",
    "rnbqkbnr/1p3pp1/3p4/p6p/2pPp3/8/8/4K3 b kq d3 0 1",
    // ... with castling available on top (a king entry that also carries castling destinations must stay ONE entry)
    "6k1/8/8/2PpP3/P4NP1/2NQ4/1P1BBPPP/R3K2R w KQ d6 0 1",
    "6k1/8/8/2PpP3/P4NP1/2NQ4/1P1BBPPP/R3K2R w K d6 0 1",
    "r3k2r/1p1bbppp/2nq4/p4np1/2pPp3/8/8/6K1 b kq d3 0 1",
    "r3k2r/1p1bbppp/2nq4/p4np1/2pPp3/8/8/6K1 b q d3 0 1",
    "r1bqkbnr/p1pp1ppp/1pn5/4p3/2B1P3/5Q2/PPPP1PPP/RNB1K1NR w KQkq - 0 4",
    "R6R/3Q4/1Q4Q1/4Q3/2Q4Q/Q4Q2/pp1Q4/kBNN1KB1 w - - 0 1",
];

fn is_capture(b: &Board, m: ChessMove) -> bool {
    b.raw().get(m.dest).is_some()
}

/// biased random legal move: captures, checks, double steps, castling, promotions preferred
pub fn pick_move(rng: &mut Rng, b: &Board, legals: &[ChessMove]) -> ChessMove {
    if rng.chance(1, 2) {
        let special: Vec<ChessMove> = legals
            .iter()
            .copied()
            .filter(|m| {
                let pc = b.raw().get(m.source).map(|x| x.1);
                is_capture(b, *m)
                    || m.piece.is_some()
                    || (pc == Some(Piece::Pawn) && (m.source as i32 - m.dest as i32).abs() == 16)
                    || (pc == Some(Piece::Pawn) && (m.source as u8 % 8) != (m.dest as u8 % 8))
                    || (pc == Some(Piece::King) && (m.source as i32 % 8 - m.dest as i32 % 8).abs() == 2)
                    || b.move_new(*m).map(|n| n.in_check()).unwrap_or(false)
            })
            .collect();
        if !special.is_empty() {
            return *rng.pick(&special);
        }
    }
    *rng.pick(legals)
}

/// sparse random placement rendered as FEN text (kings + up to `max_men` others), consistent-looking rights / marker
pub fn random_fen(rng: &mut Rng, max_men: u64) -> String {
    let mut sq: [Option<(usize, usize)>; 64] = [None; 64];
    let mut place = |rng: &mut Rng, c: usize, pc: usize, sq: &mut [Option<(usize, usize)>; 64]| {
        for _ in 0..20 {
            let s = rng.below(64) as usize;
            if sq[s].is_none() && !(pc == 0 && (s < 8 || s >= 56)) {
                sq[s] = Some((c, pc));
                return;
            }
        }
    };
    // kings, sometimes on home squares with rooks for castling
    let castle_setup = rng.chance(1, 3);
    if castle_setup {
        sq[4] = Some((0, 5));
        sq[60] = Some((1, 5));
        for (s, c) in [(0usize, 0usize), (7, 0), (56, 1), (63, 1)] {
            if rng.chance(2, 3) {
                sq[s] = Some((c, 3));
            }
        }
    } else {
        place(rng, 0, 5, &mut sq);
        place(rng, 1, 5, &mut sq);
    }
    let n = rng.below(max_men + 1);
    for _ in 0..n {
        let pc = match rng.below(10) {
            0..=3 => 0,
            4 => 1,
            5 => 2,
            6 | 7 => 3,
            8 => 4,
            _ => 1,
        };
        let c = rng.below(2) as usize;
        place(rng, c, pc, &mut sq);
    }
    let turn = rng.below(2) as usize;
    // en-passant marker: find an enemy pawn on its double-step rank with empty squares behind it
    let mut ep = String::from("-");
    if rng.chance(1, 2) {
        let (prank, crank, srank) = if turn == 0 { (4usize, 5usize, 6usize) } else { (3, 2, 1) };
        let mut files: Vec<usize> = (0..8).filter(|&f| sq[prank * 8 + f] == Some((1 - turn, 0)) && sq[crank * 8 + f].is_none() && sq[srank * 8 + f].is_none()).collect();
        if files.is_empty() && rng.chance(1, 2) {
            // make one
            let f = rng.below(8) as usize;
            if sq[crank * 8 + f].is_none() && sq[srank * 8 + f].is_none() && sq[prank * 8 + f].map(|x| x.1 != 5).unwrap_or(true) {
                sq[prank * 8 + f] = Some((1 - turn, 0));
                // and a capturer next to it
                let g = if f == 0 { 1 } else if f == 7 { 6 } else if rng.chance(1, 2) { f - 1 } else { f + 1 };
                if sq[prank * 8 + g].map(|x| x.1 != 5).unwrap_or(true) {
                    sq[prank * 8 + g] = Some((turn, 0));
                }
                files.push(f);
            }
        }
        if !files.is_empty() {
            let f = *rng.pick(&files);
            ep = format!("{}{}", (b'a' + f as u8) as char, crank + 1);
        }
    }
    let mut rights = String::new();
    if sq[4] == Some((0, 5)) {
        if sq[7] == Some((0, 3)) && rng.chance(3, 4) {
            rights.push('K');
        }
        if sq[0] == Some((0, 3)) && rng.chance(3, 4) {
            rights.push('Q');
        }
    }
    if sq[60] == Some((1, 5)) {
        if sq[63] == Some((1, 3)) && rng.chance(3, 4) {
            rights.push('k');
        }
        if sq[56] == Some((1, 3)) && rng.chance(3, 4) {
            rights.push('q');
        }
    }
    if rights.is_empty() {
        rights.push('-');
    }
    let mut s = String::new();
    for r in (0..8).rev() {
        let mut missing = 0;
        for f in 0..8 {
            match sq[r * 8 + f] {
                Some((c, pc)) => {
                    if missing > 0 {
                        s.push_str(&missing.to_string());
                        missing = 0;
                    }
                    s.push(PIECES[c][pc]);
                }
                None => missing += 1,
            }
        }
        if missing > 0 {
            s.push_str(&missing.to_string());
        }
        if r != 0 {
            s.push('/');
        }
    }
    let clocks = [0u32, 1, 9, 10, 49, 98, 99, 100, 101, 999, 1000, 9999];
    let half = if rng.chance(1, 3) { *rng.pick(&clocks) } else { rng.below(60) as u32 };
    let full = if rng.chance(1, 4) { *rng.pick(&clocks) } else { rng.below(200) as u32 };
    format!("{s} {} {rights} {ep} {half} {full}", if turn == 0 { 'w' } else { 'b' })
}

#[derive(Default)]
pub struct Dist {
    pub positions: u64,
    pub in_check: u64,
    pub double_check: u64,
    pub pinned: u64,
    pub ep_marker: u64,
    pub ep_capture_available: u64,
    pub castling_rights: u64,
    pub castle_available: u64,
    pub promotions: u64,
    pub mates: u64,
    pub stalemates: u64,
    pub from_random_fen: u64,
    pub moves: u64,
}
impl Dist {
    pub fn note(&mut self, b: &Board, legals: &[ChessMove]) {
        let dv = debug_view(b);
        self.positions += 1;
        if b.in_check() {
            self.in_check += 1;
        }
        if dv.checkers.count_ones() > 1 {
            self.double_check += 1;
        }
        if dv.pinned != 0 {
            self.pinned += 1;
        }
        if dv.ep.is_some() {
            self.ep_marker += 1;
        }
        if dv.rights != "-" {
            self.castling_rights += 1;
        }
        for m in legals {
            let pc = b.raw().get(m.source).map(|x| x.1);
            if pc == Some(Piece::Pawn) && (m.source as u8 % 8) != (m.dest as u8 % 8) && b.raw().get(m.dest).is_none() {
                self.ep_capture_available += 1;
                break;
            }
        }
        if legals.iter().any(|m| b.raw().get(m.source).map(|x| x.1) == Some(Piece::King) && (m.source as i32 % 8 - m.dest as i32 % 8).abs() == 2) {
            self.castle_available += 1;
        }
        if legals.iter().any(|m| m.piece.is_some()) {
            self.promotions += 1;
        }
        if legals.is_empty() {
            if b.in_check() {
                self.mates += 1
            } else {
                self.stalemates += 1
            }
        }
        self.moves += legals.len() as u64;
    }
    pub fn print(&self, out: &mut dyn Write) {
        writeln!(
            out,
            "DIST\tpositions={}\tin_check={}\tdouble_check={}\twith_pins={}\tep_marker={}\tep_capture_available={}\tcastling_rights={}\tcastle_available={}\tpromotion_available={}\tmates={}\tstalemates={}\tfrom_random_fen={}\tlegal_moves={}",
            self.positions, self.in_check, self.double_check, self.pinned, self.ep_marker, self.ep_capture_available, self.castling_rights,
            self.castle_available, self.promotions, self.mates, self.stalemates, self.from_random_fen, self.moves
        )
        .unwrap();
    }
}

/// the stream of positions shared by C01-C05, C07: corpus + playouts + random placements
pub fn positions(rng: &mut Rng, n: usize, mut f: impl FnMut(&mut Rng, &Board, &[ChessMove], bool)) {
    let mut count = 0usize;
    let mut starts: Vec<Board> = CORPUS.iter().filter_map(|s| s.parse::<Board>().ok()).collect();
    starts.push(Board::standard());
    // corpus first
    for b in starts.clone() {
        let l = sorted_moves(&b);
        f(rng, &b, &l, false);
        count += 1;
    }
    while count < n {
        let (mut b, from_fen) = if rng.chance(2, 5) {
            let men = if rng.chance(1, 4) { 28 } else { 10 };
            let fen = random_fen(rng, men);
            match catch_unwind(AssertUnwindSafe(|| fen.parse::<Board>())) {
                Ok(Ok(b)) => (b, true),
                _ => continue,
            }
        } else {
            (starts[rng.below(starts.len() as u64) as usize], false)
        };
        let plies = 1 + rng.below(if from_fen { 12 } else { 70 });
        for ply in 0..plies {
            let l = sorted_moves(&b);
            if ply > 0 || from_fen {
                f(rng, &b, &l, from_fen);
                count += 1;
            }
            // clocks above 9999 cannot be written as FEN (four digits): successors of such boards are out of scope
            if l.is_empty() || count >= n || b.half_move_clock() >= 9999 || b.full_move_clock() >= 9999 {
                break;
            }
            let m = pick_move(rng, &b, &l);
            match b.move_new(m) {
                Some(nb) => b = nb,
                None => break,
            }
        }
    }
}

pub fn run_positions(out: &mut dyn Write, rng: &mut Rng, n: usize, with_moves: bool, with_checked: bool, legal_set_every: usize) {
    let mut dist = Dist::default();
    let promos = [None, None, None, Some(PromotionPiece::Knight), Some(PromotionPiece::Bishop), Some(PromotionPiece::Rook), Some(PromotionPiece::Queen)];
    let mut i = 0usize;
    positions(rng, n, |rng, b, legals, from_fen| {
        dist.note(b, legals);
        if from_fen {
            dist.from_random_fen += 1;
        }
        pos_line(out, b);
        let movable = b.half_move_clock() < 9999 && b.full_move_clock() < 9999;
        if with_moves && movable {
            for m in legals {
                move_line(out, b, *m);
            }
        }
        if with_checked && movable {
            // random triples, near-misses of legal moves, and legal moves themselves
            for _ in 0..6 {
                let m = match rng.below(4) {
                    0 if !legals.is_empty() => {
                        let mut m = *rng.pick(legals);
                        match rng.below(3) {
                            0 => m.piece = *rng.pick(&promos),
                            1 => m.dest = p(rng.below(64) as u8),
                            _ => m.source = p(rng.below(64) as u8),
                        }
                        m
                    }
                    1 if !legals.is_empty() => *rng.pick(legals),
                    _ => ChessMove { source: p(rng.below(64) as u8), dest: p(rng.below(64) as u8), piece: *rng.pick(&promos) },
                };
                check_line(out, b, m);
            }
        }
        if legal_set_every > 0 && i % legal_set_every == 0 {
            legal_set_line(out, b);
        }
        i += 1;
    });
    dist.print(out);
}

/// systematic en-passant family: own king, capturer, double-stepped pawn, one enemy slider, everything else empty
pub fn ep_family(out: &mut dyn Write, rng: &mut Rng, stride: u64) {
    let mut dist = Dist::default();
    let mut idx = 0u64;
    let off = rng.below(stride.max(1));
    for turn in 0..2usize {
        let (prank, crank) = if turn == 0 { (4u8, 5u8) } else { (3, 2) };
        for f in 0..8u8 {
            for g in [f.wrapping_sub(1), f + 1] {
                if g > 7 {
                    continue;
                }
                let victim = prank * 8 + f;
                let capturer = prank * 8 + g;
                let target = crank * 8 + f;
                for k in 0..64u8 {
                    for sl in 0..64u8 {
                        for kind in [Piece::Rook, Piece::Bishop, Piece::Queen] {
                            idx += 1;
                            if idx % stride.max(1) != off {
                                continue;
                            }
                            let occupied = [victim, capturer, target];
                            if occupied.contains(&k) || occupied.contains(&sl) || k == sl {
                                continue;
                            }
                            // enemy king somewhere harmless
                            let ek = (0..64u8).rev().find(|&s| {
                                !occupied.contains(&s) && s != k && s != sl && (s as i32 / 8 - k as i32 / 8).abs().max((s as i32 % 8 - k as i32 % 8).abs()) > 1 && s / 8 != prank
                            });
                            let Some(ek) = ek else { continue };
                            let mut bd = Board::builder();
                            let me = if turn == 0 { Color::White } else { Color::Black };
                            bd.turn(me);
                            if bd.place(p(k), me, Piece::King).is_err() { continue; }
                            if bd.place(p(ek), !me, Piece::King).is_err() { continue; }
                            if bd.place(p(victim), !me, Piece::Pawn).is_err() { continue; }
                            if bd.place(p(capturer), me, Piece::Pawn).is_err() { continue; }
                            if bd.place(p(sl), !me, kind).is_err() { continue; }
                            bd.enpassant(File::from_u8(f));
                            let Ok(b) = bd.build() else { continue };
                            let l = sorted_moves(&b);
                            dist.note(&b, &l);
                            pos_line(out, &b);
                        }
                    }
                }
            }
        }
    }
    dist.print(out);
    let _ = (BitBoard::empty(), Rank::_1);
}

/// castling family: every attacker type on every square near the back rank, every rights subset
pub fn castle_family(out: &mut dyn Write) {
    let mut dist = Dist::default();
    let shard: u64 = std::env::var("VERIF_SHARD").ok().and_then(|s| s.parse().ok()).unwrap_or(0);
    let shards: u64 = std::env::var("VERIF_SHARDS").ok().and_then(|s| s.parse().ok()).unwrap_or(1).max(1);
    let mut idx = 0u64;
    for turn in 0..2usize {
        let me = if turn == 0 { "w" } else { "b" };
        for rights in ["KQkq", "KQ", "kq", "K", "Q", "k", "q", "Kq", "Qk"] {
            for att in ["r", "b", "n", "q", "p", "k", "R", "B", "N", "Q", "P", "K"] {
                for sq in 0..64usize {
                    // base: kings and rooks at home
                    let mut cells: Vec<Option<char>> = vec![None; 64];
                    cells[4] = Some('K'); cells[0] = Some('R'); cells[7] = Some('R');
                    cells[60] = Some('k'); cells[56] = Some('r'); cells[63] = Some('r');
                    if cells[sq].is_some() { continue; }
                    let a = att.chars().next().unwrap();
                    if (a == 'p' || a == 'P') && (sq < 8 || sq >= 56) { continue; }
                    // the enemy king as the attacker of the castling path: it leaves its home square (its own rights must be absent)
                    if a == 'k' {
                        if rights.contains('k') || rights.contains('q') { continue; }
                        cells[60] = None;
                    }
                    if a == 'K' {
                        if rights.contains('K') || rights.contains('Q') { continue; }
                        cells[4] = None;
                    }
                    cells[sq] = Some(a);
                    let mut s = String::new();
                    for r in (0..8).rev() {
                        let mut missing = 0;
                        for f in 0..8 {
                            match cells[r * 8 + f] {
                                Some(c) => { if missing > 0 { s.push_str(&missing.to_string()); missing = 0; } s.push(c); }
                                None => missing += 1,
                            }
                        }
                        if missing > 0 { s.push_str(&missing.to_string()); }
                        if r != 0 { s.push('/'); }
                    }
                    let fen = format!("{s} {me} {rights} - 0 1");
                    idx += 1;
                    if idx % shards != shard {
                        continue;
                    }
                    if let Ok(b) = fen.parse::<Board>() {
                        let l = sorted_moves(&b);
                        dist.note(&b, &l);
                        pos_line(out, &b);
                    }
                }
            }
        }
    }
    dist.print(out);
}

pub fn replay(out: &mut dyn Write, f: &[&str]) {
    let Ok(b) = f[1].parse::<Board>() else {
        writeln!(out, "REPLAYFAIL\t{}", f[1]).unwrap();
        return;
    };
    match f[0] {
        "PO" => pos_line(out, &b),
        "PE" => pair_lines(out, &b),
        "LG" => legal_set_line(out, &b),
        "MV" => {
            if let Some(m) = mv_parse(f[2]) {
                move_line(out, &b, m)
            }
        }
        "CK" => {
            if let Some(m) = mv_parse(f[2]) {
                check_line(out, &b, m)
            }
        }
        _ => {}
    }
}

/// C17: complete traversal of the embedded opening book through the public iterator; every node is
/// replayed on Board::standard() with move_mut (what the CLI asserts)
pub fn book(out: &mut dyn Write) {
    fn walk(out: &mut dyn Write, moves: chess_lookup::BookMoves, board: &Board, path: &mut Vec<String>, nodes: &mut u64, maxd: &mut usize) {
        for mv in moves {
            *nodes += 1;
            let m = ChessMove { source: mv.source, dest: mv.dest, piece: None };
            let mut b = *board;
            let ok = b.move_mut(m);
            path.push(format!("{}.{}", mv.source as u8, mv.dest as u8));
            *maxd = (*maxd).max(path.len());
            writeln!(out, "BK\t{}\t{}", path.join(" "), ok as u8).unwrap();
            if ok {
                walk(out, mv.children, &b, path, nodes, maxd);
            }
            path.pop();
        }
    }
    let mut nodes = 0u64;
    let mut maxd = 0usize;
    walk(out, chess_lookup::INITIAL_BOOOK_MOVES, &Board::standard(), &mut Vec::new(), &mut nodes, &mut maxd);
    let empty = chess_lookup::EMPTY_BOOK_MOVES.into_iter().count();
    writeln!(out, "BKS\t{nodes}\t{maxd}\t{empty}").unwrap();
}

fn emit_with_successors(out: &mut dyn Write, dist: &mut Dist, b: &Board) {
    let l = sorted_moves(b);
    dist.note(b, &l);
    pos_line(out, b);
    if b.half_move_clock() >= 9999 || b.full_move_clock() >= 9999 {
        return;
    }
    for m in &l {
        move_line(out, b, *m);
        if let Some(nb) = b.move_new(*m) {
            pos_line(out, &nb);
        }
    }
}

/// C03 families: last moves that give direct, discovered, castling-rook, promotion and en-passant
/// (direct and discovered) checks; mates / stalemates at and beyond the 100-half-move boundary
pub fn check_family(out: &mut dyn Write, rng: &mut Rng, stride: u64, stride2: u64) {
    let mut dist = Dist::default();
    let stride = stride.max(1);
    let off = rng.below(stride);
    let stride2 = stride2.max(1);
    let off2 = rng.below(stride2);
    let mut idx = 0u64;
    let mut idx2 = 0u64;
    let mut try_build = |out: &mut dyn Write, dist: &mut Dist, bd: &chess_movegen::BoardBuilder| {
        if let Ok(b) = bd.build() {
            emit_with_successors(out, dist, &b);
        }
    };
    // (1) en passant: enemy king on every square, optionally one of our sliders anywhere (discovered checks)
    for turn in 0..2usize {
        let me = if turn == 0 { Color::White } else { Color::Black };
        let (prank, _crank) = if turn == 0 { (4u8, 5u8) } else { (3, 2) };
        for f in 0..8u8 {
            for g in [f.wrapping_sub(1), f + 1] {
                if g > 7 {
                    continue;
                }
                for ek in 0..64u8 {
                    for sl in 0..65u8 {
                        idx += 1;
                        if sl < 64 && idx % stride != off {
                            continue;
                        }
                        if sl == 64 {
                            idx2 += 1;
                            if idx2 % stride2 != off2 {
                                continue;
                            }
                        }
                        for kind in [Piece::Rook, Piece::Bishop, Piece::Queen] {
                            let mut bd = Board::builder();
                            bd.turn(me);
                            let myk = if turn == 0 { 4 + (ek as usize % 3) } else { 60 - (ek as usize % 3) } as u8;
                            if bd.place(p(myk), me, Piece::King).is_err() { continue; }
                            if bd.place(p(ek), !me, Piece::King).is_err() { continue; }
                            if bd.place(p(prank * 8 + f), !me, Piece::Pawn).is_err() { continue; }
                            if bd.place(p(prank * 8 + g), me, Piece::Pawn).is_err() { continue; }
                            if sl < 64 && bd.place(p(sl), me, kind).is_err() { continue; }
                            bd.enpassant(File::from_u8(f));
                            try_build(out, &mut dist, &bd);
                            // the side about to be checked also owns a man that could (wrongly) move while its king is in check
                            for extra in [Piece::Knight, Piece::Rook] {
                                let xs = ((ek as u64 * 7 + f as u64 * 13 + sl as u64 * 3 + if extra == Piece::Rook { 29 } else { 0 }) % 64) as u8;
                                let mut bd2 = Board::builder();
                                bd2.turn(me);
                                if bd2.place(p(myk), me, Piece::King).is_err() { continue; }
                                if bd2.place(p(ek), !me, Piece::King).is_err() { continue; }
                                if bd2.place(p(prank * 8 + f), !me, Piece::Pawn).is_err() { continue; }
                                if bd2.place(p(prank * 8 + g), me, Piece::Pawn).is_err() { continue; }
                                if sl < 64 && bd2.place(p(sl), me, kind).is_err() { continue; }
                                if bd2.place(p(xs), !me, extra).is_err() { continue; }
                                bd2.enpassant(File::from_u8(f));
                                try_build(out, &mut dist, &bd2);
                            }
                            if sl == 64 {
                                break;
                            }
                        }
                    }
                }
            }
        }
    }
    // (2) promotions: pawn on the 7th, enemy king everywhere, optional capture target on the promotion rank
    for turn in 0..2usize {
        let me = if turn == 0 { Color::White } else { Color::Black };
        let (r7, r8) = if turn == 0 { (6u8, 7u8) } else { (1, 0) };
        for f in 0..8u8 {
            for ek in 0..64u8 {
                for cap in 0..3u8 {
                    idx2 += 1;
                    if idx2 % stride2 != off2 {
                        continue;
                    }
                    let mut bd = Board::builder();
                    bd.turn(me);
                    let myk = if turn == 0 { 0u8 } else { 63 };
                    if bd.place(p(myk), me, Piece::King).is_err() { continue; }
                    if bd.place(p(ek), !me, Piece::King).is_err() { continue; }
                    if bd.place(p(r7 * 8 + f), me, Piece::Pawn).is_err() { continue; }
                    if cap == 1 && f > 0 && bd.place(p(r8 * 8 + f - 1), !me, Piece::Knight).is_err() { continue; }
                    if cap == 2 && f < 7 && bd.place(p(r8 * 8 + f + 1), !me, Piece::Rook).is_err() { continue; }
                    try_build(out, &mut dist, &bd);
                }
            }
        }
    }
    // (3) castling with the enemy king on the rook's arrival file, and sliders behind (FEN, rights needed)
    for (fen_t, files) in [("{}/8/8/8/8/8/8/R3K2R w KQ - 0 1", "w"), ("r3k2r/8/8/8/8/8/8/{} b kq - 0 1", "b")] {
        for ek in 0..8usize {
            for rk in 1..7usize {
                let _ = files;
                // enemy king on file ek, rank rk (relative to the far side)
                let mut rows: Vec<String> = vec!["8".to_string(); 8];
                let kchar = if fen_t.ends_with("w KQ - 0 1") { 'k' } else { 'K' };
                let mut row = String::new();
                if ek > 0 { row.push_str(&ek.to_string()); }
                row.push(kchar);
                if ek < 7 { row.push_str(&(7 - ek).to_string()); }
                rows[rk] = row;
                let (a, b) = if fen_t.ends_with("w KQ - 0 1") {
                    (format!("{}/{}/{}/{}/{}/{}/{}/R3K2R w KQ - 0 1", rows[0], rows[1], rows[2], rows[3], rows[4], rows[5], rows[6]), 0)
                } else {
                    (format!("r3k2r/{}/{}/{}/{}/{}/{}/{} b kq - 0 1", rows[1], rows[2], rows[3], rows[4], rows[5], rows[6], rows[7]), 1)
                };
                let _ = b;
                if let Ok(bb) = a.parse::<Board>() {
                    emit_with_successors(out, &mut dist, &bb);
                }
            }
        }
    }
    // (4) mates and stalemates delivered at / beyond the 100-half-move boundary
    let finals = [
        "6k1/5ppp/8/8/8/8/8/R3K3 w - -", "k7/8/1K6/8/8/8/8/7R w - -", "7k/8/5K2/8/8/8/8/6Q1 w - -", "r3k3/8/8/8/8/8/PPP5/1K6 b - -",
        "8/8/8/8/8/1k6/8/K6r b - -", "7k/5K2/8/6Q1/8/8/8/8 w - -", "k7/2K5/8/1Q6/8/8/8/8 w - -", "5k2/5P2/5K2/8/8/8/8/8 w - -",
        "8/8/8/8/8/5k2/5p2/5K2 w - -", "7k/5KQ1/8/8/8/8/8/8 b - -", "k7/2Q5/2K5/8/8/8/8/8 b - -",
    ];
    for f in finals {
        for hc in [0u32, 50, 97, 98, 99, 100, 101, 150] {
            if let Ok(b) = format!("{f} {hc} 80").parse::<Board>() {
                emit_with_successors(out, &mut dist, &b);
            }
        }
    }
    dist.print(out);
}


/// C01 family: every pin geometry. Own king x direction x (distance to the pinned man) x (distance on to the
/// pinner) x pinned piece type x pinner type, plus one extra enemy man that may give check.
pub fn pin_family(out: &mut dyn Write, rng: &mut Rng, stride: u64) {
    let mut dist = Dist::default();
    let stride = stride.max(1);
    let off = rng.below(stride);
    let mut idx = 0u64;
    let dirs: [(i32, i32); 8] = [(0, 1), (0, -1), (1, 0), (-1, 0), (1, 1), (-1, 1), (1, -1), (-1, -1)];
    let pinned_kinds = [Piece::Pawn, Piece::Knight, Piece::Bishop, Piece::Rook, Piece::Queen];
    for turn in 0..2usize {
        let me = if turn == 0 { Color::White } else { Color::Black };
        for k in 0..64i32 {
            for (di, d) in dirs.iter().enumerate() {
                for a in 1..7i32 {
                    for b2 in 1..7i32 {
                        let (kf, kr) = (k % 8, k / 8);
                        let (pf, pr) = (kf + d.0 * a, kr + d.1 * a);
                        let (sf, sr) = (pf + d.0 * b2, pr + d.1 * b2);
                        if !(0..8).contains(&pf) || !(0..8).contains(&pr) || !(0..8).contains(&sf) || !(0..8).contains(&sr) {
                            continue;
                        }
                        let pinner_kinds: &[Piece] = if di < 4 { &[Piece::Rook, Piece::Queen] } else { &[Piece::Bishop, Piece::Queen] };
                        for &pk in &pinned_kinds {
                            if pk == Piece::Pawn && (pr == 0 || pr == 7) {
                                continue;
                            }
                            for &sk in pinner_kinds {
                                idx += 1;
                                if idx % stride != off {
                                    continue;
                                }
                                let mut bd = Board::builder();
                                bd.turn(me);
                                if bd.place(p(k as u8), me, Piece::King).is_err() { continue; }
                                if bd.place(p((pr * 8 + pf) as u8), me, pk).is_err() { continue; }
                                if bd.place(p((sr * 8 + sf) as u8), !me, sk).is_err() { continue; }
                                // enemy king far from ours
                                let ek = (0..64u8).map(|i| (i * 37 + 11) % 64).find(|&s| {
                                    let (f, r) = ((s % 8) as i32, (s / 8) as i32);
                                    (f - kf).abs().max((r - kr).abs()) > 1 && s as i32 != pr * 8 + pf && s as i32 != sr * 8 + sf
                                        && !((f - kf) * d.1 == (r - kr) * d.0 && (f - kf) * d.0 + (r - kr) * d.1 > 0)
                                });
                                let Some(ek) = ek else { continue };
                                if bd.place(p(ek), !me, Piece::King).is_err() { continue; }
                                // half of the cases: a SECOND man of the same kind pinned along another direction by its own pinner
                                // (each pinned man must stay on ITS line, not on the union of the pin lines)
                                if rng.chance(1, 2) {
                                    let di2 = rng.below(8) as usize;
                                    let d2 = dirs[di2];
                                    let (a2, b3) = (1 + rng.below(3) as i32, 1 + rng.below(3) as i32);
                                    let (pf2, pr2) = (kf + d2.0 * a2, kr + d2.1 * a2);
                                    let (sf2, sr2) = (pf2 + d2.0 * b3, pr2 + d2.1 * b3);
                                    if di2 != di && (0..8).contains(&pf2) && (0..8).contains(&pr2) && (0..8).contains(&sf2) && (0..8).contains(&sr2)
                                        && !(pk == Piece::Pawn && (pr2 == 0 || pr2 == 7))
                                    {
                                        let sk2 = if di2 < 4 { Piece::Rook } else { Piece::Bishop };
                                        if bd.place(p((pr2 * 8 + pf2) as u8), me, pk).is_ok() {
                                            let _ = bd.place(p((sr2 * 8 + sf2) as u8), !me, sk2);
                                        }
                                    }
                                }
                                // optionally an extra enemy man (possible second attacker / capture target for the pinned man)
                                let extra = rng.below(4);
                                if extra > 0 {
                                    let s = rng.below(64) as u8;
                                    let kind = [Piece::Knight, Piece::Pawn, Piece::Rook, Piece::Bishop][rng.below(4) as usize];
                                    if !(kind == Piece::Pawn && (s < 8 || s >= 56)) {
                                        let _ = bd.place(p(s), !me, kind);
                                    }
                                }
                                if let Ok(b) = bd.build() {
                                    let l = sorted_moves(&b);
                                    dist.note(&b, &l);
                                    pos_line(out, &b);
                                }
                            }
                        }
                    }
                }
            }
        }
    }
    dist.print(out);
}


/// C07: full-width walks (every legal move, every reply, ...) calling the whole safe surface at each node.
/// A violated unchecked precondition aborts the process in the checked build, which the driver sees.
fn walk_node(b: &Board, depth: u32, nodes: &mut u64) {
    *nodes += 1;
    let l = sorted_moves(b);
    let _ = (b.state(), b.in_check(), b.zobrist(), b.to_string(), b.legals().len(), b.king_sq(Color::White), b.king_sq(Color::Black));
    if depth == 0 {
        return;
    }
    for m in l {
        if let Some(nb) = b.move_new(m) {
            walk_node(&nb, depth - 1, nodes);
        }
    }
}

pub fn walks(out: &mut dyn Write, rng: &mut Rng, stride: u64) {
    let mut roots: Vec<Board> = CORPUS.iter().filter_map(|s| s.parse::<Board>().ok()).filter(|b| b.raw().all().count() <= 12).collect();
    // en-passant roots with an extra knight / pawn / slider that may be giving check (accepted but possibly unreachable positions)
    let stride = stride.max(1);
    let off = rng.below(stride);
    let mut idx = 0u64;
    for turn in 0..2usize {
        let me = if turn == 0 { Color::White } else { Color::Black };
        let prank = if turn == 0 { 4u8 } else { 3 };
        for f in 0..8u8 {
            for g in [f.wrapping_sub(1), f + 1] {
                if g > 7 {
                    continue;
                }
                for k in 0..64u8 {
                    for x in 0..64u8 {
                        for kind in [Piece::Knight, Piece::Pawn, Piece::Rook, Piece::Bishop] {
                            idx += 1;
                            if idx % stride != off {
                                continue;
                            }
                            let mut bd = Board::builder();
                            bd.turn(me);
                            if bd.place(p(k), me, Piece::King).is_err() { continue; }
                            if bd.place(p(prank * 8 + f), !me, Piece::Pawn).is_err() { continue; }
                            if bd.place(p(prank * 8 + g), me, Piece::Pawn).is_err() { continue; }
                            if kind == Piece::Pawn && (x < 8 || x >= 56) { continue; }
                            if bd.place(p(x), !me, kind).is_err() { continue; }
                            let ek = if turn == 0 { 63 - (k % 2) } else { k % 2 };
                            if bd.place(p(ek), !me, Piece::King).is_err() { continue; }
                            bd.enpassant(File::from_u8(f));
                            if let Ok(b) = bd.build() {
                                roots.push(b);
                            }
                        }
                    }
                }
            }
        }
    }
    let mut nodes = 0u64;
    for b in &roots {
        let before = nodes;
        walk_node(b, 3, &mut nodes);
        writeln!(out, "WK\t{}\t{}", xfen(b), nodes - before).unwrap();
    }
    writeln!(out, "DIST\twalk_roots={}\twalk_nodes={nodes}", roots.len()).unwrap();
}


/// exhaustive small-material family: both kings plus ONE extra man of any kind and colour, either side to move
/// (every placement the builder accepts); sharded by the white king's square
/// sparse random positions: both kings plus 1..6 random men, kings and rooks often at home WITH the rights, pawns biased towards the
/// ranks where promotions, double steps and en-passant captures happen, an en-passant marker whenever one is possible; every legal
/// move is played and the successor examined too.  Playouts from the opening never reach most of these configurations.
pub fn sparse_family(out: &mut dyn Write, rng: &mut Rng, n: usize) {
    let mut dist = Dist::default();
    for b in sparse_boards(rng, n) {
        emit_with_successors(out, &mut dist, &b);
    }
    dist.print(out);
}

pub fn sparse_boards(rng: &mut Rng, n: usize) -> Vec<Board> {
    let mut res: Vec<Board> = Vec::new();
    let mut made = 0usize;
    let mut tries = 0usize;
    while made < n && tries < n * 40 {
        tries += 1;
        let mut cells: [Option<char>; 64] = [None; 64];
        let mut rights = String::new();
        // white home set-up
        if rng.chance(1, 2) {
            cells[4] = Some('K');
            if rng.chance(2, 3) { cells[7] = Some('R'); if rng.chance(4, 5) { rights.push('K'); } }
            if rng.chance(2, 3) { cells[0] = Some('R'); if rng.chance(4, 5) { rights.push('Q'); } }
        } else {
            cells[rng.below(64) as usize] = Some('K');
        }
        if rng.chance(1, 2) && cells[60].is_none() {
            cells[60] = Some('k');
            if rng.chance(2, 3) && cells[63].is_none() { cells[63] = Some('r'); if rng.chance(4, 5) { rights.push('k'); } }
            if rng.chance(2, 3) && cells[56].is_none() { cells[56] = Some('r'); if rng.chance(4, 5) { rights.push('q'); } }
        } else {
            let mut placed = false;
            for _ in 0..20 {
                let s = rng.below(64) as usize;
                if cells[s].is_none() { cells[s] = Some('k'); placed = true; break; }
            }
            if !placed { continue; }
        }
        let men = if rng.chance(1, 5) { 7 + rng.below(12) } else { 1 + rng.below(6) };
        for _ in 0..men {
            let c = *rng.pick(b"PPPpppNnBbRrQq");
            let s = if c == b'P' || c == b'p' {
                let r = *rng.pick(&[1u64, 1, 6, 6, 3, 4, 2, 5]);
                (r * 8 + rng.below(8)) as usize
            } else {
                rng.below(64) as usize
            };
            if cells[s].is_none() { cells[s] = Some(c as char); }
        }
        let turn = if rng.chance(1, 2) { 'w' } else { 'b' };
        // en-passant marker: a pawn of the side NOT to move on its double-step rank with the two squares behind it empty
        let mut ep = "-".to_string();
        let (prank, behind1, behind2, pch, file_rank) = if turn == 'w' { (4usize, 5usize, 6usize, 'p', '6') } else { (3, 2, 1, 'P', '3') };
        let mut cands: Vec<usize> = Vec::new();
        for f in 0..8 {
            if cells[prank * 8 + f] == Some(pch) && cells[behind1 * 8 + f].is_none() && cells[behind2 * 8 + f].is_none() { cands.push(f); }
        }
        if !cands.is_empty() && rng.chance(3, 4) {
            let f = *rng.pick(&cands);
            ep = format!("{}{}", (b'a' + f as u8) as char, file_rank);
        }
        let mut t = String::new();
        for r in (0..8).rev() {
            let mut missing = 0;
            for f in 0..8 {
                match cells[r * 8 + f] {
                    Some(c) => { if missing > 0 { t.push_str(&missing.to_string()); missing = 0; } t.push(c); }
                    None => missing += 1,
                }
            }
            if missing > 0 { t.push_str(&missing.to_string()); }
            if r != 0 { t.push('/'); }
        }
        if rights.is_empty() { rights.push('-'); }
        let half = *rng.pick(&[0u64, 0, 0, 1, 7, 49, 98, 99, 100, 101, 150]);
        let fen = format!("{t} {turn} {rights} {ep} {half} {}", 1 + rng.below(90));
        if let Ok(b) = fen.parse::<Board>() {
            made += 1;
            res.push(b);
        }
    }
    res
}

pub fn small_family(out: &mut dyn Write, with_moves: bool) {
    let shard: u64 = std::env::var("VERIF_SHARD").ok().and_then(|s| s.parse().ok()).unwrap_or(0);
    let shards: u64 = std::env::var("VERIF_SHARDS").ok().and_then(|s| s.parse().ok()).unwrap_or(1).max(1);
    let mut dist = Dist::default();
    let kinds = [Piece::Pawn, Piece::Knight, Piece::Bishop, Piece::Rook, Piece::Queen];
    for wk in 0..64u8 {
        if (wk as u64) % shards != shard {
            continue;
        }
        for bk in 0..64u8 {
            if bk == wk {
                continue;
            }
            for x in 0..64u8 {
                if x == wk || x == bk {
                    continue;
                }
                for &kind in &kinds {
                    if kind == Piece::Pawn && (x < 8 || x >= 56) {
                        continue;
                    }
                    for xc in [Color::White, Color::Black] {
                        for turn in [Color::White, Color::Black] {
                            let mut bd = Board::builder();
                            bd.turn(turn);
                            if bd.place(p(wk), Color::White, Piece::King).is_err() { continue; }
                            if bd.place(p(bk), Color::Black, Piece::King).is_err() { continue; }
                            if bd.place(p(x), xc, kind).is_err() { continue; }
                            if let Ok(b) = bd.build() {
                                let l = sorted_moves(&b);
                                dist.note(&b, &l);
                                pos_line(out, &b);
                                if with_moves {
                                    for m in &l {
                                        move_line(out, &b, *m);
                                    }
                                }
                            }
                        }
                    }
                }
            }
        }
    }
    dist.print(out);
}
