//! C10: the MoveGen iterator under arbitrary interleavings of next / len / is_empty / size_hint /
//! set_mask / remove / remove_move / clone.
use crate::chess::{mv_parse, mv_str, p, positions, sorted_moves, xfen};
use crate::rng::Rng;
use chess_bitboard::{BitBoard, Color};
use chess_movegen::{Board, ChessMove};
use std::io::Write;

pub fn run_ops(b: &Board, init: &str, ops: &[String]) -> Vec<String> {
    let mut g = if let Some(h) = init.strip_prefix('M') {
        b.legals_masked(BitBoard::from_u64(u64::from_str_radix(h, 16).unwrap()))
    } else {
        b.legals()
    };
    let mut stack = Vec::new();
    let mut res = Vec::new();
    for op in ops {
        let (k, rest) = op.split_at(1);
        res.push(match k {
            "n" => g.next().map(mv_str).unwrap_or("-".into()),
            "l" => g.len().to_string(),
            "e" => (g.is_empty() as u8).to_string(),
            "h" => {
                let (lo, hi) = g.size_hint();
                format!("{lo}:{}", hi.map(|x| x as i64).unwrap_or(-1))
            }
            "m" => {
                g.set_mask(BitBoard::from_u64(u64::from_str_radix(rest, 16).unwrap()));
                ".".into()
            }
            "r" => {
                g.remove(BitBoard::from_u64(u64::from_str_radix(rest, 16).unwrap()));
                ".".into()
            }
            "x" => (g.remove_move(mv_parse(rest).unwrap()) as u8).to_string(),
            "c" => {
                let c = g.clone();
                stack.push(std::mem::replace(&mut g, c));
                ".".into()
            }
            "b" => {
                if let Some(o) = stack.pop() {
                    g = o;
                }
                ".".into()
            }
            _ => "?".into(),
        });
    }
    res
}

pub fn line(out: &mut dyn Write, b: &Board, init: &str, ops: &[String]) {
    let r = std::panic::catch_unwind(std::panic::AssertUnwindSafe(|| run_ops(b, init, ops)));
    match r {
        Ok(res) => writeln!(out, "GI\t{}\t{}\t{}\t{}", xfen(b), init, ops.join(" "), res.join(" ")).unwrap(),
        Err(_) => writeln!(out, "GI\t{}\t{}\t{}\tTRAP", xfen(b), init, ops.join(" ")).unwrap(),
    }
}

fn random_mask(rng: &mut Rng, b: &Board, legals: &[ChessMove]) -> u64 {
    let enemy = b.raw()[!b.turn()].to_u64();
    match rng.below(9) {
        0 => u64::MAX,
        1 => enemy,
        2 => !enemy,
        3 => rng.next(),
        4 => rng.next() & rng.next(),
        5 if !legals.is_empty() => 1u64 << (rng.pick(legals).dest as u8),
        6 if !legals.is_empty() => !(1u64 << (rng.pick(legals).dest as u8)),
        7 => {
            // every destination except en-passant / castling targets
            let mut m = u64::MAX;
            for l in legals {
                let pc = b.raw().get(l.source).map(|x| x.1);
                if (pc == Some(chess_bitboard::Piece::Pawn) && (l.source as u8 % 8) != (l.dest as u8 % 8) && b.raw().get(l.dest).is_none())
                    || (pc == Some(chess_bitboard::Piece::King) && (l.source as i32 % 8 - l.dest as i32 % 8).abs() == 2)
                {
                    m &= !(1u64 << (l.dest as u8));
                }
            }
            m
        }
        _ => rng.next() | rng.next(),
    }
}

/// sequences; `clean` ones avoid the two documented classes: remove_move of a promotion move, and
/// set_mask / remove / remove_move while a promotion group (4 pieces of one destination) is in progress
pub fn sequences(out: &mut dyn Write, rng: &mut Rng, n: usize) {
    let mut made = 0usize;
    let per_pos = 3;
    let mut npos = 0u64;
    let mut promo_pos = 0u64;
    positions(rng, n / per_pos + 1, |rng, b, legals, _| {
        npos += 1;
        if legals.iter().any(|m| m.piece.is_some()) {
            promo_pos += 1;
        }
        for _ in 0..per_pos {
            if made >= n {
                return;
            }
            made += 1;
            let clean = !rng.chance(1, 6);
            let init_mask = if rng.chance(1, 4) { Some(random_mask(rng, b, legals)) } else { None };
            let init = match init_mask {
                Some(m) => format!("M{m:x}"),
                None => "L".to_string(),
            };
            let len = 2 + rng.below(24) as usize;
            let mut ops: Vec<String> = Vec::new();
            // the generator tracks a copy of the implementation iterator only to know whether a group is in progress
            let mut shadow = match init_mask {
                Some(m) => b.legals_masked(BitBoard::from_u64(m)),
                None => b.legals(),
            };
            let mut in_group = 0u8;
            let mut shadow_stack = Vec::new();
            for _ in 0..len {
                let mid = in_group != 0;
                let k = rng.below(16);
                match k {
                    13 => {
                        // clone and continue on the clone (also in the middle of a promotion group): the clone must owe exactly what the original owes
                        ops.push("c".into());
                        let c = shadow.clone();
                        shadow_stack.push((std::mem::replace(&mut shadow, c), in_group));
                    }
                    14 => {
                        // back to the original the last clone was taken from
                        ops.push("b".into());
                        if let Some((o, g)) = shadow_stack.pop() {
                            shadow = o;
                            in_group = g;
                        }
                    }
                    0..=5 => {
                        ops.push("n".into());
                        if let Some(m) = shadow.next() {
                            if m.piece.is_some() {
                                in_group = (in_group + 1) % 4;
                            }
                        }
                    }
                    6 => ops.push("l".into()),
                    7 => ops.push("e".into()),
                    8 => ops.push("h".into()),
                    9 | 10 if !(clean && mid) => {
                        let mut m = random_mask(rng, b, legals);
                        if let Some(im) = init_mask {
                            m &= im; // never widen beyond what legals_masked was asked for
                        }
                        ops.push(format!("m{m:x}"));
                        shadow.set_mask(BitBoard::from_u64(m));
                    }
                    11 if !(clean && mid) => {
                        let m = match rng.below(3) {
                            0 if !legals.is_empty() => 1u64 << (rng.pick(legals).dest as u8),
                            1 => rng.next() & rng.next() & rng.next(),
                            _ => rng.next() & rng.next(),
                        };
                        ops.push(format!("r{m:x}"));
                        shadow.remove(BitBoard::from_u64(m));
                    }
                    12 if !(clean && mid) => {
                        let m = if !legals.is_empty() && rng.chance(4, 5) {
                            *rng.pick(legals)
                        } else {
                            ChessMove { source: p(rng.below(64) as u8), dest: p(rng.below(64) as u8), piece: None }
                        };
                        if clean && m.piece.is_some() {
                            ops.push("l".into());
                        } else {
                            ops.push(format!("x{}", mv_str(m)));
                            let _ = shadow.remove_move(m);
                        }
                    }
                    _ => ops.push("n".into()),
                }
                if ops.last().map(|s| s == "n").unwrap_or(false) && k > 14 {
                    if let Some(m) = shadow.next() {
                        if m.piece.is_some() {
                            in_group = (in_group + 1) % 4;
                        }
                    }
                }
            }
            // drain at the end under a covering pair of masks: everything left must come out exactly once
            if rng.chance(1, 2) && in_group == 0 && init_mask.is_none() {
                let m = rng.next();
                ops.push(format!("m{m:x}"));
                for _ in 0..40 {
                    ops.push("n".into());
                }
                ops.push(format!("m{:x}", !m));
                for _ in 0..40 {
                    ops.push("n".into());
                }
                ops.push("l".into());
            }
            line(out, b, &init, &ops);
        }
    });
    // systematic sequences INSIDE a promotion group (known class K2 for the yielded sets - but never a panic):
    // j promotions yielded, then a mask / removal that may empty the entry, then every size query and more nexts
    let promo_roots = ["7k/P7/8/8/8/8/8/K7 w - - 0 1", "8/P1k5/K7/8/8/8/8/8 w - - 0 1", "n1n5/PPPk4/8/8/8/8/4Kppp/5N1N b - - 0 1",
                       "4k3/1P6/8/8/8/8/1p6/4K3 w - - 0 1", "1n2k3/P7/8/8/8/8/8/4K3 w - - 0 1"];
    for f in promo_roots {
        let Ok(b) = f.parse::<Board>() else { continue };
        let legals = crate::chess::sorted_moves(&b);
        let promos: Vec<ChessMove> = legals.iter().copied().filter(|m| m.piece.is_some()).collect();
        for j in 1..=5usize {
            let mut muts: Vec<String> = vec!["m0".into(), format!("m{:x}", b.raw()[!b.turn()].to_u64()), "mffffffffffffffff".into(), "rffffffffffffffff".into()];
            for m in &promos {
                muts.push(format!("x{}", mv_str(*m)));
                muts.push(format!("r{:x}", 1u64 << (m.dest as u8)));
                muts.push(format!("m{:x}", !(1u64 << (m.dest as u8))));
            }
            for mu in muts {
                let mut ops: Vec<String> = vec!["n".to_string(); j];
                ops.push(mu);
                for q in ["l", "e", "h", "n", "l", "n", "n", "n", "n", "l", "e"] {
                    ops.push(q.into());
                }
                made += 1;
                line(out, &b, "L", &ops);
            }
        }
    }
    writeln!(out, "DIST\titer_positions={npos}\titer_positions_with_promotion={promo_pos}\titer_sequences={made}").unwrap();
    let _ = (Color::White, sorted_moves);
}

pub fn replay(out: &mut dyn Write, f: &[&str]) {
    if let Ok(b) = f[1].parse::<Board>() {
        let ops: Vec<String> = f[3].split(' ').filter(|x| !x.is_empty()).map(|x| x.to_string()).collect();
        line(out, &b, f[2], &ops);
    }
}
