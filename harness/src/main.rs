//! verif-harness: runs /repo's implementation on generated cases and prints one canonical
//! line per observation. The extracted Coq model (ocaml/driver) re-computes every line.
mod abi;
mod bitboard;
mod bot;
mod chess;
mod fen;
mod iter;
mod rng;
mod score;
mod search;
mod tables;
mod text;
mod tracing;

use std::io::Write;

fn usage() -> ! {
    eprintln!("usage: vh <subcommand> [n]\n  score <extra>");
    std::process::exit(2)
}

fn main() {
    let args: Vec<String> = std::env::args().collect();
    if args.len() < 2 {
        usage();
    }
    let n: usize = args.get(2).and_then(|s| s.parse().ok()).unwrap_or(0);
    let seed = rng::seed_from_env();
    let mut rng = rng::Rng::new(seed);
    // panics of the implementation are caught and reported as TRAP results; keep stderr quiet
    std::panic::set_hook(Box::new(|i| eprintln!("panic: {}", i.to_string().replace('\n', " "))));
    let stdout = std::io::stdout();
    let mut out = std::io::BufWriter::with_capacity(1 << 20, stdout.lock());
    match args[1].as_str() {
        "score" => score::run(&mut out, &mut rng, n),
        "tables" => {
            tables::geometry(&mut out);
            tables::pawns(&mut out, &mut rng, n);
        }
        "magic" => tables::magic(&mut out, &mut rng, n),
        "zobrist" => tables::zobrist(&mut out),
        "bitboard" => bitboard::run(&mut out, &mut rng, n),
        "text" => {
            let stride: u64 = args.get(3).and_then(|s| s.parse().ok()).unwrap_or(8);
            text::run(&mut out, &mut rng, stride, n)
        }
        "abi" => abi::run(&mut out, &mut rng, n),
        "tracing" => {
            let ex: usize = args.get(3).and_then(|s| s.parse().ok()).unwrap_or(2);
            tracing::run(&mut out, &mut rng, ex, n)
        }
        "positions" => {
            // positions <n> <with_moves 0/1> <with_checked 0/1> <legal_set_every>
            let a = |i: usize| args.get(i).and_then(|s| s.parse::<usize>().ok()).unwrap_or(0);
            chess::run_positions(&mut out, &mut rng, n, a(3) != 0, a(4) != 0, a(5))
        }
        "epfamily" => chess::ep_family(&mut out, &mut rng, n.max(1) as u64),
        "castlefamily" => chess::castle_family(&mut out),
        "checkfamily" => {
            let s2: u64 = args.get(3).and_then(|s| s.parse().ok()).unwrap_or(1);
            chess::check_family(&mut out, &mut rng, n.max(1) as u64, s2)
        }
        "pinfamily" => chess::pin_family(&mut out, &mut rng, n.max(1) as u64),
        "walk" => chess::walks(&mut out, &mut rng, n.max(1) as u64),
        "smallfamily" => chess::small_family(&mut out, n != 0),
        "sparsefamily" => chess::sparse_family(&mut out, &mut rng, n.max(1)),
        "fen" => {
            let seeds: usize = args.get(3).and_then(|s| s.parse().ok()).unwrap_or(2);
            fen::run(&mut out, &mut rng, n, seeds)
        }
        "builder" => fen::builders(&mut out, &mut rng, n),
        "book" => chess::book(&mut out),
        "iter" => iter::sequences(&mut out, &mut rng, n),
        "bot" => {
            let so = args.get(3).cloned().unwrap_or_default();
            bot::run(&mut out, &mut rng, n, &so)
        }
        "search" => {
            let kmax: u64 = args.get(3).and_then(|s| s.parse().ok()).unwrap_or(600);
            search::run(&mut out, &mut rng, n, kmax)
        }
        "mirror" => {
            let kmax: u64 = args.get(3).and_then(|s| s.parse().ok()).unwrap_or(2000);
            search::mirrors(&mut out, &mut rng, n, kmax)
        }
        "replay" => {
            let line = args.get(2).cloned().unwrap_or_default();
            let f: Vec<&str> = line.split('\t').collect();
            match f[0] {
                "SC" => score::replay(&mut out, &f),
                "TB" | "TP" | "TG" | "TC" | "PW" | "MG" | "ZK" => tables::replay(&mut out, &f),
                "BU" | "BP" | "BF" | "BS" | "BB" | "BG" | "BN" | "BC" => bitboard::replay(&mut out, &f),
                "TX" | "IT" | "TS" | "TM" | "PU" | "PS" | "PF" | "PD" | "PN" => text::replay(&mut out, &f),
                "AB" | "AS" => abi::run(&mut out, &mut rng, 0),
                "TR" => tracing::replay(&mut out, &f),
                "PO" | "MV" | "CK" | "LG" | "PE" => chess::replay(&mut out, &f),
                "FP" | "FR" | "BL" => fen::replay(&mut out, &f),
                "BK" | "BKS" => chess::book(&mut out),
                "GI" => iter::replay(&mut out, &f),
                "SR" | "MR" => search::replay(&mut out, &f),
                "SH" | "SK" => search::replay_sh(&mut out, &f),
                "BT" => {
                    let root = std::env::var("VERIF_ROOT").unwrap_or("/verif".into());
                    bot::replay(&mut out, &f, &format!("{root}/.cache/target/bot/release/libchess_bot.so"))
                }
                k => {
                    eprintln!("replay: unknown kind {k}");
                    std::process::exit(2)
                }
            }
        }
        _ => usage(),
    }
    out.flush().unwrap();
}
