//! verif-harness: runs /repo's implementation on generated cases and prints one canonical
//! line per observation. The extracted Coq model (ocaml/driver) re-computes every line.
mod rng;
mod score;

use std::io::Write;

fn usage() -> ! {
    eprintln!("usage: vh <subcommand> [n]\n  score <extra>");
    std::process::exit(2)
}

fn main() {
    let args: Vec<String> = std::env::args().collect();
    if args.len() < 2 {
        usage();
    }
    let n: usize = args.get(2).and_then(|s| s.parse().ok()).unwrap_or(0);
    let seed = rng::seed_from_env();
    let mut rng = rng::Rng::new(seed);
    let stdout = std::io::stdout();
    let mut out = std::io::BufWriter::with_capacity(1 << 20, stdout.lock());
    match args[1].as_str() {
        "score" => score::run(&mut out, &mut rng, n),
        "replay" => {
            let line = args.get(2).cloned().unwrap_or_default();
            let f: Vec<&str> = line.split('\t').collect();
            match f[0] {
                "SC" => score::replay(&mut out, &f),
                k => {
                    eprintln!("replay: unknown kind {k}");
                    std::process::exit(2)
                }
            }
        }
        _ => usage(),
    }
    out.flush().unwrap();
}
