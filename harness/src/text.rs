//! C19: text forms and index conversions of Pos/File/Rank/Piece/PromotionPiece/ChessMove,
//! and the Range<u8>-backed enumerating iterators from both ends.
use crate::rng::Rng;
use chess_bitboard::{Color, File, Piece, Pos, PromotionPiece, Rank, Side};
use chess_movegen::ChessMove;
use std::io::Write;

fn hex(b: &[u8]) -> String {
    b.iter().map(|x| format!("{x:02x}")).collect()
}
fn unhex(s: &str) -> Vec<u8> {
    (0..s.len() / 2).map(|i| u8::from_str_radix(&s[2 * i..2 * i + 2], 16).unwrap()).collect()
}
fn on(x: Option<u8>) -> String {
    x.map(|v| v.to_string()).unwrap_or("-".into())
}

pub fn parse_line(out: &mut dyn Write, b: &[u8]) {
    let mv = ChessMove::from_ascii_bytes(b);
    let mvs = match mv {
        Some(m) => format!("{},{},{}", m.source as u8, m.dest as u8, m.piece.map(|p| (p as u8).to_string()).unwrap_or("-".into())),
        None => "-".into(),
    };
    // FromStr agrees with from_ascii_bytes on valid UTF-8
    let strok = match std::str::from_utf8(b) {
        Ok(s) => {
            (s.parse::<File>().ok() == File::from_ascii_bytes(b))
                && (s.parse::<Rank>().ok() == Rank::from_ascii_bytes(b))
                && (s.parse::<Pos>().ok() == Pos::from_ascii_bytes(b))
                && (s.parse::<Piece>().ok() == Piece::from_ascii_bytes(b))
                && (s.parse::<PromotionPiece>().ok() == PromotionPiece::from_ascii_bytes(b))
                && (s.parse::<ChessMove>().ok() == mv)
        }
        Err(_) => true,
    };
    writeln!(
        out,
        "TX\t{}\t{}\t{}\t{}\t{}\t{}\t{}\t{}",
        hex(b),
        on(File::from_ascii_bytes(b).map(|x| x as u8)),
        on(Rank::from_ascii_bytes(b).map(|x| x as u8)),
        on(Pos::from_ascii_bytes(b).map(|x| x as u8)),
        on(Piece::from_ascii_bytes(b).map(|x| x as u8)),
        on(PromotionPiece::from_ascii_bytes(b).map(|x| x as u8)),
        mvs,
        strok as u8
    )
    .unwrap();
}

const ALPHA: &[u8] = b"ahiAH`@0189- ";

pub fn parsers(out: &mut dyn Write, rng: &mut Rng, five_stride: u64, random: usize) {
    parse_line(out, b"");
    for a in 0..=255u8 {
        parse_line(out, &[a]);
        // single-byte parsers through the byte (not slice) entry points are covered by TX on [a]
    }
    for a in 0..=255u8 {
        for b in 0..=255u8 {
            parse_line(out, &[a, b]);
        }
    }
    let n = ALPHA.len();
    for i in 0..n.pow(4) {
        let s = [ALPHA[i % n], ALPHA[i / n % n], ALPHA[i / n / n % n], ALPHA[i / n / n / n % n]];
        parse_line(out, &s);
    }
    let off = rng.below(five_stride.max(1)) as usize;
    for i in (off..n.pow(5)).step_by(five_stride.max(1) as usize) {
        let s = [ALPHA[i % n], ALPHA[i / n % n], ALPHA[i / n / n % n], ALPHA[i / n / n / n % n], ALPHA[i / n / n / n / n % n]];
        parse_line(out, &s);
    }
    // valid moves with every middle byte, upper/lower case mixes, and one-byte mutations
    for _ in 0..random {
        let len = match rng.below(8) {
            0 => 3,
            1 => 6,
            2 => 7,
            3 => rng.below(12) as usize,
            4 | 5 => 5,
            _ => 4,
        };
        let mut s: Vec<u8> = (0..len)
            .map(|_| match rng.below(4) {
                0 => rng.next() as u8,
                1 => b'a' + rng.below(9) as u8,
                2 => b'0' + rng.below(10) as u8,
                _ => *rng.pick(ALPHA),
            })
            .collect();
        if rng.chance(1, 2) && len >= 4 {
            // start from a valid move and mutate one byte
            let m = [b'a' + rng.below(8) as u8, b'1' + rng.below(8) as u8, b'-', b'a' + rng.below(8) as u8, b'1' + rng.below(8) as u8];
            s = if len == 4 { vec![m[0], m[1], m[3], m[4]] } else { m.to_vec() };
            if rng.chance(2, 3) {
                let i = rng.below(s.len() as u64) as usize;
                s[i] = match rng.below(3) {
                    0 => rng.next() as u8,
                    1 => s[i] ^ 0x20,
                    _ => s[i].wrapping_add(1),
                };
            }
        }
        parse_line(out, &s);
    }
}

pub fn shows(out: &mut dyn Write) {
    for s in 0..64u8 {
        let p = Pos::from_u8(s).unwrap();
        writeln!(out, "TS\tpos\t{s}\t{}", hex(p.to_string().as_bytes())).unwrap();
    }
    for i in 0..8u8 {
        let f = File::from_u8(i).unwrap();
        let r = Rank::from_u8(i).unwrap();
        writeln!(out, "TS\tfile\t{i}\t{}\t{}{}", hex(f.to_string().as_bytes()), hex(&[f.lower_letter() as u8]), hex(&[f.upper_letter() as u8])).unwrap();
        writeln!(out, "TS\trank\t{i}\t{}", hex(r.to_string().as_bytes())).unwrap();
    }
    let promos = [None, Some(PromotionPiece::Knight), Some(PromotionPiece::Bishop), Some(PromotionPiece::Rook), Some(PromotionPiece::Queen)];
    for a in 0..64u8 {
        for b in 0..64u8 {
            for pr in promos {
                if pr.is_some() && (a as u32 * 7 + b as u32) % 5 != 0 {
                    continue;
                }
                let m = ChessMove { source: Pos::from_u8(a).unwrap(), dest: Pos::from_u8(b).unwrap(), piece: pr };
                writeln!(out, "TM\t{a}\t{b}\t{}\t{}", pr.map(|p| (p as u8).to_string()).unwrap_or("-".into()), hex(m.to_string().as_bytes())).unwrap();
            }
        }
    }
}

pub fn indices(out: &mut dyn Write) {
    for n in 0..=255u8 {
        writeln!(
            out,
            "PU\t{n}\t{}\t{}\t{}\t{}\t{}\t{}",
            on(Pos::from_u8(n).map(|x| x as u8)),
            on(File::from_u8(n).map(|x| x as u8)),
            on(Rank::from_u8(n).map(|x| x as u8)),
            on(Piece::from_u8(n).map(|x| x as u8)),
            on(Color::from_u8(n).map(|x| x as u8)),
            on(Side::from_u8(n).map(|x| x as u8))
        )
        .unwrap();
    }
    for s in 0..64u8 {
        let p = Pos::from_u8(s).unwrap();
        writeln!(
            out,
            "PS\t{s}\t{}\t{}\t{}\t{}\t{}\t{}\t{}\t{}\t{}",
            p.file() as u8,
            p.rank() as u8,
            on(p.shift_up().map(|x| x as u8)),
            on(p.shift_down().map(|x| x as u8)),
            on(p.shift_left().map(|x| x as u8)),
            on(p.shift_right().map(|x| x as u8)),
            p.flip_rank() as u8,
            Pos::new(p.file(), p.rank()) as u8,
            p.to_u8()
        )
        .unwrap();
    }
    for a in 0..8u8 {
        let f = File::from_u8(a).unwrap();
        let r = Rank::from_u8(a).unwrap();
        writeln!(
            out,
            "PF\t{a}\t{}\t{}\t{}\t{}\t{}\t{}",
            on(f.shift_left().map(|x| x as u8)),
            on(f.shift_right().map(|x| x as u8)),
            on(r.shift_down().map(|x| x as u8)),
            on(r.shift_up().map(|x| x as u8)),
            r.flip() as u8,
            match f.side() {
                Side::King => 0,
                Side::Queen => 1,
            }
        )
        .unwrap();
        for b in 0..8u8 {
            writeln!(out, "PD\t{a}\t{b}\t{}\t{}\t{}", f.dist_to(File::from_u8(b).unwrap()), r.dist_to(Rank::from_u8(b).unwrap()), Pos::new(f, Rank::from_u8(b).unwrap()) as u8).unwrap();
        }
    }
    writeln!(out, "PN\t{}\t{}\t{}\t{}", (!Color::White) as u8, (!Color::Black) as u8, (!Side::King) as u8, (!Side::Queen) as u8).unwrap();
}

#[derive(Clone, Copy)]
pub enum IOp {
    Next,
    NextBack,
    Nth(u64),
    NthBack(u64),
    Hint,
}

// NOTE: the iterator is driven directly (no `.map(..)` adaptor, which would replace the type's own
// nth / nth_back by the default advance-by-next implementations)
fn run_de<I: DoubleEndedIterator>(mut it: I, conv: fn(I::Item) -> u8, ops: &[IOp]) -> Vec<String> {
    ops.iter()
        .map(|op| match *op {
            IOp::Next => on(it.next().map(conv)),
            IOp::NextBack => on(it.next_back().map(conv)),
            IOp::Nth(n) => on(it.nth(n as usize).map(conv)),
            IOp::NthBack(n) => on(it.nth_back(n as usize).map(conv)),
            IOp::Hint => {
                let (lo, hi) = it.size_hint();
                format!("{lo}:{}", hi.map(|x| x as i64).unwrap_or(-1))
            }
        })
        .collect()
}

fn enc_ops(ops: &[IOp]) -> String {
    ops.iter()
        .map(|op| match *op {
            IOp::Next => "n".to_string(),
            IOp::NextBack => "b".to_string(),
            IOp::Nth(n) => format!("N{n:x}"),
            IOp::NthBack(n) => format!("B{n:x}"),
            IOp::Hint => "s".to_string(),
        })
        .collect::<Vec<_>>()
        .join(",")
}

pub fn dec_ops(s: &str) -> Vec<IOp> {
    s.split(',')
        .filter(|x| !x.is_empty())
        .map(|x| match x.as_bytes()[0] {
            b'n' => IOp::Next,
            b'b' => IOp::NextBack,
            b'N' => IOp::Nth(u64::from_str_radix(&x[1..], 16).unwrap()),
            b'B' => IOp::NthBack(u64::from_str_radix(&x[1..], 16).unwrap()),
            _ => IOp::Hint,
        })
        .collect()
}

pub fn iter_line(out: &mut dyn Write, kind: &str, ops: &[IOp]) {
    let res = match kind {
        "file" => run_de(File::all(), |x| x as u8, ops),
        "rank" => run_de(Rank::all(), |x| x as u8, ops),
        "piece" => run_de(Piece::all(), |x| x as u8, ops),
        "color" => run_de(Color::all(), |x| x as u8, ops),
        "side" => run_de(Side::all(), |x| x as u8, ops),
        "pos" => {
            // AllPosIter is forward-only: next / size_hint
            let mut it = Pos::all();
            ops.iter()
                .map(|op| match op {
                    IOp::Hint => {
                        let (lo, hi) = it.size_hint();
                        format!("{lo}:{}", hi.map(|x| x as i64).unwrap_or(-1))
                    }
                    _ => on(it.next().map(|x| x as u8)),
                })
                .collect()
        }
        "fileiter" | "rankiter" => {
            // File::iter / Rank::iter (squares of a file / rank), forward only; first op arg selects the file/rank
            let which = match ops.first() {
                Some(IOp::Nth(n)) => (*n % 8) as u8,
                _ => 0,
            };
            let mut items: Vec<String> = vec![which.to_string()];
            if kind == "fileiter" {
                let mut it = File::from_u8(which).unwrap().iter();
                for op in &ops[1.min(ops.len())..] {
                    items.push(match op {
                        IOp::Hint => format!("{}:{}", it.size_hint().0, it.size_hint().1.map(|x| x as i64).unwrap_or(-1)),
                        _ => on(it.next().map(|x| x as u8)),
                    });
                }
            } else {
                let mut it = Rank::from_u8(which).unwrap().iter();
                for op in &ops[1.min(ops.len())..] {
                    items.push(match op {
                        IOp::Hint => format!("{}:{}", it.size_hint().0, it.size_hint().1.map(|x| x as i64).unwrap_or(-1)),
                        _ => on(it.next().map(|x| x as u8)),
                    });
                }
            }
            items
        }
        _ => vec![],
    };
    writeln!(out, "IT\t{kind}\t{}\t{}", enc_ops(ops), res.join(",")).unwrap();
}

pub fn iters(out: &mut dyn Write, rng: &mut Rng, random: usize) {
    let kinds = ["file", "rank", "piece", "color", "side"];
    let ns: [u64; 12] = [0, 1, 2, 3, 5, 6, 7, 8, 9, 255, 256, u64::MAX];
    // systematic: every op pair / triple over a small op alphabet
    let alpha: Vec<IOp> = {
        let mut v = vec![IOp::Next, IOp::NextBack, IOp::Hint];
        for &n in &ns {
            v.push(IOp::Nth(n));
            v.push(IOp::NthBack(n));
        }
        v
    };
    for k in kinds {
        for &a in &alpha {
            for &b in &alpha {
                iter_line(out, k, &[a, IOp::Hint, b, IOp::Hint, IOp::Next, IOp::NextBack, IOp::Hint]);
            }
        }
    }
    for _ in 0..random {
        let k = *rng.pick(&kinds);
        let len = 1 + rng.below(12) as usize;
        let ops: Vec<IOp> = (0..len)
            .map(|_| match rng.below(8) {
                0 | 1 => IOp::Next,
                2 | 3 => IOp::NextBack,
                4 => IOp::Hint,
                5 => IOp::Nth(if rng.chance(1, 5) { rng.next() } else { rng.below(4) }),
                6 => IOp::NthBack(if rng.chance(1, 5) { rng.next() } else { rng.below(4) }),
                _ => IOp::Hint,
            })
            .collect();
        iter_line(out, k, &ops);
    }
    // forward-only iterators
    for start in 0..=65usize {
        let mut ops = vec![IOp::Next; start];
        ops.push(IOp::Hint);
        ops.push(IOp::Next);
        ops.push(IOp::Hint);
        iter_line(out, "pos", &ops);
    }
    for w in 0..8u64 {
        for k in ["fileiter", "rankiter"] {
            let mut ops = vec![IOp::Nth(w)];
            for i in 0..10 {
                ops.push(if i % 3 == 2 { IOp::Hint } else { IOp::Next });
            }
            iter_line(out, k, &ops);
        }
    }
}

pub fn run(out: &mut dyn Write, rng: &mut Rng, five_stride: u64, random: usize) {
    indices(out);
    shows(out);
    iters(out, rng, random);
    parsers(out, rng, five_stride, random);
}

pub fn replay(out: &mut dyn Write, f: &[&str]) {
    match f[0] {
        "TX" => parse_line(out, &unhex(f[1])),
        "IT" => iter_line(out, f[1], &dec_ops(f[2])),
        "TS" | "TM" => shows(out),
        _ => indices(out),
    }
}
