//! C11 / C12 / C13: Engine::search under counting timeouts (expiry at the k-th poll), mate-in-one
//! roots, and colour-mirrored pairs compared depth by depth.
use crate::chess::{mv_str, positions, sorted_moves, xfen, CORPUS};
use crate::rng::Rng;
use crate::score::enc;
use chess_engine::{Engine, ThreeFold, Timeout};
use chess_movegen::Board;
use std::cell::Cell;
use std::io::Write;
use std::panic::{catch_unwind, AssertUnwindSafe};

pub struct CountingTimeout {
    pub k: u64,
    pub polls: Cell<u64>,
}
impl Timeout for CountingTimeout {
    fn is_complete(&self) -> bool {
        let n = self.polls.get();
        self.polls.set(n + 1);
        n >= self.k
    }
}

pub fn search_once(b: &Board, k: u64) -> Option<(Option<chess_movegen::ChessMove>, chess_engine::Score, u16, u64)> {
    let t = CountingTimeout { k, polls: Cell::new(0) };
    let r = catch_unwind(AssertUnwindSafe(|| {
        let mut e = Engine::default();
        let tf = ThreeFold::new();
        let (mv, sc) = e.search(b, &tf, &t);
        (mv, sc, e.max_depth)
    }));
    r.ok().map(|(m, s, d)| (m, s, d, t.polls.get()))
}

/// search with a repetition table in which the ROOT position already stands `reps` times (as after repetitions in the CLI / bot)
pub fn line_tf(out: &mut dyn Write, b: &Board, k: u64, reps: u8) {
    let t = CountingTimeout { k, polls: Cell::new(0) };
    let r = catch_unwind(AssertUnwindSafe(|| {
        let mut e = Engine::default();
        let mut tf = ThreeFold::new();
        for _ in 0..reps {
            tf.add(*b);
        }
        let (mv, sc) = e.search(b, &tf, &t);
        (mv, sc, e.max_depth)
    }));
    match r {
        Ok((mv, sc, d)) => writeln!(out, "SH\t{}\t{k}\t{reps}\t{}\t{}\t{d}", xfen(b), mv.map(mv_str).unwrap_or("-".into()), enc(sc)).unwrap(),
        Err(_) => writeln!(out, "SH\t{}\t{k}\t{reps}\tTRAP\t-\t0", xfen(b)).unwrap(),
    }
}

/// search with a repetition table in which every CHILD of the root (position after one legal move) already stands `reps` times
pub fn line_tfc(out: &mut dyn Write, b: &Board, k: u64, reps: u8) {
    let t = CountingTimeout { k, polls: Cell::new(0) };
    let r = catch_unwind(AssertUnwindSafe(|| {
        let mut e = Engine::default();
        let mut tf = ThreeFold::new();
        for m in sorted_moves(b) {
            if let Some(c) = b.move_new(m) {
                for _ in 0..reps {
                    tf.add(c);
                }
            }
        }
        let (mv, sc) = e.search(b, &tf, &t);
        (mv, sc, e.max_depth)
    }));
    match r {
        Ok((mv, sc, d)) => writeln!(out, "SK\t{}\t{k}\t{reps}\t{}\t{}\t{d}", xfen(b), mv.map(mv_str).unwrap_or("-".into()), enc(sc)).unwrap(),
        Err(_) => writeln!(out, "SK\t{}\t{k}\t{reps}\tTRAP\t-\t0", xfen(b)).unwrap(),
    }
}

pub fn line(out: &mut dyn Write, b: &Board, k: u64) {
    match search_once(b, k) {
        Some((mv, sc, d, polls)) => {
            // what callers behind the stable ABI (bot_fight, plugins) see of this result
            let ev = chess_api::EvaluatedMove::new(mv, sc);
            writeln!(
                out,
                "SR\t{}\t{k}\t{}\t{}\t{d}\t{polls}\t{}\t{}",
                xfen(b),
                mv.map(mv_str).unwrap_or("-".into()),
                enc(sc),
                ev.chess_move().map(mv_str).unwrap_or("-".into()),
                enc(ev.score())
            )
            .unwrap()
        }
        None => writeln!(out, "SR\t{}\t{k}\tTRAP\t-\t0\t0\t-\t-", xfen(b)).unwrap(),
    }
}

const MATE_IN_ONE: &[&str] = &[
    "6k1/5ppp/8/8/8/8/8/R3K3 w Q - 0 1",
    "k7/8/1K6/8/8/8/8/7R w - - 0 1",
    "7k/8/5K2/8/8/8/8/6Q1 w - - 0 1",
    "r3k3/8/8/8/8/8/PPP5/1K6 b q - 0 1",
    "6rk/6pp/8/8/8/8/5Q2/K4R2 w - - 0 1",
    "rnbqkbnr/pppp1ppp/8/4p3/6P1/5P2/PPPPP2P/RNBQKBNR b KQkq g3 0 2",
    "r1bqkb1r/pppp1ppp/2n2n2/4p2Q/2B1P3/8/PPPP1PPP/RNB1K1NR w KQkq - 4 4",
    "4k3/4P3/4K3/8/8/8/8/7R w - - 0 1",
    "k7/2P5/1K6/8/8/8/8/8 w - - 0 1",
    "8/8/8/8/8/5k2/5p2/5K1r w - - 0 1",
    "5rk1/5ppp/8/8/8/8/8/K5RR w - - 0 1",
    "1k6/ppp5/8/8/8/8/8/K2RR3 w - - 0 1",
    "7k/7p/8/8/8/8/8/K5RQ w - - 0 1",
    "2kr4/ppp5/8/8/8/8/8/K6q b - - 0 1",
    "8/8/8/8/8/1k6/8/K6r b - - 10 40",
    "k7/P7/K7/8/8/8/8/1R6 w - - 0 1",
    // mate delivered by a capture that leaves only minor pieces (the insufficient-material shortcut runs before the mate test)
    "kn6/1p6/1K6/8/4B3/8/8/8 w - - 0 1",
    "8/8/8/4b3/8/1k6/1P6/KN6 b - - 0 1",
    // a check whose only answer is an en-passant capture of the checking pawn: NOT a mate in one
    "8/8/6pp/7k/5P1p/5K2/6P1/8 w - - 0 1",
    "8/6p1/5k2/5p1P/7K/6PP/8/8 b - - 0 1",
    // bare kings / lone minor piece at the root (dead draws by material, but legal moves exist)
    "8/8/4k3/8/8/3K4/8/8 w - - 0 1",
    "8/8/4k3/8/8/3KN3/8/8 w - - 0 1",
    "8/8/4kb2/8/8/3K4/8/8 b - - 0 1",
    // an en-passant capture is available and the same pawn has an ordinary move too (two iterator entries for one source)
    "r3k2r/p6p/5q2/3pP3/8/8/P6P/R3K2R w - d6 0 1",
    "r3k2r/p6p/8/8/3Pp3/5Q2/P6P/R3K2R b - d3 0 1",
    "4k3/8/8/3pP3/8/8/8/4K3 w - d6 0 1",
    // a quiet mate in one while every capture loses to a capturing mate (captures are searched first)
    "6k1/5ppp/8/1p6/P5q1/8/5PPP/3R2K1 w - - 0 30",
    "3r2k1/5ppp/8/p5Q1/1P6/8/5PPP/6K1 b - - 0 30",
    // the only legal moves are captures (of a pawn / of a piece): every stage of the root's move ordering must still try them
    "k7/8/8/8/8/5n2/6p1/7K w - - 0 1",
    "k1b5/1P1N4/1K6/8/8/8/8/8 b - - 0 1",
    "7k/8/8/8/8/8/5nr1/7K w - - 0 1",
    "7k/5NR1/8/8/8/8/8/K7 b - - 0 1",
    // the only mate in one is a push-promotion of a pawn that also has a (non-mating) capture-promotion
    "b7/kPK5/8/1P6/8/8/8/8 w - - 0 1",
    "8/8/8/8/1p6/8/Kpk5/B7 b - - 0 1",
    // the only mate in one: a pawn pinned on the diagonal captures its pinner on the last rank and promotes
    "7b/6P1/5K1k/8/6P1/8/8/8 w - - 0 1",
    "8/8/8/6p1/8/5k1K/6p1/7B b - - 0 1",
    // half-move clock beyond 100 at the root (nothing stops a game there; the parser accepts any clock)
    "4k3/8/8/8/8/8/8/R3K3 w - - 101 130",
    "r3k3/8/8/8/8/8/8/4K3 b - - 150 130",
    // a capture whose capture-only continuation mates two plies later is NOT a mate in one (honest mate distance in the extension)
    "r2r2k1/5ppp/8/8/8/8/3R4/3R2K1 w - - 0 1",
    "3b2k1/1p3ppp/n7/8/8/8/4B3/3R2K1 w - - 0 1",
    "3r2k1/3r4/8/8/8/8/5PPP/R2R2K1 b - - 0 1",
    "3r2k1/4b3/8/8/8/N7/1P3PPP/3B2K1 b - - 0 1",
    // the only mate is a quiet move of a piece that also has a capture
    "6k1/5ppp/8/8/8/8/7K/1b2R3 w - - 0 1",
    "1B2r3/7k/8/8/8/8/5PPP/6K1 b - - 0 1",
    // the mate in one is an en-passant capture by a pawn pinned on the diagonal it captures along
    "3q1r1b/3nk3/3p4/4Pp2/2B3N1/8/1K6/4R3 w - f6 0 1",
    "4r3/1k6/8/2b3n1/4pP2/3P4/3NK3/3Q1R1B b - f3 0 1",
    // the mate in one is a double pawn step
    "8/8/6pp/7k/5K2/8/6P1/4B3 w - - 0 1",
    "4b3/6p1/8/5k2/7K/6PP/8/8 b - - 0 1",
    // stalemate tricks and under-promotion mates
    "5k2/5P2/5K2/8/8/8/8/8 w - - 0 1",
    "7k/5P2/6K1/8/8/8/8/8 w - - 0 1",
];

pub fn ladder(k_max: u64) -> Vec<u64> {
    let mut v = vec![0u64, 1, 2, 3, 4, 5];
    let mut a = 6u64;
    while a <= k_max {
        v.push(a);
        v.push(a + 1);
        a = a * 3 / 2 + 1;
    }
    v
}

pub fn run(out: &mut dyn Write, rng: &mut Rng, n: usize, k_max: u64) {
    let mut roots: Vec<Board> = Vec::new();
    for s in MATE_IN_ONE.iter().chain(CORPUS.iter()) {
        if let Ok(b) = s.parse::<Board>() {
            roots.push(b);
        }
    }
    // the same mate-in-one roots with the half-move clock just below the 100-half-move draw: a quiet mating move
    // brings the clock to 99 / 100 and must still be reported as mate (mate is tested before the draw by clock)
    let mut clock_roots = 0;
    for s in MATE_IN_ONE.iter() {
        let f: Vec<&str> = s.split(' ').collect();
        if f.len() == 6 {
            for c in ["98", "99"] {
                if let Ok(b) = format!("{} {} {} {} {} 80", f[0], f[1], f[2], f[3], c).parse::<Board>() {
                    roots.push(b);
                    clock_roots += 1;
                }
            }
        }
    }
    positions(rng, n, |_r, b, _l, _| roots.push(*b));
    // sparse random roots (kings + a few men, promotions / e.p. / castling rights available, clocks near 100): full of mates in one,
    // forced captures, stalemates and dead positions that playouts from the opening never reach
    for b in crate::chess::sparse_boards(rng, n / 2 + 1) {
        roots.push(b);
    }
    let mut terminal = 0;
    let mut mates1 = 0;
    // the fixed roots (identical in every shard) are dealt out over the shards; the generated roots differ per shard anyway
    let shard_ix: usize = std::env::var("VERIF_SHARD").ok().and_then(|s| s.parse().ok()).unwrap_or(0);
    let shard_n: usize = std::env::var("VERIF_SHARDS").ok().and_then(|s| s.parse().ok()).unwrap_or(1).max(1);
    let fixed_n = MATE_IN_ONE.len() + CORPUS.len() + clock_roots;
    for (i, b) in roots.iter().enumerate() {
        if i < fixed_n && i % shard_n != shard_ix {
            continue;
        }
        let l = sorted_moves(b);
        if l.is_empty() {
            terminal += 1;
        }
        if l.iter().any(|m| b.move_new(*m).map(|nb| nb.legals().is_empty() && nb.in_check()).unwrap_or(false)) {
            mates1 += 1;
        }
        // every root: the small k exhaustively, then a ladder, then two random values
        let ks: Vec<u64> = if i < MATE_IN_ONE.len() + CORPUS.len() {
            ladder(k_max)
        } else if i < MATE_IN_ONE.len() + CORPUS.len() + clock_roots {
            vec![0, 1, 2, l.len() as u64, l.len() as u64 + 1, l.len() as u64 + 2, 60, 200]
        } else {
            let mut v = vec![0, 1, 2, l.len() as u64, l.len() as u64 + 1, l.len() as u64 + 2];
            for _ in 0..4 {
                v.push(rng.below(k_max + 1));
            }
            v
        };
        for k in ks {
            line(out, b, k);
        }
        // the root already stands 1..4 times in the caller's repetition table
        if i % 5 == 0 {
            for reps in [1u8, 2, 3, 4] {
                for k in [0u64, l.len() as u64 + 2, 60] {
                    line_tf(out, b, k, reps);
                }
            }
        }
        // every child of the root already stands 1..4 times in the table (unclaimed repetitions: counts above 3 occur in the tree)
        if i % 7 == 3 {
            for reps in [1u8, 2, 3, 4] {
                for k in [l.len() as u64 + 2, 80] {
                    line_tfc(out, b, k, reps);
                }
            }
        }
        if l.is_empty() {
            // terminal roots: also far beyond the 16-bit depth counter
            for k in [65_535u64, 65_536, 65_537, 70_000] {
                line(out, b, k);
            }
        }
    }
    // roots whose whole tree ends one ply down (half-move clock 99, a single quiet move): every deepening pass completes at once,
    // so without expiry the depth counter runs through all its 65536 values (about 200 000 polls). Thorough tier only (the model
    // needs minutes for it); shard 0 only.
    let shard: u64 = std::env::var("VERIF_SHARD").ok().and_then(|s| s.parse().ok()).unwrap_or(0);
    if shard == 0 && k_max >= 3000 {
        for s in ["k7/8/1K6/8/8/8/8/8 b - - 99 80", "8/8/8/8/8/1k6/8/K7 w - - 99 80"] {
            if let Ok(b) = s.parse::<Board>() {
                line(out, &b, 400_000);
            }
        }
    }
    writeln!(out, "DIST\tsearch_roots={}\tterminal_roots={terminal}\troots_with_mate_in_one={mates1}", roots.len()).unwrap();
}

// ---------------------------------------------------------------- mirror pairs (C13)

pub fn mirror_fen(x: &str) -> String {
    let f: Vec<&str> = x.split(' ').collect();
    let ranks: Vec<&str> = f[0].split('/').collect();
    let swap = |s: &str| -> String {
        s.chars()
            .map(|c| if c.is_ascii_uppercase() { c.to_ascii_lowercase() } else if c.is_ascii_lowercase() { c.to_ascii_uppercase() } else { c })
            .collect()
    };
    let placement: Vec<String> = ranks.iter().rev().map(|r| swap(r)).collect();
    let turn = if f[1] == "w" { "b" } else { "w" };
    let mut rights: Vec<char> = swap(f[2]).chars().collect();
    // canonical order KQkq
    rights.sort_by_key(|c| match c {
        'K' => 0,
        'Q' => 1,
        'k' => 2,
        'q' => 3,
        _ => 4,
    });
    let rights: String = rights.into_iter().collect();
    let ep = if f[3] == "-" {
        "-".to_string()
    } else {
        let b = f[3].as_bytes();
        format!("{}{}", b[0] as char, if b[1] == b'6' { '3' } else { '6' })
    };
    format!("{} {} {} {} {} {}", placement.join("/"), turn, rights, ep, f[4], f[5])
}

fn per_depth(b: &Board, ks: &[u64]) -> Option<Vec<(u16, String)>> {
    let mut v: Vec<(u16, String)> = Vec::new();
    for &k in ks {
        let (mv, sc, d, _) = search_once(b, k)?;
        if mv.is_some() && !v.iter().any(|(dd, _)| *dd == d) {
            v.push((d, enc(sc)));
        }
    }
    v.sort();
    Some(v)
}

pub fn mirror_line(out: &mut dyn Write, b: &Board, k_max: u64) {
    let xf = xfen(b);
    let mf = mirror_fen(&xf);
    let Ok(mb) = mf.parse::<Board>() else {
        writeln!(out, "MR\t{xf}\t{mf}\tMIRROR-REJECTED\t-\t0\t-\t-").unwrap();
        return;
    };
    let ks = ladder(k_max);
    match (per_depth(b, &ks), per_depth(&mb, &ks)) {
        (Some(a), Some(m)) => {
            let f = |v: &Vec<(u16, String)>| v.iter().map(|(d, s)| format!("{d}:{s}")).collect::<Vec<_>>().join(",");
            // final answers at the largest budget (a colour that gets no move although its mirror does is an asymmetry too)
            let fin = |bb: &Board| match search_once(bb, k_max) {
                Some((mv, sc, d, _)) => format!("{}|{}|{d}", if mv.is_some() { "some" } else { "-" }, enc(sc)),
                None => "TRAP".to_string(),
            };
            writeln!(out, "MR\t{xf}\t{mf}\t{}\t{}\t{k_max}\t{}\t{}", f(&a), f(&m), fin(b), fin(&mb)).unwrap()
        }
        _ => writeln!(out, "MR\t{xf}\t{mf}\tTRAP\t-\t0\t-\t-").unwrap(),
    }
}

/// positions whose material sits exactly on / next to the evaluation's thresholds (1800 for the leading side),
/// and roots where the side to move is being mated by force
fn threshold_roots(rng: &mut Rng, n: usize) -> Vec<Board> {
    let sets: [&[u8]; 8] = [
        b"QRPPPP", b"RRPPPPPPPP", b"BBNNPPPPP", b"QRPPP", b"QRPPPPP", b"QBNPPP", b"RRBPPPPP", b"QRBN",
    ];
    let fixed = [
        "8/8/8/8/8/6k1/r7/7K w - - 0 1", "8/8/8/8/8/2k5/7r/K7 b - - 0 1", "7k/8/8/8/8/8/5r2/K5r1 w - - 0 1",
        "6k1/8/8/8/8/8/r7/1r5K w - - 0 1", "k7/7R/1K6/8/8/8/8/8 b - - 0 1", "7K/8/5k2/8/8/8/8/6q1 w - - 0 1",
        // a capture removes the last pawn and leaves one / two minor pieces (the insufficient-material cut after captures), both colours
        "7k/8/8/8/2b5/8/4P3/K7 b - - 0 1", "k7/4p3/8/2B5/8/8/8/7K w - - 0 1",
        "7k/8/8/8/3n4/8/4P3/K7 b - - 0 1", "k7/4p3/8/3N4/8/8/8/7K w - - 0 1",
        "7k/8/8/8/2bn4/8/4P3/K7 b - - 0 1", "k7/4p3/8/2BN4/8/8/8/7K w - - 0 1",
        "7k/8/8/2B5/2b5/8/4P3/K7 b - - 0 1", "k7/4p3/8/2B5/2b5/8/8/7K w - - 0 1",
        "7k/8/8/8/8/2n5/3PB3/K7 b - - 0 1", "k7/3pb3/2N5/8/8/8/8/7K w - - 0 1",
        // inside the tree a pawn on its 7th rank gets pinned by a bishop on the promotion rank and can only capture it with promotion
        "QRN5/RK6/P7/8/2B3p1/7k/6p1/8 w - - 0 1", "8/6P1/7K/2b3P1/8/p7/rk6/qrn5 b - - 0 1",
        // mates in two / being mated after one's own move: mate distances below the root, both colours
        "7k/8/5K2/8/8/8/8/R7 w - - 0 1", "r7/8/8/8/8/5k2/8/7K b - - 0 1",
    ];
    let mut v: Vec<Board> = fixed.iter().filter_map(|s| s.parse().ok()).collect();
    let mut tries = 0;
    while v.len() < n + fixed.len() && tries < n * 50 {
        tries += 1;
        let lead = sets[rng.below(sets.len() as u64) as usize];
        let mut sq: [Option<char>; 64] = [None; 64];
        let mut put = |rng: &mut Rng, c: char, sq: &mut [Option<char>; 64]| {
            for _ in 0..30 {
                let s = rng.below(64) as usize;
                if sq[s].is_none() && !((c == 'P' || c == 'p') && (s < 8 || s >= 56)) {
                    sq[s] = Some(c);
                    return;
                }
            }
        };
        put(rng, 'K', &mut sq);
        put(rng, 'k', &mut sq);
        let white_leads = rng.chance(1, 2);
        for &c in lead {
            let ch = if white_leads { c as char } else { (c as char).to_ascii_lowercase() };
            put(rng, ch, &mut sq);
        }
        // the trailing side gets a little material
        for _ in 0..rng.below(4) {
            let c = *rng.pick(b"PPNBR");
            let ch = if white_leads { (c as char).to_ascii_lowercase() } else { c as char };
            put(rng, ch, &mut sq);
        }
        let mut s = String::new();
        for r in (0..8).rev() {
            let mut missing = 0;
            for f in 0..8 {
                match sq[r * 8 + f] {
                    Some(c) => {
                        if missing > 0 {
                            s.push_str(&missing.to_string());
                            missing = 0;
                        }
                        s.push(c);
                    }
                    None => missing += 1,
                }
            }
            if missing > 0 {
                s.push_str(&missing.to_string());
            }
            if r != 0 {
                s.push('/');
            }
        }
        let fen = format!("{s} {} - - 0 1", if rng.chance(1, 2) { 'w' } else { 'b' });
        if let Ok(b) = fen.parse::<Board>() {
            v.push(b);
        }
    }
    v
}

pub fn mirrors(out: &mut dyn Write, rng: &mut Rng, n: usize, k_max: u64) {
    let mut cnt = 0u64;
    let mut skipped = 0u64;
    for b in threshold_roots(rng, n / 3 + 2) {
        if sorted_moves(&b).iter().any(|m| m.piece.is_some()) {
            skipped += 1;
            continue;
        }
        cnt += 1;
        mirror_line(out, &b, k_max);
    }
    positions(rng, n, |_r, b, l, _| {
        if l.iter().any(|m| m.piece.is_some()) || b.half_move_clock() >= 90 {
            skipped += 1; // the property excludes roots with a promotion move
            return;
        }
        cnt += 1;
        mirror_line(out, b, k_max);
    });
    // sparse random roots: few men, castling rights, e.p. markers, endgame evaluation terms (king hunt, level material, lone minors)
    for b in crate::chess::sparse_boards(rng, n) {
        if sorted_moves(&b).iter().any(|m| m.piece.is_some()) || b.half_move_clock() >= 90 {
            skipped += 1;
            continue;
        }
        cnt += 1;
        mirror_line(out, &b, k_max);
    }
    writeln!(out, "DIST\tmirror_pairs={cnt}\tmirror_skipped_root_promotion={skipped}").unwrap();
}

pub fn replay_sh(out: &mut dyn Write, f: &[&str]) {
    if let Ok(b) = f[1].parse::<Board>() {
        if f[0] == "SK" {
            line_tfc(out, &b, f[2].parse().unwrap_or(0), f[3].parse().unwrap_or(0));
        } else {
            line_tf(out, &b, f[2].parse().unwrap_or(0), f[3].parse().unwrap_or(0));
        }
    }
}

pub fn replay(out: &mut dyn Write, f: &[&str]) {
    if let Ok(b) = f[1].parse::<Board>() {
        match f[0] {
            "SR" => line(out, &b, f[2].parse().unwrap_or(0)),
            _ => mirror_line(out, &b, 2000),
        }
    }
}
