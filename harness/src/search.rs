//! C11 / C12 / C13: Engine::search under counting timeouts (expiry at the k-th poll), mate-in-one
//! roots, and colour-mirrored pairs compared depth by depth.
use crate::chess::{mv_str, positions, sorted_moves, xfen, CORPUS};
use crate::rng::Rng;
use crate::score::enc;
use chess_engine::{Engine, ThreeFold, Timeout};
use chess_movegen::Board;
use std::cell::Cell;
use std::io::Write;
use std::panic::{catch_unwind, AssertUnwindSafe};

pub struct CountingTimeout {
    pub k: u64,
    pub polls: Cell<u64>,
}
impl Timeout for CountingTimeout {
    fn is_complete(&self) -> bool {
        let n = self.polls.get();
        self.polls.set(n + 1);
        n >= self.k
    }
}

pub fn search_once(b: &Board, k: u64) -> Option<(Option<chess_movegen::ChessMove>, chess_engine::Score, u16, u64)> {
    let t = CountingTimeout { k, polls: Cell::new(0) };
    let r = catch_unwind(AssertUnwindSafe(|| {
        let mut e = Engine::default();
        let tf = ThreeFold::new();
        let (mv, sc) = e.search(b, &tf, &t);
        (mv, sc, e.max_depth)
    }));
    r.ok().map(|(m, s, d)| (m, s, d, t.polls.get()))
}

pub fn line(out: &mut dyn Write, b: &Board, k: u64) {
    match search_once(b, k) {
        Some((mv, sc, d, polls)) => writeln!(
            out,
            "SR\t{}\t{k}\t{}\t{}\t{d}\t{polls}",
            xfen(b),
            mv.map(mv_str).unwrap_or("-".into()),
            enc(sc)
        )
        .unwrap(),
        None => writeln!(out, "SR\t{}\t{k}\tTRAP\t-\t0\t0", xfen(b)).unwrap(),
    }
}

const MATE_IN_ONE: &[&str] = &[
    "6k1/5ppp/8/8/8/8/8/R3K3 w Q - 0 1",
    "k7/8/1K6/8/8/8/8/7R w - - 0 1",
    "7k/8/5K2/8/8/8/8/6Q1 w - - 0 1",
    "r3k3/8/8/8/8/8/PPP5/1K6 b q - 0 1",
    "6rk/6pp/8/8/8/8/5Q2/K4R2 w - - 0 1",
    "rnbqkbnr/pppp1ppp/8/4p3/6P1/5P2/PPPPP2P/RNBQKBNR b KQkq g3 0 2",
    "r1bqkb1r/pppp1ppp/2n2n2/4p2Q/2B1P3/8/PPPP1PPP/RNB1K1NR w KQkq - 4 4",
    "4k3/4P3/4K3/8/8/8/8/7R w - - 0 1",
    "k7/2P5/1K6/8/8/8/8/8 w - - 0 1",
    "8/8/8/8/8/5k2/5p2/5K1r w - - 0 1",
    "5rk1/5ppp/8/8/8/8/8/K5RR w - - 0 1",
    "1k6/ppp5/8/8/8/8/8/K2RR3 w - - 0 1",
    "7k/7p/8/8/8/8/8/K5RQ w - - 0 1",
    "2kr4/ppp5/8/8/8/8/8/K6q b - - 0 1",
    "8/8/8/8/8/1k6/8/K6r b - - 10 40",
    "k7/P7/K7/8/8/8/8/1R6 w - - 0 1",
];

pub fn ladder(k_max: u64) -> Vec<u64> {
    let mut v = vec![0u64, 1, 2, 3, 4, 5];
    let mut a = 6u64;
    while a <= k_max {
        v.push(a);
        v.push(a + 1);
        a = a * 3 / 2 + 1;
    }
    v
}

pub fn run(out: &mut dyn Write, rng: &mut Rng, n: usize, k_max: u64) {
    let mut roots: Vec<Board> = Vec::new();
    for s in MATE_IN_ONE.iter().chain(CORPUS.iter()) {
        if let Ok(b) = s.parse::<Board>() {
            roots.push(b);
        }
    }
    positions(rng, n, |_r, b, _l, _| roots.push(*b));
    let mut terminal = 0;
    let mut mates1 = 0;
    for (i, b) in roots.iter().enumerate() {
        let l = sorted_moves(b);
        if l.is_empty() {
            terminal += 1;
        }
        if l.iter().any(|m| b.move_new(*m).map(|nb| nb.legals().is_empty() && nb.in_check()).unwrap_or(false)) {
            mates1 += 1;
        }
        // every root: the small k exhaustively, then a ladder, then two random values
        let ks: Vec<u64> = if i < MATE_IN_ONE.len() + CORPUS.len() {
            ladder(k_max)
        } else {
            let mut v = vec![0, 1, 2, l.len() as u64, l.len() as u64 + 1, l.len() as u64 + 2];
            for _ in 0..4 {
                v.push(rng.below(k_max + 1));
            }
            v
        };
        for k in ks {
            line(out, b, k);
        }
        if l.is_empty() {
            // terminal roots: also far beyond the 16-bit depth counter
            for k in [65_535u64, 65_536, 65_537, 70_000] {
                line(out, b, k);
            }
        }
    }
    writeln!(out, "DIST\tsearch_roots={}\tterminal_roots={terminal}\troots_with_mate_in_one={mates1}", roots.len()).unwrap();
}

// ---------------------------------------------------------------- mirror pairs (C13)

pub fn mirror_fen(x: &str) -> String {
    let f: Vec<&str> = x.split(' ').collect();
    let ranks: Vec<&str> = f[0].split('/').collect();
    let swap = |s: &str| -> String {
        s.chars()
            .map(|c| if c.is_ascii_uppercase() { c.to_ascii_lowercase() } else if c.is_ascii_lowercase() { c.to_ascii_uppercase() } else { c })
            .collect()
    };
    let placement: Vec<String> = ranks.iter().rev().map(|r| swap(r)).collect();
    let turn = if f[1] == "w" { "b" } else { "w" };
    let mut rights: Vec<char> = swap(f[2]).chars().collect();
    // canonical order KQkq
    rights.sort_by_key(|c| match c {
        'K' => 0,
        'Q' => 1,
        'k' => 2,
        'q' => 3,
        _ => 4,
    });
    let rights: String = rights.into_iter().collect();
    let ep = if f[3] == "-" {
        "-".to_string()
    } else {
        let b = f[3].as_bytes();
        format!("{}{}", b[0] as char, if b[1] == b'6' { '3' } else { '6' })
    };
    format!("{} {} {} {} {} {}", placement.join("/"), turn, rights, ep, f[4], f[5])
}

fn per_depth(b: &Board, ks: &[u64]) -> Option<Vec<(u16, String)>> {
    let mut v: Vec<(u16, String)> = Vec::new();
    for &k in ks {
        let (mv, sc, d, _) = search_once(b, k)?;
        if mv.is_some() && !v.iter().any(|(dd, _)| *dd == d) {
            v.push((d, enc(sc)));
        }
    }
    v.sort();
    Some(v)
}

pub fn mirror_line(out: &mut dyn Write, b: &Board, k_max: u64) {
    let xf = xfen(b);
    let mf = mirror_fen(&xf);
    let Ok(mb) = mf.parse::<Board>() else {
        writeln!(out, "MR\t{xf}\t{mf}\tMIRROR-REJECTED\t-").unwrap();
        return;
    };
    let ks = ladder(k_max);
    match (per_depth(b, &ks), per_depth(&mb, &ks)) {
        (Some(a), Some(m)) => {
            let f = |v: &Vec<(u16, String)>| v.iter().map(|(d, s)| format!("{d}:{s}")).collect::<Vec<_>>().join(",");
            writeln!(out, "MR\t{xf}\t{mf}\t{}\t{}", f(&a), f(&m)).unwrap()
        }
        _ => writeln!(out, "MR\t{xf}\t{mf}\tTRAP\t-").unwrap(),
    }
}

pub fn mirrors(out: &mut dyn Write, rng: &mut Rng, n: usize, k_max: u64) {
    let mut cnt = 0u64;
    let mut skipped = 0u64;
    positions(rng, n, |_r, b, l, _| {
        if l.iter().any(|m| m.piece.is_some()) || b.half_move_clock() >= 90 {
            skipped += 1; // the property excludes roots with a promotion move
            return;
        }
        cnt += 1;
        mirror_line(out, b, k_max);
    });
    writeln!(out, "DIST\tmirror_pairs={cnt}\tmirror_skipped_root_promotion={skipped}").unwrap();
}

pub fn replay(out: &mut dyn Write, f: &[&str]) {
    if let Ok(b) = f[1].parse::<Board>() {
        match f[0] {
            "SR" => line(out, &b, f[2].parse().unwrap_or(0)),
            _ => mirror_line(out, &b, 2000),
        }
    }
}
