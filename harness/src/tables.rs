//! C08 / C09: every table accessor, constant and generator helper of chess-lookup(-generator),
//! exhaustively over its finite domain; magic lookups over every blocker subset + random occupancies.
use crate::rng::Rng;
use chess_bitboard::{BitBoard, Color, File, Pos, Rank};
use std::io::Write;

fn p(i: u8) -> Pos {
    Pos::from_u8(i).unwrap()
}
const COLORS: [Color; 2] = [Color::White, Color::Black];

pub fn geometry(out: &mut dyn Write) {
    for s in 0..64u8 {
        let pos = p(s);
        writeln!(out, "TB\tknight\t{s}\t{:x}", chess_lookup::knight_moves(pos).to_u64()).unwrap();
        writeln!(out, "TB\tking\t{s}\t{:x}", chess_lookup::king_moves(pos).to_u64()).unwrap();
        writeln!(out, "TB\trook_rays\t{s}\t{:x}", chess_lookup::rook_rays(pos).to_u64()).unwrap();
        writeln!(out, "TB\tbishop_rays\t{s}\t{:x}", chess_lookup::bishop_rays(pos).to_u64()).unwrap();
        for (ci, &c) in COLORS.iter().enumerate() {
            writeln!(out, "TB\tpawn_att{ci}\t{s}\t{:x}", chess_lookup::pawn_attacks_moves(pos, c).to_u64()).unwrap();
        }
        // generator helpers
        writeln!(out, "TB\tg_knight\t{s}\t{:x}", chess_lookup_generator::knight_moves(pos).to_u64()).unwrap();
        writeln!(out, "TB\tg_king\t{s}\t{:x}", chess_lookup_generator::king_moves(pos).to_u64()).unwrap();
        writeln!(out, "TB\tg_rook_rays\t{s}\t{:x}", chess_lookup_generator::rook_rays(pos).to_u64()).unwrap();
        writeln!(out, "TB\tg_bishop_rays\t{s}\t{:x}", chess_lookup_generator::bishop_rays(pos).to_u64()).unwrap();
        let ga = chess_lookup_generator::pawn_attacks(pos);
        let gq = chess_lookup_generator::pawn_quiets(pos);
        for ci in 0..2 {
            writeln!(out, "TB\tg_pawn_att{ci}\t{s}\t{:x}", ga[ci].to_u64()).unwrap();
            writeln!(out, "TB\tg_pawn_quiet{ci}\t{s}\t{:x}", gq[ci].to_u64()).unwrap();
        }
        for t in 0..64u8 {
            let q = p(t);
            writeln!(
                out,
                "TP\t{s}\t{t}\t{:x}\t{:x}\t{}",
                chess_lookup::between(pos, q).to_u64(),
                chess_lookup::line(pos, q).to_u64(),
                chess_lookup::distance(pos, q)
            )
            .unwrap();
        }
    }
    // generator's between()/line() tables (what the checked-in tables were printed from)
    let gb = chess_lookup_generator::between();
    let gl = chess_lookup_generator::line();
    for s in 0..64usize {
        for t in 0..64usize {
            writeln!(out, "TG\t{s}\t{t}\t{:x}\t{:x}", gb[s * 64 + t].to_u64(), gl[s * 64 + t].to_u64()).unwrap();
        }
    }
    // constants
    let c = |out: &mut dyn Write, name: &str, v: BitBoard| writeln!(out, "TC\t{name}\t{:x}", v.to_u64()).unwrap();
    c(out, "PAWN_DOUBLE_SOURCE", chess_lookup::PAWN_DOUBLE_SOURCE);
    c(out, "PAWN_DOUBLE_DEST", chess_lookup::PAWN_DOUBLE_DEST);
    c(out, "BACKRANK_BB0", chess_lookup::BACKRANK_BB[0]);
    c(out, "BACKRANK_BB1", chess_lookup::BACKRANK_BB[1]);
    c(out, "CASTLE_MOVES", chess_lookup::CASTLE_MOVES);
    c(out, "PAWN_DOUBLE_MOVE0", chess_lookup::PAWN_DOUBLE_MOVE[0]);
    c(out, "PAWN_DOUBLE_MOVE1", chess_lookup::PAWN_DOUBLE_MOVE[1]);
    c(out, "ROOK_CASTLE_QUEENSIDE", chess_lookup::ROOK_CASTLE_QUEENSIDE);
    c(out, "ROOK_CASTLE_KINGSIDE", chess_lookup::ROOK_CASTLE_KINGSIDE);
    c(out, "KINGSIDE_CASTLE_FILES", chess_lookup::KINGSIDE_CASTLE_FILES);
    c(out, "QUEENSIDE_CASTLE_FILES", chess_lookup::QUEENSIDE_CASTLE_FILES);
    c(out, "KINGSIDE_CASTLE_SAFE_FILES", chess_lookup::KINGSIDE_CASTLE_SAFE_FILES);
    c(out, "QUEENSIDE_CASTLE_SAFE_FILES", chess_lookup::QUEENSIDE_CASTLE_SAFE_FILES);
    for i in 0..8usize {
        writeln!(out, "TC\tADJACENT_FILES{i}\t{:x}", chess_lookup::ADJACENT_FILES[i].to_u64()).unwrap();
        writeln!(out, "TC\tADJACENT_RANKS{i}\t{:x}", chess_lookup::ADJACENT_RANKS[i].to_u64()).unwrap();
        writeln!(out, "TC\tCASTLE_ROOK_START{i}\t{:x}", chess_lookup::CASTLE_ROOK_START[i] as u8).unwrap();
        writeln!(out, "TC\tCASTLE_ROOK_END{i}\t{:x}", chess_lookup::CASTLE_ROOK_END[i] as u8).unwrap();
    }
    for ci in 0..2usize {
        writeln!(out, "TC\tBACKRANK{ci}\t{:x}", chess_lookup::BACKRANK[ci] as u8).unwrap();
        writeln!(out, "TC\tPROMOTION_RANK{ci}\t{:x}", chess_lookup::PROMOTION_RANK[ci] as u8).unwrap();
        writeln!(out, "TC\tPAWN_DOUBLE_MOVE_SOURCE_RANK{ci}\t{:x}", chess_lookup::PAWN_DOUBLE_MOVE_SOURCE_RANK[ci] as u8).unwrap();
        writeln!(out, "TC\tPAWN_DOUBLE_MOVE_DEST_RANK{ci}\t{:x}", chess_lookup::PAWN_DOUBLE_MOVE_DEST_RANK[ci] as u8).unwrap();
    }
    let _ = (File::A, Rank::_1);
}

/// pawn helpers: every combination of the (at most four) relevant squares, with random noise elsewhere
pub fn pawns(out: &mut dyn Write, rng: &mut Rng, noise: usize) {
    for s in 0..64u8 {
        let pos = p(s);
        for (ci, &c) in COLORS.iter().enumerate() {
            let rel = chess_lookup::pawn_attacks_moves(pos, c).to_u64()
                | chess_lookup::pawn_quiets(pos, c, BitBoard::empty()).to_u64()
                | match c {
                    Color::White => BitBoard::from_pos(pos).shift_up().to_u64(),
                    Color::Black => BitBoard::from_pos(pos).shift_down().to_u64(),
                };
            let bits: Vec<u8> = BitBoard::from_u64(rel).iter().map(|x| x as u8).collect();
            for sub in 0..(1u32 << bits.len()) {
                let mut occ = 0u64;
                for (i, b) in bits.iter().enumerate() {
                    if sub >> i & 1 == 1 {
                        occ |= 1u64 << b;
                    }
                }
                for k in 0..=noise {
                    let o = if k == 0 { occ } else { occ | (rng.word() & !rel) };
                    pawn_line(out, s, ci, o);
                }
            }
        }
    }
}

fn pawn_line(out: &mut dyn Write, s: u8, ci: usize, o: u64) {
    let pos = p(s);
    let c = COLORS[ci];
    let ob = BitBoard::from_u64(o);
    writeln!(
        out,
        "PW\t{s}\t{ci}\t{o:x}\t{:x}\t{:x}\t{:x}",
        chess_lookup::pawn_quiets(pos, c, ob).to_u64(),
        chess_lookup::pawn_attacks(pos, c, ob).to_u64(),
        chess_lookup::pawn_moves(pos, c, ob).to_u64()
    )
    .unwrap();
}

fn magic_line(out: &mut dyn Write, kind: char, s: u8, occ: u64) {
    let pos = p(s);
    let r = match kind {
        'R' => chess_lookup::rook_moves(pos, BitBoard::from_u64(occ)),
        _ => chess_lookup::bishop_moves(pos, BitBoard::from_u64(occ)),
    };
    writeln!(out, "MG\t{kind}\t{s}\t{occ:x}\t{:x}", r.to_u64()).unwrap();
}

/// every blocker subset of every slider square (rays minus far edges), plus `random` full occupancies per square
pub fn magic(out: &mut dyn Write, rng: &mut Rng, random: usize) {
    let edges = |pos: Pos| -> u64 {
        let mut e = 0u64;
        if pos.rank() != Rank::_1 {
            e |= BitBoard::from_rank(Rank::_1).to_u64();
        }
        if pos.rank() != Rank::_8 {
            e |= BitBoard::from_rank(Rank::_8).to_u64();
        }
        if pos.file() != File::A {
            e |= BitBoard::from_file(File::A).to_u64();
        }
        if pos.file() != File::H {
            e |= BitBoard::from_file(File::H).to_u64();
        }
        e
    };
    for s in 0..64u8 {
        let pos = p(s);
        for kind in ['R', 'B'] {
            let rays = match kind {
                'R' => chess_lookup::rook_rays(pos).to_u64(),
                _ => chess_lookup::bishop_rays(pos).to_u64(),
            };
            let mask = rays & !edges(pos);
            // carry-rippler enumeration of all subsets of mask
            let mut sub = 0u64;
            loop {
                magic_line(out, kind, s, sub);
                sub = sub.wrapping_sub(mask) & mask;
                if sub == 0 {
                    break;
                }
            }
            for _ in 0..random {
                let occ = match rng.below(3) {
                    0 => rng.next(),
                    1 => rng.next() & rng.next(),
                    _ => rng.next() | rays,
                };
                magic_line(out, kind, s, occ);
            }
            magic_line(out, kind, s, u64::MAX);
            magic_line(out, kind, s, !rays);
        }
    }
}

/// zobrist keys through the four public accessors
pub fn zobrist(out: &mut dyn Write) {
    use chess_bitboard::Piece;
    for (ci, &c) in COLORS.iter().enumerate() {
        for s in 0..64u8 {
            for pi in 0..6u8 {
                let piece = Piece::from_u8(pi).unwrap();
                writeln!(out, "ZK\tpiece\t{}\t{:x}", ci * 384 + s as usize * 6 + pi as usize, chess_lookup::zobrist(p(s), piece, c)).unwrap();
            }
        }
        writeln!(out, "ZK\tturn\t{ci}\t{:x}", chess_lookup::turn_zobrist(c)).unwrap();
    }
    for i in 0..16usize {
        writeln!(out, "ZK\tcastle\t{i}\t{:x}", chess_lookup::castle_rights_zobrist(i)).unwrap();
    }
    for f in 0..8u8 {
        writeln!(out, "ZK\tep\t{f}\t{:x}", chess_lookup::en_passant_zobrist(File::from_u8(f).unwrap())).unwrap();
    }
}

pub fn replay(out: &mut dyn Write, f: &[&str]) {
    match f[0] {
        "MG" => magic_line(out, f[1].chars().next().unwrap(), f[2].parse().unwrap(), u64::from_str_radix(f[3], 16).unwrap()),
        "PW" => pawn_line(out, f[1].parse().unwrap(), f[2].parse().unwrap(), u64::from_str_radix(f[3], 16).unwrap()),
        _ => {
            // table entries are not parameterised by anything but the index: re-dump and filter
            let mut buf: Vec<u8> = Vec::new();
            geometry(&mut buf);
            zobrist(&mut buf);
            let key: Vec<&str> = f.iter().take(if f[0] == "TP" || f[0] == "TG" { 3 } else if f[0] == "TC" { 2 } else { 3 }).cloned().collect();
            let prefix = key.join("\t") + "\t";
            for l in String::from_utf8_lossy(&buf).lines() {
                if l.starts_with(&prefix) {
                    writeln!(out, "{l}").unwrap();
                }
            }
        }
    }
}
