(* Extraction of the executable model and spec to OCaml.
   Only ExtrOcamlBasic (bool, option, unit, list, prod, sumbool, sumor -> native OCaml types;
   andb/orb/negb/fst/snd inlined). N, Z, positive stay the extracted inductives. No Extract Constant. *)
Require Extraction.
Require Import ExtrOcamlBasic.
From Chess Require Import extract.Api.
Extraction Language OCaml.
Extraction "../ocaml/model.ml"
  api_score_cmp api_score_partial_cmp api_score_eqb api_score_ltb api_score_leb api_score_gtb
  api_score_max api_score_min api_score_neg.
