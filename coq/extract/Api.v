(* Stable, uniquely named entry points for the OCaml driver (extraction renames clashing
   identifiers such as eqb -> eqb0; these wrappers keep the driver independent of that). *)
From Coq Require Import NArith ZArith List Bool.
From Chess Require Import gen.T_zobrist base.Bits base.Types base.BitBoard geom.Geometry geom.GenFns geom.Lookup model.Score model.Abi model.Text model.Tracing spec.Rules model.Board model.MoveGen model.Apply model.Fen model.Search model.Bot.
Import ListNotations.
Local Open Scope N_scope.

Definition api_score_cmp := Score.cmp.
Definition api_score_partial_cmp := Score.partial_cmp.
Definition api_score_eqb := Score.eqb.
Definition api_score_ltb := Score.ltb.
Definition api_score_leb := Score.leb.
Definition api_score_gtb := Score.gtb.
Definition api_score_max := Score.smax.
Definition api_score_min := Score.smin.
Definition api_score_neg := Score.neg.

(* ---- geometry (C08 / C09): the coordinate definitions the tables are proved equal to ---- *)
Definition api_color (i : N) : color := if i =? 0 then White else Black.
Definition api_table (name s : N) : N :=
  match name with
  | 0 => knight_geo s | 1 => king_geo s | 2 => rook_rays_geo s | 3 => bishop_rays_geo s
  | 4 => pawn_att_geo White s | 5 => pawn_att_geo Black s
  | 6 => pawn_push_geo White s | 7 => pawn_push_geo Black s
  | _ => 0
  end.
Definition api_between := between_geo.
Definition api_line := line_geo.
Definition api_dist := dist_geo.
Definition api_rook_attacks := rook_attacks.
Definition api_bishop_attacks := bishop_attacks.
Definition api_pawn_quiets (c s occ : N) := pawn_quiets_spec (api_color c) s occ.
Definition api_pawn_attacks (c s occ : N) := pawn_attacks_spec (api_color c) s occ.
Definition api_pawn_moves (c s occ : N) := pawn_moves_spec (api_color c) s occ.
(* constants of lib.rs as coordinate sets: rank / file unions *)
Definition api_ranks (rs : list N) : N := set_of (filter (fun s => existsb (N.eqb (rank_of s)) rs) sq_list).
Definition api_files (fs : list N) : N := set_of (filter (fun s => existsb (N.eqb (file_of s)) fs) sq_list).
Definition api_squares (l : list N) : N := set_of l.
Definition api_adjacent (i : N) : N := set_of (filter (fun s => absdiff (file_of s) i =? 1) sq_list).
Definition api_adjacent_ranks (i : N) : N := set_of (filter (fun s => absdiff (rank_of s) i =? 1) sq_list).

(* zobrist keys of the regenerated tables: kind 0 piece (flattened index), 1 castle, 2 ep, 3 turn *)
Definition api_zk (kind i : N) : N :=
  match kind with
  | 0 => nthN gen.T_zobrist.piece_zobrist_tbl i | 1 => lk_castle_zobrist i | 2 => lk_ep_zobrist i
  | _ => nthN gen.T_zobrist.turn_zobrist_tbl i
  end.

(* ---- bitboards (C18): set semantics computed from elements ---- *)
Definition api_elements := elements.
Definition api_bb_not := bb_not.
Definition api_shift_up := shift_up.
Definition api_shift_down := shift_down.
Definition api_shift_left := shift_left.
Definition api_shift_right := shift_right.
Definition api_flip_ranks := flip_ranks.
Definition api_count := count.
Definition api_pop := pop.
Definition api_iter_list := iter_list.
Definition api_from_squares := from_squares.
Definition api_from_boards := from_boards.
Definition api_from_pos := from_pos.
Definition api_from_file := from_file.
Definition api_from_rank := from_rank.
Definition api_contains := contains.
Definition api_with := bb_with.
Definition api_cleared := cleared.
Definition api_or := bb_or.
Definition api_and := bb_and.
Definition api_xor := bb_xor.
Definition api_diff := bb_diff.
Definition api_any := any.
Definition api_none := none.
Definition api_all := bb_all.
Definition api_some := bb_some.
Definition api_nth_default := nth_default.
(* set-level reference for nth: n-th element of the ascending element list, rest = later elements *)
Definition api_nth_spec (a n : N) : option N * N :=
  let l := elements a in
  if n <? 64 then (nth_error l (N.to_nat n), set_of (skipn (S (N.to_nat n)) l)) else (None, 0).

(* ---- ABI (C16) ---- *)
Definition api_abi_stable_rt (m : cmove) : cmove := of_stable (to_stable m).
Definition api_abi_eval_rt := evaluated_roundtrip.

(* ---- text (C19) ---- *)
Definition api_file_from_ascii_bytes := file_from_ascii_bytes.
Definition api_rank_from_ascii_bytes := rank_from_ascii_bytes.
Definition api_pos_from_ascii_bytes := pos_from_ascii_bytes.
Definition api_piece_from_ascii_bytes := piece_from_ascii_bytes.
Definition api_promo_from_ascii_bytes := promo_from_ascii_bytes.
Definition api_move_from_ascii_bytes := move_from_ascii_bytes.
Definition api_pos_show := pos_show.
Definition api_file_show := file_show.
Definition api_rank_show := rank_show.
Definition api_move_show_full := move_show_full.
Definition api_enum_from_u8 := enum_from_u8.
Definition api_pos_file := pos_file.
Definition api_pos_rank := pos_rank.
Definition api_pos_new := pos_new.
Definition api_pos_shift_up := pos_shift_up.
Definition api_pos_shift_down := pos_shift_down.
Definition api_pos_shift_left := pos_shift_left.
Definition api_pos_shift_right := pos_shift_right.
Definition api_pos_flip_rank := pos_flip_rank.
Definition api_file_shift_left := file_shift_left.
Definition api_file_shift_right := file_shift_right.
Definition api_rank_shift_down := rank_shift_down.
Definition api_rank_shift_up := rank_shift_up.
Definition api_rank_flip := rank_flip.
Definition api_dist_to := dist_to.
Definition api_color_not := color_not.
Definition api_side_not := side_not.
Definition api_run_iter := run_iter.
Definition api_run_allpos := run_allpos.
Definition api_file_iter_next := file_iter_next.
Definition api_rank_iter_next := rank_iter_next.
Definition api_mk_range := mk_range.

(* ---- tracing (C20) ---- *)
Definition api_run_stack := run_stack.

(* ---- chess core (C01-C07, C10) ---- *)
Definition api_parse_fen_t := parse_fen_t.
Definition api_write_fen := write_fen.
Definition api_legals := MoveGen.legals.
Definition api_is_legal := MoveGen.is_legal.
Definition api_gen_len (b : board) : N * bool := let g := legals_gen b in (mg_len g, mg_is_empty g).
Definition api_in_check := Board.in_check.
Definition api_state := Apply.state.
Definition api_zobrist := Board.zobrist.
Definition api_apply := Apply.apply.
Definition api_abs := Board.abs.
Definition api_board_all_eqb := board_all_eqb.
Definition api_board_eqb := board_eqb.
Definition api_standard := Board.standard.
Definition api_empty_board := empty_board.
Definition api_bstep := bstep.
Definition api_build := build.
Definition api_spec_legal_moves := Rules.legal_moves.
Definition api_spec_is_legal := Rules.is_legal_move.
Definition api_spec_in_check := Rules.in_check.
Definition api_spec_classify := Rules.classify.
Definition api_spec_make := Rules.make.
Definition api_spec_playable := Rules.playable.
Definition api_spec_same_position := Rules.same_position.
Definition api_spec_start := Rules.start_position.
Definition api_spec_mirror := Rules.mirror.
(* full equality of rules-level positions including clocks *)
Definition api_spec_pos_eqb (a b : position) : bool :=
  Rules.same_position a b && (hm a =? hm b) && (fm a =? fm b).
(* iterator *)
Definition api_legals_gen := legals_gen.
Definition api_legals_masked_gen := legals_masked_gen.
Definition api_mg_next := mg_next.
Definition api_mg_len := mg_len.
Definition api_mg_is_empty := mg_is_empty.
Definition api_mg_set_mask := mg_set_mask.
Definition api_mg_remove := mg_remove.
Definition api_mg_remove_move := mg_remove_move.
Definition api_mk_move (s d : N) (p : option piece) : move := {| m_src := s; m_dst := d; m_promo := p |}.

(* ---- search (C11-C13) ---- *)
Definition api_search (k : N) (passes fuel : nat) (root : board) := Search.search k [] passes fuel root.
(* the root position already stands `reps` times in the caller's repetition table (CLI / bot after repetitions) *)
Fixpoint tf_rep (reps : nat) (b : board) : threefold :=
  match reps with O => [] | S n => fst (tf_add (tf_rep n b) b) end.
Definition api_search_tf (k : N) (reps passes fuel : nat) (root : board) := Search.search k (tf_rep reps root) passes fuel root.
(* every position one legal move below the root already stands `reps` times in the table *)
Fixpoint tf_add_n (reps : nat) (tf : threefold) (b : board) : threefold :=
  match reps with O => tf | S n => fst (tf_add (tf_add_n n tf b) b) end.
Definition tf_children (reps : nat) (root : board) : threefold :=
  fold_left (fun tf m => tf_add_n reps tf (apply root m)) (legals root) [].
Definition api_search_tfc (k : N) (reps passes fuel : nat) (root : board) := Search.search k (tf_children reps root) passes fuel root.
Definition api_nat_of_N := N.to_nat.
Definition api_score_neg2 := Score.neg.

(* ---- bot (C15) ---- *)
Definition api_bot_init := bot_init.
Definition api_bot_set_board := bot_set_board.
Definition api_bot_make_move := bot_make_move.
Definition api_bot_evaluate := bot_evaluate.
Definition api_bot_board := bt_board.
