(* Stable, uniquely named entry points for the OCaml driver (extraction renames clashing
   identifiers such as eqb -> eqb0; these wrappers keep the driver independent of that). *)
From Coq Require Import NArith ZArith List Bool.
From Chess Require Import model.Score.

Definition api_score_cmp := Score.cmp.
Definition api_score_partial_cmp := Score.partial_cmp.
Definition api_score_eqb := Score.eqb.
Definition api_score_ltb := Score.ltb.
Definition api_score_leb := Score.leb.
Definition api_score_gtb := Score.gtb.
Definition api_score_max := Score.smax.
Definition api_score_min := Score.smin.
Definition api_score_neg := Score.neg.
