(* C02 - Applying a legal move yields the correct successor position.
   Proved: the checked operations accept exactly the moves `is_legal` accepts and leave the board(s)
   untouched when they refuse. OPEN: C02_apply_exact_statement (decided by the correspondence on every
   generated (position, legal move) against Rules.make). *)
From Coq Require Import NArith List Bool.
From Chess Require Import base.Bits base.Types model.Board model.MoveGen model.Apply spec.Rules proofs.CoreFacts.
Local Open Scope N_scope.

Theorem C02_checked_gate : forall b m out,
  move_new b m = (if is_legal b m then Some (apply b m) else None)
  /\ move_mut b m = (if is_legal b m then (apply b m, true) else (b, false))
  /\ move_into b m out = (if is_legal b m then (apply b m, true) else (out, false)).
Proof. exact checked_gate. Qed.
Print Assumptions C02_checked_gate.

Definition C02_apply_exact_statement (Reach : board -> Prop) : Prop :=
  forall b m, Reach b -> In m (legal_moves (abs b)) -> b_half b < 65535 -> b_full b < 65535 ->
    abs (apply b m) = make (abs b) m.
