(* C02 - Applying a legal move yields the correct successor position.
   Proved: for EVERY move that is pseudo-legal (hence every legal move) under the rules, on every board with
   the placement invariant, a well-formed en-passant marker and castling rights backed by king and rook at
   home, and clocks below the 16-bit limit: abs (apply b m) = Rules.make (abs b) m as a whole record -
   placement incl. the rook hop, the en-passant victim and the promoted piece, side, the four rights, the
   marker (set on and only on a double step), both clocks (C02_apply_exact).  The checked operations accept
   exactly the moves `is_legal` accepts and leave the board(s) untouched when they refuse (C02_checked_gate).
   Every parsed board satisfies the hypotheses (C02_parsed_boards_qualify).
   CLOSED in this round: every reachable board satisfies them, and `is_legal` is rules legality (C01), hence for EVERY
   reachable board with clocks below the 16-bit limit and EVERY move: the checked operations accept the move iff it is
   legal under the rules (C02_accept_exactly_legal), and the successor is exactly the rules' successor
   (C02_successor_exact_reachable). *)
From Coq Require Import NArith List Bool.
From Chess Require Import base.Bits base.Types model.Board model.MoveGen model.Apply spec.Rules proofs.CoreFacts proofs.HashFacts proofs.ApplyFacts proofs.Reachable proofs.ReachableMore.
Local Open Scope N_scope.

Theorem C02_checked_gate : forall b m out,
  move_new b m = (if is_legal b m then Some (apply b m) else None)
  /\ move_mut b m = (if is_legal b m then (apply b m, true) else (b, false))
  /\ move_into b m out = (if is_legal b m then (apply b m, true) else (out, false)).
Proof. exact checked_gate. Qed.
Print Assumptions C02_checked_gate.

Theorem C02_apply_exact : forall b m, Part b -> ep_ok b -> rights_ok b -> b_half b < 65535 -> b_full b < 65535 ->
  In m (legal_moves (abs b)) -> abs (apply b m) = make (abs b) m.
Proof. exact apply_abs_legal. Qed.
Print Assumptions C02_apply_exact.

Theorem C02_apply_exact_pseudo : forall b m, Part b -> ep_ok b -> rights_ok b -> b_half b < 65535 -> b_full b < 65535 ->
  In m (pseudo (abs b)) -> abs (apply b m) = make (abs b) m.
Proof. exact apply_abs_pseudo. Qed.
Print Assumptions C02_apply_exact_pseudo.

Theorem C02_parsed_boards_qualify : forall b,
  (validate_castle_rights b = true -> rights_ok b)
  /\ (validate_en_passant b = true -> (forall f, b_ep b = Some f -> f < 8) -> ep_ok b).
Proof. intros b. exact (conj (validate_castle_rights_ok b) (validate_en_passant_ok b)). Qed.
Print Assumptions C02_parsed_boards_qualify.

Theorem C02_successor_exact_reachable : forall b m, Reachable b -> b_half b < 65535 -> b_full b < 65535 ->
  is_legal b m = true -> abs (apply b m) = make (abs b) m.
Proof. exact apply_exact_reachable. Qed.
Print Assumptions C02_successor_exact_reachable.

Theorem C02_accept_exactly_legal : forall b m, Reachable b -> is_legal b m = is_legal_move (abs b) m.
Proof. exact is_legal_rules_reachable. Qed.
Print Assumptions C02_accept_exactly_legal.
