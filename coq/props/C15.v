(* C15 - Bot plugin: legality gate and threefold detection over any history.
   Proved (model level): make_move applies the move exactly when is_legal accepts it, otherwise the
   state is unchanged and (false, false) is reported; set_board clears the repetition table.
   OPEN: the refinement of the hash-keyed repetition table to "third occurrence of a position since the
   board was set" (needs board_eqb -> equal hash, i.e. the C04 invariant) - C15_threefold_statement;
   decided per run by driving the real cdylib through its stable interface with the abstract history
   spec as monitor.  Interpretation (DESIGN.md): the position handed to set_board is not itself counted. *)
From Coq Require Import NArith List Bool.
From Chess Require Import base.Types model.Board model.MoveGen model.Apply model.Search model.Bot.
Import ListNotations.
Local Open Scope N_scope.

Theorem C15_legality_gate : forall s m,
  (is_legal (bt_board s) m = false -> bot_make_move s m = (s, (false, false)))
  /\ (is_legal (bt_board s) m = true ->
      bt_board (fst (bot_make_move s m)) = apply (bt_board s) m /\ fst (snd (bot_make_move s m)) = true).
Proof.
  intros s m. unfold bot_make_move. split; intros H; rewrite H; [reflexivity|].
  destruct (tf_add (bt_tf s) (apply (bt_board s) m)) as [tf' three]. split; reflexivity.
Qed.
Print Assumptions C15_legality_gate.

Theorem C15_set_board_clears : forall b, bt_tf (bot_set_board b) = [] /\ bt_board (bot_set_board b) = b.
Proof. intros b. split; reflexivity. Qed.
Print Assumptions C15_set_board_clears.

(* the refinement that remains to be proved: the flag of the k-th accepted move is raised iff the board it
   produces occurs for the third time among the boards produced since set_board (board_eqb = same
   placement, side, rights, e.p. file), provided equal boards carry equal piece hashes *)
Fixpoint add_all (tf : threefold) (bs : list board) : threefold * list bool :=
  match bs with
  | [] => (tf, [])
  | b :: r => let '(tf1, f) := tf_add tf b in let '(tf2, fs) := add_all tf1 r in (tf2, f :: fs)
  end.
Fixpoint occurrences (b : board) (l : list board) : nat :=
  match l with [] => O | x :: r => (if board_eqb x b then 1 else 0) + occurrences b r end.
Fixpoint expected_flags (seen : list board) (bs : list board) : list bool :=
  match bs with
  | [] => []
  | b :: r => Nat.eqb (S (occurrences b seen)) 3 :: expected_flags (b :: seen) r
  end.
Definition C15_threefold_statement : Prop :=
  forall bs, (forall x y, In x bs -> In y bs -> board_eqb x y = true -> b_zob x = b_zob y) ->
    (length bs <= 255)%nat -> snd (add_all [] bs) = expected_flags [] bs.
