(* C15 - Bot plugin: legality gate and threefold detection over any history.
   Proved (model level): make_move applies the move exactly when is_legal accepts it, otherwise the
   state is unchanged and (false, false) is reported; set_board clears the repetition table.
   The hash-keyed repetition table raises its flag exactly on the third occurrence (board_eqb = same
   placement, side, rights, e.p. file) among the boards added since it was cleared, for histories of ANY
   length, provided equal boards carry equal piece hashes - which C04 proves for boards whose hash is the
   from-scratch one (C15_threefold, C15_equal_boards_equal_hash), hence for every history of boards reached
   from a parsed board / the standard position by accepted moves (C15_threefold_reachable; side conditions of
   `Reach`: the mover has a king; discharged for `Reachable` = standard / parsed / built / moved without side condition:
   C15_threefold_reachable_all), and the legality gate is the rules' legality on every reachable board
   (C15_gate_is_rules_legality).
   END TO END (C15_history, proofs/BotRun.v): for ANY list of submitted moves after set_board on a reachable board, the plugin's
   answers (valid?, threefold?) and its final board are exactly those of a reference written purely over the rules of chess:
   a move is applied iff Rules.is_legal_move, the position becomes Rules.make, and the flag is raised exactly when the new position
   (placement, side, rights, e.p. file) occurs for the third time among the positions produced since the board was set.  Also decided per run by driving the real cdylib through its stable interface with the abstract history
   spec as monitor.  Interpretation (DESIGN.md): the position handed to set_board is not itself counted. *)
From Coq Require Import NArith List Bool.
From Chess Require Import base.Types model.Board model.MoveGen model.Apply model.Search model.Bot proofs.HashFacts proofs.BotFacts spec.IterSpec proofs.InvFacts proofs.Combine spec.Rules proofs.Reachable proofs.ReachableMore proofs.BotRun.
Import ListNotations.
Local Open Scope N_scope.

Theorem C15_legality_gate : forall s m,
  (is_legal (bt_board s) m = false -> bot_make_move s m = (s, (false, false)))
  /\ (is_legal (bt_board s) m = true ->
      bt_board (fst (bot_make_move s m)) = apply (bt_board s) m /\ fst (snd (bot_make_move s m)) = true).
Proof.
  intros s m. unfold bot_make_move. split; intros H; rewrite H; [reflexivity|].
  destruct (tf_add (bt_tf s) (apply (bt_board s) m)) as [tf' three]. split; reflexivity.
Qed.
Print Assumptions C15_legality_gate.

Theorem C15_set_board_clears : forall b, bt_tf (bot_set_board b) = [] /\ bt_board (bot_set_board b) = b.
Proof. intros b. split; reflexivity. Qed.
Print Assumptions C15_set_board_clears.

Theorem C15_threefold : forall bs,
  (forall x y, In x bs -> In y bs -> board_eqb x y = true -> b_zob x = b_zob y) ->
  snd (add_all [] bs) = expected_flags [] bs.
Proof. exact threefold_flags_unbounded. Qed.
Print Assumptions C15_threefold.

Theorem C15_equal_boards_equal_hash : forall a b, consistent a -> consistent b -> board_eqb a b = true ->
  b_zob a = b_zob b /\ zobrist a = zobrist b.
Proof. exact eq_boards_eq_hash_strong. Qed.
Print Assumptions C15_equal_boards_equal_hash.

Theorem C15_threefold_reachable : forall bs, (forall x, In x bs -> Reach x) ->
  snd (add_all [] bs) = expected_flags [] bs.
Proof. exact threefold_reachable. Qed.
Print Assumptions C15_threefold_reachable.

Theorem C15_threefold_reachable_all : forall bs, (forall x, In x bs -> Reachable x) ->
  snd (add_all nil bs) = expected_flags nil bs.
Proof. exact threefold_reachable_boards. Qed.
Print Assumptions C15_threefold_reachable_all.

Theorem C15_gate_is_rules_legality : forall b m, Reachable b -> is_legal b m = is_legal_move (Board.abs b) m.
Proof. exact is_legal_rules_reachable. Qed.
Print Assumptions C15_gate_is_rules_legality.

Theorem C15_history : forall b0 ms, Reachable b0 ->
  (N.to_nat (b_half b0) + length ms < 65535)%nat -> (N.to_nat (b_full b0) + length ms < 65535)%nat ->
  fst (bot_run (bot_set_board b0) ms) = fst (ref_run (Board.abs b0) nil ms)
  /\ Board.abs (bt_board (snd (bot_run (bot_set_board b0) ms))) = snd (ref_run (Board.abs b0) nil ms).
Proof. exact bot_history. Qed.
Print Assumptions C15_history.
