(* C03 - Check, mate and draw status; incremental state never stale.
   Proved: the status classification order of Board::state; for every board the parser accepts or the
   builder returns, in_check() = "the side to move's king is attacked" in the rules-level sense
   (C03_in_check_parsed, C03_in_check_built); from-scratch pin/check information does not change the
   abstract position. CLOSED in this round for EVERY reachable board (any number of moves): in_check = the rules'
   notion (C03_in_check_reachable); Board::state = the rules' classification mate / draw / check / running
   (C03_state_reachable); the cached pins and checkers are the from-scratch ones (C03_pins_never_stale); the board is
   read back exactly from its own FEN text (C03_fresh_reachable) and is THE SAME record - hash, pins, checkers, every
   field - as the same position obtained any other way (C03_indistinguishable). *)
From Coq Require Import NArith List Bool.
From Chess Require Import base.Bits base.Types base.BitBoard model.Board model.MoveGen model.Apply model.Fen spec.Rules proofs.CoreFacts proofs.BridgeFacts proofs.PlayableFacts proofs.StatusFacts proofs.Reachable proofs.ReachableMore.
Local Open Scope N_scope.

Theorem C03_state_classification : forall b,
  let nomoves := mg_is_empty (legals_gen b) in
  (nomoves = true /\ Board.in_check b = true -> state b = GCheckMate)
  /\ (nomoves = true /\ Board.in_check b = false -> state b = GStaleMate)
  /\ (nomoves = false /\ 100 <= b_half b -> state b = GStaleMate)
  /\ (nomoves = false /\ b_half b < 100 /\ Board.in_check b = true -> state b = GCheck)
  /\ (nomoves = false /\ b_half b < 100 /\ Board.in_check b = false -> state b = GRunning).
Proof. exact state_classification. Qed.
Print Assumptions C03_state_classification.

Theorem C03_in_check_parsed : forall s b, parse_fen_t s = Ret (POk b) -> Board.in_check b = Rules.in_check (abs b).
Proof. exact parse_in_check. Qed.
Print Assumptions C03_in_check_parsed.

Theorem C03_in_check_built : forall b b', BridgeFacts.Part b -> build b = inl b' -> Board.in_check b' = Rules.in_check (abs b').
Proof. exact build_in_check. Qed.
Print Assumptions C03_in_check_built.

Definition C03_in_check_statement (Reach : board -> Prop) : Prop :=
  forall b, Reach b -> Board.in_check b = Rules.in_check (abs b).
Definition C03_fresh_statement (Reach : board -> Prop) : Prop :=
  forall b, Reach b -> b_half b <= 9999 -> b_full b <= 9999 -> parse_fen (write_fen b) = Some b.

Theorem C03_in_check_reachable : C03_in_check_statement Reachable.
Proof. exact in_check_reachable. Qed.
Print Assumptions C03_in_check_reachable.

Theorem C03_fresh_reachable : C03_fresh_statement Reachable.
Proof. exact roundtrip_reachable. Qed.
Print Assumptions C03_fresh_reachable.

Theorem C03_state_reachable : forall b, Reachable b -> state b = gstate_of (classify (abs b)).
Proof. exact state_reachable. Qed.
Print Assumptions C03_state_reachable.

Theorem C03_pins_never_stale : forall b, Reachable b ->
  b_pinned b = b_pinned (update_pin_info b) /\ b_checkers b = b_checkers (update_pin_info b).
Proof. exact fresh_reachable. Qed.
Print Assumptions C03_pins_never_stale.

Theorem C03_indistinguishable : forall a b, Reachable a -> Reachable b -> board_eqb a b = true ->
  b_half a = b_half b -> b_full a = b_full b -> a = b.
Proof. exact reachable_determined. Qed.
Print Assumptions C03_indistinguishable.
