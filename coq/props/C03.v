(* C03 - Check, mate and draw status; incremental state never stale.
   Proved: the status classification order of Board::state; for every board the parser accepts or the
   builder returns, in_check() = "the side to move's king is attacked" in the rules-level sense
   (C03_in_check_parsed, C03_in_check_built); from-scratch pin/check information does not change the
   abstract position. OPEN: the same for boards reached by moves (incremental update), and C03_fresh (decided by the correspondence: in_check/state against the rules spec, moved
   board against the re-parsed one on legal moves, hash, text, Debug rendering, pins, checkers). *)
From Coq Require Import NArith List Bool.
From Chess Require Import base.Bits base.Types base.BitBoard model.Board model.MoveGen model.Apply model.Fen spec.Rules proofs.CoreFacts proofs.BridgeFacts proofs.PlayableFacts.
Local Open Scope N_scope.

Theorem C03_state_classification : forall b,
  let nomoves := mg_is_empty (legals_gen b) in
  (nomoves = true /\ Board.in_check b = true -> state b = GCheckMate)
  /\ (nomoves = true /\ Board.in_check b = false -> state b = GStaleMate)
  /\ (nomoves = false /\ 100 <= b_half b -> state b = GStaleMate)
  /\ (nomoves = false /\ b_half b < 100 /\ Board.in_check b = true -> state b = GCheck)
  /\ (nomoves = false /\ b_half b < 100 /\ Board.in_check b = false -> state b = GRunning).
Proof. exact state_classification. Qed.
Print Assumptions C03_state_classification.

Theorem C03_in_check_parsed : forall s b, parse_fen_t s = Ret (POk b) -> Board.in_check b = Rules.in_check (abs b).
Proof. exact parse_in_check. Qed.
Print Assumptions C03_in_check_parsed.

Theorem C03_in_check_built : forall b b', BridgeFacts.Part b -> build b = inl b' -> Board.in_check b' = Rules.in_check (abs b').
Proof. exact build_in_check. Qed.
Print Assumptions C03_in_check_built.

Definition C03_in_check_statement (Reach : board -> Prop) : Prop :=
  forall b, Reach b -> Board.in_check b = Rules.in_check (abs b).
Definition C03_fresh_statement (Reach : board -> Prop) : Prop :=
  forall b, Reach b -> b_half b <= 9999 -> b_full b <= 9999 -> parse_fen (write_fen b) = Some b.
