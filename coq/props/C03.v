(* C03 - Check, mate and draw status; incremental state never stale.
   Proved: the status classification order of Board::state. OPEN: C03_in_check_statement,
   C03_fresh_statement (decided by the correspondence: in_check/state against the rules spec, moved
   board against the re-parsed one on legal moves, hash, text, Debug rendering, pins, checkers). *)
From Coq Require Import NArith List Bool.
From Chess Require Import base.Bits base.Types model.Board model.MoveGen model.Apply model.Fen spec.Rules proofs.CoreFacts.
Local Open Scope N_scope.

Theorem C03_state_classification : forall b,
  let nomoves := mg_is_empty (legals_gen b) in
  (nomoves = true /\ Board.in_check b = true -> state b = GCheckMate)
  /\ (nomoves = true /\ Board.in_check b = false -> state b = GStaleMate)
  /\ (nomoves = false /\ 100 <= b_half b -> state b = GStaleMate)
  /\ (nomoves = false /\ b_half b < 100 /\ Board.in_check b = true -> state b = GCheck)
  /\ (nomoves = false /\ b_half b < 100 /\ Board.in_check b = false -> state b = GRunning).
Proof. exact state_classification. Qed.
Print Assumptions C03_state_classification.

Definition C03_in_check_statement (Reach : board -> Prop) : Prop :=
  forall b, Reach b -> Board.in_check b = Rules.in_check (abs b).
Definition C03_fresh_statement (Reach : board -> Prop) : Prop :=
  forall b, Reach b -> b_half b <= 9999 -> b_full b <= 9999 -> parse_fen (write_fen b) = Some b.
