(* C16 - Stable-ABI move and score encodings are lossless: generic over squares, mate distances and
   the numeric payload (N / Z unbounded), so no enumeration bound applies. *)
From Coq Require Import NArith ZArith List Bool.
From Chess Require Import model.Score model.Abi proofs.AbiFacts.

Theorem C16_move_roundtrip : forall m, of_stable (to_stable m) = m.
Proof. exact stable_roundtrip. Qed.
Print Assumptions C16_move_roundtrip.
Theorem C16_optional_move_roundtrip : forall om, of_opt (to_opt om) = om.
Proof. exact opt_roundtrip. Qed.
Print Assumptions C16_optional_move_roundtrip.
Theorem C16_absent_stays_absent : of_opt (to_opt None) = None.
Proof. exact opt_none_stays_none. Qed.
Print Assumptions C16_absent_stays_absent.
Theorem C16_score_roundtrip : forall s, score_of (score_to s) = s.
Proof. exact score_roundtrip. Qed.
Print Assumptions C16_score_roundtrip.
Theorem C16_evaluated_move_lossless : forall m s, evaluated_roundtrip m s = (m, s).
Proof. exact evaluated_lossless. Qed.
Print Assumptions C16_evaluated_move_lossless.
Theorem C16_encodings_injective :
  (forall a b, to_stable a = to_stable b -> a = b) /\ (forall a b, to_opt a = to_opt b -> a = b).
Proof. exact (conj to_stable_injective to_opt_injective). Qed.
Print Assumptions C16_encodings_injective.
