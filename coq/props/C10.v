(* C10 - Move iterator honours its size and filtering contracts.
   The concrete iterator model (model/MoveGen.v: entry list, cursor, promotion cursor, mask) refines the
   abstract iterator (spec/IterSpec.v: a multiset of owed moves and a mask) for EVERY finite interleaving
   of next / len / is_empty / size_hint / set_mask / remove / remove_move, from every generator the board
   can produce - outside the two machine-checked known classes:
     K1  remove_move of a promotion move removes the destination for all four pieces;
     K2  set_mask / remove / remove_move while a promotion group is in progress keep a stale cursor. *)
From Coq Require Import NArith List Bool Permutation.
From Chess Require Import base.Bits base.Types base.BitBoard model.Board model.MoveGen spec.IterSpec proofs.IterFacts.
From Chess Require spec.Rules proofs.Reachable proofs.ReachableMore.
Import ListNotations.
Local Open Scope N_scope.

Theorem C10_generators_wellformed : forall b M turn,
  wf (legals_gen b) /\ wf (legals_masked_gen b M) /\ wf (king_legals_gen b turn).
Proof. intros b M turn. exact (conj (legals_gen_wf b) (conj (legals_masked_gen_wf b M) (king_legals_gen_wf b turn))). Qed.
Print Assumptions C10_generators_wellformed.

Theorem C10_next : forall g m g', wf g -> mg_next g = (Some m, g') ->
  In m (visible g) /\ Permutation (content g) (m :: content g') /\ g_mask g' = g_mask g /\ wf g'.
Proof. exact next_sound. Qed.
Print Assumptions C10_next.

Theorem C10_next_none : forall g, wf g -> (fst (mg_next g) = None <-> visible g = []).
Proof. exact next_none. Qed.
Print Assumptions C10_next_none.

Theorem C10_len_exact : forall g, wf g -> mg_len g = N.of_nat (length (visible g)).
Proof. exact len_exact. Qed.
Print Assumptions C10_len_exact.

Theorem C10_is_empty_exact : forall g, wf g -> (mg_is_empty g = true <-> visible g = []).
Proof. exact is_empty_exact. Qed.
Print Assumptions C10_is_empty_exact.

Theorem C10_size_hint_exact : forall g, wf g ->
  mg_size_hint g = (N.of_nat (length (visible g)), Some (N.of_nat (length (visible g)))).
Proof. exact size_hint_exact. Qed.
Print Assumptions C10_size_hint_exact.

(* every interleaving (guard = no mask/removal inside a promotion group) *)
Theorem C10_refines : forall os g rs g', wf g -> crun g os = Some (rs, g') -> atrace (abs g) os rs (abs g') /\ wf g'.
Proof. exact trace_refines. Qed.
Print Assumptions C10_refines.

Theorem C10_legals_masked : forall b M, visible (legals_masked_gen b M) = filter (in_mask M) (content (legals_gen b)).
Proof. exact legals_masked_visible. Qed.
Print Assumptions C10_legals_masked.

Theorem C10_cover : forall Ms g, wf g -> g_promo g = 0 -> covers Ms ->
  Permutation (fst (cover_run g Ms)) (content g) /\ content (snd (cover_run g Ms)) = [].
Proof. exact cover. Qed.
Print Assumptions C10_cover.

Theorem C10_remove_move_exact : forall g m, wf g -> g_promo g = 0 -> m_promo m = None ->
  (forall e, In e (g_moves g) -> e_src e = m_src m -> e_promo e = false) ->
  content (fst (mg_remove_move g m)) = filter (fun x => negb (move_eqb x m)) (content g).
Proof. exact remove_move_exact. Qed.
Print Assumptions C10_remove_move_exact.

(* the known classes are real: the unrestricted statements are refuted on concrete generators *)
Theorem C10_K1_remove_move_promotion_refuted : ~ remove_move_exact_statement.
Proof. exact remove_move_promotion_refuted. Qed.
Print Assumptions C10_K1_remove_move_promotion_refuted.
Theorem C10_K2_set_mask_in_progress_refuted : ~ set_mask_drain_statement.
Proof. exact set_mask_in_progress_refuted. Qed.
Print Assumptions C10_K2_set_mask_in_progress_refuted.
Theorem C10_K2_remove_in_progress_refuted : ~ remove_statement.
Proof. exact remove_in_progress_refuted. Qed.
Print Assumptions C10_K2_remove_in_progress_refuted.

(* "legal moves" in the property's sense: on every reachable board, generation restricted to a destination mask yields
   exactly the moves that are legal under the rules of chess and land in the mask, each once *)
Theorem C10_legals_masked_rules : forall b M m, Reachable.Reachable b ->
  (In m (mg_drain (legals_masked_gen b M)) <-> In m (Rules.legal_moves (Board.abs b)) /\ mem M (m_dst m) = true).
Proof. exact ReachableMore.legals_masked_rules. Qed.
Print Assumptions C10_legals_masked_rules.

Theorem C10_legals_masked_nodup : forall b M, Reachable.Reachable b -> NoDup (mg_drain (legals_masked_gen b M)).
Proof. exact ReachableMore.legals_masked_nodup. Qed.
Print Assumptions C10_legals_masked_nodup.
