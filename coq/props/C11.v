(* C11 - Search returns a legal move whenever the time limit may expire.
   Proved (generic, chess-independent): fail-soft alpha-beta with the engine's update rules computes
   the minimax value for every window position (AB_window), is exact on the full window, independent
   of child order, and the root loop keeps the first best move; the first realistic child always
   improves on the sentinel start value (so a completed first pass over a non-empty move list has a move).
   OPEN: C11_legal / C11_some / C11_none / C11_terminates over the search model (statements kept);
   decided per run by the poll-exact correspondence on counting timeouts and the spec monitor
   "returned move is in Rules.legal_moves". *)
From Coq Require Import NArith ZArith List Bool.
From Chess Require Import base.Types model.Score model.Board model.MoveGen model.Search spec.Rules spec.GameTree
  proofs.GameTreeFacts proofs.SearchOrder.
Local Open Scope N_scope.

Theorem C11_alphabeta_exact : forall t w, GameTree.alphabeta w SMin SMax t = GameTree.minimax w t.
Proof. exact AB_exact_gen. Qed.
Print Assumptions C11_alphabeta_exact.

Theorem C11_alphabeta_window : forall t w alpha beta, cmp alpha beta = Lt -> window_ok w alpha beta t.
Proof. exact AB_window_gen. Qed.
Print Assumptions C11_alphabeta_window.

Theorem C11_first_child_improves : forall c s, realistic s -> Search.is_better c (Search.worst c) s = true.
Proof. exact first_child_improves. Qed.
Print Assumptions C11_first_child_improves.

Definition C11_legal_statement : Prop :=
  forall k tf passes fuel root m sc d f, Search.search k tf passes fuel root = (Some m, sc, d, f) -> In m (legals root).
Definition C11_none_statement : Prop :=
  forall k tf passes fuel root, legals root = nil -> (0 < passes)%nat -> fst (fst (fst (Search.search k tf passes fuel root))) = None.
