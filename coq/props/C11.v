(* C11 - Search returns a legal move whenever the time limit may expire.
   Proved (generic, chess-independent): fail-soft alpha-beta with the engine's update rules computes
   the minimax value for every window position (AB_window), is exact on the full window, independent
   of child order, and the root loop keeps the first best move; the first realistic child always
   improves on the sentinel start value (so a completed first pass over a non-empty move list has a move).
   Over the search model (timeout = first expiry at poll k, any k; any repetition table):
   the returned move is a generated legal move of the root (C11_legal), no legal move => no move (C11_none),
   legal moves + completed first pass => a move (C11_some); alphabeta only returns realistic scores.
   CLOSED in this round: `legals` IS Rules.legal_moves on every reachable board (C01), so the returned move is legal
   under the rules (C11_legal_rules), none is returned when the rules give no legal move (C11_none_rules), one is
   returned when they give some and the first pass completes (C11_some_rules); and the model's fuel is never the
   reason for stopping: captures remove a man, so with fuel above the number of men (<= 32) and the full pass
   budget the search model terminates by itself (C11_terminates).
   Also decided per run by the poll-exact correspondence on counting timeouts and the spec monitor
   "returned move is in Rules.legal_moves". *)
From Coq Require Import NArith ZArith List Bool.
From Chess Require Import base.Types model.Score model.Board model.MoveGen model.Search spec.Rules spec.GameTree
  proofs.GameTreeFacts proofs.SearchOrder spec.IterSpec proofs.SearchFacts proofs.LegalDefs proofs.Reachable proofs.ReachableMore.
Local Open Scope N_scope.

Theorem C11_alphabeta_exact : forall t w, GameTree.alphabeta w SMin SMax t = GameTree.minimax w t.
Proof. exact AB_exact_gen. Qed.
Print Assumptions C11_alphabeta_exact.

Theorem C11_alphabeta_window : forall t w alpha beta, cmp alpha beta = Lt -> window_ok w alpha beta t.
Proof. exact AB_window_gen. Qed.
Print Assumptions C11_alphabeta_window.

Theorem C11_first_child_improves : forall c s, realistic s -> Search.is_better c (Search.worst c) s = true.
Proof. exact first_child_improves. Qed.
Print Assumptions C11_first_child_improves.

Theorem C11_legal : forall k tf passes fuel root m sc d f,
  Search.search k tf passes fuel root = (Some m, sc, d, f) -> In m (legals root).
Proof. exact search_move_legal_all. Qed.
Print Assumptions C11_legal.

Theorem C11_none : forall k tf passes fuel root, legals root = nil ->
  fst (fst (fst (Search.search k tf passes fuel root))) = None.
Proof. exact search_none_gen. Qed.
Print Assumptions C11_none.

Theorem C11_some : forall k tf passes fuel root sc best st',
  legals root <> nil ->
  pass k tf (fuel + N.to_nat 0) root 0 None {| s_polls := 0; s_evals := 0 |} = PassDone sc best st' ->
  fst (fst (fst (Search.search k tf (S passes) fuel root))) <> None.
Proof. exact search_some_all. Qed.
Print Assumptions C11_some.

Theorem C11_legal_rules : forall k tf passes fuel root m sc d f, Reachable root ->
  Search.search k tf passes fuel root = (Some m, sc, d, f) -> In m (legal_moves (Board.abs root)).
Proof. exact search_move_legal_rules. Qed.
Print Assumptions C11_legal_rules.

Theorem C11_none_rules : forall k tf passes fuel root, Reachable root -> legal_moves (Board.abs root) = nil ->
  fst (fst (fst (Search.search k tf passes fuel root))) = None.
Proof. exact search_none_rules. Qed.
Print Assumptions C11_none_rules.

Theorem C11_some_rules : forall k tf passes fuel root sc best st', Reachable root ->
  legal_moves (Board.abs root) <> nil ->
  pass k tf (fuel + N.to_nat 0) root 0 None {| s_polls := 0; s_evals := 0 |} = PassDone sc best st' ->
  fst (fst (fst (Search.search k tf (S passes) fuel root))) <> None.
Proof. exact search_some_rules. Qed.
Print Assumptions C11_some_rules.

Theorem C11_terminates : forall k tf passes fuel root,
  Reachable root -> (32 < fuel)%nat -> 65536 <= N.of_nat passes ->
  snd (Search.search k tf passes fuel root) = false.
Proof. exact search_terminates_reachable. Qed.
Print Assumptions C11_terminates.
