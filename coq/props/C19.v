(* C19 - Square, file, rank, piece and move text forms round-trip; index conversion, (file, rank)
   composition, neighbour steps and rank flip are mutually consistent; the parsers accept exactly the
   intended spellings; the enumerating iterators behave like slice iterators from both ends.
   ONLY pinned statements; every proof is `exact <lemma>`; Print Assumptions beneath each.
   Bytes are N < 256, byte strings list N (any length), squares N < 64 (A1 = 0), files / ranks N < 8,
   pieces N < 6 (Pawn Knight Bishop Rook Queen King), promotion pieces 1..4. *)
From Coq Require Import NArith List Bool.
From Chess Require Import model.Text proofs.TextFacts.
Import ListNotations.
Local Open Scope N_scope.

Theorem C19_pos_consistency :
  (forall f r, f < 8 -> r < 8 ->
     pos_new f r < 64 /\ pos_from_u8 (pos_new f r) = Some (pos_new f r) /\
     pos_file (pos_new f r) = f /\ pos_rank (pos_new f r) = r) /\
  (forall s, s < 64 ->
     pos_from_u8 s = Some s /\ pos_file s < 8 /\ pos_rank s < 8 /\
     pos_new (pos_file s) (pos_rank s) = s) /\
  (forall n s, pos_from_u8 n = Some s <-> n < 64 /\ s = n) /\
  (forall a b, dist_to a b = dist_to b a /\ (dist_to a b = 0 <-> a = b) /\
               (a <= b -> dist_to a b = b - a) /\ (b <= a -> dist_to a b = a - b)) /\
  (forall c, c < 2 -> color_not c < 2 /\ color_not c <> c /\ color_not (color_not c) = c /\
                      side_not c = color_not c).
Proof. exact pos_consistency. Qed.
Print Assumptions C19_pos_consistency.

Theorem C19_shifts : forall s, s < 64 ->
  (pos_shift_up s = (if pos_rank s =? 7 then None else Some (s + 8)) /\
   pos_shift_down s = (if pos_rank s =? 0 then None else Some (s - 8)) /\
   pos_shift_left s = (if pos_file s =? 0 then None else Some (s - 1)) /\
   pos_shift_right s = (if pos_file s =? 7 then None else Some (s + 1))) /\
  (forall t,
   (pos_shift_up s = Some t -> t < 64 /\ pos_shift_down t = Some s) /\
   (pos_shift_down s = Some t -> t < 64 /\ pos_shift_up t = Some s) /\
   (pos_shift_left s = Some t -> t < 64 /\ pos_shift_right t = Some s) /\
   (pos_shift_right s = Some t -> t < 64 /\ pos_shift_left t = Some s)).
Proof. exact shifts. Qed.
Print Assumptions C19_shifts.

Theorem C19_flip : forall s, s < 64 ->
  pos_flip_rank s < 64 /\
  pos_flip_rank (pos_flip_rank s) = s /\
  pos_file (pos_flip_rank s) = pos_file s /\
  pos_rank (pos_flip_rank s) = 7 - pos_rank s /\
  pos_flip_rank s = N.lxor s 56 /\
  rank_flip (rank_flip (pos_rank s)) = pos_rank s.
Proof. exact flip. Qed.
Print Assumptions C19_flip.

Theorem C19_roundtrip_file : forall f, f < 8 -> file_from_ascii_bytes (file_show f) = Some f.
Proof. exact roundtrip_file. Qed.
Print Assumptions C19_roundtrip_file.

Theorem C19_roundtrip_rank : forall r, r < 8 -> rank_from_ascii_bytes (rank_show r) = Some r.
Proof. exact roundtrip_rank. Qed.
Print Assumptions C19_roundtrip_rank.

Theorem C19_roundtrip_pos : forall s, s < 64 -> pos_from_ascii_bytes (pos_show s) = Some s.
Proof. exact roundtrip_pos. Qed.
Print Assumptions C19_roundtrip_pos.

Theorem C19_roundtrip_move : forall a b, a < 64 -> b < 64 ->
  move_from_ascii_bytes (move_show (a, b)) = Some (a, b).
Proof. exact roundtrip_move. Qed.
Print Assumptions C19_roundtrip_move.

(* the dash-less spelling of the same move *)
Theorem C19_roundtrip_move_nodash : forall a b, a < 64 -> b < 64 ->
  move_from_ascii_bytes (pos_show a ++ pos_show b) = Some (a, b).
Proof. exact roundtrip_move_nodash. Qed.
Print Assumptions C19_roundtrip_move_nodash.

Theorem C19_roundtrip_promo : forall p, 1 <= p <= 4 ->
  promo_from_ascii_bytes (promo_show p) = Some p.
Proof. exact roundtrip_promo. Qed.
Print Assumptions C19_roundtrip_promo.

Theorem C19_accept_file : forall l f, (forall b, In b l -> b < 256) ->
  (file_from_ascii_bytes l = Some f <->
   exists b, l = [b] /\ ((97 <= b <= 104 /\ f = b - 97) \/ (65 <= b <= 72 /\ f = b - 65))).
Proof. exact accept_file. Qed.
Print Assumptions C19_accept_file.

Theorem C19_accept_rank : forall l r, (forall b, In b l -> b < 256) ->
  (rank_from_ascii_bytes l = Some r <-> l = [49 + r] /\ r < 8).
Proof. exact accept_rank. Qed.
Print Assumptions C19_accept_rank.

(* p P n N b B r R q Q k K *)
Theorem C19_accept_piece : forall l p,
  piece_from_ascii_bytes l = Some p <->
  exists b, l = [b] /\
    (((b = 112 \/ b = 80) /\ p = 0) \/ ((b = 110 \/ b = 78) /\ p = 1) \/
     ((b = 98 \/ b = 66) /\ p = 2) \/ ((b = 114 \/ b = 82) /\ p = 3) \/
     ((b = 113 \/ b = 81) /\ p = 4) \/ ((b = 107 \/ b = 75) /\ p = 5)).
Proof. exact accept_piece. Qed.
Print Assumptions C19_accept_piece.

(* n N b B r R q Q *)
Theorem C19_accept_promo : forall l p,
  promo_from_ascii_bytes l = Some p <->
  exists b, l = [b] /\
    (((b = 110 \/ b = 78) /\ p = 1) \/ ((b = 98 \/ b = 66) /\ p = 2) \/
     ((b = 114 \/ b = 82) /\ p = 3) \/ ((b = 113 \/ b = 81) /\ p = 4)).
Proof. exact accept_promo. Qed.
Print Assumptions C19_accept_promo.

Theorem C19_accept_pos : forall l s,
  pos_from_ascii_bytes l = Some s <->
  exists fb rb, l = [fb; rb] /\
    file_from_ascii_byte fb = Some (s mod 8) /\ rank_from_ascii_byte rb = Some (s / 8) /\ s < 64.
Proof. exact accept_pos. Qed.
Print Assumptions C19_accept_pos.

Theorem C19_accept_pos_explicit : forall l s, (forall b, In b l -> b < 256) ->
  (pos_from_ascii_bytes l = Some s <->
   exists fb rb, l = [fb; rb] /\
     ((97 <= fb <= 104 /\ s mod 8 = fb - 97) \/ (65 <= fb <= 72 /\ s mod 8 = fb - 65)) /\
     49 <= rb <= 56 /\ s / 8 = rb - 49 /\ s < 64).
Proof. exact accept_pos_explicit. Qed.
Print Assumptions C19_accept_pos_explicit.

Theorem C19_accept_move : forall l a b,
  move_from_ascii_bytes l = Some (a, b) <->
  (exists sf sr df dr, l = [sf; sr; df; dr] /\
     pos_from_ascii_bytes [sf; sr] = Some a /\ pos_from_ascii_bytes [df; dr] = Some b) \/
  (exists sf sr df dr, l = [sf; sr; 45; df; dr] /\
     pos_from_ascii_bytes [sf; sr] = Some a /\ pos_from_ascii_bytes [df; dr] = Some b).
Proof. exact accept_move. Qed.
Print Assumptions C19_accept_move.

(* every other byte string - any other length, any other byte - is rejected *)
Theorem C19_reject_others : forall l, (forall b, In b l -> b < 256) ->
  (~ (exists b, l = [b] /\ (97 <= b <= 104 \/ 65 <= b <= 72)) -> file_from_ascii_bytes l = None) /\
  (~ (exists b, l = [b] /\ 49 <= b <= 56) -> rank_from_ascii_bytes l = None) /\
  (~ (exists b, l = [b] /\ In b [112; 80; 110; 78; 98; 66; 114; 82; 113; 81; 107; 75]) ->
     piece_from_ascii_bytes l = None) /\
  (~ (exists b, l = [b] /\ In b [110; 78; 98; 66; 114; 82; 113; 81]) ->
     promo_from_ascii_bytes l = None) /\
  (~ (exists fb rb, l = [fb; rb] /\ (97 <= fb <= 104 \/ 65 <= fb <= 72) /\ 49 <= rb <= 56) ->
     pos_from_ascii_bytes l = None) /\
  (~ (exists sf sr df dr, (l = [sf; sr; df; dr] \/ l = [sf; sr; 45; df; dr]) /\
        pos_from_ascii_bytes [sf; sr] <> None /\ pos_from_ascii_bytes [df; dr] <> None) ->
     move_from_ascii_bytes l = None) /\
  (length l <> 1%nat ->
     file_from_ascii_bytes l = None /\ rank_from_ascii_bytes l = None /\
     piece_from_ascii_bytes l = None /\ promo_from_ascii_bytes l = None) /\
  (length l <> 2%nat -> pos_from_ascii_bytes l = None) /\
  (length l <> 4%nat -> length l <> 5%nat -> move_from_ascii_bytes l = None).
Proof. exact reject_others. Qed.
Print Assumptions C19_reject_others.

(* the printed form of a move that carries a promotion piece ("e7-e8Q", six bytes) does not parse *)
Theorem C19_promotion_move_text_rejected : forall a b p, 1 <= p <= 4 ->
  move_from_ascii_bytes (move_show_full a b (Some p)) = None.
Proof. exact promotion_move_text_rejected. Qed.
Print Assumptions C19_promotion_move_text_rejected.

(* Range<u8>-backed enumerating iterators (0..k through from_u8), any k <= 255 - in particular
   2 colours, 2 sides, 6 pieces, 8 files, 8 ranks - any op sequence, any n: same results as the
   list deque over [0; ...; k-1]; from_u8 never fails on a yielded item. *)
Theorem C19_iter_refines_deque : forall k ops, k <= 255 ->
  run_iter k ops = run_deque (range_list 0 k) ops /\
  run_range (mk_range 0 k) ops = run_deque (range_list 0 k) ops.
Proof. exact iter_refines_deque. Qed.
Print Assumptions C19_iter_refines_deque.

Theorem C19_size_hint_exact : forall r, r_size_hint r = (hi r - lo r, Some (hi r - lo r)).
Proof. exact size_hint_exact. Qed.
Print Assumptions C19_size_hint_exact.

(* AllPosIter: next / size_hint sequences against the deque over [0; ...; 63] *)
Theorem C19_allpos_refines_deque : forall ops, fwd_only ops = true ->
  run_allpos ops = run_deque (range_list 0 64) ops.
Proof. exact allpos_refines_deque. Qed.
Print Assumptions C19_allpos_refines_deque.

(* FileIter / RankIter *)
Theorem C19_file_rank_iter_next : forall x r, lo r <= hi r -> hi r <= 8 ->
  file_iter_next x r =
    (if lo r <? hi r then (Some (pos_new x (lo r)), mk_range (lo r + 1) (hi r)) else (None, r)) /\
  rank_iter_next x r =
    (if lo r <? hi r then (Some (pos_new (lo r) x), mk_range (lo r + 1) (hi r)) else (None, r)).
Proof. exact file_rank_iter_next. Qed.
Print Assumptions C19_file_rank_iter_next.

(* non-vacuity: concrete values *)
Example C19_example :
  range_list 0 2 = [0; 1] /\ range_list 0 6 = [0; 1; 2; 3; 4; 5] /\
  range_list 0 8 = [0; 1; 2; 3; 4; 5; 6; 7] /\ length (range_list 0 64) = 64%nat /\
  pos_from_ascii_bytes [101; 50] = Some 12 /\ pos_from_ascii_bytes [69; 50] = Some 12 /\
  move_from_ascii_bytes [101; 50; 101; 52] = Some (12, 28) /\
  move_from_ascii_bytes [101; 50; 45; 101; 52] = Some (12, 28) /\
  move_from_ascii_bytes [101; 50; 32; 101; 52] = None /\
  move_show (12, 28) = [101; 50; 45; 101; 52] /\
  file_from_ascii_bytes [96] = None /\ file_from_ascii_bytes [105] = None /\
  file_from_ascii_bytes [64] = None /\ file_from_ascii_bytes [73] = None /\
  rank_from_ascii_bytes [48] = None /\ rank_from_ascii_bytes [57] = None /\
  run_iter 8 [INth 2; INthBack 1; ISizeHint; INextBack; INext; INth 18446744073709551615; ISizeHint; INext]
    = [Some 2; Some 6; Some 3; Some 5; Some 3; None; Some 0; None] /\
  run_iter 6 [INthBack 6; ISizeHint] = [None; Some 0] /\
  run_iter 2 [INextBack; INext; INext; INextBack] = [Some 1; Some 0; None; None].
Proof. vm_compute. repeat split. Qed.
