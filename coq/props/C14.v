(* C14 - Scores form a total order matching game-theoretic preference.
   ONLY pinned statements; every proof is `exact <lemma>`; Print Assumptions beneath each. *)
From Coq Require Import NArith ZArith List Bool.
From Chess Require Import model.Score proofs.ScoreOrder.
Local Open Scope N_scope.

Theorem C14_reflexive : forall a, cmp a a = Eq.
Proof. exact cmp_refl. Qed.
Print Assumptions C14_reflexive.

Theorem C14_eq_iff : forall a b, cmp a b = Eq <-> a = b.
Proof. exact cmp_eq_iff. Qed.
Print Assumptions C14_eq_iff.

Theorem C14_antisymmetric : forall a b, cmp b a = CompOpp (cmp a b).
Proof. exact cmp_antisym. Qed.
Print Assumptions C14_antisymmetric.

Theorem C14_transitive : forall a b c, cmp a b = Lt -> cmp b c = Lt -> cmp a c = Lt.
Proof. exact cmp_lt_trans. Qed.
Print Assumptions C14_transitive.

Theorem C14_total : forall a b, cmp a b = Lt \/ a = b \/ cmp b a = Lt.
Proof. exact cmp_total. Qed.
Print Assumptions C14_total.

Theorem C14_class_order : forall m n z,
  cmp SMin (SBlackMateIn m) = Lt /\ cmp (SBlackMateIn m) (SRaw z) = Lt /\
  cmp (SRaw z) (SWhiteMateIn n) = Lt /\ cmp (SWhiteMateIn n) SMax = Lt.
Proof. exact class_order. Qed.
Print Assumptions C14_class_order.

Theorem C14_sentinels_extreme : forall s, cmp SMin s <> Gt /\ cmp s SMax <> Gt.
Proof. exact sentinels_extreme. Qed.
Print Assumptions C14_sentinels_extreme.

Theorem C14_white_mate_quicker_greater : forall a b,
  cmp (SWhiteMateIn a) (SWhiteMateIn b) = Gt <-> a < b.
Proof. exact white_mate_quicker_greater. Qed.
Print Assumptions C14_white_mate_quicker_greater.

Theorem C14_black_mate_slower_greater : forall a b,
  cmp (SBlackMateIn a) (SBlackMateIn b) = Gt <-> b < a.
Proof. exact black_mate_slower_greater. Qed.
Print Assumptions C14_black_mate_slower_greater.

Theorem C14_raw_by_value : forall x y, cmp (SRaw x) (SRaw y) = (x ?= y)%Z.
Proof. exact raw_by_value. Qed.
Print Assumptions C14_raw_by_value.

Theorem C14_eq_agrees : forall a b, eqb a b = true <-> cmp a b = Eq.
Proof. exact eqb_cmp. Qed.
Print Assumptions C14_eq_agrees.

Theorem C14_partial_agrees : forall a b, partial_cmp a b = Some (cmp a b).
Proof. exact partial_cmp_agrees. Qed.
Print Assumptions C14_partial_agrees.

Theorem C14_max_min : forall a b,
  (cmp (smax a b) a <> Lt /\ cmp (smax a b) b <> Lt /\ (smax a b = a \/ smax a b = b)) /\
  (cmp (smin a b) a <> Gt /\ cmp (smin a b) b <> Gt /\ (smin a b = a \/ smin a b = b)).
Proof. intros a b; split; [exact (smax_ge a b) | exact (smin_le a b)]. Qed.
Print Assumptions C14_max_min.

(* non-vacuity: concrete values at the 16-/32-bit extremes *)
Example C14_example :
  cmp (SWhiteMateIn 1) (SWhiteMateIn 65535) = Gt /\ cmp (SRaw 2147483647) (SWhiteMateIn 65535) = Lt
  /\ cmp (SBlackMateIn 65535) (SRaw (-2147483648)) = Lt /\ cmp (SBlackMateIn 1) (SBlackMateIn 3) = Lt.
Proof. repeat split. Qed.
