(* C01 - Generated moves are exactly the legal moves of chess.
   The FULL statement (C01_movegen_exact_statement) is NOT proved; it is decided on every generated
   position by the correspondence (implementation = model) and the spec monitor (implementation =
   Rules.legal_moves). Proved and pinned here: asking about a single move = membership in the generated
   list, and the closed instance on the standard position. *)
From Coq Require Import NArith List Bool.
From Chess Require Import base.Bits base.Types model.Board model.MoveGen spec.Rules proofs.CoreFacts.
Local Open Scope N_scope.

Theorem C01_is_legal_agrees : forall b m, is_legal b m = true <-> In m (legals b).
Proof. exact is_legal_iff. Qed.
Print Assumptions C01_is_legal_agrees.

Theorem C01_standard_instance :
  moves_sorted_eqb (legals standard) (legal_moves (abs standard)) = true /\ length (legals standard) = 20%nat.
Proof. exact standard_20_moves. Qed.
Print Assumptions C01_standard_instance.

(* kept visible: what remains to be proved *)
Definition Reach_statement (Reach : board -> Prop) : Prop :=
  Reach standard /\ (forall s b, Fen.parse_fen s = Some b -> Reach b)
  /\ (forall b m, Reach b -> In m (legals b) -> Reach (Apply.apply b m)).
Definition C01_movegen_exact_statement (Reach : board -> Prop) : Prop :=
  forall b, Reach b ->
    NoDup (legals b) /\ (forall m, In m (legals b) <-> In m (legal_moves (abs b))).
