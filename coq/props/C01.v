(* C01 - Generated moves are exactly the legal moves of chess.
   PROVED IN FULL for the model: for every reachable board - the standard position, every board the FEN parser
   accepts, every board the incremental builder returns, and every board obtained from one of these by moves the
   checked operations accept, with no bound on the length of the game - what board.legals() yields (the iterator
   drained) is, each move exactly once, the set of moves legal under the rules of chess (spec/Rules.v: pseudo-legal
   moves of the mailbox position filtered by "own king not attacked after the move", castling through unattacked
   empty squares, en passant, the four promotion pieces), and asking about a single move gives the same answer.
   The proof goes through the invariant Good (placement partition, from-scratch hash, rights backed by king and
   rook at home, well-formed e.p. marker, one king each, cached pins/checkers = the from-scratch ones, side not to
   move not in check), shown to hold of every reachable board (Reachable_Good) and to make the generator exact
   (movegen_exact_good: pins and check masks, king steps with the king lifted, castling, en passant incl. the
   double-check case).  The model is tied to /repo by the correspondence run of ./check C01. *)
From Coq Require Import NArith List Bool.
From Chess Require Import base.Bits base.Types model.Board model.MoveGen model.Apply model.Fen spec.Rules proofs.CoreFacts
  proofs.InvFacts proofs.LegalDefs proofs.BuilderFacts proofs.Reachable proofs.ReachableMore.
Local Open Scope N_scope.

Theorem C01_is_legal_agrees : forall b m, is_legal b m = true <-> In m (legals b).
Proof. exact is_legal_iff. Qed.
Print Assumptions C01_is_legal_agrees.

Theorem C01_standard_instance :
  moves_sorted_eqb (legals standard) (legal_moves (abs standard)) = true /\ length (legals standard) = 20%nat.
Proof. exact standard_20_moves. Qed.
Print Assumptions C01_standard_instance.

(* what "reachable" means (the statement kept open in earlier rounds, now with its witness) *)
Definition Reach_statement (Reach : board -> Prop) : Prop :=
  Reach standard /\ (forall s b, Fen.parse_fen s = Some b -> Reach b)
  /\ (forall b m, Reach b -> In m (legals b) -> Reach (Apply.apply b m)).
Definition C01_movegen_exact_statement (Reach : board -> Prop) : Prop :=
  forall b, Reach b ->
    NoDup (legals b) /\ (forall m, In m (legals b) <-> In m (legal_moves (abs b))).

Theorem C01_reachable_closed : Reach_statement Reachable.
Proof. exact reachable_closure. Qed.
Print Assumptions C01_reachable_closed.

Theorem C01_built_boards_reachable : forall ops b, Forall bop_wf ops -> build (builder_state ops) = inl b -> Reachable b.
Proof. exact RB_build. Qed.
Print Assumptions C01_built_boards_reachable.

(* THE property: exactly the legal moves, each exactly once *)
Theorem C01_movegen_exact : C01_movegen_exact_statement Reachable.
Proof. exact movegen_exact_reachable. Qed.
Print Assumptions C01_movegen_exact.

(* asking whether a single given move is legal gives the same answer *)
Theorem C01_is_legal_exact : forall b m, Reachable b -> (is_legal b m = true <-> In m (legal_moves (abs b))).
Proof. exact is_legal_exact_reachable. Qed.
Print Assumptions C01_is_legal_exact.

Theorem C01_is_legal_is_rules_is_legal : forall b m, Reachable b -> is_legal b m = is_legal_move (abs b) m.
Proof. exact is_legal_rules_reachable. Qed.
Print Assumptions C01_is_legal_is_rules_is_legal.

(* the same on every board satisfying the invariant, and the invariant on every reachable board *)
Theorem C01_exact_on_good_boards : forall b m, Good b -> (gen_move b m <-> In m (legal_moves (abs b))).
Proof. exact movegen_exact_good. Qed.
Print Assumptions C01_exact_on_good_boards.

Theorem C01_reachable_good : forall b, Reachable b -> Good b.
Proof. exact Reachable_Good. Qed.
Print Assumptions C01_reachable_good.
