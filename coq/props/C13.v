(* C13 - Search is colour-symmetric.
   Proved (game-tree level): negating every leaf and swapping the players negates minimax, alpha-beta
   (with the mirrored window) and the root loop's score, the same move being chosen; score negation is
   an order anti-automorphism mapping white mate-in-n to black mate-in-n; alpha-beta's value does not
   depend on child order.
   CLOSED in round 3 (proofs/Symmetry.v): for two boards satisfying the invariant Good whose rules-level positions are
   colour mirrors of each other (swap the colours, flip the ranks; the full-move number aside), the search model with the
   shipped configuration (positional = false, empty repetition table) reports, for every completed depth, exactly the
   negated score - whatever the two timeouts, poll counts and previous-best moves were (C13_score_negates_per_depth), and
   two searches stopping at the same depth return negated scores (C13_search_negates, C13_search_negates_reachable); roots
   with a promotion move are excluded as in the property.  Route: the score of a completed pass is the minimax value of the
   game tree the model explores (SearchTree); the rules are mirror symmetric (MirrorRules), the evaluation antisymmetric
   (MirrorEval), mirror images stay mirror images under corresponding moves and look the same to every test of the search
   (MirrorBoard); hence the two game trees are mirror images up to the order of children (MirrorSearch). *)
From Coq Require Import NArith ZArith List Bool Permutation.
From Chess Require Import base.Types model.Score proofs.ScoreOrder spec.GameTree proofs.GameTreeFacts.
From Chess Require base.Bits model.Board model.MoveGen model.Search spec.Rules proofs.SearchFacts proofs.MirrorEval proofs.Reachable proofs.Symmetry.

Theorem C13_neg_anti : forall a b, cmp (neg a) (neg b) = cmp b a.
Proof. exact neg_anti. Qed.
Print Assumptions C13_neg_anti.
Theorem C13_neg_involutive : forall s, neg (neg s) = s.
Proof. exact neg_involutive. Qed.
Print Assumptions C13_neg_involutive.
Theorem C13_minimax_neg : forall t w, minimax (negb w) (neg_tree t) = neg (minimax w t).
Proof. exact minimax_neg. Qed.
Print Assumptions C13_minimax_neg.
Theorem C13_alphabeta_neg : forall t w alpha beta,
  alphabeta (negb w) (neg beta) (neg alpha) (neg_tree t) = neg (alphabeta w alpha beta t).
Proof. exact alphabeta_neg. Qed.
Print Assumptions C13_alphabeta_neg.
Theorem C13_order_independent : forall t t' w, tree_perm t t' -> alphabeta w SMin SMax t = alphabeta w SMin SMax t'.
Proof. exact AB_exact_tree_perm. Qed.
Print Assumptions C13_order_independent.
Example C13_mate_mirrors : neg (SWhiteMateIn 3) = SBlackMateIn 3 /\ neg (SRaw 25) = SRaw (-25).
Proof. split; reflexivity. Qed.

Theorem C13_score_negates_per_depth :
  forall k k' fuel root root' depth prev prev' st st0 sc sc' best best' st' st0',
  MirrorEval.Mir root root' -> (Board.b_half root < 65535)%N ->
  (forall m, In m (MoveGen.legals root) -> m_promo m = None) ->
  SearchFacts.prev_legal root prev -> SearchFacts.prev_legal root' prev' ->
  (N.to_nat depth + SearchFacts.men root < fuel)%nat ->
  Search.pass k nil fuel root depth prev st = Search.PassDone sc best st' ->
  Search.pass k' nil fuel root' depth prev' st0 = Search.PassDone sc' best' st0' ->
  sc' = neg sc.
Proof. exact Symmetry.search_score_mirror_good. Qed.
Print Assumptions C13_score_negates_per_depth.

Theorem C13_search_negates :
  forall k k' passes passes' fuel root root' m m' sc sc' d f f',
  MirrorEval.Mir root root' -> (Board.b_half root < 65535)%N ->
  (forall x, In x (MoveGen.legals root) -> m_promo x = None) -> (SearchFacts.men root < fuel)%nat ->
  Search.search k nil passes fuel root = (Some m, sc, d, f) ->
  Search.search k' nil passes' fuel root' = (Some m', sc', d, f') ->
  sc' = neg sc.
Proof. exact Symmetry.search_result_mirror_good. Qed.
Print Assumptions C13_search_negates.

Theorem C13_search_negates_reachable :
  forall k k' passes passes' fuel root root' m m' sc sc' d f f',
  Reachable.Reachable root -> Reachable.Reachable root' -> Symmetry.mirror_images root root' -> (Board.b_half root < 65535)%N ->
  (forall x, In x (MoveGen.legals root) -> m_promo x = None) -> (SearchFacts.men root < fuel)%nat ->
  Search.search k nil passes fuel root = (Some m, sc, d, f) ->
  Search.search k' nil passes' fuel root' = (Some m', sc', d, f') ->
  sc' = neg sc.
Proof. exact Symmetry.search_result_mirror_reachable. Qed.
Print Assumptions C13_search_negates_reachable.
