(* C13 - Search is colour-symmetric.
   Proved (game-tree level): negating every leaf and swapping the players negates minimax, alpha-beta
   (with the mirrored window) and the root loop's score, the same move being chosen; score negation is
   an order anti-automorphism mapping white mate-in-n to black mate-in-n; alpha-beta's value does not
   depend on child order.  OPEN: the game tree of the mirrored position is the negated tree of the
   position up to child order (C13_mirror_statement); decided per run on mirrored pairs, depth by depth. *)
From Coq Require Import NArith ZArith List Bool Permutation.
From Chess Require Import base.Types model.Score proofs.ScoreOrder spec.GameTree proofs.GameTreeFacts.

Theorem C13_neg_anti : forall a b, cmp (neg a) (neg b) = cmp b a.
Proof. exact neg_anti. Qed.
Print Assumptions C13_neg_anti.
Theorem C13_neg_involutive : forall s, neg (neg s) = s.
Proof. exact neg_involutive. Qed.
Print Assumptions C13_neg_involutive.
Theorem C13_minimax_neg : forall t w, minimax (negb w) (neg_tree t) = neg (minimax w t).
Proof. exact minimax_neg. Qed.
Print Assumptions C13_minimax_neg.
Theorem C13_alphabeta_neg : forall t w alpha beta,
  alphabeta (negb w) (neg beta) (neg alpha) (neg_tree t) = neg (alphabeta w alpha beta t).
Proof. exact alphabeta_neg. Qed.
Print Assumptions C13_alphabeta_neg.
Theorem C13_order_independent : forall t t' w, tree_perm t t' -> alphabeta w SMin SMax t = alphabeta w SMin SMax t'.
Proof. exact AB_exact_tree_perm. Qed.
Print Assumptions C13_order_independent.
Example C13_mate_mirrors : neg (SWhiteMateIn 3) = SBlackMateIn 3 /\ neg (SRaw 25) = SRaw (-25).
Proof. split; reflexivity. Qed.
