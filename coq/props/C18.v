(* C18 - Bitboards behave as sets of squares: for ALL 64-bit words (generic proofs via N.testbit). *)
From Coq Require Import NArith List Bool Sorted.
From Chess Require Import base.Bits base.BitBoard proofs.BitsFacts proofs.BitBoardFacts.
Local Open Scope N_scope.

Theorem C18_extensionality : forall a b, wf64 a -> wf64 b -> (forall s, s < 64 -> mem a s = mem b s) -> a = b.
Proof. exact ext64. Qed.
Print Assumptions C18_extensionality.
Theorem C18_from_pos : forall s t, s < 64 -> t < 64 -> mem (from_pos s) t = (t =? s).
Proof. exact mem_from_pos. Qed.
Print Assumptions C18_from_pos.
Theorem C18_from_file : forall f t, f < 8 -> t < 64 -> mem (from_file f) t = (t mod 8 =? f).
Proof. exact mem_from_file. Qed.
Print Assumptions C18_from_file.
Theorem C18_from_rank : forall r t, r < 8 -> t < 64 -> mem (from_rank r) t = (t / 8 =? r).
Proof. exact mem_from_rank. Qed.
Print Assumptions C18_from_rank.
Theorem C18_contains : forall a s, s < 64 -> contains a s = mem a s.
Proof. exact contains_spec. Qed.
Print Assumptions C18_contains.
Theorem C18_with : forall a s t, t < 64 -> mem (bb_with a s) t = mem a t || (t =? s).
Proof. exact mem_with. Qed.
Print Assumptions C18_with.
Theorem C18_cleared : forall a s t, t < 64 -> mem (cleared a s) t = mem a t && negb (t =? s).
Proof. exact mem_cleared. Qed.
Print Assumptions C18_cleared.
Theorem C18_or : forall a b s, mem (bb_or a b) s = mem a s || mem b s.
Proof. exact mem_or. Qed.
Print Assumptions C18_or.
Theorem C18_and : forall a b s, mem (bb_and a b) s = mem a s && mem b s.
Proof. exact mem_and. Qed.
Print Assumptions C18_and.
Theorem C18_xor : forall a b s, mem (bb_xor a b) s = xorb (mem a s) (mem b s).
Proof. exact mem_xor. Qed.
Print Assumptions C18_xor.
Theorem C18_diff : forall a b s, s < 64 -> mem (bb_diff a b) s = mem a s && negb (mem b s).
Proof. exact mem_diff. Qed.
Print Assumptions C18_diff.
Theorem C18_not : forall a s, s < 64 -> mem (bb_not a) s = negb (mem a s).
Proof. exact mem_not. Qed.
Print Assumptions C18_not.
Theorem C18_shift_up : forall a t, t < 64 -> mem (shift_up a) t = (8 <=? t) && mem a (t - 8).
Proof. exact mem_shift_up. Qed.
Print Assumptions C18_shift_up.
Theorem C18_shift_down : forall a t, t < 64 -> mem (shift_down a) t = (t <? 56) && mem a (t + 8).
Proof. exact mem_shift_down. Qed.
Print Assumptions C18_shift_down.
Theorem C18_shift_left : forall a t, t < 64 -> mem (shift_left a) t = (t mod 8 <? 7) && mem a (t + 1).
Proof. exact mem_shift_left. Qed.
Print Assumptions C18_shift_left.
Theorem C18_shift_right : forall a t, t < 64 -> mem (shift_right a) t = (1 <=? t mod 8) && mem a (t - 1).
Proof. exact mem_shift_right. Qed.
Print Assumptions C18_shift_right.
Theorem C18_flip_ranks : forall a t, t < 64 -> mem (flip_ranks a) t = mem a (N.lxor t 56).
Proof. exact mem_flip_ranks. Qed.
Print Assumptions C18_flip_ranks.
Theorem C18_count : forall a, wf64 a -> count a = N.of_nat (length (elements a)).
Proof. exact count_spec. Qed.
Print Assumptions C18_count.
Theorem C18_elements : forall a s, In s (elements a) <-> s < 64 /\ mem a s = true.
Proof. exact elements_spec. Qed.
Print Assumptions C18_elements.
Theorem C18_elements_ascending : forall a, StronglySorted N.lt (elements a).
Proof. exact elements_sorted. Qed.
Print Assumptions C18_elements_ascending.
Theorem C18_pop_none : forall a, pop a = None <-> a = 0.
Proof. exact pop_none. Qed.
Print Assumptions C18_pop_none.
Theorem C18_pop_some : forall a s a', wf64 a -> pop a = Some (s, a') ->
  s < 64 /\ mem a s = true /\ (forall t, t < s -> mem a t = false) /\ a' = cleared a s /\ wf64 a'.
Proof. exact pop_some. Qed.
Print Assumptions C18_pop_some.
Theorem C18_iteration : forall a, wf64 a -> iter_list a = elements a.
Proof. exact iter_list_elements. Qed.
Print Assumptions C18_iteration.
Theorem C18_size_hint : forall a, wf64 a -> it_size_hint a = N.of_nat (length (elements a)).
Proof. exact it_size_hint_spec. Qed.
Print Assumptions C18_size_hint.
Theorem C18_from_squares : forall l t, (forall s, In s l -> s < 64) -> t < 64 ->
  mem (from_squares l) t = existsb (N.eqb t) l.
Proof. exact mem_from_squares. Qed.
Print Assumptions C18_from_squares.
Theorem C18_from_boards : forall l t, mem (from_boards l) t = existsb (fun b => mem b t) l.
Proof. exact mem_from_boards. Qed.
Print Assumptions C18_from_boards.
Theorem C18_nth_default : forall a n, wf64 a ->
  let (r, a') := nth_default a n in
  r = nth_error (elements a) (N.to_nat n) /\ wf64 a' /\ elements a' = skipn (S (N.to_nat n)) (elements a).
Proof. exact nth_default_spec. Qed.
Print Assumptions C18_nth_default.
(* the BMI2 build of nth (the repository's own configuration: -Ctarget-cpu=native), after the fix *)
Theorem C18_nth_bmi2 : forall a, wf64 a -> forall checked n, nth_bmi2 checked a n = Ret (nth_default a n).
Proof. exact nth_bmi2_spec. Qed.
Print Assumptions C18_nth_bmi2.
(* the code at the pinned commit violated it (finding F10, fixed in /repo): *)
Theorem C18_nth_bmi2_orig_refuted : exists a n, wf64 a /\ nth_bmi2_orig false a n <> Ret (nth_default a n).
Proof. exact nth_bmi2_orig_refuted. Qed.
Print Assumptions C18_nth_bmi2_orig_refuted.
Theorem C18_nth_bmi2_orig_traps : nth_bmi2_orig true (N.ones 64) 64 = Trap.
Proof. exact nth_bmi2_orig_traps. Qed.
Print Assumptions C18_nth_bmi2_orig_traps.
Theorem C18_wf_preserved : forall a b, wf64 a -> wf64 b ->
  wf64 (bb_or a b) /\ wf64 (bb_and a b) /\ wf64 (bb_xor a b) /\ wf64 (bb_diff a b) /\ wf64 (bb_not a)
  /\ wf64 (shift_up a) /\ wf64 (shift_down a) /\ wf64 (shift_left a) /\ wf64 (shift_right a) /\ wf64 (flip_ranks a).
Proof.
  intros a b Ha Hb.
  exact (conj (wf64_or a b Ha Hb) (conj (wf64_and a b Ha Hb) (conj (wf64_xor a b Ha Hb) (conj (wf64_diff a b)
        (conj (wf64_not a) (conj (wf64_shift_up a) (conj (wf64_shift_down a) (conj (wf64_shift_left a)
        (conj (wf64_shift_right a) (wf64_flip_ranks a)))))))))).
Qed.
Print Assumptions C18_wf_preserved.
