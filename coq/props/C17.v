(* C17 - Every opening-book line is a legal game: complete traversal (29036 nodes) of the book table
   regenerated from /repo, legality judged by the rules specification (spec/Rules.v), never by the
   move-generator model. *)
From Coq Require Import NArith List Bool.
From Chess Require Import base.Bits base.Types gen.T_book spec.Rules model.Book proofs.BookSweep proofs.BookFacts.
Local Open Scope N_scope.

Theorem C17_walk_complete : book_walk 12 INITIAL_BOOK start_position = (true, 29036).
Proof. exact book_walk_ok. Qed.
Print Assumptions C17_walk_complete.

Theorem C17_every_path_legal : forall idx p, reach idx p ->
  exists sibs, book_siblings 200 idx = Some sibs /\
    forall s t c, In (s, t, c) sibs -> is_legal_move p (mk s t None) = true.
Proof. exact book_paths_legal. Qed.
Print Assumptions C17_every_path_legal.

Theorem C17_traversal_in_range : forall fuel idx sibs, book_siblings fuel idx = Some sibs ->
  idx < book_size /\ forall s t c, In (s, t, c) sibs -> s < 64 /\ t < 64 /\ c < idx.
Proof. exact book_siblings_in_range. Qed.
Print Assumptions C17_traversal_in_range.

Example C17_root : INITIAL_BOOK = 87203 /\ book_size = 87204.
Proof. split; reflexivity. Qed.
