(* C09 - Geometry tables and constants equal their coordinate definitions (complete sweeps over the
   REGENERATED tables: 64 squares, 64x64 pairs, 2 colours); between/line empty for non-aligned pairs;
   generator helper functions agree. *)
From Coq Require Import NArith List Bool.
From Chess Require Import base.Bits base.Types base.BitBoard geom.Geometry geom.Lookup geom.GenFns proofs.GeomSweeps proofs.PawnFacts.
Local Open Scope N_scope.

Theorem C09_knight : forall s, s < 64 -> lk_knight s = knight_geo s.
Proof. exact knight_table_geo. Qed.
Print Assumptions C09_knight.
Theorem C09_king : forall s, s < 64 -> lk_king s = king_geo s.
Proof. exact king_table_geo. Qed.
Print Assumptions C09_king.
Theorem C09_rook_rays : forall s, s < 64 -> lk_rook_rays s = rook_rays_geo s.
Proof. exact rook_rays_table_geo. Qed.
Print Assumptions C09_rook_rays.
Theorem C09_bishop_rays : forall s, s < 64 -> lk_bishop_rays s = bishop_rays_geo s.
Proof. exact bishop_rays_table_geo. Qed.
Print Assumptions C09_bishop_rays.
Theorem C09_pawn_attacks : forall s c, s < 64 -> lk_pawn_attacks_moves s c = pawn_att_geo c s.
Proof. exact pawn_att_table_geo. Qed.
Print Assumptions C09_pawn_attacks.
Theorem C09_pawn_quiets : forall s c, s < 64 -> lk_pawn_quiets_tbl s c = pawn_push_geo c s.
Proof. exact pawn_quiet_table_geo. Qed.
Print Assumptions C09_pawn_quiets.
Theorem C09_between : forall a b, a < 64 -> b < 64 -> lk_between a b = between_geo a b.
Proof. exact between_table_geo. Qed.
Print Assumptions C09_between.
Theorem C09_line : forall a b, a < 64 -> b < 64 -> lk_line a b = line_geo a b.
Proof. exact line_table_geo. Qed.
Print Assumptions C09_line.
Theorem C09_nonaligned_empty : forall a b, a < 64 -> b < 64 -> aligned all_dirs a b = false ->
  lk_between a b = 0 /\ lk_line a b = 0.
Proof. exact nonaligned_empty. Qed.
Print Assumptions C09_nonaligned_empty.
Theorem C09_between_sub_line : forall a b, a < 64 -> b < 64 -> N.land (lk_between a b) (lk_line a b) = lk_between a b.
Proof. exact between_sub_line. Qed.
Print Assumptions C09_between_sub_line.
Theorem C09_distance : forall a b, a < 64 -> b < 64 -> lk_distance a b = dist_geo a b.
Proof. exact distance_geo. Qed.
Print Assumptions C09_distance.
Theorem C09_constants : forall s, s < 64 -> chk_consts s = true.
Proof. exact consts_geo. Qed.
Print Assumptions C09_constants.
Theorem C09_adjacent : forall i s, i < 8 -> s < 64 ->
  mem (ADJACENT_FILES i) s = (absdiff (file_of s) i =? 1) /\ mem (ADJACENT_RANKS i) s = (absdiff (rank_of s) i =? 1).
Proof. exact adjacent_geo. Qed.
Print Assumptions C09_adjacent.
Theorem C09_rank_constants :
  PROMOTION_RANK White = 7 /\ PROMOTION_RANK Black = 0 /\ BACKRANK White = 0 /\ BACKRANK Black = 7 /\
  PAWN_DOUBLE_MOVE_SOURCE_RANK White = 1 /\ PAWN_DOUBLE_MOVE_SOURCE_RANK Black = 6 /\
  PAWN_DOUBLE_MOVE_DEST_RANK White = 3 /\ PAWN_DOUBLE_MOVE_DEST_RANK Black = 4.
Proof. exact rank_constants. Qed.
Print Assumptions C09_rank_constants.
Theorem C09_generator_helpers : forall s, s < 64 -> chk_gen s = true.
Proof. exact gen_helpers_geo. Qed.
Print Assumptions C09_generator_helpers.

(* occupancy-dependent pawn helpers: for EVERY occupancy *)
Theorem C09_pawn_quiets_all_occ : forall s c occ, s < 64 -> lk_pawn_quiets s c occ = pawn_quiets_spec c s occ.
Proof. exact lk_pawn_quiets_spec_all. Qed.
Print Assumptions C09_pawn_quiets_all_occ.
Theorem C09_pawn_attacks_all_occ : forall s c occ, s < 64 -> lk_pawn_attacks s c occ = pawn_attacks_spec c s occ.
Proof. exact lk_pawn_attacks_spec_all. Qed.
Print Assumptions C09_pawn_attacks_all_occ.
Theorem C09_pawn_moves_all_occ : forall s c occ, s < 64 -> lk_pawn_moves s c occ = pawn_moves_spec c s occ.
Proof. exact lk_pawn_moves_spec_all. Qed.
Print Assumptions C09_pawn_moves_all_occ.
