(* C08 - Slider attack lookup equals ray casting for every square and EVERY occupancy
   (occ ranges over all of N, in particular all 2^64 words), index always in range.
   The tables are gen/T_rook_moves.v, gen/T_bishop_moves.v, regenerated from /repo on every run. *)
From Coq Require Import NArith List Bool.
From Chess Require Import base.Bits base.Types geom.Geometry geom.Lookup proofs.MagicSweep.
From Chess Require Import gen.T_rook_moves gen.T_bishop_moves.
Local Open Scope N_scope.

Theorem C08_rook : forall s occ, s < 64 ->
  lk_rook_index s occ < rook_sol_len /\ lk_rook_moves s occ = rook_attacks s occ.
Proof. exact rook_lookup_correct. Qed.
Print Assumptions C08_rook.

Theorem C08_bishop : forall s occ, s < 64 ->
  lk_bishop_index s occ < bishop_sol_len /\ lk_bishop_moves s occ = bishop_attacks s occ.
Proof. exact bishop_lookup_correct. Qed.
Print Assumptions C08_bishop.

(* "ray casting": a square is in slide_ray occ l iff it is on the ray and nothing before it is occupied
   (so the first occupied square is included and nothing beyond it) *)
Theorem C08_ray_casting_meaning : forall occ l t,
  In t (slide_ray occ l) <-> exists p q, l = p ++ t :: q /\ forallb (fun u => negb (N.testbit occ u)) p = true.
Proof. exact slide_ray_char. Qed.
Print Assumptions C08_ray_casting_meaning.

(* the declared Rust length of SOLUTIONS, as transcribed by the translator *)
Example C08_lengths : rook_sol_len = 262144 /\ bishop_sol_len = 262144.
Proof. split; reflexivity. Qed.
Example C08_example : lk_rook_moves 0 0 = 0x1010101010101fe /\ rook_attacks 27 (bit 29 + bit 3) = 0x808080837080808.
Proof. split; vm_compute; reflexivity. Qed.
