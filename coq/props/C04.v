(* C04 - Position hash is a pure function of the position.
   Proved here: the 794 keys regenerated from /repo are pairwise distinct, non-zero 64-bit words;
   hence replacing any one component key by another changes the hash; the full hash is a function of
   (piece hash, side, en-passant file, rights).
   OPEN (tied by correspondence only, see evidence): the incrementally maintained piece hash of a moved
   board equals the from-scratch hash (C04_incremental_statement). *)
From Coq Require Import NArith List Bool.
From Chess Require Import base.Bits base.Types gen.T_zobrist model.Board model.MoveGen model.Apply model.Fen proofs.ZobristFacts.
Local Open Scope N_scope.

Theorem C04_keys_distinct_nonzero : NoDup all_keys /\ ~ In 0 all_keys /\ (forall k, In k all_keys -> wf64 k).
Proof. exact keys_distinct_nonzero. Qed.
Print Assumptions C04_keys_distinct_nonzero.

Theorem C04_key_count : length piece_zobrist_tbl = 768%nat /\ length castle_zobrist_tbl = 16%nat
  /\ length ep_zobrist_tbl = 8%nat /\ length turn_zobrist_tbl = 2%nat /\ length all_keys = 794%nat.
Proof. exact keys_count. Qed.
Print Assumptions C04_key_count.

Theorem C04_component_influences : forall rest k1 k2, k1 <> k2 -> N.lxor rest k1 <> N.lxor rest k2.
Proof. exact component_influences. Qed.
Print Assumptions C04_component_influences.

Theorem C04_hash_function_of_fields : forall a b,
  b_zob a = b_zob b -> b_turn a = b_turn b -> b_ep a = b_ep b -> b_rights a = b_rights b -> zobrist a = zobrist b.
Proof. exact zobrist_eq_of_fields. Qed.
Print Assumptions C04_hash_function_of_fields.

(* the full statement that is NOT yet proved (kept visible): a board reached by a legal move from a board
   whose piece hash is the from-scratch one keeps that property *)
Definition scratch_piece_hash (b : board) : N :=
  fold_left (fun z s => match raw_get b s with Some (c, p) => N.lxor z (zkey s p c) | None => z end) sq_list 0.
Definition C04_incremental_statement : Prop :=
  forall b m, b_zob b = scratch_piece_hash b -> is_legal b m = true -> b_zob (apply b m) = scratch_piece_hash (apply b m).
