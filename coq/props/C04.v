(* C04 - Position hash is a pure function of the position.
   Proved here: the 794 keys regenerated from /repo are pairwise distinct, non-zero 64-bit words;
   hence replacing any one component key by another changes the hash; the full hash is a function of
   (piece hash, side, en-passant file, rights).
   Boards that compare equal hash equal (C04_eq_boards_eq_hash); every parsed board satisfies the placement
   invariant and carries the from-scratch hash (C04_parse_consistent); make-move keeps both for ordinary
   moves, promotions, castling and en passant under the local placement conditions a legal move has
   (C04_apply_consistent); every move the generator produces satisfies them on a board with the invariant
   Inv (placement, consistent hash, rights backed by king and rook at home, well-formed marker), and Inv is
   preserved (InvFacts), so EVERY board reached from a parsed board or the standard position by moves the
   checked operations accept carries the from-scratch hash (C04_reachable) and boards that compare equal
   hash equal whatever move order produced them (C04_pure_function).
   `Reach` (InvFacts) carries the side condition "the mover has a king"; `Reachable` (proofs/Reachable.v: standard,
   parsed, built, moved - no side condition) discharges it through C01 (kings are never captured):
   C04_reachable_all, C04_pure_function_all. *)
From Coq Require Import NArith List Bool.
From Chess Require Import base.Bits base.Types gen.T_zobrist base.BitBoard model.Board model.MoveGen model.Apply model.Fen proofs.ZobristFacts proofs.HashFacts spec.IterSpec proofs.InvFacts proofs.Combine proofs.Reachable.
Local Open Scope N_scope.

Theorem C04_keys_distinct_nonzero : NoDup all_keys /\ ~ In 0 all_keys /\ (forall k, In k all_keys -> wf64 k).
Proof. exact keys_distinct_nonzero. Qed.
Print Assumptions C04_keys_distinct_nonzero.

Theorem C04_key_count : length piece_zobrist_tbl = 768%nat /\ length castle_zobrist_tbl = 16%nat
  /\ length ep_zobrist_tbl = 8%nat /\ length turn_zobrist_tbl = 2%nat /\ length all_keys = 794%nat.
Proof. exact keys_count. Qed.
Print Assumptions C04_key_count.

Theorem C04_component_influences : forall rest k1 k2, k1 <> k2 -> N.lxor rest k1 <> N.lxor rest k2.
Proof. exact component_influences. Qed.
Print Assumptions C04_component_influences.

Theorem C04_hash_function_of_fields : forall a b,
  b_zob a = b_zob b -> b_turn a = b_turn b -> b_ep a = b_ep b -> b_rights a = b_rights b -> zobrist a = zobrist b.
Proof. exact zobrist_eq_of_fields. Qed.
Print Assumptions C04_hash_function_of_fields.


Theorem C04_eq_boards_eq_hash : forall a b, consistent a -> consistent b -> board_eqb a b = true ->
  b_zob a = b_zob b /\ zobrist a = zobrist b.
Proof. exact eq_boards_eq_hash_strong. Qed.
Print Assumptions C04_eq_boards_eq_hash.

Theorem C04_parse_consistent : forall s b, parse_fen_t s = Ret (POk b) -> Part b /\ b_zob b = scratch_piece_hash b.
Proof. exact parse_consistent. Qed.
Print Assumptions C04_parse_consistent.

Theorem C04_apply_consistent : forall b m pc, Part b -> b_zob b = scratch_piece_hash b ->
  m_src m < 64 -> m_dst m < 64 ->
  raw_get b (m_src m) = Some (b_turn b, pc) ->
  (raw_get b (m_dst m) = None \/ exists cp, raw_get b (m_dst m) = Some (opp (b_turn b), cp)) ->
  (is_castle_move pc m = true -> pc <> Knight -> pc <> Pawn ->
     forall s, s < 64 -> mem (castle_rook_mv (b_turn b) m) s = true ->
       s <> m_src m /\ s <> m_dst m /\ (raw_get b s = Some (b_turn b, Rook) \/ raw_get b s = None)) ->
  (pc = Pawn -> m_promo m = None -> is_double_push (b_turn b) m = false -> enpassant_pos b = Some (m_dst m) ->
     ep_victim_sq (b_turn b) m < 64 /\ ep_victim_sq (b_turn b) m <> m_src m /\ ep_victim_sq (b_turn b) m <> m_dst m /\
     raw_get b (ep_victim_sq (b_turn b) m) = Some (opp (b_turn b), Pawn)) ->
  Part (apply b m) /\ b_zob (apply b m) = scratch_piece_hash (apply b m).
Proof. exact apply_consistent_gen. Qed.
Print Assumptions C04_apply_consistent.

Theorem C04_incremental : forall b m, Part b -> b_zob b = scratch_piece_hash b ->
  b_rights b < 16 -> (forall f, b_ep b = Some f -> f < 8) -> validate b = None ->
  is_legal b m = true ->
  Part (apply b m) /\ b_zob (apply b m) = scratch_piece_hash (apply b m).
Proof. exact apply_legal_consistent_validated. Qed.
Print Assumptions C04_incremental.

Theorem C04_reachable : forall b, Reach b -> Part b /\ b_zob b = scratch_piece_hash b.
Proof. exact reach_hash. Qed.
Print Assumptions C04_reachable.

Theorem C04_pure_function : forall a b, Reach a -> Reach b -> board_eqb a b = true -> zobrist a = zobrist b.
Proof. exact reach_equal_boards_equal_hash. Qed.
Print Assumptions C04_pure_function.

Theorem C04_reachable_all : forall b, Reachable b -> Part b /\ b_zob b = scratch_piece_hash b.
Proof. exact reachable_hash. Qed.
Print Assumptions C04_reachable_all.

Theorem C04_pure_function_all : forall a b, Reachable a -> Reachable b -> board_eqb a b = true -> zobrist a = zobrist b.
Proof. exact reachable_equal_boards_equal_hash. Qed.
Print Assumptions C04_pure_function_all.
