(* C05 - FEN text and board are inverse representations.
   Proved: the metadata tail (side, castling rights, en-passant square, both clocks <= 9999) of the writer
   output parses back to exactly those fields; the digits and rights round trips; the standard-position
   constructor, the parser and the builder agree (closed computations over the regenerated keys).
   FULL round trip: for every board with the placement invariant, hash = from-scratch hash, derived state
   from scratch, bounds as stated and passing validation, parse (write b) = b with ALL fields
   (C05_write_parse); every canonical text parses to a board that writes the same bytes (C05_parse_write).
   CLOSED in this round: the hypotheses hold of EVERY reachable board (standard, parsed, built, reached by any number
   of accepted moves), so writing any reachable board and parsing the text back yields that very board, all fields
   (C05_roundtrip_reachable), and the constructor, the builder, the parser and play produce IDENTICAL boards for the
   same position (C05_constructors_agree: equal placement, side, rights, marker and clocks => equal records). *)
From Coq Require Import NArith List Bool.
From Chess Require Import base.Bits base.Types base.BitBoard model.Board model.Fen spec.Rules proofs.FenFacts proofs.CoreFacts proofs.FenRoundTrip proofs.BuilderFacts proofs.Reachable proofs.ReachableMore.
Import ListNotations.
Local Open Scope N_scope.

Theorem C05_tail_roundtrip : forall raw b,
  b_rights b < 16 -> (forall f, b_ep b = Some f -> f < 8) -> b_half b <= 9999 -> b_full b <= 9999 ->
  parse_tail raw (write_tail b) = finish raw (b_turn b) (b_rights b) (b_ep b) (b_half b) (b_full b) [].
Proof. exact parse_tail_write_tail. Qed.
Print Assumptions C05_tail_roundtrip.

Theorem C05_clock_digits_roundtrip : forall n rest, n <= 9999 -> no_digit_head rest ->
  parse_number (show_dec n ++ rest) = Some (n, rest).
Proof. exact parse_number_show_dec. Qed.
Print Assumptions C05_clock_digits_roundtrip.

Theorem C05_rights_roundtrip : forall r rest, r < 16 -> no_flag_head rest ->
  parse_rights (write_rights r ++ rest) = Some (r, rest).
Proof. exact parse_rights_write_rights. Qed.
Print Assumptions C05_rights_roundtrip.

Theorem C05_standard_parser : parse_fen_t std_fen = Ret (POk standard).
Proof. exact standard_parses. Qed.
Print Assumptions C05_standard_parser.
Theorem C05_standard_writer : write_fen standard = std_fen.
Proof. exact standard_writes. Qed.
Print Assumptions C05_standard_writer.

Theorem C05_placement_roundtrip : forall b rest, FenRoundTrip.Part b ->
  placement (flat_map (write_rank b) [7;6;5;4;3;2;1;0] ++ rest) 0 7 empty_board = Ret (inr (raw_of b, rest)).
Proof. exact placement_write. Qed.
Print Assumptions C05_placement_roundtrip.

Theorem C05_write_parse : forall b b0, b = update_pin_info b0 -> FenRoundTrip.Part b ->
  b_rights b < 16 -> (forall f, b_ep b = Some f -> f < 8) -> b_half b <= 9999 -> b_full b <= 9999 ->
  b_zob b = FenRoundTrip.scratch_piece_hash b -> validate b = None -> parse_fen (write_fen b) = Some b.
Proof. exact write_parse_roundtrip_built. Qed.
Print Assumptions C05_write_parse.

Theorem C05_parse_write : forall s b', Canonical s -> parse_fen_t s = Ret (POk b') -> write_fen b' = s.
Proof. exact canonical_parse_write. Qed.
Print Assumptions C05_parse_write.

Theorem C05_standard_satisfies_hypotheses :
  b_rights standard < 16 /\ (forall f, b_ep standard = Some f -> f < 8) /\ b_half standard <= 9999 /\ b_full standard <= 9999
  /\ b_zob standard = FenRoundTrip.scratch_piece_hash standard /\ validate standard = None /\ update_pin_info standard = standard.
Proof. exact standard_hypotheses. Qed.
Print Assumptions C05_standard_satisfies_hypotheses.

Theorem C05_roundtrip_reachable : forall b, Reachable b -> b_half b <= 9999 -> b_full b <= 9999 ->
  parse_fen (write_fen b) = Some b.
Proof. exact roundtrip_reachable. Qed.
Print Assumptions C05_roundtrip_reachable.

Theorem C05_constructors_agree : forall a b, Reachable a -> Reachable b -> board_eqb a b = true ->
  b_half a = b_half b -> b_full a = b_full b -> a = b.
Proof. exact reachable_determined. Qed.
Print Assumptions C05_constructors_agree.

Theorem C05_builder_boards_reachable : forall ops b, Forall bop_wf ops -> build (builder_state ops) = inl b -> Reachable b.
Proof. exact RB_build. Qed.
Print Assumptions C05_builder_boards_reachable.
