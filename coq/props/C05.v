(* C05 - FEN text and board are inverse representations.
   Proved: the metadata tail (side, castling rights, en-passant square, both clocks <= 9999) of the writer
   output parses back to exactly those fields; the digits and rights round trips; the standard-position
   constructor, the parser and the builder agree (closed computations over the regenerated keys).
   OPEN: the run-length piece-placement half and C05_parse_write (decided by round trips on every
   generated board, byte for byte). *)
From Coq Require Import NArith List Bool.
From Chess Require Import base.Bits base.Types base.BitBoard model.Board model.Fen spec.Rules proofs.FenFacts proofs.CoreFacts.
Import ListNotations.
Local Open Scope N_scope.

Theorem C05_tail_roundtrip : forall raw b,
  b_rights b < 16 -> (forall f, b_ep b = Some f -> f < 8) -> b_half b <= 9999 -> b_full b <= 9999 ->
  parse_tail raw (write_tail b) = finish raw (b_turn b) (b_rights b) (b_ep b) (b_half b) (b_full b) [].
Proof. exact parse_tail_write_tail. Qed.
Print Assumptions C05_tail_roundtrip.

Theorem C05_clock_digits_roundtrip : forall n rest, n <= 9999 -> no_digit_head rest ->
  parse_number (show_dec n ++ rest) = Some (n, rest).
Proof. exact parse_number_show_dec. Qed.
Print Assumptions C05_clock_digits_roundtrip.

Theorem C05_rights_roundtrip : forall r rest, r < 16 -> no_flag_head rest ->
  parse_rights (write_rights r ++ rest) = Some (r, rest).
Proof. exact parse_rights_write_rights. Qed.
Print Assumptions C05_rights_roundtrip.

Theorem C05_standard_parser : parse_fen_t std_fen = Ret (POk standard).
Proof. exact standard_parses. Qed.
Print Assumptions C05_standard_parser.
Theorem C05_standard_writer : write_fen standard = std_fen.
Proof. exact standard_writes. Qed.
Print Assumptions C05_standard_writer.

Definition C05_write_parse_statement (Reach : board -> Prop) : Prop :=
  forall b, Reach b -> b_half b <= 9999 -> b_full b <= 9999 -> parse_fen (write_fen b) = Some b.
