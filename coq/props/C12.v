(* C12 - A mate in one is always found and truthfully reported.
   Proved: a mate-in-one score for the mover is the best realistic score and, once held, is never
   replaced (the comparison is strict); the root loop returns the first move achieving the best score.
   Over the search model: a reported mate-in-one score comes with a move after which the opponent has no
   generated move and is in check (C12_honest); if a generated move mates and the first pass completes, the
   search returns a mating move with the mover's mate-in-one score at depth 0 (C12_finds).
   `mates_now` holds for EVERY mating move: a position with insufficient material (kings and at most one minor piece) is never
   checkmate (InsufFacts.insufficient_never_mate, a kernel sweep over king x king x minor placements lifted to Good boards), so
   the shortcut that runs before the mate test never hides a mate: C12_finds_rules states the finding half over the rules with
   no side condition.  "no generated move and in check" IS Rules.is_mate on every reachable board
   (C01/C03, closed in this round): a reported mate-in-one score comes with a move that is legal under the rules and
   after which the opponent is checkmated by the rules (C12_honest_rules).  Also decided per run on mate-in-one roots
   (zero, one, several mating moves) against the rules-level enumeration of mating moves. *)
From Coq Require Import NArith ZArith List Bool.
From Chess Require Import base.Types model.Score model.Board model.Search spec.Rules spec.GameTree proofs.GameTreeFacts proofs.SearchOrder model.MoveGen spec.IterSpec proofs.SearchFacts proofs.Reachable proofs.ReachableMore.
Local Open Scope N_scope.

Theorem C12_white_mate_in_one_is_best : forall s, realistic s -> cmp s (SWhiteMateIn 1) <> Gt.
Proof. exact white_mate1_best. Qed.
Print Assumptions C12_white_mate_in_one_is_best.
Theorem C12_black_mate_in_one_is_best : forall s, realistic s -> cmp s (SBlackMateIn 1) <> Lt.
Proof. exact black_mate1_best. Qed.
Print Assumptions C12_black_mate_in_one_is_best.
Theorem C12_mate_in_one_kept : forall c s, realistic s ->
  Search.is_better c (match c with White => SWhiteMateIn 1 | Black => SBlackMateIn 1 end) s = false.
Proof. exact mate1_kept. Qed.
Print Assumptions C12_mate_in_one_kept.

Theorem C12_honest : forall k tf passes fuel root m d f,
  Search.search k tf passes fuel root = (Some m, mate_score (opp (b_turn root)) 1, d, f) ->
  mg_is_empty (legals_gen (Apply.apply root m)) = true /\ Board.in_check (Apply.apply root m) = true.
Proof. exact search_mate1_honest. Qed.
Print Assumptions C12_honest.

Theorem C12_finds : forall k tf passes fuel root sc best st' m,
  In m (legals root) -> mates_now k tf root m ->
  pass k tf (fuel + N.to_nat 0) root 0 None {| s_polls := 0; s_evals := 0 |} = PassDone sc best st' ->
  exists m', Search.search k tf (S passes) fuel root = (Some m', mate1 (b_turn root), 0, false) /\
             mg_is_empty (legals_gen (Apply.apply root m')) = true /\ Board.in_check (Apply.apply root m') = true.
Proof. exact search_finds_mate1_all. Qed.
Print Assumptions C12_finds.

Theorem C12_honest_rules : forall k tf passes fuel root m d f, Reachable root ->
  b_half root < 65535 -> b_full root < 65535 ->
  Search.search k tf passes fuel root = (Some m, mate_score (opp (b_turn root)) 1, d, f) ->
  In m (legal_moves (Board.abs root)) /\ is_mate (make (Board.abs root) m) = true.
Proof. exact search_mate1_honest_make. Qed.
Print Assumptions C12_honest_rules.

Theorem C12_finds_rules : forall k tf passes fuel root sc best st' m, Reachable root ->
  b_half root < 65535 -> b_full root < 65535 ->
  In m (legal_moves (Board.abs root)) -> is_mate (make (Board.abs root) m) = true ->
  pass k tf (fuel + N.to_nat 0) root 0 None {| s_polls := 0; s_evals := 0 |} = PassDone sc best st' ->
  exists m', Search.search k tf (S passes) fuel root = (Some m', mate1 (b_turn root), 0, false)
             /\ In m' (legal_moves (Board.abs root)) /\ is_mate (make (Board.abs root) m') = true.
Proof. exact search_finds_mate1_rules. Qed.
Print Assumptions C12_finds_rules.
