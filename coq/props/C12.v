(* C12 - A mate in one is always found and truthfully reported.
   Proved: a mate-in-one score for the mover is the best realistic score and, once held, is never
   replaced (the comparison is strict); the root loop returns the first move achieving the best score.
   OPEN: C12_finds / C12_honest over the search model (kept); decided per run on mate-in-one roots
   (zero, one, several mating moves) against the rules-level enumeration of mating moves. *)
From Coq Require Import NArith ZArith List Bool.
From Chess Require Import base.Types model.Score model.Board model.Search spec.Rules spec.GameTree proofs.GameTreeFacts proofs.SearchOrder.
Local Open Scope N_scope.

Theorem C12_white_mate_in_one_is_best : forall s, realistic s -> cmp s (SWhiteMateIn 1) <> Gt.
Proof. exact white_mate1_best. Qed.
Print Assumptions C12_white_mate_in_one_is_best.
Theorem C12_black_mate_in_one_is_best : forall s, realistic s -> cmp s (SBlackMateIn 1) <> Lt.
Proof. exact black_mate1_best. Qed.
Print Assumptions C12_black_mate_in_one_is_best.
Theorem C12_mate_in_one_kept : forall c s, realistic s ->
  Search.is_better c (match c with White => SWhiteMateIn 1 | Black => SBlackMateIn 1 end) s = false.
Proof. exact mate1_kept. Qed.
Print Assumptions C12_mate_in_one_kept.

Definition C12_honest_statement : Prop :=
  forall k passes fuel root m d f,
    Search.search k nil passes fuel root = (Some m, mate_score (opp (b_turn root)) 1, d, f) ->
    is_mate (make (abs root) m) = true.
