(* C06 - FEN parsing is total and admits only playable positions.
   Proved: the parser model never reaches a panic site for ANY byte string (C06_total), with the
   arithmetic bounds that exclude u8 / u16 overflow; every accepted board passed `validate` and has
   clocks <= 9999, rights < 16, en-passant file < 8.
   Every board the parser accepts and every board the builder returns is PLAYABLE in the rules-level sense
   (one king each, <= 16 men a side, side not to move not in check, rights only with king and rook at home,
   marker only on an empty square behind an enemy pawn on its double-step rank): C06_playable, C06_builder_playable,
   via the bridge theorem bitboard attack test = mailbox attack test (attacked_by_bridge).
   Every canonical FEN of a board with the placement invariant, consistent hash and passing validation is
   accepted and parses back to it (C06_canonical_accepted); in particular the canonical FEN of EVERY legally
   reachable position (clocks within four digits) is accepted (C06_reachable_accepted), and every reachable board
   passes Board::validate (C06_reachable_valid). *)
From Coq Require Import NArith List Bool.
From Chess Require Import base.Bits base.Types base.BitBoard model.Board model.Fen spec.Rules proofs.FenFacts proofs.BridgeFacts proofs.PlayableFacts proofs.FenRoundTrip proofs.Reachable proofs.ReachableMore.
Import ListNotations.
Local Open Scope N_scope.

Theorem C06_total : forall s : list N, exists r, parse_fen_t s = Ret r.
Proof. exact parse_fen_total. Qed.
Print Assumptions C06_total.

Theorem C06_placement_never_panics : forall s file rank b, file <= 7 -> placement s file rank b <> Trap.
Proof. exact placement_no_trap. Qed.
Print Assumptions C06_placement_never_panics.

Theorem C06_no_u8_overflow : forall x file, file <= 7 ->
  match parse_piece_byte x with Some (inl _) => file + 1 <= 8 | Some (inr d) => file + d <= 15 | None => True end.
Proof. exact placement_file_bound. Qed.
Print Assumptions C06_no_u8_overflow.

Theorem C06_no_u16_overflow : forall s n r, parse_number s = Some (n, r) -> n <= 9999.
Proof. exact parse_number_bound. Qed.
Print Assumptions C06_no_u16_overflow.

Theorem C06_accepted_fields : forall s b, parse_fen_t s = Ret (POk b) ->
  b_half b <= 9999 /\ b_full b <= 9999 /\ b_rights b < 16 /\ (forall f, b_ep b = Some f -> f < 8) /\
  exists b0, b = update_pin_info b0 /\ validate b0 = None /\ b_pinned b0 = 0 /\ b_checkers b0 = 0.
Proof. exact parse_ok_fields. Qed.
Print Assumptions C06_accepted_fields.

(* writer output parses back field by field after the placement (half of C05/C06 "canonical FEN accepted") *)
Theorem C06_writer_tail_accepted : forall raw b,
  b_rights b < 16 -> (forall f, b_ep b = Some f -> f < 8) -> b_half b <= 9999 -> b_full b <= 9999 ->
  parse_tail raw (write_tail b) = finish raw (b_turn b) (b_rights b) (b_ep b) (b_half b) (b_full b) [].
Proof. exact parse_tail_write_tail. Qed.
Print Assumptions C06_writer_tail_accepted.

Theorem C06_playable : forall s b, parse_fen_t s = Ret (POk b) -> playable (abs b) = true.
Proof. exact parse_playable. Qed.
Print Assumptions C06_playable.

Theorem C06_builder_playable : forall b b', BridgeFacts.Part b -> (forall f, b_ep b = Some f -> f < 8) ->
  build b = inl b' -> playable (abs b') = true.
Proof. exact build_playable. Qed.
Print Assumptions C06_builder_playable.

Theorem C06_attack_bridge : forall b c s, BridgeFacts.Part b -> s < 64 ->
  attacked_by (cells (abs b)) c s = any (attackers_of b c s (all_occ b)).
Proof. exact attacked_by_bridge. Qed.
Print Assumptions C06_attack_bridge.

Theorem C06_canonical_accepted : forall b b0, b = update_pin_info b0 -> FenRoundTrip.Part b ->
  b_rights b < 16 -> (forall f, b_ep b = Some f -> f < 8) -> b_half b <= 9999 -> b_full b <= 9999 ->
  b_zob b = FenRoundTrip.scratch_piece_hash b -> validate b = None -> parse_fen (write_fen b) = Some b.
Proof. exact write_parse_roundtrip_built. Qed.
Print Assumptions C06_canonical_accepted.

Theorem C06_reachable_accepted : forall b, Reachable b -> b_half b <= 9999 -> b_full b <= 9999 ->
  parse_fen (write_fen b) = Some b.
Proof. exact roundtrip_reachable. Qed.
Print Assumptions C06_reachable_accepted.

Theorem C06_reachable_valid : forall b, Reachable b -> validate b = None.
Proof. exact validate_reachable. Qed.
Print Assumptions C06_reachable_valid.
