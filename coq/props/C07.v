(* C07 - Safe API never violates an unchecked-operation precondition.
   A Gallina model cannot exhibit undefined behaviour; what is proved here is that the precondition of
   each unchecked operation holds at its call site (site lemmas), over the models and the tables
   regenerated from /repo.  Sites and lemmas:
     SOLUTIONS.get_unchecked(index) x2      C07_slider_index_in_range      (all 2^64 occupancies)
     BOOK.get_unchecked(i), i-1, i-2        C07_book_indices_in_range      (every node reachable from the root)
     parse_fen: File::from_u8(..).unwrap(), u8/u16 arithmetic   C07_parser_total, C07_parser_no_overflow
     MoveGen: pop_unchecked on the selected entry, promotion cursor   C07_iterator_invariant
     movelist.push_unchecked (ArrayVec<_,18>)   C07_move_list_capacity  (placement invariant, <= 16 men, own king present;
                                                 the bound is FALSE without a king: C07_capacity_needs_king)
     king_sq -> pop_unchecked               C07_king_present
     check_mask -> pop_unchecked            C07_single_checker
     CastleRights::to_index                 C07_rights_index   (after any make-move, unconditionally < 16)
     u16 clocks                             C07_clocks_saturate
     move_unchecked_into: piece_of_unchecked(source)   C07_move_source_occupied (every accepted move, every reachable board)
   The premises of the capacity and king-presence lemmas are PROVED for every reachable board (standard / parsed / built /
   reached by any number of accepted moves): C07_capacity_reachable, C07_king_present_reachable (kings are never captured,
   the number of men never grows: proofs/Reachable.v, ReachableMore.v). *)
From Coq Require Import NArith List Bool.
From Chess Require Import base.Bits base.Types base.BitBoard geom.Geometry geom.Lookup model.Board model.MoveGen model.Fen model.Book
  gen.T_rook_moves gen.T_bishop_moves gen.T_book spec.IterSpec
  proofs.MagicSweep proofs.BookFacts proofs.FenFacts proofs.IterFacts model.Apply proofs.SiteFacts proofs.Reachable proofs.ReachableMore.
Import ListNotations.
Local Open Scope N_scope.

Theorem C07_slider_index_in_range : forall s occ, s < 64 ->
  lk_rook_index s occ < rook_sol_len /\ lk_bishop_index s occ < bishop_sol_len.
Proof. intros s occ H. exact (conj (proj1 (rook_lookup_correct s occ H)) (proj1 (bishop_lookup_correct s occ H))). Qed.
Print Assumptions C07_slider_index_in_range.

Theorem C07_book_indices_in_range : forall fuel idx sibs, book_siblings fuel idx = Some sibs ->
  idx < book_size /\ forall s t c, In (s, t, c) sibs -> s < 64 /\ t < 64 /\ c < idx.
Proof. exact book_siblings_in_range. Qed.
Print Assumptions C07_book_indices_in_range.

Theorem C07_parser_total : forall s : list N, parse_fen_t s <> Trap.
Proof. exact parse_fen_no_trap. Qed.
Print Assumptions C07_parser_total.

Theorem C07_parser_no_overflow : forall s n r, parse_number s = Some (n, r) -> n <= 9999.
Proof. exact parse_number_bound. Qed.
Print Assumptions C07_parser_no_overflow.

Theorem C07_iterator_invariant : forall b M turn,
  wf (legals_gen b) /\ wf (legals_masked_gen b M) /\ wf (king_legals_gen b turn).
Proof. intros b M turn. exact (conj (legals_gen_wf b) (conj (legals_masked_gen_wf b M) (king_legals_gen_wf b turn))). Qed.
Print Assumptions C07_iterator_invariant.

Theorem C07_iterator_invariant_kept : forall g m g', wf g -> mg_next g = (Some m, g') -> wf g'.
Proof. intros g m g' H1 H2. exact (proj2 (proj2 (proj2 (next_sound g m g' H1 H2)))). Qed.
Print Assumptions C07_iterator_invariant_kept.

Theorem C07_move_list_capacity : forall b mask, SiteFacts.Part b -> has_kings b = true ->
  count (colors b (b_turn b)) <= 16 -> (length (collect_moves b mask) <= 18)%nat.
Proof. exact collect_moves_capacity_has_kings. Qed.
Print Assumptions C07_move_list_capacity.
Theorem C07_capacity_needs_king : ~ collect_moves_capacity_statement.
Proof. exact collect_moves_capacity_statement_false. Qed.
Print Assumptions C07_capacity_needs_king.
Theorem C07_king_present : forall b c, wf64 (colors b c) -> has_kings b = true ->
  king_sq b c < 64 /\ mem (colors b c) (king_sq b c) = true /\ mem (b_king b) (king_sq b c) = true.
Proof. exact king_sq_valid_has_kings. Qed.
Print Assumptions C07_king_present.
Theorem C07_single_checker : forall b, count (b_checkers b) = 1 -> wf64 (b_checkers b) ->
  tz64 (b_checkers b) < 64 /\ b_checkers b = bit (tz64 (b_checkers b)).
Proof. exact check_mask_single. Qed.
Print Assumptions C07_single_checker.
Theorem C07_rights_index : forall b m, b_rights (apply b m) < 16.
Proof. exact rights_after_apply. Qed.
Print Assumptions C07_rights_index.
Theorem C07_clocks_saturate : forall b m, b_half (apply b m) <= 65535 /\ b_full (apply b m) <= 65535.
Proof. exact clocks_after_apply. Qed.
Print Assumptions C07_clocks_saturate.
Theorem C07_iterator_pop_site : forall g e, nth_error (g_moves g) (cursor g) = Some e -> bb_and (e_moves e) (g_mask g) <> 0.
Proof. exact next_site_nonempty. Qed.
Print Assumptions C07_iterator_pop_site.

Theorem C07_capacity_reachable : forall b mask, Reachable b -> (length (collect_moves b mask) <= 18)%nat.
Proof. exact capacity_reachable. Qed.
Print Assumptions C07_capacity_reachable.

Theorem C07_king_present_reachable : forall b c, Reachable b ->
  king_sq b c < 64 /\ mem (colors b c) (king_sq b c) = true /\ mem (b_king b) (king_sq b c) = true.
Proof. exact king_present_reachable. Qed.
Print Assumptions C07_king_present_reachable.

Theorem C07_move_source_occupied : forall b m, Reachable b -> is_legal b m = true ->
  m_src m < 64 /\ m_dst m < 64 /\ exists pc, raw_get b (m_src m) = Some (b_turn b, pc).
Proof. exact move_source_reachable. Qed.
Print Assumptions C07_move_source_occupied.
