(* C07 - Safe API never violates an unchecked-operation precondition.
   A Gallina model cannot exhibit undefined behaviour; what is proved here is that the precondition of
   each unchecked operation holds at its call site (site lemmas), over the models and the tables
   regenerated from /repo.  Sites and lemmas:
     SOLUTIONS.get_unchecked(index) x2      C07_slider_index_in_range      (all 2^64 occupancies)
     BOOK.get_unchecked(i), i-1, i-2        C07_book_indices_in_range      (every node reachable from the root)
     parse_fen: File::from_u8(..).unwrap(), u8/u16 arithmetic   C07_parser_total, C07_parser_no_overflow
     MoveGen: pop_unchecked on the selected entry, promotion cursor   C07_iterator_invariant
   (move-list capacity 18, king presence, single checker, rights index < 16, clock saturation: proofs/SiteFacts.v,
    pinned below when delivered) *)
From Coq Require Import NArith List Bool.
From Chess Require Import base.Bits base.Types base.BitBoard geom.Geometry geom.Lookup model.Board model.MoveGen model.Fen model.Book
  gen.T_rook_moves gen.T_bishop_moves gen.T_book spec.IterSpec
  proofs.MagicSweep proofs.BookFacts proofs.FenFacts proofs.IterFacts.
Import ListNotations.
Local Open Scope N_scope.

Theorem C07_slider_index_in_range : forall s occ, s < 64 ->
  lk_rook_index s occ < rook_sol_len /\ lk_bishop_index s occ < bishop_sol_len.
Proof. intros s occ H. exact (conj (proj1 (rook_lookup_correct s occ H)) (proj1 (bishop_lookup_correct s occ H))). Qed.
Print Assumptions C07_slider_index_in_range.

Theorem C07_book_indices_in_range : forall fuel idx sibs, book_siblings fuel idx = Some sibs ->
  idx < book_size /\ forall s t c, In (s, t, c) sibs -> s < 64 /\ t < 64 /\ c < idx.
Proof. exact book_siblings_in_range. Qed.
Print Assumptions C07_book_indices_in_range.

Theorem C07_parser_total : forall s : list N, parse_fen_t s <> Trap.
Proof. exact parse_fen_no_trap. Qed.
Print Assumptions C07_parser_total.

Theorem C07_parser_no_overflow : forall s n r, parse_number s = Some (n, r) -> n <= 9999.
Proof. exact parse_number_bound. Qed.
Print Assumptions C07_parser_no_overflow.

Theorem C07_iterator_invariant : forall b M turn,
  wf (legals_gen b) /\ wf (legals_masked_gen b M) /\ wf (king_legals_gen b turn).
Proof. intros b M turn. exact (conj (legals_gen_wf b) (conj (legals_masked_gen_wf b M) (king_legals_gen_wf b turn))). Qed.
Print Assumptions C07_iterator_invariant.

Theorem C07_iterator_invariant_kept : forall g m g', wf g -> mg_next g = (Some m, g') -> wf g'.
Proof. intros g m g' H1 H2. exact (proj2 (proj2 (proj2 (next_sound g m g' H1 H2)))). Qed.
Print Assumptions C07_iterator_invariant_kept.
