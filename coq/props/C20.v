(* C20 - A thread's view of whether tracing is enabled is its own local override if it has one and
   otherwise the latest global setting; operations on other threads change only the global setting,
   never another thread's override, under every interleaving; saving and later restoring a thread's
   override returns it to the saved state.
   Quantifier: every trace (list of (thread, call)), any length, any thread ids in N.
   ONLY pinned statements; every proof is `exact <lemma>`; Print Assumptions beneath each. *)
From Coq Require Import NArith List Bool.
From Chess Require Import model.Tracing proofs.TracingFacts.
Import ListNotations.
Local Open Scope N_scope.

(* is_enabled() returns the caller's view, changes nothing; the view is the override, else g *)
Theorem C20_view : forall s t,
  step s t OIsEnabled = (s, Some (view s t), None) /\
  view s t = match get_loc s t with FGlobal => g s | FEnabled => true | FDisabled => false end.
Proof. exact view_spec. Qed.
Print Assumptions C20_view.

(* after any trace: t's own calls decide its override; if none, the global calls (by anyone, in
   trace order) decide *)
Theorem C20_view_run : forall s tr t,
  view (run s tr) t =
  match lfold (get_loc s t) t (filter (by_thread t) tr) with
  | FGlobal => gfold (g s) (filter (fun e => is_global_op (snd e)) tr)
  | FEnabled => true
  | FDisabled => false
  end.
Proof. exact view_run. Qed.
Print Assumptions C20_view_run.

(* t's override after a trace = t's override after only t's own calls of that trace *)
Theorem C20_noninterference : forall s tr t,
  get_loc (run s tr) t = get_loc (run s (filter (fun e => N.eqb (fst e) t) tr)) t.
Proof. exact noninterference. Qed.
Print Assumptions C20_noninterference.

Theorem C20_others_never_touch : forall s tr t,
  Forall (fun e => fst e <> t) tr -> get_loc (run s tr) t = get_loc s t.
Proof. exact others_never_touch. Qed.
Print Assumptions C20_others_never_touch.

(* the global after a trace is the fold of enable/disable/toggle in trace order *)
Theorem C20_global_determined : forall tr s, g (run s tr) = gfold (g s) tr.
Proof. exact global_determined. Qed.
Print Assumptions C20_global_determined.

Theorem C20_global_projection : forall tr s,
  g (run s tr) = gfold (g s) (filter (fun e => is_global_op (snd e)) tr).
Proof. exact global_projection. Qed.
Print Assumptions C20_global_projection.

Theorem C20_last_write_wins : forall s pre u post,
  Forall (fun e => is_global_op (snd e) = false) post ->
  g (run s (pre ++ (u, OEnable) :: post)) = true /\
  g (run s (pre ++ (u, ODisable) :: post)) = false /\
  g (run s (pre ++ (u, OToggle) :: post)) = negb (g (run s pre)).
Proof. exact last_write_wins. Qed.
Print Assumptions C20_last_write_wins.

(* take ... anything by anyone ... restore: override back to the saved state *)
Theorem C20_take_restore : forall s t s1 r f sigma,
  step s t OLocalTake = (s1, r, Some f) ->
  get_loc (step_st (run s1 sigma) t (ORestore f)) t = get_loc s t.
Proof. exact take_restore. Qed.
Print Assumptions C20_take_restore.

Theorem C20_take_resets : forall s t,
  snd (step s t OLocalTake) = Some (get_loc s t) /\
  get_loc (step_st s t OLocalTake) t = FGlobal /\
  g (step_st s t OLocalTake) = g s.
Proof. exact take_resets. Qed.
Print Assumptions C20_take_resets.

Theorem C20_restore_frame : forall s t f,
  g (step_st s t (ORestore f)) = g s /\
  forall u, u <> t -> get_loc (step_st s t (ORestore f)) u = get_loc s u.
Proof. exact restore_frame. Qed.
Print Assumptions C20_restore_frame.

(* a call by u <> t: t's override unchanged; t's view unchanged if overridden, else the new g *)
Theorem C20_other_threads_only_global : forall s t u o,
  u <> t ->
  get_loc (step_st s u o) t = get_loc s t /\
  (get_loc s t <> FGlobal -> view (step_st s u o) t = view s t) /\
  (get_loc s t = FGlobal -> view (step_st s u o) t = g (step_st s u o)).
Proof. exact other_threads_only_global. Qed.
Print Assumptions C20_other_threads_only_global.

(* the harness trace language (restore pops the thread's stack of saved tokens) is the plain
   model run on the resolved trace: same observations after every step, same final state *)
Theorem C20_run_stack_agrees : forall ths tr,
  run_stack ths tr = snd (run_obs ths init (resolve init [] tr)) /\
  run_stack_final tr = run init (resolve init [] tr).
Proof. exact run_stack_agrees. Qed.
Print Assumptions C20_run_stack_agrees.

Theorem C20_run_obs_nth : forall ths tr s n,
  (n < length tr)%nat ->
  nth n (snd (run_obs ths s tr)) [] = views (run s (firstn (S n) tr)) ths.
Proof. exact run_obs_nth. Qed.
Print Assumptions C20_run_obs_nth.

Theorem C20_stack_take_restore : forall s k t s1 k1 s2,
  sstep s k t SLocalTake = (s1, k1) ->
  get_loc (fst (sstep s2 k1 t SRestoreTop)) t = get_loc s t /\
  get_stack (snd (sstep s2 k1 t SRestoreTop)) t = get_stack k t.
Proof. exact stack_take_restore. Qed.
Print Assumptions C20_stack_take_restore.

(* non-vacuity: concrete 2-thread trace *)
Example C20_example :
  run_stack [0; 1]
    [ (0, SLocalDisable); (1, SDisable); (1, SLocalTake); (1, SToggle);
      (0, SLocalTake); (0, SRestoreTop) ]
  = [ [false; true]; [false; false]; [false; false]; [false; true]; [true; true]; [false; true] ].
Proof. vm_compute. reflexivity. Qed.
