(* Model of chess-bot/src/lib.rs : ChessBot behind the stable interface (set_board, make_move, board, evaluate). *)
From Coq Require Import NArith ZArith List Bool.
From Chess Require Import base.Bits base.Types model.Score model.Board model.MoveGen model.Apply model.Search.
Import ListNotations.
Local Open Scope N_scope.

Record bot := { bt_board : board; bt_tf : threefold }.
Definition bot_init : bot := {| bt_board := standard; bt_tf := [] |}.
Definition bot_set_board (b : board) : bot := {| bt_board := b; bt_tf := [] |}.
(* make_move: (is_valid, is_three_fold_draw) *)
Definition bot_make_move (s : bot) (m : move) : bot * (bool * bool) :=
  if is_legal (bt_board s) m then
    let b' := apply (bt_board s) m in
    let '(tf', three) := tf_add (bt_tf s) b' in
    ({| bt_board := b'; bt_tf := tf' |}, (true, three))
  else (s, (false, false)).
Definition bot_evaluate (k : N) (passes fuel : nat) (s : bot) : option move * score :=
  let '(mv, sc, _, _) := Search.search k (bt_tf s) passes fuel (bt_board s) in (mv, sc).
