(* Model of Board::move_unchecked_into and the checked wrappers move_new / move_mut / move_into (lib.rs). *)
From Coq Require Import NArith ZArith List Bool.
From Chess Require Import base.Bits base.Types base.BitBoard geom.Geometry model.Board model.MoveGen.
Import ListNotations.
Local Open Scope N_scope.

Definition sat16 (x : N) : N := if 65535 <? x then 65535 else x.     (* u16::saturating_add *)

Definition set_half (b : board) (h : N) : board :=
  set_meta b (b_turn b) (b_rights b) (b_ep b) h (b_full b) (b_pinned b) (b_checkers b).
Definition set_full (b : board) (f : N) : board :=
  set_meta b (b_turn b) (b_rights b) (b_ep b) (b_half b) f (b_pinned b) (b_checkers b).
Definition set_ep (b : board) (e : option N) : board :=
  set_meta b (b_turn b) (b_rights b) e (b_half b) (b_full b) (b_pinned b) (b_checkers b).
Definition set_rights (b : board) (r : N) : board :=
  set_meta b (b_turn b) r (b_ep b) (b_half b) (b_full b) (b_pinned b) (b_checkers b).
Definition set_checkers (b : board) (c : N) : board := set_pins b (b_pinned b) c.

Definition apply (self : board) (mv : move) : board :=
  let turn := b_turn self in
  let out := set_meta self (opp turn) (b_rights self) None (b_half self) (b_full self) 0 0 in
  let source_bb := from_pos (m_src mv) in
  let dest_bb := from_pos (m_dst mv) in
  let mv_bb := bb_xor source_bb dest_bb in
  let pc := piece_of_unchecked self (m_src mv) in
  let captured := piece_of self (m_dst mv) in
  let out := board_xor out turn pc mv_bb in
  let out := match captured with
             | Some cp => set_half (board_xor out (opp turn) cp dest_bb) 0
             | None => set_half out (sat16 (b_half out + 1))
             end in
  let out := set_full out (sat16 (b_full out + color_idx turn)) in
  let out := set_rights out (cr_remove_for_sq (cr_remove_for_sq (b_rights out) (opp turn) (m_dst mv)) turn (m_src mv)) in
  let opp_king := king_sq self (opp turn) in
  let castles := piece_eqb pc King && (bb_and mv_bb CASTLE_MOVES_bb =? mv_bb) in
  let out :=
    match pc with
    | Knight => set_checkers out (bb_xor (b_checkers out) (bb_and (knight_geo opp_king) dest_bb))
    | Pawn =>
      let out := set_half out 0 in
      let out :=
        match m_promo mv with
        | Some promotion =>
          let out := if piece_eqb promotion Knight
                     then set_checkers out (bb_xor (b_checkers out) (bb_and (knight_geo opp_king) dest_bb)) else out in
          board_xor (board_xor out turn Pawn dest_bb) turn promotion dest_bb
        | None =>
          if bb_and mv_bb ((match turn with White => bb_or (from_rank 1) (from_rank 3) | Black => bb_or (from_rank 4) (from_rank 6) end)) =? mv_bb then set_ep out (Some (file_of (m_dst mv)))
          else match enpassant_pos self with
               | Some ep => if m_dst mv =? ep
                            then board_xor out (opp turn) Pawn (from_pos (mk_sq (file_of (m_dst mv)) (ep_pawn_rank_of turn)))
                            else out
               | None => out
               end
        end in
      match m_promo mv with
      | None => set_checkers out (bb_xor (b_checkers out) (bb_and (pawn_att_geo (opp turn) opp_king) dest_bb))
      | Some _ => out
      end
    | _ =>
      if castles then
        let rook_mv := bb_and (BACKRANK_BB_of turn)
                              (if file_of (m_dst mv) <? 4 then bb_or (from_file 0) (from_file 3)
                               else bb_or (from_file 7) (from_file 5)) in
        board_xor out turn Rook rook_mv
      else out
    end in
  let mine := colors out turn in
  let bishops := bb_or (b_bishop out) (b_queen out) in
  let rooks := bb_or (b_rook out) (b_queen out) in
  let attackers := bb_or (bb_and (bb_and bishops mine) (bishop_rays_geo opp_king))
                         (bb_and (bb_and rooks mine) (rook_rays_geo opp_king)) in
  let occ := all_occ out in
  let '(pinned, checkers) :=
    fold_left (fun (acc : N * N) a =>
                 let '(pn, ck) := acc in
                 let btw := bb_and occ (between_geo opp_king a) in
                 if none btw then (pn, bb_with ck a)
                 else if count btw =? 1 then (bb_xor pn btw, ck) else (pn, ck))
              (elements attackers) (b_pinned out, b_checkers out) in
  set_pins out pinned checkers.

(* move_new / move_mut / move_into *)
Definition move_new (b : board) (m : move) : option board := if is_legal b m then Some (apply b m) else None.
Definition move_mut (b : board) (m : move) : board * bool := if is_legal b m then (apply b m, true) else (b, false).
Definition move_into (b : board) (m : move) (out : board) : board * bool := if is_legal b m then (apply b m, true) else (out, false).

(* Board::state *)
Inductive gstate := GCheckMate | GStaleMate | GCheck | GRunning.
Definition state (b : board) : gstate :=
  let nomoves := mg_is_empty (legals_gen b) in
  let chk := in_check b in
  if nomoves && chk then GCheckMate
  else if nomoves || (100 <=? b_half b) then GStaleMate
  else if chk then GCheck else GRunning.
