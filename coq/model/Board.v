(* Model of chess-movegen: Board, RawBoard, CastleRights (lib.rs, raw.rs, castle_rights.rs).
   Bitboards are N; the table accessors of chess-lookup are replaced by the coordinate definitions
   they are PROVED equal to (C08: rook/bishop lookups = ray casting for every occupancy;
   C09: knight/king/pawn/ray/between/line tables = geometry), so no table is needed to run the model. *)
From Coq Require Import NArith ZArith List Bool.
From Chess Require Import base.Bits base.Types base.BitBoard geom.Geometry gen.T_zobrist.
Import ListNotations.
Local Open Scope N_scope.

Record board := {
  b_zob : N;                 (* xor of the piece keys only (field `zobrist`) *)
  b_turn : color;
  b_rights : N;              (* CastleRights(u8): bit = side + 2*color ; K=1 Q=2 k=4 q=8 *)
  b_ep : option N;           (* enpassant_target: file *)
  b_half : N; b_full : N;    (* u16 clocks *)
  b_pinned : N; b_checkers : N;
  b_white : N; b_black : N;
  b_pawn : N; b_knight : N; b_bishop : N; b_rook : N; b_queen : N; b_king : N }.

Definition colors (b : board) (c : color) : N := match c with White => b_white b | Black => b_black b end.
Definition pieces (b : board) (p : piece) : N :=
  match p with Pawn => b_pawn b | Knight => b_knight b | Bishop => b_bishop b
             | Rook => b_rook b | Queen => b_queen b | King => b_king b end.
Definition all_occ (b : board) : N := bb_or (b_white b) (b_black b).

(* functional record update helpers *)
Definition set_color (b : board) (c : color) (v : N) : board :=
  match c with
  | White => {| b_zob := b_zob b; b_turn := b_turn b; b_rights := b_rights b; b_ep := b_ep b; b_half := b_half b; b_full := b_full b;
                b_pinned := b_pinned b; b_checkers := b_checkers b; b_white := v; b_black := b_black b;
                b_pawn := b_pawn b; b_knight := b_knight b; b_bishop := b_bishop b; b_rook := b_rook b; b_queen := b_queen b; b_king := b_king b |}
  | Black => {| b_zob := b_zob b; b_turn := b_turn b; b_rights := b_rights b; b_ep := b_ep b; b_half := b_half b; b_full := b_full b;
                b_pinned := b_pinned b; b_checkers := b_checkers b; b_white := b_white b; b_black := v;
                b_pawn := b_pawn b; b_knight := b_knight b; b_bishop := b_bishop b; b_rook := b_rook b; b_queen := b_queen b; b_king := b_king b |}
  end.
Definition set_piece (b : board) (p : piece) (v : N) : board :=
  let f q := if piece_eqb p q then v else pieces b q in
  {| b_zob := b_zob b; b_turn := b_turn b; b_rights := b_rights b; b_ep := b_ep b; b_half := b_half b; b_full := b_full b;
     b_pinned := b_pinned b; b_checkers := b_checkers b; b_white := b_white b; b_black := b_black b;
     b_pawn := f Pawn; b_knight := f Knight; b_bishop := f Bishop; b_rook := f Rook; b_queen := f Queen; b_king := f King |}.
Definition set_zob (b : board) (z : N) : board :=
  {| b_zob := z; b_turn := b_turn b; b_rights := b_rights b; b_ep := b_ep b; b_half := b_half b; b_full := b_full b;
     b_pinned := b_pinned b; b_checkers := b_checkers b; b_white := b_white b; b_black := b_black b;
     b_pawn := b_pawn b; b_knight := b_knight b; b_bishop := b_bishop b; b_rook := b_rook b; b_queen := b_queen b; b_king := b_king b |}.
Definition set_meta (b : board) (turn : color) (rights : N) (ep : option N) (half full pinned checkers : N) : board :=
  {| b_zob := b_zob b; b_turn := turn; b_rights := rights; b_ep := ep; b_half := half; b_full := full;
     b_pinned := pinned; b_checkers := checkers; b_white := b_white b; b_black := b_black b;
     b_pawn := b_pawn b; b_knight := b_knight b; b_bishop := b_bishop b; b_rook := b_rook b; b_queen := b_queen b; b_king := b_king b |}.
Definition set_pins (b : board) (pinned checkers : N) : board :=
  set_meta b (b_turn b) (b_rights b) (b_ep b) (b_half b) (b_full b) pinned checkers.

(* ---- zobrist keys (regenerated table gen/T_zobrist.v) ---- *)
Definition nthN (l : list N) (i : N) : N := nth (N.to_nat i) l 0.
Definition zkey (s : N) (p : piece) (c : color) : N := nthN piece_zobrist_tbl (color_idx c * 384 + s * 6 + piece_idx p).
Definition zkey_turn (c : color) : N := nthN turn_zobrist_tbl (color_idx c).
Definition zkey_castle (r : N) : N := nthN castle_zobrist_tbl r.
Definition zkey_ep (f : N) : N := nthN ep_zobrist_tbl f.

(* ---- RawBoard ---- *)
Definition color_of (b : board) (s : N) : option color :=
  if contains (b_white b) s then Some White else if contains (b_black b) s then Some Black else None.
(* piece_of_unchecked: falls through to King when nothing matches *)
Definition piece_of_unchecked (b : board) (s : N) : piece :=
  if contains (bb_or (bb_or (b_pawn b) (b_knight b)) (b_bishop b)) s
  then (if contains (b_pawn b) s then Pawn else if contains (b_knight b) s then Knight else Bishop)
  else if contains (b_rook b) s then Rook else if contains (b_queen b) s then Queen else King.
Definition piece_of (b : board) (s : N) : option piece :=
  match color_of b s with Some _ => Some (piece_of_unchecked b s) | None => None end.
Definition raw_get (b : board) (s : N) : option (color * piece) :=
  match color_of b s with Some c => Some (c, piece_of_unchecked b s) | None => None end.
Definition raw_set_unchecked (b : board) (c : color) (p : piece) (s : N) : board :=
  set_piece (set_color b c (bb_with (colors b c) s)) p (bb_with (pieces b p) s).
Definition raw_remove (b : board) (c : color) (p : piece) (s : N) : board :=
  set_piece (set_color b c (cleared (colors b c) s)) p (cleared (pieces b p) s).
Definition raw_xor (b : board) (c : color) (p : piece) (d : N) : board :=
  set_piece (set_color b c (bb_xor (colors b c) d)) p (bb_xor (pieces b p) d).
Definition has_kings (b : board) : bool :=
  let k := b_king b in
  (count k =? 2) && (count (bb_and k (b_white b)) =? 1) && (count (bb_and k (b_black b)) =? 1).

(* Board::xor : raw xor + zobrist key per toggled square *)
Definition board_xor (b : board) (c : color) (p : piece) (d : N) : board :=
  let b1 := raw_xor b c p d in
  set_zob b1 (fold_left (fun z s => N.lxor z (zkey s p c)) (elements d) (b_zob b1)).

(* ---- CastleRights ---- *)
Definition cr_offset (sd : side) (c : color) : N := side_idx sd + color_idx c * 2.
Definition cr_contains (r : N) (sd : side) (c : color) : bool := N.testbit r (cr_offset sd c).
Definition cr_contains_color (r : N) (c : color) : bool := cr_contains r KingSide c || cr_contains r QueenSide c.
Definition cr_with (r : N) (sd : side) (c : color) : N := N.lor r (bit (cr_offset sd c)).
Definition cr_full : N := 15.
(* CASTLE_RIGHTS_PER_SQ[color][square] as a mask of rights to KEEP (u8 !mask; only the low 4 bits matter) *)
Definition cr_keep (c : color) (s : N) : N :=
  match c with
  | White => if s =? 0 then 13 (* !Q *) else if s =? 4 then 12 (* !(K|Q) *) else if s =? 7 then 14 (* !K *) else 15
  | Black => if s =? 56 then 7 (* !q *) else if s =? 60 then 3 else if s =? 63 then 11 (* !k *) else 15
  end.
Definition cr_remove_for_sq (r : N) (c : color) (s : N) : N := N.land r (cr_keep c s).

(* ---- Board accessors ---- *)
(* king_sq: pop_unchecked on (colors & kings); on an empty set the Rust code is UB: modelled as 64 *)
Definition king_sq (b : board) (c : color) : N := tz64 (bb_and (colors b c) (b_king b)).

Definition zobrist (b : board) : N :=
  N.lxor (N.lxor (N.lxor (b_zob b) (zkey_turn (b_turn b)))
                 (match b_ep b with Some f => zkey_ep f | None => 0 end))
         (zkey_castle (b_rights b)).
Definition in_check (b : board) : bool := any (b_checkers b).
Definition enpassant_pos (b : board) : option N :=
  match b_ep b with Some f => Some (mk_sq f (match b_turn b with White => 5 | Black => 2 end)) | None => None end.
Definition ep_capture_rank_of (c : color) : N := match c with White => 5 | Black => 2 end.
Definition ep_pawn_rank_of (c : color) : N := match c with White => 4 | Black => 3 end.

(* PartialEq for Board: turn, castle_rights, enpassant_target, raw *)
Definition board_eqb (a b : board) : bool :=
  color_eqb (b_turn a) (b_turn b) && (b_rights a =? b_rights b)
  && (match b_ep a, b_ep b with None, None => true | Some x, Some y => x =? y | _, _ => false end)
  && (b_white a =? b_white b) && (b_black a =? b_black b) && (b_pawn a =? b_pawn b) && (b_knight a =? b_knight b)
  && (b_bishop a =? b_bishop b) && (b_rook a =? b_rook b) && (b_queen a =? b_queen b) && (b_king a =? b_king b).
(* equality of every field (what Debug rendering can distinguish) *)
Definition board_all_eqb (a b : board) : bool :=
  board_eqb a b && (b_zob a =? b_zob b) && (b_half a =? b_half b) && (b_full a =? b_full b)
  && (b_pinned a =? b_pinned b) && (b_checkers a =? b_checkers b).

(* ---- update_pin_info (from scratch) ---- *)
Definition scan_sliders (occ : N) (k : N) (sliders : list N) : N * N :=
  fold_left (fun (acc : N * N) s =>
               let '(pinned, checkers) := acc in
               let btw := bb_and occ (between_geo k s) in
               if none btw then (pinned, bb_with checkers s)
               else if count btw =? 1 then (bb_or pinned btw, checkers)
               else (pinned, checkers)) sliders (0, 0).

Definition update_pin_info (b : board) : board :=
  let k := king_sq b (b_turn b) in
  let opp_bb := colors b (opp (b_turn b)) in
  let bishop_pinners := bb_and (bb_or (b_bishop b) (b_queen b)) (bishop_rays_geo k) in
  let rook_pinners := bb_and (bb_or (b_rook b) (b_queen b)) (rook_rays_geo k) in
  let pinners := bb_and opp_bb (bb_or bishop_pinners rook_pinners) in
  let '(pinned, checkers) := scan_sliders (all_occ b) k (elements pinners) in
  let checkers := bb_or checkers (bb_and (bb_and (knight_geo k) (b_knight b)) opp_bb) in
  let checkers := bb_or checkers (bb_and (bb_and (pawn_att_geo (b_turn b) k) (b_pawn b)) opp_bb) in
  set_pins b pinned checkers.

(* ---- validation ---- *)
Inductive verr := MissingKings | InvalidCastleRights | InvalidEnpassant | TooManyPieces | OpponentInCheck.

Definition validate_en_passant (b : board) : bool :=
  match b_ep b with
  | None => true
  | Some f =>
    match raw_get b (mk_sq f (ep_capture_rank_of (b_turn b))) with
    | Some _ => false
    | None =>
      match raw_get b (mk_sq f (ep_pawn_rank_of (b_turn b))) with
      | Some (c, p) => negb (color_eqb c (b_turn b)) && piece_eqb p Pawn
      | None => false
      end
    end
  end.

Definition get_is (b : board) (s : N) (c : color) (p : piece) : bool :=
  match raw_get b s with Some (c', p') => color_eqb c c' && piece_eqb p p' | None => false end.

(* validate_castle_rights as in lib.rs (h1 is checked for the white king-side right since the fix) *)
Definition validate_castle_rights (b : board) : bool :=
  let r := b_rights b in
     (negb (cr_contains r KingSide White) || get_is b 7 White Rook)
  && (negb (cr_contains r QueenSide White) || get_is b 0 White Rook)
  && (negb (cr_contains r KingSide Black) || get_is b 63 Black Rook)
  && (negb (cr_contains r QueenSide Black) || get_is b 56 Black Rook)
  && (negb (cr_contains_color r White) || get_is b 4 White King)
  && (negb (cr_contains_color r Black) || get_is b 60 Black King).

(* is square s attacked by colour c on this board (same formula as is_legal_king_position, no king lifting) *)
Definition attackers_of (b : board) (c : color) (s : N) (occ : N) : N :=
  let cb := colors b c in
  let sl := bb_or (bb_and (bb_and (bb_or (b_bishop b) (b_queen b)) cb) (bishop_attacks s occ))
                  (bb_and (bb_and (bb_or (b_rook b) (b_queen b)) cb) (rook_attacks s occ)) in
  bb_or sl (bb_or (bb_and (bb_and (knight_geo s) (b_knight b)) cb)
           (bb_or (bb_and (bb_and (king_geo s) (b_king b)) cb)
                  (bb_and (bb_and (pawn_att_geo (opp c) s) (b_pawn b)) cb))).

Definition validate (b : board) : option verr :=
  if negb (has_kings b) then Some MissingKings
  else if (16 <? count (b_white b)) || (16 <? count (b_black b)) then Some TooManyPieces
  else if negb (validate_en_passant b) then Some InvalidEnpassant
  else if negb (validate_castle_rights b) then Some InvalidCastleRights
  else if any (attackers_of b (b_turn b) (king_sq b (opp (b_turn b))) (all_occ b)) then Some OpponentInCheck
  else None.

Definition empty_board : board :=
  {| b_zob := 0; b_turn := White; b_rights := 0; b_ep := None; b_half := 0; b_full := 0; b_pinned := 0; b_checkers := 0;
     b_white := 0; b_black := 0; b_pawn := 0; b_knight := 0; b_bishop := 0; b_rook := 0; b_queen := 0; b_king := 0 |}.

Definition standard : board :=
  {| b_zob := 9406092833587483707; b_turn := White; b_rights := cr_full; b_ep := None; b_half := 0; b_full := 0;
     b_pinned := 0; b_checkers := 0;
     b_white := 0x000000000000ffff; b_black := 0xffff000000000000;
     b_pawn := 0x00ff00000000ff00; b_knight := 0x4200000000000042; b_bishop := 0x2400000000000024;
     b_rook := 0x8100000000000081; b_queen := 0x0800000000000008; b_king := 0x1000000000000010 |}.

(* ---- BoardBuilder ---- *)
Inductive bop :=
| BTurn (c : color) | BHalf (n : N) | BFull (n : N) | BEnpassant (f : option N)
| BPlace (s : N) (c : color) (p : piece) | BRemove (s : N).
(* returns the builder state and whether a place failed with PieceAlreadyExists (the builder is left unchanged then) *)
Definition bstep (b : board) (o : bop) : board * bool :=
  match o with
  | BTurn c => (set_meta b c (b_rights b) (b_ep b) (b_half b) (b_full b) (b_pinned b) (b_checkers b), true)
  | BHalf n => (set_meta b (b_turn b) (b_rights b) (b_ep b) n (b_full b) (b_pinned b) (b_checkers b), true)
  | BFull n => (set_meta b (b_turn b) (b_rights b) (b_ep b) (b_half b) n (b_pinned b) (b_checkers b), true)
  | BEnpassant f => (set_meta b (b_turn b) (b_rights b) f (b_half b) (b_full b) (b_pinned b) (b_checkers b), true)
  | BPlace s c p =>
    if contains (all_occ b) s then (b, false)
    else let b1 := raw_set_unchecked b c p s in (set_zob b1 (N.lxor (b_zob b1) (zkey s p c)), true)
  | BRemove s =>
    match raw_get b s with
    | Some (c, p) => let b1 := set_zob b (N.lxor (b_zob b) (zkey s p c)) in (raw_remove b1 c p s, true)
    | None => (b, true)
    end
  end.
Definition build (b : board) : board + verr :=
  match validate b with Some e => inr e | None => inl (update_pin_info b) end.

(* ---- abstraction to the rules-level position ---- *)
From Chess Require Import spec.Rules.
Definition abs (b : board) : position :=
  {| cells := map (raw_get b) sq_list; stm := b_turn b;
     cr_wk := cr_contains (b_rights b) KingSide White; cr_wq := cr_contains (b_rights b) QueenSide White;
     cr_bk := cr_contains (b_rights b) KingSide Black; cr_bq := cr_contains (b_rights b) QueenSide Black;
     epf := b_ep b; hm := b_half b; fm := b_full b |}.
