(* Model of BookMoves / BookMovesIter (chess-lookup/src/lib.rs) over the REGENERATED book table,
   and the complete traversal used by C17. *)
From Coq Require Import NArith List Bool.
From Chess Require Import base.Bits base.Types base.Tree gen.T_book spec.Rules.
Import ListNotations.
Local Open Scope N_scope.

Definition book_at (i : N) : N := tget book_depth book i.
Definition INITIAL_BOOK : N := book_size - 1.
Definition EMPTY_BOOK : N := 0.

(* one BookMovesIter::next step from `index`: None = iteration ends; the bool is false when an
   unchecked index would be out of range or `index - 1` / `index - 2` would underflow *)
Inductive bstep_r := BEnd | BItem (src dst child next : N) | BBad.
Definition book_next (index : N) : bstep_r :=
  if negb (index <? book_size) then BBad
  else
    let offset := book_at index in
    if offset =? 0 then BEnd
    else if index <? 2 then BBad                                   (* index - 1, index - 2 *)
    else
      let mv := book_at (index - 1) in
      let child := index - 2 in
      if index <? offset + 1 then BEnd                             (* checked_sub(offset + 1)? returns None *)
      else BItem (N.land mv 63) (N.land (N.shiftr mv 6) 63) child (index - (offset + 1)).

(* all siblings from index; None if a bad access was met or the chain did not end within fuel *)
Fixpoint book_siblings (fuel : nat) (index : N) : option (list (N * N * N)) :=
  match fuel with
  | O => None
  | S f =>
    match book_next index with
    | BBad => None
    | BEnd => Some []
    | BItem s d c nx =>
      if negb (nx <? index) then None                              (* the chain must strictly decrease *)
      else match book_siblings f nx with Some l => Some ((s, d, c) :: l) | None => None end
    end
  end.

(* complete traversal: every move must be legal (with NO promotion piece) in the position reached
   from the start by the preceding moves; returns (all ok, number of nodes visited) *)
Fixpoint book_walk (depth : nat) (index : N) (p : position) : bool * N :=
  match depth with
  | O => (false, 0)
  | S d =>
    match book_siblings 200 index with
    | None => (false, 0)
    | Some sibs =>
      let lm := legal_moves p in
      fold_left (fun (acc : bool * N) (e : N * N * N) =>
                   let '(ok, n) := acc in
                   let '(s, t, child) := e in
                   let m := mk s t None in
                   if existsb (move_eqb m) lm
                   then let '(ok2, n2) := book_walk d child (make p m) in (ok && ok2, n + 1 + n2)
                   else (false, n + 1)) sibs (true, 0)
    end
  end.

(* counter-example twin: the first root-to-node path whose last move is not legal (or a bad index) *)
Fixpoint book_cex (depth : nat) (index : N) (p : position) (path : list (N * N)) : option (list (N * N)) :=
  match depth with
  | O => Some path
  | S d =>
    match book_siblings 200 index with
    | None => Some path
    | Some sibs =>
      let lm := legal_moves p in
      fold_left (fun (acc : option (list (N * N))) (e : N * N * N) =>
                   match acc with
                   | Some _ => acc
                   | None =>
                     let '(s, t, child) := e in
                     let m := mk s t None in
                     if existsb (move_eqb m) lm then book_cex d child (make p m) (path ++ [(s, t)])
                     else Some (path ++ [(s, t)])
                   end) sibs None
    end
  end.

(* max depth of the trie (for the report) *)
Fixpoint book_depth_of (depth : nat) (index : N) : N :=
  match depth with
  | O => 0
  | S d => match book_siblings 200 index with
           | None => 0
           | Some sibs => fold_left (fun acc e => N.max acc (1 + book_depth_of d (snd e))) sibs 0
           end
  end.
