(* Model of tracing-enabled/src/lib.rs : one global AtomicBool IS_ENABLED (initially true) and a
   thread-local Cell<LocalFlag> per thread (initially Global).
   Granularity: one public function call = one step.  Each call touches the atomic at most once
   and its thread-local part is invisible to other threads, so under a sequentially consistent
   reading every concurrent execution is some interleaving of these steps.
   Thread ids are unbounded N; traces are arbitrary lists: no bound on threads or length.
   Executable definitions only (extracted to OCaml and run against real threads). *)
From Coq Require Import NArith List Bool.
Import ListNotations.

(* enum LocalFlag { Global (default), Enabled, Disabled } *)
Inductive flag : Type := FGlobal | FEnabled | FDisabled.

(* the public functions; ORestore carries the flag of the LocalEnableState token passed in *)
Inductive op : Type :=
| OEnable | ODisable | OToggle
| OLocalEnable | OLocalDisable | OLocalToggle
| OLocalTake | ORestore (f : flag) | OIsEnabled.

(* g = IS_ENABLED; loc = the thread-local cells (association list, absent = FGlobal) *)
Record st : Type := { g : bool; loc : list (N * flag) }.

Fixpoint lookup (l : list (N * flag)) (t : N) : flag :=
  match l with
  | [] => FGlobal
  | (u, f) :: r => if N.eqb u t then f else lookup r t
  end.

Fixpoint update (l : list (N * flag)) (t : N) (f : flag) : list (N * flag) :=
  match l with
  | [] => [(t, f)]
  | (u, f') :: r => if N.eqb u t then (t, f) :: r else (u, f') :: update r t f
  end.

Definition get_loc (s : st) (t : N) : flag := lookup (loc s) t.
Definition set_loc (s : st) (t : N) (f : flag) : st := {| g := g s; loc := update (loc s) t f |}.
Definition set_g (s : st) (b : bool) : st := {| g := b; loc := loc s |}.

(* local_toggle: Global stays Global, Enabled <-> Disabled *)
Definition toggle_flag (f : flag) : flag :=
  match f with FGlobal => FGlobal | FEnabled => FDisabled | FDisabled => FEnabled end.

(* is_enabled() as seen from thread t *)
Definition view (s : st) (t : N) : bool :=
  match get_loc s t with FGlobal => g s | FEnabled => true | FDisabled => false end.

(* one call by thread t: new state, result of is_enabled, token of local_take *)
Definition step (s : st) (t : N) (o : op) : st * option bool * option flag :=
  match o with
  | OEnable       => (set_g (set_loc s t FEnabled) true, None, None)
  | ODisable      => (set_g (set_loc s t FDisabled) false, None, None)
  | OToggle       => (set_g (set_loc s t (toggle_flag (get_loc s t))) (negb (g s)), None, None)
  | OLocalEnable  => (set_loc s t FEnabled, None, None)
  | OLocalDisable => (set_loc s t FDisabled, None, None)
  | OLocalToggle  => (set_loc s t (toggle_flag (get_loc s t)), None, None)
  | OLocalTake    => (set_loc s t FGlobal, None, Some (get_loc s t))
  | ORestore f    => (set_loc s t f, None, None)
  | OIsEnabled    => (s, Some (view s t), None)
  end.

Definition step_st (s : st) (t : N) (o : op) : st := fst (fst (step s t o)).

Definition init : st := {| g := true; loc := [] |}.

Fixpoint run (s : st) (tr : list (N * op)) : st :=
  match tr with
  | [] => s
  | (t, o) :: r => run (step_st s t o) r
  end.

(* what each thread of ths would get from is_enabled() in state s *)
Definition views (s : st) (ths : list N) : list bool := map (view s) ths.

(* run, recording after every step the views of the threads ths *)
Fixpoint run_obs (ths : list N) (s : st) (tr : list (N * op)) : st * list (list bool) :=
  match tr with
  | [] => (s, [])
  | (t, o) :: r =>
      let s' := step_st s t o in
      let '(sf, obs) := run_obs ths s' r in
      (sf, views s' ths :: obs)
  end.

(* ---- trace language of the harness: restore pops a per-thread stack of saved tokens ---- *)
Inductive sop : Type :=
| SEnable | SDisable | SToggle
| SLocalEnable | SLocalDisable | SLocalToggle
| SLocalTake | SRestoreTop | SIsEnabled.

(* per-thread Vec<LocalEnableState>, head = top; absent = empty *)
Definition stacks : Type := list (N * list flag).

Fixpoint get_stack (k : stacks) (t : N) : list flag :=
  match k with
  | [] => []
  | (u, l) :: r => if N.eqb u t then l else get_stack r t
  end.

Fixpoint set_stack (k : stacks) (t : N) (l : list flag) : stacks :=
  match k with
  | [] => [(t, l)]
  | (u, l') :: r => if N.eqb u t then (t, l) :: r else (u, l') :: set_stack r t l
  end.

(* the op actually issued for a stack op, given the issuing thread's saved tokens.
   SRestoreTop on an empty stack issues nothing; it is resolved to OIsEnabled, which leaves
   the state unchanged, so that traces keep their length. *)
Definition resolve_op (stk : list flag) (o : sop) : op :=
  match o with
  | SEnable => OEnable | SDisable => ODisable | SToggle => OToggle
  | SLocalEnable => OLocalEnable | SLocalDisable => OLocalDisable | SLocalToggle => OLocalToggle
  | SLocalTake => OLocalTake
  | SRestoreTop => match stk with [] => OIsEnabled | f :: _ => ORestore f end
  | SIsEnabled => OIsEnabled
  end.

Definition sstep (s : st) (k : stacks) (t : N) (o : sop) : st * stacks :=
  let stk := get_stack k t in
  let '(s', _, tok) := step s t (resolve_op stk o) in
  let k' :=
    match o with
    | SLocalTake => match tok with Some f => set_stack k t (f :: stk) | None => k end
    | SRestoreTop => match stk with [] => k | _ :: rest => set_stack k t rest end
    | _ => k
    end in
  (s', k').

Fixpoint run_stack_from (ths : list N) (s : st) (k : stacks) (tr : list (N * sop))
  : st * stacks * list (list bool) :=
  match tr with
  | [] => (s, k, [])
  | (t, o) :: r =>
      let '(s', k') := sstep s k t o in
      let '(sf, kf, obs) := run_stack_from ths s' k' r in
      (sf, kf, views s' ths :: obs)
  end.

(* from init with all stacks empty: views of ths after every step *)
Definition run_stack (ths : list N) (tr : list (N * sop)) : list (list bool) :=
  snd (run_stack_from ths init [] tr).

(* final state of the same run *)
Definition run_stack_final (tr : list (N * sop)) : st :=
  fst (fst (run_stack_from [] init [] tr)).

(* resolution of a stack trace to a plain trace with explicit tokens *)
Fixpoint resolve (s : st) (k : stacks) (tr : list (N * sop)) : list (N * op) :=
  match tr with
  | [] => []
  | (t, o) :: r =>
      let '(s', k') := sstep s k t o in
      (t, resolve_op (get_stack k t) o) :: resolve s' k' r
  end.

(* ---- reference functions: what a call does to the caller's own cell / to the global,
   and their folds over a trace (vocabulary of the C20 statements) ---- *)

(* effect of a call on the caller's own cell, as a function of that cell only *)
Definition lstep (f : flag) (o : op) : flag :=
  match o with
  | OEnable | OLocalEnable => FEnabled
  | ODisable | OLocalDisable => FDisabled
  | OToggle | OLocalToggle => toggle_flag f
  | OLocalTake => FGlobal
  | ORestore f' => f'
  | OIsEnabled => f
  end.

(* effect of a call on the global, as a function of the global only *)
Definition gstep (b : bool) (o : op) : bool :=
  match o with
  | OEnable => true
  | ODisable => false
  | OToggle => negb b
  | _ => b
  end.

Definition is_global_op (o : op) : bool :=
  match o with OEnable | ODisable | OToggle => true | _ => false end.

Definition by_thread (t : N) (e : N * op) : bool := N.eqb (fst e) t.

Fixpoint lfold (f : flag) (t : N) (tr : list (N * op)) : flag :=
  match tr with
  | [] => f
  | (u, o) :: r => if N.eqb u t then lfold (lstep f o) t r else lfold f t r
  end.

Fixpoint gfold (b : bool) (tr : list (N * op)) : bool :=
  match tr with
  | [] => b
  | (_, o) :: r => gfold (gstep b o) r
  end.
