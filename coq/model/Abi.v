(* Model of the hand-written conversion tables of chess-api/src/lib.rs between native and
   ABI-stable mirror types (StableChessMove, StableOptionalChessMove, StableScore). *)
From Coq Require Import NArith ZArith List Bool.
From Chess Require Import model.Score.

Inductive promo := PKnight | PBishop | PRook | PQueen.
Inductive st_promo := StKnight | StBishop | StRook | StQueen | StNone.                 (* StableOptionalPromotionPiece *)
Inductive mi_promo := MiKnight | MiBishop | MiRook | MiQueen | MiNone | MiIllegal.     (* StableMaybeIllegalOptionalPromotionPiece *)

Record cmove := { c_src : N; c_dst : N; c_piece : option promo }.                      (* ChessMove *)
Record smove := { s_src : N; s_dst : N; s_piece : st_promo }.                          (* StableChessMove *)
Record omove := { o_src : N; o_dst : N; o_piece : mi_promo }.                          (* StableOptionalChessMove *)

(* impl From<ChessMove> for StableChessMove *)
Definition to_stable (m : cmove) : smove :=
  {| s_src := c_src m; s_dst := c_dst m;
     s_piece := match c_piece m with
                | Some PKnight => StKnight | Some PBishop => StBishop
                | Some PRook => StRook | Some PQueen => StQueen | None => StNone end |}.
(* impl From<StableChessMove> for ChessMove *)
Definition of_stable (m : smove) : cmove :=
  {| c_src := s_src m; c_dst := s_dst m;
     c_piece := match s_piece m with
                | StKnight => Some PKnight | StBishop => Some PBishop
                | StRook => Some PRook | StQueen => Some PQueen | StNone => None end |}.
(* impl From<ChessMove> / From<Option<ChessMove>> for StableOptionalChessMove *)
Definition to_opt_some (m : cmove) : omove :=
  {| o_src := c_src m; o_dst := c_dst m;
     o_piece := match c_piece m with
                | Some PKnight => MiKnight | Some PBishop => MiBishop
                | Some PRook => MiRook | Some PQueen => MiQueen | None => MiNone end |}.
Definition to_opt (m : option cmove) : omove :=
  match m with
  | Some m => to_opt_some m
  | None => {| o_src := 0; o_dst := 0; o_piece := MiIllegal |}
  end.
(* impl From<StableOptionalChessMove> for Option<ChessMove> *)
Definition of_opt (m : omove) : option cmove :=
  match o_piece m with
  | MiIllegal => None
  | p => Some {| c_src := o_src m; c_dst := o_dst m;
                 c_piece := match p with
                            | MiKnight => Some PKnight | MiBishop => Some PBishop
                            | MiRook => Some PRook | MiQueen => Some PQueen | _ => None end |}
  end.

Inductive st_score := StMin | StBlackMateIn (n : N) | StRaw (z : Z) | StWhiteMateIn (n : N) | StMax.
Definition score_to (s : score) : st_score :=
  match s with
  | SMin => StMin | SBlackMateIn n => StBlackMateIn n | SRaw z => StRaw z
  | SWhiteMateIn n => StWhiteMateIn n | SMax => StMax end.
Definition score_of (s : st_score) : score :=
  match s with
  | StMin => SMin | StBlackMateIn n => SBlackMateIn n | StRaw z => SRaw z
  | StWhiteMateIn n => SWhiteMateIn n | StMax => SMax end.

(* EvaluatedMove::new(mv, score) then .chess_move() / .score() *)
Definition evaluated_roundtrip (m : option cmove) (s : score) : option cmove * score :=
  (of_opt (to_opt m), score_of (score_to s)).
