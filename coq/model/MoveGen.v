(* Model of chess-movegen/src/iter.rs (collect_moves, MoveGen iterator) and iter/pieces.rs
   (per-piece legal move generation with pin / check masks, king safety, castling, en passant).
   Same dispatch, same masks, same entry order as the code. *)
From Coq Require Import NArith ZArith List Bool.
From Chess Require Import base.Bits base.Types base.BitBoard geom.Geometry model.Board.
Import ListNotations.
Local Open Scope N_scope.

(* LegalMovesAt *)
Record entry := { e_src : N; e_moves : N; e_promo : bool }.

(* check_mask: between(king, the single checker) | checkers when in check, everything otherwise *)
Definition check_mask (b : board) (is_in_check : bool) (k : N) : N :=
  if is_in_check then bb_or (between_geo k (tz64 (b_checkers b))) (b_checkers b) else bb_full.

Definition pseudo_legals (pc : piece) (src : N) (c : color) (occ mask : N) : N :=
  match pc with
  | Pawn => bb_and (pawn_moves_spec c src occ) mask
  | Knight => bb_and (knight_geo src) mask
  | Bishop => bb_and (bishop_attacks src occ) mask
  | Rook => bb_and (rook_attacks src occ) mask
  | Queen => bb_and (bb_or (rook_attacks src occ) (bishop_attacks src occ)) mask
  | King => bb_and (king_geo src) mask
  end.

Definition mk_entries (srcs : list N) (f : N -> N) (promo : N -> bool) : list entry :=
  flat_map (fun src => let mv := f src in
                       if none mv then [] else [{| e_src := src; e_moves := mv; e_promo := promo src |}]) srcs.

(* PieceType::legals (Knight: CAN_MOVE_IF_PINNED = false) *)
Definition piece_legals (pc : piece) (can_move_if_pinned is_in_check : bool) (b : board) (mask : N) : list entry :=
  let occ := all_occ b in
  let my := colors b (b_turn b) in
  let k := king_sq b (b_turn b) in
  let ps := bb_and (pieces b pc) my in
  let cm := check_mask b is_in_check k in
  let l1 := mk_entries (elements (bb_and ps (bb_not (b_pinned b))))
                       (fun src => bb_and (pseudo_legals pc src (b_turn b) occ mask) cm) (fun _ => false) in
  if is_in_check || negb can_move_if_pinned then l1
  else l1 ++ mk_entries (elements (bb_and ps (b_pinned b)))
                        (fun src => bb_and (pseudo_legals pc src (b_turn b) occ mask) (line_geo src k)) (fun _ => false).

(* Board::is_legal_en_passant (added by the en-passant fix) *)
Definition is_legal_en_passant (b : board) (src dest captured k : N) : bool :=
  let captured_bb := from_pos captured in
  let opp_bb := bb_diff (colors b (opp (b_turn b))) captured_bb in
  let steppers := bb_and (bb_or (b_knight b) (b_pawn b)) opp_bb in
  if any (bb_and (b_checkers b) steppers) then false
  else
    let occ := bb_or (bb_diff (bb_diff (all_occ b) (from_pos src)) captured_bb) (from_pos dest) in
    let bishops := bb_and (bb_or (b_bishop b) (b_queen b)) opp_bb in
    let rooks := bb_and (bb_or (b_rook b) (b_queen b)) opp_bb in
    none (bb_or (bb_and (bishop_attacks k occ) bishops) (bb_and (rook_attacks k occ) rooks)).

Definition adjacent_files (f : N) : N := let fb := from_file f in bb_or (shift_left fb) (shift_right fb).

(* Pawn::legals *)
Definition pawn_legals (is_in_check : bool) (b : board) (mask : N) : list entry :=
  let occ := all_occ b in
  let c := b_turn b in
  let my := colors b c in
  let k := king_sq b c in
  let ps := bb_and (b_pawn b) my in
  let cm := check_mask b is_in_check k in
  let seventh := match c with White => 6 | Black => 1 end in
  let promo src := rank_of src =? seventh in
  let l1 := mk_entries (elements (bb_and ps (bb_not (b_pinned b))))
                       (fun src => bb_and (pseudo_legals Pawn src c occ mask) cm) promo in
  let l2 := if is_in_check then []
            else mk_entries (elements (bb_and ps (b_pinned b)))
                            (fun src => bb_and (pseudo_legals Pawn src c occ mask) (line_geo k src)) promo in
  let l3 := match b_ep b with
            | None => []
            | Some f =>
              let rank := ep_pawn_rank_of c in
              let dest := mk_sq f (ep_capture_rank_of c) in
              let captured := mk_sq f rank in
              flat_map (fun src => if is_legal_en_passant b src dest captured k
                                   then [{| e_src := src; e_moves := from_pos dest; e_promo := false |}] else [])
                       (elements (bb_and (bb_and (from_rank rank) (adjacent_files f)) ps))
            end in
  l1 ++ l2 ++ l3.

(* Board::is_legal_king_position: uses self.turn for "our" king and the opponent colour *)
Definition is_legal_king_position (b : board) (kp : N) : bool :=
  let c := b_turn b in
  let opp_bb := colors b (opp c) in
  let bishop_pinners := bb_and (bb_or (b_bishop b) (b_queen b)) (bishop_rays_geo kp) in
  let rook_pinners := bb_and (bb_or (b_rook b) (b_queen b)) (rook_rays_geo kp) in
  let pinners := bb_and opp_bb (bb_or bishop_pinners rook_pinners) in
  let actual := bb_xor (from_pos (king_sq b c)) (from_pos kp) in
  let occ := bb_xor (all_occ b) actual in
  forallb (fun s => any (bb_and occ (between_geo kp s))) (elements pinners)
  && none (bb_or (bb_or (bb_and (bb_and (king_geo kp) (b_king b)) opp_bb)
                        (bb_and (bb_and (knight_geo kp) (b_knight b)) opp_bb))
                 (bb_and (bb_and (pawn_att_geo c kp) (b_pawn b)) opp_bb)).

Definition BACKRANK_BB_of (c : color) : N := from_rank (match c with White => 0 | Black => 7 end).
Definition CASTLE_MOVES_bb : N := fold_left bb_with [2; 58; 4; 60; 6; 62] bb_empty.
Definition KINGSIDE_FILES : N := bb_or (from_file 5) (from_file 6).
Definition QUEENSIDE_FILES : N := bb_or (bb_or (from_file 1) (from_file 2)) (from_file 3).
Definition QUEENSIDE_SAFE_FILES : N := bb_or (from_file 2) (from_file 3).

(* King::king_legals(turn): note the king is the one of `turn`, the safety test is relative to board.turn *)
Definition king_legals (is_in_check : bool) (b : board) (turn : color) (mask : N) : list entry :=
  let occ := all_occ b in
  let k := king_sq b turn in
  let ps := pseudo_legals King k turn occ mask in
  let moves := fold_left (fun mv d => if is_legal_king_position b d then mv else cleared mv d) (elements ps) ps in
  let castle (sd : side) (files safe : N) (mv : N) : N :=
    if negb (cr_contains (b_rights b) sd turn) then mv
    else
      let backrank := BACKRANK_BB_of turn in
      let tiles := bb_and files backrank in
      if none (bb_and tiles occ)
      then (if forallb (is_legal_king_position b) (elements (bb_and safe backrank))
            then bb_xor mv (bb_and tiles CASTLE_MOVES_bb) else mv)
      else mv in
  let moves := if is_in_check then moves
               else castle QueenSide QUEENSIDE_FILES QUEENSIDE_SAFE_FILES (castle KingSide KINGSIDE_FILES KINGSIDE_FILES moves) in
  if none moves then [] else [{| e_src := k; e_moves := moves; e_promo := false |}].

(* Board::collect_moves *)
Definition collect_moves (b : board) (mask0 : N) : list entry :=
  let mask := bb_and (bb_not (colors b (b_turn b))) mask0 in
  if none (b_checkers b) then
    pawn_legals false b mask ++ piece_legals Knight false false b mask ++ piece_legals Bishop true false b mask
    ++ piece_legals Rook true false b mask ++ piece_legals Queen true false b mask ++ king_legals false b (b_turn b) mask
  else
    (if count (b_checkers b) =? 1 then
       pawn_legals true b mask ++ piece_legals Knight false true b mask ++ piece_legals Bishop true true b mask
       ++ piece_legals Rook true true b mask ++ piece_legals Queen true true b mask
     else [])
    ++ king_legals true b (b_turn b) mask.

Definition collect_king_moves (b : board) (turn : color) : list entry :=
  king_legals (any (b_checkers b)) b turn (bb_not (colors b turn)).

(* ---- the MoveGen iterator ---- *)
Record movegen := {
  g_moves : list entry;
  g_promo : N;          (* how many of the 4 promotion pieces of the current destination were already yielded (0..3) *)
  g_mask : N;
  g_index : nat }.

Definition mg_new (entries : list entry) (mask : N) : movegen :=
  {| g_moves := entries; g_promo := 0; g_mask := mask; g_index := O |}.
Definition legals_gen (b : board) : movegen := mg_new (collect_moves b bb_full) bb_full.
Definition legals_masked_gen (b : board) (mask : N) : movegen := mg_new (collect_moves b mask) mask.
Definition king_legals_gen (b : board) (turn : color) : movegen := mg_new (collect_king_moves b turn) bb_full.

Definition live (g : movegen) (e : entry) : bool := any (bb_and (e_moves e) (g_mask g)).

Definition mg_is_empty (g : movegen) : bool := forallb (fun e => negb (live g e)) (skipn (g_index g) (g_moves g)).

(* len(): entries with no masked move are skipped; a promotion group in progress is charged to the first live entry *)
Definition mg_len (g : movegen) : N :=
  fst (fold_left (fun (acc : N * N) e =>
                    let '(len, inprog) := acc in
                    let cnt := count (bb_and (e_moves e) (g_mask g)) in
                    if cnt =? 0 then (len, inprog)
                    else ((len + (if e_promo e then cnt * 4 - inprog else cnt)), 0))
                 (skipn (g_index g) (g_moves g)) (0, g_promo g)).

Definition mg_remove (g : movegen) (m : N) : movegen :=
  {| g_moves := map (fun e => {| e_src := e_src e; e_moves := bb_diff (e_moves e) m; e_promo := e_promo e |}) (g_moves g);
     g_promo := g_promo g; g_mask := g_mask g; g_index := g_index g |}.

Definition mg_remove_move (g : movegen) (m : move) : movegen * bool :=
  ({| g_moves := map (fun e => if e_src e =? m_src m
                               then {| e_src := e_src e; e_moves := cleared (e_moves e) (m_dst m); e_promo := e_promo e |}
                               else e) (g_moves g);
      g_promo := g_promo g; g_mask := g_mask g; g_index := g_index g |},
   existsb (fun e => e_src e =? m_src m) (g_moves g)).

(* set_mask: entries with a move under the new mask are swapped to the front (stable for them;
   the displaced entries end up behind in swap order), index reset, promotion cursor NOT reset *)
Fixpoint swap_front (fuel : nat) (l : list entry) (i j : nat) (mask : N) : list entry :=
  match fuel with
  | O => l
  | S f =>
    match nth_error l i with
    | None => l
    | Some ei =>
      if any (bb_and (e_moves ei) mask)
      then
        let l' := if Nat.eqb i j then l
                  else match nth_error l j with
                       | Some ej => Rules.set_nth (Rules.set_nth l i ej) j ei
                       | None => l end in
        swap_front f l' (S i) (S j) mask
      else swap_front f l (S i) j mask
    end
  end.
Definition mg_set_mask (g : movegen) (mask : N) : movegen :=
  {| g_moves := swap_front (S (length (g_moves g))) (g_moves g) O O mask;
     g_promo := g_promo g; g_mask := mask; g_index := O |}.

Definition promo_at (i : N) : piece :=
  match i with 0 => Queen | 1 => Rook | 2 => Bishop | _ => Knight end.

Fixpoint skip_dead (g : movegen) (l : list entry) (i : nat) : nat :=
  match l with
  | [] => i
  | e :: r => if live g e then i else skip_dead g r (S i)
  end.

Definition set_entry (g : movegen) (i : nat) (e : entry) (promo : N) (index : nat) : movegen :=
  {| g_moves := Rules.set_nth (g_moves g) i e; g_promo := promo; g_mask := g_mask g; g_index := index |}.

Definition mg_next (g : movegen) : option move * movegen :=
  let i := skip_dead g (skipn (g_index g) (g_moves g)) (g_index g) in
  let g0 := {| g_moves := g_moves g; g_promo := g_promo g; g_mask := g_mask g; g_index := i |} in
  match nth_error (g_moves g) i with
  | None => (None, g0)
  | Some e =>
    let masked := bb_and (e_moves e) (g_mask g) in
    let dest := tz64 masked in
    let rest := bb_xor masked (from_pos dest) in
    if e_promo e then
      let mv := {| m_src := e_src e; m_dst := dest; m_promo := Some (promo_at (g_promo g)) |} in
      if g_promo g =? 3 then
        let e' := {| e_src := e_src e; e_moves := cleared (e_moves e) dest; e_promo := true |} in
        (Some mv, set_entry g i e' 0 (if none (bb_and rest (g_mask g)) then S i else i))
      else (Some mv, set_entry g i e (g_promo g + 1) i)
    else
      let e' := {| e_src := e_src e; e_moves := cleared (e_moves e) dest; e_promo := false |} in
      (Some {| m_src := e_src e; m_dst := dest; m_promo := None |},
       set_entry g i e' (g_promo g) (if none rest then S i else i))
  end.

(* drain: all moves the iterator yields from here.  The Rust loop `for m in gen` runs until next() returns
   None; the model's fuel is an upper bound on the number of moves still owed (four per destination bit of
   every entry, plus one step for the final None), so it never runs out: IterFacts.visible_le_bound. *)
Definition drain_bound (g : movegen) : nat :=
  S (fold_right (fun e a => (4 * N.to_nat (count (e_moves e)) + a)%nat) O (g_moves g)).
Fixpoint mg_drain_fuel (fuel : nat) (g : movegen) : list move :=
  match fuel with
  | O => []
  | S f => match mg_next g with (Some m, g') => m :: mg_drain_fuel f g' | (None, _) => [] end
  end.
Definition mg_drain (g : movegen) : list move := mg_drain_fuel (drain_bound g) g.

(* what board.legals() yields, in order *)
Definition legals (b : board) : list move := mg_drain (legals_gen b).
Definition is_legal (b : board) (m : move) : bool := existsb (move_eqb m) (legals b).
