(* Model of the text forms and enumerating iterators of chess-bitboard / chess-movegen:
     chess-bitboard/src/pos.rs    Pos / File / Rank : new, from_u8, file, rank, shift_*, flip_rank,
                                  Rank::flip, dist_to, Display, from_ascii_byte(s),
                                  AllPosIter, AllFileIter, AllRankIter, FileIter, RankIter
     chess-bitboard/src/piece.rs  Piece / PromotionPiece : from_u8, from_ascii_byte(s), Display, AllPieceIter
     chess-bitboard/src/color.rs  Color : from_u8, Not, AllColorIter
     chess-bitboard/src/side.rs   Side  : from_u8, Not, AllSideIter
     chess-movegen/src/lib.rs     ChessMove::from_ascii_bytes, Display for ChessMove
     core::iter::range            Range<u8> : next, nth, next_back, nth_back, size_hint (TrustedStep impl)
   Executable definitions only; lemmas live in proofs/TextFacts.v.

   Encodings.  A byte is an N (< 256); a byte string is a list N.  A square is an N < 64 with
   A1 = 0, file = s mod 8, rank = s / 8.  Files and ranks are N < 8 (file a = 0, rank 1 = 0).
   Pieces are N < 6 in declaration order Pawn Knight Bishop Rook Queen King; promotion pieces
   are the piece indices 1..4.  Colours: White = 0, Black = 1.  Sides: King = 0, Queen = 1.
   A usize argument (nth / nth_back) is an arbitrary N: nothing in the model depends on n < 2^64. *)
From Coq Require Import NArith List Bool.
Import ListNotations.
Local Open Scope N_scope.

(* ---------- u8 helpers ---------- *)

(* u8::wrapping_sub *)
Definition wrapping_sub_u8 (x y : N) : N := (x + 256 - y) mod 256.

(* u8::abs_diff *)
Definition abs_diff (a b : N) : N := if a <? b then b - a else a - b.

(* the `from_u8` functions of the field-less enums: `0..k-1 => Some(variant)`, `k.. => None` *)
Definition enum_from_u8 (k n : N) : option N := if n <? k then Some n else None.

Definition pos_from_u8 (n : N) : option N := if n <? 64 then Some n else None.
Definition file_from_u8 (n : N) : option N := enum_from_u8 8 n.
Definition rank_from_u8 (n : N) : option N := enum_from_u8 8 n.
Definition piece_from_u8 (n : N) : option N := enum_from_u8 6 n.
Definition color_from_u8 (n : N) : option N := enum_from_u8 2 n.
Definition side_from_u8 (n : N) : option N := enum_from_u8 2 n.

(* impl Not for Color / Side *)
Definition color_not (c : N) : N := match c with 0 => 1 | _ => 0 end.
Definition side_not (s : N) : N := match s with 0 => 1 | _ => 0 end.

(* ---------- Pos / File / Rank arithmetic ---------- *)

(* Pos::new(file, rank) = from_u8(rank as u8 * 8 + file as u8) *)
Definition pos_new (f r : N) : N := r * 8 + f.
(* Pos::file = File::from_u8(self as u8 % 8), Pos::rank = Rank::from_u8(self as u8 / 8) *)
Definition pos_file (s : N) : N := s mod 8.
Definition pos_rank (s : N) : N := s / 8.

(* File::shift_left / shift_right, Rank::shift_down / shift_up *)
Definition file_shift_left (x : N) : option N := if x =? 0 then None else Some (x - 1).
Definition file_shift_right (x : N) : option N := if x =? 7 then None else Some (x + 1).
Definition rank_shift_down (x : N) : option N := if x =? 0 then None else Some (x - 1).
Definition rank_shift_up (x : N) : option N := if x =? 7 then None else Some (x + 1).

(* Pos::shift_up / shift_down / shift_left / shift_right *)
Definition pos_shift_up (s : N) : option N :=
  match rank_shift_up (pos_rank s) with Some r => Some (pos_new (pos_file s) r) | None => None end.
Definition pos_shift_down (s : N) : option N :=
  match rank_shift_down (pos_rank s) with Some r => Some (pos_new (pos_file s) r) | None => None end.
Definition pos_shift_left (s : N) : option N :=
  match file_shift_left (pos_file s) with Some f => Some (pos_new f (pos_rank s)) | None => None end.
Definition pos_shift_right (s : N) : option N :=
  match file_shift_right (pos_file s) with Some f => Some (pos_new f (pos_rank s)) | None => None end.

(* Rank::flip = from_u8(7 - self as u8); Pos::flip_rank = new(file, rank.flip()) *)
Definition rank_flip (r : N) : N := 7 - r.
Definition pos_flip_rank (s : N) : N := pos_new (pos_file s) (rank_flip (pos_rank s)).

(* File::dist_to / Rank::dist_to *)
Definition dist_to (a b : N) : N := abs_diff a b.

(* ---------- Display ---------- *)

(* File: lower_letter = b'a' + file.  Rank: the decimal text of (rank as u8 + 1), one digit. *)
Definition file_show (f : N) : list N := [97 + f].
Definition rank_show (r : N) : list N := [49 + r].
(* Pos: "{}{}" file, rank *)
Definition pos_show (s : N) : list N := file_show (pos_file s) ++ rank_show (pos_rank s).
(* PromotionPiece: 'N' 'B' 'R' 'Q' *)
Definition promo_show (p : N) : list N :=
  match p with 1 => [78] | 2 => [66] | 3 => [82] | 4 => [81] | _ => [] end.
(* ChessMove: "{}-{}" source, dest; then the promotion piece if any *)
Definition move_show (m : N * N) : list N := pos_show (fst m) ++ [45] ++ pos_show (snd m).
Definition move_show_full (src dst : N) (promo : option N) : list N :=
  move_show (src, dst) ++ match promo with Some p => promo_show p | None => [] end.

(* ---------- parsers ---------- *)

(* File::from_ascii_byte: (s | 0b0010_0000).wrapping_sub(b'a') then from_u8 *)
Definition file_from_ascii_byte (b : N) : option N :=
  let s := wrapping_sub_u8 (N.lor b 32) 97 in if s <? 8 then Some s else None.
(* Rank::from_ascii_byte: s.wrapping_sub(b'1') then from_u8 *)
Definition rank_from_ascii_byte (b : N) : option N :=
  let s := wrapping_sub_u8 b 49 in if s <? 8 then Some s else None.

(* `let &[s] = s else { return None }` *)
Definition file_from_ascii_bytes (l : list N) : option N :=
  match l with [b] => file_from_ascii_byte b | _ => None end.
Definition rank_from_ascii_bytes (l : list N) : option N :=
  match l with [b] => rank_from_ascii_byte b | _ => None end.

(* Pos::from_ascii_bytes: `&[f, r] => Some(new(File::from_ascii_byte(f)?, Rank::from_ascii_byte(r)?))` *)
Definition pos_from_ascii_bytes (l : list N) : option N :=
  match l with
  | [fb; rb] =>
      match file_from_ascii_byte fb with
      | None => None
      | Some f =>
          match rank_from_ascii_byte rb with
          | None => None
          | Some r => Some (pos_new f r)
          end
      end
  | _ => None
  end.

(* Piece::from_ascii_byte: first matching arm of
   p|P => Pawn, n|N => Knight, b|B => Bishop, r|R => Rook, q|Q => Queen, k|K => King, _ => None *)
Definition piece_from_ascii_byte (b : N) : option N :=
  if (b =? 112) || (b =? 80) then Some 0
  else if (b =? 110) || (b =? 78) then Some 1
  else if (b =? 98) || (b =? 66) then Some 2
  else if (b =? 114) || (b =? 82) then Some 3
  else if (b =? 113) || (b =? 81) then Some 4
  else if (b =? 107) || (b =? 75) then Some 5
  else None.
Definition piece_from_ascii_bytes (l : list N) : option N :=
  match l with [b] => piece_from_ascii_byte b | _ => None end.

(* PromotionPiece::from_ascii_byte: n|N, b|B, r|R, q|Q *)
Definition promo_from_ascii_byte (b : N) : option N :=
  if (b =? 110) || (b =? 78) then Some 1
  else if (b =? 98) || (b =? 66) then Some 2
  else if (b =? 114) || (b =? 82) then Some 3
  else if (b =? 113) || (b =? 81) then Some 4
  else None.
Definition promo_from_ascii_bytes (l : list N) : option N :=
  match l with [b] => promo_from_ascii_byte b | _ => None end.

(* ChessMove::from_ascii_bytes: `[sf, sr, b'-', df, dr] | [sf, sr, df, dr]` => source, dest through
   Pos::from_ascii_bytes with `?`, piece: None; `_ => None`.  The result is (source, dest): the
   promotion field of a parsed move is always None. *)
Definition move_of_bytes (sf sr df dr : N) : option (N * N) :=
  match pos_from_ascii_bytes [sf; sr] with
  | None => None
  | Some src =>
      match pos_from_ascii_bytes [df; dr] with
      | None => None
      | Some dst => Some (src, dst)
      end
  end.
Definition move_from_ascii_bytes (l : list N) : option (N * N) :=
  match l with
  | [sf; sr; m; df; dr] => if m =? 45 then move_of_bytes sf sr df dr else None
  | [sf; sr; df; dr] => move_of_bytes sf sr df dr
  | _ => None
  end.

(* ---------- core::ops::Range<u8> as an iterator ---------- *)

Record range : Type := mk_range { lo : N; hi : N }.

(* Step for u8: forward_checked(start, n: usize) = u8::try_from(n).ok().and_then(|n| start.checked_add(n)),
   backward_checked likewise with checked_sub *)
Definition forward_checked (start n : N) : option N :=
  if n <=? 255 then (if start + n <=? 255 then Some (start + n) else None) else None.
Definition backward_checked (start n : N) : option N :=
  if n <=? 255 then (if n <=? start then Some (start - n) else None) else None.

(* spec_next: if start < end { old = start; start = forward_unchecked(old, 1); Some(old) } else None *)
Definition r_next (r : range) : option N * range :=
  if lo r <? hi r then (Some (lo r), mk_range (lo r + 1) (hi r)) else (None, r).

(* spec_nth: if let Some(plus_n) = forward_checked(start, n) { if plus_n < end
     { start = plus_n + 1; return Some(plus_n) } }  start = end; None *)
Definition r_nth (n : N) (r : range) : option N * range :=
  match forward_checked (lo r) n with
  | Some p => if p <? hi r then (Some p, mk_range (p + 1) (hi r)) else (None, mk_range (hi r) (hi r))
  | None => (None, mk_range (hi r) (hi r))
  end.

(* spec_next_back: if start < end { end = backward_unchecked(end, 1); Some(end) } else None *)
Definition r_next_back (r : range) : option N * range :=
  if lo r <? hi r then (Some (hi r - 1), mk_range (lo r) (hi r - 1)) else (None, r).

(* spec_nth_back: if let Some(minus_n) = backward_checked(end, n) { if minus_n > start
     { end = minus_n - 1; return Some(end) } }  end = start; None *)
Definition r_nth_back (n : N) (r : range) : option N * range :=
  match backward_checked (hi r) n with
  | Some m => if lo r <? m then (Some (m - 1), mk_range (lo r) (m - 1)) else (None, mk_range (lo r) (lo r))
  | None => (None, mk_range (lo r) (lo r))
  end.

(* size_hint: if start < end { steps_between = (end - start, Some(end - start)) } else (0, Some(0)) *)
Definition r_size_hint (r : range) : N * option N :=
  if lo r <? hi r then (hi r - lo r, Some (hi r - lo r)) else (0, Some 0).

(* ---------- op language for iterator sequences ---------- *)

Inductive iop : Type :=
| INext
| INextBack
| INth (n : N)
| INthBack (n : N)
| ISizeHint.

(* one op on the bare range; ISizeHint reports the lower bound *)
Definition r_step (op : iop) (r : range) : option N * range :=
  match op with
  | INext => r_next r
  | INextBack => r_next_back r
  | INth n => r_nth n r
  | INthBack n => r_nth_back n r
  | ISizeHint => (Some (fst (r_size_hint r)), r)
  end.

Fixpoint run_range (r : range) (ops : list iop) : list (option N) :=
  match ops with
  | [] => []
  | op :: t => let '(o, r') := r_step op r in o :: run_range r' t
  end.

(* AllFileIter / AllRankIter / AllPieceIter / AllColorIter / AllSideIter: a range 0..k whose items
   go through from_u8 (followed by unwrap / unwrap_unchecked in the implementation) *)
Definition it_step (k : N) (op : iop) (r : range) : option N * range :=
  match op with
  | ISizeHint => (Some (fst (r_size_hint r)), r)
  | _ => let '(o, r') := r_step op r in
         (match o with Some v => enum_from_u8 k v | None => None end, r')
  end.

Fixpoint run_it (k : N) (r : range) (ops : list iop) : list (option N) :=
  match ops with
  | [] => []
  | op :: t => let '(o, r') := it_step k op r in o :: run_it k r' t
  end.

(* result of each op, starting from `0..k`; ISizeHint gives Some len *)
Definition run_iter (k : N) (ops : list iop) : list (option N) := run_it k (mk_range 0 k) ops.

(* AllPosIter { pos: u8 }: next = { let p = Pos::from_u8(self.pos)?; self.pos += 1; Some(p) },
   size_hint = 64 - self.pos.  Only next and size_hint are implemented by the type itself; any
   other op is answered None and leaves the state alone. *)
Definition allpos_next (p : N) : option N * N :=
  match pos_from_u8 p with Some s => (Some s, p + 1) | None => (None, p) end.
Definition allpos_size_hint (p : N) : N := 64 - p.
Definition allpos_step (op : iop) (p : N) : option N * N :=
  match op with
  | INext => allpos_next p
  | ISizeHint => (Some (allpos_size_hint p), p)
  | _ => (None, p)
  end.
Fixpoint run_allpos_from (p : N) (ops : list iop) : list (option N) :=
  match ops with
  | [] => []
  | op :: t => let '(o, p') := allpos_step op p in o :: run_allpos_from p' t
  end.
Definition run_allpos (ops : list iop) : list (option N) := run_allpos_from 0 ops.
Definition fwd_only (ops : list iop) : bool :=
  forallb (fun op => match op with INext | ISizeHint => true | _ => false end) ops.

(* FileIter { file, ranks: 0..8 } / RankIter { rank, files: 0..8 }: next = inner next mapped through Pos::new *)
Definition file_iter_next (f : N) (r : range) : option N * range :=
  let '(o, r') := it_step 8 INext r in
  (match o with Some rk => Some (pos_new f rk) | None => None end, r').
Definition rank_iter_next (rk : N) (r : range) : option N * range :=
  let '(o, r') := it_step 8 INext r in
  (match o with Some f => Some (pos_new f rk) | None => None end, r').

(* ---------- the reference: a double-ended queue over a list (slice iterator behaviour) ---------- *)

(* lo, lo+1, ..., len items *)
Fixpoint nseq (lo0 : N) (len : nat) : list N :=
  match len with O => [] | S k => lo0 :: nseq (lo0 + 1) k end.
Definition range_list (lo0 hi0 : N) : list N := nseq lo0 (N.to_nat (hi0 - lo0)).

(* drop the first n items (n is an N: no unary numbers for huge n) *)
Fixpoint dropN (n : N) (l : list N) : list N :=
  match l with
  | [] => []
  | _ :: t => if n =? 0 then l else dropN (n - 1) t
  end.

Definition d_next (l : list N) : option N * list N :=
  match l with [] => (None, []) | x :: t => (Some x, t) end.
(* nth n: drop n items, then pop the front (an exhausted list stays exhausted) *)
Definition d_nth (n : N) (l : list N) : option N * list N := d_next (dropN n l).
(* the same from the back *)
Definition d_next_back (l : list N) : option N * list N :=
  let '(o, t) := d_next (rev l) in (o, rev t).
Definition d_nth_back (n : N) (l : list N) : option N * list N :=
  let '(o, t) := d_nth n (rev l) in (o, rev t).
Definition d_len (l : list N) : N := N.of_nat (length l).

Definition d_step (op : iop) (l : list N) : option N * list N :=
  match op with
  | INext => d_next l
  | INextBack => d_next_back l
  | INth n => d_nth n l
  | INthBack n => d_nth_back n l
  | ISizeHint => (Some (d_len l), l)
  end.

Fixpoint run_deque (l : list N) (ops : list iop) : list (option N) :=
  match ops with
  | [] => []
  | op :: t => let '(o, l') := d_step op l in o :: run_deque l' t
  end.
