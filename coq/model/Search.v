(* Model of chess-engine/src/lib.rs : Engine::search (iterative deepening), alphabeta, eval,
   ThreeFold / BoardList, with the timeout as an oracle over the poll index (the k-th call of
   is_complete), threaded in exactly the order the code polls.  Shipped configuration: positional = false. *)
From Coq Require Import NArith ZArith List Bool.
From Chess Require Import base.Bits base.Types base.BitBoard geom.Geometry model.Score model.Board model.MoveGen model.Apply.
Import ListNotations.
Local Open Scope N_scope.

(* ---- ThreeFold: HashMap<Board, u8> keyed by zobrist() then PartialEq; modelled as an association list
   searched by (hash equal && board_eqb) ---- *)
Definition threefold := list (board * N).
Definition tf_key_eqb (a b : board) : bool := (zobrist a =? zobrist b) && board_eqb a b.
Fixpoint tf_get (tf : threefold) (b : board) : N :=
  match tf with [] => 0 | (b', c) :: r => if tf_key_eqb b' b then c else tf_get r b end.
Definition sat8 (x : N) : N := if 255 <? x then 255 else x.
Fixpoint tf_bump (tf : threefold) (b : board) : threefold * N :=
  match tf with
  | [] => ([(b, 1)], 1)
  | (b', c) :: r =>
    if tf_key_eqb b' b then let c' := sat8 (c + 1) in ((b', c') :: r, c')
    else let '(r', c') := tf_bump r b in ((b', c) :: r', c')
  end.
(* ThreeFold::add : returns the new table and whether this was the third occurrence *)
Definition tf_add (tf : threefold) (b : board) : threefold * bool := let '(tf', c) := tf_bump tf b in (tf', c =? 3).

(* BoardList: newest first, each with its repetition count *)
Definition blist := list (board * N).
Fixpoint bl_count (l : blist) (tf : threefold) (b : board) : N :=
  match l with [] => tf_get tf b | (b', c) :: r => if board_eqb b' b then c else bl_count r tf b end.
Definition bl_new (tf : threefold) (b : board) : blist := [(b, tf_get tf b)].
Definition bl_add (l : blist) (tf : threefold) (b : board) : blist := (b, sat8 (bl_count l tf b + 1)) :: l.
Definition bl_head_count (l : blist) : N := match l with (_, c) :: _ => c | [] => 0 end.

(* ---- evaluation (positional = false) ---- *)
Definition zcount (x : N) : Z := Z.of_N (count x).
Definition score_pieces (b : board) (c : color) : Z :=
  let my := colors b c in
  (zcount (bb_and my (b_queen b)) * 900 + zcount (bb_and my (b_rook b)) * 500 + zcount (bb_and my (b_bishop b)) * 330
   + zcount (bb_and my (b_knight b)) * 320 + zcount (bb_and my (b_pawn b)) * 100)%Z.

Definition dist_from_edge (s : N) : N :=
  let f := file_of s in let r := rank_of s in
  let to_file_edge := N.min f (7 - f) in let to_rank_edge := N.min r (7 - r) in
  to_file_edge * to_rank_edge * 10 + to_file_edge * to_file_edge + to_rank_edge * to_rank_edge.

Definition eval_endgame (b : board) (better : color) : Z :=
  let bk := king_sq b better in let wk := king_sq b (opp better) in
  let king_moves := mg_len (king_legals_gen b (opp better)) in
  let d := dist_geo bk wk in
  (Z.of_N d * Z.of_N d * 100 + Z.of_N (dist_from_edge wk) * 10 + Z.of_N king_moves * 1000)%Z.

Definition eval (b : board) : score :=
  if 100 <=? b_half b then SRaw 0
  else
    let w := score_pieces b White in let bl := score_pieces b Black in
    let ps := (w - bl)%Z in
    let '(we, be) :=
      match (ps ?= 0)%Z with
      | Lt => if (bl <? 1800)%Z then (eval_endgame b Black, 0%Z) else (0%Z, 0%Z)
      | Eq => (0%Z, 0%Z)
      | Gt => if (w <? 1800)%Z then (0%Z, eval_endgame b White) else (0%Z, 0%Z)
      end in
    SRaw ((w + we) - (bl + be))%Z.

Definition insufficient_material (b : board) : bool :=
  if any (bb_or (bb_or (b_queen b) (b_rook b)) (b_pawn b)) then false
  else let bishops := count (b_bishop b) in let knights := count (b_knight b) in
       ((knights <=? 1) && (bishops =? 0)) || ((knights =? 0) && (bishops <=? 1)).

(* ---- policies ---- *)
Definition worst (c : color) : score := match c with White => SMin | Black => SMax end.
Definition is_better (c : color) (sc new : score) : bool := match c with White => ltb sc new | Black => gtb sc new end.
Definition upd_alpha (c : color) (alpha sc : score) : score := match c with White => smax sc alpha | Black => alpha end.
Definition upd_beta (c : color) (beta sc : score) : score := match c with White => beta | Black => smin sc beta end.
Definition mate_score (to_move : color) (d : N) : score :=
  match to_move with White => SBlackMateIn d | Black => SWhiteMateIn d end.
Definition sat_sub1 (d : N) : N := if d =? 0 then 0 else d - 1.

(* search state threaded through: number of polls consumed so far, evaluations counted *)
Record sst := { s_polls : N; s_evals : N }.
Definition bump_eval (st : sst) : sst := {| s_polls := s_polls st; s_evals := s_evals st + 1 |}.
Definition bump_poll (st : sst) : sst := {| s_polls := s_polls st + 1; s_evals := s_evals st |}.

(* The timeout first reports expiry at its k-th poll (polls 0..k-1 say "not yet") and stays expired.
   Once a poll inside a deepening pass reports expiry, every later poll does too, every loop breaks,
   and the pass is discarded by the outer loop: a pass either completes or times out as a whole. *)
Inductive ares := AVal (sc : score) (st : sst) | ATimeout | AFuel.

Section WithTimeout.
  Variable k : N.            (* index of the first poll that reports expiry *)
  Variable tf : threefold.

  Definition expired (st : sst) : bool := k <=? s_polls st.

  (* alphabeta::<P>(mv, args): c = P::COLOR is the colour to move AFTER mv on old_board *)
  Fixpoint alphabeta (fuel : nat) (c : color) (old : board) (mv : move) (remaining current : N)
           (alpha beta : score) (bl : blist) (st : sst) : ares :=
    match fuel with
    | O => AFuel
    | S fuel' =>
      let b := apply old mv in
      let was_capture := match raw_get old (m_dst mv) with Some _ => true | None => false end in
      let bl' := if was_capture then bl_new tf b else bl_add bl tf b in
      if was_capture && insufficient_material b then AVal (SRaw 0) st
      else
        let g := legals_gen b in
        if mg_is_empty g then AVal (if in_check b then mate_score c current else SRaw 0) st
        else if 100 <=? b_half b then AVal (SRaw 0) st
        else if bl_head_count bl' =? 3 then AVal (SRaw 0) st
        else
          let g1 := if (remaining =? 0) && was_capture then mg_set_mask g (colors b (opp c)) else g in
          let complete := (remaining =? 0) && (if was_capture then mg_is_empty g1 else true) in
          if complete then AVal (eval b) (bump_eval st)
          else
            (fix loop (moves : list move) (sc alpha beta : score) (st : sst) {struct moves} : ares :=
               match moves with
               | [] => AVal sc st
               | m :: rest =>
                 if expired st then ATimeout
                 else
                   match alphabeta fuel' (opp c) b m (sat_sub1 remaining) (current + 1) alpha beta bl' (bump_poll st) with
                   | AVal new st2 =>
                     let sc' := if is_better c sc new then new else sc in
                     let alpha' := upd_alpha c alpha sc' in
                     let beta' := upd_beta c beta sc' in
                     if leb beta' alpha' then AVal sc' st2 else loop rest sc' alpha' beta' st2
                   | r => r
                   end
               end) (mg_drain g1) (worst c) alpha beta st
    end.

  Inductive rres := RVal (sc : score) (best : option move) (alpha beta : score) (st : sst) | RTimeout | RFuel.

  (* the root loops of search_with: no cutoff test; the timeout is polled AFTER each child *)
  Fixpoint root_phase (fuel : nat) (c : color) (root : board) (depth : N) (moves : list move)
           (sc : score) (best : option move) (alpha beta : score) (st : sst) : rres :=
    match moves with
    | [] => RVal sc best alpha beta st
    | m :: rest =>
      match alphabeta fuel (opp c) root m depth 1 alpha beta (bl_new tf root) st with
      | AFuel => RFuel
      | ATimeout => RTimeout
      | AVal new st1 =>
        if expired st1 then RTimeout
        else
          let st2 := bump_poll st1 in
          let better := is_better c sc new in
          let sc' := if better then new else sc in
          let best' := if better then Some m else best in
          root_phase fuel c root depth rest sc' best' (upd_alpha c alpha sc') (upd_beta c beta sc') st2
      end
    end.

  Inductive pass_result := PassTimeout | PassFuel | PassDone (sc : score) (best : option move) (st : sst).

  (* one iteration of the deepening loop: previous best move first, then captures, then the rest *)
  Definition pass (fuel : nat) (root : board) (depth : N) (prev : option move) (st : sst) : pass_result :=
    let c := b_turn root in
    let g0 := legals_gen root in
    let first :=
      match prev with
      | None => (RVal (worst c) None SMin SMax st, g0)
      | Some mv => (root_phase fuel c root depth [mv] (worst c) None SMin SMax st, fst (mg_remove_move g0 mv))
      end in
    match first with
    | (RFuel, _) => PassFuel
    | (RTimeout, _) => PassTimeout
    | (RVal sc best a b' st1, g1) =>
      let g2 := mg_set_mask g1 (colors root (opp c)) in
      let caps := mg_drain g2 in
      match root_phase fuel c root depth caps sc best a b' st1 with
      | RFuel => PassFuel
      | RTimeout => PassTimeout
      | RVal sc2 best2 a2 b2 st2 =>
        let g3 := fold_left (fun g _ => snd (mg_next g)) caps g2 in
        let quiet := mg_drain (mg_set_mask g3 bb_full) in
        match root_phase fuel c root depth quiet sc2 best2 a2 b2 st2 with
        | RFuel => PassFuel
        | RTimeout => PassTimeout
        | RVal sc3 best3 _ _ st3 =>
          if expired st3 then PassTimeout else PassDone sc3 best3 (bump_poll st3)
        end
      end
    end.

  Definition is_mate_score (s : score) : bool := match s with SBlackMateIn _ | SWhiteMateIn _ => true | _ => false end.

  (* search_with: returns (move, score, max_depth of the last completed pass, fuel exhausted?) *)
  Fixpoint deepen (passes : nat) (fuel : nat) (root : board) (depth : N) (best : option move) (bsc : score)
           (maxd : N) (st : sst) : option move * score * N * bool :=
    match passes with
    | O => (best, bsc, maxd, true)
    | S p =>
      match pass (fuel + N.to_nat depth) root depth best st with
      | PassFuel => (best, bsc, maxd, true)
      | PassTimeout => (best, bsc, maxd, false)
      | PassDone sc b' st' =>
        match b' with
        | None => (None, sc, depth, false)
        | Some _ =>
          if is_mate_score sc then (b', sc, depth, false)
          else if depth =? 65535 then (b', sc, depth, false)
          else deepen p fuel root (depth + 1) b' sc depth st'
        end
      end
    end.

  Definition search (passes fuel : nat) (root : board) : option move * score * N * bool :=
    deepen passes fuel root 0 None (worst (b_turn root)) 0 {| s_polls := 0; s_evals := 0 |}.
End WithTimeout.
