(* Model of chess-engine/src/score.rs : enum Score, ScoreKind, Ord/PartialOrd/PartialEq.
   Payloads are unbounded N / Z: every u16 mate distance and every i32 value is an
   instance, so theorems proved here cover the whole 16-/32-bit range with no bound. *)
From Coq Require Import NArith ZArith List Bool.
Import ListNotations.

Inductive score : Type :=
| SMin
| SBlackMateIn (n : N)
| SRaw (z : Z)
| SWhiteMateIn (n : N)
| SMax.

(* ScoreKind derives Ord from declaration order *)
Definition kind (s : score) : N :=
  match s with
  | SMin => 0 | SBlackMateIn _ => 1 | SRaw _ => 2 | SWhiteMateIn _ => 3 | SMax => 4
  end%N.

(* impl Ord for Score :: cmp *)
Definition cmp (a b : score) : comparison :=
  match a, b with
  | SBlackMateIn x, SBlackMateIn y => (x ?= y)%N
  | SRaw x, SRaw y => (x ?= y)%Z
  | SWhiteMateIn x, SWhiteMateIn y => (y ?= x)%N
  | _, _ => (kind a ?= kind b)%N
  end.

(* impl PartialOrd :: partial_cmp = Some(cmp) *)
Definition partial_cmp (a b : score) : option comparison := Some (cmp a b).

(* derived PartialEq: structural *)
Definition eqb (a b : score) : bool :=
  match a, b with
  | SMin, SMin => true
  | SBlackMateIn x, SBlackMateIn y => N.eqb x y
  | SRaw x, SRaw y => Z.eqb x y
  | SWhiteMateIn x, SWhiteMateIn y => N.eqb x y
  | SMax, SMax => true
  | _, _ => false
  end.

Definition ltb (a b : score) : bool := match cmp a b with Lt => true | _ => false end.
Definition leb (a b : score) : bool := match cmp a b with Gt => false | _ => true end.
Definition gtb (a b : score) : bool := match cmp a b with Gt => true | _ => false end.

(* core::cmp::Ord::max / min (std: max_by returns the second argument when equal;
   min_by returns the first when equal) *)
Definition smax (a b : score) : score := match cmp a b with Gt => a | _ => b end.
Definition smin (a b : score) : score := match cmp a b with Gt => b | _ => a end.

(* negation used by the colour-symmetry property *)
Definition neg (s : score) : score :=
  match s with
  | SMin => SMax | SMax => SMin
  | SBlackMateIn n => SWhiteMateIn n
  | SWhiteMateIn n => SBlackMateIn n
  | SRaw z => SRaw (- z)
  end.
