(* Model of chess-movegen/src/fen.rs (parse_fen and helpers) and of `impl Display for Board` (the FEN writer).
   Byte strings are `list N`. Every place where the Rust code could panic is an explicit Trap outcome:
   C06 proves Trap is unreachable for every byte string. *)
From Coq Require Import NArith ZArith List Bool.
From Chess Require Import base.Bits base.Types base.BitBoard geom.Geometry model.Board.
Import ListNotations.
Local Open Scope N_scope.

Inductive ws_kind := WsPieces | WsTurn | WsCastleRights | WsEnpassant | WsHalfMoveClock.
Inductive perr :=
| InvalidPiece (byte pos : N) | MissingPiece (pos : N) | MissingWhitespace (k : ws_kind)
| InvalidTurn (byte : N) | MissingTurn | FileOutOfBounds (rank : N)
| InvalidEnpassantE (file rank : N) | MissingEnpassant | MissingCastleRights
| MissingHalfClock | MissingFullClock | TrailingBytes | BoardValidation (e : verr).
Inductive presult := POk (b : board) | PErr (e : perr).

(* parse_piece: Some (inl (color, piece)) | Some (inr dist) | None *)
Definition parse_piece_byte (x : N) : option ((color * piece) + N) :=
  if x =? 112 then Some (inl (Black, Pawn)) else if x =? 110 then Some (inl (Black, Knight))
  else if x =? 98 then Some (inl (Black, Bishop)) else if x =? 114 then Some (inl (Black, Rook))
  else if x =? 113 then Some (inl (Black, Queen)) else if x =? 107 then Some (inl (Black, King))
  else if x =? 80 then Some (inl (White, Pawn)) else if x =? 78 then Some (inl (White, Knight))
  else if x =? 66 then Some (inl (White, Bishop)) else if x =? 82 then Some (inl (White, Rook))
  else if x =? 81 then Some (inl (White, Queen)) else if x =? 75 then Some (inl (White, King))
  else if (49 <=? x) && (x <=? 56) then Some (inr (x - 48)) else None.

(* the placement loop of parse_fen; `file` is the u8 counter, `rank` the current rank (7 first).
   Returns the raw board with its piece hash and the rest of the input. *)
Fixpoint placement (s : list N) (file rank : N) (b : board) : outcome (perr + (board * list N)) :=
  if 8 <=? file then Trap                         (* File::from_u8(file).unwrap() *)
  else
    let pos := mk_sq file rank in
    match s with
    | [] => Ret (inl (MissingPiece pos))
    | x :: rest =>
      let after (file' : N) (b' : board) (k : N -> N -> board -> outcome (perr + (board * list N))) :=
        if file' <=? 7 then k file' rank b'
        else if file' =? 8 then (if rank =? 0 then Ret (inr (b', rest)) else k 0 (rank - 1) b')
        else Ret (inl (FileOutOfBounds rank)) in
      match parse_piece_byte x with
      | Some (inl (c, p)) =>
        let b1 := raw_set_unchecked b c p pos in
        let b2 := set_zob b1 (N.lxor (b_zob b1) (zkey pos p c)) in
        after (file + 1) b2 (fun f r bb => placement rest f r bb)
      | Some (inr d) => after (file + d) b (fun f r bb => placement rest f r bb)
      | None =>
        if x =? 47 then after file b (fun f r bb => placement rest f r bb)      (* '/' : dist 0 *)
        else if x =? 32 then placement rest file rank b                         (* ' ' : continue *)
        else Ret (inl (InvalidPiece x pos))
      end
    end.

Fixpoint skip_spaces (s : list N) : list N :=
  match s with x :: r => if x =? 32 then skip_spaces r else s | [] => s end.
Definition parse_whitespace (s : list N) (k : ws_kind) : perr + list N :=
  match s with x :: r => if x =? 32 then inr (skip_spaces r) else inl (MissingWhitespace k) | [] => inl (MissingWhitespace k) end.
Definition parse_flag (s : list N) (b : N) : bool * list N :=
  match s with x :: r => if x =? b then (true, r) else (false, s) | [] => (false, s) end.

(* parse_number: at most four digits; None if the first byte is not a digit *)
Fixpoint parse_digits (n : nat) (s : list N) (acc : N) : N * list N :=
  match n with
  | O => (acc, s)
  | S n' => match s with
            | d :: r => if (48 <=? d) && (d <=? 57) then parse_digits n' r (acc * 10 + (d - 48)) else (acc, s)
            | [] => (acc, s)
            end
  end.
Definition parse_number (s : list N) : option (N * list N) :=
  match s with
  | d :: _ => if (48 <=? d) && (d <=? 57) then Some (parse_digits 4 s 0) else None
  | [] => None
  end.

Definition is_empty_list {A} (l : list A) : bool := match l with [] => true | _ => false end.

Definition parse_fen_t (s : list N) : outcome presult :=
  match placement s 0 7 empty_board with
  | Trap => Trap
  | Ret (inl e) => Ret (PErr e)
  | Ret (inr (raw, s)) =>
    match parse_whitespace s WsPieces with
    | inl e => Ret (PErr e)
    | inr s =>
      match s with
      | [] => Ret (PErr MissingTurn)
      | t :: s =>
        if negb ((t =? 98) || (t =? 119)) then Ret (PErr (InvalidTurn t))
        else
          let turn := if t =? 98 then Black else White in
          match parse_whitespace s WsTurn with
          | inl e => Ret (PErr e)
          | inr s =>
            let '(wk, s) := parse_flag s 75 in
            let '(wq, s) := parse_flag s 81 in
            let '(bk, s) := parse_flag s 107 in
            let '(bq, s) := parse_flag s 113 in
            let r := 0 in
            let r := if wk then cr_with r KingSide White else r in
            let r := if wq then cr_with r QueenSide White else r in
            let r := if bk then cr_with r KingSide Black else r in
            let r := if bq then cr_with r QueenSide Black else r in
            let dash : option (list N) :=
              if wk || wq || bk || bq then Some s
              else match s with x :: s' => if x =? 45 then Some s' else None | [] => None end in
            match dash with
            | None => Ret (PErr MissingCastleRights)
            | Some s =>
              match parse_whitespace s WsCastleRights with
              | inl e => Ret (PErr e)
              | inr s =>
                let ep : perr + (option N * list N) :=
                  match s with
                  | f :: rk :: s' =>
                    if (97 <=? f) && (f <=? 104) && ((rk =? 51) || (rk =? 54))
                    then (if rk =? (match turn with White => 54 | Black => 51 end)
                          then inr (Some (f - 97), s') else inl (InvalidEnpassantE f rk))
                    else if f =? 45 then inr (None, rk :: s')
                    else inl (InvalidEnpassantE f rk)
                  | [f] => if f =? 45 then inr (None, []) else inl MissingEnpassant
                  | [] => inl MissingEnpassant
                  end in
                match ep with
                | inl e => Ret (PErr e)
                | inr (epv, s) =>
                  match parse_whitespace s WsEnpassant with
                  | inl e => Ret (PErr e)
                  | inr s =>
                    match parse_number s with
                    | None => Ret (PErr MissingHalfClock)
                    | Some (half, s) =>
                      match parse_whitespace s WsHalfMoveClock with
                      | inl e => Ret (PErr e)
                      | inr s =>
                        match parse_number s with
                        | None => Ret (PErr MissingFullClock)
                        | Some (full, s) =>
                          let b := set_meta raw turn r epv half full 0 0 in
                          match validate b with
                          | Some e => Ret (PErr (BoardValidation e))
                          | None => if is_empty_list s then Ret (POk (update_pin_info b)) else Ret (PErr TrailingBytes)
                          end
                        end
                      end
                    end
                  end
                end
              end
            end
          end
      end
    end
  end.

Definition parse_fen (s : list N) : option board :=
  match parse_fen_t s with Ret (POk b) => Some b | _ => None end.

(* ---- writer: impl Display for Board ---- *)
Fixpoint dec_digits (fuel : nat) (n : N) (acc : list N) : list N :=
  match fuel with
  | O => acc
  | S f => let acc' := (48 + n mod 10) :: acc in if n / 10 =? 0 then acc' else dec_digits f (n / 10) acc'
  end.
Definition show_dec (n : N) : list N := dec_digits 20 n [].

Definition piece_char (c : color) (p : piece) : N :=
  let up := match p with Pawn => 80 | Knight => 78 | Bishop => 66 | Rook => 82 | Queen => 81 | King => 75 end in
  match c with White => up | Black => up + 32 end.

Definition flush (missing : N) : list N := if missing =? 0 then [] else show_dec missing.
Definition write_rank (b : board) (r : N) : list N :=
  let '(out, missing) :=
    fold_left (fun (acc : list N * N) f =>
                 let '(o, m) := acc in
                 match raw_get b (mk_sq f r) with
                 | Some (c, p) => (o ++ flush m ++ [piece_char c p], 0)
                 | None => (o, m + 1)
                 end) [0;1;2;3;4;5;6;7] ([], 0) in
  out ++ flush missing ++ (if r =? 0 then [] else [47]).

Definition write_rights (r : N) : list N :=
  (if cr_contains r KingSide White then [75] else []) ++ (if cr_contains r QueenSide White then [81] else [])
  ++ (if cr_contains r KingSide Black then [107] else []) ++ (if cr_contains r QueenSide Black then [113] else [])
  ++ (if r =? 0 then [45] else []).

Definition write_fen (b : board) : list N :=
  flat_map (write_rank b) [7;6;5;4;3;2;1;0]
  ++ (match b_turn b with White => [32; 119; 32] | Black => [32; 98; 32] end)
  ++ write_rights (b_rights b)
  ++ (match b_ep b with
      | Some f => [32; 97 + f; 49 + ep_capture_rank_of (b_turn b); 32]
      | None => [32; 45; 32]
      end)
  ++ show_dec (b_half b) ++ [32] ++ show_dec (b_full b).
