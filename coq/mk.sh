#!/bin/sh
# (re)generate _CoqProject + Makefile.coq for all .v files currently present (generated ones included)
cd "$(dirname "$0")"
{ echo "-Q . Chess"; echo "-arg -w -arg -notation-overridden,-deprecated-hint-without-locality,-deprecated-instance-without-locality"; find . -name '*.v' ! -name 'cases*.v' ! -path './scratch/*' | sed 's|^\./||' | LC_ALL=C sort; } > _CoqProject.new
if ! cmp -s _CoqProject.new _CoqProject 2>/dev/null; then mv _CoqProject.new _CoqProject; coq_makefile -f _CoqProject -o Makefile.coq >/dev/null; else rm _CoqProject.new; fi
[ -f Makefile.coq ] || coq_makefile -f _CoqProject -o Makefile.coq >/dev/null
