extract/Api.vo extract/Api.glob extract/Api.v.beautified extract/Api.required_vo: extract/Api.v model/Score.vo
extract/Api.vio: extract/Api.v model/Score.vio
extract/Api.vos extract/Api.vok extract/Api.required_vos: extract/Api.v model/Score.vos
extract/Extract.vo extract/Extract.glob extract/Extract.v.beautified extract/Extract.required_vo: extract/Extract.v extract/Api.vo
extract/Extract.vio: extract/Extract.v extract/Api.vio
extract/Extract.vos extract/Extract.vok extract/Extract.required_vos: extract/Extract.v extract/Api.vos
model/Score.vo model/Score.glob model/Score.v.beautified model/Score.required_vo: model/Score.v 
model/Score.vio: model/Score.v 
model/Score.vos model/Score.vok model/Score.required_vos: model/Score.v 
proofs/ScoreOrder.vo proofs/ScoreOrder.glob proofs/ScoreOrder.v.beautified proofs/ScoreOrder.required_vo: proofs/ScoreOrder.v model/Score.vo
proofs/ScoreOrder.vio: proofs/ScoreOrder.v model/Score.vio
proofs/ScoreOrder.vos proofs/ScoreOrder.vok proofs/ScoreOrder.required_vos: proofs/ScoreOrder.v model/Score.vos
props/C14.vo props/C14.glob props/C14.v.beautified props/C14.required_vo: props/C14.v model/Score.vo proofs/ScoreOrder.vo
props/C14.vio: props/C14.v model/Score.vio proofs/ScoreOrder.vio
props/C14.vos props/C14.vok props/C14.required_vos: props/C14.v model/Score.vos proofs/ScoreOrder.vos
