base/BitBoard.vo base/BitBoard.glob base/BitBoard.v.beautified base/BitBoard.required_vo: base/BitBoard.v base/Bits.vo
base/BitBoard.vio: base/BitBoard.v base/Bits.vio
base/BitBoard.vos base/BitBoard.vok base/BitBoard.required_vos: base/BitBoard.v base/Bits.vos
base/Bits.vo base/Bits.glob base/Bits.v.beautified base/Bits.required_vo: base/Bits.v 
base/Bits.vio: base/Bits.v 
base/Bits.vos base/Bits.vok base/Bits.required_vos: base/Bits.v 
base/Sweep.vo base/Sweep.glob base/Sweep.v.beautified base/Sweep.required_vo: base/Sweep.v base/Bits.vo
base/Sweep.vio: base/Sweep.v base/Bits.vio
base/Sweep.vos base/Sweep.vok base/Sweep.required_vos: base/Sweep.v base/Bits.vos
base/Tree.vo base/Tree.glob base/Tree.v.beautified base/Tree.required_vo: base/Tree.v 
base/Tree.vio: base/Tree.v 
base/Tree.vos base/Tree.vok base/Tree.required_vos: base/Tree.v 
base/Types.vo base/Types.glob base/Types.v.beautified base/Types.required_vo: base/Types.v 
base/Types.vio: base/Types.v 
base/Types.vos base/Types.vok base/Types.required_vos: base/Types.v 
extract/Api.vo extract/Api.glob extract/Api.v.beautified extract/Api.required_vo: extract/Api.v gen/T_zobrist.vo base/Bits.vo base/Types.vo base/BitBoard.vo geom/Geometry.vo geom/GenFns.vo geom/Lookup.vo model/Score.vo model/Abi.vo model/Text.vo model/Tracing.vo spec/Rules.vo model/Board.vo model/MoveGen.vo model/Apply.vo model/Fen.vo model/Search.vo model/Bot.vo
extract/Api.vio: extract/Api.v gen/T_zobrist.vio base/Bits.vio base/Types.vio base/BitBoard.vio geom/Geometry.vio geom/GenFns.vio geom/Lookup.vio model/Score.vio model/Abi.vio model/Text.vio model/Tracing.vio spec/Rules.vio model/Board.vio model/MoveGen.vio model/Apply.vio model/Fen.vio model/Search.vio model/Bot.vio
extract/Api.vos extract/Api.vok extract/Api.required_vos: extract/Api.v gen/T_zobrist.vos base/Bits.vos base/Types.vos base/BitBoard.vos geom/Geometry.vos geom/GenFns.vos geom/Lookup.vos model/Score.vos model/Abi.vos model/Text.vos model/Tracing.vos spec/Rules.vos model/Board.vos model/MoveGen.vos model/Apply.vos model/Fen.vos model/Search.vos model/Bot.vos
extract/Extract.vo extract/Extract.glob extract/Extract.v.beautified extract/Extract.required_vo: extract/Extract.v extract/Api.vo
extract/Extract.vio: extract/Extract.v extract/Api.vio
extract/Extract.vos extract/Extract.vok extract/Extract.required_vos: extract/Extract.v extract/Api.vos
gen/T_between.vo gen/T_between.glob gen/T_between.v.beautified gen/T_between.required_vo: gen/T_between.v 
gen/T_between.vio: gen/T_between.v 
gen/T_between.vos gen/T_between.vok gen/T_between.required_vos: gen/T_between.v 
gen/T_bishop_moves.vo gen/T_bishop_moves.glob gen/T_bishop_moves.v.beautified gen/T_bishop_moves.required_vo: gen/T_bishop_moves.v base/Tree.vo
gen/T_bishop_moves.vio: gen/T_bishop_moves.v base/Tree.vio
gen/T_bishop_moves.vos gen/T_bishop_moves.vok gen/T_bishop_moves.required_vos: gen/T_bishop_moves.v base/Tree.vos
gen/T_bishop_rays.vo gen/T_bishop_rays.glob gen/T_bishop_rays.v.beautified gen/T_bishop_rays.required_vo: gen/T_bishop_rays.v 
gen/T_bishop_rays.vio: gen/T_bishop_rays.v 
gen/T_bishop_rays.vos gen/T_bishop_rays.vok gen/T_bishop_rays.required_vos: gen/T_bishop_rays.v 
gen/T_book.vo gen/T_book.glob gen/T_book.v.beautified gen/T_book.required_vo: gen/T_book.v base/Tree.vo
gen/T_book.vio: gen/T_book.v base/Tree.vio
gen/T_book.vos gen/T_book.vok gen/T_book.required_vos: gen/T_book.v base/Tree.vos
gen/T_king.vo gen/T_king.glob gen/T_king.v.beautified gen/T_king.required_vo: gen/T_king.v 
gen/T_king.vio: gen/T_king.v 
gen/T_king.vos gen/T_king.vok gen/T_king.required_vos: gen/T_king.v 
gen/T_knight.vo gen/T_knight.glob gen/T_knight.v.beautified gen/T_knight.required_vo: gen/T_knight.v 
gen/T_knight.vio: gen/T_knight.v 
gen/T_knight.vos gen/T_knight.vok gen/T_knight.required_vos: gen/T_knight.v 
gen/T_line.vo gen/T_line.glob gen/T_line.v.beautified gen/T_line.required_vo: gen/T_line.v 
gen/T_line.vio: gen/T_line.v 
gen/T_line.vos gen/T_line.vok gen/T_line.required_vos: gen/T_line.v 
gen/T_pawn.vo gen/T_pawn.glob gen/T_pawn.v.beautified gen/T_pawn.required_vo: gen/T_pawn.v 
gen/T_pawn.vio: gen/T_pawn.v 
gen/T_pawn.vos gen/T_pawn.vok gen/T_pawn.required_vos: gen/T_pawn.v 
gen/T_rook_moves.vo gen/T_rook_moves.glob gen/T_rook_moves.v.beautified gen/T_rook_moves.required_vo: gen/T_rook_moves.v base/Tree.vo
gen/T_rook_moves.vio: gen/T_rook_moves.v base/Tree.vio
gen/T_rook_moves.vos gen/T_rook_moves.vok gen/T_rook_moves.required_vos: gen/T_rook_moves.v base/Tree.vos
gen/T_rook_rays.vo gen/T_rook_rays.glob gen/T_rook_rays.v.beautified gen/T_rook_rays.required_vo: gen/T_rook_rays.v 
gen/T_rook_rays.vio: gen/T_rook_rays.v 
gen/T_rook_rays.vos gen/T_rook_rays.vok gen/T_rook_rays.required_vos: gen/T_rook_rays.v 
gen/T_zobrist.vo gen/T_zobrist.glob gen/T_zobrist.v.beautified gen/T_zobrist.required_vo: gen/T_zobrist.v 
gen/T_zobrist.vio: gen/T_zobrist.v 
gen/T_zobrist.vos gen/T_zobrist.vok gen/T_zobrist.required_vos: gen/T_zobrist.v 
geom/GenFns.vo geom/GenFns.glob geom/GenFns.v.beautified geom/GenFns.required_vo: geom/GenFns.v base/Bits.vo base/Types.vo base/BitBoard.vo
geom/GenFns.vio: geom/GenFns.v base/Bits.vio base/Types.vio base/BitBoard.vio
geom/GenFns.vos geom/GenFns.vok geom/GenFns.required_vos: geom/GenFns.v base/Bits.vos base/Types.vos base/BitBoard.vos
geom/Geometry.vo geom/Geometry.glob geom/Geometry.v.beautified geom/Geometry.required_vo: geom/Geometry.v base/Bits.vo base/Types.vo
geom/Geometry.vio: geom/Geometry.v base/Bits.vio base/Types.vio
geom/Geometry.vos geom/Geometry.vok geom/Geometry.required_vos: geom/Geometry.v base/Bits.vos base/Types.vos
geom/Lookup.vo geom/Lookup.glob geom/Lookup.v.beautified geom/Lookup.required_vo: geom/Lookup.v base/Bits.vo base/Types.vo base/Tree.vo base/BitBoard.vo gen/T_knight.vo gen/T_king.vo gen/T_pawn.vo gen/T_rook_rays.vo gen/T_bishop_rays.vo gen/T_between.vo gen/T_line.vo gen/T_rook_moves.vo gen/T_bishop_moves.vo gen/T_zobrist.vo
geom/Lookup.vio: geom/Lookup.v base/Bits.vio base/Types.vio base/Tree.vio base/BitBoard.vio gen/T_knight.vio gen/T_king.vio gen/T_pawn.vio gen/T_rook_rays.vio gen/T_bishop_rays.vio gen/T_between.vio gen/T_line.vio gen/T_rook_moves.vio gen/T_bishop_moves.vio gen/T_zobrist.vio
geom/Lookup.vos geom/Lookup.vok geom/Lookup.required_vos: geom/Lookup.v base/Bits.vos base/Types.vos base/Tree.vos base/BitBoard.vos gen/T_knight.vos gen/T_king.vos gen/T_pawn.vos gen/T_rook_rays.vos gen/T_bishop_rays.vos gen/T_between.vos gen/T_line.vos gen/T_rook_moves.vos gen/T_bishop_moves.vos gen/T_zobrist.vos
geom/Magic.vo geom/Magic.glob geom/Magic.v.beautified geom/Magic.required_vo: geom/Magic.v base/Bits.vo base/Types.vo base/Tree.vo geom/Geometry.vo geom/Lookup.vo gen/T_rook_moves.vo gen/T_bishop_moves.vo
geom/Magic.vio: geom/Magic.v base/Bits.vio base/Types.vio base/Tree.vio geom/Geometry.vio geom/Lookup.vio gen/T_rook_moves.vio gen/T_bishop_moves.vio
geom/Magic.vos geom/Magic.vok geom/Magic.required_vos: geom/Magic.v base/Bits.vos base/Types.vos base/Tree.vos geom/Geometry.vos geom/Lookup.vos gen/T_rook_moves.vos gen/T_bishop_moves.vos
model/Abi.vo model/Abi.glob model/Abi.v.beautified model/Abi.required_vo: model/Abi.v model/Score.vo
model/Abi.vio: model/Abi.v model/Score.vio
model/Abi.vos model/Abi.vok model/Abi.required_vos: model/Abi.v model/Score.vos
model/Apply.vo model/Apply.glob model/Apply.v.beautified model/Apply.required_vo: model/Apply.v base/Bits.vo base/Types.vo base/BitBoard.vo geom/Geometry.vo model/Board.vo model/MoveGen.vo
model/Apply.vio: model/Apply.v base/Bits.vio base/Types.vio base/BitBoard.vio geom/Geometry.vio model/Board.vio model/MoveGen.vio
model/Apply.vos model/Apply.vok model/Apply.required_vos: model/Apply.v base/Bits.vos base/Types.vos base/BitBoard.vos geom/Geometry.vos model/Board.vos model/MoveGen.vos
model/Board.vo model/Board.glob model/Board.v.beautified model/Board.required_vo: model/Board.v base/Bits.vo base/Types.vo base/BitBoard.vo geom/Geometry.vo gen/T_zobrist.vo spec/Rules.vo
model/Board.vio: model/Board.v base/Bits.vio base/Types.vio base/BitBoard.vio geom/Geometry.vio gen/T_zobrist.vio spec/Rules.vio
model/Board.vos model/Board.vok model/Board.required_vos: model/Board.v base/Bits.vos base/Types.vos base/BitBoard.vos geom/Geometry.vos gen/T_zobrist.vos spec/Rules.vos
model/Book.vo model/Book.glob model/Book.v.beautified model/Book.required_vo: model/Book.v base/Bits.vo base/Types.vo base/Tree.vo gen/T_book.vo spec/Rules.vo
model/Book.vio: model/Book.v base/Bits.vio base/Types.vio base/Tree.vio gen/T_book.vio spec/Rules.vio
model/Book.vos model/Book.vok model/Book.required_vos: model/Book.v base/Bits.vos base/Types.vos base/Tree.vos gen/T_book.vos spec/Rules.vos
model/Bot.vo model/Bot.glob model/Bot.v.beautified model/Bot.required_vo: model/Bot.v base/Bits.vo base/Types.vo model/Score.vo model/Board.vo model/MoveGen.vo model/Apply.vo model/Search.vo
model/Bot.vio: model/Bot.v base/Bits.vio base/Types.vio model/Score.vio model/Board.vio model/MoveGen.vio model/Apply.vio model/Search.vio
model/Bot.vos model/Bot.vok model/Bot.required_vos: model/Bot.v base/Bits.vos base/Types.vos model/Score.vos model/Board.vos model/MoveGen.vos model/Apply.vos model/Search.vos
model/Fen.vo model/Fen.glob model/Fen.v.beautified model/Fen.required_vo: model/Fen.v base/Bits.vo base/Types.vo base/BitBoard.vo geom/Geometry.vo model/Board.vo
model/Fen.vio: model/Fen.v base/Bits.vio base/Types.vio base/BitBoard.vio geom/Geometry.vio model/Board.vio
model/Fen.vos model/Fen.vok model/Fen.required_vos: model/Fen.v base/Bits.vos base/Types.vos base/BitBoard.vos geom/Geometry.vos model/Board.vos
model/MoveGen.vo model/MoveGen.glob model/MoveGen.v.beautified model/MoveGen.required_vo: model/MoveGen.v base/Bits.vo base/Types.vo base/BitBoard.vo geom/Geometry.vo model/Board.vo
model/MoveGen.vio: model/MoveGen.v base/Bits.vio base/Types.vio base/BitBoard.vio geom/Geometry.vio model/Board.vio
model/MoveGen.vos model/MoveGen.vok model/MoveGen.required_vos: model/MoveGen.v base/Bits.vos base/Types.vos base/BitBoard.vos geom/Geometry.vos model/Board.vos
model/Score.vo model/Score.glob model/Score.v.beautified model/Score.required_vo: model/Score.v 
model/Score.vio: model/Score.v 
model/Score.vos model/Score.vok model/Score.required_vos: model/Score.v 
model/Search.vo model/Search.glob model/Search.v.beautified model/Search.required_vo: model/Search.v base/Bits.vo base/Types.vo base/BitBoard.vo geom/Geometry.vo model/Score.vo model/Board.vo model/MoveGen.vo model/Apply.vo
model/Search.vio: model/Search.v base/Bits.vio base/Types.vio base/BitBoard.vio geom/Geometry.vio model/Score.vio model/Board.vio model/MoveGen.vio model/Apply.vio
model/Search.vos model/Search.vok model/Search.required_vos: model/Search.v base/Bits.vos base/Types.vos base/BitBoard.vos geom/Geometry.vos model/Score.vos model/Board.vos model/MoveGen.vos model/Apply.vos
model/Text.vo model/Text.glob model/Text.v.beautified model/Text.required_vo: model/Text.v 
model/Text.vio: model/Text.v 
model/Text.vos model/Text.vok model/Text.required_vos: model/Text.v 
model/Tracing.vo model/Tracing.glob model/Tracing.v.beautified model/Tracing.required_vo: model/Tracing.v 
model/Tracing.vio: model/Tracing.v 
model/Tracing.vos model/Tracing.vok model/Tracing.required_vos: model/Tracing.v 
proofs/AbiFacts.vo proofs/AbiFacts.glob proofs/AbiFacts.v.beautified proofs/AbiFacts.required_vo: proofs/AbiFacts.v model/Score.vo model/Abi.vo
proofs/AbiFacts.vio: proofs/AbiFacts.v model/Score.vio model/Abi.vio
proofs/AbiFacts.vos proofs/AbiFacts.vok proofs/AbiFacts.required_vos: proofs/AbiFacts.v model/Score.vos model/Abi.vos
proofs/ApplyFacts.vo proofs/ApplyFacts.glob proofs/ApplyFacts.v.beautified proofs/ApplyFacts.required_vo: proofs/ApplyFacts.v base/Bits.vo base/Types.vo base/BitBoard.vo base/Sweep.vo geom/Geometry.vo model/Board.vo model/MoveGen.vo model/Apply.vo proofs/BitsFacts.vo proofs/BitBoardFacts.vo proofs/SiteFacts.vo proofs/BridgeFacts.vo proofs/HashFacts.vo spec/Rules.vo
proofs/ApplyFacts.vio: proofs/ApplyFacts.v base/Bits.vio base/Types.vio base/BitBoard.vio base/Sweep.vio geom/Geometry.vio model/Board.vio model/MoveGen.vio model/Apply.vio proofs/BitsFacts.vio proofs/BitBoardFacts.vio proofs/SiteFacts.vio proofs/BridgeFacts.vio proofs/HashFacts.vio spec/Rules.vio
proofs/ApplyFacts.vos proofs/ApplyFacts.vok proofs/ApplyFacts.required_vos: proofs/ApplyFacts.v base/Bits.vos base/Types.vos base/BitBoard.vos base/Sweep.vos geom/Geometry.vos model/Board.vos model/MoveGen.vos model/Apply.vos proofs/BitsFacts.vos proofs/BitBoardFacts.vos proofs/SiteFacts.vos proofs/BridgeFacts.vos proofs/HashFacts.vos spec/Rules.vos
proofs/AttackDefs.vo proofs/AttackDefs.glob proofs/AttackDefs.v.beautified proofs/AttackDefs.required_vo: proofs/AttackDefs.v base/Bits.vo base/Types.vo base/BitBoard.vo geom/Geometry.vo model/Board.vo model/MoveGen.vo model/Apply.vo spec/Rules.vo spec/IterSpec.vo proofs/HashFacts.vo proofs/InvFacts.vo proofs/LegalDefs.vo
proofs/AttackDefs.vio: proofs/AttackDefs.v base/Bits.vio base/Types.vio base/BitBoard.vio geom/Geometry.vio model/Board.vio model/MoveGen.vio model/Apply.vio spec/Rules.vio spec/IterSpec.vio proofs/HashFacts.vio proofs/InvFacts.vio proofs/LegalDefs.vio
proofs/AttackDefs.vos proofs/AttackDefs.vok proofs/AttackDefs.required_vos: proofs/AttackDefs.v base/Bits.vos base/Types.vos base/BitBoard.vos geom/Geometry.vos model/Board.vos model/MoveGen.vos model/Apply.vos spec/Rules.vos spec/IterSpec.vos proofs/HashFacts.vos proofs/InvFacts.vos proofs/LegalDefs.vos
proofs/AttackFacts.vo proofs/AttackFacts.glob proofs/AttackFacts.v.beautified proofs/AttackFacts.required_vo: proofs/AttackFacts.v base/Bits.vo base/Types.vo base/BitBoard.vo base/Sweep.vo geom/Geometry.vo model/Board.vo model/MoveGen.vo model/Apply.vo spec/Rules.vo proofs/BitsFacts.vo proofs/BitBoardFacts.vo proofs/GeomSweeps.vo proofs/SiteFacts.vo proofs/BridgeFacts.vo spec/IterSpec.vo proofs/HashFacts.vo proofs/InvFacts.vo proofs/LegalDefs.vo proofs/AttackDefs.vo
proofs/AttackFacts.vio: proofs/AttackFacts.v base/Bits.vio base/Types.vio base/BitBoard.vio base/Sweep.vio geom/Geometry.vio model/Board.vio model/MoveGen.vio model/Apply.vio spec/Rules.vio proofs/BitsFacts.vio proofs/BitBoardFacts.vio proofs/GeomSweeps.vio proofs/SiteFacts.vio proofs/BridgeFacts.vio spec/IterSpec.vio proofs/HashFacts.vio proofs/InvFacts.vio proofs/LegalDefs.vio proofs/AttackDefs.vio
proofs/AttackFacts.vos proofs/AttackFacts.vok proofs/AttackFacts.required_vos: proofs/AttackFacts.v base/Bits.vos base/Types.vos base/BitBoard.vos base/Sweep.vos geom/Geometry.vos model/Board.vos model/MoveGen.vos model/Apply.vos spec/Rules.vos proofs/BitsFacts.vos proofs/BitBoardFacts.vos proofs/GeomSweeps.vos proofs/SiteFacts.vos proofs/BridgeFacts.vos spec/IterSpec.vos proofs/HashFacts.vos proofs/InvFacts.vos proofs/LegalDefs.vos proofs/AttackDefs.vos
proofs/BitBoardFacts.vo proofs/BitBoardFacts.glob proofs/BitBoardFacts.v.beautified proofs/BitBoardFacts.required_vo: proofs/BitBoardFacts.v base/Bits.vo base/BitBoard.vo proofs/BitsFacts.vo
proofs/BitBoardFacts.vio: proofs/BitBoardFacts.v base/Bits.vio base/BitBoard.vio proofs/BitsFacts.vio
proofs/BitBoardFacts.vos proofs/BitBoardFacts.vok proofs/BitBoardFacts.required_vos: proofs/BitBoardFacts.v base/Bits.vos base/BitBoard.vos proofs/BitsFacts.vos
proofs/BitsFacts.vo proofs/BitsFacts.glob proofs/BitsFacts.v.beautified proofs/BitsFacts.required_vo: proofs/BitsFacts.v base/Bits.vo
proofs/BitsFacts.vio: proofs/BitsFacts.v base/Bits.vio
proofs/BitsFacts.vos proofs/BitsFacts.vok proofs/BitsFacts.required_vos: proofs/BitsFacts.v base/Bits.vos
proofs/BookFacts.vo proofs/BookFacts.glob proofs/BookFacts.v.beautified proofs/BookFacts.required_vo: proofs/BookFacts.v base/Bits.vo base/Types.vo gen/T_book.vo spec/Rules.vo model/Book.vo proofs/BookSweep.vo
proofs/BookFacts.vio: proofs/BookFacts.v base/Bits.vio base/Types.vio gen/T_book.vio spec/Rules.vio model/Book.vio proofs/BookSweep.vio
proofs/BookFacts.vos proofs/BookFacts.vok proofs/BookFacts.required_vos: proofs/BookFacts.v base/Bits.vos base/Types.vos gen/T_book.vos spec/Rules.vos model/Book.vos proofs/BookSweep.vos
proofs/BookSweep.vo proofs/BookSweep.glob proofs/BookSweep.v.beautified proofs/BookSweep.required_vo: proofs/BookSweep.v base/Bits.vo base/Types.vo spec/Rules.vo model/Book.vo
proofs/BookSweep.vio: proofs/BookSweep.v base/Bits.vio base/Types.vio spec/Rules.vio model/Book.vio
proofs/BookSweep.vos proofs/BookSweep.vok proofs/BookSweep.required_vos: proofs/BookSweep.v base/Bits.vos base/Types.vos spec/Rules.vos model/Book.vos
proofs/BotFacts.vo proofs/BotFacts.glob proofs/BotFacts.v.beautified proofs/BotFacts.required_vo: proofs/BotFacts.v base/Types.vo model/Board.vo model/Search.vo proofs/ZobristFacts.vo
proofs/BotFacts.vio: proofs/BotFacts.v base/Types.vio model/Board.vio model/Search.vio proofs/ZobristFacts.vio
proofs/BotFacts.vos proofs/BotFacts.vok proofs/BotFacts.required_vos: proofs/BotFacts.v base/Types.vos model/Board.vos model/Search.vos proofs/ZobristFacts.vos
proofs/BridgeFacts.vo proofs/BridgeFacts.glob proofs/BridgeFacts.v.beautified proofs/BridgeFacts.required_vo: proofs/BridgeFacts.v base/Bits.vo base/Types.vo base/BitBoard.vo base/Sweep.vo geom/Geometry.vo model/Board.vo spec/Rules.vo proofs/BitsFacts.vo proofs/BitBoardFacts.vo
proofs/BridgeFacts.vio: proofs/BridgeFacts.v base/Bits.vio base/Types.vio base/BitBoard.vio base/Sweep.vio geom/Geometry.vio model/Board.vio spec/Rules.vio proofs/BitsFacts.vio proofs/BitBoardFacts.vio
proofs/BridgeFacts.vos proofs/BridgeFacts.vok proofs/BridgeFacts.required_vos: proofs/BridgeFacts.v base/Bits.vos base/Types.vos base/BitBoard.vos base/Sweep.vos geom/Geometry.vos model/Board.vos spec/Rules.vos proofs/BitsFacts.vos proofs/BitBoardFacts.vos
proofs/Combine.vo proofs/Combine.glob proofs/Combine.v.beautified proofs/Combine.required_vo: proofs/Combine.v base/Bits.vo base/Types.vo base/BitBoard.vo model/Board.vo model/MoveGen.vo model/Apply.vo model/Fen.vo model/Search.vo proofs/HashFacts.vo proofs/BotFacts.vo proofs/InvFacts.vo
proofs/Combine.vio: proofs/Combine.v base/Bits.vio base/Types.vio base/BitBoard.vio model/Board.vio model/MoveGen.vio model/Apply.vio model/Fen.vio model/Search.vio proofs/HashFacts.vio proofs/BotFacts.vio proofs/InvFacts.vio
proofs/Combine.vos proofs/Combine.vok proofs/Combine.required_vos: proofs/Combine.v base/Bits.vos base/Types.vos base/BitBoard.vos model/Board.vos model/MoveGen.vos model/Apply.vos model/Fen.vos model/Search.vos proofs/HashFacts.vos proofs/BotFacts.vos proofs/InvFacts.vos
proofs/CoreFacts.vo proofs/CoreFacts.glob proofs/CoreFacts.v.beautified proofs/CoreFacts.required_vo: proofs/CoreFacts.v base/Bits.vo base/Types.vo base/BitBoard.vo model/Board.vo model/MoveGen.vo model/Apply.vo model/Fen.vo spec/Rules.vo
proofs/CoreFacts.vio: proofs/CoreFacts.v base/Bits.vio base/Types.vio base/BitBoard.vio model/Board.vio model/MoveGen.vio model/Apply.vio model/Fen.vio spec/Rules.vio
proofs/CoreFacts.vos proofs/CoreFacts.vok proofs/CoreFacts.required_vos: proofs/CoreFacts.v base/Bits.vos base/Types.vos base/BitBoard.vos model/Board.vos model/MoveGen.vos model/Apply.vos model/Fen.vos spec/Rules.vos
proofs/ExactFacts.vo proofs/ExactFacts.glob proofs/ExactFacts.v.beautified proofs/ExactFacts.required_vo: proofs/ExactFacts.v base/Bits.vo base/Types.vo base/BitBoard.vo base/Sweep.vo geom/Geometry.vo model/Board.vo model/MoveGen.vo model/Apply.vo spec/Rules.vo proofs/BitsFacts.vo proofs/BitBoardFacts.vo spec/IterSpec.vo proofs/IterFacts.vo proofs/HashFacts.vo proofs/InvFacts.vo proofs/BridgeFacts.vo proofs/ApplyFacts.vo proofs/SiteFacts.vo proofs/LegalDefs.vo proofs/AttackDefs.vo
proofs/ExactFacts.vio: proofs/ExactFacts.v base/Bits.vio base/Types.vio base/BitBoard.vio base/Sweep.vio geom/Geometry.vio model/Board.vio model/MoveGen.vio model/Apply.vio spec/Rules.vio proofs/BitsFacts.vio proofs/BitBoardFacts.vio spec/IterSpec.vio proofs/IterFacts.vio proofs/HashFacts.vio proofs/InvFacts.vio proofs/BridgeFacts.vio proofs/ApplyFacts.vio proofs/SiteFacts.vio proofs/LegalDefs.vio proofs/AttackDefs.vio
proofs/ExactFacts.vos proofs/ExactFacts.vok proofs/ExactFacts.required_vos: proofs/ExactFacts.v base/Bits.vos base/Types.vos base/BitBoard.vos base/Sweep.vos geom/Geometry.vos model/Board.vos model/MoveGen.vos model/Apply.vos spec/Rules.vos proofs/BitsFacts.vos proofs/BitBoardFacts.vos spec/IterSpec.vos proofs/IterFacts.vos proofs/HashFacts.vos proofs/InvFacts.vos proofs/BridgeFacts.vos proofs/ApplyFacts.vos proofs/SiteFacts.vos proofs/LegalDefs.vos proofs/AttackDefs.vos
proofs/FenFacts.vo proofs/FenFacts.glob proofs/FenFacts.v.beautified proofs/FenFacts.required_vo: proofs/FenFacts.v base/Bits.vo base/Types.vo base/BitBoard.vo geom/Geometry.vo model/Board.vo model/Fen.vo proofs/BitsFacts.vo
proofs/FenFacts.vio: proofs/FenFacts.v base/Bits.vio base/Types.vio base/BitBoard.vio geom/Geometry.vio model/Board.vio model/Fen.vio proofs/BitsFacts.vio
proofs/FenFacts.vos proofs/FenFacts.vok proofs/FenFacts.required_vos: proofs/FenFacts.v base/Bits.vos base/Types.vos base/BitBoard.vos geom/Geometry.vos model/Board.vos model/Fen.vos proofs/BitsFacts.vos
proofs/FenRoundTrip.vo proofs/FenRoundTrip.glob proofs/FenRoundTrip.v.beautified proofs/FenRoundTrip.required_vo: proofs/FenRoundTrip.v base/Bits.vo base/Types.vo base/BitBoard.vo geom/Geometry.vo model/Board.vo model/Fen.vo proofs/BitsFacts.vo proofs/BitBoardFacts.vo proofs/FenFacts.vo
proofs/FenRoundTrip.vio: proofs/FenRoundTrip.v base/Bits.vio base/Types.vio base/BitBoard.vio geom/Geometry.vio model/Board.vio model/Fen.vio proofs/BitsFacts.vio proofs/BitBoardFacts.vio proofs/FenFacts.vio
proofs/FenRoundTrip.vos proofs/FenRoundTrip.vok proofs/FenRoundTrip.required_vos: proofs/FenRoundTrip.v base/Bits.vos base/Types.vos base/BitBoard.vos geom/Geometry.vos model/Board.vos model/Fen.vos proofs/BitsFacts.vos proofs/BitBoardFacts.vos proofs/FenFacts.vos
proofs/GameTreeFacts.vo proofs/GameTreeFacts.glob proofs/GameTreeFacts.v.beautified proofs/GameTreeFacts.required_vo: proofs/GameTreeFacts.v model/Score.vo proofs/ScoreOrder.vo spec/GameTree.vo
proofs/GameTreeFacts.vio: proofs/GameTreeFacts.v model/Score.vio proofs/ScoreOrder.vio spec/GameTree.vio
proofs/GameTreeFacts.vos proofs/GameTreeFacts.vok proofs/GameTreeFacts.required_vos: proofs/GameTreeFacts.v model/Score.vos proofs/ScoreOrder.vos spec/GameTree.vos
proofs/GeomSweeps.vo proofs/GeomSweeps.glob proofs/GeomSweeps.v.beautified proofs/GeomSweeps.required_vo: proofs/GeomSweeps.v base/Bits.vo base/Types.vo base/BitBoard.vo base/Sweep.vo geom/Geometry.vo geom/Lookup.vo geom/GenFns.vo
proofs/GeomSweeps.vio: proofs/GeomSweeps.v base/Bits.vio base/Types.vio base/BitBoard.vio base/Sweep.vio geom/Geometry.vio geom/Lookup.vio geom/GenFns.vio
proofs/GeomSweeps.vos proofs/GeomSweeps.vok proofs/GeomSweeps.required_vos: proofs/GeomSweeps.v base/Bits.vos base/Types.vos base/BitBoard.vos base/Sweep.vos geom/Geometry.vos geom/Lookup.vos geom/GenFns.vos
proofs/HashFacts.vo proofs/HashFacts.glob proofs/HashFacts.v.beautified proofs/HashFacts.required_vo: proofs/HashFacts.v base/Bits.vo base/Types.vo base/BitBoard.vo geom/Geometry.vo model/Board.vo model/Fen.vo model/MoveGen.vo model/Apply.vo proofs/BitsFacts.vo proofs/BitBoardFacts.vo proofs/ZobristFacts.vo proofs/FenFacts.vo
proofs/HashFacts.vio: proofs/HashFacts.v base/Bits.vio base/Types.vio base/BitBoard.vio geom/Geometry.vio model/Board.vio model/Fen.vio model/MoveGen.vio model/Apply.vio proofs/BitsFacts.vio proofs/BitBoardFacts.vio proofs/ZobristFacts.vio proofs/FenFacts.vio
proofs/HashFacts.vos proofs/HashFacts.vok proofs/HashFacts.required_vos: proofs/HashFacts.v base/Bits.vos base/Types.vos base/BitBoard.vos geom/Geometry.vos model/Board.vos model/Fen.vos model/MoveGen.vos model/Apply.vos proofs/BitsFacts.vos proofs/BitBoardFacts.vos proofs/ZobristFacts.vos proofs/FenFacts.vos
proofs/InvFacts.vo proofs/InvFacts.glob proofs/InvFacts.v.beautified proofs/InvFacts.required_vo: proofs/InvFacts.v base/Bits.vo base/Types.vo base/BitBoard.vo base/Sweep.vo geom/Geometry.vo model/Board.vo model/Fen.vo model/MoveGen.vo model/Apply.vo proofs/BitsFacts.vo proofs/BitBoardFacts.vo proofs/GeomSweeps.vo proofs/PawnFacts.vo proofs/FenFacts.vo spec/IterSpec.vo proofs/IterFacts.vo proofs/SiteFacts.vo proofs/CoreFacts.vo proofs/HashFacts.vo
proofs/InvFacts.vio: proofs/InvFacts.v base/Bits.vio base/Types.vio base/BitBoard.vio base/Sweep.vio geom/Geometry.vio model/Board.vio model/Fen.vio model/MoveGen.vio model/Apply.vio proofs/BitsFacts.vio proofs/BitBoardFacts.vio proofs/GeomSweeps.vio proofs/PawnFacts.vio proofs/FenFacts.vio spec/IterSpec.vio proofs/IterFacts.vio proofs/SiteFacts.vio proofs/CoreFacts.vio proofs/HashFacts.vio
proofs/InvFacts.vos proofs/InvFacts.vok proofs/InvFacts.required_vos: proofs/InvFacts.v base/Bits.vos base/Types.vos base/BitBoard.vos base/Sweep.vos geom/Geometry.vos model/Board.vos model/Fen.vos model/MoveGen.vos model/Apply.vos proofs/BitsFacts.vos proofs/BitBoardFacts.vos proofs/GeomSweeps.vos proofs/PawnFacts.vos proofs/FenFacts.vos spec/IterSpec.vos proofs/IterFacts.vos proofs/SiteFacts.vos proofs/CoreFacts.vos proofs/HashFacts.vos
proofs/IterFacts.vo proofs/IterFacts.glob proofs/IterFacts.v.beautified proofs/IterFacts.required_vo: proofs/IterFacts.v spec/Rules.vo base/Bits.vo base/Types.vo base/BitBoard.vo geom/Geometry.vo model/Board.vo model/MoveGen.vo proofs/BitsFacts.vo proofs/BitBoardFacts.vo spec/IterSpec.vo
proofs/IterFacts.vio: proofs/IterFacts.v spec/Rules.vio base/Bits.vio base/Types.vio base/BitBoard.vio geom/Geometry.vio model/Board.vio model/MoveGen.vio proofs/BitsFacts.vio proofs/BitBoardFacts.vio spec/IterSpec.vio
proofs/IterFacts.vos proofs/IterFacts.vok proofs/IterFacts.required_vos: proofs/IterFacts.v spec/Rules.vos base/Bits.vos base/Types.vos base/BitBoard.vos geom/Geometry.vos model/Board.vos model/MoveGen.vos proofs/BitsFacts.vos proofs/BitBoardFacts.vos spec/IterSpec.vos
proofs/KingFacts.vo proofs/KingFacts.glob proofs/KingFacts.v.beautified proofs/KingFacts.required_vo: proofs/KingFacts.v base/Bits.vo base/Types.vo base/BitBoard.vo base/Sweep.vo geom/Geometry.vo model/Board.vo model/MoveGen.vo model/Apply.vo spec/Rules.vo proofs/BitsFacts.vo proofs/BitBoardFacts.vo proofs/BridgeFacts.vo spec/IterSpec.vo proofs/HashFacts.vo proofs/InvFacts.vo proofs/LegalDefs.vo proofs/AttackDefs.vo
proofs/KingFacts.vio: proofs/KingFacts.v base/Bits.vio base/Types.vio base/BitBoard.vio base/Sweep.vio geom/Geometry.vio model/Board.vio model/MoveGen.vio model/Apply.vio spec/Rules.vio proofs/BitsFacts.vio proofs/BitBoardFacts.vio proofs/BridgeFacts.vio spec/IterSpec.vio proofs/HashFacts.vio proofs/InvFacts.vio proofs/LegalDefs.vio proofs/AttackDefs.vio
proofs/KingFacts.vos proofs/KingFacts.vok proofs/KingFacts.required_vos: proofs/KingFacts.v base/Bits.vos base/Types.vos base/BitBoard.vos base/Sweep.vos geom/Geometry.vos model/Board.vos model/MoveGen.vos model/Apply.vos spec/Rules.vos proofs/BitsFacts.vos proofs/BitBoardFacts.vos proofs/BridgeFacts.vos spec/IterSpec.vos proofs/HashFacts.vos proofs/InvFacts.vos proofs/LegalDefs.vos proofs/AttackDefs.vos
proofs/LegalDefs.vo proofs/LegalDefs.glob proofs/LegalDefs.v.beautified proofs/LegalDefs.required_vo: proofs/LegalDefs.v base/Bits.vo base/Types.vo base/BitBoard.vo geom/Geometry.vo model/Board.vo model/MoveGen.vo model/Apply.vo spec/Rules.vo spec/IterSpec.vo proofs/HashFacts.vo proofs/InvFacts.vo
proofs/LegalDefs.vio: proofs/LegalDefs.v base/Bits.vio base/Types.vio base/BitBoard.vio geom/Geometry.vio model/Board.vio model/MoveGen.vio model/Apply.vio spec/Rules.vio spec/IterSpec.vio proofs/HashFacts.vio proofs/InvFacts.vio
proofs/LegalDefs.vos proofs/LegalDefs.vok proofs/LegalDefs.required_vos: proofs/LegalDefs.v base/Bits.vos base/Types.vos base/BitBoard.vos geom/Geometry.vos model/Board.vos model/MoveGen.vos model/Apply.vos spec/Rules.vos spec/IterSpec.vos proofs/HashFacts.vos proofs/InvFacts.vos
proofs/MagicSweep.vo proofs/MagicSweep.glob proofs/MagicSweep.v.beautified proofs/MagicSweep.required_vo: proofs/MagicSweep.v base/Bits.vo base/Types.vo base/Tree.vo base/Sweep.vo geom/Geometry.vo geom/Lookup.vo geom/Magic.vo gen/T_rook_moves.vo gen/T_bishop_moves.vo
proofs/MagicSweep.vio: proofs/MagicSweep.v base/Bits.vio base/Types.vio base/Tree.vio base/Sweep.vio geom/Geometry.vio geom/Lookup.vio geom/Magic.vio gen/T_rook_moves.vio gen/T_bishop_moves.vio
proofs/MagicSweep.vos proofs/MagicSweep.vok proofs/MagicSweep.required_vos: proofs/MagicSweep.v base/Bits.vos base/Types.vos base/Tree.vos base/Sweep.vos geom/Geometry.vos geom/Lookup.vos geom/Magic.vos gen/T_rook_moves.vos gen/T_bishop_moves.vos
proofs/PawnFacts.vo proofs/PawnFacts.glob proofs/PawnFacts.v.beautified proofs/PawnFacts.required_vo: proofs/PawnFacts.v base/Bits.vo base/Types.vo base/BitBoard.vo base/Sweep.vo geom/Geometry.vo geom/Lookup.vo proofs/BitsFacts.vo proofs/BitBoardFacts.vo proofs/GeomSweeps.vo
proofs/PawnFacts.vio: proofs/PawnFacts.v base/Bits.vio base/Types.vio base/BitBoard.vio base/Sweep.vio geom/Geometry.vio geom/Lookup.vio proofs/BitsFacts.vio proofs/BitBoardFacts.vio proofs/GeomSweeps.vio
proofs/PawnFacts.vos proofs/PawnFacts.vok proofs/PawnFacts.required_vos: proofs/PawnFacts.v base/Bits.vos base/Types.vos base/BitBoard.vos base/Sweep.vos geom/Geometry.vos geom/Lookup.vos proofs/BitsFacts.vos proofs/BitBoardFacts.vos proofs/GeomSweeps.vos
proofs/PlayableFacts.vo proofs/PlayableFacts.glob proofs/PlayableFacts.v.beautified proofs/PlayableFacts.required_vo: proofs/PlayableFacts.v base/Bits.vo base/Types.vo base/BitBoard.vo base/Sweep.vo geom/Geometry.vo model/Board.vo spec/Rules.vo model/Fen.vo proofs/FenFacts.vo proofs/BitsFacts.vo proofs/BitBoardFacts.vo proofs/BridgeFacts.vo
proofs/PlayableFacts.vio: proofs/PlayableFacts.v base/Bits.vio base/Types.vio base/BitBoard.vio base/Sweep.vio geom/Geometry.vio model/Board.vio spec/Rules.vio model/Fen.vio proofs/FenFacts.vio proofs/BitsFacts.vio proofs/BitBoardFacts.vio proofs/BridgeFacts.vio
proofs/PlayableFacts.vos proofs/PlayableFacts.vok proofs/PlayableFacts.required_vos: proofs/PlayableFacts.v base/Bits.vos base/Types.vos base/BitBoard.vos base/Sweep.vos geom/Geometry.vos model/Board.vos spec/Rules.vos model/Fen.vos proofs/FenFacts.vos proofs/BitsFacts.vos proofs/BitBoardFacts.vos proofs/BridgeFacts.vos
proofs/SafeFacts.vo proofs/SafeFacts.glob proofs/SafeFacts.v.beautified proofs/SafeFacts.required_vo: proofs/SafeFacts.v base/Bits.vo base/Types.vo base/BitBoard.vo base/Sweep.vo geom/Geometry.vo model/Board.vo model/Fen.vo model/MoveGen.vo model/Apply.vo spec/Rules.vo proofs/BitsFacts.vo proofs/BitBoardFacts.vo proofs/SiteFacts.vo proofs/BridgeFacts.vo proofs/ApplyFacts.vo proofs/FenFacts.vo proofs/CoreFacts.vo spec/IterSpec.vo proofs/HashFacts.vo proofs/InvFacts.vo proofs/LegalDefs.vo
proofs/SafeFacts.vio: proofs/SafeFacts.v base/Bits.vio base/Types.vio base/BitBoard.vio base/Sweep.vio geom/Geometry.vio model/Board.vio model/Fen.vio model/MoveGen.vio model/Apply.vio spec/Rules.vio proofs/BitsFacts.vio proofs/BitBoardFacts.vio proofs/SiteFacts.vio proofs/BridgeFacts.vio proofs/ApplyFacts.vio proofs/FenFacts.vio proofs/CoreFacts.vio spec/IterSpec.vio proofs/HashFacts.vio proofs/InvFacts.vio proofs/LegalDefs.vio
proofs/SafeFacts.vos proofs/SafeFacts.vok proofs/SafeFacts.required_vos: proofs/SafeFacts.v base/Bits.vos base/Types.vos base/BitBoard.vos base/Sweep.vos geom/Geometry.vos model/Board.vos model/Fen.vos model/MoveGen.vos model/Apply.vos spec/Rules.vos proofs/BitsFacts.vos proofs/BitBoardFacts.vos proofs/SiteFacts.vos proofs/BridgeFacts.vos proofs/ApplyFacts.vos proofs/FenFacts.vos proofs/CoreFacts.vos spec/IterSpec.vos proofs/HashFacts.vos proofs/InvFacts.vos proofs/LegalDefs.vos
proofs/ScoreOrder.vo proofs/ScoreOrder.glob proofs/ScoreOrder.v.beautified proofs/ScoreOrder.required_vo: proofs/ScoreOrder.v model/Score.vo
proofs/ScoreOrder.vio: proofs/ScoreOrder.v model/Score.vio
proofs/ScoreOrder.vos proofs/ScoreOrder.vok proofs/ScoreOrder.required_vos: proofs/ScoreOrder.v model/Score.vos
proofs/SearchFacts.vo proofs/SearchFacts.glob proofs/SearchFacts.v.beautified proofs/SearchFacts.required_vo: proofs/SearchFacts.v base/Bits.vo base/Types.vo base/BitBoard.vo model/Score.vo model/Board.vo model/MoveGen.vo model/Apply.vo model/Search.vo proofs/BitsFacts.vo proofs/BitBoardFacts.vo spec/IterSpec.vo proofs/IterFacts.vo proofs/ScoreOrder.vo proofs/SearchOrder.vo
proofs/SearchFacts.vio: proofs/SearchFacts.v base/Bits.vio base/Types.vio base/BitBoard.vio model/Score.vio model/Board.vio model/MoveGen.vio model/Apply.vio model/Search.vio proofs/BitsFacts.vio proofs/BitBoardFacts.vio spec/IterSpec.vio proofs/IterFacts.vio proofs/ScoreOrder.vio proofs/SearchOrder.vio
proofs/SearchFacts.vos proofs/SearchFacts.vok proofs/SearchFacts.required_vos: proofs/SearchFacts.v base/Bits.vos base/Types.vos base/BitBoard.vos model/Score.vos model/Board.vos model/MoveGen.vos model/Apply.vos model/Search.vos proofs/BitsFacts.vos proofs/BitBoardFacts.vos spec/IterSpec.vos proofs/IterFacts.vos proofs/ScoreOrder.vos proofs/SearchOrder.vos
proofs/SearchOrder.vo proofs/SearchOrder.glob proofs/SearchOrder.v.beautified proofs/SearchOrder.required_vo: proofs/SearchOrder.v base/Types.vo model/Score.vo proofs/ScoreOrder.vo model/Search.vo
proofs/SearchOrder.vio: proofs/SearchOrder.v base/Types.vio model/Score.vio proofs/ScoreOrder.vio model/Search.vio
proofs/SearchOrder.vos proofs/SearchOrder.vok proofs/SearchOrder.required_vos: proofs/SearchOrder.v base/Types.vos model/Score.vos proofs/ScoreOrder.vos model/Search.vos
proofs/ShapeFacts.vo proofs/ShapeFacts.glob proofs/ShapeFacts.v.beautified proofs/ShapeFacts.required_vo: proofs/ShapeFacts.v base/Bits.vo base/Types.vo base/BitBoard.vo base/Sweep.vo geom/Geometry.vo model/Board.vo model/MoveGen.vo model/Apply.vo proofs/BitsFacts.vo proofs/BitBoardFacts.vo proofs/BridgeFacts.vo spec/Rules.vo proofs/HashFacts.vo proofs/InvFacts.vo proofs/LegalDefs.vo
proofs/ShapeFacts.vio: proofs/ShapeFacts.v base/Bits.vio base/Types.vio base/BitBoard.vio base/Sweep.vio geom/Geometry.vio model/Board.vio model/MoveGen.vio model/Apply.vio proofs/BitsFacts.vio proofs/BitBoardFacts.vio proofs/BridgeFacts.vio spec/Rules.vio proofs/HashFacts.vio proofs/InvFacts.vio proofs/LegalDefs.vio
proofs/ShapeFacts.vos proofs/ShapeFacts.vok proofs/ShapeFacts.required_vos: proofs/ShapeFacts.v base/Bits.vos base/Types.vos base/BitBoard.vos base/Sweep.vos geom/Geometry.vos model/Board.vos model/MoveGen.vos model/Apply.vos proofs/BitsFacts.vos proofs/BitBoardFacts.vos proofs/BridgeFacts.vos spec/Rules.vos proofs/HashFacts.vos proofs/InvFacts.vos proofs/LegalDefs.vos
proofs/SiteFacts.vo proofs/SiteFacts.glob proofs/SiteFacts.v.beautified proofs/SiteFacts.required_vo: proofs/SiteFacts.v spec/Rules.vo base/Bits.vo base/Types.vo base/BitBoard.vo base/Sweep.vo geom/Geometry.vo model/Board.vo model/MoveGen.vo model/Apply.vo proofs/BitsFacts.vo proofs/BitBoardFacts.vo spec/IterSpec.vo proofs/IterFacts.vo
proofs/SiteFacts.vio: proofs/SiteFacts.v spec/Rules.vio base/Bits.vio base/Types.vio base/BitBoard.vio base/Sweep.vio geom/Geometry.vio model/Board.vio model/MoveGen.vio model/Apply.vio proofs/BitsFacts.vio proofs/BitBoardFacts.vio spec/IterSpec.vio proofs/IterFacts.vio
proofs/SiteFacts.vos proofs/SiteFacts.vok proofs/SiteFacts.required_vos: proofs/SiteFacts.v spec/Rules.vos base/Bits.vos base/Types.vos base/BitBoard.vos base/Sweep.vos geom/Geometry.vos model/Board.vos model/MoveGen.vos model/Apply.vos proofs/BitsFacts.vos proofs/BitBoardFacts.vos spec/IterSpec.vos proofs/IterFacts.vos
proofs/TextFacts.vo proofs/TextFacts.glob proofs/TextFacts.v.beautified proofs/TextFacts.required_vo: proofs/TextFacts.v model/Text.vo
proofs/TextFacts.vio: proofs/TextFacts.v model/Text.vio
proofs/TextFacts.vos proofs/TextFacts.vok proofs/TextFacts.required_vos: proofs/TextFacts.v model/Text.vos
proofs/TracingFacts.vo proofs/TracingFacts.glob proofs/TracingFacts.v.beautified proofs/TracingFacts.required_vo: proofs/TracingFacts.v model/Tracing.vo
proofs/TracingFacts.vio: proofs/TracingFacts.v model/Tracing.vio
proofs/TracingFacts.vos proofs/TracingFacts.vok proofs/TracingFacts.required_vos: proofs/TracingFacts.v model/Tracing.vos
proofs/ZobristFacts.vo proofs/ZobristFacts.glob proofs/ZobristFacts.v.beautified proofs/ZobristFacts.required_vo: proofs/ZobristFacts.v base/Bits.vo base/Types.vo gen/T_zobrist.vo model/Board.vo
proofs/ZobristFacts.vio: proofs/ZobristFacts.v base/Bits.vio base/Types.vio gen/T_zobrist.vio model/Board.vio
proofs/ZobristFacts.vos proofs/ZobristFacts.vok proofs/ZobristFacts.required_vos: proofs/ZobristFacts.v base/Bits.vos base/Types.vos gen/T_zobrist.vos model/Board.vos
props/C01.vo props/C01.glob props/C01.v.beautified props/C01.required_vo: props/C01.v base/Bits.vo base/Types.vo model/Board.vo model/MoveGen.vo spec/Rules.vo proofs/CoreFacts.vo
props/C01.vio: props/C01.v base/Bits.vio base/Types.vio model/Board.vio model/MoveGen.vio spec/Rules.vio proofs/CoreFacts.vio
props/C01.vos props/C01.vok props/C01.required_vos: props/C01.v base/Bits.vos base/Types.vos model/Board.vos model/MoveGen.vos spec/Rules.vos proofs/CoreFacts.vos
props/C02.vo props/C02.glob props/C02.v.beautified props/C02.required_vo: props/C02.v base/Bits.vo base/Types.vo model/Board.vo model/MoveGen.vo model/Apply.vo spec/Rules.vo proofs/CoreFacts.vo proofs/HashFacts.vo proofs/ApplyFacts.vo
props/C02.vio: props/C02.v base/Bits.vio base/Types.vio model/Board.vio model/MoveGen.vio model/Apply.vio spec/Rules.vio proofs/CoreFacts.vio proofs/HashFacts.vio proofs/ApplyFacts.vio
props/C02.vos props/C02.vok props/C02.required_vos: props/C02.v base/Bits.vos base/Types.vos model/Board.vos model/MoveGen.vos model/Apply.vos spec/Rules.vos proofs/CoreFacts.vos proofs/HashFacts.vos proofs/ApplyFacts.vos
props/C03.vo props/C03.glob props/C03.v.beautified props/C03.required_vo: props/C03.v base/Bits.vo base/Types.vo base/BitBoard.vo model/Board.vo model/MoveGen.vo model/Apply.vo model/Fen.vo spec/Rules.vo proofs/CoreFacts.vo proofs/BridgeFacts.vo proofs/PlayableFacts.vo
props/C03.vio: props/C03.v base/Bits.vio base/Types.vio base/BitBoard.vio model/Board.vio model/MoveGen.vio model/Apply.vio model/Fen.vio spec/Rules.vio proofs/CoreFacts.vio proofs/BridgeFacts.vio proofs/PlayableFacts.vio
props/C03.vos props/C03.vok props/C03.required_vos: props/C03.v base/Bits.vos base/Types.vos base/BitBoard.vos model/Board.vos model/MoveGen.vos model/Apply.vos model/Fen.vos spec/Rules.vos proofs/CoreFacts.vos proofs/BridgeFacts.vos proofs/PlayableFacts.vos
props/C04.vo props/C04.glob props/C04.v.beautified props/C04.required_vo: props/C04.v base/Bits.vo base/Types.vo gen/T_zobrist.vo base/BitBoard.vo model/Board.vo model/MoveGen.vo model/Apply.vo model/Fen.vo proofs/ZobristFacts.vo proofs/HashFacts.vo spec/IterSpec.vo proofs/InvFacts.vo proofs/Combine.vo
props/C04.vio: props/C04.v base/Bits.vio base/Types.vio gen/T_zobrist.vio base/BitBoard.vio model/Board.vio model/MoveGen.vio model/Apply.vio model/Fen.vio proofs/ZobristFacts.vio proofs/HashFacts.vio spec/IterSpec.vio proofs/InvFacts.vio proofs/Combine.vio
props/C04.vos props/C04.vok props/C04.required_vos: props/C04.v base/Bits.vos base/Types.vos gen/T_zobrist.vos base/BitBoard.vos model/Board.vos model/MoveGen.vos model/Apply.vos model/Fen.vos proofs/ZobristFacts.vos proofs/HashFacts.vos spec/IterSpec.vos proofs/InvFacts.vos proofs/Combine.vos
props/C05.vo props/C05.glob props/C05.v.beautified props/C05.required_vo: props/C05.v base/Bits.vo base/Types.vo base/BitBoard.vo model/Board.vo model/Fen.vo spec/Rules.vo proofs/FenFacts.vo proofs/CoreFacts.vo proofs/FenRoundTrip.vo
props/C05.vio: props/C05.v base/Bits.vio base/Types.vio base/BitBoard.vio model/Board.vio model/Fen.vio spec/Rules.vio proofs/FenFacts.vio proofs/CoreFacts.vio proofs/FenRoundTrip.vio
props/C05.vos props/C05.vok props/C05.required_vos: props/C05.v base/Bits.vos base/Types.vos base/BitBoard.vos model/Board.vos model/Fen.vos spec/Rules.vos proofs/FenFacts.vos proofs/CoreFacts.vos proofs/FenRoundTrip.vos
props/C06.vo props/C06.glob props/C06.v.beautified props/C06.required_vo: props/C06.v base/Bits.vo base/Types.vo base/BitBoard.vo model/Board.vo model/Fen.vo spec/Rules.vo proofs/FenFacts.vo proofs/BridgeFacts.vo proofs/PlayableFacts.vo proofs/FenRoundTrip.vo
props/C06.vio: props/C06.v base/Bits.vio base/Types.vio base/BitBoard.vio model/Board.vio model/Fen.vio spec/Rules.vio proofs/FenFacts.vio proofs/BridgeFacts.vio proofs/PlayableFacts.vio proofs/FenRoundTrip.vio
props/C06.vos props/C06.vok props/C06.required_vos: props/C06.v base/Bits.vos base/Types.vos base/BitBoard.vos model/Board.vos model/Fen.vos spec/Rules.vos proofs/FenFacts.vos proofs/BridgeFacts.vos proofs/PlayableFacts.vos proofs/FenRoundTrip.vos
props/C07.vo props/C07.glob props/C07.v.beautified props/C07.required_vo: props/C07.v base/Bits.vo base/Types.vo base/BitBoard.vo geom/Geometry.vo geom/Lookup.vo model/Board.vo model/MoveGen.vo model/Fen.vo model/Book.vo gen/T_rook_moves.vo gen/T_bishop_moves.vo gen/T_book.vo spec/IterSpec.vo proofs/MagicSweep.vo proofs/BookFacts.vo proofs/FenFacts.vo proofs/IterFacts.vo model/Apply.vo proofs/SiteFacts.vo
props/C07.vio: props/C07.v base/Bits.vio base/Types.vio base/BitBoard.vio geom/Geometry.vio geom/Lookup.vio model/Board.vio model/MoveGen.vio model/Fen.vio model/Book.vio gen/T_rook_moves.vio gen/T_bishop_moves.vio gen/T_book.vio spec/IterSpec.vio proofs/MagicSweep.vio proofs/BookFacts.vio proofs/FenFacts.vio proofs/IterFacts.vio model/Apply.vio proofs/SiteFacts.vio
props/C07.vos props/C07.vok props/C07.required_vos: props/C07.v base/Bits.vos base/Types.vos base/BitBoard.vos geom/Geometry.vos geom/Lookup.vos model/Board.vos model/MoveGen.vos model/Fen.vos model/Book.vos gen/T_rook_moves.vos gen/T_bishop_moves.vos gen/T_book.vos spec/IterSpec.vos proofs/MagicSweep.vos proofs/BookFacts.vos proofs/FenFacts.vos proofs/IterFacts.vos model/Apply.vos proofs/SiteFacts.vos
props/C08.vo props/C08.glob props/C08.v.beautified props/C08.required_vo: props/C08.v base/Bits.vo base/Types.vo geom/Geometry.vo geom/Lookup.vo proofs/MagicSweep.vo gen/T_rook_moves.vo gen/T_bishop_moves.vo
props/C08.vio: props/C08.v base/Bits.vio base/Types.vio geom/Geometry.vio geom/Lookup.vio proofs/MagicSweep.vio gen/T_rook_moves.vio gen/T_bishop_moves.vio
props/C08.vos props/C08.vok props/C08.required_vos: props/C08.v base/Bits.vos base/Types.vos geom/Geometry.vos geom/Lookup.vos proofs/MagicSweep.vos gen/T_rook_moves.vos gen/T_bishop_moves.vos
props/C09.vo props/C09.glob props/C09.v.beautified props/C09.required_vo: props/C09.v base/Bits.vo base/Types.vo base/BitBoard.vo geom/Geometry.vo geom/Lookup.vo geom/GenFns.vo proofs/GeomSweeps.vo proofs/PawnFacts.vo
props/C09.vio: props/C09.v base/Bits.vio base/Types.vio base/BitBoard.vio geom/Geometry.vio geom/Lookup.vio geom/GenFns.vio proofs/GeomSweeps.vio proofs/PawnFacts.vio
props/C09.vos props/C09.vok props/C09.required_vos: props/C09.v base/Bits.vos base/Types.vos base/BitBoard.vos geom/Geometry.vos geom/Lookup.vos geom/GenFns.vos proofs/GeomSweeps.vos proofs/PawnFacts.vos
props/C10.vo props/C10.glob props/C10.v.beautified props/C10.required_vo: props/C10.v base/Bits.vo base/Types.vo base/BitBoard.vo model/Board.vo model/MoveGen.vo spec/IterSpec.vo proofs/IterFacts.vo
props/C10.vio: props/C10.v base/Bits.vio base/Types.vio base/BitBoard.vio model/Board.vio model/MoveGen.vio spec/IterSpec.vio proofs/IterFacts.vio
props/C10.vos props/C10.vok props/C10.required_vos: props/C10.v base/Bits.vos base/Types.vos base/BitBoard.vos model/Board.vos model/MoveGen.vos spec/IterSpec.vos proofs/IterFacts.vos
props/C11.vo props/C11.glob props/C11.v.beautified props/C11.required_vo: props/C11.v base/Types.vo model/Score.vo model/Board.vo model/MoveGen.vo model/Search.vo spec/Rules.vo spec/GameTree.vo proofs/GameTreeFacts.vo proofs/SearchOrder.vo spec/IterSpec.vo proofs/SearchFacts.vo
props/C11.vio: props/C11.v base/Types.vio model/Score.vio model/Board.vio model/MoveGen.vio model/Search.vio spec/Rules.vio spec/GameTree.vio proofs/GameTreeFacts.vio proofs/SearchOrder.vio spec/IterSpec.vio proofs/SearchFacts.vio
props/C11.vos props/C11.vok props/C11.required_vos: props/C11.v base/Types.vos model/Score.vos model/Board.vos model/MoveGen.vos model/Search.vos spec/Rules.vos spec/GameTree.vos proofs/GameTreeFacts.vos proofs/SearchOrder.vos spec/IterSpec.vos proofs/SearchFacts.vos
props/C12.vo props/C12.glob props/C12.v.beautified props/C12.required_vo: props/C12.v base/Types.vo model/Score.vo model/Board.vo model/Search.vo spec/Rules.vo spec/GameTree.vo proofs/GameTreeFacts.vo proofs/SearchOrder.vo model/MoveGen.vo spec/IterSpec.vo proofs/SearchFacts.vo
props/C12.vio: props/C12.v base/Types.vio model/Score.vio model/Board.vio model/Search.vio spec/Rules.vio spec/GameTree.vio proofs/GameTreeFacts.vio proofs/SearchOrder.vio model/MoveGen.vio spec/IterSpec.vio proofs/SearchFacts.vio
props/C12.vos props/C12.vok props/C12.required_vos: props/C12.v base/Types.vos model/Score.vos model/Board.vos model/Search.vos spec/Rules.vos spec/GameTree.vos proofs/GameTreeFacts.vos proofs/SearchOrder.vos model/MoveGen.vos spec/IterSpec.vos proofs/SearchFacts.vos
props/C13.vo props/C13.glob props/C13.v.beautified props/C13.required_vo: props/C13.v base/Types.vo model/Score.vo proofs/ScoreOrder.vo spec/GameTree.vo proofs/GameTreeFacts.vo
props/C13.vio: props/C13.v base/Types.vio model/Score.vio proofs/ScoreOrder.vio spec/GameTree.vio proofs/GameTreeFacts.vio
props/C13.vos props/C13.vok props/C13.required_vos: props/C13.v base/Types.vos model/Score.vos proofs/ScoreOrder.vos spec/GameTree.vos proofs/GameTreeFacts.vos
props/C14.vo props/C14.glob props/C14.v.beautified props/C14.required_vo: props/C14.v model/Score.vo proofs/ScoreOrder.vo
props/C14.vio: props/C14.v model/Score.vio proofs/ScoreOrder.vio
props/C14.vos props/C14.vok props/C14.required_vos: props/C14.v model/Score.vos proofs/ScoreOrder.vos
props/C15.vo props/C15.glob props/C15.v.beautified props/C15.required_vo: props/C15.v base/Types.vo model/Board.vo model/MoveGen.vo model/Apply.vo model/Search.vo model/Bot.vo proofs/HashFacts.vo proofs/BotFacts.vo spec/IterSpec.vo proofs/InvFacts.vo proofs/Combine.vo
props/C15.vio: props/C15.v base/Types.vio model/Board.vio model/MoveGen.vio model/Apply.vio model/Search.vio model/Bot.vio proofs/HashFacts.vio proofs/BotFacts.vio spec/IterSpec.vio proofs/InvFacts.vio proofs/Combine.vio
props/C15.vos props/C15.vok props/C15.required_vos: props/C15.v base/Types.vos model/Board.vos model/MoveGen.vos model/Apply.vos model/Search.vos model/Bot.vos proofs/HashFacts.vos proofs/BotFacts.vos spec/IterSpec.vos proofs/InvFacts.vos proofs/Combine.vos
props/C16.vo props/C16.glob props/C16.v.beautified props/C16.required_vo: props/C16.v model/Score.vo model/Abi.vo proofs/AbiFacts.vo
props/C16.vio: props/C16.v model/Score.vio model/Abi.vio proofs/AbiFacts.vio
props/C16.vos props/C16.vok props/C16.required_vos: props/C16.v model/Score.vos model/Abi.vos proofs/AbiFacts.vos
props/C17.vo props/C17.glob props/C17.v.beautified props/C17.required_vo: props/C17.v base/Bits.vo base/Types.vo gen/T_book.vo spec/Rules.vo model/Book.vo proofs/BookSweep.vo proofs/BookFacts.vo
props/C17.vio: props/C17.v base/Bits.vio base/Types.vio gen/T_book.vio spec/Rules.vio model/Book.vio proofs/BookSweep.vio proofs/BookFacts.vio
props/C17.vos props/C17.vok props/C17.required_vos: props/C17.v base/Bits.vos base/Types.vos gen/T_book.vos spec/Rules.vos model/Book.vos proofs/BookSweep.vos proofs/BookFacts.vos
props/C18.vo props/C18.glob props/C18.v.beautified props/C18.required_vo: props/C18.v base/Bits.vo base/BitBoard.vo proofs/BitsFacts.vo proofs/BitBoardFacts.vo
props/C18.vio: props/C18.v base/Bits.vio base/BitBoard.vio proofs/BitsFacts.vio proofs/BitBoardFacts.vio
props/C18.vos props/C18.vok props/C18.required_vos: props/C18.v base/Bits.vos base/BitBoard.vos proofs/BitsFacts.vos proofs/BitBoardFacts.vos
props/C19.vo props/C19.glob props/C19.v.beautified props/C19.required_vo: props/C19.v model/Text.vo proofs/TextFacts.vo
props/C19.vio: props/C19.v model/Text.vio proofs/TextFacts.vio
props/C19.vos props/C19.vok props/C19.required_vos: props/C19.v model/Text.vos proofs/TextFacts.vos
props/C20.vo props/C20.glob props/C20.v.beautified props/C20.required_vo: props/C20.v model/Tracing.vo proofs/TracingFacts.vo
props/C20.vio: props/C20.v model/Tracing.vio proofs/TracingFacts.vio
props/C20.vos props/C20.vok props/C20.required_vos: props/C20.v model/Tracing.vos proofs/TracingFacts.vos
spec/GameTree.vo spec/GameTree.glob spec/GameTree.v.beautified spec/GameTree.required_vo: spec/GameTree.v model/Score.vo
spec/GameTree.vio: spec/GameTree.v model/Score.vio
spec/GameTree.vos spec/GameTree.vok spec/GameTree.required_vos: spec/GameTree.v model/Score.vos
spec/IterSpec.vo spec/IterSpec.glob spec/IterSpec.v.beautified spec/IterSpec.required_vo: spec/IterSpec.v base/Bits.vo base/Types.vo base/BitBoard.vo model/MoveGen.vo
spec/IterSpec.vio: spec/IterSpec.v base/Bits.vio base/Types.vio base/BitBoard.vio model/MoveGen.vio
spec/IterSpec.vos spec/IterSpec.vok spec/IterSpec.required_vos: spec/IterSpec.v base/Bits.vos base/Types.vos base/BitBoard.vos model/MoveGen.vos
spec/Rules.vo spec/Rules.glob spec/Rules.v.beautified spec/Rules.required_vo: spec/Rules.v base/Bits.vo base/Types.vo geom/Geometry.vo
spec/Rules.vio: spec/Rules.v base/Bits.vio base/Types.vio geom/Geometry.vio
spec/Rules.vos spec/Rules.vok spec/Rules.required_vos: spec/Rules.v base/Bits.vos base/Types.vos geom/Geometry.vos
