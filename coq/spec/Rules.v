(* The rules of chess over a mailbox position, with coordinate arithmetic only: no bitboard, no
   lookup table, no pin/check bookkeeping.  This is the independent reference the move generator,
   make-move, status reports, the opening book and the search are compared against.
   Short enough to read: attacked_by, pseudo, make, legal_moves, classify, mirror. *)
From Coq Require Import NArith ZArith List Bool.
From Chess Require Import base.Bits base.Types geom.Geometry.
Import ListNotations.
Local Open Scope N_scope.

Definition cell := option (color * piece).

Record position := {
  cells : list cell;                 (* 64 entries, index = square (A1 = 0 ... H8 = 63) *)
  stm : color;
  cr_wk : bool; cr_wq : bool; cr_bk : bool; cr_bq : bool;
  epf : option N;                    (* file of the pawn that has just made a double step *)
  hm : N; fm : N }.

Definition cell_at (cs : list cell) (s : N) : cell := nth (N.to_nat s) cs None.
Fixpoint set_nth {A} (l : list A) (n : nat) (v : A) : list A :=
  match l, n with
  | [], _ => []
  | _ :: r, O => v :: r
  | x :: r, S n' => x :: set_nth r n' v
  end.
Definition cell_set (cs : list cell) (s : N) (v : cell) : list cell := set_nth cs (N.to_nat s) v.

Definition is_piece (cs : list cell) (c : color) (p : piece) (s : N) : bool :=
  match cell_at cs s with Some (c', p') => color_eqb c c' && piece_eqb p p' | None => false end.
Definition occupied (cs : list cell) (s : N) : bool := match cell_at cs s with Some _ => true | None => false end.
Definition has_color (cs : list cell) (c : color) (s : N) : bool :=
  match cell_at cs s with Some (c', _) => color_eqb c c' | None => false end.

Definition offs (s : N) (l : list (Z * Z)) : list N := flat_map (fun d => opt_list (sq_off s (fst d) (snd d))) l.
Fixpoint first_occupied (cs : list cell) (l : list N) : option N :=
  match l with [] => None | t :: r => if occupied cs t then Some t else first_occupied cs r end.

(* is square s attacked by some man of colour c ? *)
Definition attacked_by (cs : list cell) (c : color) (s : N) : bool :=
     existsb (is_piece cs c Knight) (offs s knight_offs)
  || existsb (is_piece cs c King) (offs s king_offs)
  || existsb (is_piece cs c Pawn) (offs s [(-1, - fwd c); (1, - fwd c)]%Z)
  || existsb (fun d => match first_occupied cs (ray d s) with
                       | Some t => is_piece cs c Rook t || is_piece cs c Queen t | None => false end) rook_dirs
  || existsb (fun d => match first_occupied cs (ray d s) with
                       | Some t => is_piece cs c Bishop t || is_piece cs c Queen t | None => false end) bishop_dirs.

Definition king_square (cs : list cell) (c : color) : option N := find (is_piece cs c King) sq_list.
Definition in_check_cells (cs : list cell) (c : color) : bool :=
  match king_square cs c with Some k => attacked_by cs (opp c) k | None => false end.

Definition last_rank (c : color) : N := match c with White => 7 | Black => 0 end.
Definition home_rank (c : color) : N := match c with White => 0 | Black => 7 end.
Definition ep_capture_rank (c : color) : N := match c with White => 5 | Black => 2 end.   (* where the capturing pawn lands *)
Definition ep_pawn_rank (c : color) : N := match c with White => 4 | Black => 3 end.      (* where both pawns stand *)

Definition mk (s d : N) (p : option piece) : move := {| m_src := s; m_dst := d; m_promo := p |}.
Definition with_promos (c : color) (s d : N) : list move :=
  if rank_of d =? last_rank c then map (fun p => mk s d (Some p)) promo_pieces else [mk s d None].

(* sliding targets along one ray: empty squares, then the first occupied one if it is an enemy *)
Fixpoint slide_targets (cs : list cell) (c : color) (l : list N) : list N :=
  match l with
  | [] => []
  | t :: r => match cell_at cs t with
              | None => t :: slide_targets cs c r
              | Some (c', _) => if color_eqb c c' then [] else [t]
              end
  end.

Definition can_castle_right (p : position) (c : color) (sd : side) : bool :=
  match c, sd with
  | White, KingSide => cr_wk p | White, QueenSide => cr_wq p
  | Black, KingSide => cr_bk p | Black, QueenSide => cr_bq p
  end.

Definition castle_moves (p : position) : list move :=
  let cs := cells p in let c := stm p in let r := home_rank c in
  let k := mk_sq 4 r in
  if negb (is_piece cs c King k) || attacked_by cs (opp c) k then []
  else
    (if can_castle_right p c KingSide && is_piece cs c Rook (mk_sq 7 r)
        && negb (occupied cs (mk_sq 5 r)) && negb (occupied cs (mk_sq 6 r))
        && negb (attacked_by cs (opp c) (mk_sq 5 r)) && negb (attacked_by cs (opp c) (mk_sq 6 r))
     then [mk k (mk_sq 6 r) None] else [])
    ++
    (if can_castle_right p c QueenSide && is_piece cs c Rook (mk_sq 0 r)
        && negb (occupied cs (mk_sq 1 r)) && negb (occupied cs (mk_sq 2 r)) && negb (occupied cs (mk_sq 3 r))
        && negb (attacked_by cs (opp c) (mk_sq 3 r)) && negb (attacked_by cs (opp c) (mk_sq 2 r))
     then [mk k (mk_sq 2 r) None] else []).

Definition is_ep_target (p : position) (c : color) (t : N) : bool :=
  match epf p with
  | Some f => (file_of t =? f) && (rank_of t =? ep_capture_rank c)
              && negb (occupied (cells p) t) && is_piece (cells p) (opp c) Pawn (mk_sq f (ep_pawn_rank c))
  | None => false
  end.

Definition pawn_moves_from (p : position) (s : N) : list move :=
  let cs := cells p in let c := stm p in
  let pushes :=
    match sq_off s 0 (fwd c) with
    | Some t1 =>
      if occupied cs t1 then []
      else with_promos c s t1 ++
           (if rank_of s =? start_rank c
            then match sq_off s 0 (2 * fwd c) with
                 | Some t2 => if occupied cs t2 then [] else [mk s t2 None]
                 | None => [] end
            else [])
    | None => []
    end in
  let caps :=
    flat_map (fun t => if has_color cs (opp c) t then with_promos c s t
                       else if is_ep_target p c t then [mk s t None] else [])
             (offs s [(-1, fwd c); (1, fwd c)]%Z) in
  pushes ++ caps.

Definition piece_moves_from (p : position) (s : N) (pc : piece) : list move :=
  let cs := cells p in let c := stm p in
  let not_own t := negb (has_color cs c t) in
  match pc with
  | Pawn => pawn_moves_from p s
  | Knight => map (fun t => mk s t None) (filter not_own (offs s knight_offs))
  | King => map (fun t => mk s t None) (filter not_own (offs s king_offs))
  | Bishop => map (fun t => mk s t None) (flat_map (fun d => slide_targets cs c (ray d s)) bishop_dirs)
  | Rook => map (fun t => mk s t None) (flat_map (fun d => slide_targets cs c (ray d s)) rook_dirs)
  | Queen => map (fun t => mk s t None) (flat_map (fun d => slide_targets cs c (ray d s)) all_dirs)
  end.

(* pseudo-legal moves of the side to move (own king safety not yet considered, except for castling) *)
Definition pseudo (p : position) : list move :=
  flat_map (fun s => match cell_at (cells p) s with
                     | Some (c, pc) => if color_eqb c (stm p) then piece_moves_from p s pc else []
                     | None => [] end) sq_list
  ++ castle_moves p.

(* the successor position the rules prescribe *)
Definition make (p : position) (m : move) : position :=
  let cs := cells p in let c := stm p in
  let s := m_src m in let d := m_dst m in
  match cell_at cs s with
  | None => p
  | Some (_, pc) =>
    let capture := occupied cs d in
    let is_pawn := piece_eqb pc Pawn in
    let is_king := piece_eqb pc King in
    let ep_capture := is_pawn && negb (file_of s =? file_of d) && negb capture in
    let castle := is_king && (absdiff (file_of s) (file_of d) =? 2) in
    let placed := match m_promo m with Some q => q | None => pc end in
    let cs1 := cell_set (cell_set cs s None) d (Some (c, placed)) in
    let cs2 := if ep_capture then cell_set cs1 (mk_sq (file_of d) (rank_of s)) None else cs1 in
    let cs3 := if castle
               then (if file_of d =? 6
                     then cell_set (cell_set cs2 (mk_sq 7 (rank_of s)) None) (mk_sq 5 (rank_of s)) (Some (c, Rook))
                     else cell_set (cell_set cs2 (mk_sq 0 (rank_of s)) None) (mk_sq 3 (rank_of s)) (Some (c, Rook)))
               else cs2 in
    let touches x := (s =? x) || (d =? x) in
    let double := is_pawn && (absdiff (rank_of s) (rank_of d) =? 2) in
    {| cells := cs3; stm := opp c;
       cr_wk := cr_wk p && negb (touches 4) && negb (touches 7);
       cr_wq := cr_wq p && negb (touches 4) && negb (touches 0);
       cr_bk := cr_bk p && negb (touches 60) && negb (touches 63);
       cr_bq := cr_bq p && negb (touches 60) && negb (touches 56);
       epf := if double then Some (file_of s) else None;
       hm := if is_pawn || capture then 0 else hm p + 1;
       fm := match c with White => fm p | Black => fm p + 1 end |}
  end.

Definition legal (p : position) (m : move) : bool := negb (in_check_cells (cells (make p m)) (stm p)).
Definition legal_moves (p : position) : list move := filter (legal p) (pseudo p).
Definition is_legal_move (p : position) (m : move) : bool := existsb (move_eqb m) (legal_moves p).

Definition in_check (p : position) : bool := in_check_cells (cells p) (stm p).

Inductive status := CheckMate | Draw | Check | Running.
Definition classify (p : position) : status :=
  let nomoves := match legal_moves p with [] => true | _ => false end in
  if nomoves && in_check p then CheckMate
  else if nomoves || (100 <=? hm p) then Draw
  else if in_check p then Check else Running.
Definition is_mate (p : position) : bool := match classify p with CheckMate => true | _ => false end.

(* position identity for repetition: placement, side to move, castling rights, en-passant file *)
Definition cell_eqb (a b : cell) : bool :=
  match a, b with
  | None, None => true
  | Some (c1, p1), Some (c2, p2) => color_eqb c1 c2 && piece_eqb p1 p2
  | _, _ => false
  end.
Fixpoint cells_eqb (a b : list cell) : bool :=
  match a, b with
  | [], [] => true
  | x :: r, y :: r' => cell_eqb x y && cells_eqb r r'
  | _, _ => false
  end.
Definition optN_eqb (a b : option N) : bool :=
  match a, b with None, None => true | Some x, Some y => x =? y | _, _ => false end.
Definition same_position (a b : position) : bool :=
  cells_eqb (cells a) (cells b) && color_eqb (stm a) (stm b)
  && Bool.eqb (cr_wk a) (cr_wk b) && Bool.eqb (cr_wq a) (cr_wq b)
  && Bool.eqb (cr_bk a) (cr_bk b) && Bool.eqb (cr_bq a) (cr_bq b) && optN_eqb (epf a) (epf b).

(* colour mirror: swap the colours, flip the ranks *)
Definition mirror_cell (c : cell) : cell := match c with Some (co, p) => Some (opp co, p) | None => None end.
Definition mirror_sq (s : N) : N := N.lxor s 56.
Definition mirror (p : position) : position :=
  {| cells := map (fun s => mirror_cell (cell_at (cells p) (mirror_sq s))) sq_list;
     stm := opp (stm p);
     cr_wk := cr_bk p; cr_wq := cr_bq p; cr_bk := cr_wk p; cr_bq := cr_wq p;
     epf := epf p; hm := hm p; fm := fm p |}.
Definition mirror_move (m : move) : move := mk (mirror_sq (m_src m)) (mirror_sq (m_dst m)) (m_promo m).

(* the standard starting position *)
Definition back_row : list piece := [Rook; Knight; Bishop; Queen; King; Bishop; Knight; Rook].
Definition start_cells : list cell :=
  map (fun pc => Some (White, pc)) back_row ++ repeat (Some (White, Pawn)) 8
  ++ repeat None 32 ++ repeat (Some (Black, Pawn)) 8 ++ map (fun pc => Some (Black, pc)) back_row.
Definition start_position : position :=
  {| cells := start_cells; stm := White; cr_wk := true; cr_wq := true; cr_bk := true; cr_bq := true;
     epf := None; hm := 0; fm := 0 |}.

(* "playable" (C06): what every accepted board must satisfy *)
Definition count_cells (f : cell -> bool) (cs : list cell) : N := N.of_nat (length (filter f cs)).
Definition playable (p : position) : bool :=
  let cs := cells p in
  let cnt c pc := count_cells (fun x => cell_eqb x (Some (c, pc))) cs in
  let men c := count_cells (fun x => match x with Some (c', _) => color_eqb c c' | None => false end) cs in
  (length cs =? 64)%nat
  && (cnt White King =? 1) && (cnt Black King =? 1)
  && (men White <=? 16) && (men Black <=? 16)
  && negb (in_check_cells cs (opp (stm p)))
  && (negb (cr_wk p) || (is_piece cs White King 4 && is_piece cs White Rook 7))
  && (negb (cr_wq p) || (is_piece cs White King 4 && is_piece cs White Rook 0))
  && (negb (cr_bk p) || (is_piece cs Black King 60 && is_piece cs Black Rook 63))
  && (negb (cr_bq p) || (is_piece cs Black King 60 && is_piece cs Black Rook 56))
  && match epf p with
     | None => true
     | Some f => (f <? 8) && negb (occupied cs (mk_sq f (ep_capture_rank (stm p))))
                 && is_piece cs (opp (stm p)) Pawn (mk_sq f (ep_pawn_rank (stm p)))
     end.
