(* C10 -- abstract semantics of the move iterator (chess-movegen/src/iter.rs, model/MoveGen.v).

   A generator is abstracted to the pair (content, mask):
     content = the multiset (a list, compared up to Permutation) of moves the generator still owes,
               over ALL destinations, in or out of the mask;
     mask    = the destination mask currently in force.
   The moves the iterator will still yield under the current mask are the [visible] ones.
   The abstract operations below act on (content, mask) only; proofs/IterFacts.v shows that the
   model of the code refines them. *)
From Coq Require Import NArith List Bool Permutation.
From Chess Require Import base.Bits base.Types base.BitBoard model.MoveGen.
Import ListNotations.
Local Open Scope N_scope.

Definition mk_move (s d : N) (p : option piece) : move := {| m_src := s; m_dst := d; m_promo := p |}.

(* the moves owed for one destination of an entry; for a promotion entry the first k of the
   four pieces [Queen; Rook; Bishop; Knight] have already been yielded *)
Definition dest_moves (src : N) (promo : bool) (k : nat) (d : N) : list move :=
  if promo then map (fun p => mk_move src d (Some p)) (skipn k promo_pieces)
  else [mk_move src d None].

(* all moves owed by an entry, the destination d0 being "in progress" with k pieces yielded *)
Definition entry_moves_from (k : nat) (d0 : N) (e : entry) : list move :=
  flat_map (fun d => dest_moves (e_src e) (e_promo e) (if d =? d0 then k else O) d)
           (elements (e_moves e)).

(* all moves owed by an entry nothing of which is in progress *)
Definition entry_moves (e : entry) : list move :=
  flat_map (fun d => dest_moves (e_src e) (e_promo e) O d) (elements (e_moves e)).

(* where the iterator stands: the first entry at/after g_index with a destination under the mask *)
Definition cursor (g : movegen) : nat :=
  skip_dead g (skipn (g_index g) (g_moves g)) (g_index g).

(* content: every destination of every entry (promotion entries: four moves per destination), minus,
   for the entry/destination in progress, the first [g_promo g] promotion pieces *)
Definition content (g : movegen) : list move :=
  match nth_error (g_moves g) (cursor g) with
  | None => flat_map entry_moves (g_moves g)
  | Some e =>
    flat_map entry_moves (firstn (cursor g) (g_moves g))
    ++ entry_moves_from (N.to_nat (g_promo g)) (tz64 (bb_and (e_moves e) (g_mask g))) e
    ++ flat_map entry_moves (skipn (S (cursor g)) (g_moves g))
  end.

Definition in_mask (M : N) (m : move) : bool := mem M (m_dst m).
Definition visible (g : movegen) : list move := filter (in_mask (g_mask g)) (content g).

(* ---- abstract states and operations ---- *)
Definition astate : Type := (list move * N)%type.     (* (content, mask) *)
Definition abs (g : movegen) : astate := (content g, g_mask g).
Definition a_visible (a : astate) : list move := filter (in_mask (snd a)) (fst a).

Definition same_src_dst (m x : move) : bool := (m_src x =? m_src m) && (m_dst x =? m_dst m).

Inductive op :=
| ONext | OLen | OIsEmpty | OSizeHint
| OSetMask (M : N) | ORemove (bb : N) | ORemoveMove (m : move).

Inductive obs :=
| RNext (r : option move) | RLen (n : N) | RIsEmpty (b : bool) | RSizeHint (lo : N) (hi : option N)
| RUnit | RFound (b : bool).

(* one abstract step.  Contents are multisets: every clause is stable under Permutation. *)
Inductive astep : astate -> op -> obs -> astate -> Prop :=
| A_next_some : forall c M m c',
    In m (a_visible (c, M)) -> Permutation c (m :: c') ->
    astep (c, M) ONext (RNext (Some m)) (c', M)
| A_next_none : forall c M c',
    a_visible (c, M) = [] -> Permutation c c' ->
    astep (c, M) ONext (RNext None) (c', M)
| A_len : forall c M,
    astep (c, M) OLen (RLen (N.of_nat (length (a_visible (c, M))))) (c, M)
| A_is_empty : forall c M b,
    (b = true <-> a_visible (c, M) = []) ->
    astep (c, M) OIsEmpty (RIsEmpty b) (c, M)
| A_size_hint : forall c M,
    let n := N.of_nat (length (a_visible (c, M))) in
    astep (c, M) OSizeHint (RSizeHint n (Some n)) (c, M)
| A_set_mask : forall c M M' c',
    Permutation c c' ->
    astep (c, M) (OSetMask M') RUnit (c', M')
| A_remove : forall c M bb c',
    Permutation c' (filter (fun x => negb (mem bb (m_dst x))) c) ->
    astep (c, M) (ORemove bb) RUnit (c', M)
| A_remove_move : forall c M m b c',
    Permutation c' (filter (fun x => negb (same_src_dst m x)) c) ->
    ((exists x, In x c /\ m_src x = m_src m) -> b = true) ->
    astep (c, M) (ORemoveMove m) (RFound b) (c', M).

Inductive atrace : astate -> list op -> list obs -> astate -> Prop :=
| AT_nil : forall a, atrace a [] [] a
| AT_cons : forall a o r a1 os rs a',
    astep a o r a1 -> atrace a1 os rs a' -> atrace a (o :: os) (r :: rs) a'.

(* ---- the concrete (model) side of a trace ---- *)
Definition mg_size_hint (g : movegen) : N * option N := (mg_len g, Some (mg_len g)).

(* set_mask / remove / remove_move are only covered between promotion groups (known class K2) *)
Definition guard (g : movegen) (o : op) : bool :=
  match o with
  | OSetMask _ | ORemove _ | ORemoveMove _ => g_promo g =? 0
  | _ => true
  end.

Definition cstep (g : movegen) (o : op) : obs * movegen :=
  match o with
  | ONext => let '(r, g') := mg_next g in (RNext r, g')
  | OLen => (RLen (mg_len g), g)
  | OIsEmpty => (RIsEmpty (mg_is_empty g), g)
  | OSizeHint => let '(lo, hi) := mg_size_hint g in (RSizeHint lo hi, g)
  | OSetMask M => (RUnit, mg_set_mask g M)
  | ORemove bb => (RUnit, mg_remove g bb)
  | ORemoveMove m => let '(g', b) := mg_remove_move g m in (RFound b, g')
  end.

Fixpoint crun (g : movegen) (os : list op) : option (list obs * movegen) :=
  match os with
  | [] => Some ([], g)
  | o :: os' =>
    if guard g o then
      let '(r, g1) := cstep g o in
      match crun g1 os' with
      | Some (rs, g') => Some (r :: rs, g')
      | None => None
      end
    else None
  end.

(* ---- draining with the final state, and iteration under successive masks ---- *)
Fixpoint mg_run_fuel (fuel : nat) (g : movegen) : list move * movegen :=
  match fuel with
  | O => ([], g)
  | S f => match mg_next g with
           | (Some m, g') => let '(ms, g'') := mg_run_fuel f g' in (m :: ms, g'')
           | (None, g') => ([], g')
           end
  end.
Definition mg_run (g : movegen) : list move * movegen := mg_run_fuel (drain_bound g) g.

(* set_mask M1, drain, set_mask M2, drain, ... : everything yielded, and the final generator *)
Fixpoint cover_run (g : movegen) (Ms : list N) : list move * movegen :=
  match Ms with
  | [] => ([], g)
  | M :: Ms' =>
    let '(ms, g1) := mg_run (mg_set_mask g M) in
    let '(ms', g') := cover_run g1 Ms' in
    (ms ++ ms', g')
  end.
