(* Generic two-player game trees with Score-valued leaves, independent of chess:
   - minimax : the reference value of a tree;
   - alphabeta : the engine's fail-soft alpha-beta loop (chess-engine/src/lib.rs, fn alphabeta,
     "let mut score = P::WORST_SCORE; for mv in moves { ... }");
   - root : one depth pass of Engine::search_with (full window, no cutoff test, first best move kept).
   Everything is executable (vm_compute).  Used by properties C11-C13. *)
From Coq Require Import NArith ZArith List Bool.
From Chess Require Import model.Score.
Import ListNotations.

(* A Leaf is a position at which the search returns an evaluation (terminal position, draw rule,
   or depth exhausted); a Node is a position whose legal moves are all searched, in list order. *)
Inductive tree : Type :=
| Leaf (v : score)
| Node (children : list tree).

(* Nested induction principle (the automatically generated one has no hypothesis on children). *)
Section TreeInd.
  Variable P : tree -> Prop.
  Hypothesis HLeaf : forall v, P (Leaf v).
  Hypothesis HNode : forall cs, Forall P cs -> P (Node cs).

  Fixpoint tree_ind' (t : tree) : P t :=
    match t with
    | Leaf v => HLeaf v
    | Node cs =>
      HNode cs
        ((fix go (l : list tree) : Forall P l :=
            match l with
            | [] => Forall_nil P
            | c :: l' => Forall_cons c (tree_ind' c) (go l')
            end) cs)
    end.
End TreeInd.

(* well-formed: every Node has at least one child (positions without legal moves are leaves) *)
Fixpoint wftb (t : tree) : bool :=
  match t with
  | Leaf _ => true
  | Node cs => match cs with [] => false | _ :: _ => forallb wftb cs end
  end.
Definition wft (t : tree) : Prop := wftb t = true.

(* the sentinels Score::Min / Score::Max never evaluate a position *)
Definition sentinelb (s : score) : bool :=
  match s with SMin | SMax => true | _ => false end.
Definition nonsentinel (s : score) : Prop := s <> SMin /\ s <> SMax.

Fixpoint properb (t : tree) : bool :=
  match t with
  | Leaf v => negb (sentinelb v)
  | Node cs => forallb properb cs
  end.
Definition proper (t : tree) : Prop := properb t = true.

(* trait Policy, indexed by "White to move" *)
(* P::WORST_SCORE *)
Definition worst (w : bool) : score := if w then SMin else SMax.
(* P::is_better(score, new): White [score < new], Black [score > new] *)
Definition better (w : bool) (sc new : score) : bool :=
  if w then ltb sc new else gtb sc new.
(* "if P::is_better(score, new) { score = new }" *)
Definition pick (w : bool) (sc new : score) : score :=
  if better w sc new then new else sc.
(* P::update_cutoff: White [alpha = score.max(alpha)], Black [beta = score.min(beta)] *)
Definition upd_alpha (w : bool) (sc alpha : score) : score :=
  if w then smax sc alpha else alpha.
Definition upd_beta (w : bool) (sc beta : score) : score :=
  if w then beta else smin sc beta.

(* minimax value with [w] = White to move at the root of [t]: the same "keep the strictly better
   score" loop, started from WORST_SCORE, over all children, no window. *)
Fixpoint minimax (w : bool) (t : tree) : score :=
  match t with
  | Leaf v => v
  | Node cs => fold_left (pick w) (map (minimax (negb w)) cs) (worst w)
  end.

(* The engine's loop over the children of an inner node.  [f alpha beta c] searches child [c]. *)
Section Loop.
  Context {A : Type}.
  Variable w : bool.
  Variable f : score -> score -> A -> score.

  Fixpoint ab_loop (cs : list A) (alpha beta sc : score) : score :=
    match cs with
    | [] => sc
    | c :: cs' =>
      let new := f alpha beta c in
      let sc' := pick w sc new in
      let alpha' := upd_alpha w sc' alpha in
      let beta' := upd_beta w sc' beta in
      if leb beta' alpha'            (* "if args.beta <= args.alpha { break }" *)
      then sc'
      else ab_loop cs' alpha' beta' sc'
    end.
End Loop.

Fixpoint alphabeta (w : bool) (alpha beta : score) (t : tree) : score :=
  match t with
  | Leaf v => v
  | Node cs => ab_loop w (alphabeta (negb w)) cs alpha beta (worst w)
  end.

(* One pass of search_with at the root: children are (move, subtree) pairs in iteration order
   (previous best move, captures, other moves); window starts at (Min, Max); no cutoff test;
   the move is replaced only by a strictly better one. *)
Section Root.
  Context {A : Type}.
  Variable w : bool.

  Fixpoint root_loop (cs : list (A * tree)) (alpha beta sc : score) (best : option A)
    : option A * score :=
    match cs with
    | [] => (best, sc)
    | (m, c) :: cs' =>
      let new := alphabeta (negb w) alpha beta c in
      let b := better w sc new in
      let sc' := if b then new else sc in
      let best' := if b then Some m else best in
      root_loop cs' (upd_alpha w sc' alpha) (upd_beta w sc' beta) sc' best'
    end.

  Definition root (cs : list (A * tree)) : option A * score :=
    root_loop cs SMin SMax (worst w) None.
End Root.

(* colour mirror at the game-tree level: negate every leaf *)
Fixpoint neg_tree (t : tree) : tree :=
  match t with
  | Leaf v => Leaf (neg v)
  | Node cs => Node (map neg_tree cs)
  end.
