From Coq Require Import NArith List Bool.
From Chess Require Import base.Bits base.Types spec.Rules model.Book.
Time Eval vm_compute in (book_walk 12 INITIAL_BOOK start_position).
Time Eval vm_compute in (book_depth_of 12 INITIAL_BOOK).
