(* 64-bit machine words as N with explicit wrap-around.  Executable definitions only;
   lemmas live in proofs/BitsFacts.v so the model still runs when a proof breaks. *)
From Coq Require Import NArith List Bool.
Import ListNotations.
Local Open Scope N_scope.

Definition mask64 : N := N.ones 64.
Definition wf64 (x : N) : Prop := x < 2 ^ 64.
Definition wf64b (x : N) : bool := x <? 2 ^ 64.
Definition trunc64 (x : N) : N := N.land x mask64.

Definition not64 (x : N) : N := N.lxor (trunc64 x) mask64.        (* Rust `!x` on u64 *)
Definition shl64 (x n : N) : N := trunc64 (N.shiftl x n).          (* Rust `x << n`, n < 64 *)
Definition shr64 (x n : N) : N := N.shiftr x n.                    (* Rust `x >> n`, n < 64 *)
Definition mul64 (x y : N) : N := trunc64 (x * y).                 (* wrapping_mul *)
Definition add64 (x y : N) : N := trunc64 (x + y).                 (* wrapping_add *)
Definition sub64 (x y : N) : N := trunc64 (x + (2 ^ 64 - trunc64 y)).  (* wrapping_sub *)
Definition diff64 (x y : N) : N := N.ldiff x y.                    (* x & !y *)

Definition bit (s : N) : N := N.shiftl 1 s.
Definition mem (b s : N) : bool := N.testbit b s.

(* trailing_zeros: 64 for 0 *)
Fixpoint pos_tz (p : positive) : N :=
  match p with xO q => N.succ (pos_tz q) | _ => 0 end.
Definition tz64 (x : N) : N := match x with N0 => 64 | Npos p => pos_tz p end.

(* count_ones *)
Fixpoint pos_popcount (p : positive) : N :=
  match p with xH => 1 | xO q => pos_popcount q | xI q => N.succ (pos_popcount q) end.
Definition popcount (x : N) : N := match x with N0 => 0 | Npos p => pos_popcount p end.

(* swap_bytes on u64 *)
Definition byte_of (x i : N) : N := N.land (N.shiftr x (8 * i)) 255.
Definition bswap64 (x : N) : N :=
  fold_left (fun acc i => N.lor acc (N.shiftl (byte_of x i) (8 * (7 - i)))) [0;1;2;3;4;5;6;7] 0.

(* squares 0..63 *)
Definition sq_list : list N :=
  [0;1;2;3;4;5;6;7;8;9;10;11;12;13;14;15;16;17;18;19;20;21;22;23;24;25;26;27;28;29;30;31;
   32;33;34;35;36;37;38;39;40;41;42;43;44;45;46;47;48;49;50;51;52;53;54;55;56;57;58;59;60;61;62;63].

(* the set a word denotes, ascending *)
Definition elements (x : N) : list N := filter (fun s => N.testbit x s) sq_list.

(* Intel PDEP r64 pseudo-code:  k := 0; for m in 0..63: if mask[m] then dest[m] := src[k]; k++ *)
Definition pdep64 (src msk : N) : N :=
  fst (fold_left (fun (st : N * N) m =>
                    let '(dest, k) := st in
                    if N.testbit msk m
                    then ((if N.testbit src k then N.lor dest (bit m) else dest), N.succ k)
                    else (dest, k)) sq_list (0, 0)).
