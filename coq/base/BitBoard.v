(* Model of chess-bitboard/src/lib.rs + ops.rs : BitBoard(u64) and BitBoardIter.
   Squares are N < 64 (A1 = 0 ... H8 = 63), files / ranks are N < 8. *)
From Coq Require Import NArith List Bool.
From Chess Require Import base.Bits.
Import ListNotations.
Local Open Scope N_scope.

Definition bb_empty : N := 0.
Definition bb_full : N := mask64.
Definition from_pos (s : N) : N := shl64 1 s.
Definition FIRST_FILE : N := 72340172838076673.  (* 0x0101010101010101 *)
Definition FIRST_RANK : N := 255.
Definition from_file (f : N) : N := shl64 FIRST_FILE f.
Definition from_rank (r : N) : N := shl64 FIRST_RANK (r * 8).

Definition bb_or (a b : N) := N.lor a b.
Definition bb_and (a b : N) := N.land a b.
Definition bb_xor (a b : N) := N.lxor a b.
Definition bb_not (a : N) := not64 a.
Definition bb_diff (a b : N) := bb_and a (bb_not b).
Definition any (a : N) : bool := negb (N.eqb a 0).
Definition none (a : N) : bool := N.eqb a 0.
Definition bb_all (a : N) : bool := none (bb_not a).
Definition bb_some (a : N) : bool := any (bb_not a).
Definition contains (a s : N) : bool := any (bb_and a (from_pos s)).
Definition bb_with (a s : N) : N := bb_or a (from_pos s).
Definition cleared (a s : N) : N := bb_diff a (from_pos s).

Definition shift_up (a : N) : N := shl64 (bb_diff a (from_rank 7)) 8.
Definition shift_down (a : N) : N := shr64 (bb_diff a (from_rank 0)) 8.
Definition shift_left (a : N) : N := shr64 (bb_diff a (from_file 0)) 1.
Definition shift_right (a : N) : N := shl64 (bb_diff a (from_file 7)) 1.

Definition count (a : N) : N := popcount a.
Definition flip_ranks (a : N) : N := bswap64 a.

(* pop: None on empty; otherwise least square and the board without it *)
Definition pop (a : N) : option (N * N) :=
  if N.eqb a 0 then None
  else let z := tz64 a in Some (z, N.lxor a (shl64 1 z)).

(* BitBoardIter = BitBoard; next = pop; size_hint = (count, Some count) *)
Definition it_next (a : N) : option N * N :=
  match pop a with Some (s, a') => (Some s, a') | None => (None, a) end.
Definition it_size_hint (a : N) : N := count a.

(* Iterator::nth default (non-BMI2 build): advance n times, then next *)
Fixpoint nth_default_fuel (fuel : nat) (a : N) (n : N) : option N * N :=
  match fuel with
  | O => (None, a)
  | S f =>
    if N.eqb n 0 then it_next a
    else match pop a with
         | None => (None, a)
         | Some (_, a') => nth_default_fuel f a' (N.pred n)
         end
  end.
(* 65 steps always suffice: a board has at most 64 squares *)
Definition nth_default (a n : N) : option N * N := nth_default_fuel 66 a n.

(* BMI2 build of nth (chess-bitboard/src/lib.rs, cfg(target_feature = "bmi2")):
     x = pdep(1 << n, bb).trailing_zeros(); pos = Pos::from_u8(x)?;
     mask = ((1u128 << (1+pos)) - 1) as u64; bb -= mask
   `1 << n` with n : usize >= 64 overflows: panic with overflow checks (Trap), n mod 64 without. *)
Inductive outcome (A : Type) := Ret (a : A) | Trap.
Arguments Ret {A} _. Arguments Trap {A}.

Definition nth_bmi2_shift (checked : bool) (n : N) : outcome N :=
  if n <? 64 then Ret (shl64 1 n) else if checked then Trap else Ret (shl64 1 (n mod 64)).

(* the code as it was at the pinned commit 5002c4a (finding F10) *)
Definition nth_bmi2_orig (checked : bool) (a n : N) : outcome (option N * N) :=
  match nth_bmi2_shift checked n with
  | Trap => Trap
  | Ret sel =>
    let x := tz64 (pdep64 sel a) in
    if x <? 64 then Ret (Some x, bb_diff a (N.ones (x + 1))) else Ret (None, a)
  end.

(* the code after "fix: BitBoardIter::nth (BMI2 path) ...": guard `n >= count` first *)
Definition nth_bmi2 (checked : bool) (a n : N) : outcome (option N * N) :=
  if count a <=? n then Ret (None, bb_empty) else nth_bmi2_orig checked a n.

(* FromIterator<Pos> / FromIterator<BitBoard> *)
Definition from_squares (l : list N) : N := fold_left bb_with l bb_empty.
Definition from_boards (l : list N) : N := fold_left bb_or l bb_empty.

(* iteration = repeated pop *)
Fixpoint iter_fuel (fuel : nat) (a : N) : list N :=
  match fuel with
  | O => []
  | S f => match pop a with None => [] | Some (s, a') => s :: iter_fuel f a' end
  end.
Definition iter_list (a : N) : list N := iter_fuel 65 a.
