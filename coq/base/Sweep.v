(* Lifting complete finite sweeps (forallb ... = true by vm_compute) to universally quantified statements. *)
From Coq Require Import NArith List Bool Lia.
From Chess Require Import base.Bits.
Import ListNotations.
Local Open Scope N_scope.

Lemma sq_list_seq : sq_list = map N.of_nat (seq 0 64).
Proof. vm_compute. reflexivity. Qed.

Lemma in_sq_list : forall s, s < 64 -> In s sq_list.
Proof.
  intros s Hs. rewrite sq_list_seq. apply in_map_iff.
  exists (N.to_nat s). split; [apply N2Nat.id|]. apply in_seq. lia.
Qed.

Lemma sq_list_lt : forall s, In s sq_list -> s < 64.
Proof.
  intros s H. rewrite sq_list_seq in H. apply in_map_iff in H.
  destruct H as [n [<- Hn]]. apply in_seq in Hn. lia.
Qed.

Definition below (n : nat) : list N := map N.of_nat (seq 0 n).
Lemma in_below : forall n s, s < N.of_nat n -> In s (below n).
Proof.
  intros n s Hs. unfold below. apply in_map_iff.
  exists (N.to_nat s). split; [apply N2Nat.id|]. apply in_seq. lia.
Qed.

Definition all_sq (P : N -> bool) : bool := forallb P sq_list.
Definition all_sq2 (P : N -> N -> bool) : bool := forallb (fun a => forallb (P a) sq_list) sq_list.
Definition all_below (n : nat) (P : N -> bool) : bool := forallb P (below n).

Lemma all_sq_spec : forall P, all_sq P = true -> forall s, s < 64 -> P s = true.
Proof. intros P H s Hs. unfold all_sq in H. rewrite forallb_forall in H. apply H, in_sq_list, Hs. Qed.

Lemma all_sq2_spec : forall P, all_sq2 P = true -> forall a b, a < 64 -> b < 64 -> P a b = true.
Proof.
  intros P H a b Ha Hb. unfold all_sq2 in H. rewrite forallb_forall in H.
  specialize (H a (in_sq_list a Ha)). rewrite forallb_forall in H. apply H, in_sq_list, Hb.
Qed.

Lemma all_below_spec : forall n P, all_below n P = true -> forall s, s < N.of_nat n -> P s = true.
Proof. intros n P H s Hs. unfold all_below in H. rewrite forallb_forall in H. apply H, in_below, Hs. Qed.

(* counter-example twins: the same predicate under find instead of forallb *)
Definition cex_sq (P : N -> bool) : option N := find (fun s => negb (P s)) sq_list.
Definition cex_sq2 (P : N -> N -> bool) : option (N * N) :=
  find (fun ab => negb (P (fst ab) (snd ab))) (flat_map (fun a => map (fun b => (a, b)) sq_list) sq_list).
