(* Shared enumerations: Color, Piece, Side with the numeric indices the Rust enums have. *)
From Coq Require Import NArith List Bool.
Import ListNotations.
Local Open Scope N_scope.

Inductive color := White | Black.
Inductive piece := Pawn | Knight | Bishop | Rook | Queen | King.
Inductive side := KingSide | QueenSide.          (* Side::King = 0, Side::Queen = 1 *)

Definition color_idx (c : color) : N := match c with White => 0 | Black => 1 end.
Definition piece_idx (p : piece) : N :=
  match p with Pawn => 0 | Knight => 1 | Bishop => 2 | Rook => 3 | Queen => 4 | King => 5 end.
Definition side_idx (s : side) : N := match s with KingSide => 0 | QueenSide => 1 end.
Definition opp (c : color) : color := match c with White => Black | Black => White end.

Definition color_eqb (a b : color) : bool :=
  match a, b with White, White | Black, Black => true | _, _ => false end.
Definition piece_eqb (a b : piece) : bool := N.eqb (piece_idx a) (piece_idx b).

Definition all_pieces : list piece := [Pawn; Knight; Bishop; Rook; Queen; King].
Definition promo_pieces : list piece := [Queen; Rook; Bishop; Knight].   (* PROMOTION_PIECES order in iter.rs *)

Definition file_of (s : N) : N := s mod 8.
Definition rank_of (s : N) : N := s / 8.
Definition mk_sq (f r : N) : N := r * 8 + f.

(* a move: source, destination, optional promotion piece (Knight/Bishop/Rook/Queen) *)
Record move := { m_src : N; m_dst : N; m_promo : option piece }.
Definition opt_piece_eqb (a b : option piece) : bool :=
  match a, b with
  | None, None => true
  | Some x, Some y => piece_eqb x y
  | _, _ => false
  end.
Definition move_eqb (a b : move) : bool :=
  N.eqb (m_src a) (m_src b) && N.eqb (m_dst a) (m_dst b) && opt_piece_eqb (m_promo a) (m_promo b).
