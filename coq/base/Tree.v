(* Balanced binary trees used to import the large generated tables (O(depth) lookup in the VM).
   TZ stands for an all-zero subtree of any size. *)
From Coq Require Import NArith.
Local Open Scope N_scope.

Inductive tree : Type := TZ | TL (v : N) | TB (l r : tree).

(* index bits are consumed from bit (d-1) down to bit 0 *)
Fixpoint tget (d : nat) (t : tree) (i : N) : N :=
  match t with
  | TZ => 0
  | TL v => v
  | TB l r =>
    match d with
    | O => 0
    | S d' => if N.testbit i (N.of_nat d') then tget d' r i else tget d' l i
    end
  end.
