(* C01 - component (E): en passant.
   ep_exact        : on a Good board, for a pawn of the side to move that may capture en passant,
                     safe_after (the mover's king is not attacked on the successor board) = Board::is_legal_en_passant.
   ep_double_check : in double check is_legal_en_passant answers false (the generator offers no pawn move at all then).
   The shared attack layer (AttackDefs AT1..AT7) is taken as premises:
     ep_exact_min        uses AT3 (kings), AT4 (checkers), AT6 (successor placement), AT7 (safe_after man by man)
     ep_double_check_min uses AT2 (sliders), AT3, AT4
   ep_exact / ep_double_check restate them with the agreed (larger) premise lists. Axiom-free. *)
From Coq Require Import NArith ZArith List Bool Lia ZifyBool ZifyN.
From Chess Require Import base.Bits base.Types base.BitBoard base.Sweep geom.Geometry model.Board model.MoveGen model.Apply spec.Rules.
From Chess Require Import proofs.BitsFacts proofs.BitBoardFacts proofs.GeomSweeps proofs.FenFacts spec.IterSpec.
From Chess Require proofs.BridgeFacts.
From Chess Require Import proofs.HashFacts proofs.InvFacts proofs.LegalDefs proofs.AttackDefs.
Import ListNotations.
Local Open Scope N_scope.

(* ------------------------------------------------------------------ *)
(** * 0. Small generic facts *)

Lemma none_false_intro : forall a s, mem a s = true -> none a = false.
Proof. intros a s H. unfold none. exact (eqb0_false_intro a s H). Qed.

Lemma none_true_mem : forall a s, none a = true -> mem a s = false.
Proof. intros a s H. unfold none in H. apply N.eqb_eq in H. rewrite H. apply mem_0. Qed.

Lemma any_false_mem : forall a s, any a = false -> mem a s = false.
Proof. intros a s H. apply none_true_mem. rewrite any_none in H. apply negb_false_iff in H. exact H. Qed.

Lemma part_pieces_at : forall b s c p q, Part b -> s < 64 -> raw_get b s = Some (c, p) -> mem (pieces b q) s = true -> q = p.
Proof.
  intros b s c p q P Hs H Hq.
  apply (raw_get_spec b P s Hs) in H. destruct H as [Hc Hp].
  destruct (raw_get_unique b P s c p c q Hs Hc Hp Hc Hq) as [_ E]. symmetry. exact E.
Qed.

Lemma raw_pieces : forall b s c p, Part b -> s < 64 -> raw_get b s = Some (c, p) -> mem (pieces b p) s = true.
Proof. intros b s c p P Hs H. apply (raw_get_spec b P s Hs) in H. apply H. Qed.

Lemma wf64_all_occ_H : forall x, Part x -> wf64 (all_occ x).
Proof.
  intros x P. unfold all_occ. apply wf64_or; [exact (part_wf_colors x P White)|exact (part_wf_colors x P Black)].
Qed.

Lemma occ_raw : forall x s, Part x -> s < 64 ->
  mem (all_occ x) s = match raw_get x s with Some _ => true | None => false end.
Proof.
  intros x s P Ls. destruct (raw_get x s) as [cp|] eqn:E.
  - exact (raw_some_occ x s cp P Ls E).
  - apply (raw_get_spec x P s Ls). exact E.
Qed.

(* ------------------------------------------------------------------ *)
(** * 1. The successor of an en-passant capture *)

Section EP.
  Variables (b : board) (src f : N).
  Hypothesis G : Good b.
  Hypothesis Ef : b_ep b = Some f.
  Hypothesis Hs : src < 64.
  Hypothesis Hraw : raw_get b src = Some (b_turn b, Pawn).
  Hypothesis Hmem : mem (bb_and (from_rank (ep_pawn_rank_of (b_turn b))) (adjacent_files f)) src = true.

  Local Notation dest := (mk_sq f (ep_capture_rank_of (b_turn b))).
  Local Notation vic := (mk_sq f (ep_pawn_rank_of (b_turn b))).
  Local Notation m := {| m_src := src; m_dst := mk_sq f (ep_capture_rank_of (b_turn b)); m_promo := None |}.
  Local Notation occ' := (bb_or (bb_diff (bb_diff (all_occ b) (from_pos src)) (from_pos (mk_sq f (ep_pawn_rank_of (b_turn b)))))
                                (from_pos (mk_sq f (ep_capture_rank_of (b_turn b))))).

  Lemma ep_P : Part b. Proof. exact (inv_part b (good_inv b G)). Qed.
  Lemma ep_f : f < 8. Proof. exact (proj1 (inv_ep b (good_inv b G) f Ef)). Qed.
  Lemma ep_dest_none : raw_get b dest = None. Proof. exact (proj1 (proj2 (inv_ep b (good_inv b G) f Ef))). Qed.
  Lemma ep_vic_raw : raw_get b vic = Some (opp (b_turn b), Pawn). Proof. exact (proj2 (proj2 (inv_ep b (good_inv b G) f Ef))). Qed.
  Lemma ep_dest_lt : dest < 64.
  Proof. pose proof ep_f as Hf. clear Hs Hraw Hmem. apply mk_sq_lt64; [lia|destruct (b_turn b); cbn [ep_capture_rank_of]; lia]. Qed.
  Lemma ep_vic_lt : vic < 64.
  Proof. pose proof ep_f as Hf. clear Hs Hraw Hmem. apply mk_sq_lt64; [lia|destruct (b_turn b); cbn [ep_pawn_rank_of]; lia]. Qed.
  Lemma ep_src_dest : src <> dest.
  Proof. intros E. pose proof ep_dest_none as H. rewrite <- E, Hraw in H. discriminate H. Qed.
  Lemma ep_src_vic : src <> vic.
  Proof. intros E. pose proof ep_vic_raw as H. rewrite <- E, Hraw in H. injection H as H. exact (opp_neq _ (eq_sym H)). Qed.
  Lemma ep_vic_dest : vic <> dest.
  Proof. intros E. pose proof ep_vic_raw as H. rewrite E, ep_dest_none in H. discriminate H. Qed.

  Lemma ep_src_rank : mem (from_rank (ep_pawn_rank_of (b_turn b))) src = true.
  Proof. rewrite mem_and in Hmem. apply andb_true_iff in Hmem. apply Hmem. Qed.

  Lemma ep_move_ok : move_ok b m Pawn false.
  Proof.
    constructor; cbn [m_src m_dst m_promo].
    - exact Hs.
    - exact ep_dest_lt.
    - exact Hraw.
    - apply (DK_ep b Pawn src dest false f); [reflexivity|exact Ef|reflexivity|exact ep_src_rank|reflexivity].
    - intros H; discriminate H.
    - reflexivity.
    - intros H; discriminate H.
  Qed.

  Lemma ep_not_double : is_double_push (b_turn b) m = false.
  Proof.
    destruct (is_double_push (b_turn b) m) eqn:E; [exfalso|reflexivity].
    rewrite is_double_push_eq in E. cbn [m_src m_dst] in E.
    destruct (mv_bb_ends _ _ Hs ep_dest_lt ep_src_dest) as [M1 _].
    pose proof (subset_eqb _ _ _ E M1) as D1.
    pose proof (both_spec _ (all_sq_spec _ sweep_ep_src _ Hs) (b_turn b)) as S2. cbv beta in S2.
    rewrite ep_src_rank, D1 in S2. discriminate S2.
  Qed.

  Lemma ep_after5 : forall s, after5 b m Pawn s =
    if s =? vic then None else if s =? src then None else if s =? dest then Some (b_turn b, Pawn) else raw_get b s.
  Proof.
    intros s. unfold after5. cbv zeta. cbn [m_promo]. rewrite ep_not_double, enpassant_pos_eq, Ef.
    cbn [m_dst]. rewrite N.eqb_refl. unfold ep_victim_sq. cbn [m_dst]. rewrite (file_of_mk_sq f _ ep_f).
    unfold moved. cbn [m_src m_dst]. reflexivity.
  Qed.

  (* ---- with the successor placement (AT6) ---- *)
  Hypothesis AT6 : after_move_statement.

  Lemma ep_P' : Part (apply b m).
  Proof. exact (proj1 (AT6 b m Pawn false G ep_move_ok)). Qed.

  Lemma ep_raw' : forall s, s < 64 -> raw_get (apply b m) s =
    if s =? vic then None else if s =? src then None else if s =? dest then Some (b_turn b, Pawn) else raw_get b s.
  Proof. intros s Ls. rewrite (proj2 (AT6 b m Pawn false G ep_move_ok) s Ls). apply ep_after5. Qed.

  Lemma ep_occ' : all_occ (apply b m) = occ'.
  Proof.
    apply ext64.
    - exact (wf64_all_occ_H _ ep_P').
    - apply wf64_or; [apply wf64_diff|apply wf64_from_pos].
    - intros s Ls. rewrite mem_or, !mem_diff, !mem_from_pos by (assumption || exact ep_vic_lt || exact ep_dest_lt).
      rewrite (occ_raw _ s ep_P' Ls), (occ_raw b s ep_P Ls), (ep_raw' s Ls).
      destruct (N.eqb_spec s vic) as [E1|N1].
      + rewrite andb_false_r. cbn [orb].
        destruct (N.eqb_spec s dest) as [E2|_]; [exfalso; apply ep_vic_dest; congruence|reflexivity].
      + destruct (N.eqb_spec s src) as [E2|N2].
        * rewrite andb_false_r. cbn [andb orb].
          destruct (N.eqb_spec s dest) as [E3|_]; [exfalso; apply ep_src_dest; congruence|reflexivity].
        * rewrite !andb_true_r. destruct (N.eqb_spec s dest) as [E3|N3].
          -- rewrite orb_true_r. reflexivity.
          -- rewrite orb_false_r. reflexivity.
  Qed.

  (* the enemy men of the successor are the enemy men minus the victim *)
  Lemma ep_enemy' : forall t pc, t < 64 ->
    (raw_get (apply b m) t = Some (opp (b_turn b), pc) <-> t <> vic /\ raw_get b t = Some (opp (b_turn b), pc)).
  Proof.
    intros t pc Lt. rewrite (ep_raw' t Lt). split.
    - intros H. destruct (N.eqb_spec t vic) as [_|N1]; [discriminate H|].
      destruct (N.eqb_spec t src) as [_|N2]; [discriminate H|].
      destruct (N.eqb_spec t dest) as [_|N3].
      + injection H as H _. exfalso. exact (opp_neq _ (eq_sym H)).
      + split; assumption.
    - intros [N1 H]. destruct (N.eqb_spec t vic) as [E|_]; [contradiction|].
      destruct (N.eqb_spec t src) as [E|_].
      + rewrite E, Hraw in H. injection H as H. exfalso. exact (opp_neq _ (eq_sym H)).
      + destruct (N.eqb_spec t dest) as [E|_]; [|exact H].
        rewrite E, ep_dest_none in H. discriminate H.
  Qed.
End EP.

(* ------------------------------------------------------------------ *)
(** * 2. (E): safe_after = is_legal_en_passant *)

Lemma mem_opp_minus : forall b v t, v < 64 -> t < 64 ->
  mem (bb_diff (colors b (opp (b_turn b))) (from_pos v)) t = mem (colors b (opp (b_turn b))) t && negb (t =? v).
Proof. intros b v t Lv Lt. rewrite mem_diff, mem_from_pos by assumption. reflexivity. Qed.

Lemma minus_lt : forall a v t, mem (bb_diff a v) t = true -> t < 64.
Proof. intros a v t H. exact (mem_lt64 _ t (wf64_diff a v) H). Qed.

(* the two branches of is_legal_en_passant *)
Definition ep_steppers (b : board) (v : N) : N :=
  bb_and (b_checkers b) (bb_and (bb_or (b_knight b) (b_pawn b)) (bb_diff (colors b (opp (b_turn b))) (from_pos v))).
Definition ep_sliders (b : board) (s d v k : N) : N :=
  let opp_bb := bb_diff (colors b (opp (b_turn b))) (from_pos v) in
  let occ := bb_or (bb_diff (bb_diff (all_occ b) (from_pos s)) (from_pos v)) (from_pos d) in
  bb_or (bb_and (bishop_attacks k occ) (bb_and (bb_or (b_bishop b) (b_queen b)) opp_bb))
        (bb_and (rook_attacks k occ) (bb_and (bb_or (b_rook b) (b_queen b)) opp_bb)).

Lemma ilep_unfold : forall b s d v k,
  is_legal_en_passant b s d v k = if any (ep_steppers b v) then false else none (ep_sliders b s d v k).
Proof. reflexivity. Qed.

(* a man of the enemy, not the victim, that is a knight or a pawn and gives check: first branch *)
Lemma ep_steppers_intro : forall b v t pc, Part b -> v < 64 -> t < 64 -> t <> v ->
  raw_get b t = Some (opp (b_turn b), pc) -> (pc = Knight \/ pc = Pawn) -> mem (b_checkers b) t = true ->
  mem (ep_steppers b v) t = true.
Proof.
  intros b v t pc P Lv Lt Nv Hr Hpc Hc. unfold ep_steppers.
  rewrite !mem_and, Hc, mem_or, (mem_opp_minus b v t Lv Lt), (raw_some_color b t _ pc P Lt Hr).
  apply N.eqb_neq in Nv. rewrite Nv. pose proof (raw_pieces b t _ pc P Lt Hr) as Hp.
  destruct Hpc as [-> | ->]; cbn [pieces] in Hp; rewrite Hp; [reflexivity|rewrite orb_true_r; reflexivity].
Qed.

Lemma ep_sliders_intro : forall b s d v k t pc, Part b -> v < 64 -> t < 64 -> t <> v ->
  raw_get b t = Some (opp (b_turn b), pc) -> (pc = Bishop \/ pc = Rook \/ pc = Queen) ->
  att_from pc (opp (b_turn b)) k (bb_or (bb_diff (bb_diff (all_occ b) (from_pos s)) (from_pos v)) (from_pos d)) t = true ->
  mem (ep_sliders b s d v k) t = true.
Proof.
  intros b s d v k t pc P Lv Lt Nv Hr Hpc Ha. unfold ep_sliders. cbv zeta.
  rewrite mem_or, !mem_and, !mem_or, (mem_opp_minus b v t Lv Lt), (raw_some_color b t _ pc P Lt Hr).
  apply N.eqb_neq in Nv. rewrite Nv. pose proof (raw_pieces b t _ pc P Lt Hr) as Hp.
  destruct Hpc as [-> | [-> | ->]]; cbn [pieces] in Hp; cbn [att_from] in Ha; rewrite Hp.
  - rewrite Ha. reflexivity.
  - rewrite Ha. cbn [andb orb negb]. apply orb_true_r.
  - rewrite !orb_true_r. cbn [andb negb]. rewrite !andb_true_r. exact Ha.
Qed.

Lemma ep_steppers_elim : forall b v t, Part b -> v < 64 -> mem (ep_steppers b v) t = true ->
  t < 64 /\ t <> v /\ mem (b_checkers b) t = true /\
  exists pc, (pc = Knight \/ pc = Pawn) /\ raw_get b t = Some (opp (b_turn b), pc).
Proof.
  intros b v t P Lv H. unfold ep_steppers in H. rewrite !mem_and in H.
  apply andb_true_iff in H. destruct H as [Hc H]. apply andb_true_iff in H. destruct H as [Hp Ho].
  pose proof (minus_lt _ _ _ Ho) as Lt. rewrite (mem_opp_minus b v t Lv Lt) in Ho.
  apply andb_true_iff in Ho. destruct Ho as [Ho Nv]. apply negb_true_iff, N.eqb_neq in Nv.
  split; [exact Lt|split; [exact Nv|split; [exact Hc|]]].
  rewrite mem_or in Hp. apply orb_true_iff in Hp. destruct Hp as [Hp|Hp].
  - exists Knight. split; [left; reflexivity|exact (raw_of_mem b t _ Knight P Lt Ho Hp)].
  - exists Pawn. split; [right; reflexivity|exact (raw_of_mem b t _ Pawn P Lt Ho Hp)].
Qed.

Lemma ep_sliders_elim : forall b s d v k t, Part b -> v < 64 -> mem (ep_sliders b s d v k) t = true ->
  t < 64 /\ t <> v /\
  exists pc, (pc = Bishop \/ pc = Rook \/ pc = Queen) /\ raw_get b t = Some (opp (b_turn b), pc) /\
    att_from pc (opp (b_turn b)) k (bb_or (bb_diff (bb_diff (all_occ b) (from_pos s)) (from_pos v)) (from_pos d)) t = true.
Proof.
  intros b s d v k t P Lv H. unfold ep_sliders in H. cbv zeta in H. rewrite mem_or, !mem_and in H.
  assert (Q : exists X pcs, mem X t = true /\ mem pcs t = true /\
                mem (bb_diff (colors b (opp (b_turn b))) (from_pos v)) t = true /\
                ((X = bishop_attacks k (bb_or (bb_diff (bb_diff (all_occ b) (from_pos s)) (from_pos v)) (from_pos d))
                  /\ pcs = bb_or (b_bishop b) (b_queen b)) \/
                 (X = rook_attacks k (bb_or (bb_diff (bb_diff (all_occ b) (from_pos s)) (from_pos v)) (from_pos d))
                  /\ pcs = bb_or (b_rook b) (b_queen b)))).
  { apply orb_true_iff in H. destruct H as [H|H]; apply andb_true_iff in H; destruct H as [H1 H];
      apply andb_true_iff in H; destruct H as [H2 H3]; eexists; eexists;
      (split; [exact H1|split; [exact H2|split; [exact H3|]]]); [left|right]; split; reflexivity. }
  destruct Q as (X & pcs & H1 & H2 & H3 & HX).
  pose proof (minus_lt _ _ _ H3) as Lt. rewrite (mem_opp_minus b v t Lv Lt) in H3.
  apply andb_true_iff in H3. destruct H3 as [Ho Nv]. apply negb_true_iff, N.eqb_neq in Nv.
  split; [exact Lt|split; [exact Nv|]].
  destruct HX as [[-> ->]|[-> ->]]; rewrite mem_or in H2; apply orb_true_iff in H2; destruct H2 as [Hp|Hp].
  - exists Bishop. split; [left; reflexivity|split; [exact (raw_of_mem b t _ Bishop P Lt Ho Hp)|exact H1]].
  - exists Queen. split; [right; right; reflexivity|split; [exact (raw_of_mem b t _ Queen P Lt Ho Hp)|]].
    cbn [att_from]. rewrite H1. reflexivity.
  - exists Rook. split; [right; left; reflexivity|split; [exact (raw_of_mem b t _ Rook P Lt Ho Hp)|exact H1]].
  - exists Queen. split; [right; right; reflexivity|split; [exact (raw_of_mem b t _ Queen P Lt Ho Hp)|]].
    cbn [att_from]. rewrite H1. apply orb_true_r.
Qed.

(* knights, pawns and kings do not care about the occupancy *)
Lemma att_from_leaper : forall pc c s occ1 occ2 t, pc = Knight \/ pc = Pawn \/ pc = King ->
  att_from pc c s occ1 t = att_from pc c s occ2 t.
Proof. intros pc c s occ1 occ2 t [-> | [-> | ->]]; reflexivity. Qed.

Theorem ep_exact_min :
  kings_statement -> checkers_spec_statement -> after_move_statement -> safe_after_spec_statement -> ep_statement.
Proof.
  intros AT3 AT4 AT6 AT7 b src f G Ef Hs Hraw Hmem.
  pose proof (ep_P b G) as P.
  pose proof (ep_vic_lt b f G Ef) as Lv.
  pose proof (ep_move_ok b src f G Ef Hs Hraw Hmem) as MO.
  destruct (AT7 b _ Pawn false G MO) as [_ SA]. cbv zeta in SA. change (piece_eqb Pawn King) with false in SA. cbv iota in SA.
  rewrite (ep_occ' b src f G Ef Hs Hraw Hmem AT6) in SA.
  apply eq_iff_eq_true. rewrite SA. clear SA. rewrite ilep_unfold. split.
  - intros H. destruct (any (ep_steppers b _)) eqn:EA.
    + exfalso. apply BridgeFacts.any_iff in EA. destruct EA as [t Ht].
      destruct (ep_steppers_elim b _ t P Lv Ht) as (Lt & Nv & Hc & pc & Hpc & Hr).
      apply (AT4 b t G) in Hc. destruct Hc as (_ & pc2 & Hr2 & _ & Ha).
      rewrite Hr in Hr2. injection Hr2 as <-.
      assert (Hr' : raw_get (apply b {| m_src := src; m_dst := mk_sq f (ep_capture_rank_of (b_turn b)); m_promo := None |}) t
                    = Some (opp (b_turn b), pc)).
      { apply (ep_enemy' b src f G Ef Hs Hraw Hmem AT6 t pc Lt). split; assumption. }
      specialize (H t pc Lt Hr').
      rewrite (att_from_leaper pc _ _ _ (all_occ b) t) in H by (destruct Hpc; auto). congruence.
    + destruct (none (ep_sliders b src _ _ (ksq b))) eqn:EN; [reflexivity|exfalso].
      assert (EA2 : any (ep_sliders b src (mk_sq f (ep_capture_rank_of (b_turn b))) (mk_sq f (ep_pawn_rank_of (b_turn b))) (ksq b)) = true)
        by (rewrite any_none, EN; reflexivity).
      apply BridgeFacts.any_iff in EA2. destruct EA2 as [t Ht].
      destruct (ep_sliders_elim b _ _ _ _ t P Lv Ht) as (Lt & Nv & pc & Hpc & Hr & Ha).
      assert (Hr' : raw_get (apply b {| m_src := src; m_dst := mk_sq f (ep_capture_rank_of (b_turn b)); m_promo := None |}) t
                    = Some (opp (b_turn b), pc)).
      { apply (ep_enemy' b src f G Ef Hs Hraw Hmem AT6 t pc Lt). split; assumption. }
      specialize (H t pc Lt Hr'). congruence.
  - intros H t pc Lt Hr'.
    apply (ep_enemy' b src f G Ef Hs Hraw Hmem AT6 t pc Lt) in Hr'. destruct Hr' as [Nv Hr].
    destruct (any (ep_steppers b _)) eqn:EA; [discriminate H|].
    destruct (att_from pc (opp (b_turn b)) (ksq b) _ t) eqn:Ha; [exfalso|reflexivity].
    destruct (AT3 b (b_turn b) G) as (Lk & _ & _ & Hkk).
    assert (Step : pc = Knight \/ pc = Pawn -> False).
    { intros Hpc.
      assert (Hc : mem (b_checkers b) t = true).
      { apply (AT4 b t G). split; [exact Lt|]. exists pc. split; [exact Hr|split].
        - destruct Hpc as [-> | ->]; discriminate.
        - rewrite <- Ha. apply att_from_leaper. destruct Hpc; auto. }
      pose proof (ep_steppers_intro b _ t pc P Lv Lt Nv Hr Hpc Hc) as Hm.
      rewrite (any_false_mem _ t EA) in Hm. discriminate Hm. }
    assert (Slide : pc = Bishop \/ pc = Rook \/ pc = Queen -> False).
    { intros Hpc. pose proof (ep_sliders_intro b src _ _ (ksq b) t pc P Lv Lt Nv Hr Hpc Ha) as Hm.
      rewrite (none_true_mem _ t H) in Hm. discriminate Hm. }
    destruct pc.
    + apply Step. right. reflexivity.
    + apply Step. left. reflexivity.
    + apply Slide. left. reflexivity.
    + apply Slide. right. left. reflexivity.
    + apply Slide. right. right. reflexivity.
    + destruct (AT3 b (opp (b_turn b)) G) as (_ & _ & Uniq & _).
      rewrite (Uniq t Lt Hr) in Ha. cbn [att_from] in Ha. unfold ksq in Ha. rewrite Hkk in Ha. discriminate Ha.
Qed.

Theorem ep_exact :
  attackers_mem_statement -> slider_att_statement -> kings_statement -> checkers_spec_statement ->
  after_move_statement -> safe_after_spec_statement -> ep_statement.
Proof. intros _ _. exact ep_exact_min. Qed.

(* ------------------------------------------------------------------ *)
(** * 3. Double check: is_legal_en_passant answers false *)

(* --- two distinct members of a set of at least two --- *)
Lemma two_in_list : forall l : list N, NoDup l -> 2 <= N.of_nat (length l) ->
  exists x y, x <> y /\ In x l /\ In y l.
Proof.
  intros l ND H. destruct l as [|x [|y r]]; [cbn [length] in H; lia|cbn [length] in H; lia|].
  exists x, y. split; [|split; [left; reflexivity|right; left; reflexivity]].
  intros E. apply NoDup_cons_iff in ND. apply (proj1 ND). left. symmetry. exact E.
Qed.

Lemma two_members : forall a, wf64 a -> 2 <= count a ->
  exists s1 s2, s1 <> s2 /\ s1 < 64 /\ s2 < 64 /\ mem a s1 = true /\ mem a s2 = true.
Proof.
  intros a W H. rewrite (count_spec a W) in H.
  destruct (two_in_list _ (elements_NoDup a) H) as (x & y & Hne & Hx & Hy).
  destruct (proj1 (elements_spec a x) Hx) as [Lx Mx]. destruct (proj1 (elements_spec a y) Hy) as [Ly My].
  exists x, y. repeat split; assumption.
Qed.

(* --- prefixes of a ray --- *)
Lemma before_In : forall l s p x, Geometry.before s l = Some p -> In x p -> In x l.
Proof.
  induction l as [|y r IH]; intros s p x H Hin; [discriminate H|].
  rewrite BridgeFacts.before_unfold in H. destruct (y =? s).
  - injection H as <-. destruct Hin.
  - destruct (Geometry.before s r) as [p'|] eqn:E; [|discriminate H]. injection H as <-.
    destruct Hin as [->|Hin]; [left; reflexivity|right; exact (IH s p' x E Hin)].
Qed.

Lemma before_two : forall l a c pa pc, Geometry.before a l = Some pa -> Geometry.before c l = Some pc -> a <> c -> In a pc \/ In c pa.
Proof.
  induction l as [|y r IH]; intros a c pa pc Ha Hc Hne; [discriminate Ha|].
  rewrite BridgeFacts.before_unfold in Ha, Hc.
  destruct (N.eqb_spec y a) as [Ea|Na].
  - destruct (N.eqb_spec y c) as [Ec|Nc]; [exfalso; apply Hne; congruence|].
    destruct (Geometry.before c r) as [p'|]; [|discriminate Hc]. injection Hc as <-. left. left. exact Ea.
  - destruct (Geometry.before a r) as [pa'|] eqn:E1; [|discriminate Ha]. injection Ha as <-.
    destruct (N.eqb_spec y c) as [Ec|Nc].
    + right. left. exact Ec.
    + destruct (Geometry.before c r) as [pc'|] eqn:E2; [|discriminate Hc]. injection Hc as <-.
      destruct (IH a c pa' pc' E1 E2 Hne) as [H|H]; [left|right]; right; exact H.
Qed.

Lemma slider_kind_ray : forall pc k t, slider_kind pc k t = true -> exists d, In t (ray d k).
Proof.
  intros pc k t H.
  assert (Q : mem (rays_set bishop_dirs k) t = true \/ mem (rays_set rook_dirs k) t = true).
  { destruct pc; cbn [slider_kind] in H; try discriminate H.
    - left; exact H.
    - right; exact H.
    - apply orb_true_iff in H. exact H. }
  destruct Q as [Q|Q]; apply BridgeFacts.mem_rays_set in Q; destruct Q as [d [_ Hd]]; exists d; exact Hd.
Qed.

(* two distinct occupied squares, each seen from k along a ray with nothing in between: no square is strictly
   between k and both of them *)
Lemma two_rays_one_block : forall k occ t1 t2 pc1 pc2 x, k < 64 -> t1 <> t2 ->
  slider_kind pc1 k t1 = true -> slider_kind pc2 k t2 = true ->
  mem occ t1 = true -> mem occ t2 = true ->
  none (bb_and occ (between_geo k t1)) = true -> none (bb_and occ (between_geo k t2)) = true ->
  mem (between_geo k t1) x = false \/ mem (between_geo k t2) x = false.
Proof.
  intros k occ t1 t2 pc1 pc2 x Lk Hne K1 K2 O1 O2 N1 N2.
  destruct (mem (between_geo k t1) x) eqn:B1; [|left; reflexivity].
  destruct (mem (between_geo k t2) x) eqn:B2; [exfalso|right; reflexivity].
  destruct (slider_kind_ray _ _ _ K1) as [d1 R1]. destruct (slider_kind_ray _ _ _ K2) as [d2 R2].
  destruct (BridgeFacts.between_ray k d1 t1 Lk R1) as (p1 & Hb1 & Eb1).
  destruct (BridgeFacts.between_ray k d2 t2 Lk R2) as (p2 & Hb2 & Eb2).
  assert (X1 : In x p1) by (apply BridgeFacts.mem_set_of_In; rewrite <- Eb1; exact B1).
  assert (X2 : In x p2) by (apply BridgeFacts.mem_set_of_In; rewrite <- Eb2; exact B2).
  assert (d1 = d2) as <- by exact (BridgeFacts.rays_disjoint d1 d2 k x Lk (before_In _ _ _ _ Hb1 X1) (before_In _ _ _ _ Hb2 X2)).
  destruct (before_two _ t1 t2 p1 p2 Hb1 Hb2 Hne) as [H|H].
  - apply BridgeFacts.mem_set_of_In in H. rewrite <- Eb2 in H.
    pose proof (none_true_mem _ t1 N2) as Q. rewrite mem_and, O1, H in Q. discriminate Q.
  - apply BridgeFacts.mem_set_of_In in H. rewrite <- Eb1 in H.
    pose proof (none_true_mem _ t2 N1) as Q. rewrite mem_and, O2, H in Q. discriminate Q.
Qed.

(* the king stands on a square the victim pawn attacks: the capture square is a knight's move away from the king,
   never strictly between the king and anything *)
Definition chk_ep_knight (k t : N) : bool :=
  both (fun c => forallb (fun f => implb (mem (pawn_att_geo c k) (mk_sq f (ep_pawn_rank_of c)))
                                       (negb (mem (between_geo k t) (mk_sq f (ep_capture_rank_of c))))) (seqN 0 8)).
Lemma sweep_ep_knight : all_sq2 chk_ep_knight = true.
Proof. vm_compute. reflexivity. Qed.

Lemma ep_knight_offset : forall c k t f, k < 64 -> t < 64 -> f < 8 ->
  mem (pawn_att_geo c k) (mk_sq f (ep_pawn_rank_of c)) = true ->
  mem (between_geo k t) (mk_sq f (ep_capture_rank_of c)) = false.
Proof.
  intros c k t f Lk Lt Lf H.
  pose proof (both_spec _ (all_sq2_spec _ sweep_ep_knight k t Lk Lt) c) as S. cbv beta in S.
  pose proof (forall_lt8 _ S f Lf) as S2. cbv beta in S2. rewrite H in S2. cbn [implb] in S2.
  apply negb_true_iff in S2. exact S2.
Qed.

(* an attacking slider keeps attacking unless the capture square steps in between *)
Lemma slider_still : slider_att_statement ->
  forall pc c k occ s v d t, k < 64 -> (pc = Bishop \/ pc = Rook \/ pc = Queen) ->
  att_from pc c k occ t = true -> mem (between_geo k t) d = false ->
  att_from pc c k (bb_or (bb_diff (bb_diff occ (from_pos s)) (from_pos v)) (from_pos d)) t = true.
Proof.
  intros AT2 pc c k occ s v d t Lk Hpc Ha Hd.
  rewrite (AT2 pc c k _ t Lk Hpc). rewrite (AT2 pc c k occ t Lk Hpc) in Ha.
  apply andb_true_iff in Ha. destruct Ha as [Hk Hn]. rewrite Hk. cbn [andb].
  unfold none. apply eqb0_true_intro. intros x.
  rewrite mem_and. destruct (mem (between_geo k t) x) eqn:Bx; [|apply andb_false_r]. rewrite andb_true_r.
  rewrite mem_or, !mem_diff_full, !mem_from_pos_full.
  destruct (mem occ x) eqn:Ox.
  - pose proof (none_true_mem _ x Hn) as Q. rewrite mem_and, Ox, Bx in Q. discriminate Q.
  - cbn [andb orb]. destruct (N.eqb_spec x d) as [->|_]; [|apply andb_false_r].
    rewrite Hd in Bx. discriminate Bx.
Qed.

Theorem ep_double_check_min :
  slider_att_statement -> kings_statement -> checkers_spec_statement ->
  forall b src f, Good b -> b_ep b = Some f -> src < 64 -> raw_get b src = Some (b_turn b, Pawn) ->
    mem (bb_and (from_rank (ep_pawn_rank_of (b_turn b))) (adjacent_files f)) src = true ->
    (2 <= count (b_checkers b)) ->
    is_legal_en_passant b src (mk_sq f (ep_capture_rank_of (b_turn b))) (mk_sq f (ep_pawn_rank_of (b_turn b))) (ksq b) = false.
Proof.
  intros AT2 AT3 AT4 b src f G Ef Hs Hraw Hmem Hcnt.
  pose proof (ep_P b G) as P.
  pose proof (ep_f b f G Ef) as Lf.
  pose proof (ep_vic_lt b f G Ef) as Lv.
  pose proof (ep_vic_raw b f G Ef) as Hvic.
  destruct (AT3 b (b_turn b) G) as (Lk & _ & _ & _). fold (ksq b) in Lk.
  rewrite ilep_unfold. destruct (any (ep_steppers b _)) eqn:EA; [reflexivity|].
  (* what a checker can be *)
  assert (Cls : forall t, mem (b_checkers b) t = true ->
            t < 64 /\ exists pc, raw_get b t = Some (opp (b_turn b), pc) /\
              att_from pc (opp (b_turn b)) (ksq b) (all_occ b) t = true /\
              ((t = mk_sq f (ep_pawn_rank_of (b_turn b)) /\ pc = Pawn) \/
               (t <> mk_sq f (ep_pawn_rank_of (b_turn b)) /\ (pc = Bishop \/ pc = Rook \/ pc = Queen)))).
  { intros t Hc. destruct (proj1 (AT4 b t G) Hc) as (Lt & pc & Hr & NK & Ha).
    split; [exact Lt|]. exists pc. split; [exact Hr|split; [exact Ha|]].
    destruct (N.eq_dec t (mk_sq f (ep_pawn_rank_of (b_turn b)))) as [E|Nv].
    - left. split; [exact E|]. rewrite E, Hvic in Hr. injection Hr as <-. reflexivity.
    - right. split; [exact Nv|].
      assert (Step : pc = Knight \/ pc = Pawn -> False).
      { intros Hpc. pose proof (ep_steppers_intro b _ t pc P Lv Lt Nv Hr Hpc Hc) as Hm.
        rewrite (any_false_mem _ t EA) in Hm. discriminate Hm. }
      destruct pc; auto; exfalso; [apply Step; right; reflexivity|apply Step; left; reflexivity|apply NK; reflexivity]. }
  (* a slider that still attacks refutes the second branch *)
  assert (Fin : forall t pc, t < 64 -> t <> mk_sq f (ep_pawn_rank_of (b_turn b)) ->
            raw_get b t = Some (opp (b_turn b), pc) -> (pc = Bishop \/ pc = Rook \/ pc = Queen) ->
            att_from pc (opp (b_turn b)) (ksq b) (all_occ b) t = true ->
            mem (between_geo (ksq b) t) (mk_sq f (ep_capture_rank_of (b_turn b))) = false ->
            none (ep_sliders b src (mk_sq f (ep_capture_rank_of (b_turn b))) (mk_sq f (ep_pawn_rank_of (b_turn b))) (ksq b)) = false).
  { intros t pc Lt Nv Hr Hpc Ha Hb. apply (none_false_intro _ t).
    apply (ep_sliders_intro b src _ _ (ksq b) t pc P Lv Lt Nv Hr Hpc).
    exact (slider_still AT2 pc _ (ksq b) (all_occ b) src _ _ t Lk Hpc Ha Hb). }
  (* the victim gives check: the other checker is not blocked *)
  assert (Vic : forall t, t < 64 ->
            att_from Pawn (opp (b_turn b)) (ksq b) (all_occ b) (mk_sq f (ep_pawn_rank_of (b_turn b))) = true ->
            mem (between_geo (ksq b) t) (mk_sq f (ep_capture_rank_of (b_turn b))) = false).
  { intros t Lt Ha. cbn [att_from] in Ha. rewrite opp_opp in Ha.
    exact (ep_knight_offset (b_turn b) (ksq b) t f Lk Lt Lf Ha). }
  destruct (two_members _ (part_wf_checkers b P) Hcnt) as (c1 & c2 & Hne & _ & _ & M1 & M2).
  destruct (Cls c1 M1) as (L1 & pc1 & Hr1 & Ha1 & K1). destruct (Cls c2 M2) as (L2 & pc2 & Hr2 & Ha2 & K2).
  destruct K1 as [[E1 Ep1]|[Nv1 Hp1]]; destruct K2 as [[E2 Ep2]|[Nv2 Hp2]].
  - exfalso. apply Hne. congruence.
  - subst c1 pc1. exact (Fin c2 pc2 L2 Nv2 Hr2 Hp2 Ha2 (Vic c2 L2 Ha1)).
  - subst c2 pc2. exact (Fin c1 pc1 L1 Nv1 Hr1 Hp1 Ha1 (Vic c1 L1 Ha2)).
  - pose proof Ha1 as A1. pose proof Ha2 as A2.
    rewrite (AT2 pc1 _ (ksq b) _ c1 Lk Hp1) in A1. rewrite (AT2 pc2 _ (ksq b) _ c2 Lk Hp2) in A2.
    apply andb_true_iff in A1, A2. destruct A1 as [S1 N1]. destruct A2 as [S2 N2].
    destruct (two_rays_one_block (ksq b) (all_occ b) c1 c2 pc1 pc2 (mk_sq f (ep_capture_rank_of (b_turn b))) Lk Hne S1 S2
                (raw_some_occ b c1 _ P L1 Hr1) (raw_some_occ b c2 _ P L2 Hr2) N1 N2) as [B|B].
    + exact (Fin c1 pc1 L1 Nv1 Hr1 Hp1 Ha1 B).
    + exact (Fin c2 pc2 L2 Nv2 Hr2 Hp2 Ha2 B).
Qed.

Theorem ep_double_check :
  attackers_mem_statement -> slider_att_statement -> kings_statement -> checkers_spec_statement ->
  forall b src f, Good b -> b_ep b = Some f -> src < 64 -> raw_get b src = Some (b_turn b, Pawn) ->
    mem (bb_and (from_rank (ep_pawn_rank_of (b_turn b))) (adjacent_files f)) src = true ->
    (2 <= count (b_checkers b)) ->
    is_legal_en_passant b src (mk_sq f (ep_capture_rank_of (b_turn b))) (mk_sq f (ep_pawn_rank_of (b_turn b))) (ksq b) = false.
Proof. intros _. exact ep_double_check_min. Qed.

Print Assumptions ep_exact.
Print Assumptions ep_double_check.
