(* C07 -- "the safe API never violates an unchecked-operation precondition".
   The unchecked sites of chess-movegen and the fact that discharges each of them:
     - movelist.push_unchecked into ArrayVec<_, 18> (iter/pieces.rs)   : collect_moves_capacity
     - king_sq -> pop_unchecked on (colors & kings)                    : king_sq_valid, has_kings_nonempty
     - check_mask -> pop_unchecked on checkers                         : check_mask_single
     - CastleRights::to_index -> unreachable_unchecked when >= 16      : rights_preserved
     - u16 saturating clocks                                           : clocks_bounded
     - MoveGen::next -> pop_unchecked on (moves & mask), promotion idx : next_site_nonempty, next_site_promo
   Axiom-free. *)
From Coq Require Import NArith ZArith List Bool Lia ZifyBool ZifyN Sorted Permutation.
From Chess Require spec.Rules.
From Chess Require Import base.Bits base.Types base.BitBoard base.Sweep geom.Geometry model.Board model.MoveGen
  model.Apply proofs.BitsFacts proofs.BitBoardFacts spec.IterSpec proofs.IterFacts.
Import ListNotations.
Local Open Scope N_scope.

(* ------------------------------------------------------------------ *)
(** * A small cardinality library: card a = number of squares of a *)

Notation card a := (length (elements a)) (only parsing).

Lemma filter_len_le : forall (A : Type) (f g : A -> bool) l,
  (forall x, f x = true -> g x = true) -> (length (filter f l) <= length (filter g l))%nat.
Proof.
  intros A f g l H. induction l as [|x l IH]; [apply le_n|].
  cbn [filter]. destruct (f x) eqn:E.
  - rewrite (H x E). cbn [length]. lia.
  - destruct (g x); cbn [length]; lia.
Qed.

Lemma filter_len_disj : forall (A : Type) (f g : A -> bool) l,
  (forall x, f x && g x = false) ->
  length (filter (fun x => f x || g x) l) = (length (filter f l) + length (filter g l))%nat.
Proof.
  intros A f g l H. induction l as [|x l IH]; [reflexivity|].
  cbn [filter]. specialize (H x). destruct (f x), (g x); cbn [orb length]; try discriminate; lia.
Qed.

Lemma filter_ext' : forall (A : Type) (f g : A -> bool) l,
  (forall x, f x = g x) -> filter f l = filter g l.
Proof.
  intros A f g l H. induction l as [|x l IH]; [reflexivity|].
  cbn [filter]. rewrite H, IH. reflexivity.
Qed.

Lemma card_eq : forall a, card a = length (filter (fun s => mem a s) sq_list).
Proof. intros a. reflexivity. Qed.

Lemma card_sub : forall a b, (forall s, mem a s = true -> mem b s = true) -> (card a <= card b)%nat.
Proof. intros a b H. rewrite !card_eq. apply filter_len_le. exact H. Qed.

Lemma card_or_disj : forall a b, (forall s, mem a s && mem b s = false) ->
  card (bb_or a b) = (card a + card b)%nat.
Proof.
  intros a b H. rewrite !card_eq.
  rewrite (filter_ext' _ (fun s => mem (bb_or a b) s) (fun s => mem a s || mem b s)).
  - apply (filter_len_disj _ (fun s => mem a s) (fun s => mem b s)). exact H.
  - intros s. apply mem_or.
Qed.

Lemma card_and_l : forall a b, (card (bb_and a b) <= card a)%nat.
Proof.
  intros a b. apply card_sub. intros s. rewrite mem_and. intros H.
  apply andb_true_iff in H. apply H.
Qed.

Lemma card_and_r : forall a b, (card (bb_and a b) <= card b)%nat.
Proof.
  intros a b. apply card_sub. intros s. rewrite mem_and. intros H.
  apply andb_true_iff in H. apply H.
Qed.

Lemma count_card : forall a, wf64 a -> count a = N.of_nat (card a).
Proof. intros a H. apply count_spec, H. Qed.

Lemma card_pos : forall a, wf64 a -> a <> 0 -> (1 <= card a)%nat.
Proof.
  intros a Hw Hnz. destruct (elements a) eqn:E.
  - exfalso. apply Hnz. apply elements_nil; assumption.
  - cbn [length]. lia.
Qed.

(* the statements in terms of [count], as the code computes them *)
Lemma count_and_le : forall a b, wf64 a -> count (bb_and a b) <= count a.
Proof.
  intros a b Ha. rewrite (count_card a Ha), (count_card (bb_and a b) (wf64_land_l a b Ha)).
  pose proof (card_and_l a b). lia.
Qed.

Lemma count_or_disj : forall a b, wf64 a -> wf64 b -> bb_and a b = 0 ->
  count (bb_or a b) = count a + count b.
Proof.
  intros a b Ha Hb H.
  rewrite (count_card a Ha), (count_card b Hb), (count_card _ (wf64_or a b Ha Hb)).
  rewrite card_or_disj; [lia|].
  intros s. rewrite <- mem_and, H. apply mem_0.
Qed.

Lemma disj_mem : forall a b, bb_and a b = 0 -> forall s, mem a s && mem b s = false.
Proof. intros a b H s. rewrite <- mem_and, H. apply mem_0. Qed.

(* pinned / unpinned split of a source set *)
Lemma card_split : forall ps p, (card (bb_and ps (bb_not p)) + card (bb_and ps p) <= card ps)%nat.
Proof.
  intros ps p. rewrite <- card_or_disj.
  - apply card_sub. intros s. rewrite mem_or, !mem_and. intros H.
    destruct (mem ps s); [reflexivity|]. cbn [andb orb] in H. exact H.
  - intros s. rewrite !mem_and, mem_not_full.
    destruct (mem ps s), (mem p s), (s <? 64); reflexivity.
Qed.

(* ------------------------------------------------------------------ *)
(** * 1. Move list capacity *)

(* placement invariant of RawBoard *)
Record Part (b : board) : Prop := {
  p_wf_white : wf64 (b_white b); p_wf_black : wf64 (b_black b);
  p_wf_pawn : wf64 (b_pawn b); p_wf_knight : wf64 (b_knight b); p_wf_bishop : wf64 (b_bishop b);
  p_wf_rook : wf64 (b_rook b); p_wf_queen : wf64 (b_queen b); p_wf_king : wf64 (b_king b);
  p_wf_pinned : wf64 (b_pinned b); p_wf_checkers : wf64 (b_checkers b);
  p_colors : bb_and (b_white b) (b_black b) = 0;
  p_pieces : forall p q, p <> q -> bb_and (pieces b p) (pieces b q) = 0;
  p_union : bb_or (bb_or (bb_or (bb_or (bb_or (b_pawn b) (b_knight b)) (b_bishop b)) (b_rook b)) (b_queen b)) (b_king b)
            = all_occ b }.

Lemma wf64_colors : forall b c, Part b -> wf64 (colors b c).
Proof. intros b [] H; [apply (p_wf_white b H)|apply (p_wf_black b H)]. Qed.

Lemma mk_entries_length : forall srcs f promo, (length (mk_entries srcs f promo) <= length srcs)%nat.
Proof.
  intros srcs f promo. unfold mk_entries. induction srcs as [|s l IH]; [apply le_n|].
  cbn [flat_map]. rewrite app_length. destruct (none (f s)); cbn [length]; lia.
Qed.

Lemma mk_entries_card : forall a f promo, (length (mk_entries (elements a) f promo) <= card a)%nat.
Proof. intros a f promo. apply mk_entries_length. Qed.

Lemma piece_legals_length : forall pc cmp chk b mask,
  (length (piece_legals pc cmp chk b mask) <= card (bb_and (pieces b pc) (colors b (b_turn b))))%nat.
Proof.
  intros pc cmp chk b mask. unfold piece_legals. cbv zeta.
  pose proof (card_split (bb_and (pieces b pc) (colors b (b_turn b))) (b_pinned b)) as Hs.
  destruct (chk || negb cmp).
  - etransitivity; [apply mk_entries_card|]. lia.
  - rewrite app_length.
    match goal with |- (length (mk_entries (elements ?a1) ?f1 ?p1) + length (mk_entries (elements ?a2) ?f2 ?p2) <= _)%nat =>
      pose proof (mk_entries_card a1 f1 p1); pose proof (mk_entries_card a2 f2 p2) end.
    lia.
Qed.

(* en passant sources: at most two squares of one rank lie on the files adjacent to a file *)
Lemma adjacent_rank_sweep :
  forallb (fun r => all_sq (fun f => count (bb_and (from_rank r) (adjacent_files f)) <=? 2)) [0;1;2;3;4;5;6;7] = true.
Proof. vm_compute. reflexivity. Qed.

Lemma shl64_high : forall a n, 64 <= n -> shl64 a n = 0.
Proof.
  intros a n Hn. apply N.bits_inj. intros s. change (mem (shl64 a n) s = mem 0 s).
  rewrite mem_shl64_full, mem_0.
  destruct (s <? 64) eqn:E1; [|reflexivity]. destruct (n <=? s) eqn:E2; [|reflexivity]. lia.
Qed.

Lemma adjacent_files_high : forall f, 64 <= f -> adjacent_files f = 0.
Proof.
  intros f Hf. unfold adjacent_files. cbv zeta. unfold from_file. rewrite (shl64_high _ f Hf).
  reflexivity.
Qed.

Lemma count_rank_adjacent : forall r f, r < 8 -> count (bb_and (from_rank r) (adjacent_files f)) <= 2.
Proof.
  intros r f Hr. destruct (N.lt_ge_cases f 64) as [Hf|Hf].
  - pose proof adjacent_rank_sweep as H. rewrite forallb_forall in H.
    assert (In r [0;1;2;3;4;5;6;7]) as Hin.
    { assert (r = 0 \/ r = 1 \/ r = 2 \/ r = 3 \/ r = 4 \/ r = 5 \/ r = 6 \/ r = 7) as Hc by lia.
      cbn [In]. intuition. }
    specialize (H r Hin). apply (all_sq_spec _ H f) in Hf. apply N.leb_le in Hf. exact Hf.
  - rewrite (adjacent_files_high f Hf). unfold bb_and. rewrite N.land_0_r. rewrite count_0. lia.
Qed.

Lemma wf64_adjacent_files : forall f, wf64 (adjacent_files f).
Proof. intros f. unfold adjacent_files. cbv zeta. apply wf64_or; [apply wf64_shift_left|apply wf64_shift_right]. Qed.

Lemma card_rank_adjacent : forall r f, r < 8 -> (card (bb_and (from_rank r) (adjacent_files f)) <= 2)%nat.
Proof.
  intros r f Hr. pose proof (count_rank_adjacent r f Hr) as H.
  rewrite count_card in H by (apply wf64_and; [apply wf64_from_rank|apply wf64_adjacent_files]). lia.
Qed.

Lemma flat_map_opt_length : forall (A B : Type) (c : A -> bool) (g : A -> B) l,
  (length (flat_map (fun x => if c x then [g x] else []) l) <= length l)%nat.
Proof.
  intros A B c g l. induction l as [|x l IH]; [apply le_n|].
  cbn [flat_map]. rewrite app_length. destruct (c x); cbn [length]; lia.
Qed.

Lemma ep_pawn_rank_lt8 : forall c, ep_pawn_rank_of c < 8.
Proof. intros []; reflexivity. Qed.

Lemma pawn_legals_length : forall chk b mask,
  (length (pawn_legals chk b mask) <= card (bb_and (b_pawn b) (colors b (b_turn b))) + 2)%nat.
Proof.
  intros chk b mask. unfold pawn_legals. cbv zeta.
  pose proof (card_split (bb_and (b_pawn b) (colors b (b_turn b))) (b_pinned b)) as Hs.
  rewrite !app_length.
  match goal with |- (length (mk_entries (elements ?a1) ?f1 ?p1) + (length ?l2 + length ?l3) <= _)%nat =>
    pose proof (mk_entries_card a1 f1 p1) as H1;
    assert (length l2 <= card (bb_and (bb_and (b_pawn b) (colors b (b_turn b))) (b_pinned b)))%nat as H2;
    [|assert (length l3 <= 2)%nat as H3; [|lia]] end.
  - destruct chk; [apply Nat.le_0_l|apply mk_entries_card].
  - destruct (b_ep b) as [f|]; [|apply Nat.le_0_l].
    etransitivity; [apply flat_map_opt_length|].
    etransitivity; [apply card_and_l|].
    apply card_rank_adjacent, ep_pawn_rank_lt8.
Qed.

Lemma king_legals_length : forall chk b turn mask, (length (king_legals chk b turn mask) <= 1)%nat.
Proof.
  intros chk b turn mask. unfold king_legals. cbv zeta.
  match goal with |- (length (if ?c then [] else [?e]) <= 1)%nat => destruct c end;
    [apply Nat.le_0_l|apply le_n].
Qed.

(* the six per-piece source sets are disjoint parts of "my" pieces *)
Lemma pieces_sum_le : forall b my, Part b ->
  (card (bb_and (b_pawn b) my) + card (bb_and (b_knight b) my) + card (bb_and (b_bishop b) my)
   + card (bb_and (b_rook b) my) + card (bb_and (b_queen b) my) + card (bb_and (b_king b) my) <= card my)%nat.
Proof.
  intros b my HP.
  assert (forall p q s, p <> q -> mem (pieces b p) s && mem (pieces b q) s = false) as D.
  { intros p q s Hpq. apply disj_mem, (p_pieces b HP), Hpq. }
  assert (forall s, mem (pieces b Pawn) s && mem (pieces b Knight) s = false) as D01 by (intros s; apply (D Pawn Knight); intros HH; discriminate HH).
  assert (forall s, mem (pieces b Pawn) s && mem (pieces b Bishop) s = false) as D02 by (intros s; apply (D Pawn Bishop); intros HH; discriminate HH).
  assert (forall s, mem (pieces b Pawn) s && mem (pieces b Rook) s = false) as D03 by (intros s; apply (D Pawn Rook); intros HH; discriminate HH).
  assert (forall s, mem (pieces b Pawn) s && mem (pieces b Queen) s = false) as D04 by (intros s; apply (D Pawn Queen); intros HH; discriminate HH).
  assert (forall s, mem (pieces b Pawn) s && mem (pieces b King) s = false) as D05 by (intros s; apply (D Pawn King); intros HH; discriminate HH).
  assert (forall s, mem (pieces b Knight) s && mem (pieces b Bishop) s = false) as D12 by (intros s; apply (D Knight Bishop); intros HH; discriminate HH).
  assert (forall s, mem (pieces b Knight) s && mem (pieces b Rook) s = false) as D13 by (intros s; apply (D Knight Rook); intros HH; discriminate HH).
  assert (forall s, mem (pieces b Knight) s && mem (pieces b Queen) s = false) as D14 by (intros s; apply (D Knight Queen); intros HH; discriminate HH).
  assert (forall s, mem (pieces b Knight) s && mem (pieces b King) s = false) as D15 by (intros s; apply (D Knight King); intros HH; discriminate HH).
  assert (forall s, mem (pieces b Bishop) s && mem (pieces b Rook) s = false) as D23 by (intros s; apply (D Bishop Rook); intros HH; discriminate HH).
  assert (forall s, mem (pieces b Bishop) s && mem (pieces b Queen) s = false) as D24 by (intros s; apply (D Bishop Queen); intros HH; discriminate HH).
  assert (forall s, mem (pieces b Bishop) s && mem (pieces b King) s = false) as D25 by (intros s; apply (D Bishop King); intros HH; discriminate HH).
  assert (forall s, mem (pieces b Rook) s && mem (pieces b Queen) s = false) as D34 by (intros s; apply (D Rook Queen); intros HH; discriminate HH).
  assert (forall s, mem (pieces b Rook) s && mem (pieces b King) s = false) as D35 by (intros s; apply (D Rook King); intros HH; discriminate HH).
  assert (forall s, mem (pieces b Queen) s && mem (pieces b King) s = false) as D45 by (intros s; apply (D Queen King); intros HH; discriminate HH).
  cbn [pieces] in *. clear D.
  rewrite <- !card_or_disj;
  [ apply card_sub; intros s; rewrite !mem_or, !mem_and;
    destruct (mem my s); [reflexivity|]; rewrite !andb_false_r; cbn [orb]; exact (fun H => H) | .. ].
  all: intros s; rewrite ?mem_or, ?mem_and;
      specialize (D01 s); specialize (D02 s); specialize (D03 s); specialize (D04 s); specialize (D05 s);
      specialize (D12 s); specialize (D13 s); specialize (D14 s); specialize (D15 s); specialize (D23 s);
      specialize (D24 s); specialize (D25 s); specialize (D34 s); specialize (D35 s); specialize (D45 s);
      destruct (mem (b_pawn b) s), (mem (b_knight b) s), (mem (b_bishop b) s), (mem (b_rook b) s), (mem (b_queen b) s),
        (mem (b_king b) s), (mem my s); cbn [andb orb] in *; congruence.
Qed.

(* every branch of collect_moves pushes at most (#my pieces other than the king) + 2 + 1 entries *)
Lemma collect_moves_length : forall b mask,
  let my := colors b (b_turn b) in
  (length (collect_moves b mask)
   <= card (bb_and (b_pawn b) my) + card (bb_and (b_knight b) my) + card (bb_and (b_bishop b) my)
      + card (bb_and (b_rook b) my) + card (bb_and (b_queen b) my) + 3)%nat.
Proof.
  intros b mask my. unfold collect_moves. cbv zeta.
  set (mk := bb_and (bb_not (colors b (b_turn b))) mask).
  pose proof (fun chk => pawn_legals_length chk b mk) as HP.
  pose proof (fun cmp chk => piece_legals_length Knight cmp chk b mk) as HN.
  pose proof (fun cmp chk => piece_legals_length Bishop cmp chk b mk) as HB.
  pose proof (fun cmp chk => piece_legals_length Rook cmp chk b mk) as HR.
  pose proof (fun cmp chk => piece_legals_length Queen cmp chk b mk) as HQ.
  pose proof (fun chk => king_legals_length chk b (b_turn b) mk) as HK.
  cbn [pieces] in HN, HB, HR, HQ. fold my in HP, HN, HB, HR, HQ.
  destruct (none (b_checkers b)).
  - rewrite !app_length.
    specialize (HP false). specialize (HN false false). specialize (HB true false).
    specialize (HR true false). specialize (HQ true false). specialize (HK false). lia.
  - rewrite app_length. specialize (HK true).
    destruct (count (b_checkers b) =? 1).
    + rewrite !app_length.
      specialize (HP true). specialize (HN false true). specialize (HB true true).
      specialize (HR true true). specialize (HQ true true). lia.
    + cbn [length]. lia.
Qed.

(* push_unchecked into ArrayVec<LegalMovesAt, 18>: never more than 18 pushes.
   The king of the side to move must exist (Board::validate: has_kings): otherwise 16 non-king
   pieces + 2 en-passant entries + a (castling) king entry would make 19. *)
Theorem collect_moves_capacity : forall b mask, Part b ->
  count (colors b (b_turn b)) <= 16 ->
  bb_and (colors b (b_turn b)) (b_king b) <> 0 ->
  (length (collect_moves b mask) <= 18)%nat.
Proof.
  intros b mask HP H16 HK.
  pose proof (collect_moves_length b mask) as HL. cbv zeta in HL.
  pose proof (pieces_sum_le b (colors b (b_turn b)) HP) as HS.
  assert (wf64 (colors b (b_turn b))) as Hw by (apply wf64_colors, HP).
  rewrite (count_card _ Hw) in H16.
  assert (1 <= card (bb_and (b_king b) (colors b (b_turn b))))%nat as H1.
  { apply card_pos; [apply wf64_land_r, Hw|].
    unfold bb_and in *. rewrite N.land_comm. exact HK. }
  lia.
Qed.

Corollary collect_moves_capacity_has_kings : forall b mask, Part b -> has_kings b = true ->
  count (colors b (b_turn b)) <= 16 -> (length (collect_moves b mask) <= 18)%nat.
Proof.
  intros b mask HP HK H16. apply collect_moves_capacity; try assumption.
  unfold has_kings in HK. cbv zeta in HK.
  apply andb_true_iff in HK. destruct HK as [HK Hb]. apply andb_true_iff in HK. destruct HK as [_ Hw].
  apply N.eqb_eq in Hw, Hb.
  destruct (b_turn b); cbn [colors]; unfold bb_and in *; rewrite N.land_comm; intros E.
  - rewrite E, count_0 in Hw. discriminate Hw.
  - rewrite E, count_0 in Hb. discriminate Hb.
Qed.

(* The statement WITHOUT the king premise is false in the model (and for the code: such a board cannot
   come out of Board::validate, which requires has_kings): a side with 16 movable non-king pieces, two
   en-passant captures and a castling right yields 19 entries, the last one from the "king" on square 64. *)
Definition collect_moves_capacity_statement : Prop :=
  forall b mask, Part b -> count (colors b (b_turn b)) <= 16 -> (length (collect_moves b mask) <= 18)%nat.

Definition no_king_board : board :=
  {| b_zob := 0; b_turn := White; b_rights := 1; b_ep := Some 3; b_half := 0; b_full := 1; b_pinned := 0; b_checkers := 0;
     b_white := 141923151052544; b_black := 9223372071214514176;
     b_pawn := 120259149568; b_knight := 141836999983104; b_bishop := 0; b_rook := 0;
     b_queen := 251658240; b_king := 9223372036854775808 |}.

Lemma no_king_board_Part : Part no_king_board.
Proof.
  constructor; try (vm_compute; reflexivity).
  intros p q H; destruct p, q; try (vm_compute; reflexivity); exfalso; apply H; reflexivity.
Qed.

Lemma no_king_board_19 :
  count (colors no_king_board (b_turn no_king_board)) = 16 /\
  length (collect_moves no_king_board bb_full) = 19%nat.
Proof. split; vm_compute; reflexivity. Qed.

Theorem collect_moves_capacity_statement_false : ~ collect_moves_capacity_statement.
Proof.
  intros H. specialize (H no_king_board bb_full no_king_board_Part).
  destruct no_king_board_19 as [H16 H19]. rewrite H16, H19 in H.
  specialize (H (N.le_refl 16)). lia.
Qed.

(* ------------------------------------------------------------------ *)
(** * 2. king_sq: pop_unchecked on (colors & kings) *)

Theorem king_sq_valid : forall b c, wf64 (colors b c) -> bb_and (colors b c) (b_king b) <> 0 ->
  king_sq b c < 64 /\ mem (colors b c) (king_sq b c) = true /\ mem (b_king b) (king_sq b c) = true.
Proof.
  intros b c Hw Hnz. unfold king_sq.
  assert (wf64 (bb_and (colors b c) (b_king b))) as Hw2 by (apply wf64_land_l, Hw).
  destruct (tz64_spec _ Hnz) as [Hm _]. split; [apply tz64_lt; assumption|].
  set (k := tz64 (bb_and (colors b c) (b_king b))) in *.
  rewrite mem_and in Hm. apply andb_true_iff in Hm. exact Hm.
Qed.

Theorem has_kings_nonempty : forall b, has_kings b = true ->
  bb_and (b_white b) (b_king b) <> 0 /\ bb_and (b_black b) (b_king b) <> 0.
Proof.
  intros b HK. unfold has_kings in HK. cbv zeta in HK.
  apply andb_true_iff in HK. destruct HK as [HK Hb]. apply andb_true_iff in HK. destruct HK as [_ Hw].
  apply N.eqb_eq in Hw, Hb.
  unfold bb_and in *. split; rewrite N.land_comm; intros E.
  - rewrite E, count_0 in Hw. discriminate Hw.
  - rewrite E, count_0 in Hb. discriminate Hb.
Qed.

Corollary king_sq_valid_has_kings : forall b c, wf64 (colors b c) -> has_kings b = true ->
  king_sq b c < 64 /\ mem (colors b c) (king_sq b c) = true /\ mem (b_king b) (king_sq b c) = true.
Proof.
  intros b c Hw HK. apply king_sq_valid; [exact Hw|].
  destruct (has_kings_nonempty b HK) as [H1 H2]. destruct c; assumption.
Qed.

(* ------------------------------------------------------------------ *)
(** * 3. check_mask: pop_unchecked on checkers, only with exactly one checker *)

Lemma wf64_bit : forall s, s < 64 -> wf64 (bit s).
Proof. intros s Hs. rewrite <- from_pos_bit by exact Hs. apply wf64_from_pos. Qed.

(* a one-element set is the bit of its least element *)
Lemma single_bit : forall a, wf64 a -> count a = 1 -> tz64 a < 64 /\ a = bit (tz64 a).
Proof.
  intros a Hw Hc.
  assert (a <> 0) as Hnz by (intros E; rewrite E, count_0 in Hc; discriminate Hc).
  pose proof (tz64_lt a Hw Hnz) as Hlt. destruct (tz64_spec a Hnz) as [Hm _].
  split; [exact Hlt|].
  rewrite (count_card a Hw) in Hc.
  assert (forall s, s < 64 -> mem a s = true -> In s (elements a)) as Hin
    by (intros s Hs H; apply elements_spec; split; assumption).
  destruct (elements a) as [|x [|y l]]; cbn [length] in Hc; try lia.
  apply ext64; [exact Hw|apply wf64_bit, Hlt|].
  intros s Hs. rewrite mem_bit. destruct (s =? tz64 a) eqn:E.
  - apply N.eqb_eq in E. rewrite E. exact Hm.
  - destruct (mem a s) eqn:E2; [|reflexivity]. exfalso.
    destruct (Hin s Hs E2) as [<-|[]]. destruct (Hin (tz64 a) Hlt Hm) as [E3|[]].
    rewrite E3, N.eqb_refl in E. discriminate E.
Qed.

Theorem check_mask_single : forall b, count (b_checkers b) = 1 -> wf64 (b_checkers b) ->
  tz64 (b_checkers b) < 64 /\ b_checkers b = bit (tz64 (b_checkers b)).
Proof. intros b Hc Hw. apply single_bit; assumption. Qed.

(* check_mask::<false> does not pop *)
Lemma check_mask_not_in_check : forall b k, check_mask b false k = bb_full.
Proof. reflexivity. Qed.

(* collect_moves runs the in-check generators (the only callers of check_mask::<true>) only in the
   branch `count (b_checkers b) =? 1`: with any other number of checkers only the king generator,
   which does not use check_mask, runs; the not-in-check generators run only when there is no checker
   (so the assert_eq!(checkers.count(), IS_IN_CHECK as u8) of check_mask holds on every call). *)
Lemma collect_moves_many_checkers : forall b mask0,
  none (b_checkers b) = false -> (count (b_checkers b) =? 1) = false ->
  collect_moves b mask0 = king_legals true b (b_turn b) (bb_and (bb_not (colors b (b_turn b))) mask0).
Proof.
  intros b mask0 H0 H1. unfold collect_moves. cbv zeta. rewrite H0, H1. apply app_nil_l.
Qed.

Lemma collect_moves_one_checker : forall b mask0,
  none (b_checkers b) = false -> (count (b_checkers b) =? 1) = true ->
  let mask := bb_and (bb_not (colors b (b_turn b))) mask0 in
  collect_moves b mask0 =
    (pawn_legals true b mask ++ piece_legals Knight false true b mask ++ piece_legals Bishop true true b mask
     ++ piece_legals Rook true true b mask ++ piece_legals Queen true true b mask)
    ++ king_legals true b (b_turn b) mask.
Proof.
  intros b mask0 H0 H1 mask. unfold collect_moves. cbv zeta. rewrite H0, H1. reflexivity.
Qed.

Lemma collect_moves_no_checker : forall b mask0,
  none (b_checkers b) = true ->
  count (b_checkers b) = 0 /\
  let mask := bb_and (bb_not (colors b (b_turn b))) mask0 in
  collect_moves b mask0 =
    pawn_legals false b mask ++ piece_legals Knight false false b mask ++ piece_legals Bishop true false b mask
    ++ piece_legals Rook true false b mask ++ piece_legals Queen true false b mask ++ king_legals false b (b_turn b) mask.
Proof.
  intros b mask0 H0. split.
  - unfold none in H0. apply N.eqb_eq in H0. rewrite H0. apply count_0.
  - intros mask. unfold collect_moves. cbv zeta. rewrite H0. reflexivity.
Qed.

(* ------------------------------------------------------------------ *)
(** * 4./5. apply: castle-rights byte stays < 16, clocks stay u16 *)

Lemma land_le_l : forall a b, N.land a b <= a.
Proof.
  intros a b. apply N.ldiff_le. apply N.bits_inj. intros i.
  rewrite N.ldiff_spec, N.land_spec, N.bits_0. destruct (N.testbit a i), (N.testbit b i); reflexivity.
Qed.

Lemma land_le_r : forall a b, N.land a b <= b.
Proof. intros a b. rewrite N.land_comm. apply land_le_l. Qed.

Lemma cr_keep_lt16 : forall c s, cr_keep c s < 16.
Proof.
  intros c s. unfold cr_keep.
  destruct c; repeat match goal with |- context [if ?x then _ else _] => destruct x end; reflexivity.
Qed.

Lemma cr_remove_le : forall r c s, cr_remove_for_sq r c s <= r.
Proof. intros r c s. apply land_le_l. Qed.

Lemma cr_remove_lt16 : forall r c s, cr_remove_for_sq r c s < 16.
Proof.
  intros r c s. unfold cr_remove_for_sq.
  pose proof (land_le_r r (cr_keep c s)). pose proof (cr_keep_lt16 c s). lia.
Qed.

Lemma sat16_le : forall x, sat16 x <= 65535.
Proof. intros x. unfold sat16. destruct (65535 <? x) eqn:E; lia. Qed.

(* apply, cut into the stages of move_unchecked_into *)
Definition apply_meta (self : board) (mv : move) : board :=
  let turn := b_turn self in
  let out := set_meta self (opp turn) (b_rights self) None (b_half self) (b_full self) 0 0 in
  let source_bb := from_pos (m_src mv) in
  let dest_bb := from_pos (m_dst mv) in
  let mv_bb := bb_xor source_bb dest_bb in
  let pc := piece_of_unchecked self (m_src mv) in
  let captured := piece_of self (m_dst mv) in
  let out := board_xor out turn pc mv_bb in
  let out := match captured with
             | Some cp => set_half (board_xor out (opp turn) cp dest_bb) 0
             | None => set_half out (sat16 (b_half out + 1))
             end in
  let out := set_full out (sat16 (b_full out + color_idx turn)) in
  set_rights out (cr_remove_for_sq (cr_remove_for_sq (b_rights out) (opp turn) (m_dst mv)) turn (m_src mv)).

Definition apply_special (self : board) (mv : move) (out : board) : board :=
  let turn := b_turn self in
  let source_bb := from_pos (m_src mv) in
  let dest_bb := from_pos (m_dst mv) in
  let mv_bb := bb_xor source_bb dest_bb in
  let pc := piece_of_unchecked self (m_src mv) in
  let opp_king := king_sq self (opp turn) in
  let castles := piece_eqb pc King && (bb_and mv_bb CASTLE_MOVES_bb =? mv_bb) in
    match pc with
    | Knight => set_checkers out (bb_xor (b_checkers out) (bb_and (knight_geo opp_king) dest_bb))
    | Pawn =>
      let out := set_half out 0 in
      let out :=
        match m_promo mv with
        | Some promotion =>
          let out := if piece_eqb promotion Knight
                     then set_checkers out (bb_xor (b_checkers out) (bb_and (knight_geo opp_king) dest_bb)) else out in
          board_xor (board_xor out turn Pawn dest_bb) turn promotion dest_bb
        | None =>
          if bb_and mv_bb ((match turn with White => bb_or (from_rank 1) (from_rank 3) | Black => bb_or (from_rank 4) (from_rank 6) end)) =? mv_bb then set_ep out (Some (file_of (m_dst mv)))
          else match enpassant_pos self with
               | Some ep => if m_dst mv =? ep
                            then board_xor out (opp turn) Pawn (from_pos (mk_sq (file_of (m_dst mv)) (ep_pawn_rank_of turn)))
                            else out
               | None => out
               end
        end in
      match m_promo mv with
      | None => set_checkers out (bb_xor (b_checkers out) (bb_and (pawn_att_geo (opp turn) opp_king) dest_bb))
      | Some _ => out
      end
    | _ =>
      if castles then
        let rook_mv := bb_and (BACKRANK_BB_of turn)
                              (if file_of (m_dst mv) <? 4 then bb_or (from_file 0) (from_file 3)
                               else bb_or (from_file 7) (from_file 5)) in
        board_xor out turn Rook rook_mv
      else out
    end.

Definition apply_pins (self : board) (out : board) : board :=
  let turn := b_turn self in
  let opp_king := king_sq self (opp turn) in
  let mine := colors out turn in
  let bishops := bb_or (b_bishop out) (b_queen out) in
  let rooks := bb_or (b_rook out) (b_queen out) in
  let attackers := bb_or (bb_and (bb_and bishops mine) (bishop_rays_geo opp_king))
                         (bb_and (bb_and rooks mine) (rook_rays_geo opp_king)) in
  let occ := all_occ out in
  let '(pinned, checkers) :=
    fold_left (fun (acc : N * N) a =>
                 let '(pn, ck) := acc in
                 let btw := bb_and occ (between_geo opp_king a) in
                 if none btw then (pn, bb_with ck a)
                 else if count btw =? 1 then (bb_xor pn btw, ck) else (pn, ck))
              (elements attackers) (b_pinned out, b_checkers out) in
  set_pins out pinned checkers.

Lemma apply_stages : forall self mv,
  apply self mv = apply_pins self (apply_special self mv (apply_meta self mv)).
Proof.
  intros self mv. unfold apply, apply_pins, apply_special, apply_meta. cbv beta zeta. reflexivity.
Qed.

(* the three meta fields through the record-update helpers *)
Lemma rights_board_xor : forall b c p d, b_rights (board_xor b c p d) = b_rights b.
Proof. intros b c p d. destruct c; reflexivity. Qed.
Lemma half_board_xor : forall b c p d, b_half (board_xor b c p d) = b_half b.
Proof. intros b c p d. destruct c; reflexivity. Qed.
Lemma full_board_xor : forall b c p d, b_full (board_xor b c p d) = b_full b.
Proof. intros b c p d. destruct c; reflexivity. Qed.

Lemma rights_set_checkers : forall b c, b_rights (set_checkers b c) = b_rights b. Proof. reflexivity. Qed.
Lemma half_set_checkers : forall b c, b_half (set_checkers b c) = b_half b. Proof. reflexivity. Qed.
Lemma full_set_checkers : forall b c, b_full (set_checkers b c) = b_full b. Proof. reflexivity. Qed.
Lemma rights_set_half : forall b h, b_rights (set_half b h) = b_rights b. Proof. reflexivity. Qed.
Lemma half_set_half : forall b h, b_half (set_half b h) = h. Proof. reflexivity. Qed.
Lemma full_set_half : forall b h, b_full (set_half b h) = b_full b. Proof. reflexivity. Qed.
Lemma rights_set_full : forall b h, b_rights (set_full b h) = b_rights b. Proof. reflexivity. Qed.
Lemma half_set_full : forall b h, b_half (set_full b h) = b_half b. Proof. reflexivity. Qed.
Lemma full_set_full : forall b h, b_full (set_full b h) = h. Proof. reflexivity. Qed.
Lemma rights_set_ep : forall b e, b_rights (set_ep b e) = b_rights b. Proof. reflexivity. Qed.
Lemma half_set_ep : forall b e, b_half (set_ep b e) = b_half b. Proof. reflexivity. Qed.
Lemma full_set_ep : forall b e, b_full (set_ep b e) = b_full b. Proof. reflexivity. Qed.
Lemma rights_set_rights : forall b r, b_rights (set_rights b r) = r. Proof. reflexivity. Qed.
Lemma half_set_rights : forall b r, b_half (set_rights b r) = b_half b. Proof. reflexivity. Qed.
Lemma full_set_rights : forall b r, b_full (set_rights b r) = b_full b. Proof. reflexivity. Qed.
Lemma rights_set_pins : forall b p c, b_rights (set_pins b p c) = b_rights b. Proof. reflexivity. Qed.
Lemma half_set_pins : forall b p c, b_half (set_pins b p c) = b_half b. Proof. reflexivity. Qed.
Lemma full_set_pins : forall b p c, b_full (set_pins b p c) = b_full b. Proof. reflexivity. Qed.

Ltac meta_rw1 :=
  rewrite ?rights_board_xor, ?half_board_xor, ?full_board_xor,
          ?rights_set_checkers, ?half_set_checkers, ?full_set_checkers,
          ?rights_set_half, ?half_set_half, ?full_set_half,
          ?rights_set_full, ?half_set_full, ?full_set_full,
          ?rights_set_ep, ?half_set_ep, ?full_set_ep,
          ?rights_set_rights, ?half_set_rights, ?full_set_rights,
          ?rights_set_pins, ?half_set_pins, ?full_set_pins.
Ltac meta_rw := repeat (progress meta_rw1).

(* update of pinned / checkers touches none of the meta fields *)
Lemma apply_pins_meta : forall self out,
  b_rights (apply_pins self out) = b_rights out /\
  b_half (apply_pins self out) = b_half out /\
  b_full (apply_pins self out) = b_full out.
Proof.
  intros self out. unfold apply_pins. cbv zeta.
  match goal with |- context [fold_left ?f ?l ?a] => destruct (fold_left f l a) as [pn ck] end.
  meta_rw. repeat split.
Qed.

(* castling rook / promotion / en passant: rights and full-move counter untouched, half-move clock kept or reset *)
Lemma apply_special_meta : forall self mv out,
  b_rights (apply_special self mv out) = b_rights out /\
  (b_half (apply_special self mv out) = b_half out \/ b_half (apply_special self mv out) = 0) /\
  b_full (apply_special self mv out) = b_full out.
Proof.
  intros self mv out. unfold apply_special. cbv zeta.
  destruct (piece_of_unchecked self (m_src mv)).
  - (* Pawn *)
    destruct (m_promo mv) as [pr|].
    + destruct (piece_eqb pr Knight); meta_rw; repeat split; right; reflexivity.
    + match goal with |- context [if ?c then set_ep _ _ else _] => destruct c end.
      * meta_rw. repeat split. right; reflexivity.
      * destruct (enpassant_pos self) as [ep|].
        -- destruct (m_dst mv =? ep); meta_rw; repeat split; right; reflexivity.
        -- meta_rw. repeat split. right; reflexivity.
  - meta_rw. repeat split. left; reflexivity.
  - match goal with |- context [if ?c then _ else out] => destruct c end;
      meta_rw; repeat split; left; reflexivity.
  - match goal with |- context [if ?c then _ else out] => destruct c end;
      meta_rw; repeat split; left; reflexivity.
  - match goal with |- context [if ?c then _ else out] => destruct c end;
      meta_rw; repeat split; left; reflexivity.
  - match goal with |- context [if ?c then _ else out] => destruct c end;
      meta_rw; repeat split; left; reflexivity.
Qed.

Lemma apply_meta_rights : forall self mv,
  b_rights (apply_meta self mv)
  = cr_remove_for_sq (cr_remove_for_sq (b_rights self) (opp (b_turn self)) (m_dst mv)) (b_turn self) (m_src mv).
Proof.
  intros self mv. unfold apply_meta. cbv zeta.
  destruct (piece_of self (m_dst mv)); meta_rw; reflexivity.
Qed.

Lemma apply_meta_clocks : forall self mv,
  b_half (apply_meta self mv) <= 65535 /\ b_full (apply_meta self mv) <= 65535.
Proof.
  intros self mv. unfold apply_meta. cbv zeta.
  destruct (piece_of self (m_dst mv)); meta_rw; split; try apply sat16_le; lia.
Qed.

(* the castle-rights byte after a move: the old one with the rights of the two squares removed *)
Theorem apply_rights : forall b m,
  b_rights (apply b m)
  = cr_remove_for_sq (cr_remove_for_sq (b_rights b) (opp (b_turn b)) (m_dst m)) (b_turn b) (m_src m).
Proof.
  intros b m. rewrite apply_stages.
  destruct (apply_pins_meta b (apply_special b m (apply_meta b m))) as [-> _].
  destruct (apply_special_meta b m (apply_meta b m)) as [-> _].
  apply apply_meta_rights.
Qed.

Theorem apply_rights_le : forall b m, b_rights (apply b m) <= b_rights b.
Proof.
  intros b m. rewrite apply_rights.
  etransitivity; [apply cr_remove_le|apply cr_remove_le].
Qed.

(* CastleRights::to_index: unreachable_unchecked when the byte is >= 16 *)
Theorem rights_preserved : forall b m, b_rights b < 16 -> b_rights (apply b m) < 16.
Proof. intros b m H. pose proof (apply_rights_le b m). lia. Qed.

(* in fact the byte is < 16 after any move, whatever it was before *)
Theorem rights_after_apply : forall b m, b_rights (apply b m) < 16.
Proof. intros b m. rewrite apply_rights. apply cr_remove_lt16. Qed.

(* u16 clocks: saturating_add never leaves the u16 range (no assumption on the old clocks needed) *)
Theorem clocks_after_apply : forall b m, b_half (apply b m) <= 65535 /\ b_full (apply b m) <= 65535.
Proof.
  intros b m. rewrite apply_stages.
  destruct (apply_pins_meta b (apply_special b m (apply_meta b m))) as (_ & -> & ->).
  destruct (apply_special_meta b m (apply_meta b m)) as (_ & Hh & ->).
  destruct (apply_meta_clocks b m) as [H1 H2]. split; [|exact H2].
  destruct Hh as [->| ->]; [exact H1|lia].
Qed.

Theorem clocks_bounded : forall b m, b_half b <= 65535 -> b_full b <= 65535 ->
  b_half (apply b m) <= 65535 /\ b_full (apply b m) <= 65535.
Proof. intros b m _ _. apply clocks_after_apply. Qed.

(* ------------------------------------------------------------------ *)
(** * 6. Iterator sites: MoveGen::next *)

Lemma nth_error_skipn' : forall (A : Type) n (l : list A) m, nth_error (skipn n l) m = nth_error l (n + m).
Proof.
  intros A n. induction n as [|n IH]; intros l m; [reflexivity|].
  destruct l as [|x l]; [destruct m; reflexivity|]. cbn [skipn Nat.add nth_error]. apply IH.
Qed.

(* the entry mg_next works on is the one at the cursor; it has a destination under the mask
   (this is what the skip loop of `next` establishes: it holds for EVERY generator state) *)
Theorem next_site_live : forall g e, nth_error (g_moves g) (cursor g) = Some e -> live g e = true.
Proof.
  intros g e H. unfold cursor in H.
  destruct (skip_dead_split g (skipn (g_index g) (g_moves g)) (g_index g))
    as (dead & rest & Hl & Hs & _ & Hr).
  rewrite Hs, <- nth_error_skipn', Hl in H.
  destruct Hr as [->|(e0 & r & -> & Hlive)].
  - rewrite app_nil_r in H. assert (nth_error dead (length dead) = None) as Hn by (apply nth_error_None; lia).
    rewrite Hn in H. discriminate H.
  - rewrite nth_error_mid in H. injection H as <-. exact Hlive.
Qed.

(* pop_unchecked on (legal.moves & self.mask): the set is not empty, and the popped square is a real one *)
Theorem next_site_nonempty : forall g e, nth_error (g_moves g) (cursor g) = Some e ->
  bb_and (e_moves e) (g_mask g) <> 0.
Proof. intros g e H. apply any_true_neq. apply (next_site_live g e H). Qed.

Theorem next_site_dest : forall g e, wf g -> nth_error (g_moves g) (cursor g) = Some e ->
  let d := tz64 (bb_and (e_moves e) (g_mask g)) in
  d < 64 /\ mem (e_moves e) d = true /\ mem (g_mask g) d = true.
Proof.
  intros g e Hwf H d.
  assert (wf64 (e_moves e)) as Hw by (apply (wf_words g Hwf), (nth_error_In _ _ H)).
  destruct (pick_spec (e_moves e) (g_mask g) Hw (next_site_live g e H)) as (H1 & H2 & H3 & _).
  repeat split; assumption.
Qed.

(* mg_next reads entries only at the cursor: unfolding equation *)
Lemma mg_next_none : forall g, nth_error (g_moves g) (cursor g) = None -> fst (mg_next g) = None.
Proof. intros g H. rewrite (next_none_result g H). reflexivity. Qed.

(* `self.promotions.next().unwrap()`: the promotion cursor is a valid index into the 4 promotion pieces,
   initially and after every next *)
Theorem next_site_promo : forall g, wf g -> g_promo g < 4.
Proof. intros g H. apply (wf_promo g H). Qed.

Theorem next_site_promo_step : forall g m g', wf g -> mg_next g = (Some m, g') -> g_promo g' < 4.
Proof.
  intros g m g' Hwf H. destruct (next_sound g m g' Hwf H) as (_ & _ & _ & Hwf'). apply (wf_promo g' Hwf').
Qed.

Theorem next_site_promo_new : forall entries mask, g_promo (mg_new entries mask) < 4.
Proof. intros entries mask. reflexivity. Qed.

(* ------------------------------------------------------------------ *)
Print Assumptions collect_moves_capacity.
Print Assumptions collect_moves_capacity_has_kings.
Print Assumptions collect_moves_capacity_statement_false.
Print Assumptions king_sq_valid.
Print Assumptions has_kings_nonempty.
Print Assumptions check_mask_single.
Print Assumptions rights_preserved.
Print Assumptions rights_after_apply.
Print Assumptions clocks_bounded.
Print Assumptions next_site_nonempty.
Print Assumptions next_site_dest.
Print Assumptions next_site_promo_step.
