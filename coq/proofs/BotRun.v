(* C15, end to end: the plugin model (model/Bot.v: set_board, make_move) driven over a history of submitted moves of
   ANY length answers exactly as a reference written purely over the rules of chess (spec/Rules.v: is_legal_move,
   make, same_position): a move is applied iff it is legal in the current position (otherwise the state is unchanged
   and (false,false) is reported), the board always abstracts to the rules' successor, and the threefold flag is
   raised exactly on the move producing the third occurrence (placement, side to move, castling rights, en-passant
   file) among the positions produced since the board was set.
   Axiom-free. *)
From Coq Require Import NArith ZArith PeanoNat List Bool Lia ZifyBool ZifyN.
From Chess Require Import base.Bits base.Types base.BitBoard base.Sweep model.Board model.MoveGen model.Apply model.Search model.Bot spec.Rules.
From Chess Require Import proofs.LegalDefs proofs.BotFacts proofs.Reachable proofs.ReachableMore.
From Chess Require proofs.CoreFacts proofs.ApplyFacts proofs.MirrorBoard.
Import ListNotations.
Local Open Scope N_scope.

(* ------------------------------------------------------------------ *)
(** * The statement: plugin run vs. rules-level reference run *)

(* what the plugin answers to a list of submitted moves, and its final state *)
Fixpoint bot_run (s : bot) (ms : list move) : list (bool * bool) * bot :=
  match ms with
  | [] => ([], s)
  | m :: r => let '(s', o) := bot_make_move s m in let '(os, s'') := bot_run s' r in (o :: os, s'')
  end.

(* the reference: current rules-level position + the positions produced by accepted moves since the board was set *)
Definition occ_pos (p : position) (seen : list position) : nat := length (filter (same_position p) seen).
Fixpoint ref_run (p : position) (seen : list position) (ms : list move) : list (bool * bool) * position :=
  match ms with
  | [] => ([], p)
  | m :: r => if is_legal_move p m
              then let p' := make p m in
                   let '(os, q) := ref_run p' (p' :: seen) r in ((true, Nat.eqb (S (occ_pos p' seen)) 3) :: os, q)
              else let '(os, q) := ref_run p seen r in ((false, false) :: os, q)
  end.

(* ------------------------------------------------------------------ *)
(** * same_position on abstractions = MirrorBoard.same_pos = board_eqb (Good boards) *)

Lemma cell_eqb_eq : forall a b : cell, cell_eqb a b = true <-> a = b.
Proof.
  intros [[c1 p1]|] [[c2 p2]|]; cbn [cell_eqb]; split; intros H; try discriminate H; try reflexivity.
  - apply andb_true_iff in H. destruct H as [H1 H2].
    apply BotFacts.color_eqb_eq in H1. apply CoreFacts.piece_eqb_eq in H2. subst. reflexivity.
  - injection H as -> ->. apply andb_true_iff. split.
    + apply BotFacts.color_eqb_eq. reflexivity.
    + apply CoreFacts.piece_eqb_eq. reflexivity.
Qed.

Lemma cells_eqb_map : forall (f g : N -> cell) l,
  cells_eqb (map f l) (map g l) = true <-> (forall s, In s l -> f s = g s).
Proof.
  intros f g. induction l as [|x r IH]; cbn [map cells_eqb].
  - split; [intros _ s []|reflexivity].
  - rewrite andb_true_iff, cell_eqb_eq, IH. split.
    + intros [H1 H2] s [<-|Hs]; [exact H1|exact (H2 s Hs)].
    + intros H. split; [apply H; left; reflexivity|intros s Hs; apply H; right; exact Hs].
Qed.

Lemma optN_eqb_eq : forall a b : option N, optN_eqb a b = true <-> a = b.
Proof.
  intros [x|] [y|]; cbn [optN_eqb]; split; intros H; try discriminate H; try reflexivity.
  - apply N.eqb_eq in H. subst. reflexivity.
  - injection H as ->. apply N.eqb_refl.
Qed.

Lemma bool_eqb_eq : forall a b : bool, Bool.eqb a b = true <-> a = b.
Proof. intros [] []; cbn; split; congruence. Qed.

Theorem same_position_abs : forall x y, same_position (Board.abs x) (Board.abs y) = true <-> MirrorBoard.same_pos x y.
Proof.
  intros x y. unfold same_position, MirrorBoard.same_pos, Board.abs.
  cbn [cells stm cr_wk cr_wq cr_bk cr_bq epf].
  rewrite !andb_true_iff, cells_eqb_map, BotFacts.color_eqb_eq, !bool_eqb_eq, optN_eqb_eq.
  split.
  - intros ((((((Hc & Ht) & H1) & H2) & H3) & H4) & He).
    split; [exact Ht|]. split; [|split; [exact He|]].
    + intros [] []; assumption.
    + intros s Hs. apply Hc. apply in_sq_list. exact Hs.
  - intros (Ht & Hr & He & Hc).
    repeat split; try assumption; try apply Hr.
    intros s Hs. apply Hc. apply sq_list_lt. exact Hs.
Qed.

Theorem good_board_eqb_same_position : forall x y, Good x -> Good y ->
  board_eqb x y = same_position (Board.abs x) (Board.abs y).
Proof.
  intros x y Gx Gy. apply eq_true_iff_eq.
  rewrite (MirrorBoard.good_board_eqb x y Gx Gy), same_position_abs. reflexivity.
Qed.

(* the table's key comparison on consistent boards is the rules' position comparison *)
Theorem good_tf_key_same_position : forall x y, Good x -> Good y ->
  tf_key_eqb x y = same_position (Board.abs x) (Board.abs y).
Proof.
  intros x y Gx Gy. rewrite (MirrorBoard.good_tf_key x y Gx Gy). apply good_board_eqb_same_position; assumption.
Qed.

(* key-equal occurrences among boards = same_position occurrences among their abstractions *)
Lemma occK_occ_pos : forall b seenB, Good b -> (forall x, In x seenB -> Good x) ->
  occK b seenB = occ_pos (Board.abs b) (map Board.abs seenB).
Proof.
  intros b seenB Gb. unfold occ_pos. induction seenB as [|x r IH]; intros H; [reflexivity|].
  cbn [occK map filter].
  rewrite IH by (intros y Hy; apply H; right; exact Hy).
  assert (Gx : Good x) by (apply H; left; reflexivity).
  rewrite (good_tf_key_same_position x b Gx Gb).
  assert (E : same_position (Board.abs x) (Board.abs b) = same_position (Board.abs b) (Board.abs x)).
  { rewrite <- (good_board_eqb_same_position x b Gx Gb), <- (good_board_eqb_same_position b x Gb Gx).
    apply board_eqb_sym. }
  rewrite E. destruct (same_position (Board.abs b) (Board.abs x)); reflexivity.
Qed.

(* ------------------------------------------------------------------ *)
(** * The clocks grow by at most one per move *)

Lemma sat16_le : forall x, sat16 x <= x.
Proof. intros x. unfold sat16. destruct (N.ltb_spec 65535 x); lia. Qed.

Lemma apply_half_le : forall b m, b_half (apply b m) <= b_half b + 1.
Proof.
  intros b m. destruct (ApplyFacts.apply_fields b m) as (_ & _ & H & _). rewrite H.
  unfold ApplyFacts.half_after. pose proof (sat16_le (b_half b + 1)).
  destruct (piece_of_unchecked b (m_src m)); try lia; destruct (piece_of b (m_dst m)); lia.
Qed.

Lemma apply_full_le : forall b m, b_full (apply b m) <= b_full b + 1.
Proof.
  intros b m. destruct (ApplyFacts.apply_fields b m) as (_ & _ & _ & H). rewrite H.
  pose proof (sat16_le (b_full b + color_idx (b_turn b))).
  destruct (b_turn b); cbn [color_idx] in *; lia.
Qed.

(* ------------------------------------------------------------------ *)
(** * The running invariant and the step lemma *)

(* the bound 65535 as a natural number, in a form lia understands *)
Lemma of_nat_65535 : N.of_nat 65535%nat = 65535.
Proof. vm_compute. reflexivity. Qed.
Lemma clock_bound : forall x n, (N.to_nat x + n < 65535)%nat -> x + N.of_nat n < 65535.
Proof. intros x n H. rewrite <- of_nat_65535. generalize dependent 65535%nat. intros k H. lia. Qed.

(* bot state s, reference state (p, seen), n moves still to come *)
Definition run_inv (s : bot) (p : position) (seen : list position) (n : nat) : Prop :=
  Reachable (bt_board s) /\ Board.abs (bt_board s) = p
  /\ b_half (bt_board s) + N.of_nat n < 65535 /\ b_full (bt_board s) + N.of_nat n < 65535
  /\ exists seenB, counts (bt_tf s) seenB /\ (forall x, In x seenB -> Reachable x) /\ map Board.abs seenB = seen.

Lemma run_inv_set_board : forall b0 n, Reachable b0 ->
  (N.to_nat (b_half b0) + n < 65535)%nat -> (N.to_nat (b_full b0) + n < 65535)%nat ->
  run_inv (bot_set_board b0) (Board.abs b0) [] n.
Proof.
  intros b0 n R Hh Hf. unfold run_inv, bot_set_board. cbn [bt_board bt_tf].
  split; [exact R|split; [reflexivity|split; [exact (clock_bound _ _ Hh)|split; [exact (clock_bound _ _ Hf)|]]]].
  exists []. split; [exact counts_nil|split; [intros x []|reflexivity]].
Qed.

(* a rejected move: nothing changes, the answer is (false, false) *)
Theorem bot_step_rejected : forall s p seen n m, run_inv s p seen (S n) ->
  is_legal_move p m = false ->
  bot_make_move s m = (s, (false, false)) /\ run_inv s p seen n.
Proof.
  intros s p seen n m (R & E & Hh & Hf & seenB & Hc & HR & Hm) L.
  split.
  - unfold bot_make_move. rewrite (is_legal_rules_reachable _ m R), E, L. reflexivity.
  - split; [exact R|split; [exact E|split; [lia|split; [lia|]]]].
    exists seenB. split; [exact Hc|split; [exact HR|exact Hm]].
Qed.

(* an accepted move: the board becomes the rules' successor, the flag is "third occurrence", the invariant is kept *)
Theorem bot_step_accepted : forall s p seen n m, run_inv s p seen (S n) ->
  is_legal_move p m = true ->
  exists s', bot_make_move s m = (s', (true, Nat.eqb (S (occ_pos (make p m) seen)) 3))
             /\ run_inv s' (make p m) (make p m :: seen) n.
Proof.
  intros s p seen n m (R & E & Hh & Hf & seenB & Hc & HR & Hm) L.
  assert (Lb : is_legal (bt_board s) m = true) by (rewrite (is_legal_rules_reachable _ m R), E; exact L).
  assert (R' : Reachable (apply (bt_board s) m)) by (apply RB_move; assumption).
  assert (A : Board.abs (apply (bt_board s) m) = make p m).
  { rewrite <- E. apply apply_exact_reachable; [exact R|lia|lia|exact Lb]. }
  exists {| bt_board := apply (bt_board s) m; bt_tf := fst (tf_add (bt_tf s) (apply (bt_board s) m)) |}.
  split.
  - unfold bot_make_move. rewrite Lb. cbv zeta.
    pose proof (counts_flag (bt_tf s) seenB (apply (bt_board s) m) Hc) as F.
    rewrite (occK_occ_pos _ seenB (Reachable_Good _ R')) in F
      by (intros x Hx; apply Reachable_Good, HR, Hx).
    rewrite Hm, A in F.
    destruct (tf_add (bt_tf s) (apply (bt_board s) m)) as [tf' three]. cbn [fst snd] in F |- *.
    rewrite F. reflexivity.
  - unfold run_inv. cbn [bt_board bt_tf].
    pose proof (apply_half_le (bt_board s) m). pose proof (apply_full_le (bt_board s) m).
    split; [exact R'|split; [exact A|split; [lia|split; [lia|]]]].
    exists (apply (bt_board s) m :: seenB).
    split; [apply counts_add; exact Hc|split].
    + intros x [<-|Hx]; [exact R'|exact (HR x Hx)].
    + cbn [map]. rewrite A, Hm. reflexivity.
Qed.

(* one step, both cases: the plugin's answer and next state follow the reference *)
Corollary bot_step : forall s p seen n m, run_inv s p seen (S n) ->
  if is_legal_move p m
  then exists s', bot_make_move s m = (s', (true, Nat.eqb (S (occ_pos (make p m) seen)) 3))
                  /\ run_inv s' (make p m) (make p m :: seen) n
  else bot_make_move s m = (s, (false, false)) /\ run_inv s p seen n.
Proof.
  intros s p seen n m H. destruct (is_legal_move p m) eqn:L.
  - exact (bot_step_accepted s p seen n m H L).
  - exact (bot_step_rejected s p seen n m H L).
Qed.

(* ------------------------------------------------------------------ *)
(** * Histories of any length *)

Theorem bot_run_inv : forall ms s p seen, run_inv s p seen (length ms) ->
  fst (bot_run s ms) = fst (ref_run p seen ms)
  /\ Board.abs (bt_board (snd (bot_run s ms))) = snd (ref_run p seen ms)
  /\ exists seen', run_inv (snd (bot_run s ms)) (snd (ref_run p seen ms)) seen' 0.
Proof.
  induction ms as [|m r IH]; intros s p seen H.
  - cbn [bot_run ref_run fst snd]. split; [reflexivity|]. split; [exact (proj1 (proj2 H))|].
    exists seen. exact H.
  - cbn [length] in H. cbn [bot_run ref_run].
    pose proof (bot_step s p seen (length r) m H) as St.
    destruct (is_legal_move p m).
    + destruct St as (s' & E & H'). rewrite E.
      destruct (IH s' (make p m) (make p m :: seen) H') as (I1 & I2 & I3).
      destruct (bot_run s' r) as [os s'']. destruct (ref_run (make p m) (make p m :: seen) r) as [os' q].
      cbn [fst snd] in *. split; [rewrite I1; reflexivity|split; [exact I2|exact I3]].
    + destruct St as (E & H'). rewrite E.
      destruct (IH s p seen H') as (I1 & I2 & I3).
      destruct (bot_run s r) as [os s'']. destruct (ref_run p seen r) as [os' q].
      cbn [fst snd] in *. split; [rewrite I1; reflexivity|split; [exact I2|exact I3]].
Qed.

(* THE END-TO-END THEOREM (C15) *)
Theorem bot_history : forall b0 ms, Reachable b0 ->
  (N.to_nat (b_half b0) + length ms < 65535)%nat -> (N.to_nat (b_full b0) + length ms < 65535)%nat ->
  fst (bot_run (bot_set_board b0) ms) = fst (ref_run (Board.abs b0) [] ms)
  /\ Board.abs (bt_board (snd (bot_run (bot_set_board b0) ms))) = snd (ref_run (Board.abs b0) [] ms).
Proof.
  intros b0 ms R Hh Hf.
  destruct (bot_run_inv ms _ _ _ (run_inv_set_board b0 (length ms) R Hh Hf)) as (H1 & H2 & _).
  split; assumption.
Qed.

(* the final plugin board is again a reachable (hence consistent) board: the run can be continued *)
Theorem bot_history_reachable : forall b0 ms, Reachable b0 ->
  (N.to_nat (b_half b0) + length ms < 65535)%nat -> (N.to_nat (b_full b0) + length ms < 65535)%nat ->
  Reachable (bt_board (snd (bot_run (bot_set_board b0) ms))).
Proof.
  intros b0 ms R Hh Hf.
  destruct (bot_run_inv ms _ _ _ (run_inv_set_board b0 (length ms) R Hh Hf)) as (_ & _ & seen' & H).
  exact (proj1 H).
Qed.

(* the plugin's initial state (the standard position) *)
Corollary bot_history_init : forall ms, (length ms < 65535)%nat ->
  fst (bot_run bot_init ms) = fst (ref_run (Board.abs standard) [] ms)
  /\ Board.abs (bt_board (snd (bot_run bot_init ms))) = snd (ref_run (Board.abs standard) [] ms).
Proof.
  intros ms H. change bot_init with (bot_set_board standard).
  apply bot_history; [exact RB_standard| |]; cbn [standard b_half b_full]; exact H.
Qed.

Print Assumptions bot_step.
Print Assumptions bot_history.
Print Assumptions bot_history_reachable.
Print Assumptions bot_history_init.
