(* C01 / C03 - the attack layer shared by the legality proofs: proofs of the statements AT1..AT7 of AttackDefs.v.
   Axiom-free. *)
From Coq Require Import NArith ZArith List Bool Lia ZifyBool ZifyN Btauto.
From Chess Require Import base.Bits base.Types base.BitBoard base.Sweep geom.Geometry model.Board model.MoveGen model.Apply spec.Rules.
From Chess Require Import proofs.BitsFacts proofs.BitBoardFacts proofs.GeomSweeps.
From Chess Require proofs.SiteFacts.
From Chess Require Import proofs.BridgeFacts.
From Chess Require Import spec.IterSpec proofs.HashFacts proofs.InvFacts proofs.LegalDefs proofs.AttackDefs.
Import ListNotations.
Local Open Scope N_scope.

(* ------------------------------------------------------------------ *)
(** * Small conversions *)

Lemma Part_bridge : forall b, HashFacts.Part b -> BridgeFacts.Part b.
Proof.
  intros b P. constructor.
  - exact (HashFacts.part_wf_colors b P).
  - exact (HashFacts.part_wf_pieces b P).
  - exact (HashFacts.part_colors_disjoint b P).
  - exact (HashFacts.part_pieces_disjoint b P).
  - exact (HashFacts.part_cover b P).
Qed.

Lemma Good_Part : forall b, LegalDefs.Good b -> HashFacts.Part b.
Proof. intros b G. exact (inv_part b (good_inv b G)). Qed.

(* the membership bits of one occupied square *)
Lemma raw_mem_pieces : forall b t c p q, HashFacts.Part b -> t < 64 -> raw_get b t = Some (c, p) ->
  mem (pieces b q) t = piece_eqb q p.
Proof.
  intros b t c p q P Ht H.
  pose proof (proj1 (HashFacts.raw_get_spec b P t Ht)) as S.
  pose proof (proj1 (S c p) H) as [Hc Hp].
  destruct (mem (pieces b q) t) eqn:E.
  - pose proof (proj2 (S c q) (conj Hc E)) as H2. rewrite H in H2. injection H2 as ->.
    symmetry. apply BridgeFacts.piece_eqb_refl.
  - destruct (piece_eqb q p) eqn:E2; [|reflexivity].
    apply BridgeFacts.piece_eqb_eq' in E2. subst q. congruence.
Qed.

Lemma raw_mem_colors : forall b t c p c', HashFacts.Part b -> t < 64 -> raw_get b t = Some (c, p) ->
  mem (colors b c') t = color_eqb c' c.
Proof.
  intros b t c p c' P Ht H.
  pose proof (proj1 (HashFacts.raw_get_spec b P t Ht)) as S.
  pose proof (proj1 (S c p) H) as [Hc Hp].
  destruct (mem (colors b c') t) eqn:E.
  - pose proof (proj2 (S c' p) (conj E Hp)) as H2. rewrite H in H2. injection H2 as ->.
    symmetry. apply BridgeFacts.color_eqb_refl.
  - destruct (color_eqb c' c) eqn:E2; [|reflexivity].
    apply BridgeFacts.color_eqb_eq in E2. subst c'. congruence.
Qed.

Lemma raw_none_colors : forall b t c, HashFacts.Part b -> t < 64 -> raw_get b t = None -> mem (colors b c) t = false.
Proof.
  intros b t c P Ht H. apply (HashFacts.raw_get_spec b P t Ht) in H.
  unfold all_occ in H. rewrite mem_or in H. apply orb_false_iff in H. destruct H as [H1 H2].
  destruct c; assumption.
Qed.

(* ------------------------------------------------------------------ *)
(** * AT1 *)

Lemma attackers_mem_some : forall b c s occ t c' pc, HashFacts.Part b -> t < 64 -> raw_get b t = Some (c', pc) ->
  mem (attackers_of b c s occ) t = color_eqb c c' && att_from pc c s occ t.
Proof.
  intros b c s occ t c' pc P Ht H.
  rewrite attackers_of_unfold, !mem_or, !mem_and, !mem_or.
  rewrite (raw_mem_colors b t c' pc c P Ht H).
  change (b_bishop b) with (pieces b Bishop). change (b_queen b) with (pieces b Queen).
  change (b_rook b) with (pieces b Rook). change (b_knight b) with (pieces b Knight).
  change (b_king b) with (pieces b King). change (b_pawn b) with (pieces b Pawn).
  rewrite !(raw_mem_pieces b t c' pc _ P Ht H).
  destruct (color_eqb c c'); [|rewrite !andb_false_r; reflexivity].
  rewrite !andb_true_r. cbn [andb].
  destruct pc; cbn [piece_eqb piece_idx N.eqb Pos.eqb att_from]; btauto.
Qed.

Lemma attackers_mem_none : forall b c s occ t, HashFacts.Part b -> t < 64 -> raw_get b t = None ->
  mem (attackers_of b c s occ) t = false.
Proof.
  intros b c s occ t P Ht H.
  rewrite attackers_of_unfold, !mem_or, !mem_and.
  rewrite (raw_none_colors b t c P Ht H), !andb_false_r. reflexivity.
Qed.

Theorem attackers_mem : attackers_mem_statement.
Proof.
  intros b c s occ t P Hs Ht. destruct (raw_get b t) as [[c' pc]|] eqn:E.
  - rewrite (attackers_mem_some b c s occ t c' pc P Ht E). split.
    + intros H. apply andb_true_iff in H. destruct H as [H1 H2]. apply BridgeFacts.color_eqb_eq in H1. subst c'.
      exists pc. split; [reflexivity|exact H2].
    + intros [pc' [H1 H2]]. injection H1 as <- <-. rewrite BridgeFacts.color_eqb_refl, H2. reflexivity.
  - rewrite (attackers_mem_none b c s occ t P Ht E). split; [discriminate|].
    intros [pc' [H1 _]]. discriminate H1.
Qed.

(* ------------------------------------------------------------------ *)
(** * AT2 *)

Lemma slide_rays_none : forall ds s occ t, s < 64 ->
  mem (slide ds s occ) t = mem (rays_set ds s) t && none (bb_and occ (between_geo s t)).
Proof.
  intros ds s occ t Hs. destruct (mem (rays_set ds s) t) eqn:E.
  - rewrite (slide_between ds s occ t Hs E). reflexivity.
  - destruct (mem (slide ds s occ) t) eqn:E2; [|reflexivity].
    apply slide_sub_rays in E2. congruence.
Qed.

Theorem slider_att : slider_att_statement.
Proof.
  intros pc c s occ t Hs Hpc.
  destruct Hpc as [->|[->| ->]]; cbn [att_from slider_kind];
    rewrite ?bishop_attacks_unfold, ?rook_attacks_unfold, ?bishop_rays_geo_unfold, ?rook_rays_geo_unfold,
            !(slide_rays_none _ s occ t Hs);
    try reflexivity.
  destruct (mem (rays_set bishop_dirs s) t), (mem (rays_set rook_dirs s) t), (none (bb_and occ (between_geo s t))); reflexivity.
Qed.

(* ------------------------------------------------------------------ *)
(** * AT3 *)

Lemma one_king_nz : forall b c, one_king b c -> bb_and (colors b c) (b_king b) <> 0.
Proof. intros b c H E. unfold one_king in H. rewrite E in H. discriminate H. Qed.

Lemma Good_one_king : forall b c, LegalDefs.Good b -> one_king b c.
Proof. intros b c G. destruct c; [exact (good_wk b G)|exact (good_bk b G)]. Qed.

Lemma king_sq_facts : forall b c, HashFacts.Part b -> one_king b c ->
  king_sq b c < 64 /\ raw_get b (king_sq b c) = Some (c, King)
  /\ (forall s, s < 64 -> raw_get b s = Some (c, King) -> s = king_sq b c).
Proof.
  intros b c P K. pose proof (one_king_nz b c K) as Hnz.
  pose proof (king_sq_lt b c (Part_bridge b P) Hnz) as Hlt.
  destruct (king_sq_mem b c Hnz) as [Hc Hk].
  assert (Hr : raw_get b (king_sq b c) = Some (c, King)) by (apply raw_of_mem; assumption).
  split; [exact Hlt|split; [exact Hr|]].
  intros s Hs H.
  assert (Hcnt : count (bb_and (b_king b) (colors b c)) = 1).
  { unfold bb_and. rewrite N.land_comm. exact K. }
  exact (one_king_of_count b c P Hcnt s _ Hs Hlt H Hr).
Qed.

Lemma none_mem_false : forall a t, none a = true -> mem a t = false.
Proof. intros a t H. unfold none in H. apply N.eqb_eq in H. subst a. apply mem_0. Qed.

Lemma kings_apart_turn : forall b, LegalDefs.Good b ->
  mem (king_geo (king_sq b (opp (b_turn b)))) (king_sq b (b_turn b)) = false.
Proof.
  intros b G. pose proof (Good_Part b G) as P.
  destruct (king_sq_facts b (b_turn b) P (Good_one_king b _ G)) as (L1 & R1 & _).
  destruct (king_sq_facts b (opp (b_turn b)) P (Good_one_king b _ G)) as (L2 & R2 & _).
  pose proof (none_mem_false _ (king_sq b (b_turn b)) (good_opp b G)) as H.
  rewrite (attackers_mem_some b _ _ _ _ _ _ P L1 R1), BridgeFacts.color_eqb_refl in H.
  exact H.
Qed.

Theorem kings : kings_statement.
Proof.
  intros b c G. pose proof (Good_Part b G) as P.
  destruct (king_sq_facts b c P (Good_one_king b c G)) as (L1 & R1 & U1).
  split; [exact L1|split; [exact R1|split; [exact U1|]]].
  destruct (king_sq_facts b (opp c) P (Good_one_king b _ G)) as (L2 & _ & _).
  pose proof (kings_apart_turn b G) as H.
  destruct (color_cases c (b_turn b)) as [->| ->].
  - rewrite (king_geo_sym _ _ L1 L2). exact H.
  - rewrite InvFacts.opp_opp in *. exact H.
Qed.

(* ------------------------------------------------------------------ *)
(** * The from-scratch scan: pinners, checkers, pinned *)

Definition pinners (b : board) : N :=
  bb_and (colors b (opp (b_turn b)))
         (bb_or (bb_and (bb_or (b_bishop b) (b_queen b)) (bishop_rays_geo (king_sq b (b_turn b))))
                (bb_and (bb_or (b_rook b) (b_queen b)) (rook_rays_geo (king_sq b (b_turn b))))).

Lemma pinners_mem_some : forall b t c' pc, HashFacts.Part b -> t < 64 -> raw_get b t = Some (c', pc) ->
  mem (pinners b) t = color_eqb (opp (b_turn b)) c' && slider_kind pc (king_sq b (b_turn b)) t.
Proof.
  intros b t c' pc P Ht H. unfold pinners. rewrite !mem_and, !mem_or, !mem_and, !mem_or.
  rewrite (raw_mem_colors b t c' pc _ P Ht H).
  change (b_bishop b) with (pieces b Bishop). change (b_queen b) with (pieces b Queen).
  change (b_rook b) with (pieces b Rook).
  rewrite !(raw_mem_pieces b t c' pc _ P Ht H).
  destruct pc; cbn [piece_eqb piece_idx N.eqb Pos.eqb slider_kind]; btauto.
Qed.

Lemma pinners_mem_none : forall b t, HashFacts.Part b -> t < 64 -> raw_get b t = None -> mem (pinners b) t = false.
Proof.
  intros b t P Ht H. unfold pinners. rewrite mem_and, (raw_none_colors b t _ P Ht H). reflexivity.
Qed.

Lemma pinners_spec : forall b t, HashFacts.Part b -> t < 64 ->
  (mem (pinners b) t = true <->
   exists pc, raw_get b t = Some (opp (b_turn b), pc) /\ slider_kind pc (king_sq b (b_turn b)) t = true).
Proof.
  intros b t P Ht. destruct (raw_get b t) as [[c' pc]|] eqn:E.
  - rewrite (pinners_mem_some b t c' pc P Ht E). split.
    + intros H. apply andb_true_iff in H. destruct H as [H1 H2]. apply BridgeFacts.color_eqb_eq in H1. subst c'.
      exists pc. split; [reflexivity|exact H2].
    + intros [pc' [H1 H2]]. injection H1 as <- <-. rewrite BridgeFacts.color_eqb_refl, H2. reflexivity.
  - rewrite (pinners_mem_none b t P Ht E). split; [discriminate|]. intros [pc' [H1 _]]. discriminate H1.
Qed.

Lemma update_pin_info_checkers' : forall b,
  b_checkers (update_pin_info b) =
  bb_or (bb_or (snd (scan_sliders (all_occ b) (king_sq b (b_turn b)) (elements (pinners b))))
               (bb_and (bb_and (knight_geo (king_sq b (b_turn b))) (b_knight b)) (colors b (opp (b_turn b)))))
        (bb_and (bb_and (pawn_att_geo (b_turn b) (king_sq b (b_turn b))) (b_pawn b)) (colors b (opp (b_turn b)))).
Proof. intros b. apply update_pin_info_checkers. Qed.

Lemma update_pin_info_pinned : forall b,
  b_pinned (update_pin_info b) = fst (scan_sliders (all_occ b) (king_sq b (b_turn b)) (elements (pinners b))).
Proof.
  intros b. unfold update_pin_info, pinners.
  destruct (scan_sliders (all_occ b) (king_sq b (b_turn b)) _) as [p c]. reflexivity.
Qed.

Lemma existsb_eq_elements : forall X t (f : N -> bool),
  existsb (fun x => (t <? 64) && (t =? x) && f x) (elements X) = (t <? 64) && mem X t && f t.
Proof.
  intros X t f. apply eq_iff_eq_true. rewrite existsb_exists. split.
  - intros [x [Hin H]]. apply andb_true_iff in H. destruct H as [H H3]. apply andb_true_iff in H. destruct H as [H1 H2].
    apply N.eqb_eq in H2. subst x.
    apply elements_spec in Hin. destruct Hin as [_ Hm]. rewrite H1, Hm, H3. reflexivity.
  - intros H. apply andb_true_iff in H. destruct H as [H H3]. apply andb_true_iff in H. destruct H as [H1 H2].
    exists t. split.
    + apply elements_spec. split; [apply N.ltb_lt; exact H1|exact H2].
    + rewrite H1, N.eqb_refl, H3. reflexivity.
Qed.

(* ------------------------------------------------------------------ *)
(** * AT4 *)

Lemma checkers_mem_raw : forall b t, LegalDefs.Good b -> t < 64 ->
  mem (b_checkers b) t =
  mem (pinners b) t && none (bb_and (all_occ b) (between_geo (ksq b) t))
  || mem (knight_geo (ksq b)) t && mem (b_knight b) t && mem (colors b (opp (b_turn b))) t
  || mem (pawn_att_geo (b_turn b) (ksq b)) t && mem (b_pawn b) t && mem (colors b (opp (b_turn b))) t.
Proof.
  intros b t G Ht. rewrite (proj2 (good_fresh b G)), update_pin_info_checkers', !mem_or, !mem_and.
  rewrite scan_sliders_mem, existsb_eq_elements. apply N.ltb_lt in Ht. rewrite Ht. reflexivity.
Qed.

Lemma checkers_mem_some : forall b t c' pc, LegalDefs.Good b -> t < 64 -> raw_get b t = Some (c', pc) ->
  mem (b_checkers b) t =
  color_eqb (opp (b_turn b)) c' && negb (piece_eqb pc King) && att_from pc (opp (b_turn b)) (ksq b) (all_occ b) t.
Proof.
  intros b t c' pc G Ht H. pose proof (Good_Part b G) as P.
  assert (Hk : ksq b < 64) by (apply (king_sq_facts b (b_turn b) P (Good_one_king b _ G))).
  rewrite (checkers_mem_raw b t G Ht). fold (ksq b).
  rewrite (pinners_mem_some b t c' pc P Ht H). fold (ksq b).
  rewrite (raw_mem_colors b t c' pc _ P Ht H).
  change (b_knight b) with (pieces b Knight). change (b_pawn b) with (pieces b Pawn).
  rewrite !(raw_mem_pieces b t c' pc _ P Ht H).
  destruct pc.
  - cbn [piece_eqb piece_idx N.eqb Pos.eqb slider_kind att_from]. rewrite InvFacts.opp_opp. btauto.
  - cbn [piece_eqb piece_idx N.eqb Pos.eqb slider_kind att_from]. btauto.
  - rewrite (slider_att Bishop (opp (b_turn b)) (ksq b) (all_occ b) t Hk (or_introl eq_refl)).
    cbn [piece_eqb piece_idx N.eqb Pos.eqb]. btauto.
  - rewrite (slider_att Rook (opp (b_turn b)) (ksq b) (all_occ b) t Hk (or_intror (or_introl eq_refl))).
    cbn [piece_eqb piece_idx N.eqb Pos.eqb]. btauto.
  - rewrite (slider_att Queen (opp (b_turn b)) (ksq b) (all_occ b) t Hk (or_intror (or_intror eq_refl))).
    cbn [piece_eqb piece_idx N.eqb Pos.eqb]. btauto.
  - cbn [piece_eqb piece_idx N.eqb Pos.eqb slider_kind att_from]. btauto.
Qed.

Lemma checkers_mem_none : forall b t, LegalDefs.Good b -> t < 64 -> raw_get b t = None -> mem (b_checkers b) t = false.
Proof.
  intros b t G Ht H. pose proof (Good_Part b G) as P.
  rewrite (checkers_mem_raw b t G Ht), (pinners_mem_none b t P Ht H), (raw_none_colors b t _ P Ht H), !andb_false_r.
  reflexivity.
Qed.

Theorem checkers_spec : checkers_spec_statement.
Proof.
  intros b t G. pose proof (Good_Part b G) as P. split.
  - intros H. assert (Ht : t < 64) by exact (mem_lt64 _ t (HashFacts.part_wf_checkers b P) H).
    split; [exact Ht|]. destruct (raw_get b t) as [[c' pc]|] eqn:E.
    + rewrite (checkers_mem_some b t c' pc G Ht E) in H.
      apply andb_true_iff in H. destruct H as [H H3]. apply andb_true_iff in H. destruct H as [H1 H2].
      apply BridgeFacts.color_eqb_eq in H1. subst c'. exists pc. split; [reflexivity|split; [|exact H3]].
      intros ->. discriminate H2.
    + rewrite (checkers_mem_none b t G Ht E) in H. discriminate H.
  - intros [Ht [pc [H1 [H2 H3]]]]. rewrite (checkers_mem_some b t _ pc G Ht H1), BridgeFacts.color_eqb_refl, H3.
    destruct pc; try reflexivity. contradiction H2. reflexivity.
Qed.

(* ------------------------------------------------------------------ *)
(** * AT5 *)

Lemma scan_step_fst : forall occ k pi ch x,
  fst (scan_step occ k (pi, ch) x) =
  if none (bb_and occ (between_geo k x)) then pi
  else if count (bb_and occ (between_geo k x)) =? 1 then bb_or pi (bb_and occ (between_geo k x)) else pi.
Proof.
  intros occ k pi ch x. unfold scan_step. cbv beta iota zeta.
  destruct (none (bb_and occ (between_geo k x))); [reflexivity|].
  destruct (count (bb_and occ (between_geo k x)) =? 1); reflexivity.
Qed.

Definition pin_hit (occ k x s : N) : bool :=
  negb (none (bb_and occ (between_geo k s))) && (count (bb_and occ (between_geo k s)) =? 1)
  && mem (bb_and occ (between_geo k s)) x.

Lemma scan_pinned_mem : forall occ k l acc x,
  mem (fst (fold_left (scan_step occ k) l acc)) x = mem (fst acc) x || existsb (pin_hit occ k x) l.
Proof.
  intros occ k l. induction l as [|s l IH]; intros acc x; cbn [fold_left existsb].
  - rewrite orb_false_r. reflexivity.
  - rewrite IH. destruct acc as [pi ch]. rewrite scan_step_fst. cbn [fst]. unfold pin_hit at 2.
    destruct (none (bb_and occ (between_geo k s))); cbn [negb andb orb]; [reflexivity|].
    destruct (count (bb_and occ (between_geo k s)) =? 1); cbn [andb orb]; [|reflexivity].
    rewrite mem_or, orb_assoc. reflexivity.
Qed.

Lemma scan_sliders_pinned_mem : forall occ k l x,
  mem (fst (scan_sliders occ k l)) x = existsb (pin_hit occ k x) l.
Proof.
  intros occ k l x. rewrite scan_sliders_unfold, scan_pinned_mem. change (fst (0, 0)) with 0.
  rewrite mem_0. reflexivity.
Qed.

Lemma count_from_pos : forall x, x < 64 -> count (from_pos x) = 1.
Proof. intros x Hx. rewrite (count_spec _ (wf64_from_pos x)), (elements_from_pos x Hx). reflexivity. Qed.

(* a one-element set that contains x is {x} *)
Lemma pin_hit_spec : forall occ k x s, wf64 occ -> x < 64 ->
  (pin_hit occ k x s = true <-> bb_and occ (between_geo k s) = from_pos x).
Proof.
  intros occ k x s W Hx. unfold pin_hit. set (a := bb_and occ (between_geo k s)).
  assert (Wa : wf64 a) by (apply wf64_land_l, W). split.
  - intros H. apply andb_true_iff in H. destruct H as [H H3]. apply andb_true_iff in H. destruct H as [_ H2].
    apply N.eqb_eq in H2. destruct (SiteFacts.single_bit a Wa H2) as [Hlt E].
    rewrite E, mem_bit in H3. apply N.eqb_eq in H3. rewrite H3, from_pos_bit by exact Hlt. exact E.
  - intros ->. rewrite (count_from_pos x Hx), (mem_from_pos x x Hx Hx), !N.eqb_refl.
    assert (N0 : none (from_pos x) = false).
    { unfold none. apply (eqb0_false_intro _ x). rewrite (mem_from_pos x x Hx Hx). apply N.eqb_refl. }
    rewrite N0. reflexivity.
Qed.

Theorem pinned_spec : pinned_spec_statement.
Proof.
  intros b x G. pose proof (Good_Part b G) as P.
  pose proof (wf64_all_occ b (Part_bridge b P)) as W.
  rewrite (proj1 (good_fresh b G)) at 1. rewrite update_pin_info_pinned, scan_sliders_pinned_mem, existsb_exists.
  fold (ksq b). split.
  - intros [s [Hin H]].
    assert (Hx : x < 64).
    { unfold pin_hit in H. apply andb_true_iff in H. destruct H as [_ H].
      apply (mem_lt64 _ x (wf64_land_l _ _ W) H). }
    split; [exact Hx|]. apply elements_spec in Hin. destruct Hin as [Hs Hm].
    apply (pinners_spec b s P Hs) in Hm. destruct Hm as [pc [H1 H2]].
    exists s, pc. split; [exact Hs|split; [exact H1|split; [exact H2|]]].
    apply (pin_hit_spec _ _ x s W Hx). exact H.
  - intros [Hx [t [pc [Ht [H1 [H2 H3]]]]]]. exists t. split.
    + apply elements_spec. split; [exact Ht|]. apply (pinners_spec b t P Ht). exists pc. split; assumption.
    + apply (pin_hit_spec _ _ x t W Hx). exact H3.
Qed.

(* ------------------------------------------------------------------ *)
(** * AT6 *)

Lemma move_dest_free : forall b m pc promo, Inv b -> move_ok b m pc promo ->
  raw_get b (m_dst m) = None \/ exists cp, raw_get b (m_dst m) = Some (opp (b_turn b), cp).
Proof.
  intros b m pc promo [P C RO EP] MO.
  exact (kind_dest b pc _ _ promo P EP (mo_kind _ _ _ _ MO) (mo_dst _ _ _ _ MO)).
Qed.

Theorem after_move : after_move_statement.
Proof.
  intros b m pc promo G MO. pose proof (good_inv b G) as I.
  pose proof (move_dest_free b m pc promo I MO) as Hfree.
  destruct I as [P C RO EP].
  pose proof (mo_src _ _ _ _ MO) as Hs. pose proof (mo_dst _ _ _ _ MO) as Hd.
  pose proof (mo_raw _ _ _ _ MO) as Hraw.
  assert (Hc : is_castle_move pc m = true -> pc <> Knight -> pc <> Pawn ->
     forall s, s < 64 -> mem (castle_rook_mv (b_turn b) m) s = true ->
       s <> m_src m /\ s <> m_dst m /\ (raw_get b s = Some (b_turn b, Rook) \/ raw_get b s = None)).
  { intros H _ _. exact (castle_conditions b m pc promo P RO EP MO H). }
  assert (He : pc = Pawn -> m_promo m = None -> is_double_push (b_turn b) m = false -> enpassant_pos b = Some (m_dst m) ->
     ep_victim_sq (b_turn b) m < 64 /\ ep_victim_sq (b_turn b) m <> m_src m /\ ep_victim_sq (b_turn b) m <> m_dst m /\
     raw_get b (ep_victim_sq (b_turn b) m) = Some (opp (b_turn b), Pawn)).
  { intros _ _ _ H. exact (ep_conditions b m pc EP Hs Hraw H). }
  split.
  - exact (proj1 (apply_consistent_gen b m pc P C Hs Hd Hraw Hfree Hc He)).
  - exact (apply_raw_get b m pc P C Hs Hd Hraw Hfree Hc He).
Qed.

(* ------------------------------------------------------------------ *)
(** * AT7 *)

Lemma wf64_attackers_of : forall b c s occ, HashFacts.Part b -> wf64 (attackers_of b c s occ).
Proof.
  intros b c s occ P. pose proof (HashFacts.part_wf_colors b P c) as W.
  rewrite attackers_of_unfold. unfold bb_or, bb_and.
  repeat apply wf64_lor; try (apply wf64_land_r; exact W); apply wf64_land_l, wf64_land_r, W.
Qed.

(* where the mover's king stands after the move *)
Lemma after5_mover_king : forall b m pc promo s, LegalDefs.Good b -> move_ok b m pc promo -> s < 64 ->
  (after5 b m pc s = Some (b_turn b, King) <-> s = (if piece_eqb pc King then m_dst m else ksq b)).
Proof.
  intros b m pc promo s G MO Hlt. pose proof (good_inv b G) as I.
  pose proof (move_dest_free b m pc promo I MO) as Hfree.
  destruct I as [P C RO EP].
  pose proof (mo_src _ _ _ _ MO) as Hs. pose proof (mo_dst _ _ _ _ MO) as Hd.
  pose proof (mo_raw _ _ _ _ MO) as Hraw.
  pose proof (src_dst_ne b m pc Hraw Hfree) as Hne.
  destruct (kings b (b_turn b) G) as (Lk & Rk & Uk & _). fold (ksq b) in Lk, Rk, Uk.
  split.
  - intros H.
    destruct (after5_king b m pc s _ H (promo_not_king m promo (mo_promo _ _ _ _ MO))) as (N1 & [(E & Ep & _)|(N2 & X)]).
    + subst pc. exact E.
    + pose proof (Uk s Hlt X) as E. destruct (piece_eqb pc King) eqn:Ek; [|exact E].
      exfalso. apply piece_eqb_King in Ek. apply N1. rewrite E. symmetry. exact (mo_king _ _ _ _ MO Ek).
  - destruct (piece_eqb pc King) eqn:Ek; intros ->.
    + apply piece_eqb_King in Ek. subst pc. unfold after5. cbv zeta.
      assert (B : moved b m King (m_dst m) = Some (b_turn b, King)).
      { unfold moved. rewrite N.eqb_refl. destruct (N.eqb_spec (m_dst m) (m_src m)) as [E|_]; [symmetry in E; contradiction|reflexivity]. }
      rewrite B. destruct (is_castle_move King m) eqn:Ec; [|reflexivity].
      destruct (mem (castle_rook_mv (b_turn b) m) (m_dst m)) eqn:Em; [exfalso|reflexivity].
      destruct (castle_conditions b m King promo P RO EP MO Ec _ Hd Em) as (_ & A & _). apply A. reflexivity.
    + rewrite after5_same; [exact Rk| | | |].
      * intros E. rewrite E, Hraw in Rk. injection Rk as ->. discriminate Ek.
      * intros E. rewrite E in Rk. destruct Hfree as [F|[cp F]]; rewrite F in Rk; [discriminate Rk|].
        injection Rk as Rk _. exact (opp_neq _ Rk).
      * intros He E. destruct (ep_conditions b m pc EP Hs Hraw He) as (_ & _ & _ & V).
        rewrite <- E, Rk in V. discriminate V.
      * intros Hc. unfold is_castle_move in Hc. rewrite Ek in Hc. discriminate Hc.
Qed.

Lemma king_sq_of_raw : forall b c k, HashFacts.Part b -> k < 64 ->
  (forall s, s < 64 -> (raw_get b s = Some (c, King) <-> s = k)) -> king_sq b c = k.
Proof.
  intros b c k P Hk H. rewrite king_sq_unfold.
  assert (E : bb_and (colors b c) (b_king b) = bit k).
  { apply ext64; [apply wf64_land_l, (HashFacts.part_wf_colors b P c)|apply SiteFacts.wf64_bit, Hk|].
    intros s Hs. rewrite mem_and, mem_bit.
    pose proof (proj1 (HashFacts.raw_get_spec b P s Hs) c King) as S. cbn [pieces] in S.
    destruct (N.eqb_spec s k) as [E|E].
    - apply (H s Hs) in E. apply S in E. destruct E as [-> ->]. reflexivity.
    - destruct (mem (colors b c) s && mem (b_king b) s) eqn:X; [exfalso|reflexivity].
      apply andb_true_iff in X. apply S in X. apply (H s Hs) in X. contradiction. }
  rewrite E. apply tz64_bit.
Qed.

Theorem safe_after_spec : safe_after_spec_statement.
Proof.
  intros b m pc promo G MO. cbv zeta.
  destruct (after_move b m pc promo G MO) as [P' RG].
  destruct (apply_turn_ep b m) as [ET _].
  set (k' := if piece_eqb pc King then m_dst m else ksq b).
  assert (Lk' : k' < 64).
  { unfold k'. destruct (piece_eqb pc King); [exact (mo_dst _ _ _ _ MO)|].
    apply (kings b (b_turn b) G). }
  assert (EK : king_sq (apply b m) (b_turn b) = k').
  { apply (king_sq_of_raw _ _ _ P' Lk'). intros s Hs. rewrite (RG s Hs).
    exact (after5_mover_king b m pc promo s G MO Hs). }
  split; [exact EK|].
  unfold safe_after. cbv zeta. rewrite ET, EK.
  rewrite (none_spec _ (wf64_attackers_of _ _ _ _ P')). split.
  - intros H t pc' Ht Hr. specialize (H t Ht).
    rewrite (attackers_mem_some _ _ _ _ _ _ _ P' Ht Hr), BridgeFacts.color_eqb_refl in H. exact H.
  - intros H t Ht. destruct (raw_get (apply b m) t) as [[c' pc']|] eqn:E.
    + rewrite (attackers_mem_some _ _ _ _ _ _ _ P' Ht E).
      destruct (color_eqb (opp (b_turn b)) c') eqn:Ec; [|reflexivity].
      apply BridgeFacts.color_eqb_eq in Ec. subst c'. exact (H t pc' Ht E).
    + exact (attackers_mem_none _ _ _ _ _ P' Ht E).
Qed.

(* ------------------------------------------------------------------ *)
Print Assumptions attackers_mem.
Print Assumptions slider_att.
Print Assumptions kings.
Print Assumptions checkers_spec.
Print Assumptions pinned_spec.
Print Assumptions after_move.
Print Assumptions safe_after_spec.
