(* C08: for every square and EVERY occupancy (all N, hence all 2^64 words) the magic lookup over the
   regenerated tables indexes in range and equals ray casting.
     1. generic: the lookup consults occ only through (mask & occ)                 [definitional]
     2. generic: ray casting consults occ only at ray squares that have a successor, all of which
        are in the mask                                                             [induction + 64x4 sweep]
     3. generic: mask & occ is one of the enumerated subsets of the mask            [induction on the bit list]
     4. complete sweep over all 102400 + 5248 (square, subset) pairs               [vm_compute]  *)
From Coq Require Import NArith ZArith List Bool Lia.
From Chess Require Import base.Bits base.Types base.Tree base.Sweep geom.Geometry geom.Lookup geom.Magic.
From Chess Require Import gen.T_rook_moves gen.T_bishop_moves.
Import ListNotations.
Local Open Scope N_scope.

(* ---------- 3. subset enumeration is complete ---------- *)
Lemma bit_testbit : forall b i, N.testbit (bit b) i = (i =? b).
Proof.
  intros b i. unfold bit. destruct (N.eqb_spec i b) as [->|Hne].
  - rewrite N.shiftl_spec_high' by lia. rewrite N.sub_diag. reflexivity.
  - destruct (N.lt_ge_cases i b) as [Hlt|Hge].
    + apply N.shiftl_spec_low; assumption.
    + rewrite N.shiftl_spec_high' by assumption.
      apply N.bits_above_log2. change (N.log2 1) with 0. lia.
Qed.

Lemma lor_bit_clearbit : forall x b, N.testbit x b = true -> N.lor (bit b) (N.clearbit x b) = x.
Proof.
  intros x b Hb. apply N.bits_inj. intros i.
  rewrite N.lor_spec, bit_testbit. destruct (N.eqb_spec i b) as [->|Hne].
  - rewrite Hb. reflexivity.
  - rewrite N.clearbit_neq by congruence. reflexivity.
Qed.

Lemma subsets_complete : forall l x,
  (forall i, N.testbit x i = true -> In i l) -> In x (subsets_of l).
Proof.
  induction l as [|b r IH]; intros x Hx; cbn [subsets_of].
  - left. symmetry. apply N.bits_inj_0. intros i.
    destruct (N.testbit x i) eqn:E; [exfalso; exact (Hx i E)|reflexivity].
  - apply in_or_app. destruct (N.testbit x b) eqn:Eb.
    + right. apply in_map_iff. exists (N.clearbit x b). split.
      * apply lor_bit_clearbit; assumption.
      * apply IH. intros i Hi.
        destruct (N.eqb_spec i b) as [->|Hne].
        { rewrite N.clearbit_eq in Hi. discriminate. }
        rewrite N.clearbit_neq in Hi by congruence.
        destruct (Hx i Hi) as [Heq|Hin]; [congruence|assumption].
    + left. apply IH. intros i Hi.
      destruct (Hx i Hi) as [Heq|Hin]; [subst; congruence|assumption].
Qed.

Lemma in_elements : forall x i, i < 64 -> N.testbit x i = true -> In i (elements x).
Proof.
  intros x i Hi Ht. unfold elements. apply filter_In. split; [apply in_sq_list; assumption|assumption].
Qed.

Lemma land_mask_in_subsets : forall msk occ, msk < 2 ^ 64 ->
  In (N.land msk occ) (subsets_of (elements msk)).
Proof.
  intros msk occ Hm. apply subsets_complete. intros i Hi.
  rewrite N.land_spec in Hi. apply andb_prop in Hi. destruct Hi as [Hi _].
  apply in_elements; [|assumption].
  destruct (N.lt_ge_cases i 64) as [|Hge]; [assumption|].
  exfalso. destruct (N.eq_dec msk 0) as [->|Hnz]; [rewrite N.bits_0 in Hi; discriminate|].
  rewrite N.bits_above_log2 in Hi; [discriminate|].
  apply N.log2_lt_pow2; [lia|]. apply N.lt_le_trans with (2 ^ 64); [assumption|].
  apply N.pow_le_mono_r; lia.
Qed.

(* ---------- 2. ray casting only looks inside the mask ---------- *)
Lemma slide_ray_mask : forall occ M l,
  (forall t, In t (removelast l) -> N.testbit M t = true) ->
  slide_ray (N.land M occ) l = slide_ray occ l.
Proof.
  intros occ M l. induction l as [|t r IH]; intros H; [reflexivity|].
  destruct r as [|t' r'].
  - cbn [slide_ray]. destruct (N.testbit (N.land M occ) t), (N.testbit occ t); reflexivity.
  - cbn [slide_ray] in *. rewrite N.land_spec.
    rewrite (H t) by (cbn [removelast]; left; reflexivity). cbn [andb].
    destruct (N.testbit occ t); [reflexivity|].
    f_equal. apply IH. intros u Hu. apply H. cbn [removelast]. right. exact Hu.
Qed.

Lemma slide_mask : forall ds s occ M,
  (forall d, In d ds -> forall t, In t (removelast (ray d s)) -> N.testbit M t = true) ->
  slide ds s (N.land M occ) = slide ds s occ.
Proof.
  intros ds s occ M H. unfold slide. f_equal.
  induction ds as [|d r IH]; [reflexivity|].
  cbn [flat_map]. rewrite slide_ray_mask by (apply H; left; reflexivity).
  f_equal. apply IH. intros d' Hd'. apply H. right. exact Hd'.
Qed.

Lemma chk_mask_sq_spec : forall tbl ds s, chk_mask_sq tbl ds s = true ->
  (forall d, In d ds -> forall t, In t (removelast (ray d s)) -> N.testbit (magic_mask tbl s) t = true)
  /\ magic_mask tbl s < 2 ^ 64.
Proof.
  intros tbl ds s H. unfold chk_mask_sq in H. apply andb_prop in H. destruct H as [H1 H2].
  split; [|apply N.ltb_lt; assumption].
  intros d Hd t Ht. rewrite forallb_forall in H1. specialize (H1 d Hd).
  rewrite forallb_forall in H1. exact (H1 t Ht).
Qed.

(* ---------- 1. the lookup only sees mask & occ ---------- *)
Lemma magic_index_mask : forall tbl s occ,
  magic_index (magic_of tbl s) (N.land (magic_mask tbl s) occ) = magic_index (magic_of tbl s) occ.
Proof.
  intros tbl s occ. unfold magic_mask, magic_index.
  destruct (magic_of tbl s) as [[[factor msk] offset] shift]. cbn [fst snd].
  rewrite N.land_assoc, N.land_diag. reflexivity.
Qed.

(* ---------- composition ---------- *)
Lemma chk_magic_sq_elim : forall tbl len depth sol ds s x,
  chk_magic_sq tbl len depth sol ds s = true ->
  In x (subsets_of (elements (magic_mask tbl s))) ->
  (magic_index (magic_of tbl s) x <? len)
  && (tget depth sol (magic_index (magic_of tbl s) x) =? slide ds s x) = true.
Proof.
  intros tbl len depth sol ds s x. unfold chk_magic_sq. intros H Hin.
  rewrite forallb_forall in H. exact (H x Hin).
Qed.

Lemma magic_correct : forall tbl len depth sol ds,
  all_sq (chk_magic_sq tbl len depth sol ds) = true ->
  all_sq (chk_mask_sq tbl ds) = true ->
  forall s occ, s < 64 ->
    magic_index (magic_of tbl s) occ < len /\
    tget depth sol (magic_index (magic_of tbl s) occ) = slide ds s occ.
Proof.
  intros tbl len depth sol ds Hsweep Hmask s occ Hs.
  pose proof (all_sq_spec _ Hsweep s Hs) as Hsq.
  destruct (chk_mask_sq_spec tbl ds s (all_sq_spec _ Hmask s Hs)) as [Hrays Hwf].
  pose proof (chk_magic_sq_elim _ _ _ _ _ _ _ Hsq (land_mask_in_subsets _ occ Hwf)) as H.
  rewrite magic_index_mask in H.
  apply andb_prop in H. destruct H as [Hlt Heq].
  split; [apply N.ltb_lt; exact Hlt|].
  apply N.eqb_eq in Heq. rewrite Heq. apply slide_mask. exact Hrays.
Qed.

Lemma sweep_rook_mask : all_sq (chk_mask_sq rook_magic rook_dirs) = true.
Proof. vm_compute. reflexivity. Qed.
Lemma sweep_bishop_mask : all_sq (chk_mask_sq bishop_magic bishop_dirs) = true.
Proof. vm_compute. reflexivity. Qed.
Lemma sweep_rook : all_sq (chk_magic_sq rook_magic rook_sol_len rook_sol_depth rook_sol rook_dirs) = true.
Proof. vm_compute. reflexivity. Qed.
Lemma sweep_bishop : all_sq (chk_magic_sq bishop_magic bishop_sol_len bishop_sol_depth bishop_sol bishop_dirs) = true.
Proof. vm_compute. reflexivity. Qed.

Theorem rook_lookup_correct : forall s occ, s < 64 ->
  lk_rook_index s occ < rook_sol_len /\ lk_rook_moves s occ = rook_attacks s occ.
Proof.
  intros s occ Hs.
  pose proof (magic_correct rook_magic rook_sol_len rook_sol_depth rook_sol rook_dirs
                sweep_rook sweep_rook_mask s occ Hs) as H.
  unfold lk_rook_moves, lk_rook_index, rook_attacks. exact H.
Qed.

Theorem bishop_lookup_correct : forall s occ, s < 64 ->
  lk_bishop_index s occ < bishop_sol_len /\ lk_bishop_moves s occ = bishop_attacks s occ.
Proof.
  intros s occ Hs.
  pose proof (magic_correct bishop_magic bishop_sol_len bishop_sol_depth bishop_sol bishop_dirs
                sweep_bishop sweep_bishop_mask s occ Hs) as H.
  unfold lk_bishop_moves, lk_bishop_index, bishop_attacks. exact H.
Qed.

(* what "ray casting" means, square by square: t is attacked iff it lies on a ray from s and no
   square strictly before it on that ray is occupied *)
Lemma slide_ray_char : forall occ l t,
  In t (slide_ray occ l) <-> exists p q, l = p ++ t :: q /\ forallb (fun u => negb (N.testbit occ u)) p = true.
Proof.
  intros occ l. induction l as [|x r IH]; intros t; cbn [slide_ray].
  - split; [intros []|]. intros [p [q [H _]]]. destruct p; discriminate.
  - split.
    + intros [->|Hin].
      * exists [], r. split; reflexivity.
      * destruct (N.testbit occ x) eqn:Ex; [destruct Hin|].
        apply IH in Hin. destruct Hin as [p [q [-> Hp]]].
        exists (x :: p), q. split; [reflexivity|]. cbn [forallb]. rewrite Ex. exact Hp.
    + intros [p [q [Hl Hp]]]. destruct p as [|y p'].
      * cbn in Hl. injection Hl as -> ->. left. reflexivity.
      * cbn in Hl. injection Hl as -> ->. cbn [forallb] in Hp. apply andb_prop in Hp.
        destruct Hp as [Hy Hp]. apply negb_true_iff in Hy. rewrite Hy. right.
        apply IH. exists p', q. split; [reflexivity|assumption].
Qed.
