(* C05: the piece-placement half of the FEN round trip, and the round trip itself.
   `write_fen b` parses back to `b` (modulo the pin information, which the parser recomputes from
   scratch) for EVERY board whose ten bitboards form a partition of the occupied squares (`Part b`),
   whose metadata fits the FEN fields and whose piece hash is the from-scratch one.
   Nothing here enumerates boards; the only closed computations are over the 64 squares
   (the parser's visiting order is a permutation of 0..63).  Axiom-free. *)
From Coq Require Import NArith ZArith List Bool Lia ZifyBool ZifyN Permutation.
From Chess Require Import base.Bits base.Types base.BitBoard geom.Geometry model.Board model.Fen.
From Chess Require Import proofs.BitsFacts proofs.BitBoardFacts proofs.FenFacts.
Import ListNotations.
Local Open Scope N_scope.

Opaque zkey.

(* ------------------------------------------------------------------ *)
(** * Boards whose ten sets partition the occupied squares *)

Definition piece_union (b : board) : N :=
  bb_or (bb_or (bb_or (bb_or (bb_or (b_pawn b) (b_knight b)) (b_bishop b)) (b_rook b)) (b_queen b)) (b_king b).

Record Part (b : board) : Prop := {
  part_wf_color : forall c, wf64 (colors b c);
  part_wf_piece : forall p, wf64 (pieces b p);
  part_colors_disjoint : bb_and (b_white b) (b_black b) = 0;
  part_pieces_disjoint : forall p q, p <> q -> bb_and (pieces b p) (pieces b q) = 0;
  part_union : piece_union b = all_occ b }.

Lemma and0_mem : forall a c t, bb_and a c = 0 -> mem a t = true -> mem c t = false.
Proof.
  intros a c t H Ha. pose proof (mem_and a c t) as Hm. rewrite H, mem_0, Ha in Hm.
  cbn [andb] in Hm. symmetry. exact Hm.
Qed.

Lemma mem_piece_union : forall b t,
  mem (piece_union b) t =
  mem (b_pawn b) t || mem (b_knight b) t || mem (b_bishop b) t || mem (b_rook b) t || mem (b_queen b) t
  || mem (b_king b) t.
Proof. intros b t. unfold piece_union. rewrite !mem_or. reflexivity. Qed.

Lemma mem_all_occ : forall b t, mem (all_occ b) t = mem (b_white b) t || mem (b_black b) t.
Proof. intros b t. unfold all_occ. apply mem_or. Qed.

Lemma piece_disjoint_mem : forall b p q t, Part b -> p <> q ->
  mem (pieces b p) t = true -> mem (pieces b q) t = false.
Proof. intros b p q t HP Hpq. apply and0_mem. apply (part_pieces_disjoint b HP), Hpq. Qed.

Lemma color_disjoint_mem : forall b c c' t, Part b -> c <> c' ->
  mem (colors b c) t = true -> mem (colors b c') t = false.
Proof.
  intros b c c' t HP Hc. pose proof (part_colors_disjoint b HP) as Hd.
  destruct c, c'; try congruence; cbn [colors]; intros H.
  - exact (and0_mem _ _ t Hd H).
  - destruct (mem (b_white b) t) eqn:E; [|reflexivity].
    rewrite (and0_mem _ _ t Hd E) in H. discriminate.
Qed.

(* what RawBoard::get returns on a partition: the colour set and the piece set containing the square *)
Lemma raw_get_some : forall b t c p, Part b -> t < 64 -> raw_get b t = Some (c, p) ->
  mem (colors b c) t = true /\ mem (pieces b p) t = true.
Proof.
  intros b t c p HP Ht. unfold raw_get, color_of. rewrite !contains_spec by assumption.
  assert (mem (all_occ b) t = true -> mem (pieces b (piece_of_unchecked b t)) t = true) as Hpc.
  { intros Hocc. rewrite <- (part_union b HP), mem_piece_union in Hocc.
    unfold piece_of_unchecked. rewrite !contains_spec by assumption. rewrite !mem_or.
    destruct (mem (b_pawn b) t) eqn:E1; cbn [orb pieces]; [exact E1|].
    destruct (mem (b_knight b) t) eqn:E2; cbn [orb pieces]; [exact E2|].
    destruct (mem (b_bishop b) t) eqn:E3; cbn [orb pieces]; [exact E3|].
    destruct (mem (b_rook b) t) eqn:E4; cbn [orb pieces]; [exact E4|].
    destruct (mem (b_queen b) t) eqn:E5; cbn [orb pieces]; [exact E5|].
    cbn [orb] in Hocc. exact Hocc. }
  rewrite mem_all_occ in Hpc.
  destruct (mem (b_white b) t) eqn:Ew.
  - intros H. injection H as <- <-. split; [exact Ew|apply Hpc; reflexivity].
  - destruct (mem (b_black b) t) eqn:Eb; [|discriminate].
    intros H. injection H as <- <-. split; [exact Eb|apply Hpc; reflexivity].
Qed.

Lemma raw_get_none : forall b t, t < 64 -> raw_get b t = None -> mem (all_occ b) t = false.
Proof.
  intros b t Ht. unfold raw_get, color_of. rewrite !contains_spec by assumption.
  rewrite mem_all_occ.
  destruct (mem (b_white b) t); [discriminate|].
  destruct (mem (b_black b) t); [discriminate|]. reflexivity.
Qed.

Theorem raw_get_spec : forall b t c p, Part b -> t < 64 ->
  (raw_get b t = Some (c, p) <-> mem (colors b c) t = true /\ mem (pieces b p) t = true).
Proof.
  intros b t c p HP Ht. split; [apply raw_get_some; assumption|].
  intros [Hc Hp]. destruct (raw_get b t) as [[c' p']|] eqn:E.
  - destruct (raw_get_some b t c' p' HP Ht E) as [Hc' Hp'].
    assert (c' = c) as ->.
    { destruct c, c'; try reflexivity;
        [rewrite (color_disjoint_mem b Black White t HP) in Hc by (congruence || assumption)
        |rewrite (color_disjoint_mem b White Black t HP) in Hc by (congruence || assumption)];
        discriminate. }
    assert (p' = p) as ->; [|reflexivity].
    destruct (piece_eqb p' p) eqn:Epp.
    + apply N.eqb_eq in Epp. destruct p, p'; try reflexivity; discriminate.
    + assert (p' <> p) as Hne by (intros ->; unfold piece_eqb in Epp; rewrite N.eqb_refl in Epp; discriminate).
      rewrite (piece_disjoint_mem b p' p t HP Hne Hp') in Hp. discriminate.
  - apply raw_get_none in E; [|assumption]. rewrite mem_all_occ in E.
    destruct c; cbn [colors] in Hc; rewrite Hc in E; [discriminate|].
    rewrite orb_true_r in E. discriminate.
Qed.

Theorem raw_get_none_spec : forall b t, t < 64 ->
  (raw_get b t = None <-> mem (all_occ b) t = false).
Proof.
  intros b t Ht. split; [apply raw_get_none, Ht|].
  unfold raw_get, color_of. rewrite !contains_spec by assumption. rewrite mem_all_occ.
  destruct (mem (b_white b) t); [discriminate|].
  destruct (mem (b_black b) t); [discriminate|]. reflexivity.
Qed.

(* ------------------------------------------------------------------ *)
(** * The writer of one rank, as a function of the files still to be written *)

Definition sep (r : N) : list N := if r =? 0 then [] else [47].

(* files `fs` remain, `m` empty squares are pending *)
Fixpoint wr_suffix (b : board) (r : N) (fs : list N) (m : N) : list N :=
  match fs with
  | [] => flush m ++ sep r
  | f :: fs' =>
    match raw_get b (mk_sq f r) with
    | Some (c, p) => flush m ++ piece_char c p :: wr_suffix b r fs' 0
    | None => wr_suffix b r fs' (m + 1)
    end
  end.

Definition wr_step (b : board) (r : N) (acc : list N * N) (f : N) : list N * N :=
  let '(o, m) := acc in
  match raw_get b (mk_sq f r) with
  | Some (c, p) => (o ++ flush m ++ [piece_char c p], 0)
  | None => (o, m + 1)
  end.

Lemma write_rank_fold : forall b r,
  write_rank b r =
  (let '(out, missing) := fold_left (wr_step b r) [0;1;2;3;4;5;6;7] ([], 0) in
   out ++ flush missing ++ sep r).
Proof. reflexivity. Qed.

Lemma fold_wr_suffix : forall b r fs o m,
  (let '(out, missing) := fold_left (wr_step b r) fs (o, m) in out ++ flush missing ++ sep r) =
  o ++ wr_suffix b r fs m.
Proof.
  intros b r. induction fs as [|f fs IH]; intros o m.
  - reflexivity.
  - cbn [fold_left wr_suffix]. unfold wr_step at 2.
    destruct (raw_get b (mk_sq f r)) as [[c p]|].
    + rewrite IH. rewrite <- !app_assoc. reflexivity.
    + apply IH.
Qed.

Fixpoint files_from (n : nat) (f : N) : list N :=
  match n with O => [] | S n' => f :: files_from n' (f + 1) end.

Lemma files_all : files_from 8 0 = [0;1;2;3;4;5;6;7].
Proof. reflexivity. Qed.

Theorem write_rank_suffix : forall b r, write_rank b r = wr_suffix b r (files_from 8 0) 0.
Proof. intros b r. rewrite write_rank_fold, fold_wr_suffix, files_all. reflexivity. Qed.

(* ------------------------------------------------------------------ *)
(** * Bytes *)

Lemma parse_piece_char : forall c p, parse_piece_byte (piece_char c p) = Some (inl (c, p)).
Proof. intros [|] [| | | | |]; reflexivity. Qed.

Lemma parse_skip_digit : forall m, 1 <= m <= 8 -> parse_piece_byte (48 + m) = Some (inr m).
Proof.
  intros m Hm.
  assert (m = 1 \/ m = 2 \/ m = 3 \/ m = 4 \/ m = 5 \/ m = 6 \/ m = 7 \/ m = 8) as H by lia.
  repeat (destruct H as [->|H]; [reflexivity|]). subst m. reflexivity.
Qed.

Lemma flush_digit : forall m, 1 <= m <= 8 -> flush m = [48 + m].
Proof.
  intros m Hm. unfold flush. destruct (N.eqb_spec m 0) as [E|_]; [lia|].
  unfold show_dec. rewrite dec_digits_snoc.
  assert (m / 10 = 0) as -> by (apply N.div_small; lia).
  rewrite N.eqb_refl. rewrite N.mod_small by lia. reflexivity.
Qed.

Lemma flush_0 : flush 0 = [].
Proof. reflexivity. Qed.

(* ------------------------------------------------------------------ *)
(** * What the loop does to the board: one cell, a list of cells *)

Definition place_cell (b acc : board) (s : N) : board :=
  match raw_get b s with
  | Some (c, p) =>
    let b1 := raw_set_unchecked acc c p s in set_zob b1 (N.lxor (b_zob b1) (zkey s p c))
  | None => acc
  end.
Definition place_list (b : board) (l : list N) (acc : board) : board := fold_left (place_cell b) l acc.

Lemma place_list_nil : forall b acc, place_list b [] acc = acc.
Proof. reflexivity. Qed.
Lemma place_list_cons : forall b s l acc, place_list b (s :: l) acc = place_list b l (place_cell b acc s).
Proof. reflexivity. Qed.
Lemma place_list_app : forall b l1 l2 acc, place_list b (l1 ++ l2) acc = place_list b l2 (place_list b l1 acc).
Proof. intros. apply fold_left_app. Qed.

Definition row_from (r : N) (n : nat) (f : N) : list N := map (fun f => mk_sq f r) (files_from n f).
Definition row (r : N) : list N := row_from r 8 0.

Lemma row_from_S : forall r n f, row_from r (S n) f = mk_sq f r :: row_from r n (f + 1).
Proof. reflexivity. Qed.

(* ------------------------------------------------------------------ *)
(** * One rank: the loop reads back what `write_rank` wrote *)

Lemma after_k_lt : forall rest rank file b, file <= 7 -> after_k rest rank file b = placement rest file rank b.
Proof. intros rest rank file b H. unfold after_k. apply N.leb_le in H. rewrite H. reflexivity. Qed.

Lemma after_k_8 : forall rest rank b,
  after_k rest rank 8 b = if rank =? 0 then Ret (inr (b, rest)) else placement rest 0 (rank - 1) b.
Proof. reflexivity. Qed.

Lemma placement_piece : forall c p rest file rank acc, file <= 7 ->
  placement (piece_char c p :: rest) file rank acc =
  after_k rest rank (file + 1)
    (let b1 := raw_set_unchecked acc c p (mk_sq file rank) in
     set_zob b1 (N.lxor (b_zob b1) (zkey (mk_sq file rank) p c))).
Proof.
  intros c p rest file rank acc Hf. rewrite placement_cons.
  assert ((8 <=? file) = false) as -> by lia. rewrite parse_piece_char. reflexivity.
Qed.

Lemma placement_digit : forall m rest file rank acc, file <= 7 -> 1 <= m <= 8 ->
  placement ((48 + m) :: rest) file rank acc = after_k rest rank (file + m) acc.
Proof.
  intros m rest file rank acc Hf Hm. rewrite placement_cons.
  assert ((8 <=? file) = false) as -> by lia. rewrite parse_skip_digit by assumption. reflexivity.
Qed.

Lemma placement_slash : forall rest rank acc, placement (47 :: rest) 0 rank acc = placement rest 0 rank acc.
Proof. intros rest rank acc. rewrite placement_cons. reflexivity. Qed.

(* the flushed count, if any, moves the file counter from f - m to f *)
Lemma after_k_flush : forall m f rest rank acc, m <= f -> f <= 8 ->
  after_k (flush m ++ rest) rank (f - m) acc = after_k rest rank f acc.
Proof.
  intros m f rest rank acc Hm Hf. destruct (N.eq_dec m 0) as [->|Hne].
  - rewrite flush_0, N.sub_0_r. reflexivity.
  - rewrite flush_digit by lia. cbn [app].
    rewrite after_k_lt by lia. rewrite placement_digit by lia.
    replace (f - m + m) with f by lia. reflexivity.
Qed.

(* Invariant over the suffix still to be written: files f..7 remain, m empties are pending, and
   the loop's file counter stands at f - m. *)
Lemma rank_suffix : forall b r rest n f m acc, f + N.of_nat n = 8 -> m <= f ->
  after_k (wr_suffix b r (files_from n f) m ++ rest) r (f - m) acc =
  after_k (sep r ++ rest) r 8 (place_list b (row_from r n f) acc).
Proof.
  intros b r rest. induction n as [|n IH]; intros f m acc Hn Hm.
  - assert (f = 8) as -> by lia. cbn [files_from wr_suffix]. unfold row_from. cbn [files_from map].
    rewrite place_list_nil. rewrite <- app_assoc. apply after_k_flush; [assumption|lia].
  - assert (f <= 7) as Hf by lia. rewrite row_from_S, place_list_cons.
    cbn [files_from wr_suffix]. unfold place_cell.
    destruct (raw_get b (mk_sq f r)) as [[c p]|].
    + rewrite <- app_assoc, <- app_comm_cons.
      rewrite after_k_flush by (assumption || lia).
      rewrite after_k_lt by assumption. rewrite placement_piece by assumption.
      etransitivity; [|apply (IH (f + 1) 0); lia]. rewrite N.sub_0_r. reflexivity.
    + replace (f - m) with (f + 1 - (m + 1)) by lia. apply IH; lia.
Qed.

Theorem placement_rank : forall b r rest acc,
  placement (write_rank b r ++ rest) 0 r acc =
  if r =? 0 then Ret (inr (place_list b (row r) acc, rest))
  else placement rest 0 (r - 1) (place_list b (row r) acc).
Proof.
  intros b r rest acc. rewrite write_rank_suffix.
  rewrite <- (after_k_lt _ r 0 acc) by lia.
  change 0 with (0 - 0) at 2. rewrite rank_suffix by (reflexivity || lia).
  rewrite after_k_8. fold (row r). unfold sep.
  destruct (r =? 0); [reflexivity|]. cbn [app]. apply placement_slash.
Qed.

(* ------------------------------------------------------------------ *)
(** * The eight ranks *)

Fixpoint ranks_down (k : nat) : list N :=
  match k with O => [0] | S k' => N.of_nat (S k') :: ranks_down k' end.

Lemma ranks_all : ranks_down 7 = [7;6;5;4;3;2;1;0].
Proof. reflexivity. Qed.

Lemma placement_ranks : forall b rest k acc,
  placement (flat_map (write_rank b) (ranks_down k) ++ rest) 0 (N.of_nat k) acc =
  Ret (inr (place_list b (flat_map row (ranks_down k)) acc, rest)).
Proof.
  intros b rest. induction k as [|k IH]; intros acc.
  - cbn [ranks_down flat_map]. rewrite !app_nil_r. change (N.of_nat 0) with 0.
    rewrite placement_rank. reflexivity.
  - cbn [ranks_down flat_map]. rewrite <- app_assoc, placement_rank, place_list_app.
    assert ((N.of_nat (S k) =? 0) = false) as -> by lia.
    replace (N.of_nat (S k) - 1) with (N.of_nat k) by lia. apply IH.
Qed.

(* the order in which the loop visits the squares: a8..h8, a7..h7, ..., a1..h1 *)
Definition visit_order : list N := flat_map row (ranks_down 7).

Lemma visit_order_eq : visit_order =
  [56;57;58;59;60;61;62;63;48;49;50;51;52;53;54;55;40;41;42;43;44;45;46;47;32;33;34;35;36;37;38;39;
   24;25;26;27;28;29;30;31;16;17;18;19;20;21;22;23;8;9;10;11;12;13;14;15;0;1;2;3;4;5;6;7].
Proof. vm_compute. reflexivity. Qed.

Theorem placement_place_list : forall b rest,
  placement (flat_map (write_rank b) [7;6;5;4;3;2;1;0] ++ rest) 0 7 empty_board =
  Ret (inr (place_list b visit_order empty_board, rest)).
Proof. intros b rest. rewrite <- ranks_all. apply (placement_ranks b rest 7). Qed.

(* ------------------------------------------------------------------ *)
(** * The board the loop builds *)

Definition zstep (b : board) (z s : N) : N :=
  match raw_get b s with Some (c, p) => N.lxor z (zkey s p c) | None => z end.
Definition hash_over (b : board) (l : list N) (z : N) : N := fold_left (zstep b) l z.

(* the piece hash recomputed from scratch: xor of the keys of all occupied squares (same term as in props/C04.v) *)
Definition scratch_piece_hash (b : board) : N :=
  fold_left (fun z s => match raw_get b s with Some (c, p) => N.lxor z (zkey s p c) | None => z end) sq_list 0.

Lemma fold_left_ext2 : forall (f g : N -> N -> N), (forall z s, f z s = g z s) ->
  forall l z, fold_left f l z = fold_left g l z.
Proof.
  intros f g H. induction l as [|s l IH]; intros z; [reflexivity|].
  cbn [fold_left]. rewrite H. apply IH.
Qed.

Lemma scratch_piece_hash_over : forall b, scratch_piece_hash b = hash_over b sq_list 0.
Proof.
  intros b. unfold scratch_piece_hash, hash_over. apply fold_left_ext2.
  intros z s. reflexivity.
Qed.

Definition key_at (b : board) (s : N) : N :=
  match raw_get b s with Some (c, p) => zkey s p c | None => 0 end.

Lemma zstep_key : forall b z s, zstep b z s = N.lxor z (key_at b s).
Proof.
  intros b z s. unfold zstep, key_at. destruct (raw_get b s) as [[c p]|]; [reflexivity|].
  symmetry. apply N.lxor_0_r.
Qed.

Lemma zstep_comm : forall b z s t, zstep b (zstep b z s) t = zstep b (zstep b z t) s.
Proof.
  intros b z s t. rewrite !zstep_key. rewrite !N.lxor_assoc. f_equal. apply N.lxor_comm.
Qed.

(* xor is commutative: the order in which the squares are visited is immaterial *)
Lemma hash_over_perm : forall b l l', Permutation l l' -> forall z, hash_over b l z = hash_over b l' z.
Proof.
  intros b l l' H. unfold hash_over. induction H; intros z.
  - reflexivity.
  - cbn [fold_left]. apply IHPermutation.
  - cbn [fold_left]. rewrite zstep_comm. reflexivity.
  - rewrite IHPermutation1. apply IHPermutation2.
Qed.

Fixpoint nodupb (l : list N) : bool :=
  match l with [] => true | x :: r => negb (existsb (N.eqb x) r) && nodupb r end.
Lemma nodupb_spec : forall l, nodupb l = true -> NoDup l.
Proof.
  induction l as [|x r IH]; intros H; [constructor|].
  cbn [nodupb] in H. apply andb_prop in H. destruct H as [Hx Hr]. constructor; [|apply IH; exact Hr].
  intros Hin. apply negb_true_iff in Hx. rewrite <- not_true_iff_false in Hx. apply Hx.
  apply existsb_exists. exists x. split; [exact Hin|apply N.eqb_refl].
Qed.

Lemma inclb_spec : forall l l' : list N,
  forallb (fun x => existsb (N.eqb x) l') l = true -> forall x, In x l -> In x l'.
Proof.
  intros l l' H x Hx. rewrite forallb_forall in H. specialize (H x Hx).
  apply existsb_exists in H. destruct H as [y [Hy E]]. apply N.eqb_eq in E. subst y. exact Hy.
Qed.

Lemma visit_order_perm : Permutation visit_order sq_list.
Proof.
  apply NoDup_Permutation.
  - apply nodupb_spec. vm_compute. reflexivity.
  - apply nodupb_spec. vm_compute. reflexivity.
  - intros x. split; apply inclb_spec; vm_compute; reflexivity.
Qed.

Lemma In_visit_order : forall t, t < 64 -> In t visit_order.
Proof.
  intros t Ht. apply (Permutation_in t (Permutation_sym visit_order_perm)).
  apply sq_list_complete, Ht.
Qed.

Theorem hash_visit_order : forall b, hash_over b visit_order 0 = scratch_piece_hash b.
Proof. intros b. rewrite scratch_piece_hash_over. apply hash_over_perm, visit_order_perm. Qed.

(* the board after the placement field: b's ten sets, the from-scratch piece hash, nothing else *)
Definition raw_of (b : board) : board :=
  {| b_zob := scratch_piece_hash b; b_turn := White; b_rights := 0; b_ep := None; b_half := 0; b_full := 0;
     b_pinned := 0; b_checkers := 0;
     b_white := b_white b; b_black := b_black b;
     b_pawn := b_pawn b; b_knight := b_knight b; b_bishop := b_bishop b; b_rook := b_rook b;
     b_queen := b_queen b; b_king := b_king b |}.

Lemma board_ext : forall x y : board,
  b_zob x = b_zob y -> b_turn x = b_turn y -> b_rights x = b_rights y -> b_ep x = b_ep y ->
  b_half x = b_half y -> b_full x = b_full y -> b_pinned x = b_pinned y -> b_checkers x = b_checkers y ->
  (forall c, colors x c = colors y c) -> (forall p, pieces x p = pieces y p) -> x = y.
Proof.
  intros x y H1 H2 H3 H4 H5 H6 H7 H8 Hc Hp.
  pose proof (Hc White) as Hw. pose proof (Hc Black) as Hb.
  pose proof (Hp Pawn) as P1. pose proof (Hp Knight) as P2. pose proof (Hp Bishop) as P3.
  pose proof (Hp Rook) as P4. pose proof (Hp Queen) as P5. pose proof (Hp King) as P6.
  destruct x as [x1 x2 x3 x4 x5 x6 x7 x8 x9 x10 x11 x12 x13 x14 x15 x16],
           y as [y1 y2 y3 y4 y5 y6 y7 y8 y9 y10 y11 y12 y13 y14 y15 y16]. cbn [colors pieces b_zob b_turn b_rights b_ep b_half b_full b_pinned b_checkers
    b_white b_black b_pawn b_knight b_bishop b_rook b_queen b_king] in *.
  subst. reflexivity.
Qed.

Definition has_color (b : board) (s : N) (c : color) : bool :=
  match raw_get b s with Some (c', _) => color_eqb c c' | None => false end.
Definition has_piece (b : board) (s : N) (p : piece) : bool :=
  match raw_get b s with Some (_, p') => piece_eqb p p' | None => false end.

Definition meta_of (x : board) := (b_turn x, b_rights x, b_ep x, b_half x, b_full x, b_pinned x, b_checkers x).

Lemma place_cell_meta : forall b acc s, meta_of (place_cell b acc s) = meta_of acc.
Proof.
  intros b acc s. unfold place_cell. destruct (raw_get b s) as [[c p]|]; [|reflexivity].
  destruct c, p; reflexivity.
Qed.

Lemma place_cell_zob : forall b acc s, b_zob (place_cell b acc s) = zstep b (b_zob acc) s.
Proof.
  intros b acc s. unfold place_cell, zstep. destruct (raw_get b s) as [[c p]|]; [|reflexivity].
  destruct c, p; reflexivity.
Qed.

Lemma place_cell_colors : forall b acc s c,
  colors (place_cell b acc s) c = if has_color b s c then bb_with (colors acc c) s else colors acc c.
Proof.
  intros b acc s c. unfold place_cell, has_color. destruct (raw_get b s) as [[c' p]|]; [|reflexivity].
  destruct c, c', p; reflexivity.
Qed.

Lemma place_cell_pieces : forall b acc s p,
  pieces (place_cell b acc s) p = if has_piece b s p then bb_with (pieces acc p) s else pieces acc p.
Proof.
  intros b acc s p. unfold place_cell, has_piece. destruct (raw_get b s) as [[c p']|]; [|reflexivity].
  destruct c, p, p'; reflexivity.
Qed.

Lemma place_list_meta : forall b l acc, meta_of (place_list b l acc) = meta_of acc.
Proof.
  intros b. induction l as [|s l IH]; intros acc; [reflexivity|].
  rewrite place_list_cons, IH. apply place_cell_meta.
Qed.

Lemma place_list_zob : forall b l acc, b_zob (place_list b l acc) = hash_over b l (b_zob acc).
Proof.
  intros b. induction l as [|s l IH]; intros acc; [reflexivity|].
  rewrite place_list_cons, IH, place_cell_zob. reflexivity.
Qed.

(* a set (selected by proj) that receives square s exactly when h s holds *)
Definition receives (b : board) (proj : board -> N) (h : N -> bool) : Prop :=
  forall acc s, proj (place_cell b acc s) = if h s then bb_with (proj acc) s else proj acc.

Lemma place_list_wf : forall b proj h, receives b proj h ->
  forall l acc, wf64 (proj acc) -> wf64 (proj (place_list b l acc)).
Proof.
  intros b proj h proj_cell. induction l as [|s l IH]; intros acc Hacc; [exact Hacc|].
  rewrite place_list_cons. apply IH. rewrite proj_cell.
  destruct (h s); [apply wf64_with|]; exact Hacc.
Qed.

Lemma place_list_mem : forall b proj h, receives b proj h ->
  forall l acc t, t < 64 ->
  mem (proj (place_list b l acc)) t = mem (proj acc) t || existsb (fun s => (t =? s) && h s) l.
Proof.
  intros b proj h proj_cell. induction l as [|s l IH]; intros acc t Ht.
  - rewrite place_list_nil. cbn [existsb]. symmetry. apply orb_false_r.
  - rewrite place_list_cons, IH by assumption. cbn [existsb]. rewrite proj_cell.
    destruct (h s).
    + rewrite mem_with by assumption. rewrite andb_true_r. symmetry. apply orb_assoc.
    + rewrite andb_false_r. reflexivity.
Qed.

(* over a list containing every square, starting from the empty set: exactly the squares with h *)
Lemma place_list_mem_all : forall b proj h, receives b proj h ->
  forall l acc t, t < 64 -> In t l -> proj acc = 0 ->
  mem (proj (place_list b l acc)) t = h t.
Proof.
  intros b proj h proj_cell l acc t Ht Hin H0.
  rewrite (place_list_mem b proj h proj_cell) by assumption. rewrite H0, mem_0. cbn [orb].
  destruct (h t) eqn:E.
  - apply existsb_exists. exists t. split; [exact Hin|]. rewrite N.eqb_refl, E. reflexivity.
  - destruct (existsb (fun s => (t =? s) && h s) l) eqn:Ex; [|reflexivity].
    apply existsb_exists in Ex. destruct Ex as [s [_ Hs]].
    apply andb_prop in Hs. destruct Hs as [Hts Hh]. apply N.eqb_eq in Hts. subst s. congruence.
Qed.

Lemma has_color_mem : forall b t c, Part b -> t < 64 -> has_color b t c = mem (colors b c) t.
Proof.
  intros b t c HP Ht. unfold has_color. destruct (raw_get b t) as [[c' p']|] eqn:E.
  - destruct (raw_get_some b t c' p' HP Ht E) as [Hc _].
    destruct (color_eqb c c') eqn:Ecc.
    + assert (c = c') as -> by (destruct c, c'; try reflexivity; discriminate). symmetry. exact Hc.
    + assert (c' <> c) as Hne by (intros ->; destruct c; discriminate).
      symmetry. exact (color_disjoint_mem b c' c t HP Hne Hc).
  - apply raw_get_none in E; [|assumption]. rewrite mem_all_occ in E.
    apply orb_false_elim in E. destruct E as [Ew Eb]. destruct c; cbn [colors]; congruence.
Qed.

Lemma has_piece_mem : forall b t p, Part b -> t < 64 -> has_piece b t p = mem (pieces b p) t.
Proof.
  intros b t p HP Ht. unfold has_piece. destruct (raw_get b t) as [[c' p']|] eqn:E.
  - destruct (raw_get_some b t c' p' HP Ht E) as [_ Hp].
    destruct (piece_eqb p p') eqn:Epp.
    + apply N.eqb_eq in Epp. assert (p = p') as -> by (destruct p, p'; try reflexivity; discriminate).
      symmetry. exact Hp.
    + assert (p' <> p) as Hne by (intros ->; unfold piece_eqb in Epp; rewrite N.eqb_refl in Epp; discriminate).
      symmetry. exact (piece_disjoint_mem b p' p t HP Hne Hp).
  - apply raw_get_none in E; [|assumption].
    rewrite <- (part_union b HP), mem_piece_union in E.
    repeat (apply orb_false_elim in E; destruct E as [E ?]).
    destruct p; cbn [pieces]; congruence.
Qed.

Theorem place_list_visit : forall b, Part b -> place_list b visit_order empty_board = raw_of b.
Proof.
  intros b HP.
  pose proof (place_list_meta b visit_order empty_board) as Hm.
  set (X := place_list b visit_order empty_board) in *.
  assert (b_turn X = White /\ b_rights X = 0 /\ b_ep X = None /\ b_half X = 0 /\ b_full X = 0 /\
          b_pinned X = 0 /\ b_checkers X = 0) as (M1 & M2 & M3 & M4 & M5 & M6 & M7).
  { clearbody X. destruct X as [x1 x2 x3 x4 x5 x6 x7 x8 x9 x10 x11 x12 x13 x14 x15 x16].
    unfold meta_of in Hm.
    cbn [b_turn b_rights b_ep b_half b_full b_pinned b_checkers empty_board] in *.
    injection Hm as -> -> -> -> -> -> ->. repeat split. }
  apply board_ext; [|exact M1|exact M2|exact M3|exact M4|exact M5|exact M6|exact M7| |]; subst X.
  - rewrite place_list_zob. apply hash_visit_order.
  - intros c. apply ext64.
    + apply (place_list_wf b (fun x => colors x c) (fun s => has_color b s c)).
      * intros acc s. apply place_cell_colors.
      * destruct c; reflexivity.
    + destruct c; [exact (part_wf_color b HP White)|exact (part_wf_color b HP Black)].
    + intros t Ht.
      rewrite (place_list_mem_all b (fun x => colors x c) (fun s => has_color b s c)).
      * rewrite has_color_mem by assumption. destruct c; reflexivity.
      * intros acc s. apply place_cell_colors.
      * exact Ht.
      * apply In_visit_order, Ht.
      * destruct c; reflexivity.
  - intros p. apply ext64.
    + apply (place_list_wf b (fun x => pieces x p) (fun s => has_piece b s p)).
      * intros acc s. apply place_cell_pieces.
      * destruct p; reflexivity.
    + destruct p; [exact (part_wf_piece b HP Pawn)|exact (part_wf_piece b HP Knight)
                   |exact (part_wf_piece b HP Bishop)|exact (part_wf_piece b HP Rook)
                   |exact (part_wf_piece b HP Queen)|exact (part_wf_piece b HP King)].
    + intros t Ht.
      rewrite (place_list_mem_all b (fun x => pieces x p) (fun s => has_piece b s p)).
      * rewrite has_piece_mem by assumption. destruct p; reflexivity.
      * intros acc s. apply place_cell_pieces.
      * exact Ht.
      * apply In_visit_order, Ht.
      * destruct p; reflexivity.
Qed.

(* ------------------------------------------------------------------ *)
(** * 1. The placement field round-trips (whatever follows it) *)

Theorem placement_write : forall b rest, Part b ->
  placement (flat_map (write_rank b) [7;6;5;4;3;2;1;0] ++ rest) 0 7 empty_board = Ret (inr (raw_of b, rest)).
Proof. intros b rest HP. rewrite placement_place_list, place_list_visit by assumption. reflexivity. Qed.

(* ------------------------------------------------------------------ *)
(** * 2. write_fen then parse_fen *)

(* pinned and checkers are not read by validate or update_pin_info *)
Definition clear_pins (b : board) : board := set_pins b 0 0.

Lemma pre_board_raw_of : forall b, b_zob b = scratch_piece_hash b ->
  pre_board (raw_of b) (b_turn b) (b_rights b) (b_ep b) (b_half b) (b_full b) = clear_pins b.
Proof.
  intros b Hz. unfold pre_board, clear_pins, set_pins, set_meta, raw_of.
  cbn [b_zob b_white b_black b_pawn b_knight b_bishop b_rook b_queen b_king].
  rewrite <- Hz. reflexivity.
Qed.

Theorem write_parse_finish : forall b, Part b ->
  b_rights b < 16 -> (forall f, b_ep b = Some f -> f < 8) -> b_half b <= 9999 -> b_full b <= 9999 ->
  b_zob b = scratch_piece_hash b ->
  parse_fen_t (write_fen b) =
  match validate (clear_pins b) with
  | Some e => Ret (PErr (BoardValidation e))
  | None => Ret (POk (update_pin_info (clear_pins b)))
  end.
Proof.
  intros b HP Hr He Hh Hf Hz. rewrite write_fen_split.
  rewrite parse_fen_t_write_tail with (raw := raw_of b); try assumption.
  - rewrite finish_nil, pre_board_raw_of by assumption. reflexivity.
  - apply placement_write, HP.
Qed.

Theorem write_parse_roundtrip : forall b, Part b ->
  b_rights b < 16 -> (forall f, b_ep b = Some f -> f < 8) -> b_half b <= 9999 -> b_full b <= 9999 ->
  b_zob b = scratch_piece_hash b -> validate (clear_pins b) = None ->
  parse_fen_t (write_fen b) = Ret (POk (update_pin_info (clear_pins b))).
Proof.
  intros b HP Hr He Hh Hf Hz Hv. rewrite write_parse_finish by assumption. rewrite Hv. reflexivity.
Qed.

(* ------------------------------------------------------------------ *)
(** * The pin fields are outputs only *)

Ltac proj_norm :=
  unfold clear_pins, update_pin_info, validate, has_kings, validate_en_passant, validate_castle_rights, get_is,
    attackers_of, king_sq, all_occ, colors, raw_get, color_of, piece_of_unchecked;
  cbn [set_pins set_meta b_zob b_turn b_rights b_ep b_half b_full b_pinned b_checkers
       b_white b_black b_pawn b_knight b_bishop b_rook b_queen b_king].

Lemma update_pin_info_set_pins : forall b x y, update_pin_info (set_pins b x y) = update_pin_info b.
Proof. intros b x y. proj_norm. reflexivity. Qed.

Lemma validate_set_pins : forall b x y, validate (set_pins b x y) = validate b.
Proof. intros b x y. proj_norm. reflexivity. Qed.

Lemma update_pin_info_shape : forall b, exists x y, update_pin_info b = set_pins b x y.
Proof.
  intros b. unfold update_pin_info. cbv zeta.
  match goal with |- context [scan_sliders ?o ?k ?l] => destruct (scan_sliders o k l) as [pinned checkers] end.
  eexists. eexists. reflexivity.
Qed.

Lemma set_pins_set_pins : forall b x y x' y', set_pins (set_pins b x y) x' y' = set_pins b x' y'.
Proof. reflexivity. Qed.

Theorem update_pin_info_idem : forall b, update_pin_info (update_pin_info b) = update_pin_info b.
Proof.
  intros b. destruct (update_pin_info_shape b) as [x [y E]]. rewrite E at 1.
  apply update_pin_info_set_pins.
Qed.

(* the same statements without `clear_pins` *)
Theorem write_parse_roundtrip_scratch : forall b, Part b ->
  b_rights b < 16 -> (forall f, b_ep b = Some f -> f < 8) -> b_half b <= 9999 -> b_full b <= 9999 ->
  b_zob b = scratch_piece_hash b -> validate b = None ->
  parse_fen_t (write_fen b) = Ret (POk (update_pin_info b)).
Proof.
  intros b HP Hr He Hh Hf Hz Hv.
  assert (validate (clear_pins b) = None) as Hv'
    by (unfold clear_pins; rewrite validate_set_pins; exact Hv).
  rewrite (write_parse_roundtrip b HP Hr He Hh Hf Hz Hv').
  unfold clear_pins. rewrite update_pin_info_set_pins. reflexivity.
Qed.

(* a board whose pin information is the from-scratch one is read back exactly *)
Corollary write_parse_roundtrip_exact : forall b, Part b ->
  b_rights b < 16 -> (forall f, b_ep b = Some f -> f < 8) -> b_half b <= 9999 -> b_full b <= 9999 ->
  b_zob b = scratch_piece_hash b -> validate b = None -> update_pin_info b = b ->
  parse_fen_t (write_fen b) = Ret (POk b).
Proof.
  intros b HP Hr He Hh Hf Hz Hv Hu.
  rewrite write_parse_roundtrip_scratch by assumption. rewrite Hu. reflexivity.
Qed.

Corollary write_parse_roundtrip_built : forall b b0, b = update_pin_info b0 -> Part b ->
  b_rights b < 16 -> (forall f, b_ep b = Some f -> f < 8) -> b_half b <= 9999 -> b_full b <= 9999 ->
  b_zob b = scratch_piece_hash b -> validate b = None ->
  parse_fen (write_fen b) = Some b.
Proof.
  intros b b0 Hb HP Hr He Hh Hf Hz Hv. unfold parse_fen.
  rewrite write_parse_roundtrip_exact; try assumption; [reflexivity|].
  rewrite Hb. apply update_pin_info_idem.
Qed.

(* ------------------------------------------------------------------ *)
(** * 3. parse_fen then write_fen, on canonical text *)

Lemma raw_get_ext : forall x y s, b_white x = b_white y -> b_black x = b_black y ->
  (forall p, pieces x p = pieces y p) -> raw_get x s = raw_get y s.
Proof.
  intros x y s Hw Hb Hp.
  pose proof (Hp Pawn) as P1. pose proof (Hp Knight) as P2. pose proof (Hp Bishop) as P3.
  pose proof (Hp Rook) as P4. pose proof (Hp Queen) as P5. cbn [pieces] in *.
  unfold raw_get, color_of, piece_of_unchecked. rewrite Hw, Hb, P1, P2, P3, P4, P5. reflexivity.
Qed.

Lemma wr_suffix_ext : forall x y r, (forall s, raw_get x s = raw_get y s) ->
  forall fs m, wr_suffix x r fs m = wr_suffix y r fs m.
Proof.
  intros x y r H. induction fs as [|f fs IH]; intros m; [reflexivity|].
  cbn [wr_suffix]. rewrite H. destruct (raw_get y (mk_sq f r)) as [[c p]|]; rewrite ?IH; reflexivity.
Qed.

(* the text depends on the piece sets and the five metadata fields only *)
Lemma write_fen_ext : forall x y, (forall s, raw_get x s = raw_get y s) ->
  b_turn x = b_turn y -> b_rights x = b_rights y -> b_ep x = b_ep y -> b_half x = b_half y ->
  b_full x = b_full y -> write_fen x = write_fen y.
Proof.
  intros x y Hg H1 H2 H3 H4 H5. rewrite !write_fen_split. f_equal.
  - apply flat_map_ext. intros r. rewrite !write_rank_suffix. apply wr_suffix_ext, Hg.
  - unfold write_tail. rewrite H1, H2, H3, H4, H5. reflexivity.
Qed.

Lemma write_fen_update_pin_info : forall b, write_fen (update_pin_info b) = write_fen b.
Proof.
  intros b. destruct (update_pin_info_fields b) as (H1 & H2 & H3 & H4 & H5 & _ & Hw & Hb & Hp).
  apply write_fen_ext; try assumption. intros s. apply raw_get_ext; assumption.
Qed.

Lemma scratch_piece_hash_ext : forall x y, (forall s, raw_get x s = raw_get y s) ->
  scratch_piece_hash x = scratch_piece_hash y.
Proof.
  intros x y H. rewrite !scratch_piece_hash_over. unfold hash_over. apply fold_left_ext2.
  intros z s. unfold zstep. rewrite H. reflexivity.
Qed.

Lemma Part_set_zob : forall b z, Part b -> Part (set_zob b z).
Proof.
  intros b z HP. constructor.
  - intros c. destruct c; [exact (part_wf_color b HP White)|exact (part_wf_color b HP Black)].
  - intros p. exact (part_wf_piece b HP p).
  - exact (part_colors_disjoint b HP).
  - exact (part_pieces_disjoint b HP).
  - exact (part_union b HP).
Qed.

(* canonical text: what the writer produces for some partition board with FEN-sized metadata
   (no condition on its hash or pin fields: the text does not show them) *)
Definition Canonical (s : list N) : Prop :=
  exists b, Part b /\ b_rights b < 16 /\ (forall f, b_ep b = Some f -> f < 8) /\
            b_half b <= 9999 /\ b_full b <= 9999 /\ s = write_fen b.

Theorem canonical_parse_write : forall s b', Canonical s ->
  parse_fen_t s = Ret (POk b') -> write_fen b' = s.
Proof.
  intros s b' (b & HP & Hr & He & Hh & Hf & ->).
  set (b0 := set_zob b (scratch_piece_hash b)).
  assert (forall t, raw_get b0 t = raw_get b t) as Hg by reflexivity.
  assert (write_fen b0 = write_fen b) as Hw by (apply write_fen_ext; (exact Hg || reflexivity)).
  rewrite <- Hw.
  rewrite (write_parse_finish b0); try assumption.
  - destruct (validate (clear_pins b0)); [discriminate|].
    intros H. injection H as <-. rewrite write_fen_update_pin_info.
    apply write_fen_ext; reflexivity.
  - apply Part_set_zob, HP.
  - symmetry. apply scratch_piece_hash_ext, Hg.
Qed.

(* the board read from canonical text is a fixed point: writing and reading it again changes nothing *)
Corollary canonical_parse_stable : forall s b', Canonical s ->
  parse_fen_t s = Ret (POk b') -> parse_fen_t (write_fen b') = Ret (POk b').
Proof.
  intros s b' Hc Hp. rewrite (canonical_parse_write s b' Hc Hp). exact Hp.
Qed.

(* ------------------------------------------------------------------ *)
(** * Non-vacuity: the hypotheses hold of the standard position *)

Lemma Part_standard : Part standard.
Proof.
  constructor.
  - intros [|]; vm_compute; reflexivity.
  - intros [| | | | |]; vm_compute; reflexivity.
  - vm_compute. reflexivity.
  - intros p q Hpq. destruct p, q; try congruence; vm_compute; reflexivity.
  - vm_compute. reflexivity.
Qed.

Lemma standard_hypotheses :
  b_rights standard < 16 /\ (forall f, b_ep standard = Some f -> f < 8) /\
  b_half standard <= 9999 /\ b_full standard <= 9999 /\
  b_zob standard = scratch_piece_hash standard /\ validate standard = None /\
  update_pin_info standard = standard.
Proof.
  split; [vm_compute; reflexivity|]. split; [intros f H; discriminate H|].
  split; [vm_compute; discriminate|]. split; [vm_compute; discriminate|].
  split; [vm_compute; reflexivity|]. split; vm_compute; reflexivity.
Qed.

Print Assumptions placement_write.
Print Assumptions write_parse_roundtrip.
Print Assumptions write_parse_roundtrip_built.
Print Assumptions canonical_parse_write.
Print Assumptions standard_hypotheses.
