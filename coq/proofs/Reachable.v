(* C01 / C02 / C03 - the final assembly.

   1. movegen_exact_good : on every Good board the generator model yields exactly the legal moves of the rules
      (components: AttackFacts AT1-AT7, SafeFacts (A), ShapeFacts (S), PinFacts (P), KingFacts (K)(C), EpFacts (E),
      ExactFacts (G)); movegen_nodup_good: each once.
   2. Reachable: the standard position, every board the FEN parser accepts, every board the incremental builder
      returns, and every board obtained from a reachable one by a move the checked operations accept (is_legal) -
      NO side condition.
      Reachable b -> Good b (FreshFacts.good_apply: the incrementally maintained pins/checkers are the
      from-scratch ones, kings are never captured, the side not to move is never left in check).
   3. The statements of C01 over what board.legals() yields (the iterator drained), C02 (successor = rules' make),
      C03 (in_check, status classification) for every reachable board.
   Axiom-free. *)
From Coq Require Import NArith ZArith List Bool Lia ZifyBool ZifyN Permutation.
From Chess Require Import base.Bits base.Types base.BitBoard geom.Geometry model.Board model.Fen model.MoveGen model.Apply spec.Rules.
From Chess Require Import spec.IterSpec proofs.IterFacts proofs.CoreFacts proofs.HashFacts proofs.InvFacts proofs.LegalDefs proofs.AttackDefs.
From Chess Require proofs.BridgeFacts proofs.ApplyFacts.
From Chess Require Import proofs.AttackFacts proofs.ShapeFacts proofs.SafeFacts proofs.KingFacts proofs.ExactFacts
  proofs.PinFacts proofs.EpFacts proofs.FreshFacts proofs.BuilderFacts proofs.StatusFacts proofs.BotFacts.
Import ListNotations.
Local Open Scope N_scope.

(* ------------------------------------------------------------------ *)
(** * 1. Exactness on Good boards *)

Theorem pin_filter_holds : pin_filter_statement.
Proof. exact (pin_filter AttackFacts.attackers_mem AttackFacts.slider_att AttackFacts.kings AttackFacts.checkers_spec AttackFacts.pinned_spec AttackFacts.after_move AttackFacts.safe_after_spec). Qed.
Theorem king_step_holds : king_step_statement.
Proof. exact (king_step AttackFacts.attackers_mem AttackFacts.slider_att AttackFacts.kings AttackFacts.checkers_spec AttackFacts.after_move AttackFacts.safe_after_spec). Qed.
Theorem castle_holds : castle_statement.
Proof. exact (castle AttackFacts.attackers_mem AttackFacts.slider_att AttackFacts.kings AttackFacts.checkers_spec AttackFacts.after_move AttackFacts.safe_after_spec). Qed.
Theorem ep_holds : ep_statement.
Proof. exact (ep_exact AttackFacts.attackers_mem AttackFacts.slider_att AttackFacts.kings AttackFacts.checkers_spec AttackFacts.after_move AttackFacts.safe_after_spec). Qed.
Theorem ep_double_check_holds : ep_double_check_statement.
Proof. exact (ep_double_check AttackFacts.attackers_mem AttackFacts.slider_att AttackFacts.kings AttackFacts.checkers_spec). Qed.

Theorem movegen_exact_good : movegen_exact_statement.
Proof.
  exact (movegen_exact AttackFacts.kings legal_iff_safe pseudo_shape pin_filter_holds king_step_holds castle_holds ep_holds
                       ep_double_check_holds).
Qed.

Theorem good_apply_holds : good_apply_statement.
Proof. exact (good_apply AttackFacts.attackers_mem AttackFacts.slider_att AttackFacts.kings AttackFacts.after_move AttackFacts.safe_after_spec). Qed.

(* a generated move leaves the mover's king safe *)
Lemma gen_move_safe : forall b m, Good b -> gen_move b m -> safe_after b m = true.
Proof.
  intros b m G H. apply (movegen_exact_good b m G) in H.
  exact (proj2 (proj1 (legal_iff_safe b m G) H)).
Qed.

Theorem Good_apply_gen : forall b m, Good b -> gen_move b m -> Good (apply b m).
Proof. intros b m G H. exact (good_apply_holds b m G H (gen_move_safe b m G H)). Qed.

(* ------------------------------------------------------------------ *)
(** * 2. Reachable boards *)

Inductive Reachable : board -> Prop :=
| RB_parse : forall s b, parse_fen_t s = Ret (POk b) -> Reachable b
| RB_standard : Reachable standard
| RB_build : forall ops b, Forall bop_wf ops -> build (builder_state ops) = inl b -> Reachable b
| RB_move : forall b m, Reachable b -> is_legal b m = true -> Reachable (apply b m).

Theorem Reachable_Good : forall b, Reachable b -> Good b.
Proof.
  intros b R. induction R as [s b H| |ops b W H|b m R IH L].
  - exact (parse_Good s b H).
  - exact standard_Good.
  - exact (proj1 (build_Good ops b W H)).
  - exact (Good_apply_gen b m IH (legal_gen_move b m L)).
Qed.

(* the boards of InvFacts.Reach (parsed / standard / moved with the side condition own_king) are reachable *)
Theorem Reach_Reachable : forall b, Reach b -> Reachable b.
Proof.
  intros b R. induction R as [s b H| |b m R IH K L].
  - exact (RB_parse s b H).
  - exact RB_standard.
  - exact (RB_move b m IH L).
Qed.

(* ------------------------------------------------------------------ *)
(** * 3. C01 over what board.legals() yields *)

Theorem legals_exact_good : forall b, Good b ->
  NoDup (legals b) /\ (forall m, In m (legals b) <-> In m (legal_moves (Board.abs b))).
Proof.
  intros b G. pose proof (legals_drain b) as Hp. split.
  - exact (Permutation_NoDup (Permutation_sym Hp) (movegen_nodup_good b G)).
  - intros m. split; intros H.
    + apply (movegen_exact_good b m G). exact (Permutation_in m Hp H).
    + apply (Permutation_in m (Permutation_sym Hp)). apply (movegen_exact_good b m G). exact H.
Qed.

Theorem is_legal_exact_good : forall b m, Good b -> (is_legal b m = true <-> In m (legal_moves (Board.abs b))).
Proof.
  intros b m G. rewrite is_legal_iff. exact (proj2 (legals_exact_good b G) m).
Qed.

Theorem movegen_exact_reachable : forall b, Reachable b ->
  NoDup (legals b) /\ (forall m, In m (legals b) <-> In m (legal_moves (Board.abs b))).
Proof. intros b R. exact (legals_exact_good b (Reachable_Good b R)). Qed.

Theorem is_legal_exact_reachable : forall b m, Reachable b ->
  (is_legal b m = true <-> In m (legal_moves (Board.abs b))).
Proof. intros b m R. exact (is_legal_exact_good b m (Reachable_Good b R)). Qed.

(* ------------------------------------------------------------------ *)
(** * 4. C02: the successor of every legal move is the one the rules prescribe *)

Lemma Good_apply_hyps : forall b, Good b -> HashFacts.Part b /\ ApplyFacts.ep_ok b /\ ApplyFacts.rights_ok b.
Proof.
  intros b G. destruct (good_inv b G) as [P C [Hr RO] EP].
  split; [exact P|split; [exact EP|]].
  intros sd c Hc. destruct (RO sd c Hc) as (A & B & _).
  destruct sd, c; cbn in A, B |- *; split; assumption.
Qed.

Theorem apply_exact_reachable : forall b m, Reachable b -> b_half b < 65535 -> b_full b < 65535 ->
  is_legal b m = true -> Board.abs (apply b m) = make (Board.abs b) m.
Proof.
  intros b m R Hh Hf L. pose proof (Reachable_Good b R) as G.
  destruct (Good_apply_hyps b G) as (P & EP & RO).
  apply ApplyFacts.apply_abs_legal; try assumption.
  exact (proj1 (is_legal_exact_good b m G) L).
Qed.

(* ------------------------------------------------------------------ *)
(** * 5. C03: check, status, and "never stale" for every reachable board *)

Theorem in_check_reachable : forall b, Reachable b -> Board.in_check b = Rules.in_check (Board.abs b).
Proof. intros b R. exact (in_check_good b (Reachable_Good b R)). Qed.

Theorem state_reachable : forall b, Reachable b -> state b = gstate_of (classify (Board.abs b)).
Proof. intros b R. exact (state_good movegen_exact_good b (Reachable_Good b R)). Qed.

Theorem mate_reachable : forall b, Reachable b ->
  (mg_is_empty (legals_gen b) = true /\ Board.in_check b = true <-> is_mate (Board.abs b) = true).
Proof. intros b R. exact (mate_good movegen_exact_good b (Reachable_Good b R)). Qed.

(* the cached pins and checkers are the from-scratch ones *)
Theorem fresh_reachable : forall b, Reachable b ->
  b_pinned b = b_pinned (update_pin_info b) /\ b_checkers b = b_checkers (update_pin_info b).
Proof. intros b R. exact (good_fresh b (Reachable_Good b R)). Qed.

(* a position reached by playing moves is THE SAME RECORD - hash, pins, checkers, every field - as the same
   position (placement, side, rights, marker, clocks) obtained any other way: parsed, built, or by another move order *)
Theorem reachable_determined : forall a b, Reachable a -> Reachable b -> board_eqb a b = true ->
  b_half a = b_half b -> b_full a = b_full b -> a = b.
Proof. intros a b Ra Rb. exact (good_determined a b (Reachable_Good a Ra) (Reachable_Good b Rb)). Qed.

(* ------------------------------------------------------------------ *)
(** * 6. C04 / C15: hashes and repetition over reachable boards *)

Theorem reachable_hash : forall b, Reachable b -> HashFacts.Part b /\ b_zob b = scratch_piece_hash b.
Proof.
  intros b R. destruct (good_inv b (Reachable_Good b R)) as [P C _ _]. split; [exact P|exact C].
Qed.

Theorem reachable_equal_boards_equal_hash : forall a b, Reachable a -> Reachable b -> board_eqb a b = true ->
  zobrist a = zobrist b.
Proof.
  intros a b Ra Rb E.
  exact (proj2 (eq_boards_eq_hash_strong a b (inv_consistent a (good_inv a (Reachable_Good a Ra)))
                                          (inv_consistent b (good_inv b (Reachable_Good b Rb))) E)).
Qed.

Theorem threefold_reachable_boards : forall bs, (forall x, In x bs -> Reachable x) ->
  snd (add_all [] bs) = expected_flags [] bs.
Proof.
  intros bs H. apply threefold_flags_unbounded. intros x y Hx Hy E.
  exact (proj1 (eq_boards_eq_hash_strong x y (inv_consistent x (good_inv x (Reachable_Good x (H x Hx))))
                                          (inv_consistent y (good_inv y (Reachable_Good y (H y Hy)))) E)).
Qed.

Print Assumptions movegen_exact_good.
Print Assumptions Reachable_Good.
Print Assumptions movegen_exact_reachable.
Print Assumptions apply_exact_reachable.
Print Assumptions state_reachable.
Print Assumptions reachable_determined.
Print Assumptions threefold_reachable_boards.
