(* Facts about every bitboard operation of base/BitBoard.v (model of chess-bitboard):
   bitboards behave as sets of the 64 squares, for ALL words.  Axiom-free. *)
From Coq Require Import NArith ZArith List Bool Lia ZifyBool ZifyN Sorted.
From Chess Require Import base.Bits base.BitBoard proofs.BitsFacts.
Import ListNotations.
Local Open Scope N_scope.

Arguments N.shiftl : simpl never.
Arguments N.shiftr : simpl never.
Arguments N.land : simpl never.
Arguments N.lor : simpl never.
Arguments N.lxor : simpl never.
Arguments N.ldiff : simpl never.
Arguments N.testbit : simpl never.
Arguments N.ones : simpl never.
Arguments N.pow : simpl never.
Arguments N.div : simpl never.
Arguments N.modulo : simpl never.
Arguments N.mul : simpl never.
Arguments N.add : simpl never.
Arguments N.sub : simpl never.

(* ------------------------------------------------------------------ *)
(** * Constructors: from_pos, from_file, from_rank *)

Lemma forall_lt8 : forall P : N -> bool,
  forallb P (seqN 0 8) = true -> forall f, f < 8 -> P f = true.
Proof.
  intros P H f Hf. rewrite forallb_forall in H. apply H.
  apply In_seqN. change (N.of_nat 8) with 8. lia.
Qed.

Lemma mem_from_pos_full : forall s t, mem (from_pos s) t = (t <? 64) && (t =? s).
Proof. intros s t. apply mem_shl64_1. Qed.

Lemma mem_from_pos : forall s t, s < 64 -> t < 64 -> mem (from_pos s) t = (t =? s).
Proof.
  intros s t _ Ht. rewrite mem_from_pos_full.
  apply N.ltb_lt in Ht. rewrite Ht. reflexivity.
Qed.

Lemma wf64_from_pos : forall s, wf64 (from_pos s).
Proof. intros s. apply wf64_shl64. Qed.

Lemma from_pos_bit : forall s, s < 64 -> from_pos s = bit s.
Proof. intros s Hs. apply shl64_1_bit, Hs. Qed.

Lemma mem_from_file : forall f t, f < 8 -> t < 64 -> mem (from_file f) t = (t mod 8 =? f).
Proof.
  intros f t Hf Ht.
  assert (forallb (fun f => forallb (fun t => Bool.eqb (mem (from_file f) t) (t mod 8 =? f)) sq_list)
                  (seqN 0 8) = true) as H by (vm_compute; reflexivity).
  pose proof (forall_lt8 _ H f Hf) as H1. cbv beta in H1.
  pose proof (forall_sq _ H1 t Ht) as H2. cbv beta in H2.
  apply eqb_prop, H2.
Qed.

Lemma wf64_from_file : forall f, wf64 (from_file f).
Proof. intros f. apply wf64_shl64. Qed.

Lemma mem_from_rank : forall r t, r < 8 -> t < 64 -> mem (from_rank r) t = (t / 8 =? r).
Proof.
  intros r t Hr Ht.
  assert (forallb (fun r => forallb (fun t => Bool.eqb (mem (from_rank r) t) (t / 8 =? r)) sq_list)
                  (seqN 0 8) = true) as H by (vm_compute; reflexivity).
  pose proof (forall_lt8 _ H r Hr) as H1. cbv beta in H1.
  pose proof (forall_sq _ H1 t Ht) as H2. cbv beta in H2.
  apply eqb_prop, H2.
Qed.

Lemma wf64_from_rank : forall r, wf64 (from_rank r).
Proof. intros r. apply wf64_shl64. Qed.

Lemma wf64_bb_empty : wf64 bb_empty.
Proof. reflexivity. Qed.
Lemma wf64_bb_full : wf64 bb_full.
Proof. reflexivity. Qed.
Lemma mem_bb_empty : forall s, mem bb_empty s = false.
Proof. apply mem_0. Qed.
Lemma mem_bb_full : forall s, s < 64 -> mem bb_full s = true.
Proof. intros s Hs. unfold bb_full. rewrite mem_mask64. apply N.ltb_lt, Hs. Qed.

(* ------------------------------------------------------------------ *)
(** * Set operations *)

Lemma mem_or : forall a b s, mem (bb_or a b) s = mem a s || mem b s.
Proof. intros. apply mem_lor. Qed.
Lemma mem_and : forall a b s, mem (bb_and a b) s = mem a s && mem b s.
Proof. intros. apply mem_land. Qed.
Lemma mem_xor : forall a b s, mem (bb_xor a b) s = xorb (mem a s) (mem b s).
Proof. intros. apply mem_lxor. Qed.
Lemma mem_not : forall a s, s < 64 -> mem (bb_not a) s = negb (mem a s).
Proof. intros. apply mem_not64; assumption. Qed.
Lemma mem_not_full : forall a s, mem (bb_not a) s = (s <? 64) && negb (mem a s).
Proof. intros. apply mem_not64_full. Qed.

Lemma mem_diff_full : forall a b s,
  mem (bb_diff a b) s = mem a s && ((s <? 64) && negb (mem b s)).
Proof. intros a b s. unfold bb_diff. rewrite mem_and, mem_not_full. reflexivity. Qed.

Lemma mem_diff : forall a b s, s < 64 -> mem (bb_diff a b) s = mem a s && negb (mem b s).
Proof.
  intros a b s Hs. rewrite mem_diff_full.
  apply N.ltb_lt in Hs. rewrite Hs. reflexivity.
Qed.

Lemma wf64_or : forall a b, wf64 a -> wf64 b -> wf64 (bb_or a b).
Proof. apply wf64_lor. Qed.
Lemma wf64_and : forall a b, wf64 a -> wf64 b -> wf64 (bb_and a b).
Proof. intros a b Ha _. apply wf64_land_l, Ha. Qed.
Lemma wf64_xor : forall a b, wf64 a -> wf64 b -> wf64 (bb_xor a b).
Proof. apply wf64_lxor. Qed.
Lemma wf64_not : forall a, wf64 (bb_not a).
Proof. apply wf64_not64. Qed.
Lemma wf64_diff : forall a b, wf64 (bb_diff a b).
Proof. intros a b. apply wf64_land_r, wf64_not64. Qed.

(* Rust computes `a & !b`; on well-formed words this is the plain set difference *)
Lemma bb_diff_ldiff : forall a b, wf64 a -> bb_diff a b = N.ldiff a b.
Proof.
  intros a b Ha. apply N.bits_inj. intros i.
  change (mem (bb_diff a b) i = mem (N.ldiff a b) i).
  rewrite mem_diff_full, mem_ldiff.
  destruct (N.ltb_spec i 64) as [H|H]; [reflexivity|].
  rewrite (wf64_high a i Ha H). reflexivity.
Qed.

Lemma mem_with : forall a s t, t < 64 -> mem (bb_with a s) t = mem a t || (t =? s).
Proof.
  intros a s t Ht. unfold bb_with. rewrite mem_or, mem_from_pos_full.
  apply N.ltb_lt in Ht. rewrite Ht. reflexivity.
Qed.

Lemma wf64_with : forall a s, wf64 a -> wf64 (bb_with a s).
Proof. intros a s Ha. apply wf64_or; [assumption|apply wf64_from_pos]. Qed.

Lemma mem_cleared : forall a s t, t < 64 -> mem (cleared a s) t = mem a t && negb (t =? s).
Proof.
  intros a s t Ht. unfold cleared. rewrite mem_diff by assumption.
  rewrite mem_from_pos_full. apply N.ltb_lt in Ht. rewrite Ht. reflexivity.
Qed.

Lemma wf64_cleared : forall a s, wf64 (cleared a s).
Proof. intros a s. apply wf64_diff. Qed.

(* ------------------------------------------------------------------ *)
(** * Emptiness tests and membership *)

Lemma eqb0_false_intro : forall a s, mem a s = true -> (a =? 0) = false.
Proof.
  intros a s H. apply N.eqb_neq. intros ->. rewrite mem_0 in H. discriminate.
Qed.

Lemma eqb0_true_intro : forall a, (forall s, mem a s = false) -> (a =? 0) = true.
Proof.
  intros a H. apply N.eqb_eq, N.bits_inj. intros i. rewrite N.bits_0. apply H.
Qed.

Lemma contains_spec : forall a s, s < 64 -> contains a s = mem a s.
Proof.
  intros a s Hs. unfold contains, any.
  destruct (mem a s) eqn:E.
  - rewrite (eqb0_false_intro _ s); [reflexivity|].
    rewrite mem_and, E, mem_from_pos, N.eqb_refl by assumption. reflexivity.
  - rewrite eqb0_true_intro; [reflexivity|].
    intros i. rewrite mem_and, mem_from_pos_full.
    destruct (N.eqb_spec i s) as [->|_]; [rewrite E; reflexivity|].
    rewrite andb_false_r. apply andb_false_r.
Qed.

Lemma none_spec : forall a, wf64 a ->
  (none a = true <-> forall s, s < 64 -> mem a s = false).
Proof.
  intros a Ha. unfold none. split.
  - intros H s _. apply N.eqb_eq in H. subst a. apply mem_0.
  - intros H. apply N.eqb_eq. apply ext64; [assumption|apply wf64_0|].
    intros s Hs. rewrite mem_0. apply H, Hs.
Qed.

Lemma any_spec : forall a, wf64 a ->
  (any a = true <-> exists s, s < 64 /\ mem a s = true).
Proof.
  intros a Ha. unfold any. split.
  - intros H. apply negb_true_iff, N.eqb_neq in H.
    exists (tz64 a). split; [apply tz64_lt; assumption|apply tz64_spec; assumption].
  - intros [s [_ Hs]]. rewrite (eqb0_false_intro a s Hs). reflexivity.
Qed.

Lemma any_none : forall a, any a = negb (none a).
Proof. reflexivity. Qed.

Lemma bb_all_spec : forall a, bb_all a = true <-> forall s, s < 64 -> mem a s = true.
Proof.
  intros a. unfold bb_all. rewrite (none_spec _ (wf64_not a)). split.
  - intros H s Hs. specialize (H s Hs). rewrite mem_not in H by assumption.
    apply negb_false_iff, H.
  - intros H s Hs. rewrite mem_not, (H s Hs) by assumption. reflexivity.
Qed.

Lemma bb_some_spec : forall a, bb_some a = true <-> exists s, s < 64 /\ mem a s = false.
Proof.
  intros a. unfold bb_some. rewrite (any_spec _ (wf64_not a)). split.
  - intros [s [Hs H]]. exists s. split; [assumption|].
    rewrite mem_not in H by assumption. apply negb_true_iff, H.
  - intros [s [Hs H]]. exists s. split; [assumption|].
    rewrite mem_not, H by assumption. reflexivity.
Qed.

(* ------------------------------------------------------------------ *)
(** * Shifts: one step in a direction, never wrapping around an edge *)

Lemma mem_shift_up : forall a t, t < 64 ->
  mem (shift_up a) t = (8 <=? t) && mem a (t - 8).
Proof.
  intros a t Ht. unfold shift_up. rewrite mem_shl64 by assumption.
  destruct (N.leb_spec 8 t) as [H|H]; cbn [andb]; [|reflexivity].
  rewrite mem_diff, mem_from_rank by lia.
  replace ((t - 8) / 8 =? 7) with false; [apply andb_true_r|].
  symmetry. apply N.eqb_neq. lia_dm.
Qed.

Lemma mem_shift_down : forall a t, t < 64 ->
  mem (shift_down a) t = (t <? 56) && mem a (t + 8).
Proof.
  intros a t Ht. unfold shift_down. rewrite mem_shr64, mem_diff_full.
  destruct (N.ltb_spec t 56) as [H|H]; cbn [andb].
  - assert (t + 8 < 64) as H' by lia. apply N.ltb_lt in H'. rewrite H'. cbn [andb].
    rewrite mem_from_rank by lia.
    replace ((t + 8) / 8 =? 0) with false; [apply andb_true_r|].
    symmetry. apply N.eqb_neq. lia_dm.
  - assert (64 <= t + 8) as H' by lia. apply N.ltb_ge in H'. rewrite H'.
    apply andb_false_r.
Qed.

Lemma mem_shift_left : forall a t, t < 64 ->
  mem (shift_left a) t = (t mod 8 <? 7) && mem a (t + 1).
Proof.
  intros a t Ht. unfold shift_left. rewrite mem_shr64, mem_diff_full.
  destruct (N.ltb_spec (t + 1) 64) as [H|H]; cbn [andb].
  - rewrite mem_from_file by lia.
    replace (negb ((t + 1) mod 8 =? 0)) with (t mod 8 <? 7); [apply andb_comm|].
    destruct (N.ltb_spec (t mod 8) 7), (N.eqb_spec ((t + 1) mod 8) 0);
      cbn [negb]; try reflexivity; exfalso; lia_dm.
  - replace (t mod 8 <? 7) with false; [apply andb_false_r|].
    symmetry. apply N.ltb_ge. lia_dm.
Qed.

Lemma mem_shift_right : forall a t, t < 64 ->
  mem (shift_right a) t = (1 <=? t mod 8) && mem a (t - 1).
Proof.
  intros a t Ht. unfold shift_right. rewrite mem_shl64 by assumption.
  destruct (N.leb_spec 1 t) as [H|H]; cbn [andb].
  - rewrite mem_diff, mem_from_file by lia.
    replace (negb ((t - 1) mod 8 =? 7)) with (1 <=? t mod 8); [apply andb_comm|].
    destruct (N.leb_spec 1 (t mod 8)), (N.eqb_spec ((t - 1) mod 8) 7);
      cbn [negb]; try reflexivity; exfalso; lia_dm.
  - replace (1 <=? t mod 8) with false; [reflexivity|].
    symmetry. apply N.leb_gt. lia_dm.
Qed.

Lemma wf64_shift_up : forall a, wf64 (shift_up a).
Proof. intros a. apply wf64_shl64. Qed.
Lemma wf64_shift_down : forall a, wf64 (shift_down a).
Proof. intros a. apply wf64_shr64, wf64_diff. Qed.
Lemma wf64_shift_left : forall a, wf64 (shift_left a).
Proof. intros a. apply wf64_shr64, wf64_diff. Qed.
Lemma wf64_shift_right : forall a, wf64 (shift_right a).
Proof. intros a. apply wf64_shl64. Qed.

(* ------------------------------------------------------------------ *)
(** * flip_ranks, count *)

Lemma mem_flip_ranks : forall a t, t < 64 -> mem (flip_ranks a) t = mem a (N.lxor t 56).
Proof. intros a t Ht. apply mem_bswap64, Ht. Qed.

Lemma wf64_flip_ranks : forall a, wf64 (flip_ranks a).
Proof. intros a. apply wf64_bswap64. Qed.

Lemma count_spec : forall a, wf64 a -> count a = N.of_nat (length (elements a)).
Proof. intros a Ha. apply popcount_elements, Ha. Qed.

Lemma count_le64 : forall a, wf64 a -> count a <= 64.
Proof. intros a Ha. apply popcount_le64, Ha. Qed.

Lemma it_size_hint_spec : forall a, wf64 a -> it_size_hint a = N.of_nat (length (elements a)).
Proof. intros a Ha. apply count_spec, Ha. Qed.

(* ------------------------------------------------------------------ *)
(** * pop and iteration *)

Lemma pop_none : forall a, pop a = None <-> a = 0.
Proof.
  intros a. unfold pop. destruct (N.eqb_spec a 0) as [E|E]; split; intros H; try assumption.
  - reflexivity.
  - discriminate.
  - contradiction.
Qed.

Lemma pop_xor_cleared : forall a s, wf64 a -> s < 64 -> mem a s = true ->
  N.lxor a (shl64 1 s) = cleared a s.
Proof.
  intros a s Ha Hs Hm. apply N.bits_inj. intros i.
  change (mem (N.lxor a (shl64 1 s)) i = mem (cleared a s) i).
  unfold cleared. rewrite mem_lxor, mem_diff_full, mem_shl64_1.
  change (mem (from_pos s) i) with (mem (shl64 1 s) i). rewrite mem_shl64_1.
  destruct (N.eqb_spec i s) as [->|Hne].
  - apply N.ltb_lt in Hs. rewrite Hm, Hs. reflexivity.
  - rewrite !andb_false_r, xorb_false_r. cbn [negb]. rewrite andb_true_r.
    destruct (N.ltb_spec i 64) as [H|H]; [rewrite andb_true_r; reflexivity|].
    rewrite (wf64_high a i Ha H). reflexivity.
Qed.

Lemma pop_some : forall a s a', wf64 a -> pop a = Some (s, a') ->
  s < 64 /\ mem a s = true /\ (forall t, t < s -> mem a t = false) /\
  a' = cleared a s /\ wf64 a'.
Proof.
  intros a s a' Ha. unfold pop. destruct (N.eqb_spec a 0) as [E|E]; [discriminate|].
  intros H. injection H as <- <-.
  destruct (tz64_spec a E) as [H1 H2].
  pose proof (tz64_lt a Ha E) as H3.
  repeat split; try assumption.
  - apply pop_xor_cleared; assumption.
  - rewrite pop_xor_cleared by assumption. apply wf64_cleared.
Qed.

Lemma cleared_min_elements : forall a s, s < 64 -> (forall t, t < s -> mem a t = false) ->
  forall x, In x (elements (cleared a s)) -> x < 64 /\ mem a x = true /\ s < x.
Proof.
  intros a s Hs Hmin x Hx. apply elements_spec in Hx. destruct Hx as [Hx Hmx].
  rewrite mem_cleared in Hmx by assumption.
  apply andb_true_iff in Hmx. destruct Hmx as [Hax Hne].
  apply negb_true_iff, N.eqb_neq in Hne.
  repeat split; try assumption.
  destruct (N.lt_trichotomy x s) as [Hlt|[Heq|Hgt]]; [|contradiction|assumption].
  rewrite (Hmin x Hlt) in Hax. discriminate.
Qed.

Lemma pop_elements_sorted : forall a s, s < 64 -> (forall t, t < s -> mem a t = false) ->
  StronglySorted N.lt (s :: elements (cleared a s)).
Proof.
  intros a s Hs Hmin.
  constructor; [apply elements_sorted|].
  apply Forall_forall. intros x Hx. apply (cleared_min_elements a s Hs Hmin x Hx).
Qed.

Lemma cons_In_ext : forall (s : N) (L : list N) (P : N -> Prop), P s ->
  (forall x, In x L <-> P x /\ x <> s) -> forall x, In x (s :: L) <-> P x.
Proof.
  intros s L P Hs HL x. split.
  - intros [<-|Hx]; [assumption|]. apply HL in Hx. apply Hx.
  - intros Hx. destruct (N.eq_dec s x) as [Heq|Hne]; [left; assumption|right].
    apply HL. split; [assumption|]. intros ->. apply Hne. reflexivity.
Qed.

Lemma pop_elements_In : forall a s, s < 64 -> mem a s = true ->
  forall x, In x (s :: elements (cleared a s)) <-> x < 64 /\ mem a x = true.
Proof.
  intros a s Hs Hm.
  apply (cons_In_ext s (elements (cleared a s)) (fun x => x < 64 /\ mem a x = true)); [auto|].
  intros x. rewrite elements_spec. split.
  - intros [Hx Hmx]. rewrite mem_cleared in Hmx by assumption.
    apply andb_true_iff in Hmx. destruct Hmx as [Hax Hne].
    apply negb_true_iff, N.eqb_neq in Hne. auto.
  - intros [[Hx Hmx] Hne]. split; [assumption|].
    rewrite mem_cleared, Hmx by assumption.
    apply N.eqb_neq in Hne. rewrite Hne. reflexivity.
Qed.

Lemma pop_elements : forall a s a', wf64 a -> pop a = Some (s, a') ->
  elements a = s :: elements a'.
Proof.
  intros a s a' Ha H.
  destruct (pop_some a s a' Ha H) as (Hs & Hm & Hmin & -> & _).
  apply elements_ext.
  - apply pop_elements_sorted; assumption.
  - apply pop_elements_In; assumption.
Qed.

(* list computations stated for abstract lists: rewriting with these (instead of cbn) keeps the
   kernel from ever unfolding [elements _] during conversion *)
Lemma len_cons : forall (x : N) l, length (x :: l) = S (length l).
Proof. reflexivity. Qed.
Lemma hd_error_cons' : forall (x : N) l, hd_error (x :: l) = Some x.
Proof. reflexivity. Qed.
Lemma tl_cons : forall (x : N) l, tl (x :: l) = l.
Proof. reflexivity. Qed.
Lemma nth_error_cons_S : forall (x : N) l k, nth_error (x :: l) (S k) = nth_error l k.
Proof. reflexivity. Qed.
Lemma skipn_cons_S : forall (x : N) l k, skipn (S k) (x :: l) = skipn k l.
Proof. reflexivity. Qed.
Lemma nth_error_0_hd : forall (l : list N), nth_error l 0 = hd_error l.
Proof. destruct l; reflexivity. Qed.
Lemma skipn_1_tl : forall (l : list N), skipn 1 l = tl l.
Proof. destruct l; reflexivity. Qed.

Lemma it_next_spec : forall a, wf64 a ->
  let (r, a') := it_next a in
  r = hd_error (elements a) /\ wf64 a' /\ elements a' = tl (elements a).
Proof.
  intros a Ha. unfold it_next. destruct (pop a) as [[s a']|] eqn:E.
  - rewrite (pop_elements a s a' Ha E), hd_error_cons', tl_cons.
    destruct (pop_some a s a' Ha E) as (_ & _ & _ & _ & Hwf). auto.
  - apply pop_none in E. subst a. rewrite elements_0. cbn [hd_error tl]. auto.
Qed.

Lemma iter_fuel_elements : forall fuel a, wf64 a ->
  (length (elements a) < fuel)%nat -> iter_fuel fuel a = elements a.
Proof.
  induction fuel as [|fuel IH]; intros a Ha Hlen; [lia|].
  cbn [iter_fuel]. destruct (pop a) as [[s a']|] eqn:E.
  - rewrite (pop_elements a s a' Ha E) in *. rewrite len_cons in Hlen.
    destruct (pop_some a s a' Ha E) as (_ & _ & _ & _ & Hwf).
    rewrite IH; [reflexivity|assumption|lia].
  - apply pop_none in E. subst a. reflexivity.
Qed.

(* iterating a bitboard yields exactly its squares, in ascending order *)
Lemma iter_list_elements : forall a, wf64 a -> iter_list a = elements a.
Proof.
  intros a Ha. unfold iter_list. apply iter_fuel_elements; [assumption|].
  pose proof (elements_length_le a). lia.
Qed.

Lemma iter_list_spec : forall a s, wf64 a -> (In s (iter_list a) <-> s < 64 /\ mem a s = true).
Proof. intros a s Ha. rewrite iter_list_elements by assumption. apply elements_spec. Qed.

Lemma iter_list_sorted : forall a, wf64 a -> StronglySorted N.lt (iter_list a).
Proof. intros a Ha. rewrite iter_list_elements by assumption. apply elements_sorted. Qed.

Lemma iter_list_length : forall a, wf64 a -> it_size_hint a = N.of_nat (length (iter_list a)).
Proof. intros a Ha. rewrite iter_list_elements by assumption. apply it_size_hint_spec, Ha. Qed.

(* ------------------------------------------------------------------ *)
(** * FromIterator *)

Lemma mem_fold_with : forall l acc t, t < 64 ->
  mem (fold_left bb_with l acc) t = mem acc t || existsb (N.eqb t) l.
Proof.
  induction l as [|s l IH]; intros acc t Ht; cbn [fold_left existsb].
  - rewrite orb_false_r. reflexivity.
  - rewrite IH, mem_with by assumption. symmetry. apply orb_assoc.
Qed.

Lemma mem_from_squares : forall l t, (forall s, In s l -> s < 64) -> t < 64 ->
  mem (from_squares l) t = existsb (N.eqb t) l.
Proof.
  intros l t _ Ht. unfold from_squares. rewrite mem_fold_with by assumption.
  rewrite mem_bb_empty. reflexivity.
Qed.

Lemma wf64_fold_with : forall l acc, wf64 acc -> wf64 (fold_left bb_with l acc).
Proof.
  induction l as [|s l IH]; intros acc Hacc; cbn [fold_left]; [assumption|].
  apply IH, wf64_with, Hacc.
Qed.

Lemma wf64_from_squares : forall l, wf64 (from_squares l).
Proof. intros l. apply wf64_fold_with, wf64_bb_empty. Qed.

Lemma mem_fold_or : forall l acc t,
  mem (fold_left bb_or l acc) t = mem acc t || existsb (fun b => mem b t) l.
Proof.
  induction l as [|b l IH]; intros acc t; cbn [fold_left existsb].
  - rewrite orb_false_r. reflexivity.
  - rewrite IH, mem_or. symmetry. apply orb_assoc.
Qed.

Lemma mem_from_boards : forall l t, mem (from_boards l) t = existsb (fun b => mem b t) l.
Proof.
  intros l t. unfold from_boards. rewrite mem_fold_or, mem_bb_empty. reflexivity.
Qed.

Lemma wf64_fold_or : forall l acc, wf64 acc -> (forall b, In b l -> wf64 b) ->
  wf64 (fold_left bb_or l acc).
Proof.
  induction l as [|b l IH]; intros acc Hacc Hl; cbn [fold_left]; [assumption|].
  apply IH.
  - apply wf64_or; [assumption|]. apply Hl. left; reflexivity.
  - intros b' Hb'. apply Hl. right; assumption.
Qed.

Lemma wf64_from_boards : forall l, (forall b, In b l -> wf64 b) -> wf64 (from_boards l).
Proof. intros l Hl. apply wf64_fold_or; [apply wf64_bb_empty|assumption]. Qed.

(* from_squares / iter_list round trip *)
Lemma from_squares_iter_list : forall a, wf64 a -> from_squares (iter_list a) = a.
Proof.
  intros a Ha. apply ext64; [apply wf64_from_squares|assumption|].
  intros t Ht. rewrite mem_from_squares; [|intros s Hs; apply iter_list_spec in Hs; tauto|assumption].
  destruct (mem a t) eqn:E.
  - apply existsb_exists. exists t. split; [|apply N.eqb_refl].
    apply iter_list_spec; auto.
  - destruct (existsb (N.eqb t) (iter_list a)) eqn:E'; [|reflexivity].
    apply existsb_exists in E'. destruct E' as [x [Hx Heq]].
    apply N.eqb_eq in Heq. subst x. apply iter_list_spec in Hx; [|assumption].
    destruct Hx; congruence.
Qed.

(* ------------------------------------------------------------------ *)
(** * Iterator::nth, default implementation *)

Lemma nth_default_fuel_spec : forall fuel a n, wf64 a ->
  (length (elements a) < fuel)%nat ->
  let (r, a') := nth_default_fuel fuel a n in
  r = nth_error (elements a) (N.to_nat n) /\ wf64 a' /\
  elements a' = skipn (S (N.to_nat n)) (elements a).
Proof.
  induction fuel as [|fuel IH]; intros a n Ha Hlen; [lia|].
  cbn [nth_default_fuel]. destruct (N.eqb_spec n 0) as [->|Hn].
  - pose proof (it_next_spec a Ha) as H. destruct (it_next a) as [r a'].
    destruct H as (-> & Hwf & ->). change (N.to_nat 0) with O.
    rewrite nth_error_0_hd, skipn_1_tl. auto.
  - assert (N.to_nat n = S (N.to_nat (N.pred n))) as Hsucc by lia.
    rewrite Hsucc.
    destruct (pop a) as [[s a']|] eqn:E.
    + rewrite (pop_elements a s a' Ha E) in *. rewrite len_cons in Hlen.
      destruct (pop_some a s a' Ha E) as (_ & _ & _ & _ & Hwf).
      rewrite nth_error_cons_S, skipn_cons_S. apply IH; [assumption|lia].
    + apply pop_none in E. subst a. rewrite elements_0.
      cbn [nth_error skipn]. auto using wf64_0.
Qed.

Lemma nth_default_spec : forall a n, wf64 a ->
  let (r, a') := nth_default a n in
  r = nth_error (elements a) (N.to_nat n) /\ wf64 a' /\
  elements a' = skipn (S (N.to_nat n)) (elements a).
Proof.
  intros a n Ha. unfold nth_default. apply nth_default_fuel_spec; [assumption|].
  pose proof (elements_length_le a). lia.
Qed.

(* ------------------------------------------------------------------ *)
(** * Iterator::nth, BMI2 implementation *)

Lemma sorted_skipn : forall k l, StronglySorted N.lt l -> StronglySorted N.lt (skipn k l).
Proof.
  induction k as [|k IH]; intros l Hl; [exact Hl|].
  destruct l as [|a l]; [exact Hl|]. cbn [skipn].
  apply IH. apply StronglySorted_inv in Hl. apply Hl.
Qed.

Lemma sorted_skipn_In : forall l k t x, StronglySorted N.lt l -> nth_error l k = Some t ->
  (In x (skipn (S k) l) <-> In x l /\ t < x).
Proof.
  induction l as [|a l IH]; intros k t x Hl Hk.
  - destruct k; discriminate.
  - apply StronglySorted_inv in Hl. destruct Hl as [Hl Ha].
    rewrite Forall_forall in Ha. destruct k as [|k].
    + cbn [nth_error] in Hk. injection Hk as ->. cbn [skipn In]. split.
      * intros Hx. split; [right; assumption|apply Ha, Hx].
      * intros [[->|Hx] Hlt]; [lia|assumption].
    + cbn [nth_error] in Hk. change (skipn (S (S k)) (a :: l)) with (skipn (S k) l).
      rewrite (IH k t x Hl Hk). cbn [In]. split.
      * intros [Hx Hlt]. auto.
      * intros [[->|Hx] Hlt]; [|auto].
        apply nth_error_In in Hk. apply Ha in Hk. lia.
Qed.

Lemma elements_above : forall a k t, nth_error (elements a) k = Some t ->
  elements (bb_diff a (N.ones (t + 1))) = skipn (S k) (elements a).
Proof.
  intros a k t Hk. apply elements_ext.
  - apply sorted_skipn, elements_sorted.
  - intros x. rewrite (sorted_skipn_In _ k t x (elements_sorted a) Hk), elements_spec.
    split.
    + intros [[Hx Hm] Hlt]. split; [assumption|].
      rewrite mem_diff, Hm by assumption. unfold mem. rewrite ones_testbit.
      assert (t + 1 <= x) as H by lia. apply N.ltb_ge in H. rewrite H. reflexivity.
    + intros [Hx Hm]. rewrite mem_diff in Hm by assumption.
      apply andb_true_iff in Hm. destruct Hm as [Hm Hn].
      unfold mem in Hn. rewrite ones_testbit in Hn.
      apply negb_true_iff, N.ltb_ge in Hn. repeat split; try assumption. lia.
Qed.

Lemma pdep64_select_count : forall a n, wf64 a -> n < count a ->
  tz64 (pdep64 (shl64 1 n) a) = nth (N.to_nat n) (elements a) 64.
Proof. intros a n Ha Hn. apply pdep64_select; assumption. Qed.

(* The fixed BMI2 `nth` agrees with the default `nth` (skip n squares, return the next,
   keep the rest) on the returned square AND on the residual iterator, for every n
   (also n >= 64), with or without overflow checks: the shift never overflows. *)
Lemma nth_bmi2_spec : forall a, wf64 a ->
  forall checked n, nth_bmi2 checked a n = Ret (nth_default a n).
Proof.
  intros a Ha checked n.
  pose proof (nth_default_spec a n Ha) as Hd.
  destruct (nth_default a n) as [r a']. destruct Hd as (-> & Hwf & Hel).
  pose proof (elements_length_le a) as Hle.
  unfold nth_bmi2. rewrite count_spec by assumption.
  destruct (N.leb_spec (N.of_nat (length (elements a))) n) as [H|H].
  - assert (length (elements a) <= N.to_nat n)%nat as H' by lia.
    rewrite skipn_all2 in Hel by lia.
    apply elements_nil in Hel; [|assumption]. subst a'.
    apply nth_error_None in H'. rewrite H'. reflexivity.
  - assert (N.to_nat n < length (elements a))%nat as H' by lia.
    unfold nth_bmi2_orig, nth_bmi2_shift.
    assert (n < 64) as Hn by lia. apply N.ltb_lt in Hn. rewrite Hn.
    rewrite pdep64_select by (try assumption; rewrite popcount_elements by assumption; lia).
    rewrite (nth_error_nth' _ 64 H').
    set (t := nth (N.to_nat n) (elements a) 64) in *.
    assert (t < 64) as Ht by (apply (elements_lt64 a), nth_In, H').
    apply N.ltb_lt in Ht. rewrite Ht.
    do 2 f_equal. apply elements_inj; [apply wf64_diff|assumption|].
    rewrite Hel. apply elements_above. apply nth_error_nth', H'.
Qed.

(* The code at the pinned commit (finding F10) differs from the default `nth`
   once n reaches the number of remaining squares: it keeps the iterator
   instead of exhausting it ... *)
Lemma nth_bmi2_orig_refuted :
  exists a n, wf64 a /\ nth_bmi2_orig false a n <> Ret (nth_default a n).
Proof.
  exists 11, 5. split; [reflexivity|].
  vm_compute. intros H. discriminate H.
Qed.

(* ... and with overflow checks the shift `1 << n` panics for n >= 64 *)
Lemma nth_bmi2_orig_traps : nth_bmi2_orig true (N.ones 64) 64 = Trap.
Proof. vm_compute. reflexivity. Qed.

Lemma nth_bmi2_orig_traps_all : forall a n, 64 <= n -> nth_bmi2_orig true a n = Trap.
Proof.
  intros a n Hn. unfold nth_bmi2_orig, nth_bmi2_shift.
  apply N.ltb_ge in Hn. rewrite Hn. reflexivity.
Qed.

(* where the original code was right: strictly fewer than `count` skipped *)
Lemma nth_bmi2_orig_ok : forall a, wf64 a -> forall checked n, n < count a ->
  nth_bmi2_orig checked a n = Ret (nth_default a n).
Proof.
  intros a Ha checked n Hn. rewrite <- (nth_bmi2_spec a Ha checked n).
  unfold nth_bmi2. apply N.leb_gt in Hn. rewrite Hn. reflexivity.
Qed.
