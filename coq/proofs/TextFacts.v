(* Proofs for C19: index / (file, rank) / neighbour / flip consistency, text round trips,
   exact accepted sets of the byte-string parsers, and Range<u8>-backed iterators refine a list deque. *)
From Coq Require Import NArith ZArith List Bool Lia ZifyBool ZifyN.
From Chess Require Import model.Text.
Import ListNotations.
Local Open Scope N_scope.

Ltac Zify.zify_post_hook ::= Z.div_mod_to_equations.

(* ---------- complete sweeps over 0..n-1 ---------- *)

Lemma in_nseq : forall len lo0 x, In x (nseq lo0 len) <-> lo0 <= x < lo0 + N.of_nat len.
Proof.
  induction len as [|len IH]; intros lo0 x; cbn [nseq In].
  - lia.
  - rewrite IH. lia.
Qed.

Lemma in_range_list : forall lo0 hi0 x, In x (range_list lo0 hi0) <-> lo0 <= x < hi0.
Proof. intros; unfold range_list; rewrite in_nseq; lia. Qed.

Lemma sweep_below : forall (n : N) (P : N -> bool),
  forallb P (range_list 0 n) = true -> forall x, x < n -> P x = true.
Proof.
  intros n P H x Hx. rewrite forallb_forall in H. apply H. apply in_range_list. lia.
Qed.

(* ---------- index / (file, rank) consistency ---------- *)

Lemma pos_new_consistency : forall f r, f < 8 -> r < 8 ->
  pos_new f r < 64 /\ pos_from_u8 (pos_new f r) = Some (pos_new f r) /\
  pos_file (pos_new f r) = f /\ pos_rank (pos_new f r) = r.
Proof.
  intros f r Hf Hr. unfold pos_from_u8, pos_file, pos_rank, pos_new.
  destruct (N.ltb_spec (r * 8 + f) 64); repeat split; try reflexivity; lia.
Qed.

Lemma pos_index_consistency : forall s, s < 64 ->
  pos_from_u8 s = Some s /\ pos_file s < 8 /\ pos_rank s < 8 /\ pos_new (pos_file s) (pos_rank s) = s.
Proof.
  intros s Hs. unfold pos_from_u8, pos_file, pos_rank, pos_new.
  destruct (N.ltb_spec s 64); repeat split; try reflexivity; lia.
Qed.

Lemma pos_from_u8_spec : forall n s, pos_from_u8 n = Some s <-> n < 64 /\ s = n.
Proof.
  intros n s. unfold pos_from_u8. destruct (N.ltb_spec n 64); split.
  - intros [= <-]; lia.
  - intros [_ ->]; reflexivity.
  - discriminate.
  - lia.
Qed.

Lemma enum_from_u8_spec : forall k n v, enum_from_u8 k n = Some v <-> n < k /\ v = n.
Proof.
  intros k n v. unfold enum_from_u8. destruct (N.ltb_spec n k); split.
  - intros [= <-]; lia.
  - intros [_ ->]; reflexivity.
  - discriminate.
  - lia.
Qed.

Lemma pos_new_injective : forall f r f' r', f < 8 -> f' < 8 ->
  pos_new f r = pos_new f' r' -> f = f' /\ r = r'.
Proof. unfold pos_new; intros; lia. Qed.

Lemma pos_consistency :
  (forall f r, f < 8 -> r < 8 ->
     pos_new f r < 64 /\ pos_from_u8 (pos_new f r) = Some (pos_new f r) /\
     pos_file (pos_new f r) = f /\ pos_rank (pos_new f r) = r) /\
  (forall s, s < 64 ->
     pos_from_u8 s = Some s /\ pos_file s < 8 /\ pos_rank s < 8 /\
     pos_new (pos_file s) (pos_rank s) = s) /\
  (forall n s, pos_from_u8 n = Some s <-> n < 64 /\ s = n) /\
  (forall a b, dist_to a b = dist_to b a /\ (dist_to a b = 0 <-> a = b) /\
               (a <= b -> dist_to a b = b - a) /\ (b <= a -> dist_to a b = a - b)) /\
  (forall c, c < 2 -> color_not c < 2 /\ color_not c <> c /\ color_not (color_not c) = c /\
                      side_not c = color_not c).
Proof.
  split; [exact pos_new_consistency|].
  split; [exact pos_index_consistency|].
  split; [exact pos_from_u8_spec|].
  split.
  - intros a b. unfold dist_to, abs_diff.
    destruct (N.ltb_spec a b); destruct (N.ltb_spec b a); repeat split; intros; lia.
  - intros c Hc. assert (c = 0 \/ c = 1) as [-> | ->] by lia; repeat split; discriminate.
Qed.

(* ---------- neighbour steps ---------- *)

Lemma shifts_closed_form : forall s, s < 64 ->
  pos_shift_up s = (if pos_rank s =? 7 then None else Some (s + 8)) /\
  pos_shift_down s = (if pos_rank s =? 0 then None else Some (s - 8)) /\
  pos_shift_left s = (if pos_file s =? 0 then None else Some (s - 1)) /\
  pos_shift_right s = (if pos_file s =? 7 then None else Some (s + 1)).
Proof.
  intros s Hs.
  unfold pos_shift_up, pos_shift_down, pos_shift_left, pos_shift_right,
    rank_shift_up, rank_shift_down, file_shift_left, file_shift_right, pos_new, pos_file, pos_rank.
  repeat split.
  - destruct (N.eqb_spec (s / 8) 7); [reflexivity | f_equal; lia].
  - destruct (N.eqb_spec (s / 8) 0); [reflexivity | f_equal; lia].
  - destruct (N.eqb_spec (s mod 8) 0); [reflexivity | f_equal; lia].
  - destruct (N.eqb_spec (s mod 8) 7); [reflexivity | f_equal; lia].
Qed.

Lemma shifts_inverse : forall s t, s < 64 ->
  (pos_shift_up s = Some t -> t < 64 /\ pos_shift_down t = Some s) /\
  (pos_shift_down s = Some t -> t < 64 /\ pos_shift_up t = Some s) /\
  (pos_shift_left s = Some t -> t < 64 /\ pos_shift_right t = Some s) /\
  (pos_shift_right s = Some t -> t < 64 /\ pos_shift_left t = Some s).
Proof.
  intros s t Hs.
  destruct (shifts_closed_form s Hs) as (Eu & Ed & El & Er).
  rewrite Eu, Ed, El, Er. unfold pos_rank, pos_file.
  repeat split.
  - destruct (N.eqb_spec (s / 8) 7); [discriminate | injection H as <-; lia].
  - destruct (N.eqb_spec (s / 8) 7) as [|Hn]; [discriminate|]. injection H as <-.
    assert (Ht : s + 8 < 64) by lia.
    destruct (shifts_closed_form _ Ht) as (_ & -> & _). unfold pos_rank.
    destruct (N.eqb_spec ((s + 8) / 8) 0); [lia | f_equal; lia].
  - destruct (N.eqb_spec (s / 8) 0); [discriminate | injection H as <-; lia].
  - destruct (N.eqb_spec (s / 8) 0) as [|Hn]; [discriminate|]. injection H as <-.
    assert (Ht : s - 8 < 64) by lia.
    destruct (shifts_closed_form _ Ht) as (-> & _). unfold pos_rank.
    destruct (N.eqb_spec ((s - 8) / 8) 7); [lia | f_equal; lia].
  - destruct (N.eqb_spec (s mod 8) 0); [discriminate | injection H as <-; lia].
  - destruct (N.eqb_spec (s mod 8) 0) as [|Hn]; [discriminate|]. injection H as <-.
    assert (Ht : s - 1 < 64) by lia.
    destruct (shifts_closed_form _ Ht) as (_ & _ & _ & ->). unfold pos_file.
    destruct (N.eqb_spec ((s - 1) mod 8) 7); [lia | f_equal; lia].
  - destruct (N.eqb_spec (s mod 8) 7); [discriminate | injection H as <-; lia].
  - destruct (N.eqb_spec (s mod 8) 7) as [|Hn]; [discriminate|]. injection H as <-.
    assert (Ht : s + 1 < 64) by lia.
    destruct (shifts_closed_form _ Ht) as (_ & _ & -> & _). unfold pos_file.
    destruct (N.eqb_spec ((s + 1) mod 8) 0); [lia | f_equal; lia].
Qed.

Lemma shifts : forall s, s < 64 ->
  (pos_shift_up s = (if pos_rank s =? 7 then None else Some (s + 8)) /\
   pos_shift_down s = (if pos_rank s =? 0 then None else Some (s - 8)) /\
   pos_shift_left s = (if pos_file s =? 0 then None else Some (s - 1)) /\
   pos_shift_right s = (if pos_file s =? 7 then None else Some (s + 1))) /\
  (forall t,
   (pos_shift_up s = Some t -> t < 64 /\ pos_shift_down t = Some s) /\
   (pos_shift_down s = Some t -> t < 64 /\ pos_shift_up t = Some s) /\
   (pos_shift_left s = Some t -> t < 64 /\ pos_shift_right t = Some s) /\
   (pos_shift_right s = Some t -> t < 64 /\ pos_shift_left t = Some s)).
Proof.
  intros s Hs; split; [exact (shifts_closed_form s Hs) | intros t; exact (shifts_inverse s t Hs)].
Qed.

(* ---------- rank flip ---------- *)

Lemma flip_lxor : forall s, s < 64 -> pos_flip_rank s = N.lxor s 56.
Proof.
  intros s Hs. apply N.eqb_eq. revert s Hs.
  apply (sweep_below 64 (fun s => pos_flip_rank s =? N.lxor s 56)).
  vm_compute. reflexivity.
Qed.

Lemma flip : forall s, s < 64 ->
  pos_flip_rank s < 64 /\
  pos_flip_rank (pos_flip_rank s) = s /\
  pos_file (pos_flip_rank s) = pos_file s /\
  pos_rank (pos_flip_rank s) = 7 - pos_rank s /\
  pos_flip_rank s = N.lxor s 56 /\
  rank_flip (rank_flip (pos_rank s)) = pos_rank s.
Proof.
  intros s Hs. split; [|split; [|split; [|split; [|split]]]].
  5: exact (flip_lxor s Hs).
  all: unfold pos_flip_rank, rank_flip, pos_new, pos_file, pos_rank; lia.
Qed.

(* ---------- the two byte tricks ---------- *)

Lemma lor32 : forall b, b < 256 -> N.lor b 32 = if (b / 32) mod 2 =? 0 then b + 32 else b.
Proof.
  intros b Hb. apply N.eqb_eq. revert b Hb.
  apply (sweep_below 256 (fun b => N.lor b 32 =? (if (b / 32) mod 2 =? 0 then b + 32 else b))).
  vm_compute. reflexivity.
Qed.

Lemma file_byte_spec : forall b f, b < 256 ->
  (file_from_ascii_byte b = Some f <->
   (97 <= b <= 104 /\ f = b - 97) \/ (65 <= b <= 72 /\ f = b - 65)).
Proof.
  intros b f Hb. unfold file_from_ascii_byte, wrapping_sub_u8. rewrite (lor32 b Hb).
  destruct (N.eqb_spec ((b / 32) mod 2) 0) as [E|E];
    match goal with |- context [?x <? 8] => destruct (N.ltb_spec x 8) as [L|L] end;
    split; intros H; try discriminate; try (injection H as <-); try (f_equal); lia.
Qed.

Lemma rank_byte_spec : forall b r, b < 256 ->
  (rank_from_ascii_byte b = Some r <-> b = 49 + r /\ r < 8).
Proof.
  intros b r Hb. unfold rank_from_ascii_byte, wrapping_sub_u8.
  match goal with |- context [?x <? 8] => destruct (N.ltb_spec x 8) as [L|L] end;
    split; intros H; try discriminate; try (injection H as <-); try (f_equal); lia.
Qed.

Lemma file_byte_lt8 : forall b f, file_from_ascii_byte b = Some f -> f < 8.
Proof.
  intros b f. unfold file_from_ascii_byte.
  match goal with |- context [?x <? 8] => destruct (N.ltb_spec x 8) as [L|L] end;
    [intros [= <-]; exact L | discriminate].
Qed.

Lemma rank_byte_lt8 : forall b r, rank_from_ascii_byte b = Some r -> r < 8.
Proof.
  intros b r. unfold rank_from_ascii_byte.
  match goal with |- context [?x <? 8] => destruct (N.ltb_spec x 8) as [L|L] end;
    [intros [= <-]; exact L | discriminate].
Qed.

(* ---------- piece letters ---------- *)

Ltac eqb_chain :=
  repeat match goal with
  | |- context [?x =? ?y] =>
      destruct (N.eqb_spec x y);
      [subst; cbn [orb]; split; [intros [= <-]; lia | intros ?; f_equal; lia] | cbn [orb]]
  end.

Lemma piece_byte_spec : forall b p,
  piece_from_ascii_byte b = Some p <->
  ((b = 112 \/ b = 80) /\ p = 0) \/ ((b = 110 \/ b = 78) /\ p = 1) \/
  ((b = 98 \/ b = 66) /\ p = 2) \/ ((b = 114 \/ b = 82) /\ p = 3) \/
  ((b = 113 \/ b = 81) /\ p = 4) \/ ((b = 107 \/ b = 75) /\ p = 5).
Proof.
  intros b p. unfold piece_from_ascii_byte. eqb_chain.
  split; [discriminate | lia].
Qed.

Lemma promo_byte_spec : forall b p,
  promo_from_ascii_byte b = Some p <->
  ((b = 110 \/ b = 78) /\ p = 1) \/ ((b = 98 \/ b = 66) /\ p = 2) \/
  ((b = 114 \/ b = 82) /\ p = 3) \/ ((b = 113 \/ b = 81) /\ p = 4).
Proof.
  intros b p. unfold promo_from_ascii_byte. eqb_chain.
  split; [discriminate | lia].
Qed.

(* ---------- accepted sets, byte strings of every length ---------- *)

Lemma accept_file : forall l f, (forall b, In b l -> b < 256) ->
  (file_from_ascii_bytes l = Some f <->
   exists b, l = [b] /\ ((97 <= b <= 104 /\ f = b - 97) \/ (65 <= b <= 72 /\ f = b - 65))).
Proof.
  intros l f Hl. destruct l as [|b [|c t]]; cbn [file_from_ascii_bytes].
  - split; [discriminate | intros (b & [=] & _)].
  - rewrite file_byte_spec by (apply Hl; left; reflexivity).
    split; [intros H; exists b; split; [reflexivity | exact H] | intros (b' & [= <-] & H); exact H].
  - split; [discriminate | intros (b' & [=] & _)].
Qed.

Lemma accept_rank : forall l r, (forall b, In b l -> b < 256) ->
  (rank_from_ascii_bytes l = Some r <-> l = [49 + r] /\ r < 8).
Proof.
  intros l r Hl. destruct l as [|b [|c t]]; cbn [rank_from_ascii_bytes].
  - split; [discriminate | intros ([=] & _)].
  - rewrite rank_byte_spec by (apply Hl; left; reflexivity).
    split; [intros [-> H]; split; [reflexivity | exact H] | intros ([= ->] & H); split; [reflexivity | exact H]].
  - split; [discriminate | intros ([=] & _)].
Qed.

Lemma accept_piece : forall l p,
  piece_from_ascii_bytes l = Some p <->
  exists b, l = [b] /\
    (((b = 112 \/ b = 80) /\ p = 0) \/ ((b = 110 \/ b = 78) /\ p = 1) \/
     ((b = 98 \/ b = 66) /\ p = 2) \/ ((b = 114 \/ b = 82) /\ p = 3) \/
     ((b = 113 \/ b = 81) /\ p = 4) \/ ((b = 107 \/ b = 75) /\ p = 5)).
Proof.
  intros l p. destruct l as [|b [|c t]]; cbn [piece_from_ascii_bytes].
  - split; [discriminate | intros (b & [=] & _)].
  - rewrite piece_byte_spec.
    split; [intros H; exists b; split; [reflexivity | exact H] | intros (b' & [= <-] & H); exact H].
  - split; [discriminate | intros (b' & [=] & _)].
Qed.

Lemma accept_promo : forall l p,
  promo_from_ascii_bytes l = Some p <->
  exists b, l = [b] /\
    (((b = 110 \/ b = 78) /\ p = 1) \/ ((b = 98 \/ b = 66) /\ p = 2) \/
     ((b = 114 \/ b = 82) /\ p = 3) \/ ((b = 113 \/ b = 81) /\ p = 4)).
Proof.
  intros l p. destruct l as [|b [|c t]]; cbn [promo_from_ascii_bytes].
  - split; [discriminate | intros (b & [=] & _)].
  - rewrite promo_byte_spec.
    split; [intros H; exists b; split; [reflexivity | exact H] | intros (b' & [= <-] & H); exact H].
  - split; [discriminate | intros (b' & [=] & _)].
Qed.

Lemma pos_two_bytes_spec : forall fb rb s,
  pos_from_ascii_bytes [fb; rb] = Some s <->
  file_from_ascii_byte fb = Some (s mod 8) /\ rank_from_ascii_byte rb = Some (s / 8) /\ s < 64.
Proof.
  intros fb rb s. cbn [pos_from_ascii_bytes].
  destruct (file_from_ascii_byte fb) as [f|] eqn:Ef.
  - pose proof (file_byte_lt8 _ _ Ef) as Hf.
    destruct (rank_from_ascii_byte rb) as [r|] eqn:Er.
    + pose proof (rank_byte_lt8 _ _ Er) as Hr. unfold pos_new. split.
      * intros [= <-]. repeat split; try (f_equal); lia.
      * intros ([= Hf'] & [= Hr'] & Hs). f_equal. lia.
    + split; [discriminate | intros (_ & [=] & _)].
  - split; [discriminate | intros ([=] & _)].
Qed.

Lemma accept_pos : forall l s,
  pos_from_ascii_bytes l = Some s <->
  exists fb rb, l = [fb; rb] /\
    file_from_ascii_byte fb = Some (s mod 8) /\ rank_from_ascii_byte rb = Some (s / 8) /\ s < 64.
Proof.
  intros l s. destruct l as [|fb [|rb [|c t]]].
  - split; [discriminate | intros (? & ? & [=] & _)].
  - split; [discriminate | intros (? & ? & [=] & _)].
  - rewrite pos_two_bytes_spec. split.
    + intros H; exists fb, rb; split; [reflexivity | exact H].
    + intros (fb' & rb' & [= <- <-] & H); exact H.
  - split; [discriminate | intros (? & ? & [=] & _)].
Qed.

(* the same with the two byte tricks resolved: spellings in plain sight *)
Lemma accept_pos_explicit : forall l s, (forall b, In b l -> b < 256) ->
  (pos_from_ascii_bytes l = Some s <->
   exists fb rb, l = [fb; rb] /\
     ((97 <= fb <= 104 /\ s mod 8 = fb - 97) \/ (65 <= fb <= 72 /\ s mod 8 = fb - 65)) /\
     49 <= rb <= 56 /\ s / 8 = rb - 49 /\ s < 64).
Proof.
  intros l s Hl. rewrite accept_pos. split.
  - intros (fb & rb & -> & Hf & Hr & Hs). exists fb, rb. split; [reflexivity|].
    apply file_byte_spec in Hf; [|apply Hl; cbn; auto].
    apply rank_byte_spec in Hr; [|apply Hl; cbn; auto].
    split; [exact Hf | lia].
  - intros (fb & rb & -> & Hf & Hr1 & Hr2 & Hs). exists fb, rb. split; [reflexivity|].
    split; [apply file_byte_spec; [apply Hl; cbn; auto | exact Hf]|].
    split; [apply rank_byte_spec; [apply Hl; cbn; auto | lia] | exact Hs].
Qed.

Lemma move_of_bytes_spec : forall sf sr df dr a b,
  move_of_bytes sf sr df dr = Some (a, b) <->
  pos_from_ascii_bytes [sf; sr] = Some a /\ pos_from_ascii_bytes [df; dr] = Some b.
Proof.
  intros. unfold move_of_bytes.
  destruct (pos_from_ascii_bytes [sf; sr]) as [x|]; [destruct (pos_from_ascii_bytes [df; dr]) as [y|]|].
  - split; [intros [= <- <-]; split; reflexivity | intros ([= <-] & [= <-]); reflexivity].
  - split; [discriminate | intros (_ & [=])].
  - split; [discriminate | intros ([=] & _)].
Qed.

Lemma accept_move : forall l a b,
  move_from_ascii_bytes l = Some (a, b) <->
  (exists sf sr df dr, l = [sf; sr; df; dr] /\
     pos_from_ascii_bytes [sf; sr] = Some a /\ pos_from_ascii_bytes [df; dr] = Some b) \/
  (exists sf sr df dr, l = [sf; sr; 45; df; dr] /\
     pos_from_ascii_bytes [sf; sr] = Some a /\ pos_from_ascii_bytes [df; dr] = Some b).
Proof.
  intros l a b.
  destruct l as [|b1 [|b2 [|b3 [|b4 [|b5 [|b6 t]]]]]]; cbn [move_from_ascii_bytes].
  1-4, 7: split; [discriminate | intros [(? & ? & ? & ? & [=] & _) | (? & ? & ? & ? & [=] & _)]].
  - rewrite move_of_bytes_spec. split.
    + intros H. left. exists b1, b2, b3, b4. split; [reflexivity | exact H].
    + intros [(? & ? & ? & ? & [= <- <- <- <-] & H) | (? & ? & ? & ? & [=] & _)]. exact H.
  - destruct (N.eqb_spec b3 45) as [-> | Hne].
    + rewrite move_of_bytes_spec. split.
      * intros H. right. exists b1, b2, b4, b5. split; [reflexivity | exact H].
      * intros [(? & ? & ? & ? & [=] & _) | (? & ? & ? & ? & [= <- <- <- <-] & H)]. exact H.
    + split; [discriminate|].
      intros [(? & ? & ? & ? & [=] & _) | (? & ? & ? & ? & [= _ _ E _ _] & _)]. congruence.
Qed.

(* everything else is rejected *)
Lemma reject_others : forall l, (forall b, In b l -> b < 256) ->
  (~ (exists b, l = [b] /\ (97 <= b <= 104 \/ 65 <= b <= 72)) -> file_from_ascii_bytes l = None) /\
  (~ (exists b, l = [b] /\ 49 <= b <= 56) -> rank_from_ascii_bytes l = None) /\
  (~ (exists b, l = [b] /\ In b [112; 80; 110; 78; 98; 66; 114; 82; 113; 81; 107; 75]) ->
     piece_from_ascii_bytes l = None) /\
  (~ (exists b, l = [b] /\ In b [110; 78; 98; 66; 114; 82; 113; 81]) ->
     promo_from_ascii_bytes l = None) /\
  (~ (exists fb rb, l = [fb; rb] /\ (97 <= fb <= 104 \/ 65 <= fb <= 72) /\ 49 <= rb <= 56) ->
     pos_from_ascii_bytes l = None) /\
  (~ (exists sf sr df dr, (l = [sf; sr; df; dr] \/ l = [sf; sr; 45; df; dr]) /\
        pos_from_ascii_bytes [sf; sr] <> None /\ pos_from_ascii_bytes [df; dr] <> None) ->
     move_from_ascii_bytes l = None) /\
  (length l <> 1%nat ->
     file_from_ascii_bytes l = None /\ rank_from_ascii_bytes l = None /\
     piece_from_ascii_bytes l = None /\ promo_from_ascii_bytes l = None) /\
  (length l <> 2%nat -> pos_from_ascii_bytes l = None) /\
  (length l <> 4%nat -> length l <> 5%nat -> move_from_ascii_bytes l = None).
Proof.
  intros l Hl. repeat split.
  - intros H. destruct (file_from_ascii_bytes l) as [f|] eqn:E; [|reflexivity].
    exfalso; apply H. apply (accept_file l f Hl) in E. destruct E as (b & -> & E).
    exists b; split; [reflexivity | lia].
  - intros H. destruct (rank_from_ascii_bytes l) as [r|] eqn:E; [|reflexivity].
    exfalso; apply H. apply (accept_rank l r Hl) in E. destruct E as (-> & E).
    exists (49 + r); split; [reflexivity | lia].
  - intros H. destruct (piece_from_ascii_bytes l) as [p|] eqn:E; [|reflexivity].
    exfalso; apply H. apply accept_piece in E. destruct E as (b & -> & E).
    exists b; split; [reflexivity | cbn [In]; lia].
  - intros H. destruct (promo_from_ascii_bytes l) as [p|] eqn:E; [|reflexivity].
    exfalso; apply H. apply accept_promo in E. destruct E as (b & -> & E).
    exists b; split; [reflexivity | cbn [In]; lia].
  - intros H. destruct (pos_from_ascii_bytes l) as [s|] eqn:E; [|reflexivity].
    exfalso; apply H. apply (accept_pos_explicit l s Hl) in E.
    destruct E as (fb & rb & -> & E1 & E2). exists fb, rb; split; [reflexivity | lia].
  - intros H. destruct (move_from_ascii_bytes l) as [[a b]|] eqn:E; [|reflexivity].
    exfalso; apply H. apply accept_move in E.
    destruct E as [(sf & sr & df & dr & -> & E1 & E2) | (sf & sr & df & dr & -> & E1 & E2)];
      exists sf, sr, df, dr; rewrite E1, E2; (split; [auto | split; discriminate]).
  - destruct l as [|? [|? ?]]; cbn [length] in *; try reflexivity; congruence.
  - destruct l as [|? [|? ?]]; cbn [length] in *; try reflexivity; congruence.
  - destruct l as [|? [|? ?]]; cbn [length] in *; try reflexivity; congruence.
  - destruct l as [|? [|? ?]]; cbn [length] in *; try reflexivity; congruence.
  - destruct l as [|? [|? [|? ?]]]; cbn [length] in *; try reflexivity; congruence.
  - destruct l as [|? [|? [|? [|? [|? [|? ?]]]]]]; cbn [length] in *; try reflexivity; congruence.
Qed.

(* ---------- round trips ---------- *)

Lemma roundtrip_file : forall f, f < 8 -> file_from_ascii_bytes (file_show f) = Some f.
Proof.
  intros f Hf. unfold file_show. apply accept_file.
  - intros b [<- | []]; lia.
  - exists (97 + f). split; [reflexivity | lia].
Qed.

Lemma roundtrip_rank : forall r, r < 8 -> rank_from_ascii_bytes (rank_show r) = Some r.
Proof.
  intros r Hr. unfold rank_show. apply accept_rank.
  - intros b [<- | []]; lia.
  - split; [reflexivity | exact Hr].
Qed.

Lemma pos_show_bytes : forall s, pos_show s = [97 + s mod 8; 49 + s / 8].
Proof. reflexivity. Qed.

Lemma roundtrip_pos : forall s, s < 64 -> pos_from_ascii_bytes (pos_show s) = Some s.
Proof.
  intros s Hs. rewrite pos_show_bytes. apply pos_two_bytes_spec.
  split; [apply file_byte_spec; lia | split; [apply rank_byte_spec; lia | exact Hs]].
Qed.

Lemma move_show_bytes : forall a b,
  move_show (a, b) = [97 + a mod 8; 49 + a / 8; 45; 97 + b mod 8; 49 + b / 8].
Proof. reflexivity. Qed.

Lemma roundtrip_move : forall a b, a < 64 -> b < 64 ->
  move_from_ascii_bytes (move_show (a, b)) = Some (a, b).
Proof.
  intros a b Ha Hb. rewrite move_show_bytes. apply accept_move. right.
  exists (97 + a mod 8), (49 + a / 8), (97 + b mod 8), (49 + b / 8).
  split; [reflexivity|].
  rewrite <- !pos_show_bytes. split; apply roundtrip_pos; assumption.
Qed.

(* the dash-less spelling parses to the same move *)
Lemma roundtrip_move_nodash : forall a b, a < 64 -> b < 64 ->
  move_from_ascii_bytes (pos_show a ++ pos_show b) = Some (a, b).
Proof.
  intros a b Ha Hb. rewrite !pos_show_bytes. cbn [app]. apply accept_move. left.
  exists (97 + a mod 8), (49 + a / 8), (97 + b mod 8), (49 + b / 8).
  split; [reflexivity|].
  rewrite <- !pos_show_bytes. split; apply roundtrip_pos; assumption.
Qed.

Lemma roundtrip_promo : forall p, 1 <= p <= 4 -> promo_from_ascii_bytes (promo_show p) = Some p.
Proof.
  intros p Hp. assert (p = 1 \/ p = 2 \/ p = 3 \/ p = 4) as [-> | [-> | [-> | ->]]] by lia; reflexivity.
Qed.

(* the text of a move that carries a promotion piece is six bytes: the move parser rejects it *)
Lemma promotion_move_text_rejected : forall a b p, 1 <= p <= 4 ->
  move_from_ascii_bytes (move_show_full a b (Some p)) = None.
Proof.
  intros a b p Hp. unfold move_show_full. rewrite move_show_bytes.
  assert (p = 1 \/ p = 2 \/ p = 3 \/ p = 4) as [-> | [-> | [-> | ->]]] by lia; reflexivity.
Qed.

(* ---------- Range<u8> iterators refine a list deque ---------- *)

Lemma range_list_nil : forall lo0 hi0, hi0 <= lo0 -> range_list lo0 hi0 = [].
Proof.
  intros lo0 hi0 H. unfold range_list. replace (hi0 - lo0) with 0 by lia. reflexivity.
Qed.

Lemma range_list_cons : forall lo0 hi0, lo0 < hi0 ->
  range_list lo0 hi0 = lo0 :: range_list (lo0 + 1) hi0.
Proof.
  intros lo0 hi0 H. unfold range_list.
  replace (N.to_nat (hi0 - lo0)) with (S (N.to_nat (hi0 - (lo0 + 1)))) by lia. reflexivity.
Qed.

Lemma nseq_snoc : forall len lo0, nseq lo0 (S len) = nseq lo0 len ++ [lo0 + N.of_nat len].
Proof.
  induction len as [|len IH]; intros lo0.
  - cbn [nseq app]. f_equal. lia.
  - change (nseq lo0 (S (S len))) with (lo0 :: nseq (lo0 + 1) (S len)).
    rewrite IH. cbn [nseq app]. do 2 f_equal. f_equal. lia.
Qed.

Lemma range_list_snoc : forall lo0 hi0, lo0 < hi0 ->
  range_list lo0 hi0 = range_list lo0 (hi0 - 1) ++ [hi0 - 1].
Proof.
  intros lo0 hi0 H. unfold range_list.
  replace (N.to_nat (hi0 - lo0)) with (S (N.to_nat (hi0 - 1 - lo0))) by lia.
  rewrite nseq_snoc. do 2 f_equal. lia.
Qed.

Lemma length_nseq : forall len lo0, length (nseq lo0 len) = len.
Proof. induction len; intros; cbn [nseq length]; [reflexivity | f_equal; apply IHlen]. Qed.

Lemma d_len_range_list : forall lo0 hi0, d_len (range_list lo0 hi0) = hi0 - lo0.
Proof. intros. unfold d_len, range_list. rewrite length_nseq. lia. Qed.

Lemma dropN_0 : forall l, dropN 0 l = l.
Proof. destruct l; reflexivity. Qed.

Lemma dropN_succ : forall n l, dropN (N.succ n) l = dropN n (tl l).
Proof.
  intros n [|x t]; cbn [dropN tl].
  - destruct n; reflexivity.
  - destruct (N.eqb_spec (N.succ n) 0); [lia|]. f_equal. lia.
Qed.

Lemma dropN_range_list : forall n lo0 hi0, dropN n (range_list lo0 hi0) = range_list (lo0 + n) hi0.
Proof.
  induction n as [|n IH] using N.peano_ind; intros lo0 hi0.
  - rewrite dropN_0. f_equal. lia.
  - rewrite dropN_succ. destruct (N.lt_ge_cases lo0 hi0) as [H|H].
    + rewrite (range_list_cons _ _ H). cbn [tl]. rewrite IH. f_equal. lia.
    + rewrite (range_list_nil _ _ H). cbn [tl].
      rewrite range_list_nil by lia. destruct n; reflexivity.
Qed.

Lemma dropN_rev_range_list : forall n lo0 hi0,
  dropN n (rev (range_list lo0 hi0)) = rev (range_list lo0 (hi0 - n)).
Proof.
  induction n as [|n IH] using N.peano_ind; intros lo0 hi0.
  - rewrite dropN_0. do 2 f_equal. lia.
  - rewrite dropN_succ. destruct (N.lt_ge_cases lo0 hi0) as [H|H].
    + rewrite (range_list_snoc _ _ H). rewrite rev_app_distr. cbn [rev app tl].
      rewrite IH. do 2 f_equal. lia.
    + rewrite (range_list_nil _ _ H). cbn [rev tl].
      rewrite range_list_nil by lia. destruct n; reflexivity.
Qed.

Definition inv (r : range) : Prop := lo r <= hi r /\ hi r <= 255.
Definition absr (r : range) : list N := range_list (lo r) (hi r).

Lemma step_refines : forall op r o r', inv r -> r_step op r = (o, r') ->
  d_step op (absr r) = (o, absr r') /\ inv r' /\ hi r' <= hi r /\
  (op <> ISizeHint -> forall v, o = Some v -> v < hi r).
Proof.
  intros op [l h] o r' [Hlh Hh]. unfold absr. cbn [lo hi] in *.
  destruct op as [| |n|n|]; cbn [r_step d_step].
  - (* next *)
    unfold r_next, d_next. cbn [lo hi].
    destruct (N.ltb_spec l h) as [L|L]; intros [= <- <-]; cbn [lo hi].
    + rewrite (range_list_cons _ _ L). unfold inv; cbn [lo hi].
      repeat split; try lia. intros _ v [= <-]. exact L.
    + rewrite (range_list_nil _ _ L). unfold inv; cbn [lo hi].
      repeat split; try lia. intros _ v [=].
  - (* next_back *)
    unfold r_next_back, d_next_back, d_next. cbn [lo hi].
    destruct (N.ltb_spec l h) as [L|L]; intros [= <- <-]; cbn [lo hi].
    + rewrite (range_list_snoc _ _ L), rev_app_distr. cbn [rev app].
      rewrite rev_involutive. unfold inv; cbn [lo hi].
      repeat split; try lia. intros _ v [= <-]. lia.
    + rewrite (range_list_nil _ _ L). cbn [rev]. unfold inv; cbn [lo hi].
      repeat split; try lia. intros _ v [=].
  - (* nth *)
    unfold r_nth, d_nth, forward_checked. cbn [lo hi]. rewrite dropN_range_list.
    destruct (N.leb_spec n 255) as [N1|N1]; [destruct (N.leb_spec (l + n) 255) as [N2|N2];
      [destruct (N.ltb_spec (l + n) h) as [N3|N3]|]|];
      intros [= <- <-]; cbn [lo hi]; unfold inv; cbn [lo hi].
    + rewrite (range_list_cons _ _ N3). cbn [d_next].
      repeat split; try lia. intros _ v [= <-]. exact N3.
    + rewrite (range_list_nil (l + n) h) by lia. rewrite (range_list_nil h h) by lia. cbn [d_next].
      repeat split; try lia. intros _ v [=].
    + rewrite (range_list_nil (l + n) h) by lia. rewrite (range_list_nil h h) by lia. cbn [d_next].
      repeat split; try lia. intros _ v [=].
    + rewrite (range_list_nil (l + n) h) by lia. rewrite (range_list_nil h h) by lia. cbn [d_next].
      repeat split; try lia. intros _ v [=].
  - (* nth_back *)
    unfold r_nth_back, d_nth_back, d_nth, backward_checked. cbn [lo hi].
    rewrite dropN_rev_range_list.
    destruct (N.leb_spec n 255) as [N1|N1]; [destruct (N.leb_spec n h) as [N2|N2];
      [destruct (N.ltb_spec l (h - n)) as [N3|N3]|]|];
      intros [= <- <-]; cbn [lo hi]; unfold inv; cbn [lo hi].
    + rewrite (range_list_snoc _ _ N3), rev_app_distr. cbn [rev app d_next].
      rewrite rev_involutive. repeat split; try lia. intros _ v [= <-]. lia.
    + rewrite (range_list_nil l (h - n)) by lia. rewrite (range_list_nil l l) by lia. cbn [rev d_next].
      repeat split; try lia. intros _ v [=].
    + rewrite (range_list_nil l (h - n)) by lia. rewrite (range_list_nil l l) by lia. cbn [rev d_next].
      repeat split; try lia. intros _ v [=].
    + rewrite (range_list_nil l (h - n)) by lia. rewrite (range_list_nil l l) by lia. cbn [rev d_next].
      repeat split; try lia. intros _ v [=].
  - (* size_hint *)
    intros [= <- <-]. cbn [lo hi]. rewrite d_len_range_list. unfold r_size_hint. cbn [lo hi].
    unfold inv; cbn [lo hi].
    destruct (N.ltb_spec l h); cbn [fst]; repeat split; try lia; try congruence.
    f_equal. f_equal. lia.
Qed.

Lemma size_hint_exact : forall r,
  r_size_hint r = (hi r - lo r, Some (hi r - lo r)).
Proof.
  intros [l h]. unfold r_size_hint. cbn [lo hi].
  destruct (N.ltb_spec l h); [reflexivity|]. replace (h - l) with 0 by lia. reflexivity.
Qed.

Lemma run_range_refines : forall ops r, inv r -> run_range r ops = run_deque (absr r) ops.
Proof.
  induction ops as [|op t IH]; intros r Hr; [reflexivity|].
  cbn [run_range run_deque].
  destruct (r_step op r) as [o r'] eqn:E.
  destruct (step_refines op r o r' Hr E) as (Hd & Hr' & _).
  rewrite Hd. f_equal. apply IH. exact Hr'.
Qed.

(* from_u8 never fails on an item the range yields: unwrap / unwrap_unchecked are never reached with None *)
Lemma it_step_eq : forall k op r, inv r -> hi r <= k -> it_step k op r = r_step op r.
Proof.
  intros k op r Hr Hk.
  destruct (r_step op r) as [o r'] eqn:E.
  destruct (step_refines op r o r' Hr E) as (_ & _ & _ & Hv).
  destruct op; cbn [it_step].
  5: (rewrite <- E; reflexivity).
  all: rewrite E; destruct o as [v|]; [|reflexivity];
    (assert (Hlt : v < hi r) by (apply Hv; [discriminate | reflexivity]));
    unfold enum_from_u8; destruct (N.ltb_spec v k); [reflexivity | lia].
Qed.

Lemma run_it_eq : forall k ops r, inv r -> hi r <= k -> run_it k r ops = run_range r ops.
Proof.
  induction ops as [|op t IH]; intros r Hr Hk; [reflexivity|].
  cbn [run_it run_range]. rewrite (it_step_eq k op r Hr Hk).
  destruct (r_step op r) as [o r'] eqn:E.
  destruct (step_refines op r o r' Hr E) as (_ & Hr' & Hh & _).
  f_equal. apply IH; [exact Hr' | lia].
Qed.

Lemma iter_refines_deque : forall k ops, k <= 255 ->
  run_iter k ops = run_deque (range_list 0 k) ops /\
  run_range (mk_range 0 k) ops = run_deque (range_list 0 k) ops.
Proof.
  intros k ops Hk.
  assert (Hr : inv (mk_range 0 k)) by (unfold inv; cbn [lo hi]; lia).
  split.
  - unfold run_iter. rewrite run_it_eq; [|exact Hr | cbn [hi]; lia].
    exact (run_range_refines ops _ Hr).
  - exact (run_range_refines ops _ Hr).
Qed.

(* AllPosIter *)
Lemma allpos_refines_from : forall ops p, p <= 64 -> fwd_only ops = true ->
  run_allpos_from p ops = run_deque (range_list p 64) ops.
Proof.
  induction ops as [|op t IH]; intros p Hp Hf; [reflexivity|].
  unfold fwd_only in Hf. cbn [forallb] in Hf. apply andb_true_iff in Hf. destruct Hf as [Hop Ht].
  cbn [run_allpos_from run_deque].
  destruct op; try discriminate; cbn [allpos_step d_step].
  - unfold allpos_next, pos_from_u8, d_next.
    destruct (N.ltb_spec p 64) as [L|L].
    + rewrite (range_list_cons _ _ L). f_equal. apply IH; [lia | exact Ht].
    + rewrite (range_list_nil _ _ L). f_equal.
      rewrite <- (range_list_nil p 64 L). apply IH; [lia | exact Ht].
  - rewrite d_len_range_list. unfold allpos_size_hint. f_equal. apply IH; [lia | exact Ht].
Qed.

Lemma allpos_refines_deque : forall ops, fwd_only ops = true ->
  run_allpos ops = run_deque (range_list 0 64) ops.
Proof. intros ops H. apply allpos_refines_from; [lia | exact H]. Qed.

(* FileIter / RankIter: the inner 0..8 iterator mapped through Pos::new *)
Lemma file_rank_iter_next : forall x r, lo r <= hi r -> hi r <= 8 ->
  file_iter_next x r =
    (if lo r <? hi r then (Some (pos_new x (lo r)), mk_range (lo r + 1) (hi r)) else (None, r)) /\
  rank_iter_next x r =
    (if lo r <? hi r then (Some (pos_new (lo r) x), mk_range (lo r + 1) (hi r)) else (None, r)).
Proof.
  intros x [l h] H1 H2. cbn [lo hi] in *.
  unfold file_iter_next, rank_iter_next, it_step, r_step, r_next. cbn [lo hi].
  destruct (N.ltb_spec l h) as [L|L]; [|split; reflexivity].
  unfold enum_from_u8. destruct (N.ltb_spec l 8); [split; reflexivity | lia].
Qed.

(* the concrete index lists the five enumerating iterators and AllPosIter walk over *)
Lemma range_lists_concrete :
  range_list 0 2 = [0; 1] /\ range_list 0 6 = [0; 1; 2; 3; 4; 5] /\
  range_list 0 8 = [0; 1; 2; 3; 4; 5; 6; 7] /\ length (range_list 0 64) = 64%nat.
Proof. repeat split. Qed.
