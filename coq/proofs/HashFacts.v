(* C04 (incremental part): the piece hash kept in the board (`b_zob`, updated by Board::xor, the FEN
   placement loop and the builder) equals the hash recomputed from scratch over the 64 squares, for every
   board that satisfies the placement invariant `Part`; hence boards that compare equal hash equal.
   Axiom-free.  The zobrist keys stay opaque throughout (only the xor algebra is used). *)
From Coq Require Import NArith List Bool Lia ZifyBool ZifyN Sorted.
From Chess Require Import base.Bits base.Types base.BitBoard geom.Geometry model.Board model.Fen model.MoveGen model.Apply.
From Chess Require Import proofs.BitsFacts proofs.BitBoardFacts proofs.ZobristFacts proofs.FenFacts.
Import ListNotations.
Local Open Scope N_scope.

Opaque zkey zkey_turn zkey_castle zkey_ep.

(* copy of the definition in props/C04.v *)
Definition scratch_piece_hash (b : board) : N :=
  fold_left (fun z s => match raw_get b s with Some (c, p) => N.lxor z (zkey s p c) | None => z end) sq_list 0.

(* ------------------------------------------------------------------ *)
(** * The placement invariant *)

Definition piece_union (b : board) : N :=
  bb_or (bb_or (bb_or (bb_or (bb_or (b_pawn b) (b_knight b)) (b_bishop b)) (b_rook b)) (b_queen b)) (b_king b).

Record Part (b : board) : Prop := {
  part_wf_colors : forall c, wf64 (colors b c);
  part_wf_pieces : forall p, wf64 (pieces b p);
  part_wf_pinned : wf64 (b_pinned b);
  part_wf_checkers : wf64 (b_checkers b);
  part_colors_disjoint : bb_and (b_white b) (b_black b) = 0;
  part_pieces_disjoint : forall p q, p <> q -> bb_and (pieces b p) (pieces b q) = 0;
  part_cover : piece_union b = all_occ b }.

(* ------------------------------------------------------------------ *)
(** * One square, as eight booleans *)

(* raw_get on the membership bits of one square *)
Definition cellb (w k pa kn bi ro qu ki : bool) : option (color * piece) :=
  match (if w then Some White else if k then Some Black else None) with
  | Some c => Some (c, if (pa || kn) || bi then (if pa then Pawn else if kn then Knight else Bishop)
                       else if ro then Rook else if qu then Queen else King)
  | None => None
  end.
(* the invariant on one square *)
Definition okb (w k pa kn bi ro qu ki : bool) : bool :=
  negb (w && k)
  && negb (pa && kn) && negb (pa && bi) && negb (pa && ro) && negb (pa && qu) && negb (pa && ki)
  && negb (kn && bi) && negb (kn && ro) && negb (kn && qu) && negb (kn && ki)
  && negb (bi && ro) && negb (bi && qu) && negb (bi && ki)
  && negb (ro && qu) && negb (ro && ki) && negb (qu && ki)
  && eqb (((((pa || kn) || bi) || ro) || qu) || ki) (w || k).
Definition colb (c : color) (w k : bool) : bool := match c with White => w | Black => k end.
Definition pcb (p : piece) (pa kn bi ro qu ki : bool) : bool :=
  match p with Pawn => pa | Knight => kn | Bishop => bi | Rook => ro | Queen => qu | King => ki end.
Definition isc (c c' : color) : bool := color_eqb c c'.
Definition isp (p p' : piece) : bool := piece_eqb p p'.

Definition cell_at (b : board) (s : N) : option (color * piece) :=
  cellb (mem (b_white b) s) (mem (b_black b) s) (mem (b_pawn b) s) (mem (b_knight b) s)
        (mem (b_bishop b) s) (mem (b_rook b) s) (mem (b_queen b) s) (mem (b_king b) s).
Definition ok_at (b : board) (s : N) : bool :=
  okb (mem (b_white b) s) (mem (b_black b) s) (mem (b_pawn b) s) (mem (b_knight b) s)
      (mem (b_bishop b) s) (mem (b_rook b) s) (mem (b_queen b) s) (mem (b_king b) s).

Lemma raw_get_cell : forall b s, s < 64 -> raw_get b s = cell_at b s.
Proof.
  intros b s Hs. unfold raw_get, color_of, piece_of_unchecked, cell_at, cellb.
  rewrite !contains_spec by exact Hs. rewrite !mem_or. reflexivity.
Qed.

Lemma cellb_spec : forall w k pa kn bi ro qu ki, okb w k pa kn bi ro qu ki = true ->
  (forall c p, cellb w k pa kn bi ro qu ki = Some (c, p) <-> colb c w k = true /\ pcb p pa kn bi ro qu ki = true)
  /\ (cellb w k pa kn bi ro qu ki = None <-> w || k = false).
Proof.
  intros w k pa kn bi ro qu ki H.
  destruct w, k, pa, kn, bi, ro, qu, ki; try discriminate H; clear H;
    (split; [intros [] []; cbn; (split; [intros E; try discriminate E; split; reflexivity | intros [E1 E2]; try discriminate E1; try discriminate E2; reflexivity])
            | cbn; split; intros E; try discriminate E; reflexivity]).
Qed.

(* toggling the man (c,p) on a square that holds exactly (c,p) or nothing *)
Definition togw (c : color) (dm w : bool) : bool := xorb w (isc c White && dm).
Definition togk (c : color) (dm k : bool) : bool := xorb k (isc c Black && dm).
Definition togp (p q : piece) (dm x : bool) : bool := xorb x (isp p q && dm).

Lemma toggle_bools : forall c p w k pa kn bi ro qu ki, okb w k pa kn bi ro qu ki = true ->
  (cellb w k pa kn bi ro qu ki = Some (c, p) \/ cellb w k pa kn bi ro qu ki = None) ->
  okb (togw c true w) (togk c true k) (togp p Pawn true pa) (togp p Knight true kn) (togp p Bishop true bi)
      (togp p Rook true ro) (togp p Queen true qu) (togp p King true ki) = true
  /\ cellb (togw c true w) (togk c true k) (togp p Pawn true pa) (togp p Knight true kn) (togp p Bishop true bi)
           (togp p Rook true ro) (togp p Queen true qu) (togp p King true ki)
     = match cellb w k pa kn bi ro qu ki with Some _ => None | None => Some (c, p) end.
Proof.
  intros c p w k pa kn bi ro qu ki H.
  destruct w, k, pa, kn, bi, ro, qu, ki; try discriminate H; clear H;
    destruct c, p; cbn; intros [E|E]; try discriminate E; split; reflexivity.
Qed.

Lemma toggle_bools_off : forall c p w k pa kn bi ro qu ki,
  togw c false w = w /\ togk c false k = k /\ togp p Pawn false pa = pa /\ togp p Knight false kn = kn /\
  togp p Bishop false bi = bi /\ togp p Rook false ro = ro /\ togp p Queen false qu = qu /\ togp p King false ki = ki.
Proof.
  intros. unfold togw, togk, togp. rewrite !andb_false_r, !xorb_false_r. repeat split.
Qed.

(* ------------------------------------------------------------------ *)
(** * Part, square by square *)

Lemma mem_and0 : forall a b s, bb_and a b = 0 -> mem a s && mem b s = false.
Proof. intros a b s H. rewrite <- mem_and, H. apply mem_0. Qed.

Lemma Part_ok_at : forall b, Part b -> forall s, ok_at b s = true.
Proof.
  intros b P s. unfold ok_at, okb.
  pose proof (mem_and0 _ _ s (part_colors_disjoint b P)) as Hc.
  assert (Hd : forall p q, p <> q -> mem (pieces b p) s && mem (pieces b q) s = false)
    by (intros p q Hpq; apply mem_and0, (part_pieces_disjoint b P), Hpq).
  assert (Hu : mem (piece_union b) s = mem (all_occ b) s) by (rewrite (part_cover b P); reflexivity).
  unfold piece_union, all_occ in Hu. rewrite !mem_or in Hu.
  rewrite Hc, Hu, eqb_reflx.
  pose proof (Hd Pawn Knight ltac:(discriminate)) as D1. pose proof (Hd Pawn Bishop ltac:(discriminate)) as D2.
  pose proof (Hd Pawn Rook ltac:(discriminate)) as D3. pose proof (Hd Pawn Queen ltac:(discriminate)) as D4.
  pose proof (Hd Pawn King ltac:(discriminate)) as D5. pose proof (Hd Knight Bishop ltac:(discriminate)) as D6.
  pose proof (Hd Knight Rook ltac:(discriminate)) as D7. pose proof (Hd Knight Queen ltac:(discriminate)) as D8.
  pose proof (Hd Knight King ltac:(discriminate)) as D9. pose proof (Hd Bishop Rook ltac:(discriminate)) as D10.
  pose proof (Hd Bishop Queen ltac:(discriminate)) as D11. pose proof (Hd Bishop King ltac:(discriminate)) as D12.
  pose proof (Hd Rook Queen ltac:(discriminate)) as D13. pose proof (Hd Rook King ltac:(discriminate)) as D14.
  pose proof (Hd Queen King ltac:(discriminate)) as D15.
  cbn [pieces] in D1, D2, D3, D4, D5, D6, D7, D8, D9, D10, D11, D12, D13, D14, D15.
  rewrite D1, D2, D3, D4, D5, D6, D7, D8, D9, D10, D11, D12, D13, D14, D15.
  reflexivity.
Qed.

Lemma okb_facts : forall w k pa kn bi ro qu ki, okb w k pa kn bi ro qu ki = true ->
  w && k = false
  /\ (forall p q, p <> q -> pcb p pa kn bi ro qu ki && pcb q pa kn bi ro qu ki = false)
  /\ (((((pa || kn) || bi) || ro) || qu) || ki) = (w || k).
Proof.
  intros w k pa kn bi ro qu ki H.
  destruct w, k, pa, kn, bi, ro, qu, ki; try discriminate H; clear H;
    (split; [reflexivity|split; [|reflexivity]]);
    intros [] [] Hpq; try reflexivity; exfalso; apply Hpq; reflexivity.
Qed.

Lemma pieces_pcb : forall b p s,
  mem (pieces b p) s = pcb p (mem (b_pawn b) s) (mem (b_knight b) s) (mem (b_bishop b) s)
                             (mem (b_rook b) s) (mem (b_queen b) s) (mem (b_king b) s).
Proof. intros b [] s; reflexivity. Qed.
Lemma colors_colb : forall b c s, mem (colors b c) s = colb c (mem (b_white b) s) (mem (b_black b) s).
Proof. intros b [] s; reflexivity. Qed.

Lemma Part_intro : forall b,
  (forall c, wf64 (colors b c)) -> (forall p, wf64 (pieces b p)) -> wf64 (b_pinned b) -> wf64 (b_checkers b) ->
  (forall s, s < 64 -> ok_at b s = true) -> Part b.
Proof.
  intros b Wc Wp Wpin Wchk Hok.
  assert (F : forall s, s < 64 ->
     mem (b_white b) s && mem (b_black b) s = false
     /\ (forall p q, p <> q -> mem (pieces b p) s && mem (pieces b q) s = false)
     /\ mem (piece_union b) s = mem (all_occ b) s).
  { intros s Hs. specialize (Hok s Hs). unfold ok_at in Hok. apply okb_facts in Hok.
    destruct Hok as (H1 & H2 & H3). split; [exact H1|split].
    - intros p q Hpq. rewrite !pieces_pcb. apply H2, Hpq.
    - unfold piece_union, all_occ. rewrite !mem_or. exact H3. }
  constructor; try assumption.
  - apply ext64; [apply wf64_and; [apply (Wc White)|apply (Wc Black)]|apply wf64_0|].
    intros s Hs. rewrite mem_and, mem_0. apply (F s Hs).
  - intros p q Hpq. apply ext64; [apply wf64_and; apply Wp|apply wf64_0|].
    intros s Hs. rewrite mem_and, mem_0. apply (F s Hs), Hpq.
  - apply ext64.
    + unfold piece_union. repeat apply wf64_or; first [apply (Wp Pawn)|apply (Wp Knight)|apply (Wp Bishop)|apply (Wp Rook)|apply (Wp Queen)|apply (Wp King)].
    + unfold all_occ. apply wf64_or; [apply (Wc White)|apply (Wc Black)].
    + intros s Hs. apply (F s Hs).
Qed.

(* ------------------------------------------------------------------ *)
(** * 1. raw_get under Part *)

Theorem raw_get_spec : forall b, Part b -> forall s, s < 64 ->
  (forall c p, raw_get b s = Some (c, p) <-> mem (colors b c) s = true /\ mem (pieces b p) s = true)
  /\ (raw_get b s = None <-> mem (all_occ b) s = false).
Proof.
  intros b P s Hs. rewrite (raw_get_cell b s Hs).
  pose proof (cellb_spec _ _ _ _ _ _ _ _ (Part_ok_at b P s)) as [H1 H2]. split.
  - intros c p. rewrite pieces_pcb, colors_colb. apply H1.
  - unfold all_occ. rewrite mem_or. apply H2.
Qed.

(* a man is never on two squares' worth of sets: at most one colour and one piece per square *)
Corollary raw_get_unique : forall b, Part b -> forall s c p c' p', s < 64 ->
  mem (colors b c) s = true -> mem (pieces b p) s = true ->
  mem (colors b c') s = true -> mem (pieces b p') s = true -> c = c' /\ p = p'.
Proof.
  intros b P s c p c' p' Hs H1 H2 H3 H4.
  destruct (raw_get_spec b P s Hs) as [H _].
  pose proof (proj2 (H c p) (conj H1 H2)) as E1. pose proof (proj2 (H c' p') (conj H3 H4)) as E2.
  rewrite E1 in E2. injection E2 as -> ->. split; reflexivity.
Qed.

(* ------------------------------------------------------------------ *)
(** * raw_xor field by field *)

Lemma raw_xor_white : forall b c p d, b_white (raw_xor b c p d) = match c with White => bb_xor (b_white b) d | Black => b_white b end.
Proof. intros b [] p d; reflexivity. Qed.
Lemma raw_xor_black : forall b c p d, b_black (raw_xor b c p d) = match c with Black => bb_xor (b_black b) d | White => b_black b end.
Proof. intros b [] p d; reflexivity. Qed.
Lemma raw_xor_pieces : forall b c p d q,
  pieces (raw_xor b c p d) q = if piece_eqb p q then bb_xor (pieces b p) d else pieces b q.
Proof. intros b [] p d []; reflexivity. Qed.
Lemma raw_xor_colors : forall b c p d c',
  colors (raw_xor b c p d) c' = if color_eqb c c' then bb_xor (colors b c) d else colors b c'.
Proof. intros b [] p d []; reflexivity. Qed.
Lemma raw_xor_meta : forall b c p d,
  b_zob (raw_xor b c p d) = b_zob b /\ b_turn (raw_xor b c p d) = b_turn b /\ b_rights (raw_xor b c p d) = b_rights b
  /\ b_ep (raw_xor b c p d) = b_ep b /\ b_half (raw_xor b c p d) = b_half b /\ b_full (raw_xor b c p d) = b_full b
  /\ b_pinned (raw_xor b c p d) = b_pinned b /\ b_checkers (raw_xor b c p d) = b_checkers b.
Proof. intros b [] p d; repeat split. Qed.

Lemma mem_raw_xor_white : forall b c p d s, mem (b_white (raw_xor b c p d)) s = togw c (mem d s) (mem (b_white b) s).
Proof. intros b [] p d s; rewrite raw_xor_white; unfold togw, isc; cbn [color_eqb andb]; rewrite ?mem_xor, ?xorb_false_r; reflexivity. Qed.
Lemma mem_raw_xor_black : forall b c p d s, mem (b_black (raw_xor b c p d)) s = togk c (mem d s) (mem (b_black b) s).
Proof. intros b [] p d s; rewrite raw_xor_black; unfold togk, isc; cbn [color_eqb andb]; rewrite ?mem_xor, ?xorb_false_r; reflexivity. Qed.
Lemma mem_raw_xor_pieces : forall b c p d q s, mem (pieces (raw_xor b c p d) q) s = togp p q (mem d s) (mem (pieces b q) s).
Proof.
  intros b c p d q s. rewrite raw_xor_pieces. unfold togp, isp.
  destruct p, q; cbn [piece_eqb piece_idx N.eqb Pos.eqb andb]; rewrite ?mem_xor, ?xorb_false_r; reflexivity.
Qed.

Lemma cell_at_raw_xor : forall b c p d s,
  cell_at (raw_xor b c p d) s =
  cellb (togw c (mem d s) (mem (b_white b) s)) (togk c (mem d s) (mem (b_black b) s))
        (togp p Pawn (mem d s) (mem (b_pawn b) s)) (togp p Knight (mem d s) (mem (b_knight b) s))
        (togp p Bishop (mem d s) (mem (b_bishop b) s)) (togp p Rook (mem d s) (mem (b_rook b) s))
        (togp p Queen (mem d s) (mem (b_queen b) s)) (togp p King (mem d s) (mem (b_king b) s)).
Proof.
  intros b c p d s. unfold cell_at. rewrite mem_raw_xor_white, mem_raw_xor_black.
  rewrite <- (mem_raw_xor_pieces b c p d Pawn), <- (mem_raw_xor_pieces b c p d Knight),
          <- (mem_raw_xor_pieces b c p d Bishop), <- (mem_raw_xor_pieces b c p d Rook),
          <- (mem_raw_xor_pieces b c p d Queen), <- (mem_raw_xor_pieces b c p d King).
  reflexivity.
Qed.
Lemma ok_at_raw_xor : forall b c p d s,
  ok_at (raw_xor b c p d) s =
  okb (togw c (mem d s) (mem (b_white b) s)) (togk c (mem d s) (mem (b_black b) s))
      (togp p Pawn (mem d s) (mem (b_pawn b) s)) (togp p Knight (mem d s) (mem (b_knight b) s))
      (togp p Bishop (mem d s) (mem (b_bishop b) s)) (togp p Rook (mem d s) (mem (b_rook b) s))
      (togp p Queen (mem d s) (mem (b_queen b) s)) (togp p King (mem d s) (mem (b_king b) s)).
Proof.
  intros b c p d s. unfold ok_at. rewrite mem_raw_xor_white, mem_raw_xor_black.
  rewrite <- (mem_raw_xor_pieces b c p d Pawn), <- (mem_raw_xor_pieces b c p d Knight),
          <- (mem_raw_xor_pieces b c p d Bishop), <- (mem_raw_xor_pieces b c p d Rook),
          <- (mem_raw_xor_pieces b c p d Queen), <- (mem_raw_xor_pieces b c p d King).
  reflexivity.
Qed.

(* the toggle condition of Board::xor: every toggled square holds exactly the man (c,p) or nothing *)
Definition toggle_ok (b : board) (c : color) (p : piece) (d : N) : Prop :=
  forall s, s < 64 -> mem d s = true -> raw_get b s = Some (c, p) \/ raw_get b s = None.

(* what raw_xor does to one square *)
Lemma raw_get_raw_xor : forall b c p d, Part b -> toggle_ok b c p d -> forall s, s < 64 ->
  raw_get (raw_xor b c p d) s =
  if mem d s then match raw_get b s with Some _ => None | None => Some (c, p) end else raw_get b s.
Proof.
  intros b c p d P T s Hs. rewrite !raw_get_cell by exact Hs. rewrite cell_at_raw_xor.
  destruct (mem d s) eqn:Ed.
  - specialize (T s Hs Ed). rewrite (raw_get_cell b s Hs) in T.
    exact (proj2 (toggle_bools c p _ _ _ _ _ _ _ _ (Part_ok_at b P s) T)).
  - destruct (toggle_bools_off c p (mem (b_white b) s) (mem (b_black b) s) (mem (b_pawn b) s) (mem (b_knight b) s)
                (mem (b_bishop b) s) (mem (b_rook b) s) (mem (b_queen b) s) (mem (b_king b) s))
      as (E1 & E2 & E3 & E4 & E5 & E6 & E7 & E8).
    rewrite E1, E2, E3, E4, E5, E6, E7, E8. reflexivity.
Qed.

(* raw_xor keeps the invariant (so the `Part (raw_xor ...)` hypothesis below can always be discharged) *)
Theorem Part_raw_xor : forall b c p d, Part b -> wf64 d -> toggle_ok b c p d -> Part (raw_xor b c p d).
Proof.
  intros b c p d P Wd T.
  destruct (raw_xor_meta b c p d) as (_ & _ & _ & _ & _ & _ & Epin & Echk).
  apply Part_intro.
  - intros c'. rewrite raw_xor_colors. destruct (color_eqb c c'); [apply wf64_xor; [apply (part_wf_colors b P)|exact Wd]|apply (part_wf_colors b P)].
  - intros q. rewrite raw_xor_pieces. destruct (piece_eqb p q); [apply wf64_xor; [apply (part_wf_pieces b P)|exact Wd]|apply (part_wf_pieces b P)].
  - rewrite Epin. apply (part_wf_pinned b P).
  - rewrite Echk. apply (part_wf_checkers b P).
  - intros s Hs. rewrite ok_at_raw_xor. destruct (mem d s) eqn:Ed.
    + specialize (T s Hs Ed). rewrite (raw_get_cell b s Hs) in T.
      exact (proj1 (toggle_bools c p _ _ _ _ _ _ _ _ (Part_ok_at b P s) T)).
    + destruct (toggle_bools_off c p (mem (b_white b) s) (mem (b_black b) s) (mem (b_pawn b) s) (mem (b_knight b) s)
                  (mem (b_bishop b) s) (mem (b_rook b) s) (mem (b_queen b) s) (mem (b_king b) s))
        as (E1 & E2 & E3 & E4 & E5 & E6 & E7 & E8).
      rewrite E1, E2, E3, E4, E5, E6, E7, E8. apply (Part_ok_at b P s).
Qed.

(* ------------------------------------------------------------------ *)
(** * xor sums over lists of squares *)

Fixpoint xsum (f : N -> N) (l : list N) : N :=
  match l with [] => 0 | s :: r => N.lxor (f s) (xsum f r) end.

Lemma lxor_swap4 : forall a b c d, N.lxor (N.lxor a b) (N.lxor c d) = N.lxor (N.lxor a c) (N.lxor b d).
Proof.
  intros a b c d. rewrite !N.lxor_assoc. f_equal. rewrite <- !N.lxor_assoc. f_equal. apply N.lxor_comm.
Qed.

Lemma xsum_ext : forall f g l, (forall s, In s l -> f s = g s) -> xsum f l = xsum g l.
Proof.
  intros f g l. induction l as [|a l IH]; intros H; [reflexivity|].
  cbn [xsum]. rewrite (H a (or_introl eq_refl)), IH by (intros s Hs; apply H; right; exact Hs). reflexivity.
Qed.
Lemma xsum_lxor : forall f g l, xsum (fun s => N.lxor (f s) (g s)) l = N.lxor (xsum f l) (xsum g l).
Proof.
  intros f g l. induction l as [|a l IH]; [reflexivity|].
  cbn [xsum]. rewrite IH. apply lxor_swap4.
Qed.
Lemma xsum_filter : forall (t : N -> bool) k l, xsum (fun s => if t s then k s else 0) l = xsum k (filter t l).
Proof.
  intros t k l. induction l as [|a l IH]; [reflexivity|].
  cbn [xsum filter]. rewrite IH. destruct (t a); [reflexivity|apply N.lxor_0_l].
Qed.
Lemma xsum_app : forall f l1 l2, xsum f (l1 ++ l2) = N.lxor (xsum f l1) (xsum f l2).
Proof.
  intros f l1 l2. induction l1 as [|a l IH]; [cbn [app xsum]; symmetry; apply N.lxor_0_l|].
  cbn [app xsum]. rewrite IH, N.lxor_assoc. reflexivity.
Qed.
Lemma fold_keys : forall (k : N -> N) l z, fold_left (fun z s => N.lxor z (k s)) l z = N.lxor z (xsum k l).
Proof.
  intros k l. induction l as [|a l IH]; intros z; cbn [fold_left xsum]; [symmetry; apply N.lxor_0_r|].
  rewrite IH, N.lxor_assoc. reflexivity.
Qed.

(* contribution of one square to the from-scratch hash *)
Definition contrib (b : board) (s : N) : N :=
  match raw_get b s with Some (c, p) => zkey s p c | None => 0 end.

Lemma fold_contrib : forall b l z,
  fold_left (fun z s => match raw_get b s with Some (c, p) => N.lxor z (zkey s p c) | None => z end) l z
  = N.lxor z (xsum (contrib b) l).
Proof.
  intros b l. induction l as [|a l IH]; intros z; cbn [fold_left xsum]; [symmetry; apply N.lxor_0_r|].
  rewrite IH. unfold contrib at 2. destruct (raw_get b a) as [[c p]|].
  - rewrite N.lxor_assoc. reflexivity.
  - rewrite N.lxor_0_l. reflexivity.
Qed.

Lemma scratch_xsum : forall b, scratch_piece_hash b = xsum (contrib b) sq_list.
Proof. intros b. unfold scratch_piece_hash. rewrite fold_contrib. apply N.lxor_0_l. Qed.

(* the from-scratch hash only reads the placement *)
Lemma scratch_ext : forall a b, (forall s, s < 64 -> raw_get a s = raw_get b s) -> scratch_piece_hash a = scratch_piece_hash b.
Proof.
  intros a b H. rewrite !scratch_xsum. apply xsum_ext. intros s Hs. apply In_sq_list in Hs.
  unfold contrib. rewrite (H s Hs). reflexivity.
Qed.

(* ------------------------------------------------------------------ *)
(** * 2. toggling squares toggles exactly their keys *)

Theorem scratch_toggle_gen : forall b c p d, Part b -> toggle_ok b c p d ->
  scratch_piece_hash (raw_xor b c p d)
  = fold_left (fun z s => N.lxor z (zkey s p c)) (elements d) (scratch_piece_hash b).
Proof.
  intros b c p d P T. rewrite fold_keys, !scratch_xsum.
  unfold elements. rewrite <- (xsum_filter (fun s => N.testbit d s) (fun s => zkey s p c) sq_list).
  rewrite <- xsum_lxor. apply xsum_ext. intros s Hs. apply In_sq_list in Hs.
  unfold contrib. rewrite (raw_get_raw_xor b c p d P T s Hs). change (N.testbit d s) with (mem d s).
  destruct (mem d s) eqn:Ed.
  - destruct (T s Hs Ed) as [E|E]; rewrite E.
    + symmetry. apply N.lxor_nilpotent.
    + symmetry. apply N.lxor_0_l.
  - symmetry. apply N.lxor_0_r.
Qed.

(* the statement as requested (the wf64 and Part-after hypotheses are not needed, see scratch_toggle_gen) *)
Theorem scratch_toggle : forall b c p d, Part b -> wf64 d ->
  (forall s, s < 64 -> mem d s = true -> raw_get b s = Some (c, p) \/ raw_get b s = None) ->
  Part (raw_xor b c p d) ->
  scratch_piece_hash (raw_xor b c p d)
  = fold_left (fun z s => N.lxor z (zkey s p c)) (elements d) (scratch_piece_hash b).
Proof. intros b c p d P _ T _. apply scratch_toggle_gen; assumption. Qed.

(* ------------------------------------------------------------------ *)
(** * 3. Board::xor keeps the stored hash equal to the from-scratch hash *)

Lemma raw_get_set_zob : forall b z s, raw_get (set_zob b z) s = raw_get b s.
Proof. reflexivity. Qed.
Lemma scratch_set_zob : forall b z, scratch_piece_hash (set_zob b z) = scratch_piece_hash b.
Proof. intros b z. apply scratch_ext. intros s _. apply raw_get_set_zob. Qed.
Lemma Part_set_zob : forall b z, Part b -> Part (set_zob b z).
Proof.
  intros b z P. destruct P as [H1 H2 H3 H4 H5 H6 H7]. constructor.
  - intros []; [apply (H1 White)|apply (H1 Black)].
  - intros []; [apply (H2 Pawn)|apply (H2 Knight)|apply (H2 Bishop)|apply (H2 Rook)|apply (H2 Queen)|apply (H2 King)].
  - exact H3. - exact H4. - exact H5.
  - intros p q Hpq. specialize (H6 p q Hpq). destruct p, q; exact H6.
  - exact H7.
Qed.

Definition consistent (b : board) : Prop := b_zob b = scratch_piece_hash b.

Theorem board_xor_consistent_gen : forall b c p d, Part b -> toggle_ok b c p d -> consistent b ->
  consistent (board_xor b c p d).
Proof.
  intros b c p d P T H. unfold consistent, board_xor. cbv zeta.
  rewrite scratch_set_zob. change (b_zob (set_zob ?x ?z)) with z.
  rewrite (scratch_toggle_gen b c p d P T).
  destruct (raw_xor_meta b c p d) as (Ez & _). rewrite Ez, H. reflexivity.
Qed.

Theorem board_xor_consistent : forall b c p d, Part b -> wf64 d ->
  (forall s, s < 64 -> mem d s = true -> raw_get b s = Some (c, p) \/ raw_get b s = None) ->
  Part (raw_xor b c p d) ->
  b_zob b = scratch_piece_hash b ->
  b_zob (board_xor b c p d) = scratch_piece_hash (board_xor b c p d).
Proof. intros b c p d P _ T _ H. exact (board_xor_consistent_gen b c p d P T H). Qed.

Theorem Part_board_xor : forall b c p d, Part b -> wf64 d -> toggle_ok b c p d -> Part (board_xor b c p d).
Proof. intros b c p d P W T. unfold board_xor. cbv zeta. apply Part_set_zob, Part_raw_xor; assumption. Qed.

(* ------------------------------------------------------------------ *)
(** * 4. boards that compare equal hash equal *)

Lemma color_eqb_true : forall a b, color_eqb a b = true -> a = b.
Proof. intros [] []; cbn; congruence. Qed.

Lemma board_eqb_fields : forall a b, board_eqb a b = true ->
  b_turn a = b_turn b /\ b_rights a = b_rights b /\ b_ep a = b_ep b /\
  b_white a = b_white b /\ b_black a = b_black b /\ b_pawn a = b_pawn b /\ b_knight a = b_knight b /\
  b_bishop a = b_bishop b /\ b_rook a = b_rook b /\ b_queen a = b_queen b /\ b_king a = b_king b.
Proof.
  intros a b H. unfold board_eqb in H. rewrite !andb_true_iff, !N.eqb_eq in H.
  destruct H as ((((((((((H1 & H2) & H3) & H4) & H5) & H6) & H7) & H8) & H9) & H10) & H11).
  apply color_eqb_true in H1.
  assert (b_ep a = b_ep b).
  { destruct (b_ep a), (b_ep b); try discriminate H3; [apply N.eqb_eq in H3; congruence|reflexivity]. }
  repeat split; assumption.
Qed.

Lemma raw_get_fields : forall a b s,
  b_white a = b_white b -> b_black a = b_black b -> b_pawn a = b_pawn b -> b_knight a = b_knight b ->
  b_bishop a = b_bishop b -> b_rook a = b_rook b -> b_queen a = b_queen b -> b_king a = b_king b ->
  raw_get a s = raw_get b s.
Proof.
  intros a b s H1 H2 H3 H4 H5 H6 H7 H8. unfold raw_get, color_of, piece_of_unchecked.
  rewrite H1, H2, H3, H4, H5, H6, H7. reflexivity.
Qed.

(* the from-scratch hash of equal boards is equal - unconditionally *)
Theorem board_eqb_scratch : forall a b, board_eqb a b = true -> scratch_piece_hash a = scratch_piece_hash b.
Proof.
  intros a b H. apply board_eqb_fields in H. decompose [and] H.
  apply scratch_ext. intros s _. apply raw_get_fields; assumption.
Qed.

Theorem eq_boards_eq_hash_strong : forall a b, consistent a -> consistent b -> board_eqb a b = true ->
  b_zob a = b_zob b /\ zobrist a = zobrist b.
Proof.
  intros a b Ha Hb H. unfold consistent in Ha, Hb.
  assert (Ez : b_zob a = b_zob b) by (rewrite Ha, Hb; apply board_eqb_scratch, H).
  split; [exact Ez|]. apply board_eqb_fields in H. decompose [and] H.
  apply zobrist_eq_of_fields; assumption.
Qed.

Theorem eq_boards_eq_hash : forall a b, Part a -> Part b ->
  b_zob a = scratch_piece_hash a -> b_zob b = scratch_piece_hash b ->
  board_eqb a b = true -> zobrist a = zobrist b.
Proof. intros a b _ _ Ha Hb H. exact (proj2 (eq_boards_eq_hash_strong a b Ha Hb H)). Qed.


(* ------------------------------------------------------------------ *)
(** * Boards with the same placement *)

Definition same_placement (a b : board) : Prop :=
  b_white a = b_white b /\ b_black a = b_black b /\ b_pawn a = b_pawn b /\ b_knight a = b_knight b /\
  b_bishop a = b_bishop b /\ b_rook a = b_rook b /\ b_queen a = b_queen b /\ b_king a = b_king b.

Lemma same_placement_intro : forall a b, b_white a = b_white b -> b_black a = b_black b ->
  (forall p, pieces a p = pieces b p) -> same_placement a b.
Proof.
  intros a b H1 H2 H. unfold same_placement.
  pose proof (H Pawn) as E1. pose proof (H Knight) as E2. pose proof (H Bishop) as E3.
  pose proof (H Rook) as E4. pose proof (H Queen) as E5. pose proof (H King) as E6.
  cbn [pieces] in E1, E2, E3, E4, E5, E6. repeat split; assumption.
Qed.
Lemma same_placement_refl : forall a, same_placement a a.
Proof. intros a. unfold same_placement. repeat split. Qed.
Lemma same_placement_sym : forall a b, same_placement a b -> same_placement b a.
Proof. unfold same_placement. intros a b H. decompose [and] H. repeat split; congruence. Qed.
Lemma same_placement_trans : forall a b c, same_placement a b -> same_placement b c -> same_placement a c.
Proof. unfold same_placement. intros a b c H1 H2. decompose [and] H1. decompose [and] H2. repeat split; congruence. Qed.

Lemma same_placement_colors : forall a b, same_placement a b -> forall c, colors a c = colors b c.
Proof. unfold same_placement. intros a b H []; cbn [colors]; tauto. Qed.
Lemma same_placement_pieces : forall a b, same_placement a b -> forall p, pieces a p = pieces b p.
Proof. unfold same_placement. intros a b H []; cbn [pieces]; tauto. Qed.
Lemma same_placement_raw_get : forall a b, same_placement a b -> forall s, raw_get a s = raw_get b s.
Proof. unfold same_placement. intros a b H s. decompose [and] H. apply raw_get_fields; assumption. Qed.

Lemma Part_same : forall a b, same_placement a b -> wf64 (b_pinned b) -> wf64 (b_checkers b) -> Part a -> Part b.
Proof.
  intros a b S Wp Wc P.
  pose proof (same_placement_colors a b S) as Ec. pose proof (same_placement_pieces a b S) as Ep.
  unfold same_placement in S. destruct S as (E1 & E2 & E3 & E4 & E5 & E6 & E7 & E8).
  destruct P as [H1 H2 H3 H4 H5 H6 H7]. constructor.
  - intros c. rewrite <- Ec. apply H1.
  - intros p. rewrite <- Ep. apply H2.
  - exact Wp.
  - exact Wc.
  - rewrite <- E1, <- E2. exact H5.
  - intros p q Hpq. rewrite <- !Ep. apply H6, Hpq.
  - unfold piece_union, all_occ in *. rewrite <- E1, <- E2, <- E3, <- E4, <- E5, <- E6, <- E7, <- E8. exact H7.
Qed.

Lemma consistent_same : forall a b, same_placement a b -> b_zob a = b_zob b -> consistent a -> consistent b.
Proof.
  intros a b S Ez H. unfold consistent in *. rewrite <- Ez, H.
  apply scratch_ext. intros s _. apply same_placement_raw_get, S.
Qed.

Lemma same_placement_set_meta : forall b t r e h f pn ck, same_placement b (set_meta b t r e h f pn ck).
Proof. intros. unfold same_placement. repeat split. Qed.

Lemma Part_set_meta : forall b t r e h f pn ck, Part b -> wf64 pn -> wf64 ck -> Part (set_meta b t r e h f pn ck).
Proof. intros b t r e h f pn ck P W1 W2. apply (Part_same b); [apply same_placement_set_meta|exact W1|exact W2|exact P]. Qed.
Lemma consistent_set_meta : forall b t r e h f pn ck, consistent b -> consistent (set_meta b t r e h f pn ck).
Proof. intros b t r e h f pn ck H. apply (consistent_same b); [apply same_placement_set_meta|reflexivity|exact H]. Qed.

(* an empty square is in none of the eight sets *)
Lemma Part_empty_sq : forall b s, Part b -> mem (all_occ b) s = false ->
  (forall c, mem (colors b c) s = false) /\ (forall p, mem (pieces b p) s = false).
Proof.
  intros b s P H. pose proof (Part_ok_at b P s) as Hok. unfold ok_at in Hok.
  unfold all_occ in H. rewrite mem_or in H.
  split; [intros c; rewrite colors_colb|intros p; rewrite pieces_pcb];
    destruct (mem (b_white b) s), (mem (b_black b) s); try discriminate H;
    destruct (mem (b_pawn b) s), (mem (b_knight b) s), (mem (b_bishop b) s),
             (mem (b_rook b) s), (mem (b_queen b) s), (mem (b_king b) s); try discriminate Hok.
  - destruct c; reflexivity.
  - destruct p; reflexivity.
Qed.

(* ------------------------------------------------------------------ *)
(** * Setting one empty square = toggling it *)

Lemma elements_from_pos : forall s, s < 64 -> elements (from_pos s) = [s].
Proof.
  intros s Hs. apply elements_ext; [repeat constructor|].
  intros t. rewrite mem_from_pos_full. cbn [In]. split.
  - intros [<-|[]]. split; [exact Hs|]. rewrite N.eqb_refl. lia.
  - intros [Ht H]. left. lia.
Qed.

Lemma bb_with_xor : forall a s, wf64 a -> s < 64 -> mem a s = false -> bb_with a s = bb_xor a (from_pos s).
Proof.
  intros a s Wa Hs H. apply ext64; [apply wf64_with, Wa|apply wf64_xor; [exact Wa|apply wf64_from_pos]|].
  intros t Ht. rewrite mem_with, mem_xor, mem_from_pos by assumption.
  destruct (N.eqb_spec t s) as [->|Hne]; [rewrite H; reflexivity|].
  rewrite orb_false_r, xorb_false_r. reflexivity.
Qed.

Lemma raw_set_unchecked_xor : forall b c p s, Part b -> s < 64 -> mem (all_occ b) s = false ->
  raw_set_unchecked b c p s = raw_xor b c p (from_pos s).
Proof.
  intros b c p s P Hs H. destruct (Part_empty_sq b s P H) as [Hc Hp].
  unfold raw_set_unchecked, raw_xor.
  rewrite (bb_with_xor (colors b c) s (part_wf_colors b P c) Hs (Hc c)).
  rewrite (bb_with_xor (pieces b p) s (part_wf_pieces b P p) Hs (Hp p)). reflexivity.
Qed.

Lemma toggle_ok_empty_sq : forall b c p s, Part b -> s < 64 -> mem (all_occ b) s = false -> toggle_ok b c p (from_pos s).
Proof.
  intros b c p s P Hs H t Ht Hm. rewrite mem_from_pos in Hm by assumption. apply N.eqb_eq in Hm. subst t.
  right. apply (raw_get_spec b P s Hs), H.
Qed.

(* BoardBuilder::place / the FEN placement step on an empty square is Board::xor of that square *)
Lemma place_is_board_xor : forall b c p s, Part b -> s < 64 -> mem (all_occ b) s = false ->
  set_zob (raw_set_unchecked b c p s) (N.lxor (b_zob (raw_set_unchecked b c p s)) (zkey s p c))
  = board_xor b c p (from_pos s).
Proof.
  intros b c p s P Hs H. rewrite (raw_set_unchecked_xor b c p s P Hs H).
  unfold board_xor. cbv zeta. rewrite (elements_from_pos s Hs). reflexivity.
Qed.

Theorem place_consistent : forall b c p s, Part b -> consistent b -> s < 64 -> mem (all_occ b) s = false ->
  let b1 := raw_set_unchecked b c p s in
  let b2 := set_zob b1 (N.lxor (b_zob b1) (zkey s p c)) in
  Part b2 /\ consistent b2 /\
  (forall t, t < 64 -> mem (all_occ b2) t = true -> t = s \/ mem (all_occ b) t = true).
Proof.
  intros b c p s P C Hs H. cbv zeta. rewrite (place_is_board_xor b c p s P Hs H).
  pose proof (toggle_ok_empty_sq b c p s P Hs H) as T.
  pose proof (Part_board_xor b c p (from_pos s) P (wf64_from_pos s) T) as P2.
  split; [exact P2|split; [apply board_xor_consistent_gen; assumption|]].
  intros t Ht Hocc.
  destruct (N.eqb_spec t s) as [->|Hne]; [left; reflexivity|right].
  destruct (mem (all_occ b) t) eqn:Eo; [reflexivity|exfalso].
  apply (raw_get_spec b P t Ht) in Eo.
  assert (E2 : raw_get (board_xor b c p (from_pos s)) t = None).
  { unfold board_xor. cbv zeta. rewrite raw_get_set_zob, (raw_get_raw_xor b c p (from_pos s) P T t Ht).
    rewrite mem_from_pos by assumption. apply N.eqb_neq in Hne. rewrite Hne. exact Eo. }
  apply (raw_get_spec _ P2 t Ht) in E2. congruence.
Qed.

(* ------------------------------------------------------------------ *)
(** * 5a. The FEN parser produces consistent boards *)

(* squares the placement loop has already passed when it stands at (file, rank) *)
Definition before (file rank s : N) : Prop := rank < s / 8 \/ (s / 8 = rank /\ s mod 8 < file).
Definition placed (file rank : N) (b : board) : Prop :=
  Part b /\ consistent b /\ (forall s, s < 64 -> mem (all_occ b) s = true -> before file rank s).

Lemma mk_sq_div_mod : forall file rank, file <= 7 -> mk_sq file rank / 8 = rank /\ mk_sq file rank mod 8 = file.
Proof.
  intros file rank Hf. unfold mk_sq. split.
  - symmetry. apply (N.div_unique _ 8 rank file); lia.
  - symmetry. apply (N.mod_unique _ 8 rank file); lia.
Qed.

Lemma placed_mono : forall f r f' r' b, placed f r b -> (forall s, before f r s -> before f' r' s) -> placed f' r' b.
Proof. intros f r f' r' b (P & C & O) H. split; [exact P|split; [exact C|]]. intros s Hs Hm. apply H, O; assumption. Qed.

Lemma xsum_zero : forall f l, (forall s, In s l -> f s = 0) -> xsum f l = 0.
Proof.
  intros f l. induction l as [|a l IH]; intros H; [reflexivity|].
  cbn [xsum]. rewrite (H a (or_introl eq_refl)), IH by (intros s Hs; apply H; right; exact Hs). reflexivity.
Qed.

Lemma Part_empty_board : Part empty_board.
Proof.
  apply Part_intro.
  - intros []; apply wf64_0.
  - intros []; apply wf64_0.
  - apply wf64_0.
  - apply wf64_0.
  - intros s _. unfold ok_at, empty_board. cbn [b_white b_black b_pawn b_knight b_bishop b_rook b_queen b_king].
    rewrite !mem_0. reflexivity.
Qed.

Lemma raw_get_empty_board : forall s, s < 64 -> raw_get empty_board s = None.
Proof.
  intros s Hs. apply (raw_get_spec _ Part_empty_board s Hs).
  unfold all_occ, empty_board. cbn [b_white b_black]. rewrite mem_or, mem_0. reflexivity.
Qed.

Lemma consistent_empty_board : consistent empty_board.
Proof.
  unfold consistent. rewrite scratch_xsum. change (b_zob empty_board) with 0. symmetry. apply xsum_zero.
  intros s Hs. apply In_sq_list in Hs. unfold contrib. rewrite (raw_get_empty_board s Hs). reflexivity.
Qed.

Lemma placed_empty_board : placed 0 7 empty_board.
Proof.
  split; [exact Part_empty_board|split; [exact consistent_empty_board|]].
  intros s Hs H. exfalso. unfold all_occ, empty_board in H. cbn [b_white b_black] in H.
  rewrite mem_or, mem_0 in H. discriminate H.
Qed.

Lemma placed_step : forall b c p file rank, file <= 7 -> rank <= 7 -> placed file rank b ->
  let pos := mk_sq file rank in
  let b1 := raw_set_unchecked b c p pos in
  placed (file + 1) rank (set_zob b1 (N.lxor (b_zob b1) (zkey pos p c))).
Proof.
  intros b c p file rank Hf Hr (P & C & O). cbv zeta.
  pose proof (mk_sq_lt64 file rank Hf Hr) as Hpos.
  destruct (mk_sq_div_mod file rank Hf) as [Ed Em].
  assert (He : mem (all_occ b) (mk_sq file rank) = false).
  { destruct (mem (all_occ b) (mk_sq file rank)) eqn:E; [|reflexivity].
    exfalso. destruct (O _ Hpos E) as [H|[_ H]]; lia. }
  destruct (place_consistent b c p (mk_sq file rank) P C Hpos He) as (P2 & C2 & O2).
  split; [exact P2|split; [exact C2|]].
  intros s Hs Hm. destruct (O2 s Hs Hm) as [->|Hb].
  - right. split; [exact Ed|lia].
  - destruct (O s Hs Hb) as [H|[H1 H2]]; [left; exact H|right; split; [exact H1|lia]].
Qed.

Lemma after_k_placed : forall rest rank file' b' raw rest',
  (forall file rank b raw rest', file <= 7 -> rank <= 7 -> placed file rank b ->
     placement rest file rank b = Ret (inr (raw, rest')) -> Part raw /\ consistent raw) ->
  rank <= 7 -> placed file' rank b' ->
  after_k rest rank file' b' = Ret (inr (raw, rest')) -> Part raw /\ consistent raw.
Proof.
  intros rest rank file' b' raw rest' IH Hr Hp. unfold after_k.
  destruct (N.leb_spec file' 7) as [H|H]; [apply IH; assumption|].
  destruct (N.eqb_spec file' 8) as [->|H8]; [|discriminate].
  destruct (N.eqb_spec rank 0) as [->|H0].
  - intros E. injection E as <- _. destruct Hp as (P & C & _). split; assumption.
  - apply IH; [lia|lia|]. apply (placed_mono 8 rank); [exact Hp|].
    intros s [Hb|[Hb _]]; left; lia.
Qed.

Theorem placement_placed : forall s file rank b raw rest, file <= 7 -> rank <= 7 -> placed file rank b ->
  placement s file rank b = Ret (inr (raw, rest)) -> Part raw /\ consistent raw.
Proof.
  induction s as [|x rest IH]; intros file rank b raw rest' Hf Hr Hp.
  - rewrite placement_nil. destruct (8 <=? file); discriminate.
  - rewrite placement_cons. destruct (N.leb_spec 8 file) as [H|H]; [discriminate|].
    destruct (parse_piece_byte x) as [[[c p]|d]|].
    + cbv zeta. apply after_k_placed; [exact IH|exact Hr|]. apply (placed_step b c p file rank Hf Hr Hp).
    + apply after_k_placed; [exact IH|exact Hr|]. apply (placed_mono file rank); [exact Hp|].
      intros s [Hb|[Hb1 Hb2]]; [left; exact Hb|right; split; [exact Hb1|lia]].
    + destruct (x =? 47); [apply after_k_placed; [exact IH|exact Hr|exact Hp]|].
      destruct (x =? 32); [apply IH; assumption|discriminate].
Qed.

(* pin information: only well-formedness is needed here *)
Lemma scan_sliders_wf : forall occ k l, wf64 occ ->
  wf64 (fst (scan_sliders occ k l)) /\ wf64 (snd (scan_sliders occ k l)).
Proof.
  intros occ k l Wo. unfold scan_sliders.
  assert (G : forall l acc, wf64 (fst acc) -> wf64 (snd acc) ->
    wf64 (fst (fold_left (fun (acc : N * N) s =>
               let '(pinned, checkers) := acc in
               let btw := bb_and occ (between_geo k s) in
               if none btw then (pinned, bb_with checkers s)
               else if count btw =? 1 then (bb_or pinned btw, checkers)
               else (pinned, checkers)) l acc))
    /\ wf64 (snd (fold_left (fun (acc : N * N) s =>
               let '(pinned, checkers) := acc in
               let btw := bb_and occ (between_geo k s) in
               if none btw then (pinned, bb_with checkers s)
               else if count btw =? 1 then (bb_or pinned btw, checkers)
               else (pinned, checkers)) l acc))).
  { clear l. induction l as [|a l IH]; intros [pn ck] H1 H2; cbn [fold_left]; [split; assumption|].
    cbn [fst snd] in H1, H2. apply IH.
    - cbv beta iota zeta. destruct (none _); [exact H1|]. destruct (count _ =? 1); [|exact H1].
      cbn [fst]. apply wf64_or; [exact H1|apply wf64_land_l, Wo].
    - cbv beta iota zeta. destruct (none _); [cbn [snd]; apply wf64_with, H2|]. destruct (count _ =? 1); exact H2. }
  apply G; apply wf64_0.
Qed.

Lemma update_pin_info_wf : forall b, (forall c, wf64 (colors b c)) ->
  wf64 (b_pinned (update_pin_info b)) /\ wf64 (b_checkers (update_pin_info b)).
Proof.
  intros b W. unfold update_pin_info. cbv zeta.
  match goal with |- context [scan_sliders ?o ?k ?l] =>
    pose proof (scan_sliders_wf o k l) as S; destruct (scan_sliders o k l) as [pinned checkers] end.
  unfold set_pins, set_meta. cbn [b_pinned b_checkers]. cbn [fst snd] in S.
  destruct S as [S1 S2]; [unfold all_occ; apply wf64_or; [apply (W White)|apply (W Black)]|].
  split; [exact S1|].
  apply wf64_or; [apply wf64_or; [exact S2|]|]; apply wf64_land_r, W.
Qed.

Theorem update_pin_info_consistent : forall b, Part b -> consistent b ->
  Part (update_pin_info b) /\ consistent (update_pin_info b).
Proof.
  intros b P C.
  destruct (update_pin_info_fields b) as (_ & _ & _ & _ & _ & Ez & Ew & Ek & Ep).
  assert (S : same_placement b (update_pin_info b))
    by (apply same_placement_intro; [symmetry; exact Ew|symmetry; exact Ek|intros p; symmetry; apply Ep]).
  destruct (update_pin_info_wf b (part_wf_colors b P)) as [W1 W2].
  split; [apply (Part_same b); assumption|apply (consistent_same b); [exact S|symmetry; exact Ez|exact C]].
Qed.

Theorem parse_consistent : forall s b, parse_fen_t s = Ret (POk b) -> Part b /\ b_zob b = scratch_piece_hash b.
Proof.
  intros s b H. apply parse_ok_shape in H.
  destruct H as (raw & rest & turn & r & epv & half & full & Hpl & -> & _).
  destruct (placement_placed s 0 7 empty_board raw rest ltac:(lia) ltac:(lia) placed_empty_board Hpl) as [P C].
  apply update_pin_info_consistent; unfold pre_board.
  - apply Part_set_meta; [exact P|apply wf64_0|apply wf64_0].
  - apply consistent_set_meta, C.
Qed.

(* ------------------------------------------------------------------ *)
(** * 5b. Board::move_unchecked_into (model/Apply.v `apply`) *)

Definition Good (b : board) : Prop := Part b /\ consistent b.

Lemma Good_same : forall a b, same_placement a b -> b_zob a = b_zob b ->
  wf64 (b_pinned b) -> wf64 (b_checkers b) -> Good a -> Good b.
Proof.
  intros a b S Ez W1 W2 [P C]. split; [apply (Part_same a); assumption|apply (consistent_same a); assumption].
Qed.
Lemma Good_set_meta : forall b t r e h f pn ck, Good b -> wf64 pn -> wf64 ck -> Good (set_meta b t r e h f pn ck).
Proof. intros b t r e h f pn ck [P C] W1 W2. split; [apply Part_set_meta; assumption|apply consistent_set_meta, C]. Qed.
Lemma Good_board_xor : forall b c p d, Good b -> wf64 d -> toggle_ok b c p d -> Good (board_xor b c p d).
Proof. intros b c p d [P C] W T. split; [apply Part_board_xor; assumption|apply board_xor_consistent_gen; assumption]. Qed.

Lemma raw_get_board_xor : forall b c p d, Part b -> toggle_ok b c p d -> forall s, s < 64 ->
  raw_get (board_xor b c p d) s =
  if mem d s then match raw_get b s with Some _ => None | None => Some (c, p) end else raw_get b s.
Proof.
  intros b c p d P T s Hs. unfold board_xor. cbv zeta. rewrite raw_get_set_zob.
  apply raw_get_raw_xor; assumption.
Qed.

Lemma board_xor_zob : forall b c p d,
  b_zob (board_xor b c p d) = N.lxor (b_zob b) (xsum (fun s => zkey s p c) (elements d)).
Proof.
  intros b c p d. unfold board_xor. cbv zeta. change (b_zob (set_zob ?x ?z)) with z.
  rewrite fold_keys. destruct (raw_xor_meta b c p d) as (E & _). rewrite E. reflexivity.
Qed.
Lemma board_xor_same_raw : forall b c p d, same_placement (raw_xor b c p d) (board_xor b c p d).
Proof. intros b c p d. unfold board_xor. cbv zeta. unfold same_placement. repeat split. Qed.
Lemma board_xor_pins : forall b c p d,
  b_pinned (board_xor b c p d) = b_pinned b /\ b_checkers (board_xor b c p d) = b_checkers b.
Proof.
  intros b c p d. destruct (raw_xor_meta b c p d) as (_ & _ & _ & _ & _ & _ & E1 & E2).
  unfold board_xor. cbv zeta. change (b_pinned (set_zob ?x ?z)) with (b_pinned x).
  change (b_checkers (set_zob ?x ?z)) with (b_checkers x). split; assumption.
Qed.

Lemma bb_xor_swap : forall w d d', bb_xor (bb_xor w d) d' = bb_xor (bb_xor w d') d.
Proof. intros w d d'. unfold bb_xor. rewrite !N.lxor_assoc. f_equal. apply N.lxor_comm. Qed.

Lemma raw_xor_same : forall a a' c p d, same_placement a a' -> same_placement (raw_xor a c p d) (raw_xor a' c p d).
Proof.
  intros a a' c p d S.
  pose proof (same_placement_colors a a' S) as Ec. pose proof (same_placement_pieces a a' S) as Ep.
  apply same_placement_intro.
  - change (colors (raw_xor a c p d) White = colors (raw_xor a' c p d) White).
    rewrite !raw_xor_colors, !Ec. reflexivity.
  - change (colors (raw_xor a c p d) Black = colors (raw_xor a' c p d) Black).
    rewrite !raw_xor_colors, !Ec. reflexivity.
  - intros q. rewrite !raw_xor_pieces, !Ep. reflexivity.
Qed.

Lemma raw_xor_comm : forall b c p d c' p' d',
  same_placement (raw_xor (raw_xor b c p d) c' p' d') (raw_xor (raw_xor b c' p' d') c p d).
Proof.
  intros b c p d c' p' d'. apply same_placement_intro.
  - rewrite !raw_xor_white. destruct c, c'; try reflexivity. apply bb_xor_swap.
  - rewrite !raw_xor_black. destruct c, c'; try reflexivity. apply bb_xor_swap.
  - intros q. rewrite !raw_xor_pieces.
    destruct p, p', q; cbn [piece_eqb piece_idx N.eqb Pos.eqb]; try reflexivity; apply bb_xor_swap.
Qed.

(* two Board::xor calls commute (placement, hash and pin fields) *)
Lemma board_xor_comm : forall b c p d c' p' d',
  let L := board_xor (board_xor b c p d) c' p' d' in
  let R := board_xor (board_xor b c' p' d') c p d in
  same_placement L R /\ b_zob L = b_zob R /\ b_pinned L = b_pinned R /\ b_checkers L = b_checkers R.
Proof.
  intros b c p d c' p' d'. cbv zeta. split; [|split].
  - eapply same_placement_trans; [apply same_placement_sym, board_xor_same_raw|].
    eapply same_placement_trans; [apply raw_xor_same, same_placement_sym, board_xor_same_raw|].
    eapply same_placement_trans; [apply raw_xor_comm|].
    eapply same_placement_trans; [apply raw_xor_same, board_xor_same_raw|].
    apply board_xor_same_raw.
  - rewrite !board_xor_zob, !N.lxor_assoc. f_equal. apply N.lxor_comm.
  - destruct (board_xor_pins (board_xor b c p d) c' p' d') as [A1 A2].
    destruct (board_xor_pins b c p d) as [A3 A4].
    destruct (board_xor_pins (board_xor b c' p' d') c p d) as [A5 A6].
    destruct (board_xor_pins b c' p' d') as [A7 A8].
    split; congruence.
Qed.

(* the function in stages (same text as model/Apply.v) *)
Definition apply_stage2 (self : board) (mv : move) : board :=
  let turn := b_turn self in
  let out := set_meta self (opp turn) (b_rights self) None (b_half self) (b_full self) 0 0 in
  let source_bb := from_pos (m_src mv) in
  let dest_bb := from_pos (m_dst mv) in
  let mv_bb := bb_xor source_bb dest_bb in
  let pc := piece_of_unchecked self (m_src mv) in
  let captured := piece_of self (m_dst mv) in
  let out := board_xor out turn pc mv_bb in
  match captured with
  | Some cp => set_half (board_xor out (opp turn) cp dest_bb) 0
  | None => set_half out (sat16 (b_half out + 1))
  end.
Definition apply_stage4 (self : board) (mv : move) : board :=
  let turn := b_turn self in
  let out := apply_stage2 self mv in
  let out := set_full out (sat16 (b_full out + color_idx turn)) in
  set_rights out (cr_remove_for_sq (cr_remove_for_sq (b_rights out) (opp turn) (m_dst mv)) turn (m_src mv)).
Definition is_castle_move (pc : piece) (mv : move) : bool :=
  piece_eqb pc King && (bb_and (bb_xor (from_pos (m_src mv)) (from_pos (m_dst mv))) CASTLE_MOVES_bb
                        =? bb_xor (from_pos (m_src mv)) (from_pos (m_dst mv))).
Definition castle_rook_mv (turn : color) (mv : move) : N :=
  bb_and (BACKRANK_BB_of turn)
         (if file_of (m_dst mv) <? 4 then bb_or (from_file 0) (from_file 3) else bb_or (from_file 7) (from_file 5)).
Definition is_double_push (turn : color) (mv : move) : bool :=
  bb_and (bb_xor (from_pos (m_src mv)) (from_pos (m_dst mv)))
         (match turn with White => bb_or (from_rank 1) (from_rank 3) | Black => bb_or (from_rank 4) (from_rank 6) end)
  =? bb_xor (from_pos (m_src mv)) (from_pos (m_dst mv)).
Definition ep_victim_sq (turn : color) (mv : move) : N := mk_sq (file_of (m_dst mv)) (ep_pawn_rank_of turn).

Definition stage5_body (self : board) (mv : move) (out : board) : board :=
  let turn := b_turn self in
  let dest_bb := from_pos (m_dst mv) in
  let pc := piece_of_unchecked self (m_src mv) in
  let opp_king := king_sq self (opp turn) in
    match pc with
    | Knight => set_checkers out (bb_xor (b_checkers out) (bb_and (knight_geo opp_king) dest_bb))
    | Pawn =>
      let out := set_half out 0 in
      let out :=
        match m_promo mv with
        | Some promotion =>
          let out := if piece_eqb promotion Knight
                     then set_checkers out (bb_xor (b_checkers out) (bb_and (knight_geo opp_king) dest_bb)) else out in
          board_xor (board_xor out turn Pawn dest_bb) turn promotion dest_bb
        | None =>
          if is_double_push turn mv then set_ep out (Some (file_of (m_dst mv)))
          else match enpassant_pos self with
               | Some ep => if m_dst mv =? ep
                            then board_xor out (opp turn) Pawn (from_pos (ep_victim_sq turn mv))
                            else out
               | None => out
               end
        end in
      match m_promo mv with
      | None => set_checkers out (bb_xor (b_checkers out) (bb_and (pawn_att_geo (opp turn) opp_king) dest_bb))
      | Some _ => out
      end
    | _ => if is_castle_move pc mv then board_xor out turn Rook (castle_rook_mv turn mv) else out
    end.
Definition apply_stage5 (self : board) (mv : move) : board := stage5_body self mv (apply_stage4 self mv).

Definition pin_step (occ opp_king : N) (acc : N * N) (a : N) : N * N :=
  let '(pn, ck) := acc in
  let btw := bb_and occ (between_geo opp_king a) in
  if none btw then (pn, bb_with ck a)
  else if count btw =? 1 then (bb_xor pn btw, ck) else (pn, ck).
Definition apply_pins (out : board) (turn : color) (opp_king : N) : board :=
  let mine := colors out turn in
  let bishops := bb_or (b_bishop out) (b_queen out) in
  let rooks := bb_or (b_rook out) (b_queen out) in
  let attackers := bb_or (bb_and (bb_and bishops mine) (bishop_rays_geo opp_king))
                         (bb_and (bb_and rooks mine) (rook_rays_geo opp_king)) in
  let '(pinned, checkers) :=
    fold_left (pin_step (all_occ out) opp_king) (elements attackers) (b_pinned out, b_checkers out) in
  set_pins out pinned checkers.

(* `apply` is exactly the composition of the stages *)
Lemma apply_staged : forall self mv,
  apply self mv = apply_pins (apply_stage5 self mv) (b_turn self) (king_sq self (opp (b_turn self))).
Proof.
  intros self mv.
  unfold apply, apply_pins, pin_step, apply_stage5, stage5_body, is_castle_move, castle_rook_mv, is_double_push,
         ep_victim_sq, apply_stage4, apply_stage2.
  cbv zeta. reflexivity.
Qed.

(* --- meta-only setters --- *)
Lemma Good_set_half : forall b h, Good b -> Good (set_half b h).
Proof. intros b h G. unfold set_half. apply Good_set_meta; [exact G|apply part_wf_pinned, G|apply part_wf_checkers, G]. Qed.
Lemma Good_set_full : forall b f, Good b -> Good (set_full b f).
Proof. intros b f G. unfold set_full. apply Good_set_meta; [exact G|apply part_wf_pinned, G|apply part_wf_checkers, G]. Qed.
Lemma Good_set_ep : forall b e, Good b -> Good (set_ep b e).
Proof. intros b e G. unfold set_ep. apply Good_set_meta; [exact G|apply part_wf_pinned, G|apply part_wf_checkers, G]. Qed.
Lemma Good_set_rights : forall b r, Good b -> Good (set_rights b r).
Proof. intros b r G. unfold set_rights. apply Good_set_meta; [exact G|apply part_wf_pinned, G|apply part_wf_checkers, G]. Qed.
Lemma Good_set_checkers : forall b ck, Good b -> wf64 ck -> Good (set_checkers b ck).
Proof. intros b ck G W. unfold set_checkers, set_pins. apply Good_set_meta; [exact G|apply part_wf_pinned, G|exact W]. Qed.
Lemma Good_set_pins : forall b pn ck, Good b -> wf64 pn -> wf64 ck -> Good (set_pins b pn ck).
Proof. intros b pn ck G W1 W2. unfold set_pins. apply Good_set_meta; assumption. Qed.

Lemma wf64_checkers_xor_dest : forall b x d, Good b -> wf64 (bb_xor (b_checkers b) (bb_and x (from_pos d))).
Proof. intros b x d G. apply wf64_xor; [apply part_wf_checkers, G|apply wf64_land_r, wf64_from_pos]. Qed.

Lemma piece_of_raw_get : forall b s,
  piece_of b s = match raw_get b s with Some (_, p) => Some p | None => None end.
Proof. intros b s. unfold piece_of, raw_get. destruct (color_of b s); reflexivity. Qed.
Lemma raw_get_piece_of_unchecked : forall b s c p, raw_get b s = Some (c, p) -> piece_of_unchecked b s = p.
Proof. intros b s c p H. unfold raw_get in H. destruct (color_of b s); [|discriminate]. injection H as _ H. exact H. Qed.

Lemma opp_neq : forall c, opp c <> c.
Proof. intros []; discriminate. Qed.

(* --- stage 2: the mover goes from source to destination, a captured man disappears --- *)
Definition moved (self : board) (mv : move) (pc : piece) (s : N) : option (color * piece) :=
  if s =? m_src mv then None else if s =? m_dst mv then Some (b_turn self, pc) else raw_get self s.

Lemma mem_mv_bb : forall src dst s, src < 64 -> dst < 64 -> s < 64 ->
  mem (bb_xor (from_pos src) (from_pos dst)) s = xorb (s =? src) (s =? dst).
Proof. intros src dst s H1 H2 H3. rewrite mem_xor, !mem_from_pos by assumption. reflexivity. Qed.

Lemma stage2_spec : forall self mv pc, Good self -> m_src mv < 64 -> m_dst mv < 64 ->
  raw_get self (m_src mv) = Some (b_turn self, pc) ->
  (raw_get self (m_dst mv) = None \/ exists cp, raw_get self (m_dst mv) = Some (opp (b_turn self), cp)) ->
  Good (apply_stage2 self mv) /\ (forall s, s < 64 -> raw_get (apply_stage2 self mv) s = moved self mv pc s).
Proof.
  intros self mv pc G Hs Hd Hsrc Hdst.
  pose proof (raw_get_piece_of_unchecked _ _ _ _ Hsrc) as Epc.
  assert (Hne : m_src mv <> m_dst mv).
  { intros E. rewrite <- E, Hsrc in Hdst. destruct Hdst as [H|[cp H]]; [discriminate|].
    injection H as H _. symmetry in H. exact (opp_neq _ H). }
  unfold apply_stage2. cbv zeta. rewrite Epc, piece_of_raw_get.
  set (turn := b_turn self) in *. set (src := m_src mv) in *. set (dst := m_dst mv) in *.
  set (out0 := set_meta self (opp turn) (b_rights self) None (b_half self) (b_full self) 0 0).
  assert (G0 : Good out0) by (apply Good_set_meta; [exact G|apply wf64_0|apply wf64_0]).
  assert (R0 : forall s, raw_get out0 s = raw_get self s) by reflexivity.
  set (mv_bb := bb_xor (from_pos src) (from_pos dst)).
  assert (Wmv : wf64 mv_bb) by (apply wf64_xor; apply wf64_from_pos).
  assert (Mmv : forall s, s < 64 -> mem mv_bb s = xorb (s =? src) (s =? dst)) by (intros s H; apply mem_mv_bb; assumption).
  unfold moved. fold turn src dst.
  destruct Hdst as [Hdst|[cp Hdst]]; rewrite Hdst.
  - (* quiet move *)
    assert (T : toggle_ok out0 turn pc mv_bb).
    { intros s H Hm. rewrite Mmv in Hm by exact H. rewrite R0.
      destruct (N.eqb_spec s src) as [->|N1]; [left; exact Hsrc|].
      destruct (N.eqb_spec s dst) as [->|N2]; [right; exact Hdst|discriminate Hm]. }
    pose proof (Good_board_xor out0 turn pc mv_bb G0 Wmv T) as G1.
    split; [apply Good_set_half, G1|].
    intros s H. change (raw_get (set_half ?x ?h) s) with (raw_get x s).
    rewrite (raw_get_board_xor out0 turn pc mv_bb (proj1 G0) T s H), Mmv, R0 by exact H.
    destruct (N.eqb_spec s src) as [->|N1].
    + destruct (N.eqb_spec src dst) as [E|_]; [contradiction|]. cbn [xorb]. rewrite Hsrc. reflexivity.
    + destruct (N.eqb_spec s dst) as [->|N2]; cbn [xorb]; [rewrite Hdst|]; reflexivity.
  - (* capture: the two xors are done in the other order than the one that keeps the invariant in between *)
    set (dest_bb := from_pos dst).
    assert (Md : forall s, s < 64 -> mem dest_bb s = (s =? dst)) by (intros s H; apply mem_from_pos; assumption).
    assert (T1 : toggle_ok out0 (opp turn) cp dest_bb).
    { intros s H Hm. rewrite Md in Hm by exact H. apply N.eqb_eq in Hm. subst s. left. rewrite R0. exact Hdst. }
    pose proof (Good_board_xor out0 (opp turn) cp dest_bb G0 (wf64_from_pos dst) T1) as GX.
    set (X := board_xor out0 (opp turn) cp dest_bb) in *.
    assert (RX : forall s, s < 64 -> raw_get X s = if s =? dst then None else raw_get self s).
    { intros s H. unfold X. rewrite (raw_get_board_xor out0 (opp turn) cp dest_bb (proj1 G0) T1 s H), Md, R0 by exact H.
      destruct (N.eqb_spec s dst) as [->|_]; [rewrite Hdst|]; reflexivity. }
    assert (T2 : toggle_ok X turn pc mv_bb).
    { intros s H Hm. rewrite Mmv in Hm by exact H. rewrite RX by exact H.
      destruct (N.eqb_spec s dst) as [->|N2]; [right; reflexivity|].
      destruct (N.eqb_spec s src) as [->|N1]; [left; exact Hsrc|discriminate Hm]. }
    pose proof (Good_board_xor X turn pc mv_bb GX Wmv T2) as GY.
    destruct (board_xor_comm out0 turn pc mv_bb (opp turn) cp dest_bb) as (S & Ez & Ep & Ec). cbv zeta in S, Ez, Ep, Ec.
    fold X in S, Ez, Ep, Ec.
    set (Y := board_xor X turn pc mv_bb) in *.
    set (L := board_xor (board_xor out0 turn pc mv_bb) (opp turn) cp dest_bb) in *.
    assert (GL : Good L).
    { apply (Good_same Y L); [apply same_placement_sym, S|symmetry; exact Ez| | |exact GY].
      - rewrite Ep. apply part_wf_pinned, GY.
      - rewrite Ec. apply part_wf_checkers, GY. }
    split; [apply Good_set_half, GL|].
    intros s H. change (raw_get (set_half ?x ?h) s) with (raw_get x s).
    rewrite (same_placement_raw_get L Y S s). unfold Y.
    rewrite (raw_get_board_xor X turn pc mv_bb (proj1 GX) T2 s H), Mmv, RX by exact H.
    destruct (N.eqb_spec s src) as [->|N1].
    + destruct (N.eqb_spec src dst) as [E|_]; [contradiction|]. cbn [xorb]. rewrite Hsrc. reflexivity.
    + destruct (N.eqb_spec s dst) as [->|N2]; cbn [xorb]; reflexivity.
Qed.

Lemma stage4_spec : forall self mv pc, Good self -> m_src mv < 64 -> m_dst mv < 64 ->
  raw_get self (m_src mv) = Some (b_turn self, pc) ->
  (raw_get self (m_dst mv) = None \/ exists cp, raw_get self (m_dst mv) = Some (opp (b_turn self), cp)) ->
  Good (apply_stage4 self mv) /\ (forall s, s < 64 -> raw_get (apply_stage4 self mv) s = moved self mv pc s).
Proof.
  intros self mv pc G Hs Hd Hsrc Hdst.
  destruct (stage2_spec self mv pc G Hs Hd Hsrc Hdst) as [G2 R2].
  unfold apply_stage4. cbv zeta. split.
  - apply Good_set_rights, Good_set_full, G2.
  - intros s H. rewrite <- (R2 s H). reflexivity.
Qed.

(* --- stage 5: per-piece extras --- *)
Section Stage5.
  Variables (self : board) (mv : move) (pc : piece) (out : board).
  Let turn := b_turn self.
  Hypothesis Hs : m_src mv < 64.
  Hypothesis Hd : m_dst mv < 64.
  Hypothesis Hne : m_src mv <> m_dst mv.
  Hypothesis Epc : piece_of_unchecked self (m_src mv) = pc.
  Hypothesis G : Good out.
  Hypothesis R : forall s, s < 64 -> raw_get out s = moved self mv pc s.
  (* castling: the rook squares are not the king squares and hold the own rook or nothing *)
  Hypothesis Hcastle : is_castle_move pc mv = true -> pc <> Knight -> pc <> Pawn ->
    forall s, s < 64 -> mem (castle_rook_mv turn mv) s = true ->
      s <> m_src mv /\ s <> m_dst mv /\ (raw_get self s = Some (turn, Rook) \/ raw_get self s = None).
  (* en passant: the victim square is neither end of the move and holds an enemy pawn *)
  Hypothesis Hep : pc = Pawn -> m_promo mv = None -> is_double_push turn mv = false ->
    enpassant_pos self = Some (m_dst mv) ->
    ep_victim_sq turn mv < 64 /\ ep_victim_sq turn mv <> m_src mv /\ ep_victim_sq turn mv <> m_dst mv /\
    raw_get self (ep_victim_sq turn mv) = Some (opp turn, Pawn).

  Lemma stage5_castle_branch : pc <> Knight -> pc <> Pawn ->
    Good (if is_castle_move pc mv then board_xor out turn Rook (castle_rook_mv turn mv) else out).
  Proof.
    intros N1 N2. destruct (is_castle_move pc mv) eqn:Ec; [|exact G].
    apply Good_board_xor; [exact G|unfold castle_rook_mv, BACKRANK_BB_of; apply wf64_land_l, wf64_from_rank|].
    intros s H Hm. destruct (Hcastle eq_refl N1 N2 s H Hm) as (A1 & A2 & A3).
    rewrite (R s H). unfold moved.
    apply N.eqb_neq in A1, A2. rewrite A1, A2. exact A3.
  Qed.

  Lemma stage5_good : Good (stage5_body self mv out).
  Proof.
    unfold stage5_body. cbv zeta. rewrite Epc. fold turn.
    assert (Rd : raw_get out (m_dst mv) = Some (turn, pc)).
    { rewrite (R _ Hd). unfold moved. rewrite N.eqb_refl.
      destruct (N.eqb_spec (m_dst mv) (m_src mv)) as [E|_]; [symmetry in E; contradiction|reflexivity]. }
    pose proof stage5_castle_branch as CB.
    destruct pc eqn:Ep.
    - (* pawn *)
      pose proof (Good_set_half out 0 G) as G1.
      assert (R1 : forall s, raw_get (set_half out 0) s = raw_get out s) by reflexivity.
      destruct (m_promo mv) as [pr|] eqn:Epr.
      + (* promotion: pawn off, new piece on *)
        set (o2 := if piece_eqb pr Knight then _ else _).
        assert (G2 : Good o2) by (unfold o2; destruct (piece_eqb pr Knight); [apply Good_set_checkers; [exact G1|apply wf64_checkers_xor_dest, G1]|exact G1]).
        assert (R2 : forall s, raw_get o2 s = raw_get out s) by (intros s; unfold o2; destruct (piece_eqb pr Knight); reflexivity).
        assert (Md : forall s, s < 64 -> mem (from_pos (m_dst mv)) s = (s =? m_dst mv)) by (intros s H; apply mem_from_pos; assumption).
        assert (T1 : toggle_ok o2 turn Pawn (from_pos (m_dst mv))).
        { intros s H Hm. rewrite Md in Hm by exact H. apply N.eqb_eq in Hm. subst s. left. rewrite R2. exact Rd. }
        pose proof (Good_board_xor o2 turn Pawn _ G2 (wf64_from_pos _) T1) as G3.
        apply Good_board_xor; [exact G3|apply wf64_from_pos|].
        intros s H Hm. rewrite Md in Hm by exact H. apply N.eqb_eq in Hm. subst s. right.
        rewrite (raw_get_board_xor o2 turn Pawn _ (proj1 G2) T1 _ Hd), Md, N.eqb_refl, R2, Rd by exact Hd. reflexivity.
      + match goal with |- Good (set_checkers ?x _) => assert (G2 : Good x) end.
        { destruct (is_double_push turn mv) eqn:Edbl; [apply Good_set_ep, G1|].
          destruct (enpassant_pos self) as [ep|] eqn:Eep; [|exact G1].
          destruct (N.eqb_spec (m_dst mv) ep) as [E|_]; [|exact G1].
          subst ep. destruct (Hep eq_refl eq_refl eq_refl eq_refl) as (A0 & A1 & A2 & A3).
          apply Good_board_xor; [exact G1|apply wf64_from_pos|].
          intros s H Hm. rewrite mem_from_pos in Hm by assumption. apply N.eqb_eq in Hm. subst s. left.
          rewrite R1, (R _ A0). unfold moved. apply N.eqb_neq in A1, A2. rewrite A1, A2. exact A3. }
        apply Good_set_checkers; [exact G2|apply wf64_checkers_xor_dest, G2].
    - apply Good_set_checkers; [exact G|apply wf64_checkers_xor_dest, G].
    - apply CB; discriminate.
    - apply CB; discriminate.
    - apply CB; discriminate.
    - apply CB; discriminate.
  Qed.
End Stage5.

(* --- the pin scan only writes `pinned` and `checkers` --- *)
Lemma pins_fold_wf : forall occ k l acc, wf64 occ -> wf64 (fst acc) -> wf64 (snd acc) ->
  wf64 (fst (fold_left (pin_step occ k) l acc)) /\ wf64 (snd (fold_left (pin_step occ k) l acc)).
Proof.
  intros occ k l. induction l as [|a l IH]; intros [pn ck] Wo H1 H2; cbn [fold_left]; [split; assumption|].
  cbn [fst snd] in H1, H2. apply IH; [exact Wo| |]; unfold pin_step; cbv beta iota zeta.
  - destruct (none _); [exact H1|]. destruct (count _ =? 1); [|exact H1].
    cbn [fst]. apply wf64_xor; [exact H1|apply wf64_land_l, Wo].
  - destruct (none _); [cbn [snd]; apply wf64_with, H2|]. destruct (count _ =? 1); exact H2.
Qed.

Lemma apply_pins_good : forall out turn k, Good out -> Good (apply_pins out turn k).
Proof.
  intros out turn k G. unfold apply_pins. cbv zeta.
  match goal with |- context [fold_left ?f ?l ?a] =>
    pose proof (pins_fold_wf (all_occ out) k l a) as W; destruct (fold_left f l a) as [pn ck] end.
  cbn [fst snd] in W. destruct W as [W1 W2].
  - unfold all_occ. apply wf64_or; [apply (part_wf_colors out (proj1 G) White)|apply (part_wf_colors out (proj1 G) Black)].
  - apply part_wf_pinned, G.
  - apply part_wf_checkers, G.
  - apply Good_set_pins; assumption.
Qed.

(* General form: every kind of move, with the local facts each special case needs.
   `pc` is the moving man; the destination is empty or holds an enemy man. *)
Theorem apply_consistent_gen : forall b m pc, Part b -> b_zob b = scratch_piece_hash b ->
  m_src m < 64 -> m_dst m < 64 ->
  raw_get b (m_src m) = Some (b_turn b, pc) ->
  (raw_get b (m_dst m) = None \/ exists cp, raw_get b (m_dst m) = Some (opp (b_turn b), cp)) ->
  (is_castle_move pc m = true -> pc <> Knight -> pc <> Pawn ->
     forall s, s < 64 -> mem (castle_rook_mv (b_turn b) m) s = true ->
       s <> m_src m /\ s <> m_dst m /\ (raw_get b s = Some (b_turn b, Rook) \/ raw_get b s = None)) ->
  (pc = Pawn -> m_promo m = None -> is_double_push (b_turn b) m = false -> enpassant_pos b = Some (m_dst m) ->
     ep_victim_sq (b_turn b) m < 64 /\ ep_victim_sq (b_turn b) m <> m_src m /\ ep_victim_sq (b_turn b) m <> m_dst m /\
     raw_get b (ep_victim_sq (b_turn b) m) = Some (opp (b_turn b), Pawn)) ->
  Part (apply b m) /\ b_zob (apply b m) = scratch_piece_hash (apply b m).
Proof.
  intros b m pc P C Hs Hd Hsrc Hdst Hcastle Hep.
  assert (G : Good b) by (split; assumption).
  destruct (stage4_spec b m pc G Hs Hd Hsrc Hdst) as [G4 R4].
  assert (Hne : m_src m <> m_dst m).
  { intros E. rewrite <- E, Hsrc in Hdst. destruct Hdst as [H|[cp H]]; [discriminate|].
    injection H as H _. symmetry in H. exact (opp_neq _ H). }
  rewrite apply_staged. apply apply_pins_good. unfold apply_stage5.
  apply (stage5_good b m pc (apply_stage4 b m) Hd Hne (raw_get_piece_of_unchecked _ _ _ _ Hsrc) G4 R4 Hcastle Hep).
Qed.

(* 5b as asked: an ordinary move (no castling, no en passant, no promotion) *)
Theorem apply_consistent : forall b m pc, Part b -> b_zob b = scratch_piece_hash b ->
  m_src m < 64 -> m_dst m < 64 ->
  raw_get b (m_src m) = Some (b_turn b, pc) ->
  (raw_get b (m_dst m) = None \/ exists cp, raw_get b (m_dst m) = Some (opp (b_turn b), cp)) ->
  is_castle_move pc m = false ->
  (pc = Pawn -> m_promo m = None /\ enpassant_pos b <> Some (m_dst m)) ->
  Part (apply b m) /\ b_zob (apply b m) = scratch_piece_hash (apply b m).
Proof.
  intros b m pc P C Hs Hd Hsrc Hdst Hc Hp.
  apply (apply_consistent_gen b m pc); try assumption.
  - intros E. rewrite Hc in E. discriminate E.
  - intros Epc _ _ E. destruct (Hp Epc) as [_ N]. contradiction.
Qed.

(* promotion needs nothing beyond the ordinary hypotheses *)
Theorem apply_consistent_promotion : forall b m pr, Part b -> b_zob b = scratch_piece_hash b ->
  m_src m < 64 -> m_dst m < 64 ->
  raw_get b (m_src m) = Some (b_turn b, Pawn) ->
  (raw_get b (m_dst m) = None \/ exists cp, raw_get b (m_dst m) = Some (opp (b_turn b), cp)) ->
  m_promo m = Some pr ->
  Part (apply b m) /\ b_zob (apply b m) = scratch_piece_hash (apply b m).
Proof.
  intros b m pr P C Hs Hd Hsrc Hdst Hpr.
  apply (apply_consistent_gen b m Pawn); try assumption.
  - intros _ _ N. contradiction N. reflexivity.
  - intros _ E. rewrite Hpr in E. discriminate E.
Qed.

(* castling: the two rook squares are not the king's squares and hold the own rook or nothing *)
Theorem apply_consistent_castle : forall b m, Part b -> b_zob b = scratch_piece_hash b ->
  m_src m < 64 -> m_dst m < 64 ->
  raw_get b (m_src m) = Some (b_turn b, King) -> raw_get b (m_dst m) = None ->
  (forall s, s < 64 -> mem (castle_rook_mv (b_turn b) m) s = true ->
     s <> m_src m /\ s <> m_dst m /\ (raw_get b s = Some (b_turn b, Rook) \/ raw_get b s = None)) ->
  Part (apply b m) /\ b_zob (apply b m) = scratch_piece_hash (apply b m).
Proof.
  intros b m P C Hs Hd Hsrc Hdst Hr.
  apply (apply_consistent_gen b m King); try assumption.
  - left. exact Hdst.
  - intros _ _ _. exact Hr.
  - intros E. discriminate E.
Qed.

(* en passant: the victim square is neither end of the move and holds an enemy pawn *)
Theorem apply_consistent_en_passant : forall b m, Part b -> b_zob b = scratch_piece_hash b ->
  m_src m < 64 -> m_dst m < 64 ->
  raw_get b (m_src m) = Some (b_turn b, Pawn) -> raw_get b (m_dst m) = None ->
  ep_victim_sq (b_turn b) m < 64 -> ep_victim_sq (b_turn b) m <> m_src m -> ep_victim_sq (b_turn b) m <> m_dst m ->
  raw_get b (ep_victim_sq (b_turn b) m) = Some (opp (b_turn b), Pawn) ->
  Part (apply b m) /\ b_zob (apply b m) = scratch_piece_hash (apply b m).
Proof.
  intros b m P C Hs Hd Hsrc Hdst A0 A1 A2 A3.
  apply (apply_consistent_gen b m Pawn); try assumption.
  - left. exact Hdst.
  - intros _ _ N. contradiction N. reflexivity.
  - intros _ _ _ _. repeat split; assumption.
Qed.

(* what remains open: that `is_legal` (on a board accepted by `validate`) implies the local hypotheses of
   apply_consistent_gen, i.e. the statement of props/C04.v *)
Definition apply_legal_consistent_statement : Prop :=
  forall b m, Part b -> b_zob b = scratch_piece_hash b -> validate b = None -> is_legal b m = true ->
    Part (apply b m) /\ b_zob (apply b m) = scratch_piece_hash (apply b m).

Print Assumptions raw_get_spec.
Print Assumptions scratch_toggle.
Print Assumptions board_xor_consistent.
Print Assumptions Part_raw_xor.
Print Assumptions eq_boards_eq_hash.
Print Assumptions parse_consistent.
Print Assumptions apply_consistent_gen.
Print Assumptions apply_consistent.
Print Assumptions apply_consistent_promotion.
Print Assumptions apply_consistent_castle.
Print Assumptions apply_consistent_en_passant.
