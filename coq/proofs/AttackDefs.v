(* C01 / C03 - vocabulary and STATEMENTS of the attack layer shared by the legality proofs
   (pin filter, king steps, castling, en passant, freshness of the incremental pin/check state).
   Definitions and statements only; the proofs are in AttackFacts.v. *)
From Coq Require Import NArith ZArith List Bool.
From Chess Require Import base.Bits base.Types base.BitBoard geom.Geometry model.Board model.MoveGen model.Apply spec.Rules.
From Chess Require Import spec.IterSpec proofs.HashFacts proofs.InvFacts proofs.LegalDefs.
Import ListNotations.
Local Open Scope N_scope.

(* does a man (c, pc) standing on t attack the square s when the occupied squares are occ?
   Written from s's point of view, exactly like Board.attackers_of. *)
Definition att_from (pc : piece) (c : color) (s occ t : N) : bool :=
  match pc with
  | Pawn => mem (pawn_att_geo (opp c) s) t
  | Knight => mem (knight_geo s) t
  | King => mem (king_geo s) t
  | Bishop => mem (bishop_attacks s occ) t
  | Rook => mem (rook_attacks s occ) t
  | Queen => mem (bishop_attacks s occ) t || mem (rook_attacks s occ) t
  end.

(* t lies on a ray from k along which a man of kind pc slides *)
Definition slider_kind (pc : piece) (k t : N) : bool :=
  match pc with
  | Bishop => mem (bishop_rays_geo k) t
  | Rook => mem (rook_rays_geo k) t
  | Queen => mem (bishop_rays_geo k) t || mem (rook_rays_geo k) t
  | _ => false
  end.

(* (AT1) membership in the attacker set, man by man *)
Definition attackers_mem_statement : Prop :=
  forall b c s occ t, Part b -> s < 64 -> t < 64 ->
    (mem (attackers_of b c s occ) t = true <->
     exists pc, raw_get b t = Some (c, pc) /\ att_from pc c s occ t = true).

(* (AT2) a slider attacks along its rays iff nothing stands strictly between *)
Definition slider_att_statement : Prop :=
  forall pc c s occ t, s < 64 -> (pc = Bishop \/ pc = Rook \/ pc = Queen) ->
    att_from pc c s occ t = slider_kind pc s t && none (bb_and occ (between_geo s t)).

(* (AT3) the kings of a Good board *)
Definition kings_statement : Prop :=
  forall b c, Good b ->
    king_sq b c < 64 /\ raw_get b (king_sq b c) = Some (c, King)
    /\ (forall s, s < 64 -> raw_get b s = Some (c, King) -> s = king_sq b c)
    /\ mem (king_geo (king_sq b c)) (king_sq b (opp c)) = false.

(* (AT4) the cached checkers are the enemy men (the king aside) that attack the mover's king *)
Definition checkers_spec_statement : Prop :=
  forall b t, Good b ->
    (mem (b_checkers b) t = true <->
     t < 64 /\ exists pc, raw_get b t = Some (opp (b_turn b), pc) /\ pc <> King
                          /\ att_from pc (opp (b_turn b)) (ksq b) (all_occ b) t = true).

(* (AT5) the cached pinned set: x is the only man strictly between the mover's king and an enemy slider
   that looks along that ray (x may be of either colour) *)
Definition pinned_spec_statement : Prop :=
  forall b x, Good b ->
    (mem (b_pinned b) x = true <->
     x < 64 /\ exists t pc, t < 64 /\ raw_get b t = Some (opp (b_turn b), pc)
                            /\ slider_kind pc (ksq b) t = true
                            /\ bb_and (all_occ b) (between_geo (ksq b) t) = from_pos x).

(* (AT6) placement after make-move for every move with a destination kind (generated or pseudo-legal) *)
Definition after_move_statement : Prop :=
  forall b m pc promo, Good b -> move_ok b m pc promo ->
    Part (apply b m) /\ forall s, s < 64 -> raw_get (apply b m) s = after5 b m pc s.

(* (AT7) safe_after, man by man: no enemy man attacks the mover's king on the successor board *)
Definition safe_after_spec_statement : Prop :=
  forall b m pc promo, Good b -> move_ok b m pc promo ->
    let b' := apply b m in
    let k' := if piece_eqb pc King then m_dst m else ksq b in
    king_sq b' (b_turn b) = k' /\
    (safe_after b m = true <->
     forall t pc', t < 64 -> raw_get b' t = Some (opp (b_turn b), pc') ->
       att_from pc' (opp (b_turn b)) k' (all_occ b') t = false).
