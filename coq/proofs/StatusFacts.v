(* C03 - check and status reports of a Good board agree with the rules.
     in_check_good   : Board.in_check b = Rules.in_check (abs b)
     no_moves_good   : mg_is_empty (legals_gen b) = true <-> legal_moves (abs b) = []     (given exactness)
     state_good      : Board::state = the rules' classification (mate / draw / check / running)
     mate_good       : "no generated move and in check" = Rules.is_mate
   Axiom-free. *)
From Coq Require Import NArith ZArith List Bool Lia ZifyBool ZifyN Permutation.
From Chess Require Import base.Bits base.Types base.BitBoard geom.Geometry model.Board model.MoveGen model.Apply spec.Rules.
From Chess Require Import spec.IterSpec proofs.IterFacts proofs.CoreFacts proofs.HashFacts proofs.InvFacts proofs.LegalDefs proofs.AttackDefs.
From Chess Require proofs.BridgeFacts.
From Chess Require Import proofs.AttackFacts proofs.SafeFacts proofs.KingFacts.
Import ListNotations.
Local Open Scope N_scope.

Lemma ksq_lt : forall b, Good b -> ksq b < 64.
Proof. intros b G. exact (proj1 (kings b (b_turn b) G)). Qed.

Theorem in_check_good : forall b, Good b -> Board.in_check b = Rules.in_check (Board.abs b).
Proof.
  intros b G. pose proof (inv_part b (good_inv b G)) as P.
  rewrite BridgeFacts.board_in_check_unfold, BridgeFacts.rules_in_check_unfold, BridgeFacts.stm_abs.
  rewrite BridgeFacts.in_check_cells_unfold.
  rewrite (BridgeFacts.king_square_abs b (b_turn b) (SafeFacts.Part_bridge b P) (Good_own_king b G)).
  fold (ksq b).
  pose proof (no_check_spec kings checkers_spec b G) as H1.
  pose proof (attacked_spec attackers_mem b (opp (b_turn b)) (ksq b) P (ksq_lt b G)) as H2.
  unfold any, none in *.
  destruct (b_checkers b =? 0) eqn:E1; destruct (attacked_by (cells (Board.abs b)) (opp (b_turn b)) (ksq b)) eqn:E2;
    cbn [negb]; try reflexivity.
  - pose proof (proj2 H2 (proj1 H1 eq_refl)) as C. discriminate C.
  - pose proof (proj2 H1 (proj1 H2 eq_refl)) as C. discriminate C.
Qed.

Section WithExact.
  Hypothesis EX : movegen_exact_statement.

  Lemma legals_nil_iff : forall b, Good b -> (legals b = [] <-> legal_moves (Board.abs b) = []).
  Proof.
    intros b G. pose proof (legals_drain b) as Hp. split; intros H.
    - destruct (legal_moves (Board.abs b)) as [|m r] eqn:E; [reflexivity|exfalso].
      assert (In m (legals b)) as Hin.
      { apply (Permutation_in m (Permutation_sym Hp)). apply (EX b m G). rewrite E. left. reflexivity. }
      rewrite H in Hin. destruct Hin.
    - destruct (legals b) as [|m r] eqn:E; [reflexivity|exfalso].
      assert (In m (legal_moves (Board.abs b))) as Hin.
      { apply (EX b m G). apply (Permutation_in m Hp). left. reflexivity. }
      rewrite H in Hin. destruct Hin.
  Qed.

  Lemma is_empty_legals : forall b, mg_is_empty (legals_gen b) = true <-> legals b = [].
  Proof.
    intros b. rewrite (is_empty_exact _ (legals_gen_wf b)).
    pose proof (drain_complete _ (legals_gen_wf b)) as Hp. fold (legals b) in Hp. split; intros H.
    - rewrite H in Hp. apply Permutation_sym, Permutation_nil in Hp. exact Hp.
    - rewrite H in Hp. apply Permutation_nil in Hp. exact Hp.
  Qed.

  Theorem no_moves_good : forall b, Good b ->
    (mg_is_empty (legals_gen b) = true <-> legal_moves (Board.abs b) = []).
  Proof. intros b G. rewrite is_empty_legals. apply legals_nil_iff, G. Qed.

  Definition gstate_of (s : status) : gstate :=
    match s with CheckMate => GCheckMate | Draw => GStaleMate | Check => GCheck | Running => GRunning end.

  Theorem state_good : forall b, Good b -> state b = gstate_of (classify (Board.abs b)).
  Proof.
    intros b G. unfold state, classify. rewrite <- (in_check_good b G).
    change (hm (Board.abs b)) with (b_half b).
    pose proof (no_moves_good b G) as Hn.
    destruct (mg_is_empty (legals_gen b)) eqn:E.
    - rewrite (proj1 Hn eq_refl). cbn [andb orb].
      destruct (Board.in_check b); reflexivity.
    - destruct (legal_moves (Board.abs b)) as [|m r] eqn:El.
      + pose proof (proj2 Hn eq_refl) as C. discriminate C.
      + cbn [andb orb]. destruct (100 <=? b_half b); [reflexivity|]. destruct (Board.in_check b); reflexivity.
  Qed.

  Theorem mate_good : forall b, Good b ->
    (mg_is_empty (legals_gen b) = true /\ Board.in_check b = true <-> is_mate (Board.abs b) = true).
  Proof.
    intros b G. unfold is_mate, classify. rewrite <- (in_check_good b G).
    pose proof (no_moves_good b G) as Hn. split.
    - intros [H1 H2]. rewrite (proj1 Hn H1), H2. reflexivity.
    - destruct (legal_moves (Board.abs b)) as [|m r] eqn:El.
      + cbn [andb orb]. destruct (Board.in_check b) eqn:Ec.
        * intros _. split; [exact (proj2 Hn eq_refl)|reflexivity].
        * intros H. discriminate H.
      + cbn [andb orb]. destruct (100 <=? hm (Board.abs b)); [intros H; discriminate H|].
        destruct (Board.in_check b); intros H; discriminate H.
  Qed.
End WithExact.
