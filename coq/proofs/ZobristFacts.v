(* C04: the 794 regenerated hash keys are pairwise distinct and non-zero (complete sweep), and the
   consequences for the full hash: each component toggles the value. *)
From Coq Require Import NArith List Bool Lia.
From Chess Require Import base.Bits base.Types gen.T_zobrist model.Board.
Import ListNotations.
Local Open Scope N_scope.

Definition all_keys : list N := piece_zobrist_tbl ++ castle_zobrist_tbl ++ ep_zobrist_tbl ++ turn_zobrist_tbl.

Fixpoint nodupb (l : list N) : bool :=
  match l with [] => true | x :: r => negb (existsb (N.eqb x) r) && nodupb r end.
Lemma nodupb_spec : forall l, nodupb l = true -> NoDup l.
Proof.
  induction l as [|x r IH]; intros H; [constructor|].
  cbn [nodupb] in H. apply andb_prop in H. destruct H as [Hx Hr]. constructor; [|apply IH; exact Hr].
  intros Hin. apply negb_true_iff in Hx. rewrite <- not_true_iff_false in Hx. apply Hx.
  apply existsb_exists. exists x. split; [exact Hin|apply N.eqb_refl].
Qed.

Lemma keys_count : length piece_zobrist_tbl = 768%nat /\ length castle_zobrist_tbl = 16%nat
  /\ length ep_zobrist_tbl = 8%nat /\ length turn_zobrist_tbl = 2%nat /\ length all_keys = 794%nat.
Proof. repeat split; vm_compute; reflexivity. Qed.

Lemma sweep_keys_nodup : nodupb all_keys = true.
Proof. vm_compute. reflexivity. Qed.
Lemma sweep_keys_nonzero : forallb (fun k => negb (k =? 0)) all_keys = true.
Proof. vm_compute. reflexivity. Qed.
Lemma sweep_keys_wf : forallb (fun k => k <? 2 ^ 64) all_keys = true.
Proof. vm_compute. reflexivity. Qed.

Theorem keys_distinct_nonzero : NoDup all_keys /\ ~ In 0 all_keys /\ (forall k, In k all_keys -> wf64 k).
Proof.
  split; [apply nodupb_spec, sweep_keys_nodup|]. split.
  - intros Hin. pose proof sweep_keys_nonzero as H. rewrite forallb_forall in H.
    specialize (H 0 Hin). discriminate H.
  - intros k Hin. pose proof sweep_keys_wf as H. rewrite forallb_forall in H.
    apply N.ltb_lt. exact (H k Hin).
Qed.

(* counter-example twin: first duplicated or zero key *)
Fixpoint first_dup (l : list N) (i : N) : option (N * N) :=
  match l with [] => None | x :: r => if existsb (N.eqb x) r || (x =? 0) then Some (i, x) else first_dup r (i + 1) end.
Definition cex_keys := first_dup all_keys 0.

(* the full hash is the xor of four components; changing exactly one component to a different key changes it *)
Lemma lxor_cancel_l : forall a b c, N.lxor a b = N.lxor a c -> b = c.
Proof.
  intros a b c H. assert (E : N.lxor a (N.lxor a b) = N.lxor a (N.lxor a c)) by (rewrite H; reflexivity).
  rewrite <- !N.lxor_assoc, !N.lxor_nilpotent, !N.lxor_0_l in E. exact E.
Qed.

Lemma zobrist_eq_of_fields : forall a b,
  b_zob a = b_zob b -> b_turn a = b_turn b -> b_ep a = b_ep b -> b_rights a = b_rights b -> zobrist a = zobrist b.
Proof. intros a b H1 H2 H3 H4. unfold zobrist. rewrite H1, H2, H3, H4. reflexivity. Qed.

(* every component influences the hash: replacing one key by a different one changes the xor *)
Lemma component_influences : forall rest k1 k2, k1 <> k2 -> N.lxor rest k1 <> N.lxor rest k2.
Proof. intros rest k1 k2 Hne H. apply lxor_cancel_l in H. contradiction. Qed.
