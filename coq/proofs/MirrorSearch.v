(* C13 -- colour symmetry of the search model, final assembly.
   With the board-level mirror facts (MirrorBoard.v, here Section hypotheses with the statements agreed
   with the coordinator) the tree explored below a move on a board and the tree explored below the mirrored
   move on the mirrored board are colour mirrors of each other up to order and multiplicity of children
   ([tmir], [atree_mirror], [root_tree_mirror]); minimax negates across [tmir] ([minimax_tmir]); hence the
   score of a completed deepening pass negates ([search_score_mirror]).  Repetition table tf = [].  Axiom-free. *)
From Coq Require Import NArith ZArith List Bool Lia ZifyBool ZifyN Permutation.
From Chess Require Import base.Bits base.Types base.BitBoard model.Score model.Board model.MoveGen model.Apply
  model.Search proofs.BitsFacts proofs.BitBoardFacts spec.IterSpec proofs.IterFacts proofs.ScoreOrder
  proofs.SearchOrder proofs.SearchFacts proofs.SearchTree.
From Chess Require spec.Rules spec.GameTree proofs.GameTreeFacts proofs.HashFacts proofs.InvFacts proofs.LegalDefs
  proofs.AttackFacts proofs.FreshFacts proofs.ReachableMore proofs.MirrorEval.
Import ListNotations.
Local Open Scope N_scope.

Notation mirror_move := Rules.mirror_move.
Notation mirror_sq := Rules.mirror_sq.
Notation Mir := MirrorEval.Mir.

(* ------------------------------------------------------------------ *)
(** * 1. Mirror relation on game trees *)

(* t' is the colour mirror of t up to the order and multiplicity of children *)
Inductive tmir : tree -> tree -> Prop :=
| TM_leaf : forall v, tmir (GT.Leaf v) (GT.Leaf (neg v))
| TM_node : forall cs cs',
    (forall c, In c cs -> exists c', In c' cs' /\ tmir c c') ->
    (forall c', In c' cs' -> exists c, In c cs /\ tmir c c') ->
    tmir (GT.Node cs) (GT.Node cs').

Lemma fold_pick_neg : forall w l a,
  neg (fold_left (GT.pick w) l a) = fold_left (GT.pick (negb w)) (map neg l) (neg a).
Proof.
  intros w l. induction l as [|x l IH]; intros a; cbn [map fold_left]; [reflexivity|].
  rewrite IH, GF.neg_pick. reflexivity.
Qed.

Theorem minimax_tmir : forall t t' w, tmir t t' -> GT.minimax (negb w) t' = neg (GT.minimax w t).
Proof.
  induction t as [v|cs IH] using GT.tree_ind'; intros t' w H; inversion H as [v'|cs0 cs' H1 H2]; subst.
  - reflexivity.
  - cbn [GT.minimax]. rewrite fold_pick_neg, <- GF.neg_worst. apply fold_pick_same_set.
    rewrite Forall_forall in IH. intros x. rewrite map_map, !in_map_iff. split.
    + intros (c' & <- & Hc'). destruct (H2 c' Hc') as (c & Hc & Hm).
      exists c. split; [|exact Hc]. symmetry. apply (IH c Hc c' (negb w) Hm).
    + intros (c & <- & Hc). destruct (H1 c Hc) as (c' & Hc' & Hm).
      exists c'. split; [|exact Hc']. apply (IH c Hc c' (negb w) Hm).
Qed.

(* ------------------------------------------------------------------ *)
(** * Small facts about moves and the mirror *)

Lemma mirror_move_invol : forall m, mirror_move (mirror_move m) = m.
Proof.
  intros [s d p]. unfold Rules.mirror_move, Rules.mk. cbn [m_src m_dst m_promo].
  rewrite !MirrorEval.msq_invol. reflexivity.
Qed.

Lemma mirror_move_promo : forall m, m_promo (mirror_move m) = m_promo m.
Proof. reflexivity. Qed.

Lemma legals_dst_lt : forall b m, In m (legals b) -> m_dst m < 64.
Proof.
  intros b m H. apply (content_dst_lt (legals_gen b) m (legals_gen_promo0 b)). apply legals_in_content, H.
Qed.

Lemma masked_drain_legal : forall b M m, In m (mg_drain (mg_set_mask (legals_gen b) M)) -> In m (legals b).
Proof.
  intros b M m H. apply (content_in_legals b m (small_root_all b)).
  apply (sub_gen_drain_in (mg_set_mask (legals_gen b) M) (legals_gen b) m); [|exact H].
  apply sub_gen_set_mask, sub_gen_refl; [apply legals_gen_wf|apply legals_gen_promo0].
Qed.

Lemma mate_score_neg : forall c d, mate_score (opp c) d = neg (mate_score c d).
Proof. intros [] d; reflexivity. Qed.

Lemma perm_mirror_in : forall L L' m, Permutation L' (map mirror_move L) ->
  (In m L -> In (mirror_move m) L') /\ (In m L' -> exists m0, In m0 L /\ m = mirror_move m0).
Proof.
  intros L L' m HP. split.
  - intros H. apply (Permutation_in _ (Permutation_sym HP)). apply in_map, H.
  - intros H. apply (Permutation_in _ HP) in H. apply in_map_iff in H. destruct H as (m0 & <- & H0).
    exists m0. split; [exact H0|reflexivity].
Qed.

(* the children lemma: two child lists related move by move *)
Lemma tmir_children : forall (f f' : move -> option tree) L L' cs cs',
  opt_all (map f L) = Some cs -> opt_all (map f' L') = Some cs' ->
  Permutation L' (map mirror_move L) ->
  (forall m c c', In m L -> f m = Some c -> f' (mirror_move m) = Some c' -> tmir c c') ->
  tmir (GT.Node cs) (GT.Node cs').
Proof.
  intros f f' L L' cs cs' Hcs Hcs' HP Hrel.
  destruct (opt_all_force _ _ _ _ Hcs) as (-> & Hall). destruct (opt_all_force _ _ _ _ Hcs') as (-> & Hall').
  constructor.
  - intros c Hc. apply in_map_iff in Hc. destruct Hc as (m & <- & Hm).
    pose proof (proj1 (perm_mirror_in L L' m HP) Hm) as Hm'.
    exists (force (f' (mirror_move m))). split; [apply in_map_iff; exists (mirror_move m); split; [reflexivity|exact Hm']|].
    apply (Hrel m _ _ Hm (Hall m Hm) (Hall' _ Hm')).
  - intros c' Hc'. apply in_map_iff in Hc'. destruct Hc' as (m' & <- & Hm').
    destruct (proj2 (perm_mirror_in L L' m' HP) Hm') as (m & Hm & ->).
    exists (force (f m)). split; [apply in_map_iff; exists m; split; [reflexivity|exact Hm]|].
    apply (Hrel m _ _ Hm (Hall m Hm) (Hall' _ Hm')).
Qed.

(* the per-path repetition lists of the two searches *)
Definition bl_rel (bl bl' : blist) : Prop :=
  Forall2 (fun e e' => Mir (fst e) (fst e') /\ snd e = snd e') bl bl'.

(* ------------------------------------------------------------------ *)
(** * 2.-4. The search through the mirror (board-level facts as hypotheses) *)

Section Mirror.
  Hypothesis mir_legals : forall b b', Mir b b' -> Permutation (legals b') (map mirror_move (legals b)).
  Hypothesis mir_step : forall b b' m, Mir b b' -> b_half b < 65535 -> In m (legals b) ->
    Mir (apply b m) (apply b' (mirror_move m)).
  Hypothesis mir_in_check : forall b b', Mir b b' -> Board.in_check b' = Board.in_check b.
  Hypothesis mir_is_empty : forall b b', Mir b b' -> mg_is_empty (legals_gen b') = mg_is_empty (legals_gen b).
  Hypothesis mir_capture : forall b b' m, Mir b b' -> m_dst m < 64 ->
    (match raw_get b' (m_dst (mirror_move m)) with Some _ => true | None => false end)
    = (match raw_get b (m_dst m) with Some _ => true | None => false end).
  Hypothesis mir_caps : forall b b', Mir b b' ->
    Permutation (mg_drain (mg_set_mask (legals_gen b') (colors b' (opp (b_turn b')))))
                (map mirror_move (mg_drain (mg_set_mask (legals_gen b) (colors b (opp (b_turn b)))))).
  Hypothesis mir_caps_empty : forall b b', Mir b b' ->
    mg_is_empty (mg_set_mask (legals_gen b') (colors b' (opp (b_turn b'))))
    = mg_is_empty (mg_set_mask (legals_gen b) (colors b (opp (b_turn b)))).
  Hypothesis mir_bl_new : forall b b', Mir b b' -> bl_rel (bl_new [] b) (bl_new [] b').
  Hypothesis mir_bl_add : forall bl bl' b b', bl_rel bl bl' -> Mir b b' -> bl_rel (bl_add bl [] b) (bl_add bl' [] b').
  Hypothesis mir_bl_head : forall bl bl', bl_rel bl bl' -> bl_head_count bl' = bl_head_count bl.

  Lemma was_capture_mirror : forall b b' m, Mir b b' -> In m (legals b) ->
    was_capture b' (mirror_move m) = was_capture b m.
  Proof. intros b b' m M Hm. unfold was_capture. apply mir_capture; [exact M|apply (legals_dst_lt b m Hm)]. Qed.

  Theorem atree_mirror : forall fuel c old old' mv remaining current bl bl' t t',
    Mir old old' -> b_half old < 65535 -> In mv (legals old) -> c = opp (b_turn old) -> bl_rel bl bl' ->
    atree [] fuel c old mv remaining current bl = Some t ->
    atree [] fuel (opp c) old' (mirror_move mv) remaining current bl' = Some t' ->
    tmir t t'.
  Proof.
    intros fuel. induction fuel as [|f IH]; intros c old old' mv remaining current bl bl' t t' M Hh Hmv Hc Hbl Ht Ht'.
    - rewrite atree_0 in Ht. discriminate.
    - rewrite atree_S in Ht, Ht'. cbv zeta in Ht, Ht'.
      rewrite (was_capture_mirror old old' mv M Hmv) in Ht'.
      pose proof (mir_step old old' mv M Hh Hmv) as M1.
      subst c.
      pose proof (proj1 (InvFacts.apply_turn_ep old mv)) as Hturn.
      revert Ht Ht' M1 Hturn. generalize (apply old mv) as b. generalize (apply old' (mirror_move mv)) as b'.
      intros b' b. generalize (was_capture old mv) as wc. intros wc Ht Ht' M1 Hturn.
      rewrite <- Hturn in Ht, Ht'. clear Hturn.
      pose proof (MirrorEval.mir_turn b b' M1) as Hturn'.
      rewrite (MirrorEval.mir_insufficient b b' M1) in Ht'.
      destruct (wc && insufficient_material b); [injection Ht as <-; injection Ht' as <-; exact (TM_leaf (SRaw 0))|].
      rewrite (mir_is_empty b b' M1), (mir_in_check b b' M1) in Ht'.
      destruct (mg_is_empty (legals_gen b)).
      { injection Ht as <-. injection Ht' as <-. destruct (Board.in_check b); [|exact (TM_leaf (SRaw 0))].
        rewrite mate_score_neg. apply TM_leaf. }
      rewrite (MirrorEval.mir_half b b' M1) in Ht'.
      destruct (100 <=? b_half b) eqn:Hhalf; [injection Ht as <-; injection Ht' as <-; exact (TM_leaf (SRaw 0))|].
      assert (bl_rel (if wc then bl_new [] b else bl_add bl [] b) (if wc then bl_new [] b' else bl_add bl' [] b')) as Hbl1
        by (destruct wc; [apply mir_bl_new, M1|apply mir_bl_add; [exact Hbl|exact M1]]).
      rewrite (mir_bl_head _ _ Hbl1) in Ht'.
      destruct (bl_head_count (if wc then bl_new [] b else bl_add bl [] b) =? 3);
        [injection Ht as <-; injection Ht' as <-; exact (TM_leaf (SRaw 0))|].
      assert (b_half b < 65535) as Hh1 by lia.
      (* the recursive calls *)
      assert (forall L m c0 c0', (forall x, In x L -> In x (legals b)) -> In m L ->
                atree [] f (opp (b_turn b)) b m (sat_sub1 remaining) (current + 1)
                  (if wc then bl_new [] b else bl_add bl [] b) = Some c0 ->
                atree [] f (opp (opp (b_turn b))) b' (mirror_move m) (sat_sub1 remaining) (current + 1)
                  (if wc then bl_new [] b' else bl_add bl' [] b') = Some c0' -> tmir c0 c0') as Hrec.
      { intros L m c0 c0' HL Hm E E'.
        exact (IH (opp (b_turn b)) b b' m _ _ _ _ c0 c0' M1 Hh1 (HL m Hm) eq_refl Hbl1 E E'). }
      destruct (remaining =? 0); [destruct wc|]; cbn [andb] in Ht, Ht'.
      + (* quiescence: capture-masked generators *)
        rewrite <- Hturn' in Ht'.
        rewrite (mir_caps_empty b b' M1) in Ht'.
        destruct (mg_is_empty (mg_set_mask (legals_gen b) (colors b (opp (b_turn b))))).
        { injection Ht as <-. injection Ht' as <-. rewrite (MirrorEval.mir_eval b b' M1). apply TM_leaf. }
        destruct (opt_all _) as [cs|] eqn:Hcs in Ht; [|discriminate]. injection Ht as <-.
        destruct (opt_all _) as [cs'|] eqn:Hcs' in Ht'; [|discriminate]. injection Ht' as <-.
        refine (tmir_children _ _ _ _ _ _ Hcs Hcs' (mir_caps b b' M1) _).
        intros m c0 c0' Hm E E'. rewrite Hturn' in E'.
        exact (Hrec _ m c0 c0' (fun x Hx => masked_drain_legal b _ x Hx) Hm E E').
      + injection Ht as <-. injection Ht' as <-. rewrite (MirrorEval.mir_eval b b' M1). apply TM_leaf.
      + destruct (opt_all _) as [cs|] eqn:Hcs in Ht; [|discriminate]. injection Ht as <-.
        destruct (opt_all _) as [cs'|] eqn:Hcs' in Ht'; [|discriminate]. injection Ht' as <-.
        refine (tmir_children _ _ _ _ _ _ Hcs Hcs' (mir_legals b b' M1) _).
        intros m c0 c0' Hm E E'.
        exact (Hrec (legals b) m c0 c0' (fun x Hx => Hx) Hm E E').
  Qed.

  Theorem root_tree_mirror : forall fuel root root' depth t t', Mir root root' -> b_half root < 65535 ->
    root_tree [] fuel root depth = Some t -> root_tree [] fuel root' depth = Some t' -> tmir t t'.
  Proof.
    intros fuel root root' depth t t' M Hh Ht Ht'. unfold root_tree, moves_tree in Ht, Ht'.
    destruct (opt_all _) as [cs|] eqn:Hcs in Ht; [|discriminate]. injection Ht as <-.
    destruct (opt_all _) as [cs'|] eqn:Hcs' in Ht'; [|discriminate]. injection Ht' as <-.
    refine (tmir_children _ _ _ _ _ _ Hcs Hcs' (mir_legals root root' M) _).
    intros m c0 c0' Hm E E'. unfold rchild in E, E'. rewrite (MirrorEval.mir_turn root root' M) in E'.
    exact (atree_mirror fuel (opp (b_turn root)) root root' m depth 1 _ _ c0 c0' M Hh Hm eq_refl
             (mir_bl_new root root' M) E E').
  Qed.

  (* mirror images have the same number of men *)
  Lemma mir_men : forall b b', Mir b b' -> men b' = men b.
  Proof.
    intros b b' M. unfold men. f_equal.
    pose proof (AttackFacts.Good_Part b (MirrorEval.mir_good_l _ _ M)) as P.
    pose proof (AttackFacts.Good_Part b' (MirrorEval.mir_good_r _ _ M)) as P'.
    apply MirrorEval.count_mirror.
    - apply (FreshFacts.wf64_all_occ b P).
    - apply (FreshFacts.wf64_all_occ b' P').
    - intros s Hs. apply (MirrorEval.mir_occ_mem b b' s M Hs).
  Qed.

  Lemma nopromo_prev_unique : forall root prev, LegalDefs.Good root -> prev_legal root prev ->
    (forall m, In m (legals root) -> m_promo m = None) -> prev_unique root prev.
  Proof.
    intros root prev G Hprev Hnp. apply (prev_unique_nonpromo root prev G Hprev).
    intros p E. apply Hnp, Hprev, E.
  Qed.

  (* THE THEOREM: the score of a completed pass negates under the colour mirror.
     The two runs may have different timeouts (k, k'), different poll states and different previous-best moves. *)
  Theorem search_score_mirror : forall k k' fuel root root' depth prev prev' st st0 sc sc' best best' st' st0',
    Mir root root' -> b_half root < 65535 ->
    (forall m, In m (legals root) -> m_promo m = None) ->
    prev_legal root prev -> prev_legal root' prev' ->
    (N.to_nat depth + men root < fuel)%nat ->
    pass k [] fuel root depth prev st = PassDone sc best st' ->
    pass k' [] fuel root' depth prev' st0 = PassDone sc' best' st0' ->
    sc' = neg sc.
  Proof.
    intros k k' fuel root root' depth prev prev' st st0 sc sc' best best' st' st0' M Hh Hnp Hprev Hprev' Hfuel Hp Hp'.
    pose proof (MirrorEval.mir_good_l _ _ M) as G. pose proof (MirrorEval.mir_good_r _ _ M) as G'.
    assert (forall m, In m (legals root') -> m_promo m = None) as Hnp'.
    { intros m Hm. destruct (proj2 (perm_mirror_in _ _ m (mir_legals root root' M)) Hm) as (m0 & Hm0 & ->).
      rewrite mirror_move_promo. apply Hnp, Hm0. }
    assert (N.to_nat depth + men root' < fuel)%nat as Hfuel' by (rewrite (mir_men root root' M); exact Hfuel).
    destruct (search_depth_score k [] fuel root depth prev st G Hprev (nopromo_prev_unique root prev G Hprev Hnp) Hfuel)
      as (t & Ht & _ & Hsc).
    destruct (search_depth_score k' [] fuel root' depth prev' st0 G' Hprev' (nopromo_prev_unique root' prev' G' Hprev' Hnp') Hfuel')
      as (t' & Ht' & _ & Hsc').
    rewrite (Hsc _ _ _ Hp), (Hsc' _ _ _ Hp'), (MirrorEval.mir_turn root root' M), wbool_opp.
    apply minimax_tmir. exact (root_tree_mirror fuel root root' depth t t' M Hh Ht Ht').
  Qed.

  (* the same for the score returned by Engine::search (iterative deepening): when both searches stop after
     the same depth, the scores are negatives of each other *)
  Theorem search_result_mirror : forall k k' passes passes' fuel root root' m m' sc sc' d f f',
    Mir root root' -> b_half root < 65535 ->
    (forall x, In x (legals root) -> m_promo x = None) ->
    (men root < fuel)%nat ->
    search k [] passes fuel root = (Some m, sc, d, f) ->
    search k' [] passes' fuel root' = (Some m', sc', d, f') ->
    sc' = neg sc.
  Proof.
    intros k k' passes passes' fuel root root' m m' sc sc' d f f' M Hh Hnp Hfuel H H'.
    destruct (search_last_pass _ _ _ _ _ _ _ _ _ H) as (prev & st1 & st2 & Hprev & Hp).
    destruct (search_last_pass _ _ _ _ _ _ _ _ _ H') as (prev' & st1' & st2' & Hprev' & Hp').
    assert (N.to_nat d + men root < fuel + N.to_nat d)%nat as Hf by lia.
    exact (search_score_mirror _ _ _ _ _ _ _ _ _ _ _ _ _ _ _ _ M Hh Hnp Hprev Hprev' Hf Hp Hp').
  Qed.
End Mirror.

Print Assumptions minimax_tmir.
Print Assumptions atree_mirror.
Print Assumptions root_tree_mirror.
Print Assumptions search_score_mirror.
Print Assumptions search_result_mirror.
