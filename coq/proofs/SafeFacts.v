(* C01 component (A): on a Good board, legality in the rules = pseudo-legality + `safe_after`
   (the mover's king is not attacked on the successor board, bitboard level).
     legal_iff_safe : legal_iff_safe_statement
     parse_Good, standard_Good : parsed boards / the standard position are Good
   Axiom-free. *)
From Coq Require Import NArith ZArith List Bool Lia ZifyBool ZifyN.
From Chess Require Import base.Bits base.Types base.BitBoard base.Sweep geom.Geometry model.Board model.Fen model.MoveGen model.Apply spec.Rules.
From Chess Require Import proofs.BitsFacts proofs.BitBoardFacts.
From Chess Require proofs.SiteFacts proofs.BridgeFacts proofs.ApplyFacts proofs.FenFacts proofs.CoreFacts.
From Chess Require Import spec.IterSpec proofs.HashFacts proofs.InvFacts proofs.LegalDefs.
Import ListNotations.
Local Open Scope N_scope.

(* ------------------------------------------------------------------ *)
(** * Conversions between the duplicated vocabulary *)

Lemma Part_bridge : forall b, HashFacts.Part b -> BridgeFacts.Part b.
Proof.
  intros b P. constructor.
  - exact (part_wf_colors b P).
  - exact (part_wf_pieces b P).
  - exact (part_colors_disjoint b P).
  - exact (part_pieces_disjoint b P).
  - exact (part_cover b P).
Qed.

Lemma ep_ok_apply_facts : forall b, InvFacts.ep_ok b -> ApplyFacts.ep_ok b.
Proof. intros b H. exact H. Qed.

(* ------------------------------------------------------------------ *)
(** * The local conditions of make-move from `move_pre` *)

Lemma move_pre_castle : forall b m pc, ApplyFacts.move_pre b m pc ->
  is_castle_move pc m = true ->
  forall s, s < 64 -> mem (castle_rook_mv (b_turn b) m) s = true ->
    s <> m_src m /\ s <> m_dst m /\ (raw_get b s = Some (b_turn b, Rook) \/ raw_get b s = None).
Proof.
  intros b m pc MP Hc s Hs Hm.
  rewrite ApplyFacts.is_castle_move_bb in Hc. apply andb_true_iff in Hc. destruct Hc as [Hk Hbb].
  apply BridgeFacts.piece_eqb_eq' in Hk.
  pose proof (ApplyFacts.mp_src_lt b m pc MP) as Ls. pose proof (ApplyFacts.mp_dst_lt b m pc MP) as Ld.
  pose proof (ApplyFacts.mp_king b m pc MP Hk) as Hstep.
  destruct (ApplyFacts.king_facts (b_turn b) (m_src m) (m_dst m) Ls Ld Hstep) as (Fc & Fhome).
  rewrite Hbb in Fc. symmetry in Fc. apply N.eqb_eq in Fc.
  destruct (Fhome Fc) as (Esrc & Edst).
  destruct (ApplyFacts.mp_castle b m pc MP Hk Fc) as (Hrf & Hrt).
  rewrite ApplyFacts.castle_rook_mv_mask, ApplyFacts.mem_rook_mask in Hm by exact Hs.
  set (r := home_rank (b_turn b)) in *.
  assert (Hr : r = 0 \/ r = 7) by apply ApplyFacts.home_rank_cases.
  destruct Edst as [Edst|Edst].
  - assert (Ef : file_of (m_dst m) = 6) by (rewrite Edst; apply (ApplyFacts.file_rank_mk_sq 6 r); lia).
    rewrite Ef in Hm, Hrf, Hrt. change (6 <? 4) with false in Hm. change (6 =? 6) with true in Hrf, Hrt. cbv iota in Hm, Hrf, Hrt.
    rewrite Esrc, Edst. apply orb_true_iff in Hm. destruct Hm as [Hm|Hm]; apply N.eqb_eq in Hm; subst s.
    + split; [|split; [|left; exact Hrf]]; unfold mk_sq; lia.
    + split; [|split; [|right; exact Hrt]]; unfold mk_sq; lia.
  - assert (Ef : file_of (m_dst m) = 2) by (rewrite Edst; apply (ApplyFacts.file_rank_mk_sq 2 r); lia).
    rewrite Ef in Hm, Hrf, Hrt. change (2 <? 4) with true in Hm. change (2 =? 6) with false in Hrf, Hrt. cbv iota in Hm, Hrf, Hrt.
    rewrite Esrc, Edst. apply orb_true_iff in Hm. destruct Hm as [Hm|Hm]; apply N.eqb_eq in Hm; subst s.
    + split; [|split; [|left; exact Hrf]]; unfold mk_sq; lia.
    + split; [|split; [|right; exact Hrt]]; unfold mk_sq; lia.
Qed.

(* a king on the board: the king set of that colour is not empty *)
Lemma raw_king_nonzero : forall b s c, BridgeFacts.Part b -> s < 64 -> raw_get b s = Some (c, King) ->
  bb_and (colors b c) (b_king b) <> 0.
Proof.
  intros b s c PB Ls Rs.
  apply (BridgeFacts.raw_get_some b s _ _ PB Ls) in Rs. destruct Rs as [M1 M2].
  intros Z. assert (M : mem (bb_and (colors b c) (b_king b)) s = true).
  { rewrite mem_and. cbn [pieces] in M2. rewrite M1, M2. reflexivity. }
  rewrite Z, mem_0 in M. discriminate M.
Qed.

Section MovePre.
  Variables (b : board) (m : move) (pc : piece).
  Hypothesis I : Inv b.
  Hypothesis MP : ApplyFacts.move_pre b m pc.

  Let P := inv_part b I.
  Let C := inv_consistent b I.
  Let EP := inv_ep b I.

  Lemma mp_cond_castle : is_castle_move pc m = true -> pc <> Knight -> pc <> Pawn ->
    forall s, s < 64 -> mem (castle_rook_mv (b_turn b) m) s = true ->
      s <> m_src m /\ s <> m_dst m /\ (raw_get b s = Some (b_turn b, Rook) \/ raw_get b s = None).
  Proof. intros Hc _ _. exact (move_pre_castle b m pc MP Hc). Qed.

  Lemma mp_cond_ep : pc = Pawn -> m_promo m = None -> is_double_push (b_turn b) m = false ->
    enpassant_pos b = Some (m_dst m) ->
    ep_victim_sq (b_turn b) m < 64 /\ ep_victim_sq (b_turn b) m <> m_src m /\ ep_victim_sq (b_turn b) m <> m_dst m /\
    raw_get b (ep_victim_sq (b_turn b) m) = Some (opp (b_turn b), Pawn).
  Proof.
    intros _ _ _ He.
    exact (ep_conditions b m pc EP (ApplyFacts.mp_src_lt b m pc MP) (ApplyFacts.mp_src b m pc MP) He).
  Qed.

  Lemma move_pre_consistent : Part (apply b m) /\ consistent (apply b m).
  Proof.
    exact (apply_consistent_gen b m pc P C (ApplyFacts.mp_src_lt b m pc MP) (ApplyFacts.mp_dst_lt b m pc MP)
             (ApplyFacts.mp_src b m pc MP) (ApplyFacts.mp_dst b m pc MP) mp_cond_castle mp_cond_ep).
  Qed.

  Lemma move_pre_raw : forall s, s < 64 -> raw_get (apply b m) s = after5 b m pc s.
  Proof.
    exact (apply_raw_get b m pc P C (ApplyFacts.mp_src_lt b m pc MP) (ApplyFacts.mp_dst_lt b m pc MP)
             (ApplyFacts.mp_src b m pc MP) (ApplyFacts.mp_dst b m pc MP) mp_cond_castle mp_cond_ep).
  Qed.

  (* the mover still has a king after his own move *)
  Lemma move_pre_after5_king : bb_and (colors b (b_turn b)) (b_king b) <> 0 ->
    exists s, s < 64 /\ after5 b m pc s = Some (b_turn b, King).
  Proof.
    intros K.
    pose proof (Part_bridge b P) as PB.
    pose proof (ApplyFacts.mp_src_lt b m pc MP) as Ls. pose proof (ApplyFacts.mp_dst_lt b m pc MP) as Ld.
    pose proof (ApplyFacts.mp_src b m pc MP) as Hsrc. pose proof (ApplyFacts.mp_dst b m pc MP) as Hdst.
    destruct (piece_eqb pc King) eqn:EK.
    - apply BridgeFacts.piece_eqb_eq' in EK. exists (m_dst m). split; [exact Ld|].
      unfold after5. cbv zeta.
      assert (B : moved b m pc (m_dst m) = Some (b_turn b, pc)).
      { unfold moved. rewrite N.eqb_refl.
        destruct (N.eqb_spec (m_dst m) (m_src m)) as [E|_]; [|reflexivity].
        exfalso. exact (src_dst_ne b m pc Hsrc Hdst (eq_sym E)). }
      rewrite B. clear B. revert MP. rewrite EK. intros MP'.
      destruct (is_castle_move King m) eqn:Ec; [|reflexivity].
      destruct (mem (castle_rook_mv (b_turn b) m) (m_dst m)) eqn:Em; [|reflexivity].
      destruct (move_pre_castle b m King MP' Ec (m_dst m) Ld Em) as (_ & A & _). contradiction A; reflexivity.
    - assert (NK : pc <> King) by (intros E; rewrite E in EK; discriminate EK).
      set (k := king_sq b (b_turn b)).
      assert (Lk : k < 64) by (apply BridgeFacts.king_sq_lt; assumption).
      assert (Rk : raw_get b k = Some (b_turn b, King)).
      { destruct (BridgeFacts.king_sq_mem b (b_turn b) K) as [M1 M2].
        apply (BridgeFacts.raw_get_some b k _ _ PB Lk). split; assumption. }
      exists k. split; [exact Lk|]. rewrite <- Rk.
      apply after5_same.
      + intros E. rewrite E, Hsrc in Rk. injection Rk as Rk. contradiction.
      + intros E. rewrite E in Rk. destruct Hdst as [H|[cp H]]; rewrite H in Rk; [discriminate Rk|].
        injection Rk as Rk _. exact (opp_neq _ Rk).
      + intros He E. destruct (ep_conditions b m pc EP Ls Hsrc He) as (_ & _ & _ & Hv).
        rewrite <- E, Rk in Hv. injection Hv as Hv _. exact (opp_neq _ (eq_sym Hv)).
      + intros Hc. rewrite ApplyFacts.is_castle_move_not_king in Hc by exact NK. discriminate Hc.
  Qed.

  Lemma move_pre_king : bb_and (colors b (b_turn b)) (b_king b) <> 0 ->
    bb_and (colors (apply b m) (b_turn b)) (b_king (apply b m)) <> 0.
  Proof.
    intros K. destruct (move_pre_after5_king K) as (s & Ls & Rs).
    destruct move_pre_consistent as [P' _].
    apply (raw_king_nonzero (apply b m) s (b_turn b) (Part_bridge _ P') Ls).
    rewrite (move_pre_raw s Ls). exact Rs.
  Qed.
End MovePre.

(* ------------------------------------------------------------------ *)
(** * (A) legality = pseudo-legality + safe successor *)

Lemma one_king_nonzero : forall b c, one_king b c -> bb_and (colors b c) (b_king b) <> 0.
Proof.
  intros b c H Z. unfold one_king in H. rewrite Z, BridgeFacts.count_0 in H. discriminate H.
Qed.

Lemma Good_own_king : forall b, Good b -> bb_and (colors b (b_turn b)) (b_king b) <> 0.
Proof.
  intros b G. apply one_king_nonzero. destruct (b_turn b); [exact (good_wk b G)|exact (good_bk b G)].
Qed.

Lemma legal_safe_after : forall b m, Good b -> In m (pseudo (Board.abs b)) ->
  legal (Board.abs b) m = safe_after b m.
Proof.
  intros b m G Hp. pose proof (good_inv b G) as I.
  destruct (ApplyFacts.pseudo_move_pre b m Hp) as [pc MP].
  unfold legal. rewrite ApplyFacts.stm_abs.
  rewrite <- (ApplyFacts.apply_abs_cells b m pc (inv_part b I) MP (ep_ok_apply_facts b (inv_ep b I))).
  destruct (move_pre_consistent b m pc I MP) as [P' _].
  rewrite (BridgeFacts.in_check_cells_bridge (apply b m) (b_turn b) (Part_bridge _ P')
             (move_pre_king b m pc I MP (Good_own_king b G))).
  unfold safe_after. cbv zeta. rewrite (proj1 (apply_turn_ep b m)).
  unfold any, none. rewrite negb_involutive. reflexivity.
Qed.

Theorem legal_iff_safe : legal_iff_safe_statement.
Proof.
  intros b m G. unfold legal_moves. rewrite filter_In. split.
  - intros [Hp Hl]. split; [exact Hp|]. rewrite <- (legal_safe_after b m G Hp). exact Hl.
  - intros [Hp Hs]. split; [exact Hp|]. rewrite (legal_safe_after b m G Hp). exact Hs.
Qed.


(* ------------------------------------------------------------------ *)
(** * Parsed boards and the standard position are Good *)

(* the pin scan reads the placement and the side to move only *)
Lemma update_pin_info_ext : forall a b, same_placement a b -> b_turn a = b_turn b ->
  b_pinned (update_pin_info a) = b_pinned (update_pin_info b)
  /\ b_checkers (update_pin_info a) = b_checkers (update_pin_info b).
Proof.
  intros a b (E1 & E2 & E3 & E4 & E5 & E6 & E7 & E8) Et.
  unfold update_pin_info, king_sq, all_occ, colors. cbv zeta.
  rewrite Et, E1, E2, E3, E4, E5, E6, E7, E8.
  match goal with |- context [scan_sliders ?o ?k ?l] => destruct (scan_sliders o k l) as [pn ck] end.
  split; reflexivity.
Qed.

Lemma update_pin_info_same : forall b, same_placement (update_pin_info b) b.
Proof.
  intros b. destruct (FenFacts.update_pin_info_fields b) as (_ & _ & _ & _ & _ & _ & Ew & Ek & Ep).
  apply same_placement_intro; assumption.
Qed.

Lemma update_pin_info_fresh : forall b, fresh (update_pin_info b).
Proof.
  intros b. unfold fresh.
  destruct (FenFacts.update_pin_info_fields b) as (Et & _).
  destruct (update_pin_info_ext (update_pin_info b) b (update_pin_info_same b) Et) as [A B].
  split; symmetry; assumption.
Qed.

Lemma attackers_of_same : forall a b c s occ, same_placement a b -> attackers_of a c s occ = attackers_of b c s occ.
Proof.
  intros a b c s occ (E1 & E2 & E3 & E4 & E5 & E6 & E7 & E8).
  unfold attackers_of, colors. cbv zeta. rewrite E1, E2, E3, E4, E5, E6, E7, E8. reflexivity.
Qed.

Lemma king_sq_same : forall a b c, same_placement a b -> king_sq a c = king_sq b c.
Proof.
  intros a b c (E1 & E2 & _ & _ & _ & _ & _ & E8). unfold king_sq, colors. rewrite E1, E2, E8. reflexivity.
Qed.

Lemma all_occ_same : forall a b, same_placement a b -> all_occ a = all_occ b.
Proof. intros a b (E1 & E2 & _). unfold all_occ. rewrite E1, E2. reflexivity. Qed.

Lemma validate_none_safe : forall b, validate b = None ->
  any (attackers_of b (b_turn b) (king_sq b (opp (b_turn b))) (all_occ b)) = false.
Proof.
  intros b. unfold validate.
  destruct (has_kings b); cbn [negb]; [|discriminate].
  destruct (_ || _); [discriminate|].
  destruct (validate_en_passant b); cbn [negb]; [|discriminate].
  destruct (validate_castle_rights b); cbn [negb]; [|discriminate].
  destruct (any _); [discriminate|reflexivity].
Qed.

(* every board accepted by validate, with its pin information filled in, is Good *)
Lemma validate_Good : forall b0, Inv (update_pin_info b0) -> validate b0 = None -> Good (update_pin_info b0).
Proof.
  intros b0 I V. pose proof (update_pin_info_same b0) as S.
  destruct (FenFacts.update_pin_info_fields b0) as (Et & _).
  destruct (validate_none b0 V) as (HK & _ & _).
  assert (OK : forall c, one_king (update_pin_info b0) c).
  { intros c. unfold one_king. rewrite (same_placement_colors _ _ S c).
    destruct S as (_ & _ & _ & _ & _ & _ & _ & E8). rewrite E8. unfold bb_and. rewrite N.land_comm.
    exact (has_kings_counts b0 HK c). }
  constructor.
  - exact I.
  - apply OK.
  - apply OK.
  - apply update_pin_info_fresh.
  - unfold opp_safe. rewrite Et, (attackers_of_same _ _ _ _ _ S), (king_sq_same _ _ _ S), (all_occ_same _ _ S).
    pose proof (validate_none_safe b0 V) as H. unfold any in H. unfold none.
    apply negb_false_iff in H. exact H.
Qed.

Theorem parse_Good : forall s b, Fen.parse_fen_t s = Ret (POk b) -> Good b.
Proof.
  intros s b H. destruct (parse_Inv s b H) as [I _].
  apply FenFacts.parse_ok_shape in H.
  destruct H as (raw & rest & turn & r & epv & half & full & _ & E & Hv & _).
  subst b. apply validate_Good; assumption.
Qed.

Theorem standard_Good : Good standard.
Proof. exact (parse_Good _ _ CoreFacts.standard_parses). Qed.

Print Assumptions legal_iff_safe.
Print Assumptions parse_Good.
Print Assumptions standard_Good.
