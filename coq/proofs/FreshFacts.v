(* C03 - "the incremental pin / check state never goes stale":
   `Good` (LegalDefs) is preserved by make-move (`apply`) for every generated move that leaves the mover's king safe.
   The shared attack layer (AttackDefs AT1..AT7) is taken as premises. *)
From Coq Require Import NArith ZArith List Bool Lia ZifyBool ZifyN.
From Chess Require Import base.Bits base.Types base.BitBoard base.Sweep geom.Geometry model.Board model.MoveGen model.Apply.
From Chess Require Import proofs.BitsFacts proofs.BitBoardFacts proofs.PawnFacts spec.IterSpec.
From Chess Require proofs.SiteFacts proofs.BridgeFacts.
From Chess Require Import proofs.HashFacts proofs.InvFacts proofs.LegalDefs proofs.AttackDefs.
Import ListNotations.
Local Open Scope N_scope.

(* ------------------------------------------------------------------ *)
(** * 0. Small facts *)

Lemma one_king_own : forall b c, one_king b c -> bb_and (colors b c) (b_king b) <> 0.
Proof. intros b c H E. unfold one_king in H. rewrite E in H. vm_compute in H. discriminate H. Qed.

Lemma Good_own_king : forall b, Good b -> own_king b.
Proof.
  intros b G. unfold own_king. destruct (b_turn b); apply one_king_own; [apply (good_wk b G)|apply (good_bk b G)].
Qed.

Lemma Good_Part : forall b, Good b -> Part b.
Proof. intros b G. exact (inv_part b (good_inv b G)). Qed.

Lemma none_mem : forall a s, none a = true -> mem a s = false.
Proof. intros a s H. unfold none in H. apply N.eqb_eq in H. rewrite H. apply mem_0. Qed.

Lemma opp_ne : forall c, c <> opp c.
Proof. intros []; discriminate. Qed.

Lemma color_eqb_opp : forall c, color_eqb (opp c) c = false.
Proof. intros []; reflexivity. Qed.

(* nobody of the side to move attacks the other king *)
Lemma opp_safe_no_attacker : attackers_mem_statement -> kings_statement ->
  forall b s pc, Good b -> s < 64 -> raw_get b s = Some (b_turn b, pc) ->
    att_from pc (b_turn b) (king_sq b (opp (b_turn b))) (all_occ b) s = false.
Proof.
  intros AT1 AT3 b s pc G Hs Hr.
  destruct (att_from pc (b_turn b) (king_sq b (opp (b_turn b))) (all_occ b) s) eqn:E; [exfalso|reflexivity].
  destruct (AT3 b (opp (b_turn b)) G) as (Hk & _).
  pose proof (proj2 (AT1 b (b_turn b) _ (all_occ b) s (Good_Part b G) Hk Hs) (ex_intro _ pc (conj Hr E))) as M.
  rewrite (none_mem _ s (good_opp b G)) in M. discriminate M.
Qed.

(* ------------------------------------------------------------------ *)
(** * 1. Symmetry of the sliding attacks *)

Definition chk_ray_sym (a b : N) : bool :=
  Bool.eqb (mem (rook_rays_geo a) b) (mem (rook_rays_geo b) a)
  && Bool.eqb (mem (bishop_rays_geo a) b) (mem (bishop_rays_geo b) a)
  && (between_geo a b =? between_geo b a).
Lemma sweep_ray_sym : all_sq2 chk_ray_sym = true.
Proof. vm_compute. reflexivity. Qed.

Lemma slide_sym : forall ds occ a b, (ds = rook_dirs \/ ds = bishop_dirs) -> a < 64 -> b < 64 ->
  mem (slide ds a occ) b = true -> mem (slide ds b occ) a = true.
Proof.
  intros ds occ a b Hds Ha Hb H.
  pose proof (BridgeFacts.slide_sub_rays _ _ _ _ H) as Hr.
  rewrite (BridgeFacts.slide_between ds a occ b Ha Hr) in H.
  pose proof (all_sq2_spec _ sweep_ray_sym a b Ha Hb) as S. unfold chk_ray_sym in S.
  apply andb_prop in S. destruct S as [S S3]. apply andb_prop in S. destruct S as [S1 S2].
  apply eqb_prop in S1, S2. apply N.eqb_eq in S3.
  assert (Hr' : mem (rays_set ds b) a = true).
  { destruct Hds as [-> | ->].
    - change (rays_set rook_dirs b) with (rook_rays_geo b). rewrite <- S1. exact Hr.
    - change (rays_set bishop_dirs b) with (bishop_rays_geo b). rewrite <- S2. exact Hr. }
  rewrite (BridgeFacts.slide_between ds b occ a Hb Hr'), <- S3. exact H.
Qed.

(* a man that can step (pseudo-legally) onto an occupied square attacks it *)
Lemma step_attacks : forall pc c src d occ mask, src < 64 -> d < 64 -> mem occ d = true ->
  mem (pseudo_legals pc src c occ mask) d = true -> att_from pc c d occ src = true.
Proof.
  intros pc c src d occ mask Hs Hd Ho H.
  destruct pc; unfold pseudo_legals in H; rewrite mem_and in H; apply andb_prop in H; destruct H as [H _];
    unfold att_from.
  - unfold pawn_moves_spec in H. rewrite mem_lor in H. apply orb_prop in H. destruct H as [H|H].
    + apply pawn_quiets_spec_empty_targets in H. change (N.testbit occ d) with (mem occ d) in H.
      rewrite Ho in H. discriminate H.
    + unfold pawn_attacks_spec in H. rewrite mem_land in H. apply andb_prop in H. destruct H as [H _].
      rewrite <- (BridgeFacts.pawn_att_geo_sym c src d Hs Hd). exact H.
  - rewrite <- (BridgeFacts.knight_geo_sym src d Hs Hd). exact H.
  - apply (slide_sym bishop_dirs occ src d (or_intror eq_refl) Hs Hd H).
  - apply (slide_sym rook_dirs occ src d (or_introl eq_refl) Hs Hd H).
  - unfold bb_or in H. rewrite mem_lor in H. unfold rook_attacks, bishop_attacks in *.
    apply orb_prop in H. destruct H as [H|H].
    + rewrite (slide_sym rook_dirs occ src d (or_introl eq_refl) Hs Hd H). apply orb_true_r.
    + rewrite (slide_sym bishop_dirs occ src d (or_intror eq_refl) Hs Hd H). reflexivity.
  - rewrite <- (BridgeFacts.king_geo_sym src d Hs Hd). exact H.
Qed.

(* ------------------------------------------------------------------ *)
(** * 2. No generated move captures the king *)

Lemma no_king_capture_ok : attackers_mem_statement -> kings_statement ->
  forall b m pc promo, Good b -> move_ok b m pc promo -> m_dst m <> king_sq b (opp (b_turn b)).
Proof.
  intros AT1 AT3 b m pc promo G MO E.
  pose proof (Good_Part b G) as P.
  destruct (AT3 b (opp (b_turn b)) G) as (Hk & Rk & _).
  destruct MO as [Hs Hd Hraw Kd _ _ _]. rewrite E in Kd.
  destruct Kd as [Hstep _|f _ Ef Ed _ _|sd _ _ Hn Hm _].
  - assert (Ho : mem (all_occ b) (king_sq b (opp (b_turn b))) = true) by exact (raw_some_occ b _ _ P Hk Rk).
    pose proof (step_attacks pc (b_turn b) _ _ _ _ Hs Hk Ho Hstep) as A.
    rewrite (opp_safe_no_attacker AT1 AT3 b _ pc G Hs Hraw) in A. discriminate A.
  - destruct (inv_ep b (good_inv b G) f Ef) as (_ & E1 & _). rewrite <- Ed, Rk in E1. discriminate E1.
  - destruct (castle_dest_in_tiles sd _ _ Hm) as [_ Ht].
    pose proof (none_and_mem _ _ _ Hn Ht) as Ho.
    rewrite (raw_some_occ b _ _ P Hk Rk) in Ho. discriminate Ho.
Qed.

Theorem no_king_capture :
  attackers_mem_statement -> slider_att_statement -> kings_statement ->
  forall b m, Good b -> gen_move b m -> m_dst m <> king_sq b (opp (b_turn b)).
Proof.
  intros AT1 _ AT3 b m G Hg.
  destruct (gen_move_ok b m (Good_Part b G) (Good_own_king b G) Hg) as (pc & promo & MO).
  exact (no_king_capture_ok AT1 AT3 b m pc promo G MO).
Qed.

(* ------------------------------------------------------------------ *)
(** * 3. One-element sets *)

Lemma count_from_pos : forall x, x < 64 -> count (from_pos x) = 1.
Proof. intros x Hx. rewrite (count_spec _ (wf64_from_pos x)), (elements_from_pos x Hx). reflexivity. Qed.

Lemma tz64_from_pos : forall x, x < 64 -> tz64 (from_pos x) = x.
Proof. intros x Hx. rewrite (from_pos_bit x Hx). apply tz64_bit. Qed.

Lemma king_set_single : forall b c x, Part b -> x < 64 ->
  (forall s, s < 64 -> (raw_get b s = Some (c, King) <-> s = x)) ->
  bb_and (colors b c) (b_king b) = from_pos x.
Proof.
  intros b c x P Hx H. apply ext64; [apply wf64_land_l, (part_wf_colors b P c)|apply wf64_from_pos|].
  intros s Hs. rewrite mem_and, (mem_from_pos x s Hx Hs).
  destruct (raw_get_spec b P s Hs) as [R _]. specialize (R c King). change (pieces b King) with (b_king b) in R.
  destruct (N.eqb_spec s x) as [E|E].
  - apply (proj2 (H s Hs)) in E. apply R in E. destruct E as [-> ->]. reflexivity.
  - destruct (mem (colors b c) s && mem (b_king b) s) eqn:M; [exfalso|reflexivity].
    apply andb_prop in M. apply E, (H s Hs), R. exact M.
Qed.

Lemma one_king_single : forall b c x, Part b -> x < 64 ->
  (forall s, s < 64 -> (raw_get b s = Some (c, King) <-> s = x)) ->
  one_king b c /\ king_sq b c = x.
Proof.
  intros b c x P Hx H. unfold one_king, king_sq. rewrite (king_set_single b c x P Hx H).
  split; [apply count_from_pos, Hx|apply tz64_from_pos, Hx].
Qed.

(* ------------------------------------------------------------------ *)
(** * 4. The placement after a generated move *)

(* the man that stands on the destination afterwards *)
Definition placed (pc : piece) (pr : option piece) : piece :=
  match pc, pr with Pawn, Some p => p | _, _ => pc end.

(* a square other than the destination holds what it held, or a castled rook *)
Lemma after5_elsewhere : forall b m pc s c p, after5 b m pc s = Some (c, p) -> s <> m_dst m ->
  raw_get b s = Some (c, p) \/ (p = Rook /\ c = b_turn b).
Proof.
  intros b m pc s c p H Nd. unfold after5 in H. cbv zeta in H.
  assert (MV : forall x, moved b m pc s = x -> x = Some (c, p) -> raw_get b s = Some (c, p)).
  { intros x E1 E2. subst x. unfold moved in E2. destruct (s =? m_src m); [discriminate E2|].
    apply N.eqb_neq in Nd. rewrite Nd in E2. exact E2. }
  assert (CS : forall q, (if is_castle_move q m
                          then (if mem (castle_rook_mv (b_turn b) m) s
                                then match moved b m pc s with Some _ => None | None => Some (b_turn b, Rook) end
                                else moved b m pc s)
                          else moved b m pc s) = Some (c, p) ->
               raw_get b s = Some (c, p) \/ (p = Rook /\ c = b_turn b)).
  { intros q E. destruct (is_castle_move q m); [|left; exact (MV _ eq_refl E)].
    destruct (mem _ s); [|left; exact (MV _ eq_refl E)].
    destruct (moved b m pc s); [discriminate E|]. injection E as <- <-. right. split; reflexivity. }
  destruct pc.
  - left. destruct (m_promo m) as [pr|].
    + apply N.eqb_neq in Nd. rewrite Nd in H. exact (MV _ eq_refl H).
    + destruct (is_double_push _ m); [exact (MV _ eq_refl H)|].
      destruct (enpassant_pos b) as [ep|]; [|exact (MV _ eq_refl H)].
      destruct (m_dst m =? ep); [|exact (MV _ eq_refl H)].
      destruct (s =? ep_victim_sq (b_turn b) m); [discriminate H|exact (MV _ eq_refl H)].
  - left. exact (MV _ eq_refl H).
  - apply (CS Bishop). exact H.
  - apply (CS Rook). exact H.
  - apply (CS Queen). exact H.
  - apply (CS King). exact H.
Qed.

Section Successor.
  Variables (b : board) (m : move) (pc : piece) (promo : bool).
  Hypothesis AT1 : attackers_mem_statement.
  Hypothesis AT3 : kings_statement.
  Hypothesis G : Good b.
  Hypothesis MO : move_ok b m pc promo.
  Let t := b_turn b.
  Let o := opp (b_turn b).
  Let k' := king_sq b (opp (b_turn b)).

  Let P : Part b := Good_Part b G.
  Let RO : rights_ok b := inv_rights b (good_inv b G).
  Let EP : ep_ok b := inv_ep b (good_inv b G).
  Let Hs : m_src m < 64 := mo_src _ _ _ _ MO.
  Let Hd : m_dst m < 64 := mo_dst _ _ _ _ MO.
  Let Hraw : raw_get b (m_src m) = Some (b_turn b, pc) := mo_raw _ _ _ _ MO.

  Lemma succ_free : raw_get b (m_dst m) = None \/ exists cp, raw_get b (m_dst m) = Some (opp (b_turn b), cp).
  Proof. exact (kind_dest b pc _ _ promo P EP (mo_kind _ _ _ _ MO) Hd). Qed.

  Lemma succ_ne : m_src m <> m_dst m.
  Proof. exact (src_dst_ne b m pc Hraw succ_free). Qed.

  Lemma succ_promo_none : pc <> Pawn -> m_promo m = None.
  Proof.
    intros Np. pose proof (mo_promo _ _ _ _ MO) as H. pose proof (mo_promo_pawn _ _ _ _ MO) as H2.
    destruct promo; [contradiction (Np (H2 eq_refl))|exact H].
  Qed.

  Lemma succ_promo_piece : forall pr, m_promo m = Some pr -> pr <> King /\ pr <> Pawn.
  Proof.
    intros pr E. pose proof (mo_promo _ _ _ _ MO) as H. destruct promo.
    - destruct H as (p & Hp & E2). rewrite E in E2. injection E2 as <-.
      unfold promo_pieces in Hp. cbn [In] in Hp.
      destruct Hp as [X|[X|[X|[X|[]]]]]; subst pr; split; discriminate.
    - rewrite E in H. discriminate H.
  Qed.

  (* squares that keep their man *)
  Lemma succ_keep : forall s c p, s < 64 -> raw_get b s = Some (c, p) -> s <> m_src m -> s <> m_dst m ->
    (c, p) <> (opp (b_turn b), Pawn) -> (c, p) <> (b_turn b, Rook) -> after5 b m pc s = Some (c, p).
  Proof.
    intros s c p Ls Hr N1 N2 NP NR. rewrite <- Hr. apply after5_same; [exact N1|exact N2| |].
    - intros He E. destruct (ep_conditions b m pc EP Hs Hraw He) as (_ & _ & _ & V).
      rewrite <- E, Hr in V. injection V as -> ->. apply NP. reflexivity.
    - intros Hc. destruct (mem (castle_rook_mv (b_turn b) m) s) eqn:Em; [exfalso|reflexivity].
      destruct (castle_conditions b m pc promo P RO EP MO Hc s Ls Em) as (_ & _ & [X|X]); rewrite X in Hr; [|discriminate Hr].
      injection Hr as <- <-. apply NR. reflexivity.
  Qed.

  Lemma succ_dst : after5 b m pc (m_dst m) = Some (b_turn b, placed pc (m_promo m)).
  Proof.
    pose proof succ_ne as Hne.
    unfold after5. cbv zeta.
    assert (B : moved b m pc (m_dst m) = Some (b_turn b, pc)).
    { unfold moved. rewrite N.eqb_refl.
      destruct (N.eqb_spec (m_dst m) (m_src m)) as [E|_]; [symmetry in E; contradiction|reflexivity]. }
    rewrite B.
    assert (CS : pc <> Pawn -> pc <> Knight ->
                 (if is_castle_move pc m
                  then (if mem (castle_rook_mv (b_turn b) m) (m_dst m) then @None (color * piece) else Some (b_turn b, pc))
                  else Some (b_turn b, pc)) = Some (b_turn b, placed pc (m_promo m))).
    { intros N1 N2. rewrite (succ_promo_none N1).
      assert (E : placed pc None = pc) by (destruct pc; reflexivity). rewrite E.
      destruct (is_castle_move pc m) eqn:Hc; [|reflexivity].
      destruct (mem (castle_rook_mv (b_turn b) m) (m_dst m)) eqn:Em; [exfalso|reflexivity].
      destruct (castle_conditions b m pc promo P RO EP MO Hc _ Hd Em) as (_ & X & _). apply X. reflexivity. }
    assert (HN : pc <> Pawn -> m_promo m = None) by exact succ_promo_none.
    assert (HP : pc = Pawn -> enpassant_pos b = Some (m_dst m) -> m_dst m <> ep_victim_sq (b_turn b) m).
    { intros _ Eep. destruct (ep_conditions b m pc EP Hs Hraw Eep) as (_ & _ & X & _). intros E. apply X. symmetry. exact E. }
    clear B. revert CS HN HP. generalize (m_promo m) (enpassant_pos b). intros mp epos CS HN HP.
    destruct pc.
    - destruct mp as [pr|]; [rewrite N.eqb_refl; reflexivity|].
      cbn [placed]. destruct (is_double_push (b_turn b) m); [reflexivity|].
      destruct epos as [ep|]; [|reflexivity].
      destruct (N.eqb_spec (m_dst m) ep) as [E|_]; [|reflexivity]. subst ep.
      specialize (HP eq_refl eq_refl).
      destruct (N.eqb_spec (m_dst m) (ep_victim_sq (b_turn b) m)) as [E|_]; [contradiction|reflexivity].
    - rewrite (HN ltac:(discriminate)). reflexivity.
    - apply CS; discriminate.
    - apply CS; discriminate.
    - apply CS; discriminate.
    - apply CS; discriminate.
  Qed.

  (* --- the kings --- *)
  Definition new_king (c : color) : N :=
    if color_eqb c (b_turn b) then (if piece_eqb pc King then m_dst m else king_sq b (b_turn b)) else king_sq b (opp (b_turn b)).

  Lemma succ_kings : forall c s, s < 64 -> (after5 b m pc s = Some (c, King) <-> s = new_king c).
  Proof.
    intros c s Ls.
    destruct (AT3 b (b_turn b) G) as (Hk & Rk & Uk & _).
    destruct (AT3 b (opp (b_turn b)) G) as (Hko & Rko & Uko & _).
    pose proof (no_king_capture_ok AT1 AT3 b m pc promo G MO) as NC.
    pose proof succ_ne as Hne. pose proof succ_free as Hfree.
    assert (PK : pc = King -> placed pc (m_promo m) = King).
    { intros E. rewrite (succ_promo_none ltac:(rewrite E; discriminate)), E. reflexivity. }
    split.
    - intros H.
      destruct (after5_king b m pc s c H (promo_not_king m promo (mo_promo _ _ _ _ MO))) as (N1 & [(E1 & E2 & E3)|(N2 & X)]).
      + subst c. unfold new_king. rewrite BridgeFacts.color_eqb_refl, E2. exact E1.
      + unfold new_king. destruct (color_cases c (b_turn b)) as [Ec|Ec]; subst c.
        * rewrite BridgeFacts.color_eqb_refl. pose proof (Uk s Ls X) as E.
          destruct (piece_eqb pc King) eqn:Ek; [|exact E].
          exfalso. apply N1. rewrite E. symmetry. apply (mo_king _ _ _ _ MO). apply piece_eqb_King, Ek.
        * rewrite color_eqb_opp. exact (Uko s Ls X).
    - intros ->. unfold new_king. destruct (color_cases c (b_turn b)) as [Ec|Ec]; subst c.
      + rewrite BridgeFacts.color_eqb_refl. destruct (piece_eqb pc King) eqn:Ek.
        * rewrite succ_dst, (PK (piece_eqb_King _ Ek)). reflexivity.
        * assert (Npc : pc <> King) by (intros E; rewrite E in Ek; discriminate Ek).
          apply succ_keep; [exact Hk|exact Rk| | | |].
          -- intros E. rewrite E, Hraw in Rk. injection Rk as Rk. contradiction.
          -- intros E. rewrite E in Rk. destruct Hfree as [F|[cp F]]; rewrite F in Rk; [discriminate Rk|].
             injection Rk as Rk _. exact (opp_neq _ Rk).
          -- discriminate.
          -- discriminate.
      + rewrite color_eqb_opp. apply succ_keep; [exact Hko|exact Rko| | | |].
        * intros E. rewrite E, Hraw in Rko. injection Rko as Rko _. exact (opp_neq _ (eq_sym Rko)).
        * intros E. apply NC. symmetry. exact E.
        * discriminate.
        * discriminate.
  Qed.

  Lemma new_king_lt : forall c, new_king c < 64.
  Proof.
    intros c. unfold new_king.
    destruct (AT3 b (b_turn b) G) as (Hk & _). destruct (AT3 b (opp (b_turn b)) G) as (Hko & _).
    destruct (color_eqb c (b_turn b)); [destruct (piece_eqb pc King)|]; assumption.
  Qed.
End Successor.

(* ------------------------------------------------------------------ *)
(** * 5. The two slider scans: xor-accumulation = or-accumulation *)

Definition single_in (occ k x a : N) : bool :=
  (count (bb_and occ (between_geo k a)) =? 1) && mem (bb_and occ (between_geo k a)) x.

Fixpoint xorfold (f : N -> bool) (l : list N) : bool :=
  match l with [] => false | a :: r => xorb (f a) (xorfold f r) end.

Lemma none_single_in : forall occ k x a, none (bb_and occ (between_geo k a)) = true -> single_in occ k x a = false.
Proof.
  intros occ k x a H. unfold single_in. unfold none in H. apply N.eqb_eq in H. rewrite H.
  rewrite BridgeFacts.count_0. reflexivity.
Qed.

Lemma pin_fold_fst_mem : forall occ k x l pn ck,
  mem (fst (fold_left (pin_step occ k) l (pn, ck))) x = xorb (mem pn x) (xorfold (single_in occ k x) l).
Proof.
  intros occ k x l. induction l as [|a l IH]; intros pn ck; cbn [fold_left xorfold].
  - cbn [fst]. rewrite xorb_false_r. reflexivity.
  - unfold pin_step at 2. cbv beta iota zeta.
    destruct (none (bb_and occ (between_geo k a))) eqn:En.
    + rewrite IH, (none_single_in _ _ _ _ En), xorb_false_l. reflexivity.
    + unfold single_in at 1. destruct (count (bb_and occ (between_geo k a)) =? 1).
      * rewrite IH, mem_xor, andb_true_l, xorb_assoc. reflexivity.
      * rewrite IH, andb_false_l, xorb_false_l. reflexivity.
Qed.

Lemma scan_fold_fst_mem : forall occ k x l pn ck,
  mem (fst (fold_left (BridgeFacts.scan_step occ k) l (pn, ck))) x = mem pn x || existsb (single_in occ k x) l.
Proof.
  intros occ k x l. induction l as [|a l IH]; intros pn ck; cbn [fold_left existsb].
  - cbn [fst]. rewrite orb_false_r. reflexivity.
  - unfold BridgeFacts.scan_step at 2. cbv beta iota zeta.
    destruct (none (bb_and occ (between_geo k a))) eqn:En.
    + rewrite IH, (none_single_in _ _ _ _ En), orb_false_l. reflexivity.
    + unfold single_in at 1. destruct (count (bb_and occ (between_geo k a)) =? 1).
      * rewrite IH, mem_or, andb_true_l, orb_assoc. reflexivity.
      * rewrite IH, andb_false_l, orb_false_l. reflexivity.
Qed.

Lemma pin_fold_snd : forall occ k l pn ck pn2,
  snd (fold_left (pin_step occ k) l (pn, ck)) = snd (fold_left (BridgeFacts.scan_step occ k) l (pn2, ck)).
Proof.
  intros occ k l. induction l as [|a l IH]; intros pn ck pn2; cbn [fold_left]; [reflexivity|].
  unfold pin_step at 2, BridgeFacts.scan_step at 2. cbv beta iota zeta.
  destruct (none (bb_and occ (between_geo k a))); [apply IH|].
  destruct (count (bb_and occ (between_geo k a)) =? 1); apply IH.
Qed.

Lemma xorfold_existsb : forall f l, NoDup l ->
  (forall a1 a2, In a1 l -> In a2 l -> f a1 = true -> f a2 = true -> a1 = a2) ->
  xorfold f l = existsb f l.
Proof.
  intros f l ND. induction ND as [|a l Hn ND IH]; intros U; cbn [xorfold existsb]; [reflexivity|].
  rewrite IH by (intros a1 a2 H1 H2; apply U; right; assumption).
  destruct (f a) eqn:Ea; [|rewrite xorb_false_l; reflexivity].
  destruct (existsb f l) eqn:Ex; [exfalso|reflexivity].
  apply existsb_exists in Ex. destruct Ex as (a2 & H2 & E2).
  apply Hn. rewrite (U a a2 (or_introl eq_refl) (or_intror H2) Ea E2). exact H2.
Qed.

(* two different squares seen from k: one hides the other, or the squares between are disjoint *)
Definition chk_btw_disj (k : N) : bool :=
  let tbl := map (fun a => (a, between_geo k a)) sq_list in
  forallb (fun p1 => forallb (fun p2 => (fst p1 =? fst p2) || mem (snd p2) (fst p1) || mem (snd p1) (fst p2)
                                        || none (bb_and (snd p1) (snd p2))) tbl) tbl.
Lemma sweep_btw_disj : all_sq chk_btw_disj = true.
Proof. vm_compute. reflexivity. Qed.

Lemma btw_disj : forall k a1 a2, k < 64 -> a1 < 64 -> a2 < 64 ->
  a1 = a2 \/ mem (between_geo k a2) a1 = true \/ mem (between_geo k a1) a2 = true
  \/ bb_and (between_geo k a1) (between_geo k a2) = 0.
Proof.
  intros k a1 a2 Hk H1 H2. pose proof (all_sq_spec _ sweep_btw_disj k Hk) as S. unfold chk_btw_disj in S. cbv zeta in S.
  rewrite forallb_forall in S.
  specialize (S (a1, between_geo k a1) (in_map (fun a => (a, between_geo k a)) _ _ (in_sq_list a1 H1))).
  rewrite forallb_forall in S.
  specialize (S (a2, between_geo k a2) (in_map (fun a => (a, between_geo k a)) _ _ (in_sq_list a2 H2))).
  cbn [fst snd] in S.
  apply orb_prop in S. destruct S as [S|S]; [|right; right; right; apply N.eqb_eq; exact S].
  apply orb_prop in S. destruct S as [S|S]; [|right; right; left; exact S].
  apply orb_prop in S. destruct S as [S|S]; [left; apply N.eqb_eq; exact S|right; left; exact S].
Qed.

Definition chk_btw_self (k a : N) : bool := negb (mem (between_geo k a) a).
Lemma sweep_btw_self : all_sq2 chk_btw_self = true.
Proof. vm_compute. reflexivity. Qed.
Lemma btw_self : forall k a, k < 64 -> a < 64 -> mem (between_geo k a) a = false.
Proof. intros k a Hk Ha. apply negb_true_iff. exact (all_sq2_spec _ sweep_btw_self k a Hk Ha). Qed.

Lemma count1_same : forall a x y, wf64 a -> count a = 1 -> mem a x = true -> mem a y = true -> x = y.
Proof.
  intros a x y W C Hx Hy. destruct (SiteFacts.single_bit a W C) as [_ E].
  rewrite E, mem_bit in Hx, Hy. apply N.eqb_eq in Hx, Hy. congruence.
Qed.

Lemma single_in_unique : forall occ k x a1 a2, wf64 occ -> k < 64 -> a1 < 64 -> a2 < 64 ->
  mem occ a1 = true -> mem occ a2 = true ->
  single_in occ k x a1 = true -> single_in occ k x a2 = true -> a1 = a2.
Proof.
  intros occ k x a1 a2 W Hk H1 H2 O1 O2 S1 S2. unfold single_in in S1, S2.
  apply andb_prop in S1, S2. destruct S1 as [C1 M1]. destruct S2 as [C2 M2]. apply N.eqb_eq in C1, C2.
  assert (Hide : forall u v, u < 64 -> v < 64 -> mem occ u = true ->
                   count (bb_and occ (between_geo k v)) = 1 -> mem (bb_and occ (between_geo k v)) x = true ->
                   mem (bb_and occ (between_geo k u)) x = true -> mem (between_geo k v) u = true -> False).
  { intros u v Hu Hv Ou Cv Mv Mu B.
    assert (Mvu : mem (bb_and occ (between_geo k v)) u = true) by (rewrite mem_and, Ou, B; reflexivity).
    pose proof (count1_same _ u x (wf64_land_l _ _ W) Cv Mvu Mv) as E. subst x.
    rewrite mem_and, (btw_self k u Hk Hu), andb_false_r in Mu. discriminate Mu. }
  destruct (btw_disj k a1 a2 Hk H1 H2) as [E|[B|[B|B]]].
  - exact E.
  - exfalso. exact (Hide a1 a2 H1 H2 O1 C2 M2 M1 B).
  - exfalso. exact (Hide a2 a1 H2 H1 O2 C1 M1 M2 B).
  - exfalso. pose proof (mem_and0 _ _ x B) as Z. rewrite mem_and in M1, M2.
    apply andb_prop in M1, M2. destruct M1 as [_ M1]. destruct M2 as [_ M2]. rewrite M1, M2 in Z. discriminate Z.
Qed.

(* the pinned sets of the two scans agree on occupied sliders *)
Lemma scans_pinned_eq : forall occ k l ck ck2, wf64 occ -> k < 64 -> NoDup l ->
  (forall a, In a l -> a < 64 /\ mem occ a = true) ->
  fst (fold_left (pin_step occ k) l (0, ck)) = fst (fold_left (BridgeFacts.scan_step occ k) l (0, ck2)).
Proof.
  intros occ k l ck ck2 W Hk ND Hl. apply N.bits_inj. intros x.
  change (mem (fst (fold_left (pin_step occ k) l (0, ck))) x = mem (fst (fold_left (BridgeFacts.scan_step occ k) l (0, ck2))) x).
  rewrite pin_fold_fst_mem, scan_fold_fst_mem, mem_0, xorb_false_l, orb_false_l.
  apply xorfold_existsb; [exact ND|].
  intros a1 a2 I1 I2 S1 S2. destruct (Hl a1 I1) as [L1 O1]. destruct (Hl a2 I2) as [L2 O2].
  exact (single_in_unique occ k x a1 a2 W Hk L1 L2 O1 O2 S1 S2).
Qed.

(* the checkers of the two scans differ by the initial value *)
Lemma scans_checkers_eq : forall occ k l pn pn2 ck,
  snd (fold_left (pin_step occ k) l (pn, ck)) = bb_or ck (snd (fold_left (BridgeFacts.scan_step occ k) l (pn2, 0))).
Proof.
  intros occ k l pn pn2 ck. rewrite (pin_fold_snd occ k l pn ck pn2). apply N.bits_inj. intros x.
  change (mem (snd (fold_left (BridgeFacts.scan_step occ k) l (pn2, ck))) x
          = mem (bb_or ck (snd (fold_left (BridgeFacts.scan_step occ k) l (pn2, 0)))) x).
  rewrite mem_or, !BridgeFacts.scan_checkers_mem. cbn [snd]. rewrite mem_0, orb_false_l. reflexivity.
Qed.

(* ------------------------------------------------------------------ *)
(** * 6. What the two computations store *)

(* the sliders of colour c on the rays of k *)
Definition slider_set (b : board) (c : color) (k : N) : N :=
  bb_or (bb_and (bb_and (bb_or (b_bishop b) (b_queen b)) (colors b c)) (bishop_rays_geo k))
        (bb_and (bb_and (bb_or (b_rook b) (b_queen b)) (colors b c)) (rook_rays_geo k)).

Lemma slider_set_form : forall X Y mn r1 r2,
  bb_and mn (bb_or (bb_and X r1) (bb_and Y r2)) = bb_or (bb_and (bb_and X mn) r1) (bb_and (bb_and Y mn) r2).
Proof.
  intros. unfold bb_and, bb_or. apply N.bits_inj. intros n.
  rewrite ?N.land_spec, ?N.lor_spec, ?N.land_spec.
  destruct (N.testbit mn n), (N.testbit X n), (N.testbit Y n), (N.testbit r1 n), (N.testbit r2 n); reflexivity.
Qed.

Lemma same_placement_slider_set : forall a b c k, same_placement a b -> slider_set a c k = slider_set b c k.
Proof.
  intros a b c k S. unfold slider_set. rewrite (same_placement_colors a b S c).
  destruct S as (_ & _ & _ & _ & -> & -> & -> & _). reflexivity.
Qed.

Lemma same_placement_all_occ : forall a b, same_placement a b -> all_occ a = all_occ b.
Proof. intros a b (E1 & E2 & _). unfold all_occ. rewrite E1, E2. reflexivity. Qed.

Lemma slider_set_elem : forall b c k a, Part b -> In a (elements (slider_set b c k)) -> a < 64 /\ mem (all_occ b) a = true.
Proof.
  intros b c k a P H. apply elements_spec in H. destruct H as [La H]. split; [exact La|].
  assert (Hc : mem (colors b c) a = true).
  { unfold slider_set in H. rewrite mem_or, !mem_and in H.
    destruct (mem (colors b c) a); [reflexivity|]. rewrite !andb_false_r in H. discriminate H. }
  unfold all_occ. rewrite mem_or. destruct c; cbn [colors] in Hc; rewrite Hc; [reflexivity|apply orb_true_r].
Qed.

Lemma apply_pins_fields : forall out t k,
  b_pinned (apply_pins out t k)
    = fst (fold_left (pin_step (all_occ out) k) (elements (slider_set out t k)) (b_pinned out, b_checkers out))
  /\ b_checkers (apply_pins out t k)
    = snd (fold_left (pin_step (all_occ out) k) (elements (slider_set out t k)) (b_pinned out, b_checkers out)).
Proof.
  intros out t k. unfold apply_pins, slider_set. cbv zeta.
  match goal with |- context [fold_left ?f ?l ?a] => destruct (fold_left f l a) as [pn ck] end.
  split; reflexivity.
Qed.

Lemma upi_fields : forall b k c, king_sq b (b_turn b) = k -> opp (b_turn b) = c ->
  b_pinned (update_pin_info b)
    = fst (fold_left (BridgeFacts.scan_step (all_occ b) k) (elements (slider_set b c k)) (0, 0))
  /\ b_checkers (update_pin_info b)
    = bb_or (bb_or (snd (fold_left (BridgeFacts.scan_step (all_occ b) k) (elements (slider_set b c k)) (0, 0)))
                   (bb_and (bb_and (knight_geo k) (b_knight b)) (colors b c)))
            (bb_and (bb_and (pawn_att_geo (b_turn b) k) (b_pawn b)) (colors b c)).
Proof.
  intros b k c <- <-. unfold update_pin_info. cbv zeta. rewrite slider_set_form.
  rewrite BridgeFacts.scan_sliders_unfold. unfold slider_set.
  match goal with |- context [fold_left ?f ?l ?a] => destruct (fold_left f l a) as [pn ck] end.
  split; reflexivity.
Qed.

(* --- the state before the slider scan of make-move --- *)
Lemma pinned_set_half : forall x h, b_pinned (set_half x h) = b_pinned x. Proof. reflexivity. Qed.
Lemma checkers_set_half : forall x h, b_checkers (set_half x h) = b_checkers x. Proof. reflexivity. Qed.
Lemma pinned_set_full : forall x h, b_pinned (set_full x h) = b_pinned x. Proof. reflexivity. Qed.
Lemma checkers_set_full : forall x h, b_checkers (set_full x h) = b_checkers x. Proof. reflexivity. Qed.
Lemma pinned_set_rights : forall x h, b_pinned (set_rights x h) = b_pinned x. Proof. reflexivity. Qed.
Lemma checkers_set_rights : forall x h, b_checkers (set_rights x h) = b_checkers x. Proof. reflexivity. Qed.
Lemma pinned_set_ep : forall x h, b_pinned (set_ep x h) = b_pinned x. Proof. reflexivity. Qed.
Lemma checkers_set_ep : forall x h, b_checkers (set_ep x h) = b_checkers x. Proof. reflexivity. Qed.
Lemma pinned_set_checkers : forall x c, b_pinned (set_checkers x c) = b_pinned x. Proof. reflexivity. Qed.
Lemma checkers_set_checkers : forall x c, b_checkers (set_checkers x c) = c. Proof. reflexivity. Qed.
Lemma pinned_board_xor : forall x c p d, b_pinned (board_xor x c p d) = b_pinned x.
Proof. intros. apply board_xor_pins. Qed.
Lemma checkers_board_xor : forall x c p d, b_checkers (board_xor x c p d) = b_checkers x.
Proof. intros. apply board_xor_pins. Qed.

Ltac pins_rw := rewrite ?pinned_set_half, ?checkers_set_half, ?pinned_set_full, ?checkers_set_full, ?pinned_set_rights,
                        ?checkers_set_rights, ?pinned_set_ep, ?checkers_set_ep, ?pinned_set_checkers, ?checkers_set_checkers,
                        ?pinned_board_xor, ?checkers_board_xor.

Lemma stage4_pins : forall b m, b_pinned (apply_stage4 b m) = 0 /\ b_checkers (apply_stage4 b m) = 0.
Proof.
  intros b m. unfold apply_stage4, apply_stage2. cbv zeta.
  destruct (piece_of b (m_dst m)) as [cp|]; repeat (progress pins_rw); split; reflexivity.
Qed.

(* the leaper part of the checkers *)
Definition leap_ck (b : board) (m : move) (pc : piece) : N :=
  let k := king_sq b (opp (b_turn b)) in
  match pc with
  | Knight => bb_and (knight_geo k) (from_pos (m_dst m))
  | Pawn => match m_promo m with
            | Some pr => if piece_eqb pr Knight then bb_and (knight_geo k) (from_pos (m_dst m)) else 0
            | None => bb_and (pawn_att_geo (opp (b_turn b)) k) (from_pos (m_dst m))
            end
  | _ => 0
  end.

Lemma stage5_pins : forall b m out, b_pinned out = 0 -> b_checkers out = 0 ->
  b_pinned (stage5_body b m out) = 0 /\ b_checkers (stage5_body b m out) = leap_ck b m (piece_of_unchecked b (m_src m)).
Proof.
  intros b m out E1 E2. unfold stage5_body, leap_ck. cbv zeta.
  destruct (piece_of_unchecked b (m_src m)).
  - destruct (m_promo m) as [pr|].
    + destruct (piece_eqb pr Knight); repeat (progress pins_rw); rewrite E1, ?E2; split; reflexivity.
    + destruct (is_double_push (b_turn b) m).
      * repeat (progress pins_rw). rewrite E1, E2. split; reflexivity.
      * destruct (enpassant_pos b) as [ep|]; [destruct (m_dst m =? ep)|]; repeat (progress pins_rw); rewrite E1, E2;
          (split; reflexivity).
  - repeat (progress pins_rw). rewrite E1, E2. split; reflexivity.
  - destruct (is_castle_move _ m); repeat (progress pins_rw); split; assumption.
  - destruct (is_castle_move _ m); repeat (progress pins_rw); split; assumption.
  - destruct (is_castle_move _ m); repeat (progress pins_rw); split; assumption.
  - destruct (is_castle_move _ m); repeat (progress pins_rw); split; assumption.
Qed.

Lemma wf64_leap_ck : forall b m pc, wf64 (leap_ck b m pc).
Proof.
  intros b m pc. unfold leap_ck. cbv zeta.
  destruct pc; try apply wf64_0; try (apply wf64_land_r, wf64_from_pos).
  destruct (m_promo m) as [pr|]; [destruct (piece_eqb pr Knight); [|apply wf64_0]|]; apply wf64_land_r, wf64_from_pos.
Qed.

Lemma leap_ck_mem : forall b m pc x, x < 64 -> m_dst m < 64 -> (forall pr, m_promo m = Some pr -> pr <> Pawn) ->
  mem (leap_ck b m pc) x =
  (x =? m_dst m) && ((piece_eqb (placed pc (m_promo m)) Knight && mem (knight_geo (king_sq b (opp (b_turn b)))) x)
                     || (piece_eqb (placed pc (m_promo m)) Pawn
                         && mem (pawn_att_geo (opp (b_turn b)) (king_sq b (opp (b_turn b)))) x)).
Proof.
  intros b m pc x Lx Ld Hp. unfold leap_ck, placed. cbv zeta.
  destruct pc.
  - destruct (m_promo m) as [pr|].
    + specialize (Hp pr eq_refl).
      destruct pr; try (contradiction Hp; reflexivity); cbn [piece_eqb piece_idx N.eqb Pos.eqb];
        rewrite ?mem_and, ?(mem_from_pos _ _ Ld Lx), ?mem_0;
        destruct (x =? m_dst m), (mem (knight_geo (king_sq b (opp (b_turn b)))) x),
                 (mem (pawn_att_geo (opp (b_turn b)) (king_sq b (opp (b_turn b)))) x); reflexivity.
    + rewrite mem_and, (mem_from_pos _ _ Ld Lx).
      destruct (x =? m_dst m), (mem (knight_geo (king_sq b (opp (b_turn b)))) x),
               (mem (pawn_att_geo (opp (b_turn b)) (king_sq b (opp (b_turn b)))) x); reflexivity.
  - rewrite mem_and, (mem_from_pos _ _ Ld Lx).
    destruct (x =? m_dst m), (mem (knight_geo (king_sq b (opp (b_turn b)))) x),
             (mem (pawn_att_geo (opp (b_turn b)) (king_sq b (opp (b_turn b)))) x); reflexivity.
  - rewrite mem_0. destruct (x =? m_dst m), (mem (knight_geo (king_sq b (opp (b_turn b)))) x),
             (mem (pawn_att_geo (opp (b_turn b)) (king_sq b (opp (b_turn b)))) x); reflexivity.
  - rewrite mem_0. destruct (x =? m_dst m), (mem (knight_geo (king_sq b (opp (b_turn b)))) x),
             (mem (pawn_att_geo (opp (b_turn b)) (king_sq b (opp (b_turn b)))) x); reflexivity.
  - rewrite mem_0. destruct (x =? m_dst m), (mem (knight_geo (king_sq b (opp (b_turn b)))) x),
             (mem (pawn_att_geo (opp (b_turn b)) (king_sq b (opp (b_turn b)))) x); reflexivity.
  - rewrite mem_0. destruct (x =? m_dst m), (mem (knight_geo (king_sq b (opp (b_turn b)))) x),
             (mem (pawn_att_geo (opp (b_turn b)) (king_sq b (opp (b_turn b)))) x); reflexivity.
Qed.

(* what make-move stores, over the successor's own placement *)
Lemma apply_fields : forall b m,
  b_pinned (apply b m)
    = fst (fold_left (pin_step (all_occ (apply b m)) (king_sq b (opp (b_turn b))))
                     (elements (slider_set (apply b m) (b_turn b) (king_sq b (opp (b_turn b)))))
                     (0, leap_ck b m (piece_of_unchecked b (m_src m))))
  /\ b_checkers (apply b m)
    = snd (fold_left (pin_step (all_occ (apply b m)) (king_sq b (opp (b_turn b))))
                     (elements (slider_set (apply b m) (b_turn b) (king_sq b (opp (b_turn b)))))
                     (0, leap_ck b m (piece_of_unchecked b (m_src m)))).
Proof.
  intros b m.
  pose proof (apply_pins_same (apply_stage5 b m) (b_turn b) (king_sq b (opp (b_turn b)))) as SP.
  destruct (apply_pins_fields (apply_stage5 b m) (b_turn b) (king_sq b (opp (b_turn b)))) as [A1 A2].
  destruct (stage4_pins b m) as [Z1 Z2].
  destruct (stage5_pins b m (apply_stage4 b m) Z1 Z2) as [Y1 Y2].
  change (stage5_body b m (apply_stage4 b m)) with (apply_stage5 b m) in Y1, Y2.
  rewrite Y1, Y2 in A1, A2.
  rewrite (same_placement_all_occ _ _ SP), (same_placement_slider_set _ _ _ _ SP) in A1, A2.
  rewrite <- apply_staged in A1, A2. split; assumption.
Qed.

(* ------------------------------------------------------------------ *)
(** * 7. Good is preserved *)

(* knights and pawns, with the piece set named by its field (no conversion through `pieces` on big boards) *)
Lemma leaper_raw : forall b s c, Part b -> s < 64 ->
  (mem (b_knight b) s = true -> mem (colors b c) s = true -> raw_get b s = Some (c, Knight)) /\
  (mem (b_pawn b) s = true -> mem (colors b c) s = true -> raw_get b s = Some (c, Pawn)) /\
  (raw_get b s = Some (c, Knight) -> mem (b_knight b) s = true /\ mem (colors b c) s = true) /\
  (raw_get b s = Some (c, Pawn) -> mem (b_pawn b) s = true /\ mem (colors b c) s = true).
Proof.
  intros b s c P Ls. destruct (raw_get_spec b P s Ls) as [R _].
  split; [|split; [|split]].
  - intros H1 H2. apply (R c Knight). split; assumption.
  - intros H1 H2. apply (R c Pawn). split; assumption.
  - intros H. apply (R c Knight) in H. destruct H as [H1 H2]. split; assumption.
  - intros H. apply (R c Pawn) in H. destruct H as [H1 H2]. split; assumption.
Qed.

Lemma wf64_all_occ : forall b, Part b -> wf64 (all_occ b).
Proof. intros b P. unfold all_occ. apply wf64_or; [apply (part_wf_colors b P White)|apply (part_wf_colors b P Black)]. Qed.

Section Fresh.
  Variables (b : board) (m : move) (pc : piece) (promo : bool).
  Hypothesis AT1 : attackers_mem_statement.
  Hypothesis AT3 : kings_statement.
  Hypothesis AT6 : after_move_statement.
  Hypothesis G : Good b.
  Hypothesis MO : move_ok b m pc promo.

  Lemma succ_king_sq : forall c, one_king (apply b m) c /\ king_sq (apply b m) c = new_king b m pc c.
  Proof.
    intros c. destruct (AT6 b m pc promo G MO) as [P' RG].
    apply one_king_single; [exact P'|exact (new_king_lt b m pc promo AT3 G MO c)|].
    intros s Ls. rewrite (RG s Ls). exact (succ_kings b m pc promo AT1 AT3 G MO c s Ls).
  Qed.

  (* the mover's knights / pawns that attack the other king afterwards: only the moved man can *)
  Lemma succ_leapers :
    bb_or (bb_and (bb_and (knight_geo (king_sq b (opp (b_turn b)))) (b_knight (apply b m))) (colors (apply b m) (b_turn b)))
          (bb_and (bb_and (pawn_att_geo (opp (b_turn b)) (king_sq b (opp (b_turn b)))) (b_pawn (apply b m)))
                  (colors (apply b m) (b_turn b)))
    = leap_ck b m pc.
  Proof.
    destruct (AT6 b m pc promo G MO) as [P' RG].
    pose proof (mo_dst _ _ _ _ MO) as Ld.
    apply ext64.
    { apply wf64_or; apply wf64_land_r, (part_wf_colors _ P'). }
    { apply wf64_leap_ck. }
    intros x Lx.
    rewrite (leap_ck_mem b m pc x Lx Ld (fun pr E => proj2 (succ_promo_piece b m pc promo MO pr E))).
    assert (Only : forall p, (p = Knight \/ p = Pawn) -> raw_get (apply b m) x = Some (b_turn b, p) ->
                     att_from p (b_turn b) (king_sq b (opp (b_turn b))) (all_occ b) x = true -> x = m_dst m).
    { intros p Hp Rx A. destruct (N.eq_dec x (m_dst m)) as [E|Nd]; [exact E|exfalso].
      rewrite (RG x Lx) in Rx. destruct (after5_elsewhere _ _ _ _ _ _ Rx Nd) as [Rb|[Ep _]].
      - rewrite (opp_safe_no_attacker AT1 AT3 b x p G Lx Rb) in A. discriminate A.
      - destruct Hp as [Hp|Hp]; rewrite Hp in Ep; discriminate Ep. }
    assert (Rd : raw_get (apply b m) (m_dst m) = Some (b_turn b, placed pc (m_promo m))).
    { rewrite (RG _ Ld). exact (succ_dst b m pc promo G MO). }
    pose proof (fun s Ls => leaper_raw (apply b m) s (b_turn b) P' Ls) as LR.
    apply eq_iff_eq_true. rewrite mem_or, !mem_and. split.
    - intros H. apply orb_prop in H.
      destruct H as [H|H]; apply andb_prop in H; destruct H as [H Hc]; apply andb_prop in H; destruct H as [Ha Hp].
      + assert (Rx : raw_get (apply b m) x = Some (b_turn b, Knight)) by (apply (LR x Lx); assumption).
        pose proof (Only Knight (or_introl eq_refl) Rx Ha) as E. subst x.
        rewrite Rd in Rx. injection Rx as Epl. rewrite Epl, N.eqb_refl, Ha. reflexivity.
      + assert (Rx : raw_get (apply b m) x = Some (b_turn b, Pawn)) by (apply (LR x Lx); assumption).
        pose proof (Only Pawn (or_intror eq_refl) Rx Ha) as E. subst x.
        rewrite Rd in Rx. injection Rx as Epl. rewrite Epl, N.eqb_refl, Ha. reflexivity.
    - intros H. apply andb_prop in H. destruct H as [Ex H]. apply N.eqb_eq in Ex. subst x.
      apply orb_prop in H. destruct H as [H|H]; apply andb_prop in H; destruct H as [Hp Ha];
        apply piece_eqb_eq in Hp; rewrite Hp in Rd; apply (LR _ Ld) in Rd; destruct Rd as [Hpc Hc];
        rewrite Ha, Hc, Hpc; [reflexivity|apply orb_true_r].
  Qed.

  Lemma succ_fresh : fresh (apply b m).
  Proof.
    destruct (AT6 b m pc promo G MO) as [P' RG].
    destruct (apply_turn_ep b m) as [ET _].
    destruct (AT3 b (opp (b_turn b)) G) as (Hk & _).
    assert (K' : king_sq (apply b m) (b_turn (apply b m)) = king_sq b (opp (b_turn b))).
    { rewrite ET. destruct (succ_king_sq (opp (b_turn b))) as [_ ->]. unfold new_king. rewrite color_eqb_opp. reflexivity. }
    assert (OT : opp (b_turn (apply b m)) = b_turn b) by (rewrite ET; apply opp_opp).
    destruct (upi_fields (apply b m) _ _ K' OT) as [U1 U2].
    destruct (apply_fields b m) as [A1 A2].
    rewrite (raw_get_piece_of_unchecked _ _ _ _ (mo_raw _ _ _ _ MO)) in A1, A2.
    pose proof (wf64_all_occ _ P') as W.
    unfold fresh. split.
    - rewrite U1, A1. apply scans_pinned_eq; [exact W|exact Hk|apply elements_NoDup|].
      intros a Ha. exact (slider_set_elem _ _ _ a P' Ha).
    - rewrite U2, A2, ET, (scans_checkers_eq _ _ _ 0 0 (leap_ck b m pc)), <- succ_leapers.
      unfold bb_or. rewrite N.lor_comm, N.lor_assoc. reflexivity.
  Qed.
End Fresh.

Lemma safe_after_unfold : forall b m, safe_after b m =
  none (attackers_of (apply b m) (b_turn (apply b m)) (king_sq (apply b m) (b_turn b)) (all_occ (apply b m))).
Proof. reflexivity. Qed.

Lemma opp_safe_intro : forall b c, b_turn b = c ->
  none (attackers_of b c (king_sq b (opp c)) (all_occ b)) = true -> opp_safe b.
Proof. intros b c <- H. exact H. Qed.

Definition good_apply_statement : Prop :=
  forall b m, Good b -> gen_move b m -> safe_after b m = true -> Good (apply b m).

Theorem good_apply_min :
  attackers_mem_statement -> kings_statement -> after_move_statement -> good_apply_statement.
Proof.
  intros AT1 AT3 AT6 b m G Hg Hsafe.
  pose proof (Good_own_king b G) as K.
  destruct (gen_move_ok b m (Good_Part b G) K Hg) as (pc & promo & MO).
  destruct (apply_turn_ep b m) as [ET _].
  constructor.
  - exact (Inv_apply b m (good_inv b G) K Hg).
  - exact (proj1 (succ_king_sq b m pc promo AT1 AT3 AT6 G MO White)).
  - exact (proj1 (succ_king_sq b m pc promo AT1 AT3 AT6 G MO Black)).
  - exact (succ_fresh b m pc promo AT1 AT3 AT6 G MO).
  - rewrite safe_after_unfold, ET in Hsafe. apply (opp_safe_intro _ _ ET). rewrite opp_opp. exact Hsafe.
Qed.

Theorem good_apply :
  attackers_mem_statement -> slider_att_statement -> kings_statement -> after_move_statement -> safe_after_spec_statement ->
  good_apply_statement.
Proof. intros AT1 _ AT3 AT6 _. exact (good_apply_min AT1 AT3 AT6). Qed.

Print Assumptions no_king_capture.
Print Assumptions good_apply_min.
Print Assumptions good_apply.
