(* C06: a board that passes `validate` abstracts to a `playable` rules position. *)
From Coq Require Import NArith ZArith List Bool Lia ZifyBool ZifyN.
From Chess Require Import base.Bits base.Types base.BitBoard base.Sweep geom.Geometry model.Board spec.Rules.
From Chess Require Import model.Fen proofs.FenFacts.
From Chess Require Import proofs.BitsFacts proofs.BitBoardFacts proofs.BridgeFacts.
Import ListNotations.
Local Open Scope N_scope.

(* ---- counting cells = popcount of the sets ---- *)
Lemma count_cells_unfold : forall f cs, count_cells f cs = N.of_nat (length (filter f cs)).
Proof. reflexivity. Qed.

Lemma count_cells_abs : forall b (f : cell -> bool) X, wf64 X ->
  (forall s, s < 64 -> f (raw_get b s) = mem X s) ->
  count_cells f (cells (abs b)) = count X.
Proof.
  intros b f X HX H. rewrite count_cells_unfold, cells_abs, filter_map_length.
  rewrite (count_spec X HX), elements_unfold. f_equal. f_equal.
  apply filter_ext_in'. intros s Hs. apply H. exact (sq_list_lt s Hs).
Qed.

Lemma cell_eqb_unfold : forall a b, cell_eqb a b =
  match a, b with
  | None, None => true
  | Some (c1, p1), Some (c2, p2) => color_eqb c1 c2 && piece_eqb p1 p2
  | _, _ => false
  end.
Proof. reflexivity. Qed.

Lemma cell_eqb_some : forall x c p, cell_eqb x (Some (c, p)) = true <-> x = Some (c, p).
Proof.
  intros [[c1 p1]|] c p; rewrite cell_eqb_unfold.
  - rewrite andb_true_iff, color_eqb_eq, piece_eqb_eq'. split.
    + intros [-> ->]. reflexivity.
    + intros H. injection H as -> ->. split; reflexivity.
  - split; discriminate.
Qed.

Theorem count_piece_cells : forall b c p, Part b ->
  count_cells (fun x => cell_eqb x (Some (c, p))) (cells (abs b)) = count (bb_and (colors b c) (pieces b p)).
Proof.
  intros b c p P. apply count_cells_abs; [exact (wf64_color_piece b c p P)|].
  intros s Hs. apply eq_iff_eq_true. rewrite cell_eqb_some, (raw_get_some b s c p P Hs), mem_and, andb_true_iff.
  reflexivity.
Qed.

Theorem count_color_cells : forall b c, Part b ->
  count_cells (fun x => match x with Some (c', _) => color_eqb c c' | None => false end) (cells (abs b))
  = count (colors b c).
Proof.
  intros b c P. apply count_cells_abs; [exact (part_wf_colors b P c)|].
  intros s Hs. rewrite <- (has_color_abs b c s P Hs), has_color_unfold, (abs_cell b s Hs). reflexivity.
Qed.

(* ---- unfolding equations ---- *)
Lemma playable_unfold : forall p, playable p =
  (length (cells p) =? 64)%nat
  && (count_cells (fun x => cell_eqb x (Some (White, King))) (cells p) =? 1)
  && (count_cells (fun x => cell_eqb x (Some (Black, King))) (cells p) =? 1)
  && (count_cells (fun x => match x with Some (c', _) => color_eqb White c' | None => false end) (cells p) <=? 16)
  && (count_cells (fun x => match x with Some (c', _) => color_eqb Black c' | None => false end) (cells p) <=? 16)
  && negb (in_check_cells (cells p) (opp (stm p)))
  && (negb (cr_wk p) || (is_piece (cells p) White King 4 && is_piece (cells p) White Rook 7))
  && (negb (cr_wq p) || (is_piece (cells p) White King 4 && is_piece (cells p) White Rook 0))
  && (negb (cr_bk p) || (is_piece (cells p) Black King 60 && is_piece (cells p) Black Rook 63))
  && (negb (cr_bq p) || (is_piece (cells p) Black King 60 && is_piece (cells p) Black Rook 56))
  && match epf p with
     | None => true
     | Some f => (f <? 8) && negb (occupied (cells p) (mk_sq f (ep_capture_rank (stm p))))
                 && is_piece (cells p) (opp (stm p)) Pawn (mk_sq f (ep_pawn_rank (stm p)))
     end.
Proof. reflexivity. Qed.

Lemma validate_unfold : forall b, validate b =
  if negb (has_kings b) then Some MissingKings
  else if (16 <? count (b_white b)) || (16 <? count (b_black b)) then Some TooManyPieces
  else if negb (validate_en_passant b) then Some InvalidEnpassant
  else if negb (validate_castle_rights b) then Some InvalidCastleRights
  else if any (attackers_of b (b_turn b) (king_sq b (opp (b_turn b))) (all_occ b)) then Some OpponentInCheck
  else None.
Proof. reflexivity. Qed.

Lemma validate_none : forall b, validate b = None ->
  has_kings b = true /\ count (b_white b) <= 16 /\ count (b_black b) <= 16
  /\ validate_en_passant b = true /\ validate_castle_rights b = true
  /\ any (attackers_of b (b_turn b) (king_sq b (opp (b_turn b))) (all_occ b)) = false.
Proof.
  intros b. rewrite validate_unfold.
  destruct (has_kings b); cbn [negb]; [|discriminate].
  destruct ((16 <? count (b_white b)) || (16 <? count (b_black b))) eqn:E; [discriminate|].
  destruct (validate_en_passant b); cbn [negb]; [|discriminate].
  destruct (validate_castle_rights b); cbn [negb]; [|discriminate].
  destruct (any (attackers_of b (b_turn b) (king_sq b (opp (b_turn b))) (all_occ b))); [discriminate|].
  intros _. apply orb_false_elim in E. destruct E as [E1 E2]. apply N.ltb_ge in E1, E2.
  repeat split; assumption.
Qed.

Lemma has_kings_unfold : forall b, has_kings b =
  (count (b_king b) =? 2) && (count (bb_and (b_king b) (b_white b)) =? 1) && (count (bb_and (b_king b) (b_black b)) =? 1).
Proof. reflexivity. Qed.

Lemma has_kings_counts : forall b, has_kings b = true ->
  forall c, count (bb_and (colors b c) (b_king b)) = 1.
Proof.
  intros b H c. rewrite has_kings_unfold in H. apply andb_prop in H. destruct H as [H H3].
  apply andb_prop in H. destruct H as [_ H2]. apply N.eqb_eq in H2, H3.
  unfold bb_and in *. destruct c; cbn [colors]; rewrite N.land_comm; assumption.
Qed.

Lemma has_kings_nonzero : forall b, has_kings b = true -> forall c, bb_and (colors b c) (b_king b) <> 0.
Proof.
  intros b H c Hz. pose proof (has_kings_counts b H c) as H1. rewrite Hz, count_0 in H1. discriminate.
Qed.

Lemma validate_castle_rights_unfold : forall b, validate_castle_rights b =
     (negb (cr_contains (b_rights b) KingSide White) || get_is b 7 White Rook)
  && (negb (cr_contains (b_rights b) QueenSide White) || get_is b 0 White Rook)
  && (negb (cr_contains (b_rights b) KingSide Black) || get_is b 63 Black Rook)
  && (negb (cr_contains (b_rights b) QueenSide Black) || get_is b 56 Black Rook)
  && (negb (cr_contains_color (b_rights b) White) || get_is b 4 White King)
  && (negb (cr_contains_color (b_rights b) Black) || get_is b 60 Black King).
Proof. reflexivity. Qed.

Lemma cr_contains_color_unfold : forall r c, cr_contains_color r c = cr_contains r KingSide c || cr_contains r QueenSide c.
Proof. reflexivity. Qed.

Lemma validate_en_passant_unfold : forall b, validate_en_passant b =
  match b_ep b with
  | None => true
  | Some f =>
    match raw_get b (mk_sq f (ep_capture_rank_of (b_turn b))) with
    | Some _ => false
    | None =>
      match raw_get b (mk_sq f (ep_pawn_rank_of (b_turn b))) with
      | Some (c, p) => negb (color_eqb c (b_turn b)) && piece_eqb p Pawn
      | None => false
      end
    end
  end.
Proof. reflexivity. Qed.

Lemma mk_sq_lt : forall f r, f < 8 -> r < 8 -> mk_sq f r < 64.
Proof. intros f r Hf Hr. unfold mk_sq. lia. Qed.

Lemma ep_ranks : forall c, ep_capture_rank c = ep_capture_rank_of c /\ ep_pawn_rank c = ep_pawn_rank_of c
  /\ ep_capture_rank_of c < 8 /\ ep_pawn_rank_of c < 8.
Proof. destruct c; repeat split. Qed.

Lemma abs_fields : forall b,
  stm (abs b) = b_turn b /\ epf (abs b) = b_ep b
  /\ cr_wk (abs b) = cr_contains (b_rights b) KingSide White /\ cr_wq (abs b) = cr_contains (b_rights b) QueenSide White
  /\ cr_bk (abs b) = cr_contains (b_rights b) KingSide Black /\ cr_bq (abs b) = cr_contains (b_rights b) QueenSide Black.
Proof. intros b. repeat split. Qed.

(* ---- the theorem ---- *)
Theorem validate_playable_gen : forall b, Part b -> (forall f, b_ep b = Some f -> f < 8) ->
  validate b = None -> playable (abs b) = true.
Proof.
  intros b P Hep Hv.
  destruct (validate_none b Hv) as [Hk [Hw [Hb [Hen [Hcr Hatt]]]]].
  destruct (abs_fields b) as [Estm [Eepf [Ewk [Ewq [Ebk Ebq]]]]].
  rewrite playable_unfold, Estm, Eepf, Ewk, Ewq, Ebk, Ebq.
  rewrite abs_length, !count_piece_cells, !count_color_cells by exact P.
  change (pieces b King) with (b_king b).
  rewrite (has_kings_counts b Hk White), (has_kings_counts b Hk Black).
  change (colors b White) with (b_white b). change (colors b Black) with (b_black b).
  apply N.leb_le in Hw, Hb. rewrite Hw, Hb.
  rewrite (in_check_cells_bridge b (opp (b_turn b)) P (has_kings_nonzero b Hk _)), opp_opp, Hatt.
  (* castling *)
  rewrite validate_castle_rights_unfold, !cr_contains_color_unfold in Hcr.
  rewrite !get_is_abs in Hcr by reflexivity.
  (* en passant *)
  assert (Hepg : match b_ep b with
     | None => true
     | Some f => (f <? 8) && negb (occupied (cells (abs b)) (mk_sq f (ep_capture_rank (b_turn b))))
                 && is_piece (cells (abs b)) (opp (b_turn b)) Pawn (mk_sq f (ep_pawn_rank (b_turn b)))
     end = true).
  { rewrite validate_en_passant_unfold in Hen. destruct (b_ep b) as [f|] eqn:Ef; [|reflexivity].
    specialize (Hep f eq_refl).
    destruct (ep_ranks (b_turn b)) as [-> [-> [Hr1 Hr2]]].
    pose proof (mk_sq_lt f _ Hep Hr1) as H1. pose proof (mk_sq_lt f _ Hep Hr2) as H2.
    rewrite occupied_unfold, is_piece_unfold, !abs_cell by assumption.
    apply N.ltb_lt in Hep. rewrite Hep.
    destruct (raw_get b (mk_sq f (ep_capture_rank_of (b_turn b)))); [discriminate|].
    destruct (raw_get b (mk_sq f (ep_pawn_rank_of (b_turn b)))) as [[c p]|]; [|discriminate].
    apply andb_prop in Hen. destruct Hen as [Hc Hp]. apply piece_eqb_eq' in Hp. subst p.
    destruct c, (b_turn b); cbn in Hc |- *; try discriminate; reflexivity. }
  rewrite Hepg. clear Hepg.
  change (Nat.eqb 64 64) with true.
  destruct (cr_contains (b_rights b) KingSide White), (cr_contains (b_rights b) QueenSide White),
           (cr_contains (b_rights b) KingSide Black), (cr_contains (b_rights b) QueenSide Black),
           (is_piece (cells (abs b)) White Rook 7), (is_piece (cells (abs b)) White Rook 0),
           (is_piece (cells (abs b)) Black Rook 63), (is_piece (cells (abs b)) Black Rook 56),
           (is_piece (cells (abs b)) White King 4), (is_piece (cells (abs b)) Black King 60);
    cbn [negb orb andb] in Hcr |- *; try discriminate; reflexivity.
Qed.

(* the signature C06 asks for (rights bound and empty pin set are not needed) *)
Theorem validate_playable : forall b, Part b -> b_rights b < 16 -> (forall f, b_ep b = Some f -> f < 8) ->
  b_pinned b = 0 -> validate b = None -> playable (abs b) = true.
Proof. intros b P _ Hep _ Hv. exact (validate_playable_gen b P Hep Hv). Qed.

(* update_pin_info changes only pinned / checkers: the abstraction does not see it *)
Lemma raw_get_set_pins : forall b p c s, raw_get (set_pins b p c) s = raw_get b s.
Proof. reflexivity. Qed.

Lemma abs_set_pins : forall b p c, abs (set_pins b p c) = abs b.
Proof.
  intros b p c. unfold abs. rewrite (map_ext _ _ (raw_get_set_pins b p c)). reflexivity.
Qed.

Lemma update_pin_info_set_pins : forall b, exists p c, update_pin_info b = set_pins b p c.
Proof.
  intros b. unfold update_pin_info.
  destruct (scan_sliders (all_occ b) (king_sq b (b_turn b)) _) as [p c]. eexists. eexists. reflexivity.
Qed.

Theorem abs_update_pin_info : forall b, abs (update_pin_info b) = abs b.
Proof. intros b. destruct (update_pin_info_set_pins b) as [p [c ->]]. apply abs_set_pins. Qed.

Theorem playable_update_pin_info : forall b, playable (abs (update_pin_info b)) = playable (abs b).
Proof. intros b. rewrite abs_update_pin_info. reflexivity. Qed.

Theorem build_playable : forall b b', Part b -> (forall f, b_ep b = Some f -> f < 8) ->
  build b = inl b' -> playable (abs b') = true.
Proof.
  intros b b' P Hep. unfold build. destruct (validate b) eqn:Hv; [discriminate|].
  intros H. injection H as <-. rewrite playable_update_pin_info. exact (validate_playable_gen b P Hep Hv).
Qed.

(* ------------------------------------------------------------------ *)
(* C03 on validated boards: the two kings are not adjacent, so the check flag is the rules' check *)

Lemma count_1_unique : forall X s, wf64 X -> count X = 1 -> s < 64 -> mem X s = true -> s = tz64 X.
Proof.
  intros X s HX Hc Hs Hm.
  assert (Hnz : X <> 0) by (intros ->; rewrite count_0 in Hc; discriminate).
  pose proof (hd_elements X HX Hnz) as Hh.
  rewrite (count_spec X HX) in Hc.
  assert (Hin : In s (elements X)) by (apply elements_spec; split; assumption).
  destruct (elements X) as [|x [|y r]]; cbn [length hd_error] in *.
  - destruct Hin.
  - injection Hh as ->. destruct Hin as [<-|[]]. reflexivity.
  - lia.
Qed.

Theorem validate_kings_apart : forall b, Part b -> validate b = None ->
  any (bb_and (bb_and (king_geo (king_sq b (b_turn b))) (b_king b)) (colors b (opp (b_turn b)))) = false.
Proof.
  intros b P Hv. destruct (validate_none b Hv) as [Hk [_ [_ [_ [_ Hatt]]]]].
  rewrite attackers_of_unfold, !any_or in Hatt.
  apply orb_false_elim in Hatt. destruct Hatt as [_ Hatt].
  apply orb_false_elim in Hatt. destruct Hatt as [_ Hatt].
  apply orb_false_elim in Hatt. destruct Hatt as [Hkg _].
  set (c := b_turn b) in *.
  pose proof (has_kings_nonzero b Hk c) as Hn1. pose proof (has_kings_nonzero b Hk (opp c)) as Hn2.
  pose proof (king_sq_lt b c P Hn1) as Hl1. pose proof (king_sq_lt b (opp c) P Hn2) as Hl2.
  destruct (king_sq_mem b c Hn1) as [Hc1 Hk1].
  destruct (any (bb_and (bb_and (king_geo (king_sq b c)) (b_king b)) (colors b (opp c)))) eqn:E; [|reflexivity].
  exfalso. apply any_iff in E. destruct E as [s Hs]. rewrite !mem_and in Hs.
  apply andb_prop in Hs. destruct Hs as [Hs Hcs]. apply andb_prop in Hs. destruct Hs as [Hgs Hks].
  assert (Hs64 : s < 64).
  { destruct (N.lt_ge_cases s 64) as [|Hge]; [assumption|].
    rewrite (wf64_high _ s (part_wf_colors b P (opp c)) Hge) in Hcs. discriminate. }
  assert (s = king_sq b (opp c)) as ->.
  { rewrite king_sq_unfold. apply count_1_unique.
    - exact (wf64_color_piece b (opp c) King P).
    - exact (has_kings_counts b Hk (opp c)).
    - exact Hs64.
    - rewrite mem_and, Hcs, Hks. reflexivity. }
  rewrite (king_geo_sym _ _ Hl1 Hl2) in Hgs.
  apply any_false_iff in Hkg.
  assert (Hm : mem (bb_and (bb_and (king_geo (king_sq b (opp c))) (b_king b)) (colors b c)) (king_sq b c) = true)
    by (rewrite !mem_and, Hgs, Hk1, Hc1; reflexivity).
  rewrite Hkg, mem_0 in Hm. discriminate.
Qed.

Theorem validate_in_check : forall b, Part b -> validate b = None ->
  Board.in_check (update_pin_info b) = Rules.in_check (abs b).
Proof.
  intros b P Hv. destruct (validate_none b Hv) as [Hk _].
  apply in_check_bridge; [exact P|exact (has_kings_nonzero b Hk _)|exact (validate_kings_apart b P Hv)].
Qed.

Theorem build_in_check : forall b b', Part b -> build b = inl b' ->
  Board.in_check b' = Rules.in_check (abs b').
Proof.
  intros b b' P. unfold build. destruct (validate b) eqn:Hv; [discriminate|].
  intros H. injection H as <-. rewrite abs_update_pin_info. exact (validate_in_check b P Hv).
Qed.

(* ------------------------------------------------------------------ *)
(* C06 closed: the placement loop of parse_fen builds a partition, hence every accepted FEN is playable *)

(* loop invariant: every occupied square was visited before (file, rank) in the FEN order (rank 7 first) *)
Definition PInv (file rank : N) (b : board) : Prop :=
  Part b /\ forall f r, f < 8 -> r < 8 -> mem (all_occ b) (mk_sq f r) = true -> (7 - r) * 8 + f < (7 - rank) * 8 + file.

Lemma PInv_mono : forall file rank file' rank' b, PInv file rank b ->
  (7 - rank) * 8 + file <= (7 - rank') * 8 + file' -> PInv file' rank' b.
Proof.
  intros file rank file' rank' b [P H] Hle. split; [exact P|].
  intros f r Hf Hr Hm. specialize (H f r Hf Hr Hm). lia.
Qed.

Lemma all_occ_set_zob : forall b z, all_occ (set_zob b z) = all_occ b.
Proof. reflexivity. Qed.

Lemma PInv_place : forall file rank b c p z, file <= 7 -> rank <= 7 -> PInv file rank b ->
  PInv (file + 1) rank (set_zob (raw_set_unchecked b c p (mk_sq file rank)) z).
Proof.
  intros file rank b c p z Hf Hr [P H]. split.
  - apply Part_set_zob, Part_raw_set_unchecked; [exact P|].
    destruct (mem (all_occ b) (mk_sq file rank)) eqn:E; [|reflexivity].
    specialize (H file rank ltac:(lia) ltac:(lia) E). lia.
  - intros f r Hf' Hr' Hm. rewrite all_occ_set_zob, all_occ_raw_set in Hm.
    apply orb_prop in Hm. destruct Hm as [Hm|Hm].
    + specialize (H f r Hf' Hr' Hm). lia.
    + apply andb_prop in Hm. destruct Hm as [_ Hm]. apply N.eqb_eq in Hm. unfold mk_sq in Hm. lia.
Qed.

Lemma PInv_empty : PInv 0 7 empty_board.
Proof.
  split; [exact Part_empty_board|]. intros f r _ _ Hm.
  change (all_occ empty_board) with (bb_or 0 0) in Hm. rewrite mem_or, mem_0 in Hm. discriminate.
Qed.

Lemma after_k_Part : forall rest rank file' b' raw rest',
  (forall f r b, f <= 7 -> r <= 7 -> PInv f r b ->
     forall raw rest', placement rest f r b = Ret (inr (raw, rest')) -> Part raw) ->
  rank <= 7 -> PInv file' rank b' -> after_k rest rank file' b' = Ret (inr (raw, rest')) -> Part raw.
Proof.
  intros rest rank file' b' raw rest' IH Hr Hinv. unfold after_k.
  destruct (N.leb_spec file' 7) as [H|H]; [apply IH; assumption|].
  destruct (N.eqb_spec file' 8) as [->|Hne]; [|discriminate].
  destruct (N.eqb_spec rank 0) as [->|Hr0].
  - intros E. injection E as <- _. exact (proj1 Hinv).
  - apply IH; [lia|lia|]. apply (PInv_mono 8 rank); [exact Hinv|lia].
Qed.

Theorem placement_Part : forall s file rank b raw rest', file <= 7 -> rank <= 7 -> PInv file rank b ->
  placement s file rank b = Ret (inr (raw, rest')) -> Part raw.
Proof.
  induction s as [|x rest IH]; intros file rank b raw rest' Hf Hr Hinv.
  - rewrite placement_nil. destruct (8 <=? file); discriminate.
  - rewrite placement_cons. destruct (N.leb_spec 8 file) as [H|H]; [lia|].
    assert (IH' : forall f r b, f <= 7 -> r <= 7 -> PInv f r b ->
              forall raw rest', placement rest f r b = Ret (inr (raw, rest')) -> Part raw)
      by (intros f r b0 H1 H2 H3 raw0 rest0; exact (IH f r b0 raw0 rest0 H1 H2 H3)).
    destruct (parse_piece_byte x) as [[[c p]|d]|].
    + cbv zeta. apply (after_k_Part _ _ _ _ _ _ IH' Hr). apply PInv_place; assumption.
    + apply (after_k_Part _ _ _ _ _ _ IH' Hr). apply (PInv_mono file rank); [exact Hinv|lia].
    + destruct (x =? 47); [exact (after_k_Part _ _ _ _ _ _ IH' Hr Hinv)|].
      destruct (x =? 32); [exact (IH file rank b raw rest' Hf Hr Hinv)|discriminate].
Qed.

Theorem parse_Part : forall s b, parse_fen_t s = Ret (POk b) -> Part b.
Proof.
  intros s b H. apply parse_ok_shape in H.
  destruct H as (raw & rest & turn & r & epv & half & full & Hpl & -> & _).
  pose proof (placement_Part s 0 7 empty_board raw rest ltac:(lia) ltac:(lia) PInv_empty Hpl) as P.
  destruct (update_pin_info_set_pins (pre_board raw turn r epv half full)) as [pi [ch ->]].
  apply Part_set_pins. unfold pre_board. apply Part_set_meta. exact P.
Qed.

(* C06_playable_statement *)
Theorem parse_playable : forall s b, parse_fen_t s = Ret (POk b) -> playable (abs b) = true.
Proof.
  intros s b H. apply parse_ok_shape in H.
  destruct H as (raw & rest & turn & r & epv & half & full & Hpl & -> & Hv & _ & _ & _ & Hep).
  pose proof (placement_Part s 0 7 empty_board raw rest ltac:(lia) ltac:(lia) PInv_empty Hpl) as P.
  rewrite playable_update_pin_info. apply validate_playable_gen; [|exact Hep|exact Hv].
  unfold pre_board. apply Part_set_meta. exact P.
Qed.

(* C03_in_check_statement on parsed boards *)
Theorem parse_in_check : forall s b, parse_fen_t s = Ret (POk b) -> Board.in_check b = Rules.in_check (abs b).
Proof.
  intros s b H. apply parse_ok_shape in H.
  destruct H as (raw & rest & turn & r & epv & half & full & Hpl & -> & Hv & _).
  pose proof (placement_Part s 0 7 empty_board raw rest ltac:(lia) ltac:(lia) PInv_empty Hpl) as P.
  rewrite abs_update_pin_info. apply validate_in_check; [|exact Hv].
  unfold pre_board. apply Part_set_meta. exact P.
Qed.

Print Assumptions validate_playable.
Print Assumptions playable_update_pin_info.
Print Assumptions build_playable.
Print Assumptions validate_in_check.
Print Assumptions parse_Part.
Print Assumptions parse_playable.
Print Assumptions parse_in_check.
