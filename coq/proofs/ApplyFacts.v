(* C02 -- "applying a legal move yields the correct successor position":
   the bitboard make-move `model/Apply.v apply` (Board::move_unchecked_into) agrees, through the abstraction
   `abs`, with the rules-level successor `spec/Rules.v make`.
     apply_abs         : Part b -> move_pre b m pc -> ep_ok b -> rights_ok b -> clocks < 65535 ->
                         abs (apply b m) = make (abs b) m                (all move kinds, record equality)
     apply_abs_cells / _side / _ep / _clocks / _rights : the same field by field (each with only what it needs)
     apply_fields      : turn, marker, clocks of `apply b m` in closed form, unconditionally
     pseudo_move_pre   : every move of `pseudo (abs b)` satisfies the local conditions `move_pre`
     apply_abs_pseudo, apply_abs_legal : C02 for every pseudo-legal / legal move of the rules
     validate_castle_rights_ok, validate_en_passant_ok : rights_ok / ep_ok from what `validate` checks
   Only the placement invariant `HashFacts.Part` is used (no hash consistency).  Axiom-free. *)
From Coq Require Import NArith ZArith List Bool Lia ZifyBool ZifyN.
From Chess Require Import base.Bits base.Types base.BitBoard base.Sweep geom.Geometry model.Board model.MoveGen model.Apply.
From Chess Require Import proofs.BitsFacts proofs.BitBoardFacts.
From Chess Require proofs.SiteFacts proofs.BridgeFacts.
From Chess Require Import proofs.HashFacts.
From Chess Require Import spec.Rules.
Import ListNotations.
Local Open Scope N_scope.

(* ------------------------------------------------------------------ *)
(** * Lists: cell_at / cell_set *)

Lemma set_nth_length : forall (A : Type) (l : list A) n v, length (set_nth l n v) = length l.
Proof.
  intros A l. induction l as [|x l IH]; intros n v; [reflexivity|].
  destruct n; cbn [set_nth length]; [reflexivity|]. rewrite IH. reflexivity.
Qed.

Lemma nth_set_nth : forall (A : Type) (l : list A) n k v d, (n < length l)%nat ->
  nth k (set_nth l n v) d = if Nat.eqb k n then v else nth k l d.
Proof.
  intros A l. induction l as [|x l IH]; intros n k v d Hn; [cbn [length] in Hn; lia|].
  destruct n as [|n]; destruct k as [|k]; cbn [set_nth nth Nat.eqb]; try reflexivity.
  apply IH. cbn [length] in Hn. lia.
Qed.

Lemma cell_set_length : forall cs s v, length (cell_set cs s v) = length cs.
Proof. intros cs s v. unfold cell_set. apply set_nth_length. Qed.

Lemma cell_at_cell_set : forall cs s v t, (N.to_nat s < length cs)%nat ->
  Rules.cell_at (cell_set cs s v) t = if t =? s then v else Rules.cell_at cs t.
Proof.
  intros cs s v t Hs. unfold Rules.cell_at, cell_set. rewrite nth_set_nth by exact Hs.
  destruct (N.eqb_spec t s) as [->|Hne].
  - rewrite Nat.eqb_refl. reflexivity.
  - destruct (Nat.eqb_spec (N.to_nat t) (N.to_nat s)) as [E|_]; [|reflexivity].
    exfalso. apply Hne. apply N2Nat.inj, E.
Qed.

(* two boards of 64 cells that agree square by square are equal *)
Lemma cells_ext : forall l1 l2 : list cell, length l1 = 64%nat -> length l2 = 64%nat ->
  (forall s, s < 64 -> Rules.cell_at l1 s = Rules.cell_at l2 s) -> l1 = l2.
Proof.
  intros l1 l2 H1 H2 H. apply (nth_ext l1 l2 None None); [congruence|].
  intros n Hn. rewrite H1 in Hn. specialize (H (N.of_nat n) ltac:(lia)).
  unfold Rules.cell_at in H. rewrite Nat2N.id in H. exact H.
Qed.

Lemma position_ext : forall p q : position,
  cells p = cells q -> stm p = stm q -> cr_wk p = cr_wk q -> cr_wq p = cr_wq q -> cr_bk p = cr_bk q ->
  cr_bq p = cr_bq q -> epf p = epf q -> hm p = hm q -> fm p = fm q -> p = q.
Proof.
  intros [c1 s1 a1 b1 d1 e1 f1 h1 g1] [c2 s2 a2 b2 d2 e2 f2 h2 g2].
  cbn [cells stm cr_wk cr_wq cr_bk cr_bq epf hm fm]. intros; subst; reflexivity.
Qed.

(* ------------------------------------------------------------------ *)
(** * `make`, field by field (the position stays abstract) *)

Section MakeFields.
  Variables (p : position) (m : move) (c0 : color) (pc : piece).
  Hypothesis Hsrc : Rules.cell_at (cells p) (m_src m) = Some (c0, pc).

  Let cs := cells p.
  Let c := stm p.
  Let s := m_src m.
  Let d := m_dst m.

  Definition mk_capture : bool := occupied (cells p) (m_dst m).
  Definition mk_ep_capture : bool :=
    piece_eqb pc Pawn && negb (file_of (m_src m) =? file_of (m_dst m)) && negb mk_capture.
  Definition mk_castle : bool := piece_eqb pc King && (absdiff (file_of (m_src m)) (file_of (m_dst m)) =? 2).
  Definition mk_placed : piece := match m_promo m with Some q => q | None => pc end.
  Definition mk_cs1 : list cell := cell_set (cell_set (cells p) (m_src m) None) (m_dst m) (Some (stm p, mk_placed)).
  Definition mk_cs2 : list cell :=
    if mk_ep_capture then cell_set mk_cs1 (mk_sq (file_of (m_dst m)) (rank_of (m_src m))) None else mk_cs1.
  Definition mk_cs3 : list cell :=
    if mk_castle
    then (if file_of (m_dst m) =? 6
          then cell_set (cell_set mk_cs2 (mk_sq 7 (rank_of (m_src m))) None) (mk_sq 5 (rank_of (m_src m))) (Some (stm p, Rook))
          else cell_set (cell_set mk_cs2 (mk_sq 0 (rank_of (m_src m))) None) (mk_sq 3 (rank_of (m_src m))) (Some (stm p, Rook)))
    else mk_cs2.
  Definition mk_touches (x : N) : bool := (m_src m =? x) || (m_dst m =? x).

  Lemma make_unfold : make p m =
    {| cells := mk_cs3; stm := opp (stm p);
       cr_wk := cr_wk p && negb (mk_touches 4) && negb (mk_touches 7);
       cr_wq := cr_wq p && negb (mk_touches 4) && negb (mk_touches 0);
       cr_bk := cr_bk p && negb (mk_touches 60) && negb (mk_touches 63);
       cr_bq := cr_bq p && negb (mk_touches 60) && negb (mk_touches 56);
       epf := if piece_eqb pc Pawn && (absdiff (rank_of (m_src m)) (rank_of (m_dst m)) =? 2) then Some (file_of (m_src m)) else None;
       hm := if piece_eqb pc Pawn || mk_capture then 0 else hm p + 1;
       fm := match stm p with White => fm p | Black => fm p + 1 end |}.
  Proof. unfold make. rewrite Hsrc. reflexivity. Qed.
End MakeFields.

(* ------------------------------------------------------------------ *)
(** * The meta fields of `apply` *)

Lemma turn_board_xor : forall b c p d, b_turn (board_xor b c p d) = b_turn b.
Proof. intros b c p d. destruct c; reflexivity. Qed.
Lemma ep_board_xor : forall b c p d, b_ep (board_xor b c p d) = b_ep b.
Proof. intros b c p d. destruct c; reflexivity. Qed.

Lemma apply_pins_fields : forall out turn k,
  b_turn (apply_pins out turn k) = b_turn out /\ b_ep (apply_pins out turn k) = b_ep out /\
  b_half (apply_pins out turn k) = b_half out /\ b_full (apply_pins out turn k) = b_full out /\
  (forall s, raw_get (apply_pins out turn k) s = raw_get out s).
Proof.
  intros out turn k. unfold apply_pins. cbv zeta.
  match goal with |- context [fold_left ?f ?l ?a] => destruct (fold_left f l a) as [pn ck] end.
  repeat split.
Qed.

Lemma turn_set_half : forall b h, b_turn (set_half b h) = b_turn b. Proof. reflexivity. Qed.
Lemma ep_set_half : forall b h, b_ep (set_half b h) = b_ep b. Proof. reflexivity. Qed.
Lemma turn_set_full : forall b h, b_turn (set_full b h) = b_turn b. Proof. reflexivity. Qed.
Lemma ep_set_full : forall b h, b_ep (set_full b h) = b_ep b. Proof. reflexivity. Qed.
Lemma turn_set_rights : forall b h, b_turn (set_rights b h) = b_turn b. Proof. reflexivity. Qed.
Lemma ep_set_rights : forall b h, b_ep (set_rights b h) = b_ep b. Proof. reflexivity. Qed.
Lemma turn_set_ep : forall b h, b_turn (set_ep b h) = b_turn b. Proof. reflexivity. Qed.
Lemma ep_set_ep : forall b h, b_ep (set_ep b h) = h. Proof. reflexivity. Qed.
Lemma turn_set_checkers : forall b h, b_turn (set_checkers b h) = b_turn b. Proof. reflexivity. Qed.
Lemma ep_set_checkers : forall b h, b_ep (set_checkers b h) = b_ep b. Proof. reflexivity. Qed.
Lemma turn_set_meta : forall b t r e h f pn ck, b_turn (set_meta b t r e h f pn ck) = t. Proof. reflexivity. Qed.
Lemma ep_set_meta : forall b t r e h f pn ck, b_ep (set_meta b t r e h f pn ck) = e. Proof. reflexivity. Qed.
Lemma half_set_meta : forall b t r e h f pn ck, b_half (set_meta b t r e h f pn ck) = h. Proof. reflexivity. Qed.
Lemma full_set_meta : forall b t r e h f pn ck, b_full (set_meta b t r e h f pn ck) = f. Proof. reflexivity. Qed.

Ltac fld_rw1 :=
  rewrite ?turn_board_xor, ?ep_board_xor, ?SiteFacts.half_board_xor, ?SiteFacts.full_board_xor,
          ?turn_set_half, ?ep_set_half, ?SiteFacts.half_set_half, ?SiteFacts.full_set_half,
          ?turn_set_full, ?ep_set_full, ?SiteFacts.half_set_full, ?SiteFacts.full_set_full,
          ?turn_set_rights, ?ep_set_rights, ?SiteFacts.half_set_rights, ?SiteFacts.full_set_rights,
          ?turn_set_ep, ?ep_set_ep, ?SiteFacts.half_set_ep, ?SiteFacts.full_set_ep,
          ?turn_set_checkers, ?ep_set_checkers, ?SiteFacts.half_set_checkers, ?SiteFacts.full_set_checkers,
          ?turn_set_meta, ?ep_set_meta, ?half_set_meta, ?full_set_meta.
Ltac fld_rw := repeat (progress fld_rw1).

Lemma stage4_fields : forall self mv,
  b_turn (apply_stage4 self mv) = opp (b_turn self) /\ b_ep (apply_stage4 self mv) = None /\
  b_half (apply_stage4 self mv) = (match piece_of self (m_dst mv) with Some _ => 0 | None => sat16 (b_half self + 1) end) /\
  b_full (apply_stage4 self mv) = sat16 (b_full self + color_idx (b_turn self)).
Proof.
  intros self mv. unfold apply_stage4, apply_stage2. cbv zeta.
  destruct (piece_of self (m_dst mv)) as [cp|]; fld_rw; repeat split.
Qed.

Definition ep_after (self : board) (mv : move) : option N :=
  match piece_of_unchecked self (m_src mv) with
  | Pawn => match m_promo mv with
            | None => if is_double_push (b_turn self) mv then Some (file_of (m_dst mv)) else None
            | Some _ => None
            end
  | _ => None
  end.
Definition half_after (self : board) (mv : move) : N :=
  match piece_of_unchecked self (m_src mv) with
  | Pawn => 0
  | _ => match piece_of self (m_dst mv) with Some _ => 0 | None => sat16 (b_half self + 1) end
  end.

Lemma stage5_body_fields : forall self mv out,
  b_turn (stage5_body self mv out) = b_turn out /\
  b_ep (stage5_body self mv out) =
    (match piece_of_unchecked self (m_src mv) with
     | Pawn => match m_promo mv with
               | None => if is_double_push (b_turn self) mv then Some (file_of (m_dst mv)) else b_ep out
               | Some _ => b_ep out
               end
     | _ => b_ep out
     end) /\
  b_half (stage5_body self mv out) = (match piece_of_unchecked self (m_src mv) with Pawn => 0 | _ => b_half out end) /\
  b_full (stage5_body self mv out) = b_full out.
Proof.
  intros self mv out. unfold stage5_body. cbv zeta.
  destruct (piece_of_unchecked self (m_src mv)) eqn:Epc.
  - destruct (m_promo mv) as [pr|].
    + destruct (piece_eqb pr Knight); fld_rw; repeat split.
    + destruct (is_double_push (b_turn self) mv).
      * fld_rw. repeat split.
      * destruct (enpassant_pos self) as [ep|].
        -- destruct (m_dst mv =? ep); fld_rw; repeat split.
        -- fld_rw. repeat split.
  - fld_rw. repeat split.
  - destruct (is_castle_move Bishop mv); fld_rw; repeat split.
  - destruct (is_castle_move Rook mv); fld_rw; repeat split.
  - destruct (is_castle_move Queen mv); fld_rw; repeat split.
  - destruct (is_castle_move King mv); fld_rw; repeat split.
Qed.

Lemma stage5_fields : forall self mv,
  b_turn (apply_stage5 self mv) = opp (b_turn self) /\ b_ep (apply_stage5 self mv) = ep_after self mv /\
  b_half (apply_stage5 self mv) = half_after self mv /\
  b_full (apply_stage5 self mv) = sat16 (b_full self + color_idx (b_turn self)).
Proof.
  intros self mv. destruct (stage4_fields self mv) as (E1 & E2 & E3 & E4).
  destruct (stage5_body_fields self mv (apply_stage4 self mv)) as (F1 & F2 & F3 & F4).
  unfold apply_stage5. rewrite F1, F2, F3, F4, E1, E2, E3, E4. unfold ep_after, half_after.
  split; [reflexivity|split; [|split; reflexivity]].
  destruct (piece_of_unchecked self (m_src mv)); try reflexivity; destruct (m_promo mv); reflexivity.
Qed.

(* the meta fields of the successor board, unconditionally *)
Theorem apply_fields : forall b m,
  b_turn (apply b m) = opp (b_turn b) /\ b_ep (apply b m) = ep_after b m /\
  b_half (apply b m) = half_after b m /\ b_full (apply b m) = sat16 (b_full b + color_idx (b_turn b)).
Proof.
  intros b m. rewrite apply_staged.
  destruct (apply_pins_fields (apply_stage5 b m) (b_turn b) (king_sq b (opp (b_turn b)))) as (E1 & E2 & E3 & E4 & _).
  rewrite E1, E2, E3, E4. apply stage5_fields.
Qed.

(* ------------------------------------------------------------------ *)
(** * Stages 2 and 4 again, under the placement invariant alone (no hash needed) *)

Lemma Part_set_half : forall b h, Part b -> Part (set_half b h).
Proof. intros b h P. unfold set_half. apply Part_set_meta; [exact P|apply part_wf_pinned, P|apply part_wf_checkers, P]. Qed.
Lemma Part_set_full : forall b h, Part b -> Part (set_full b h).
Proof. intros b h P. unfold set_full. apply Part_set_meta; [exact P|apply part_wf_pinned, P|apply part_wf_checkers, P]. Qed.
Lemma Part_set_rights : forall b h, Part b -> Part (set_rights b h).
Proof. intros b h P. unfold set_rights. apply Part_set_meta; [exact P|apply part_wf_pinned, P|apply part_wf_checkers, P]. Qed.

Lemma stage2_cells : forall self mv pc, Part self -> m_src mv < 64 -> m_dst mv < 64 ->
  raw_get self (m_src mv) = Some (b_turn self, pc) ->
  (raw_get self (m_dst mv) = None \/ exists cp, raw_get self (m_dst mv) = Some (opp (b_turn self), cp)) ->
  Part (apply_stage2 self mv) /\ (forall s, s < 64 -> raw_get (apply_stage2 self mv) s = moved self mv pc s).
Proof.
  intros self mv pc G Hs Hd Hsrc Hdst.
  pose proof (raw_get_piece_of_unchecked _ _ _ _ Hsrc) as Epc.
  assert (Hne : m_src mv <> m_dst mv).
  { intros E. rewrite <- E, Hsrc in Hdst. destruct Hdst as [H|[cp H]]; [discriminate|].
    injection H as H _. symmetry in H. exact (opp_neq _ H). }
  unfold apply_stage2. cbv zeta. rewrite Epc, piece_of_raw_get.
  set (turn := b_turn self) in *. set (src := m_src mv) in *. set (dst := m_dst mv) in *.
  set (out0 := set_meta self (opp turn) (b_rights self) None (b_half self) (b_full self) 0 0).
  assert (G0 : Part out0) by (apply Part_set_meta; [exact G|apply wf64_0|apply wf64_0]).
  assert (R0 : forall s, raw_get out0 s = raw_get self s) by reflexivity.
  set (mv_bb := bb_xor (from_pos src) (from_pos dst)).
  assert (Wmv : wf64 mv_bb) by (apply wf64_xor; apply wf64_from_pos).
  assert (Mmv : forall s, s < 64 -> mem mv_bb s = xorb (s =? src) (s =? dst)) by (intros s H; apply mem_mv_bb; assumption).
  unfold moved. fold turn src dst.
  destruct Hdst as [Hdst|[cp Hdst]]; rewrite Hdst.
  - assert (T : toggle_ok out0 turn pc mv_bb).
    { intros s H Hm. rewrite Mmv in Hm by exact H. rewrite R0.
      destruct (N.eqb_spec s src) as [->|N1]; [left; exact Hsrc|].
      destruct (N.eqb_spec s dst) as [->|N2]; [right; exact Hdst|discriminate Hm]. }
    pose proof (Part_board_xor out0 turn pc mv_bb G0 Wmv T) as G1.
    split; [apply Part_set_half, G1|].
    intros s H. change (raw_get (set_half ?x ?h) s) with (raw_get x s).
    rewrite (raw_get_board_xor out0 turn pc mv_bb G0 T s H), Mmv, R0 by exact H.
    destruct (N.eqb_spec s src) as [->|N1].
    + destruct (N.eqb_spec src dst) as [E|_]; [contradiction|]. cbn [xorb]. rewrite Hsrc. reflexivity.
    + destruct (N.eqb_spec s dst) as [->|N2]; cbn [xorb]; [rewrite Hdst|]; reflexivity.
  - set (dest_bb := from_pos dst).
    assert (Md : forall s, s < 64 -> mem dest_bb s = (s =? dst)) by (intros s H; apply mem_from_pos; assumption).
    assert (T1 : toggle_ok out0 (opp turn) cp dest_bb).
    { intros s H Hm. rewrite Md in Hm by exact H. apply N.eqb_eq in Hm. subst s. left. rewrite R0. exact Hdst. }
    pose proof (Part_board_xor out0 (opp turn) cp dest_bb G0 (wf64_from_pos dst) T1) as GX.
    set (X := board_xor out0 (opp turn) cp dest_bb) in *.
    assert (RX : forall s, s < 64 -> raw_get X s = if s =? dst then None else raw_get self s).
    { intros s H. unfold X. rewrite (raw_get_board_xor out0 (opp turn) cp dest_bb G0 T1 s H), Md, R0 by exact H.
      destruct (N.eqb_spec s dst) as [->|_]; [rewrite Hdst|]; reflexivity. }
    assert (T2 : toggle_ok X turn pc mv_bb).
    { intros s H Hm. rewrite Mmv in Hm by exact H. rewrite RX by exact H.
      destruct (N.eqb_spec s dst) as [->|N2]; [right; reflexivity|].
      destruct (N.eqb_spec s src) as [->|N1]; [left; exact Hsrc|discriminate Hm]. }
    pose proof (Part_board_xor X turn pc mv_bb GX Wmv T2) as GY.
    destruct (board_xor_comm out0 turn pc mv_bb (opp turn) cp dest_bb) as (S & Ez & Ep & Ec). cbv zeta in S, Ez, Ep, Ec.
    fold X in S, Ez, Ep, Ec.
    set (Y := board_xor X turn pc mv_bb) in *.
    set (L := board_xor (board_xor out0 turn pc mv_bb) (opp turn) cp dest_bb) in *.
    assert (GL : Part L).
    { apply (Part_same Y L); [apply same_placement_sym, S| | |exact GY].
      - rewrite Ep. apply part_wf_pinned, GY.
      - rewrite Ec. apply part_wf_checkers, GY. }
    split; [apply Part_set_half, GL|].
    intros s H. change (raw_get (set_half ?x ?h) s) with (raw_get x s).
    rewrite (same_placement_raw_get L Y S s). unfold Y.
    rewrite (raw_get_board_xor X turn pc mv_bb GX T2 s H), Mmv, RX by exact H.
    destruct (N.eqb_spec s src) as [->|N1].
    + destruct (N.eqb_spec src dst) as [E|_]; [contradiction|]. cbn [xorb]. rewrite Hsrc. reflexivity.
    + destruct (N.eqb_spec s dst) as [->|N2]; cbn [xorb]; reflexivity.
Qed.

Lemma stage4_cells : forall self mv pc, Part self -> m_src mv < 64 -> m_dst mv < 64 ->
  raw_get self (m_src mv) = Some (b_turn self, pc) ->
  (raw_get self (m_dst mv) = None \/ exists cp, raw_get self (m_dst mv) = Some (opp (b_turn self), cp)) ->
  Part (apply_stage4 self mv) /\ (forall s, s < 64 -> raw_get (apply_stage4 self mv) s = moved self mv pc s).
Proof.
  intros self mv pc G Hs Hd Hsrc Hdst.
  destruct (stage2_cells self mv pc G Hs Hd Hsrc Hdst) as [G2 R2].
  unfold apply_stage4. cbv zeta. split.
  - apply Part_set_rights, Part_set_full, G2.
  - intros s H. rewrite <- (R2 s H). reflexivity.
Qed.

(* ------------------------------------------------------------------ *)
(** * Move shapes and the finite facts about them *)

(* a pawn step of colour c, by coordinates: one forward, two forward from the start rank, one diagonally forward *)
Definition pawn_step (c : color) (s d : N) : bool :=
  let fs := file_of s in let fd := file_of d in let rs := rank_of s in let rd := rank_of d in
  match c with
  | White => ((fs =? fd) && (rd =? rs + 1)) || ((fs =? fd) && (rs =? 1) && (rd =? 3))
             || ((absdiff fs fd =? 1) && (rd =? rs + 1))
  | Black => ((fs =? fd) && (rd + 1 =? rs)) || ((fs =? fd) && (rs =? 6) && (rd =? 4))
             || ((absdiff fs fd =? 1) && (rd + 1 =? rs))
  end.
(* a king move: one step in any direction, or the castling hop from the home square *)
Definition king_step (c : color) (s d : N) : bool :=
  (dist_geo s d =? 1)
  || ((s =? mk_sq 4 (home_rank c)) && ((d =? mk_sq 6 (home_rank c)) || (d =? mk_sq 2 (home_rank c)))).

Definition dbl_bb (c : color) (s d : N) : bool :=
  bb_and (bb_xor (from_pos s) (from_pos d))
         (match c with White => bb_or (from_rank 1) (from_rank 3) | Black => bb_or (from_rank 4) (from_rank 6) end)
  =? bb_xor (from_pos s) (from_pos d).
Definition castle_bb (s d : N) : bool :=
  bb_and (bb_xor (from_pos s) (from_pos d)) CASTLE_MOVES_bb =? bb_xor (from_pos s) (from_pos d).
Definition rook_mask (c : color) (low : bool) : N :=
  bb_and (BACKRANK_BB_of c) (if low then bb_or (from_file 0) (from_file 3) else bb_or (from_file 7) (from_file 5)).

Lemma is_double_push_bb : forall c m, is_double_push c m = dbl_bb c (m_src m) (m_dst m).
Proof. reflexivity. Qed.
Lemma is_castle_move_bb : forall pc m, is_castle_move pc m = piece_eqb pc King && castle_bb (m_src m) (m_dst m).
Proof. reflexivity. Qed.
Lemma castle_rook_mv_mask : forall c m, castle_rook_mv c m = rook_mask c (file_of (m_dst m) <? 4).
Proof. reflexivity. Qed.

Definition chk_pawn (c : color) (s d : N) : bool :=
  implb (pawn_step c s d)
    (eqb (dbl_bb c s d) (absdiff (rank_of s) (rank_of d) =? 2)
     && implb (absdiff (rank_of s) (rank_of d) =? 2) ((file_of s =? file_of d) && negb (rank_of d =? last_rank c))
     && implb (rank_of d =? ep_capture_rank c)
          ((rank_of s =? ep_pawn_rank c) && negb (absdiff (rank_of s) (rank_of d) =? 2)
           && implb (file_of s =? file_of d) (s =? mk_sq (file_of d) (ep_pawn_rank c)))).
Lemma sweep_pawn : all_sq2 (chk_pawn White) && all_sq2 (chk_pawn Black) = true.
Proof. vm_compute. reflexivity. Qed.

Definition chk_king (c : color) (s d : N) : bool :=
  implb (king_step c s d)
    (eqb (castle_bb s d) (absdiff (file_of s) (file_of d) =? 2)
     && implb (absdiff (file_of s) (file_of d) =? 2)
          ((s =? mk_sq 4 (home_rank c)) && ((d =? mk_sq 6 (home_rank c)) || (d =? mk_sq 2 (home_rank c))))).
Lemma sweep_king : all_sq2 (chk_king White) && all_sq2 (chk_king Black) = true.
Proof. vm_compute. reflexivity. Qed.

Definition chk_rook_mask (c : color) (low : bool) (t : N) : bool :=
  eqb (mem (rook_mask c low) t)
      ((t =? mk_sq (if low then 0 else 7) (home_rank c)) || (t =? mk_sq (if low then 3 else 5) (home_rank c))).
Lemma sweep_rook_mask :
  all_sq (chk_rook_mask White true) && all_sq (chk_rook_mask White false)
  && all_sq (chk_rook_mask Black true) && all_sq (chk_rook_mask Black false) = true.
Proof. vm_compute. reflexivity. Qed.

Lemma pawn_facts : forall c s d, s < 64 -> d < 64 -> pawn_step c s d = true ->
  dbl_bb c s d = (absdiff (rank_of s) (rank_of d) =? 2)
  /\ (absdiff (rank_of s) (rank_of d) = 2 -> file_of s = file_of d /\ rank_of d <> last_rank c)
  /\ (rank_of d = ep_capture_rank c ->
        rank_of s = ep_pawn_rank c /\ absdiff (rank_of s) (rank_of d) <> 2
        /\ (file_of s = file_of d -> s = mk_sq (file_of d) (ep_pawn_rank c))).
Proof.
  intros c s d Hs Hd H. pose proof sweep_pawn as W. apply andb_true_iff in W. destruct W as [W1 W2].
  assert (K : chk_pawn c s d = true) by (destruct c; [exact (all_sq2_spec _ W1 s d Hs Hd)|exact (all_sq2_spec _ W2 s d Hs Hd)]).
  unfold chk_pawn in K. rewrite H in K. cbn [implb] in K.
  generalize dependent (dbl_bb c s d). generalize dependent (pawn_step c s d).
  generalize (absdiff (rank_of s) (rank_of d)) (rank_of s) (rank_of d) (file_of s) (file_of d) (last_rank c)
             (ep_capture_rank c) (mk_sq (file_of d) (ep_pawn_rank c)) (ep_pawn_rank c).
  intros. destruct b0; lia.
Qed.

Lemma king_facts : forall c s d, s < 64 -> d < 64 -> king_step c s d = true ->
  castle_bb s d = (absdiff (file_of s) (file_of d) =? 2)
  /\ (absdiff (file_of s) (file_of d) = 2 ->
        s = mk_sq 4 (home_rank c) /\ (d = mk_sq 6 (home_rank c) \/ d = mk_sq 2 (home_rank c))).
Proof.
  intros c s d Hs Hd H. pose proof sweep_king as W. apply andb_true_iff in W. destruct W as [W1 W2].
  assert (K : chk_king c s d = true) by (destruct c; [exact (all_sq2_spec _ W1 s d Hs Hd)|exact (all_sq2_spec _ W2 s d Hs Hd)]).
  unfold chk_king in K. rewrite H in K. cbn [implb] in K.
  generalize dependent (castle_bb s d). generalize dependent (king_step c s d).
  generalize (absdiff (file_of s) (file_of d)) (mk_sq 4 (home_rank c)) (mk_sq 6 (home_rank c)) (mk_sq 2 (home_rank c)).
  intros. destruct b0; lia.
Qed.

Lemma mem_rook_mask : forall c low t, t < 64 ->
  mem (rook_mask c low) t
  = ((t =? mk_sq (if low then 0 else 7) (home_rank c)) || (t =? mk_sq (if low then 3 else 5) (home_rank c))).
Proof.
  intros c low t Ht. pose proof sweep_rook_mask as W. rewrite !andb_true_iff in W. destruct W as [[[W1 W2] W3] W4].
  apply eqb_prop.
  destruct c, low; [exact (all_sq_spec _ W1 t Ht)|exact (all_sq_spec _ W2 t Ht)|exact (all_sq_spec _ W3 t Ht)|exact (all_sq_spec _ W4 t Ht)].
Qed.

(* ------------------------------------------------------------------ *)
(** * Stage 5, square by square (the board `out` after stage 4 stays abstract) *)

Lemma raw_get_set_checkers : forall b c s, raw_get (set_checkers b c) s = raw_get b s. Proof. reflexivity. Qed.
Lemma raw_get_set_half : forall b c s, raw_get (set_half b c) s = raw_get b s. Proof. reflexivity. Qed.
Lemma raw_get_set_ep : forall b c s, raw_get (set_ep b c) s = raw_get b s. Proof. reflexivity. Qed.
Lemma Part_set_ep : forall b h, Part b -> Part (set_ep b h).
Proof. intros b h P. unfold set_ep. apply Part_set_meta; [exact P|apply part_wf_pinned, P|apply part_wf_checkers, P]. Qed.
Lemma Part_set_checkers : forall b ck, Part b -> wf64 ck -> Part (set_checkers b ck).
Proof. intros b ck P W. unfold set_checkers, set_pins. apply Part_set_meta; [exact P|apply part_wf_pinned, P|exact W]. Qed.

Lemma is_castle_move_not_king : forall pc m, pc <> King -> is_castle_move pc m = false.
Proof. intros pc m H. rewrite is_castle_move_bb. destruct pc; try reflexivity. contradiction H; reflexivity. Qed.

Section Stage5Cells.
  Variables (self : board) (mv : move) (pc : piece) (out : board).
  Let turn := b_turn self.
  Hypothesis Epc : piece_of_unchecked self (m_src mv) = pc.
  Hypothesis P : Part out.

  Lemma s5_plain : pc <> Pawn -> is_castle_move pc mv = false ->
    forall t, raw_get (stage5_body self mv out) t = raw_get out t.
  Proof.
    intros Np Hc t. unfold stage5_body. cbv zeta. rewrite Epc.
    destruct pc; try (rewrite Hc); try reflexivity. contradiction Np; reflexivity.
  Qed.

  Lemma s5_castle : pc = King -> is_castle_move pc mv = true ->
    toggle_ok out turn Rook (castle_rook_mv turn mv) ->
    forall t, t < 64 -> raw_get (stage5_body self mv out) t =
      if mem (castle_rook_mv turn mv) t then match raw_get out t with Some _ => None | None => Some (turn, Rook) end
      else raw_get out t.
  Proof.
    intros E Hc T t Ht. unfold stage5_body. cbv zeta. rewrite E in Hc. rewrite Epc, E, Hc.
    fold turn. apply raw_get_board_xor; assumption.
  Qed.

  Lemma s5_promo : forall q, pc = Pawn -> m_promo mv = Some q -> m_dst mv < 64 ->
    raw_get out (m_dst mv) = Some (turn, Pawn) ->
    forall t, t < 64 -> raw_get (stage5_body self mv out) t = if t =? m_dst mv then Some (turn, q) else raw_get out t.
  Proof.
    intros q E Hq Hd Rd t Ht. unfold stage5_body. cbv zeta. rewrite Epc, E. rewrite Hq. fold turn.
    set (o2 := if piece_eqb q Knight then _ else _).
    assert (P1 : Part (set_half out 0)) by (apply Part_set_half, P).
    assert (P2 : Part o2).
    { unfold o2. destruct (piece_eqb q Knight); [|exact P1].
      apply Part_set_checkers; [exact P1|]. apply wf64_xor; [apply part_wf_checkers, P1|apply wf64_land_r, wf64_from_pos]. }
    assert (R2 : forall s, raw_get o2 s = raw_get out s) by (intros s; unfold o2; destruct (piece_eqb q Knight); reflexivity).
    assert (Md : forall s, s < 64 -> mem (from_pos (m_dst mv)) s = (s =? m_dst mv)) by (intros s H; apply mem_from_pos; assumption).
    assert (T1 : toggle_ok o2 turn Pawn (from_pos (m_dst mv))).
    { intros s H Hm. rewrite Md in Hm by exact H. apply N.eqb_eq in Hm. subst s. left. rewrite R2. exact Rd. }
    pose proof (Part_board_xor o2 turn Pawn _ P2 (wf64_from_pos _) T1) as P3.
    assert (R3 : forall s, s < 64 -> raw_get (board_xor o2 turn Pawn (from_pos (m_dst mv))) s
                                     = if s =? m_dst mv then None else raw_get out s).
    { intros s H. rewrite (raw_get_board_xor o2 turn Pawn _ P2 T1 s H), Md, R2 by exact H.
      destruct (N.eqb_spec s (m_dst mv)) as [->|_]; [rewrite Rd|]; reflexivity. }
    assert (T2 : toggle_ok (board_xor o2 turn Pawn (from_pos (m_dst mv))) turn q (from_pos (m_dst mv))).
    { intros s H Hm. rewrite Md in Hm by exact H. apply N.eqb_eq in Hm. subst s. right.
      rewrite R3 by exact H. rewrite N.eqb_refl. reflexivity. }
    rewrite (raw_get_board_xor _ turn q _ P3 T2 t Ht), Md, R3 by exact Ht.
    destruct (N.eqb_spec t (m_dst mv)); reflexivity.
  Qed.

  Lemma s5_double : pc = Pawn -> m_promo mv = None -> is_double_push turn mv = true ->
    forall t, raw_get (stage5_body self mv out) t = raw_get out t.
  Proof.
    intros E Hq Hdbl t. unfold stage5_body. cbv zeta. rewrite Epc, E. rewrite Hq. fold turn. rewrite Hdbl.
    reflexivity.
  Qed.

  Lemma s5_pawn_plain : pc = Pawn -> m_promo mv = None -> is_double_push turn mv = false ->
    enpassant_pos self <> Some (m_dst mv) ->
    forall t, raw_get (stage5_body self mv out) t = raw_get out t.
  Proof.
    intros E Hq Hdbl Hep t. unfold stage5_body. cbv zeta. rewrite Epc, E. rewrite Hq. fold turn. rewrite Hdbl.
    destruct (enpassant_pos self) as [ep|]; [|reflexivity].
    destruct (N.eqb_spec (m_dst mv) ep) as [E'|_]; [|reflexivity].
    contradiction Hep. rewrite E'. reflexivity.
  Qed.

  Lemma s5_ep : pc = Pawn -> m_promo mv = None -> is_double_push turn mv = false ->
    enpassant_pos self = Some (m_dst mv) -> ep_victim_sq turn mv < 64 ->
    raw_get out (ep_victim_sq turn mv) = Some (opp turn, Pawn) ->
    forall t, t < 64 -> raw_get (stage5_body self mv out) t = if t =? ep_victim_sq turn mv then None else raw_get out t.
  Proof.
    intros E Hq Hdbl Hep Hv Rv t Ht. unfold stage5_body. cbv zeta. rewrite Epc, E. rewrite Hq. fold turn.
    rewrite Hdbl, Hep, N.eqb_refl. rewrite raw_get_set_checkers.
    assert (P1 : Part (set_half out 0)) by (apply Part_set_half, P).
    assert (T : toggle_ok (set_half out 0) (opp turn) Pawn (from_pos (ep_victim_sq turn mv))).
    { intros s H Hm. rewrite mem_from_pos in Hm by assumption. apply N.eqb_eq in Hm. subst s. left.
      rewrite raw_get_set_half. exact Rv. }
    rewrite (raw_get_board_xor _ _ _ _ P1 T t Ht), mem_from_pos, raw_get_set_half by assumption.
    destruct (N.eqb_spec t (ep_victim_sq turn mv)) as [->|_]; [rewrite Rv|]; reflexivity.
  Qed.
End Stage5Cells.

(* ------------------------------------------------------------------ *)
(** * The local move conditions *)

(* the en-passant marker is well formed: the marker square is empty and the pawn that made the double step is in place *)
Definition ep_ok (b : board) : Prop :=
  forall f, b_ep b = Some f ->
    f < 8 /\ raw_get b (mk_sq f (ep_capture_rank_of (b_turn b))) = None
    /\ raw_get b (mk_sq f (ep_pawn_rank_of (b_turn b))) = Some (opp (b_turn b), Pawn).

(* a castling right implies king and rook on their home squares (what validate_castle_rights checks) *)
Definition rook_home_file (sd : side) : N := match sd with KingSide => 7 | QueenSide => 0 end.
Definition rights_ok (b : board) : Prop :=
  forall sd c, cr_contains (b_rights b) sd c = true ->
    raw_get b (mk_sq 4 (home_rank c)) = Some (c, King)
    /\ raw_get b (mk_sq (rook_home_file sd) (home_rank c)) = Some (c, Rook).

(* the move `m` of the man `pc` is pseudo-legal as far as make-move cares *)
Record move_pre (b : board) (m : move) (pc : piece) : Prop := {
  mp_src_lt : m_src m < 64;
  mp_dst_lt : m_dst m < 64;
  mp_src : raw_get b (m_src m) = Some (b_turn b, pc);
  mp_dst : raw_get b (m_dst m) = None \/ exists cp, raw_get b (m_dst m) = Some (opp (b_turn b), cp);
  (* promotions only for pawns reaching the last rank *)
  mp_promo : forall q, m_promo m = Some q -> pc = Pawn /\ rank_of (m_dst m) = last_rank (b_turn b);
  (* a pawn makes a pawn step; a diagonal step to an empty square is the en-passant capture *)
  mp_pawn : pc = Pawn -> pawn_step (b_turn b) (m_src m) (m_dst m) = true;
  mp_diag : pc = Pawn -> file_of (m_src m) <> file_of (m_dst m) -> raw_get b (m_dst m) = None ->
            enpassant_pos b = Some (m_dst m);
  (* a king makes one step or the castling hop from its home square; then the rook is at home, its target empty *)
  mp_king : pc = King -> king_step (b_turn b) (m_src m) (m_dst m) = true;
  mp_castle : pc = King -> absdiff (file_of (m_src m)) (file_of (m_dst m)) = 2 ->
    raw_get b (mk_sq (if file_of (m_dst m) =? 6 then 7 else 0) (home_rank (b_turn b))) = Some (b_turn b, Rook)
    /\ raw_get b (mk_sq (if file_of (m_dst m) =? 6 then 5 else 3) (home_rank (b_turn b))) = None }.

Lemma stm_abs : forall b, stm (abs b) = b_turn b. Proof. reflexivity. Qed.
Lemma epf_abs : forall b, epf (abs b) = b_ep b. Proof. reflexivity. Qed.
Lemma hm_abs : forall b, hm (abs b) = b_half b. Proof. reflexivity. Qed.
Lemma fm_abs : forall b, fm (abs b) = b_full b. Proof. reflexivity. Qed.
Lemma cr_wk_abs : forall b, cr_wk (abs b) = cr_contains (b_rights b) KingSide White. Proof. reflexivity. Qed.
Lemma cr_wq_abs : forall b, cr_wq (abs b) = cr_contains (b_rights b) QueenSide White. Proof. reflexivity. Qed.
Lemma cr_bk_abs : forall b, cr_bk (abs b) = cr_contains (b_rights b) KingSide Black. Proof. reflexivity. Qed.
Lemma cr_bq_abs : forall b, cr_bq (abs b) = cr_contains (b_rights b) QueenSide Black. Proof. reflexivity. Qed.

Lemma make_cells : forall p m c0 pc, Rules.cell_at (cells p) (m_src m) = Some (c0, pc) -> cells (make p m) = mk_cs3 p m pc.
Proof. intros p m c0 pc H. rewrite (make_unfold p m c0 pc H). reflexivity. Qed.

Lemma option_N_eq_dec : forall a b : option N, {a = b} + {a <> b}.
Proof. decide equality. apply N.eq_dec. Qed.
Lemma piece_eqb_neq : forall p q, p <> q -> piece_eqb p q = false.
Proof. intros p q H. destruct p, q; try reflexivity; contradiction H; reflexivity. Qed.
Lemma piece_eqb_same : forall p, piece_eqb p p = true.
Proof. intros []; reflexivity. Qed.

Lemma file_rank_mk_sq : forall f r, f < 8 -> file_of (mk_sq f r) = f /\ rank_of (mk_sq f r) = r.
Proof. intros f r Hf. destruct (mk_sq_div_mod f r ltac:(lia)) as [A B]. unfold file_of, rank_of. split; assumption. Qed.
Lemma mk_sq_lt : forall f r, f < 8 -> r < 8 -> mk_sq f r < 64.
Proof. intros f r Hf Hr. unfold mk_sq. lia. Qed.
Lemma home_rank_cases : forall c, home_rank c = 0 \/ home_rank c = 7.
Proof. intros []; [left|right]; reflexivity. Qed.
Lemma ep_ranks_eq : forall c, ep_capture_rank_of c = ep_capture_rank c /\ ep_pawn_rank_of c = ep_pawn_rank c.
Proof. intros c. split; reflexivity. Qed.
Lemma ep_ranks_lt : forall c, ep_capture_rank c < 8 /\ ep_pawn_rank c < 8 /\ ep_capture_rank c <> last_rank c.
Proof. intros []; cbn; lia. Qed.

(* ------------------------------------------------------------------ *)
(** * 1. The cells of the successor *)

Section ApplyCells.
  Variables (b : board) (m : move) (pc : piece).
  Hypothesis P : Part b.
  Hypothesis MP : move_pre b m pc.
  Hypothesis EP : ep_ok b.

  Lemma ac_ne : m_src m <> m_dst m.
  Proof.
    intros E. pose proof (mp_src b m pc MP) as Hsrc. pose proof (mp_dst b m pc MP) as Hdst.
    rewrite <- E, Hsrc in Hdst. destruct Hdst as [H|[cp H]]; [discriminate|].
    injection H as H _. symmetry in H. exact (opp_neq _ H).
  Qed.

  Lemma ac_src : Rules.cell_at (cells (abs b)) (m_src m) = Some (b_turn b, pc).
  Proof. rewrite BridgeFacts.abs_cell by apply (mp_src_lt b m pc MP). apply (mp_src b m pc MP). Qed.

  Lemma ac_capture : mk_capture (abs b) m = match raw_get b (m_dst m) with Some _ => true | None => false end.
  Proof.
    unfold mk_capture. rewrite BridgeFacts.occupied_unfold, BridgeFacts.abs_cell by apply (mp_dst_lt b m pc MP).
    reflexivity.
  Qed.

  Lemma ac_cs1_len : length (mk_cs1 (abs b) m pc) = 64%nat.
  Proof. unfold mk_cs1. rewrite !cell_set_length. apply BridgeFacts.abs_length. Qed.

  Lemma ac_cs1 : forall t, t < 64 ->
    Rules.cell_at (mk_cs1 (abs b) m pc) t =
    if t =? m_dst m then Some (b_turn b, mk_placed m pc) else if t =? m_src m then None else raw_get b t.
  Proof.
    intros t Ht. pose proof (mp_src_lt b m pc MP) as Hs. pose proof (mp_dst_lt b m pc MP) as Hd.
    unfold mk_cs1. rewrite cell_at_cell_set by (rewrite cell_set_length, BridgeFacts.abs_length; lia).
    rewrite cell_at_cell_set by (rewrite BridgeFacts.abs_length; lia).
    rewrite BridgeFacts.abs_cell by exact Ht. rewrite stm_abs. reflexivity.
  Qed.

  Lemma ac_moved : forall t,
    moved b m pc t = if t =? m_dst m then Some (b_turn b, pc) else if t =? m_src m then None else raw_get b t.
  Proof.
    intros t. unfold moved. pose proof ac_ne as Hne.
    destruct (N.eqb_spec t (m_src m)) as [E1|N1]; destruct (N.eqb_spec t (m_dst m)) as [E|N2]; try reflexivity.
    exfalso. apply Hne. congruence.
  Qed.

  (* the left-hand side: everything before and after stage 5 is transparent for raw_get *)
  Lemma ac_lhs : exists out, Part out /\ (forall t, t < 64 -> raw_get out t = moved b m pc t)
    /\ forall t, raw_get (apply b m) t = raw_get (stage5_body b m out) t.
  Proof.
    exists (apply_stage4 b m).
    destruct (stage4_cells b m pc P (mp_src_lt b m pc MP) (mp_dst_lt b m pc MP) (mp_src b m pc MP) (mp_dst b m pc MP)) as [P4 R4].
    split; [exact P4|split; [exact R4|]].
    intros t. rewrite apply_staged.
    destruct (apply_pins_fields (apply_stage5 b m) (b_turn b) (king_sq b (opp (b_turn b)))) as (_ & _ & _ & _ & E).
    rewrite E. reflexivity.
  Qed.

  (* right-hand side when nothing special happens *)
  Lemma ac_rhs_plain : mk_ep_capture (abs b) m pc = false -> mk_castle m pc = false ->
    forall t, t < 64 -> Rules.cell_at (mk_cs3 (abs b) m pc) t =
      if t =? m_dst m then Some (b_turn b, mk_placed m pc) else if t =? m_src m then None else raw_get b t.
  Proof. intros H1 H2 t Ht. unfold mk_cs3, mk_cs2. rewrite H1, H2. apply ac_cs1, Ht. Qed.

  Lemma ac_promo_none : pc <> Pawn -> m_promo m = None.
  Proof.
    intros H. destruct (m_promo m) as [q|] eqn:E; [|reflexivity].
    destruct (mp_promo b m pc MP q E) as [A _]. contradiction.
  Qed.

  Lemma ac_epc_not_pawn : pc <> Pawn -> mk_ep_capture (abs b) m pc = false.
  Proof. intros H. unfold mk_ep_capture. rewrite (piece_eqb_neq pc Pawn H). reflexivity. Qed.
  Lemma ac_castle_not_king : pc <> King -> mk_castle m pc = false.
  Proof. intros H. unfold mk_castle. rewrite (piece_eqb_neq pc King H). reflexivity. Qed.

  Lemma ac_epc_false : (file_of (m_src m) <> file_of (m_dst m) -> raw_get b (m_dst m) = None -> False) ->
    mk_ep_capture (abs b) m pc = false.
  Proof.
    intros H. unfold mk_ep_capture. rewrite ac_capture.
    destruct (N.eqb_spec (file_of (m_src m)) (file_of (m_dst m))) as [E|N1]; [rewrite andb_false_r; reflexivity|].
    destruct (raw_get b (m_dst m)) eqn:Ed; [rewrite andb_false_r; reflexivity|].
    exfalso. apply H; [exact N1|reflexivity].
  Qed.

  (* the marker square, when the move lands on it *)
  Lemma ac_ep_square : enpassant_pos b = Some (m_dst m) ->
    exists f, b_ep b = Some f /\ f < 8 /\ m_dst m = mk_sq f (ep_capture_rank (b_turn b))
      /\ file_of (m_dst m) = f /\ rank_of (m_dst m) = ep_capture_rank (b_turn b)
      /\ raw_get b (m_dst m) = None
      /\ raw_get b (mk_sq f (ep_pawn_rank (b_turn b))) = Some (opp (b_turn b), Pawn).
  Proof.
    intros H. unfold enpassant_pos in H. destruct (b_ep b) as [f|] eqn:Ef; [|discriminate H].
    destruct (EP f Ef) as (Hf & A1 & A2). exists f.
    assert (E : m_dst m = mk_sq f (ep_capture_rank (b_turn b))) by (injection H as H; rewrite <- H; destruct (b_turn b); reflexivity).
    destruct (file_rank_mk_sq f (ep_capture_rank (b_turn b)) Hf) as [F1 F2].
    split; [reflexivity|split; [exact Hf|split; [exact E|]]].
    rewrite E, F1, F2. split; [reflexivity|split; [reflexivity|split; [exact A1|exact A2]]].
  Qed.

  Theorem apply_cell : forall t, t < 64 -> raw_get (apply b m) t = Rules.cell_at (cells (make (abs b) m)) t.
  Proof.
    intros t Ht.
    pose proof (mp_src_lt b m pc MP) as Hs. pose proof (mp_dst_lt b m pc MP) as Hd.
    pose proof (mp_src b m pc MP) as Hsrc. pose proof ac_ne as Hne.
    pose proof (raw_get_piece_of_unchecked _ _ _ _ Hsrc) as Epc.
    destruct ac_lhs as (out & Po & Ro & ->).
    rewrite (make_cells (abs b) m (b_turn b) pc ac_src).
    destruct (piece_eqb pc Pawn) eqn:EPawn; [|destruct (piece_eqb pc King) eqn:EKing].
    - (* pawn *)
      apply BridgeFacts.piece_eqb_eq' in EPawn.
      pose proof (mp_pawn b m pc MP EPawn) as Hstep.
      destruct (pawn_facts (b_turn b) (m_src m) (m_dst m) Hs Hd Hstep) as (Fdbl & F2 & Fep).
      assert (NK : pc <> King) by (rewrite EPawn; discriminate).
      destruct (m_promo m) as [q|] eqn:Eq.
      + (* promotion *)
        destruct (mp_promo b m pc MP q Eq) as [_ Hlast].
        rewrite (s5_promo b m pc out Epc Po q EPawn Eq Hd) by (rewrite Ro, ac_moved, N.eqb_refl, EPawn by exact Hd; reflexivity) || exact Ht.
        rewrite ac_rhs_plain; [|apply ac_epc_false|apply ac_castle_not_king, NK|exact Ht].
        * unfold mk_placed. rewrite Eq, Ro, ac_moved by exact Ht. destruct (t =? m_dst m); reflexivity.
        * intros Nf Hemp. destruct (ac_ep_square (mp_diag b m pc MP EPawn Nf Hemp)) as (f & _ & _ & _ & _ & Hr & _).
          destruct (ep_ranks_lt (b_turn b)) as (_ & _ & Hx). congruence.
      + assert (Hpl : mk_placed m pc = pc) by (unfold mk_placed; rewrite Eq; reflexivity).
        destruct (is_double_push (b_turn b) m) eqn:Edbl.
        * (* double push *)
          rewrite (s5_double b m pc out Epc EPawn Eq Edbl).
          rewrite is_double_push_bb, Fdbl in Edbl. apply N.eqb_eq in Edbl. destruct (F2 Edbl) as [Hf _].
          rewrite ac_rhs_plain; [|apply ac_epc_false; intros Nf _; contradiction|apply ac_castle_not_king, NK|exact Ht].
          rewrite Hpl, Ro, ac_moved by exact Ht. reflexivity.
        * destruct (option_N_eq_dec (enpassant_pos b) (Some (m_dst m))) as [Eep|Nep].
          -- (* en passant *)
             destruct (ac_ep_square Eep) as (f & Ef & Hf & Edst & Efile & Erank & Hemp & Hvic).
             destruct (Fep Erank) as (Hrs & _ & Hsame).
             destruct (ep_ranks_lt (b_turn b)) as (L1 & L2 & _).
             assert (Ev : ep_victim_sq (b_turn b) m = mk_sq f (ep_pawn_rank (b_turn b)))
               by (unfold ep_victim_sq; rewrite Efile; reflexivity).
             assert (Hv : mk_sq f (ep_pawn_rank (b_turn b)) < 64) by (apply mk_sq_lt; assumption).
             assert (Nvs : mk_sq f (ep_pawn_rank (b_turn b)) <> m_src m).
             { intros E. rewrite E, Hsrc in Hvic. injection Hvic as Hc _. exact (opp_neq _ (eq_sym Hc)). }
             assert (Nvd : mk_sq f (ep_pawn_rank (b_turn b)) <> m_dst m).
             { intros E. rewrite E, Hemp in Hvic. discriminate Hvic. }
             assert (Nfile : file_of (m_src m) <> file_of (m_dst m)).
             { intros E. apply Nvs. rewrite (Hsame E), Efile. reflexivity. }
             rewrite (s5_ep b m pc out Epc Po EPawn Eq Edbl Eep); rewrite ?Ev; try assumption.
             2:{ rewrite Ro, ac_moved by exact Hv. apply N.eqb_neq in Nvs, Nvd. rewrite Nvs, Nvd. exact Hvic. }
             unfold mk_cs3, mk_cs2. rewrite (ac_castle_not_king NK).
             assert (Eepc : mk_ep_capture (abs b) m pc = true).
             { unfold mk_ep_capture. rewrite ac_capture, Hemp, EPawn. apply N.eqb_neq in Nfile. rewrite Nfile. reflexivity. }
             rewrite Eepc, Efile, Hrs.
             rewrite cell_at_cell_set by (rewrite ac_cs1_len; lia).
             rewrite ac_cs1, Hpl, Ro, ac_moved by exact Ht. reflexivity.
          -- (* ordinary pawn move *)
             rewrite (s5_pawn_plain b m pc out Epc EPawn Eq Edbl Nep).
             rewrite ac_rhs_plain; [|apply ac_epc_false|apply ac_castle_not_king, NK|exact Ht].
             ++ rewrite Hpl, Ro, ac_moved by exact Ht. reflexivity.
             ++ intros Nf Hemp. apply Nep. exact (mp_diag b m pc MP EPawn Nf Hemp).
    - (* king *)
      apply BridgeFacts.piece_eqb_eq' in EKing.
      assert (NP : pc <> Pawn) by (rewrite EKing; discriminate).
      pose proof (mp_king b m pc MP EKing) as Hstep.
      destruct (king_facts (b_turn b) (m_src m) (m_dst m) Hs Hd Hstep) as (Fc & Fhome).
      assert (Hpl : mk_placed m pc = pc) by (unfold mk_placed; rewrite (ac_promo_none NP); reflexivity).
      assert (Ecm : is_castle_move pc m = (absdiff (file_of (m_src m)) (file_of (m_dst m)) =? 2))
        by (rewrite is_castle_move_bb, Fc, EKing; reflexivity).
      destruct (N.eqb_spec (absdiff (file_of (m_src m)) (file_of (m_dst m))) 2) as [E2|N2].
      + (* castling *)
        destruct (Fhome E2) as (Esrc & Edst).
        destruct (mp_castle b m pc MP EKing E2) as (Hrf & Hrt).
        set (r := home_rank (b_turn b)) in *.
        assert (Hr : r = 0 \/ r = 7) by apply home_rank_cases.
        assert (Hrank : rank_of (m_src m) = r) by (rewrite Esrc; apply (file_rank_mk_sq 4 r); lia).
        assert (Hfd : file_of (m_dst m) = 6 /\ m_dst m = mk_sq 6 r \/ file_of (m_dst m) = 2 /\ m_dst m = mk_sq 2 r).
        { destruct Edst as [E|E]; [left|right]; (split; [rewrite E; apply file_rank_mk_sq; lia|exact E]). }
        assert (Hmask : forall rf rt, (if file_of (m_dst m) =? 6 then 7 else 0) = rf -> (if file_of (m_dst m) =? 6 then 5 else 3) = rt ->
                  (if file_of (m_dst m) <? 4 then 0 else 7) = rf /\ (if file_of (m_dst m) <? 4 then 3 else 5) = rt).
        { intros rf rt <- <-. destruct Hfd as [[-> _]|[-> _]]; split; reflexivity. }
        remember (if file_of (m_dst m) =? 6 then 7 else 0) as rf eqn:Erf.
        remember (if file_of (m_dst m) =? 6 then 5 else 3) as rt eqn:Ert.
        destruct (Hmask rf rt eq_refl eq_refl) as [Mrf Mrt].
        assert (Hrfv : rf = 7 /\ rt = 5 /\ m_dst m = mk_sq 6 r \/ rf = 0 /\ rt = 3 /\ m_dst m = mk_sq 2 r).
        { destruct Hfd as [[E1 E3]|[E1 E3]]; rewrite E1 in Erf, Ert; [left|right]; repeat split; assumption. }
        assert (Hmem : forall u, u < 64 -> mem (castle_rook_mv (b_turn b) m) u = ((u =? mk_sq rf r) || (u =? mk_sq rt r))).
        { intros u Hu. rewrite castle_rook_mv_mask, mem_rook_mask by exact Hu. fold r.
          destruct (file_of (m_dst m) <? 4); rewrite <- Mrf, <- Mrt; reflexivity. }
        assert (Nsq : mk_sq rf r <> m_src m /\ mk_sq rf r <> m_dst m /\ mk_sq rt r <> m_src m /\ mk_sq rt r <> m_dst m
                      /\ mk_sq rf r <> mk_sq rt r /\ mk_sq rf r < 64 /\ mk_sq rt r < 64).
        { rewrite Esrc. unfold mk_sq. destruct Hrfv as [(-> & -> & ->)|(-> & -> & ->)]; unfold mk_sq; lia. }
        destruct Nsq as (N1 & N2 & N3 & N4 & N5 & L1 & L2).
        assert (Rrf : raw_get out (mk_sq rf r) = Some (b_turn b, Rook)).
        { rewrite Ro, ac_moved by exact L1. apply N.eqb_neq in N1, N2. rewrite N1, N2. exact Hrf. }
        assert (Rrt : raw_get out (mk_sq rt r) = None).
        { rewrite Ro, ac_moved by exact L2. apply N.eqb_neq in N3, N4. rewrite N3, N4. exact Hrt. }
        assert (T : toggle_ok out (b_turn b) Rook (castle_rook_mv (b_turn b) m)).
        { intros u Hu Hm. rewrite Hmem in Hm by exact Hu. apply orb_true_iff in Hm.
          destruct Hm as [Hm|Hm]; apply N.eqb_eq in Hm; subst u; [left; exact Rrf|right; exact Rrt]. }
        rewrite (s5_castle b m pc out Epc Po EKing) by (first [exact T|exact Ht|exact Ecm]).
        rewrite Hmem by exact Ht.
        unfold mk_cs3, mk_cs2. rewrite (ac_epc_not_pawn NP).
        assert (Ecas : mk_castle m pc = true) by (unfold mk_castle; rewrite EKing; apply N.eqb_eq in E2; rewrite E2; reflexivity).
        rewrite Ecas, Hrank.
        assert (Ecs : (if file_of (m_dst m) =? 6
                       then cell_set (cell_set (mk_cs1 (abs b) m pc) (mk_sq 7 r) None) (mk_sq 5 r) (Some (stm (abs b), Rook))
                       else cell_set (cell_set (mk_cs1 (abs b) m pc) (mk_sq 0 r) None) (mk_sq 3 r) (Some (stm (abs b), Rook)))
                      = cell_set (cell_set (mk_cs1 (abs b) m pc) (mk_sq rf r) None) (mk_sq rt r) (Some (b_turn b, Rook))).
        { rewrite Erf, Ert, stm_abs. destruct (file_of (m_dst m) =? 6); reflexivity. }
        rewrite Ecs.
        rewrite cell_at_cell_set by (rewrite cell_set_length, ac_cs1_len; lia).
        rewrite cell_at_cell_set by (rewrite ac_cs1_len; lia).
        rewrite ac_cs1, Hpl by exact Ht. rewrite (Ro t Ht), ac_moved.
        destruct (N.eqb_spec t (mk_sq rt r)) as [->|Nt1].
        * rewrite orb_true_r. apply N.eqb_neq in N3, N4. rewrite N3, N4, Hrt. reflexivity.
        * destruct (N.eqb_spec t (mk_sq rf r)) as [->|Nt2]; [|reflexivity].
          cbn [orb]. apply N.eqb_neq in N1, N2. rewrite N1, N2, Hrf. reflexivity.
      + (* king step *)
        rewrite (s5_plain b m pc out Epc NP Ecm).
        rewrite ac_rhs_plain; [|apply ac_epc_not_pawn, NP| |exact Ht].
        * rewrite Hpl, Ro, ac_moved by exact Ht. reflexivity.
        * unfold mk_castle. apply N.eqb_neq in N2. rewrite N2. apply andb_false_r.
    - (* knight, bishop, rook, queen *)
      assert (NP : pc <> Pawn) by (intros E; rewrite E in EPawn; discriminate EPawn).
      assert (NK : pc <> King) by (intros E; rewrite E in EKing; discriminate EKing).
      assert (Hpl : mk_placed m pc = pc) by (unfold mk_placed; rewrite (ac_promo_none NP); reflexivity).
      rewrite (s5_plain b m pc out Epc NP (is_castle_move_not_king pc m NK)).
      rewrite ac_rhs_plain; [|apply ac_epc_not_pawn, NP|apply ac_castle_not_king, NK|exact Ht].
      rewrite Hpl, Ro, ac_moved by exact Ht. reflexivity.
  Qed.

  Theorem apply_abs_cells : cells (abs (apply b m)) = cells (make (abs b) m).
  Proof.
    apply cells_ext.
    - apply BridgeFacts.abs_length.
    - rewrite (make_cells (abs b) m (b_turn b) pc ac_src). unfold mk_cs3, mk_cs2.
      destruct (mk_castle m pc); [destruct (file_of (m_dst m) =? 6)|]; destruct (mk_ep_capture (abs b) m pc);
        rewrite ?cell_set_length; apply ac_cs1_len.
    - intros t Ht. rewrite BridgeFacts.abs_cell by exact Ht. apply apply_cell, Ht.
  Qed.
End ApplyCells.

(* ------------------------------------------------------------------ *)
(** * 2./3. Side to move, en-passant marker, clocks, castling rights *)

Lemma make_fields : forall p m c0 pc, Rules.cell_at (cells p) (m_src m) = Some (c0, pc) ->
  stm (make p m) = opp (stm p)
  /\ cr_wk (make p m) = cr_wk p && negb (mk_touches m 4) && negb (mk_touches m 7)
  /\ cr_wq (make p m) = cr_wq p && negb (mk_touches m 4) && negb (mk_touches m 0)
  /\ cr_bk (make p m) = cr_bk p && negb (mk_touches m 60) && negb (mk_touches m 63)
  /\ cr_bq (make p m) = cr_bq p && negb (mk_touches m 60) && negb (mk_touches m 56)
  /\ epf (make p m) = (if piece_eqb pc Pawn && (absdiff (rank_of (m_src m)) (rank_of (m_dst m)) =? 2)
                       then Some (file_of (m_src m)) else None)
  /\ hm (make p m) = (if piece_eqb pc Pawn || mk_capture p m then 0 else hm p + 1)
  /\ fm (make p m) = (match stm p with White => fm p | Black => fm p + 1 end).
Proof. intros p m c0 pc H. rewrite (make_unfold p m c0 pc H). repeat split. Qed.

Lemma cr_contains_land : forall a k sd c, cr_contains (N.land a k) sd c = cr_contains a sd c && cr_contains k sd c.
Proof. intros a k sd c. unfold cr_contains. apply N.land_spec. Qed.

(* the rights table, right by right: a right survives unless the square is the king's or the rook's home *)
Lemma cr_keep_spec : forall c' x sd c,
  cr_contains (cr_keep c' x) sd c
  = negb (color_eqb c' c && ((x =? mk_sq 4 (home_rank c)) || (x =? mk_sq (rook_home_file sd) (home_rank c)))).
Proof.
  intros c' x sd c. unfold cr_contains.
  destruct c', c, sd; unfold cr_keep, cr_offset, home_rank, rook_home_file, mk_sq; cbn [color_eqb andb negb side_idx color_idx];
    change (0 * 8 + 4) with 4; change (0 * 8 + 7) with 7; change (0 * 8 + 0) with 0;
    change (7 * 8 + 4) with 60; change (7 * 8 + 7) with 63; change (7 * 8 + 0) with 56;
    change (0 + 0 * 2) with 0; change (1 + 0 * 2) with 1; change (0 + 1 * 2) with 2; change (1 + 1 * 2) with 3;
    repeat match goal with |- context [?a =? ?k] => destruct (N.eqb_spec a k) end; subst; try lia; reflexivity.
Qed.

Section ApplyMeta.
  Variables (b : board) (m : move) (pc : piece).
  Hypothesis MP : move_pre b m pc.

  Theorem apply_abs_side : stm (abs (apply b m)) = stm (make (abs b) m).
  Proof.
    destruct (make_fields (abs b) m (b_turn b) pc (ac_src b m pc MP)) as (E & _).
    rewrite E, !stm_abs. apply (apply_fields b m).
  Qed.

  Theorem apply_abs_ep : epf (abs (apply b m)) = epf (make (abs b) m).
  Proof.
    destruct (make_fields (abs b) m (b_turn b) pc (ac_src b m pc MP)) as (_ & _ & _ & _ & _ & E & _).
    destruct (apply_fields b m) as (_ & F & _).
    rewrite E, epf_abs, F. unfold ep_after.
    rewrite (raw_get_piece_of_unchecked _ _ _ _ (mp_src b m pc MP)).
    destruct (piece_eqb pc Pawn) eqn:EPawn.
    - apply BridgeFacts.piece_eqb_eq' in EPawn.
      pose proof (mp_pawn b m pc MP EPawn) as Hstep.
      destruct (pawn_facts (b_turn b) (m_src m) (m_dst m) (mp_src_lt b m pc MP) (mp_dst_lt b m pc MP) Hstep) as (Fdbl & F2 & _).
      rewrite EPawn, is_double_push_bb, Fdbl. cbn [andb].
      destruct (N.eqb_spec (absdiff (rank_of (m_src m)) (rank_of (m_dst m))) 2) as [E2|N2].
      + destruct (F2 E2) as [Hf Hl]. rewrite Hf.
        destruct (m_promo m) as [q|] eqn:Eq; [|reflexivity].
        destruct (mp_promo b m pc MP q Eq) as [_ Hlast]. contradiction.
      + destruct (m_promo m); reflexivity.
    - cbn [andb]. destruct pc; try reflexivity. discriminate EPawn.
  Qed.

  Theorem apply_abs_clocks : b_half b < 65535 -> b_full b < 65535 ->
    hm (abs (apply b m)) = hm (make (abs b) m) /\ fm (abs (apply b m)) = fm (make (abs b) m).
  Proof.
    intros Hh Hf.
    destruct (make_fields (abs b) m (b_turn b) pc (ac_src b m pc MP)) as (_ & _ & _ & _ & _ & _ & E1 & E2).
    destruct (apply_fields b m) as (_ & _ & F1 & F2).
    rewrite E1, E2, hm_abs, fm_abs, F1, F2, stm_abs, hm_abs, fm_abs. split.
    - unfold half_after. rewrite (raw_get_piece_of_unchecked _ _ _ _ (mp_src b m pc MP)).
      rewrite (ac_capture b m pc MP), piece_of_raw_get.
      assert (S : sat16 (b_half b + 1) = b_half b + 1) by (unfold sat16; destruct (65535 <? b_half b + 1) eqn:E; lia).
      destruct pc; cbn [piece_eqb piece_idx orb]; try reflexivity;
        destruct (raw_get b (m_dst m)) as [[c cp]|]; try reflexivity; exact S.
    - unfold sat16. destruct (b_turn b); cbn [color_idx].
      + destruct (65535 <? b_full b + 0) eqn:E; lia.
      + destruct (65535 <? b_full b + 1) eqn:E; lia.
  Qed.

  Hypothesis RO : rights_ok b.

  Lemma apply_right : forall sd c,
    cr_contains (b_rights (apply b m)) sd c
    = cr_contains (b_rights b) sd c && negb (mk_touches m (mk_sq 4 (home_rank c)))
      && negb (mk_touches m (mk_sq (rook_home_file sd) (home_rank c))).
  Proof.
    intros sd c. rewrite SiteFacts.apply_rights. unfold cr_remove_for_sq.
    rewrite !cr_contains_land, !cr_keep_spec.
    destruct (cr_contains (b_rights b) sd c) eqn:Er; [|reflexivity].
    destruct (RO sd c Er) as [HK HR]. cbn [andb]. unfold mk_touches.
    pose proof (mp_src b m pc MP) as Hsrc. pose proof (mp_dst b m pc MP) as Hdst.
    set (K := mk_sq 4 (home_rank c)) in *. set (R := mk_sq (rook_home_file sd) (home_rank c)) in *.
    assert (A1 : (m_src m =? K) = true -> b_turn b = c).
    { intros E. apply N.eqb_eq in E. rewrite E, HK in Hsrc. congruence. }
    assert (A2 : (m_src m =? R) = true -> b_turn b = c).
    { intros E. apply N.eqb_eq in E. rewrite E, HR in Hsrc. congruence. }
    assert (A3 : (m_dst m =? K) = true -> opp (b_turn b) = c).
    { intros E. apply N.eqb_eq in E. rewrite E, HK in Hdst. destruct Hdst as [H|[cp H]]; congruence. }
    assert (A4 : (m_dst m =? R) = true -> opp (b_turn b) = c).
    { intros E. apply N.eqb_eq in E. rewrite E, HR in Hdst. destruct Hdst as [H|[cp H]]; congruence. }
    revert A1 A2 A3 A4.
    destruct (m_src m =? K), (m_src m =? R), (m_dst m =? K), (m_dst m =? R); intros A1 A2 A3 A4;
      repeat match goal with H : true = true -> _ |- _ => specialize (H eq_refl) end;
      destruct (b_turn b), c; try discriminate; reflexivity.
  Qed.

  Theorem apply_abs_rights :
    cr_wk (abs (apply b m)) = cr_wk (make (abs b) m) /\ cr_wq (abs (apply b m)) = cr_wq (make (abs b) m)
    /\ cr_bk (abs (apply b m)) = cr_bk (make (abs b) m) /\ cr_bq (abs (apply b m)) = cr_bq (make (abs b) m).
  Proof.
    destruct (make_fields (abs b) m (b_turn b) pc (ac_src b m pc MP)) as (_ & E1 & E2 & E3 & E4 & _).
    rewrite E1, E2, E3, E4, !cr_wk_abs, !cr_wq_abs, !cr_bk_abs, !cr_bq_abs, !apply_right.
    repeat split.
  Qed.
End ApplyMeta.

(* ------------------------------------------------------------------ *)
(** * C02: the successor position, as an equality of position records *)

Theorem apply_abs : forall b m pc, Part b -> move_pre b m pc -> ep_ok b -> rights_ok b ->
  b_half b < 65535 -> b_full b < 65535 ->
  abs (apply b m) = make (abs b) m.
Proof.
  intros b m pc P MP EP RO Hh Hf.
  destruct (apply_abs_rights b m pc MP RO) as (R1 & R2 & R3 & R4).
  destruct (apply_abs_clocks b m pc MP Hh Hf) as (C1 & C2).
  apply position_ext; try assumption.
  - apply (apply_abs_cells b m pc P MP EP).
  - apply (apply_abs_side b m pc MP).
  - apply (apply_abs_ep b m pc MP).
Qed.

(* ------------------------------------------------------------------ *)
(** * Where the board-level hypotheses come from: what `validate` checks *)

Lemma get_is_raw_get : forall b s c p, get_is b s c p = true -> raw_get b s = Some (c, p).
Proof.
  intros b s c p H. unfold get_is in H. destruct (raw_get b s) as [[c' p']|]; [|discriminate H].
  apply andb_true_iff in H. destruct H as [H1 H2].
  apply BridgeFacts.color_eqb_eq in H1. apply BridgeFacts.piece_eqb_eq' in H2. subst. reflexivity.
Qed.

Theorem validate_castle_rights_ok : forall b, validate_castle_rights b = true -> rights_ok b.
Proof.
  intros b H. unfold validate_castle_rights in H. cbv zeta in H.
  rewrite !andb_true_iff in H. destruct H as (((((H1 & H2) & H3) & H4) & H5) & H6).
  intros sd c Hr.
  assert (HC : cr_contains_color (b_rights b) c = true)
    by (unfold cr_contains_color; destruct sd; rewrite Hr; [reflexivity|apply orb_true_r]).
  destruct c, sd; unfold home_rank, rook_home_file;
    rewrite Hr in *; rewrite HC in *; cbn [negb orb] in *; split; apply get_is_raw_get; assumption.
Qed.

Theorem validate_en_passant_ok : forall b, validate_en_passant b = true ->
  (forall f, b_ep b = Some f -> f < 8) -> ep_ok b.
Proof.
  intros b H Hf f Ef. unfold validate_en_passant in H. rewrite Ef in H.
  split; [apply Hf, Ef|].
  destruct (raw_get b (mk_sq f (ep_capture_rank_of (b_turn b)))) as [x|]; [discriminate H|].
  split; [reflexivity|].
  destruct (raw_get b (mk_sq f (ep_pawn_rank_of (b_turn b)))) as [[c p]|]; [|discriminate H].
  apply andb_true_iff in H. destruct H as [H1 H2]. apply BridgeFacts.piece_eqb_eq' in H2. subst p.
  destruct c, (b_turn b); try discriminate H1; reflexivity.
Qed.

(* ------------------------------------------------------------------ *)
(** * Every pseudo-legal move of the rules satisfies the local move conditions *)

Definition chk_king_offs (s : N) : bool := forallb (fun t => dist_geo s t =? 1) (offs s king_offs).
Lemma sweep_king_offs : all_sq chk_king_offs = true.
Proof. vm_compute. reflexivity. Qed.

Definition chk_pawn_targets (c : color) (s : N) : bool :=
  (match sq_off s 0 (fwd c) with Some t => pawn_step c s t && (file_of t =? file_of s) | None => true end)
  && (if rank_of s =? start_rank c
      then match sq_off s 0 (2 * fwd c) with Some t => pawn_step c s t && (file_of t =? file_of s) | None => true end
      else true)
  && forallb (fun t => pawn_step c s t) (offs s [(-1, fwd c); (1, fwd c)]%Z).
Lemma sweep_pawn_targets : all_sq (chk_pawn_targets White) && all_sq (chk_pawn_targets Black) = true.
Proof. vm_compute. reflexivity. Qed.

Lemma king_offs_step : forall s t, s < 64 -> In t (offs s king_offs) -> dist_geo s t = 1.
Proof.
  intros s t Hs H. pose proof (all_sq_spec _ sweep_king_offs s Hs) as K. unfold chk_king_offs in K.
  rewrite forallb_forall in K. apply N.eqb_eq, K, H.
Qed.

Lemma pawn_targets : forall c s, s < 64 ->
  (forall t, sq_off s 0 (fwd c) = Some t -> pawn_step c s t = true /\ file_of t = file_of s)
  /\ (forall t, rank_of s = start_rank c -> sq_off s 0 (2 * fwd c) = Some t -> pawn_step c s t = true /\ file_of t = file_of s)
  /\ (forall t, In t (offs s [(-1, fwd c); (1, fwd c)]%Z) -> pawn_step c s t = true).
Proof.
  intros c s Hs. pose proof sweep_pawn_targets as W. apply andb_true_iff in W. destruct W as [W1 W2].
  assert (K : chk_pawn_targets c s = true) by (destruct c; [exact (all_sq_spec _ W1 s Hs)|exact (all_sq_spec _ W2 s Hs)]).
  unfold chk_pawn_targets in K. rewrite !andb_true_iff in K. destruct K as [[K1 K2] K3].
  split; [|split].
  - intros t E. rewrite E in K1. apply andb_true_iff in K1. destruct K1 as [A B]. apply N.eqb_eq in B. split; assumption.
  - intros t Er E. apply N.eqb_eq in Er. rewrite Er, E in K2. apply andb_true_iff in K2. destruct K2 as [A B].
    apply N.eqb_eq in B. split; assumption.
  - intros t H. rewrite forallb_forall in K3. apply K3, H.
Qed.

Lemma pseudo_unfold : forall p, pseudo p =
  flat_map (fun s => match Rules.cell_at (cells p) s with
                     | Some (c, pc) => if color_eqb c (stm p) then piece_moves_from p s pc else []
                     | None => [] end) sq_list
  ++ castle_moves p.
Proof. reflexivity. Qed.

Lemma slide_targets_spec : forall cs c l t, In t (slide_targets cs c l) ->
  In t l /\ (Rules.cell_at cs t = None \/ exists c' p, Rules.cell_at cs t = Some (c', p) /\ color_eqb c c' = false).
Proof.
  intros cs c l. induction l as [|x l IH]; intros t H; cbn [slide_targets] in H; [contradiction|].
  destruct (Rules.cell_at cs x) as [[c' p]|] eqn:E.
  - destruct (color_eqb c c') eqn:Ec; [contradiction|]. destruct H as [<-|[]].
    split; [left; reflexivity|right; exists c', p; split; assumption].
  - destruct H as [<-|H]; [split; [left; reflexivity|left; exact E]|].
    destruct (IH t H) as [A B]. split; [right; exact A|exact B].
Qed.

Lemma with_promos_spec : forall c s d m, In m (with_promos c s d) ->
  m_src m = s /\ m_dst m = d /\ (forall q, m_promo m = Some q -> rank_of d = last_rank c).
Proof.
  intros c s d m H. unfold with_promos in H. destruct (N.eqb_spec (rank_of d) (last_rank c)) as [E|N].
  - apply in_map_iff in H. destruct H as [q [<- _]]. cbn [mk m_src m_dst m_promo]. repeat split. intros _ _. exact E.
  - destruct H as [<-|[]]. cbn [mk m_src m_dst m_promo]. repeat split. intros q Hq. discriminate Hq.
Qed.

Lemma color_neq_opp : forall c c', color_eqb c c' = false -> c' = opp c.
Proof. intros [] []; cbn; congruence. Qed.

Section PseudoPre.
  Variable b : board.
  Let p := abs b.

  Lemma pp_cell : forall t, t < 64 -> Rules.cell_at (cells (abs b)) t = raw_get b t.
  Proof. intros t Ht. apply BridgeFacts.abs_cell, Ht. Qed.
  Lemma pp_unocc : forall t, t < 64 -> occupied (cells (abs b)) t = false -> raw_get b t = None.
  Proof.
    intros t Ht H. rewrite BridgeFacts.occupied_unfold, pp_cell in H by exact Ht.
    destruct (raw_get b t); [discriminate H|reflexivity].
  Qed.
  Lemma pp_is_piece : forall t c pc, t < 64 -> is_piece (cells (abs b)) c pc t = true -> raw_get b t = Some (c, pc).
  Proof.
    intros t c pc Ht H. rewrite BridgeFacts.is_piece_unfold, pp_cell in H by exact Ht.
    destruct (raw_get b t) as [[c' p']|]; [|discriminate H].
    apply andb_true_iff in H. destruct H as [H1 H2].
    apply BridgeFacts.color_eqb_eq in H1. apply BridgeFacts.piece_eqb_eq' in H2. subst. reflexivity.
  Qed.
  Lemma pp_has_color : forall t c, t < 64 -> has_color (cells (abs b)) c t = true -> exists cp, raw_get b t = Some (c, cp).
  Proof.
    intros t c Ht H. rewrite BridgeFacts.has_color_unfold, pp_cell in H by exact Ht.
    destruct (raw_get b t) as [[c' p']|]; [|discriminate H].
    apply BridgeFacts.color_eqb_eq in H. subst. exists p'. reflexivity.
  Qed.
  Lemma pp_not_own : forall t, t < 64 -> negb (has_color (cells (abs b)) (b_turn b) t) = true ->
    raw_get b t = None \/ exists cp, raw_get b t = Some (opp (b_turn b), cp).
  Proof.
    intros t Ht H. rewrite BridgeFacts.has_color_unfold, pp_cell in H by exact Ht.
    destruct (raw_get b t) as [[c' p']|]; [|left; reflexivity].
    right. exists p'. apply negb_true_iff, color_neq_opp in H. subst. reflexivity.
  Qed.
  Lemma pp_slide : forall l t, (forall u, In u l -> u < 64) -> In t (slide_targets (cells (abs b)) (b_turn b) l) ->
    t < 64 /\ (raw_get b t = None \/ exists cp, raw_get b t = Some (opp (b_turn b), cp)).
  Proof.
    intros l t Hl H. destruct (slide_targets_spec _ _ _ _ H) as [A B]. pose proof (Hl t A) as Ht.
    split; [exact Ht|]. rewrite pp_cell in B by exact Ht.
    destruct B as [B|(c' & q & B & Ec)]; [left; exact B|right]. exists q. rewrite B, (color_neq_opp _ _ Ec). reflexivity.
  Qed.

  (* a man that is neither pawn nor king *)
  Lemma pp_simple : forall s t pc, pc <> Pawn -> pc <> King -> s < 64 -> t < 64 ->
    raw_get b s = Some (b_turn b, pc) ->
    (raw_get b t = None \/ exists cp, raw_get b t = Some (opp (b_turn b), cp)) ->
    move_pre b (mk s t None) pc.
  Proof.
    intros s t pc N1 N2 Hs Ht Hsrc Hdst.
    constructor; cbn [mk m_src m_dst m_promo]; try assumption; try (intros; contradiction).
    intros q Hq. discriminate Hq.
  Qed.

  Lemma pp_slider : forall s pc ds m, pc <> Pawn -> pc <> King -> s < 64 -> raw_get b s = Some (b_turn b, pc) ->
    In m (map (fun t => mk s t None) (flat_map (fun d => slide_targets (cells (abs b)) (b_turn b) (ray d s)) ds)) ->
    move_pre b m pc.
  Proof.
    intros s pc ds m N1 N2 Hs Hsrc H. apply in_map_iff in H. destruct H as [t [<- H]].
    apply in_flat_map in H. destruct H as [d [_ H]].
    destruct (pp_slide (ray d s) t (fun u => BridgeFacts.ray_lt d s u) H) as [Ht Hd].
    apply pp_simple; assumption.
  Qed.

  Lemma pp_king_step : forall s t, s < 64 -> t < 64 -> raw_get b s = Some (b_turn b, King) ->
    In t (offs s king_offs) ->
    (raw_get b t = None \/ exists cp, raw_get b t = Some (opp (b_turn b), cp)) ->
    move_pre b (mk s t None) King.
  Proof.
    intros s t Hs Ht Hsrc Hin Hdst. pose proof (king_offs_step s t Hs Hin) as Hdist.
    constructor; cbn [mk m_src m_dst m_promo]; try assumption; try (intros; discriminate).
    - intros _. unfold king_step. rewrite Hdist. reflexivity.
    - intros _ E. exfalso. unfold dist_geo in Hdist. lia.
  Qed.

  Lemma pp_pawn : forall s t pr, s < 64 -> t < 64 -> raw_get b s = Some (b_turn b, Pawn) ->
    pawn_step (b_turn b) s t = true ->
    (raw_get b t = None \/ exists cp, raw_get b t = Some (opp (b_turn b), cp)) ->
    (forall q, pr = Some q -> rank_of t = last_rank (b_turn b)) ->
    (file_of s <> file_of t -> raw_get b t = None -> enpassant_pos b = Some t) ->
    move_pre b {| m_src := s; m_dst := t; m_promo := pr |} Pawn.
  Proof.
    intros s t pr Hs Ht Hsrc Hstep Hdst Hpr Hdiag.
    constructor; cbn [m_src m_dst m_promo]; try assumption; try (intros; discriminate).
    - intros q Hq. split; [reflexivity|apply (Hpr q Hq)].
    - intros _. exact Hstep.
    - intros _. exact Hdiag.
  Qed.

  Lemma pp_move_eta : forall m, m = {| m_src := m_src m; m_dst := m_dst m; m_promo := m_promo m |}.
  Proof. intros []; reflexivity. Qed.

  Lemma pp_pawn_moves : forall s m, s < 64 -> raw_get b s = Some (b_turn b, Pawn) ->
    In m (pawn_moves_from (abs b) s) -> move_pre b m Pawn.
  Proof.
    intros s m Hs Hsrc H. unfold pawn_moves_from in H. cbv zeta in H. rewrite stm_abs in H.
    destruct (pawn_targets (b_turn b) s Hs) as (T1 & T2 & T3).
    apply in_app_or in H. destruct H as [H|H].
    - (* pushes *)
      destruct (sq_off s 0 (fwd (b_turn b))) as [t1|] eqn:E1; [|contradiction].
      pose proof (BridgeFacts.sq_off_lt _ _ _ _ E1) as Ht1. destruct (T1 t1 eq_refl) as [St1 Ft1].
      destruct (occupied (cells (abs b)) t1) eqn:O1; [contradiction|].
      apply in_app_or in H. destruct H as [H|H].
      + destruct (with_promos_spec _ _ _ _ H) as (A1 & A2 & A3). rewrite (pp_move_eta m), A1, A2.
        apply pp_pawn; try assumption.
        * left. apply pp_unocc; assumption.
        * intros E. contradiction E. symmetry. exact Ft1.
      + destruct (N.eqb_spec (rank_of s) (start_rank (b_turn b))) as [Er|_]; [|contradiction].
        destruct (sq_off s 0 (2 * fwd (b_turn b))) as [t2|] eqn:E2; [|contradiction].
        pose proof (BridgeFacts.sq_off_lt _ _ _ _ E2) as Ht2. destruct (T2 t2 Er eq_refl) as [St2 Ft2].
        destruct (occupied (cells (abs b)) t2) eqn:O2; [contradiction|].
        destruct H as [<-|[]]. unfold mk. apply pp_pawn; try assumption.
        * left. apply pp_unocc; assumption.
        * intros q Hq. discriminate Hq.
        * intros E. contradiction E. symmetry. exact Ft2.
    - (* captures *)
      apply in_flat_map in H. destruct H as [t [Hin H]].
      pose proof (BridgeFacts.offs_lt _ _ _ Hin) as Ht. pose proof (T3 t Hin) as St.
      destruct (has_color (cells (abs b)) (opp (b_turn b)) t) eqn:Hc.
      + destruct (pp_has_color t _ Ht Hc) as [cp Hcp].
        destruct (with_promos_spec _ _ _ _ H) as (A1 & A2 & A3). rewrite (pp_move_eta m), A1, A2.
        apply pp_pawn; try assumption.
        * right. exists cp. exact Hcp.
        * intros _ E. rewrite Hcp in E. discriminate E.
      + destruct (is_ep_target (abs b) (b_turn b) t) eqn:Hep; [|contradiction].
        destruct H as [<-|[]]. unfold mk.
        unfold is_ep_target in Hep. rewrite epf_abs in Hep. destruct (b_ep b) as [f|] eqn:Ef; [|discriminate Hep].
        rewrite !andb_true_iff in Hep. destruct Hep as (((H1 & H2) & H3) & H4).
        apply N.eqb_eq in H1, H2. apply negb_true_iff in H3.
        apply pp_pawn; try assumption.
        * left. apply pp_unocc; assumption.
        * intros q Hq. discriminate Hq.
        * intros _ _. unfold enpassant_pos. rewrite Ef. f_equal.
          unfold mk_sq. unfold file_of in H1. unfold rank_of in H2.
          rewrite (N.div_mod t 8) by discriminate. rewrite H1, H2.
          destruct (b_turn b); cbn [ep_capture_rank]; lia.
  Qed.

  Lemma pp_castle : forall m, In m (castle_moves (abs b)) -> move_pre b m King.
  Proof.
    intros m H. unfold castle_moves in H. cbv zeta in H. rewrite stm_abs in H.
    set (r := home_rank (b_turn b)) in *.
    assert (Hr : r < 8) by (unfold r; destruct (b_turn b); cbn; lia).
    destruct (is_piece (cells (abs b)) (b_turn b) King (mk_sq 4 r)) eqn:Ek; [|contradiction].
    cbn [negb orb] in H. destruct (attacked_by (cells (abs b)) (opp (b_turn b)) (mk_sq 4 r)); [contradiction|].
    pose proof (pp_is_piece _ _ _ (mk_sq_lt 4 r ltac:(lia) Hr) Ek) as Hsrc.
    apply in_app_or in H. destruct H as [H|H].
    - match type of H with In _ (if ?c then _ else _) => destruct c eqn:Ec end; [|contradiction].
      destruct H as [<-|[]].
      rewrite !andb_true_iff in Ec. destruct Ec as (((((_ & C2) & C3) & C4) & _) & _).
      apply negb_true_iff in C3, C4.
      pose proof (pp_is_piece _ _ _ (mk_sq_lt 7 r ltac:(lia) Hr) C2) as Hrook.
      pose proof (pp_unocc _ (mk_sq_lt 5 r ltac:(lia) Hr) C3) as H5.
      pose proof (pp_unocc _ (mk_sq_lt 6 r ltac:(lia) Hr) C4) as H6.
      constructor; cbn [mk m_src m_dst m_promo]; try (intros; discriminate).
      + apply mk_sq_lt; lia.
      + apply mk_sq_lt; lia.
      + exact Hsrc.
      + left. exact H6.
      + intros _. unfold king_step. fold r. rewrite !N.eqb_refl. cbn [andb orb]. apply orb_true_r.
      + intros _ _. fold r. destruct (file_rank_mk_sq 6 r ltac:(lia)) as [-> _]. cbn [N.eqb Pos.eqb]. split; assumption.
    - match type of H with In _ (if ?c then _ else _) => destruct c eqn:Ec end; [|contradiction].
      destruct H as [<-|[]].
      rewrite !andb_true_iff in Ec. destruct Ec as ((((((_ & C2) & _) & C4) & C5) & _) & _).
      apply negb_true_iff in C4, C5.
      pose proof (pp_is_piece _ _ _ (mk_sq_lt 0 r ltac:(lia) Hr) C2) as Hrook.
      pose proof (pp_unocc _ (mk_sq_lt 2 r ltac:(lia) Hr) C4) as H2.
      pose proof (pp_unocc _ (mk_sq_lt 3 r ltac:(lia) Hr) C5) as H3.
      constructor; cbn [mk m_src m_dst m_promo]; try (intros; discriminate).
      + apply mk_sq_lt; lia.
      + apply mk_sq_lt; lia.
      + exact Hsrc.
      + left. exact H2.
      + intros _. unfold king_step. fold r. rewrite !N.eqb_refl. cbn [andb orb]. rewrite !orb_true_r. reflexivity.
      + intros _ _. fold r. destruct (file_rank_mk_sq 2 r ltac:(lia)) as [-> _]. cbn [N.eqb Pos.eqb]. split; assumption.
  Qed.

  Theorem pseudo_move_pre : forall m, In m (pseudo (abs b)) -> exists pc, move_pre b m pc.
  Proof.
    intros m H. rewrite pseudo_unfold in H. apply in_app_or in H. destruct H as [H|H].
    - apply in_flat_map in H. destruct H as [s [Hin H]]. apply sq_list_lt in Hin.
      rewrite pp_cell in H by exact Hin. destruct (raw_get b s) as [[c pc]|] eqn:Hsrc; [|contradiction].
      rewrite stm_abs in H. destruct (color_eqb c (b_turn b)) eqn:Ec; [|contradiction].
      apply BridgeFacts.color_eqb_eq in Ec. subst c. exists pc.
      unfold piece_moves_from in H. cbv zeta in H. rewrite stm_abs in H.
      destruct pc.
      + apply (pp_pawn_moves s); assumption.
      + apply in_map_iff in H. destruct H as [t [<- H]]. apply filter_In in H. destruct H as [H1 H2].
        pose proof (BridgeFacts.offs_lt _ _ _ H1) as Ht.
        apply pp_simple; try assumption; try discriminate. apply pp_not_own; assumption.
      + apply (pp_slider s Bishop bishop_dirs); try assumption; discriminate.
      + apply (pp_slider s Rook rook_dirs); try assumption; discriminate.
      + apply (pp_slider s Queen all_dirs); try assumption; discriminate.
      + apply in_map_iff in H. destruct H as [t [<- H]]. apply filter_In in H. destruct H as [H1 H2].
        pose proof (BridgeFacts.offs_lt _ _ _ H1) as Ht.
        apply pp_king_step; try assumption. apply pp_not_own; assumption.
    - exists King. apply pp_castle, H.
  Qed.
End PseudoPre.

(* C02 for the moves of the rules: every pseudo-legal (hence every legal) move *)
Theorem apply_abs_pseudo : forall b m, Part b -> ep_ok b -> rights_ok b -> b_half b < 65535 -> b_full b < 65535 ->
  In m (pseudo (abs b)) -> abs (apply b m) = make (abs b) m.
Proof.
  intros b m P EP RO Hh Hf H. destruct (pseudo_move_pre b m H) as [pc MP].
  apply (apply_abs b m pc); assumption.
Qed.

Theorem apply_abs_legal : forall b m, Part b -> ep_ok b -> rights_ok b -> b_half b < 65535 -> b_full b < 65535 ->
  In m (legal_moves (abs b)) -> abs (apply b m) = make (abs b) m.
Proof.
  intros b m P EP RO Hh Hf H. unfold legal_moves in H. apply filter_In in H.
  apply apply_abs_pseudo; try assumption. exact (proj1 H).
Qed.

Print Assumptions apply_cell.
Print Assumptions apply_abs_cells.
Print Assumptions apply_abs_side.
Print Assumptions apply_abs_ep.
Print Assumptions apply_abs_clocks.
Print Assumptions apply_abs_rights.
Print Assumptions apply_abs.
Print Assumptions validate_castle_rights_ok.
Print Assumptions validate_en_passant_ok.
Print Assumptions pseudo_move_pre.
Print Assumptions apply_abs_pseudo.
Print Assumptions apply_abs_legal.
