(* C15 (threefold detection): the hash-keyed repetition table of chess-engine (ThreeFold, modelled in
   model/Search.v as an association list searched by `zobrist equal && board_eqb`) raises its flag exactly
   on the third occurrence (up to board_eqb) of a board among the boards added since the table was empty,
   provided board_eqb-equal boards carry the same piece hash (the C04 invariant, proofs/HashFacts.v).
   The u8 saturation of the counters never disturbs the flag, so no bound on the history is needed.
   Axiom-free. *)
From Coq Require Import NArith PeanoNat List Bool Lia ZifyBool ZifyN.
From Chess Require Import base.Types model.Board model.Search proofs.ZobristFacts.
Import ListNotations.
Local Open Scope N_scope.

Opaque zkey zkey_turn zkey_castle zkey_ep.

(* ------------------------------------------------------------------ *)
(** * board_eqb is an equivalence relation *)

Definition board_eq_fields (a b : board) : Prop :=
  b_turn a = b_turn b /\ b_rights a = b_rights b /\ b_ep a = b_ep b /\
  b_white a = b_white b /\ b_black a = b_black b /\ b_pawn a = b_pawn b /\ b_knight a = b_knight b /\
  b_bishop a = b_bishop b /\ b_rook a = b_rook b /\ b_queen a = b_queen b /\ b_king a = b_king b.

Lemma color_eqb_eq : forall a b, color_eqb a b = true <-> a = b.
Proof. intros [] []; cbn; split; congruence. Qed.

Lemma ep_eqb_eq : forall (x y : option N),
  (match x, y with None, None => true | Some u, Some v => u =? v | _, _ => false end) = true <-> x = y.
Proof.
  intros [u|] [v|]; split; intros H; try discriminate; try reflexivity.
  - apply N.eqb_eq in H. congruence.
  - injection H as ->. apply N.eqb_refl.
Qed.

Lemma board_eqb_spec : forall a b, board_eqb a b = true <-> board_eq_fields a b.
Proof.
  intros a b. unfold board_eqb, board_eq_fields.
  rewrite !andb_true_iff, !N.eqb_eq, color_eqb_eq, ep_eqb_eq. tauto.
Qed.

Lemma board_eq_fields_refl : forall a, board_eq_fields a a.
Proof. intros a. unfold board_eq_fields. repeat split. Qed.
Lemma board_eq_fields_sym : forall a b, board_eq_fields a b -> board_eq_fields b a.
Proof. unfold board_eq_fields. intros a b H. decompose [and] H. repeat split; congruence. Qed.
Lemma board_eq_fields_trans : forall a b c, board_eq_fields a b -> board_eq_fields b c -> board_eq_fields a c.
Proof. unfold board_eq_fields. intros a b c H1 H2. decompose [and] H1. decompose [and] H2. repeat split; congruence. Qed.

Theorem board_eqb_refl : forall a, board_eqb a a = true.
Proof. intros a. apply board_eqb_spec, board_eq_fields_refl. Qed.
Theorem board_eqb_sym : forall a b, board_eqb a b = board_eqb b a.
Proof.
  intros a b. destruct (board_eqb a b) eqn:E1, (board_eqb b a) eqn:E2; try reflexivity.
  - apply board_eqb_spec, board_eq_fields_sym, board_eqb_spec in E1. congruence.
  - apply board_eqb_spec, board_eq_fields_sym, board_eqb_spec in E2. congruence.
Qed.
Theorem board_eqb_trans : forall a b c, board_eqb a b = true -> board_eqb b c = true -> board_eqb a c = true.
Proof.
  intros a b c H1 H2. apply board_eqb_spec in H1. apply board_eqb_spec in H2.
  apply board_eqb_spec. eapply board_eq_fields_trans; eassumption.
Qed.

(* equal boards with equal piece hashes have equal full hashes *)
Lemma board_eqb_zobrist : forall a b, board_eqb a b = true -> b_zob a = b_zob b -> zobrist a = zobrist b.
Proof.
  intros a b H Hz. apply board_eqb_spec in H. unfold board_eq_fields in H. decompose [and] H.
  apply zobrist_eq_of_fields; assumption.
Qed.

(* ------------------------------------------------------------------ *)
(** * The table key comparison is an equivalence relation (unconditionally) *)

Definition key_eq (a b : board) : Prop := zobrist a = zobrist b /\ board_eq_fields a b.
Lemma tf_key_eqb_spec : forall a b, tf_key_eqb a b = true <-> key_eq a b.
Proof. intros a b. unfold tf_key_eqb, key_eq. rewrite andb_true_iff, N.eqb_eq, board_eqb_spec. tauto. Qed.

Lemma tf_key_eqb_refl : forall a, tf_key_eqb a a = true.
Proof. intros a. apply tf_key_eqb_spec. split; [reflexivity|apply board_eq_fields_refl]. Qed.
Lemma key_eq_sym : forall a b, key_eq a b -> key_eq b a.
Proof. intros a b [H1 H2]. split; [congruence|apply board_eq_fields_sym, H2]. Qed.
Lemma key_eq_trans : forall a b c, key_eq a b -> key_eq b c -> key_eq a c.
Proof. intros a b c [H1 H2] [H3 H4]. split; [congruence|eapply board_eq_fields_trans; eassumption]. Qed.

(* congruence form used below: equivalent keys compare alike against anything *)
Lemma tf_key_eqb_cong : forall k b c, tf_key_eqb k b = true -> tf_key_eqb k c = tf_key_eqb b c.
Proof.
  intros k b c H. apply tf_key_eqb_spec in H.
  destruct (tf_key_eqb k c) eqn:E1, (tf_key_eqb b c) eqn:E2; try reflexivity.
  - apply tf_key_eqb_spec in E1.
    assert (X : key_eq b c) by (eapply key_eq_trans; [apply key_eq_sym, H|exact E1]).
    apply tf_key_eqb_spec in X. congruence.
  - apply tf_key_eqb_spec in E2.
    assert (X : key_eq k c) by (eapply key_eq_trans; eassumption).
    apply tf_key_eqb_spec in X. congruence.
Qed.

(* under the hash invariant the key comparison is board_eqb *)
Lemma tf_key_eqb_board_eqb : forall a b,
  (board_eqb a b = true -> b_zob a = b_zob b) -> tf_key_eqb a b = board_eqb a b.
Proof.
  intros a b H. unfold tf_key_eqb. destruct (board_eqb a b) eqn:E; [|apply andb_false_r].
  rewrite (board_eqb_zobrist a b E (H eq_refl)), N.eqb_refl. reflexivity.
Qed.

(* ------------------------------------------------------------------ *)
(** * tf_bump / tf_get / tf_add *)

Lemma tf_bump_snd : forall tf b, snd (tf_bump tf b) = sat8 (tf_get tf b + 1).
Proof.
  induction tf as [|[k c] r IH]; intros b; cbn [tf_bump tf_get].
  - reflexivity.
  - destruct (tf_key_eqb k b); [reflexivity|].
    specialize (IH b). destruct (tf_bump r b) as [r' c']. exact IH.
Qed.

Lemma tf_bump_get : forall tf b b',
  tf_get (fst (tf_bump tf b)) b' = if tf_key_eqb b b' then sat8 (tf_get tf b' + 1) else tf_get tf b'.
Proof.
  induction tf as [|[k c] r IH]; intros b b'; cbn [tf_bump tf_get].
  - cbn [fst tf_get]. destruct (tf_key_eqb b b'); reflexivity.
  - destruct (tf_key_eqb k b) eqn:Ekb.
    + cbn [fst tf_get]. rewrite (tf_key_eqb_cong k b b' Ekb).
      destruct (tf_key_eqb b b'); reflexivity.
    + specialize (IH b b'). destruct (tf_bump r b) as [r' c']. cbn [fst] in IH |- *. cbn [tf_get].
      destruct (tf_key_eqb k b') eqn:Ekb'.
      * destruct (tf_key_eqb b b') eqn:Ebb'; [|reflexivity].
        exfalso. apply tf_key_eqb_spec in Ekb', Ebb'.
        assert (X : key_eq k b) by (eapply key_eq_trans; [exact Ekb'|apply key_eq_sym, Ebb']).
        apply tf_key_eqb_spec in X. congruence.
      * exact IH.
Qed.

Lemma tf_add_fst : forall tf b, fst (tf_add tf b) = fst (tf_bump tf b).
Proof. intros tf b. unfold tf_add. destruct (tf_bump tf b); reflexivity. Qed.
Lemma tf_add_snd : forall tf b, snd (tf_add tf b) = (sat8 (tf_get tf b + 1) =? 3).
Proof. intros tf b. unfold tf_add. rewrite <- tf_bump_snd. destruct (tf_bump tf b); reflexivity. Qed.

Lemma sat8_le : forall x, sat8 x <= 255.
Proof. intros x. unfold sat8. destruct (N.ltb_spec 255 x); lia. Qed.
Lemma sat8_id : forall x, x <= 255 -> sat8 x = x.
Proof. intros x H. unfold sat8. destruct (N.ltb_spec 255 x); lia. Qed.
Lemma sat8_succ_sat8 : forall x, sat8 (sat8 x + 1) = sat8 (x + 1).
Proof. intros x. unfold sat8. destruct (N.ltb_spec 255 x); destruct (N.ltb_spec 255 (x + 1)); try lia;
  destruct (N.ltb_spec 255 (255 + 1)); lia. Qed.
Lemma sat8_eqb3 : forall x, (sat8 x =? 3) = (x =? 3).
Proof. intros x. unfold sat8. destruct (N.ltb_spec 255 x); lia. Qed.

(* sanity: the counters are bytes and the count reported by a bump is at least 1 *)
Lemma tf_bump_count_bounds : forall tf b, 1 <= snd (tf_bump tf b) <= 255.
Proof.
  intros tf b. rewrite tf_bump_snd. split; [|apply sat8_le].
  unfold sat8. destruct (N.ltb_spec 255 (tf_get tf b + 1)); lia.
Qed.
Lemma tf_add_count_le : forall tf b b', tf_get (fst (tf_add tf b)) b' <= N.max (tf_get tf b') 255.
Proof.
  intros tf b b'. rewrite tf_add_fst, tf_bump_get. destruct (tf_key_eqb b b'); [|lia].
  pose proof (sat8_le (tf_get tf b' + 1)). lia.
Qed.
Lemma tf_add_get_mono : forall tf b b', tf_get tf b' <= 255 -> tf_get tf b' <= tf_get (fst (tf_add tf b)) b' <= 255.
Proof.
  intros tf b b' H. rewrite tf_add_fst, tf_bump_get. destruct (tf_key_eqb b b'); [|lia].
  unfold sat8. destruct (N.ltb_spec 255 (tf_get tf b' + 1)); lia.
Qed.

(* ------------------------------------------------------------------ *)
(** * The table counts key-equal occurrences *)

Fixpoint occK (b : board) (l : list board) : nat :=
  match l with [] => O | x :: r => (if tf_key_eqb x b then 1 else 0) + occK b r end.

(* `seen` lists the boards added so far, newest first *)
Definition counts (tf : threefold) (seen : list board) : Prop :=
  forall b, tf_get tf b = sat8 (N.of_nat (occK b seen)).

Lemma counts_nil : counts [] [].
Proof. intros b. reflexivity. Qed.

Lemma counts_add : forall tf seen x, counts tf seen -> counts (fst (tf_add tf x)) (x :: seen).
Proof.
  intros tf seen x H b. rewrite tf_add_fst, tf_bump_get, !(H b). cbn [occK].
  destruct (tf_key_eqb x b).
  - rewrite sat8_succ_sat8. f_equal. lia.
  - reflexivity.
Qed.

Lemma counts_flag : forall tf seen x, counts tf seen ->
  snd (tf_add tf x) = Nat.eqb (S (occK x seen)) 3.
Proof.
  intros tf seen x H. rewrite tf_add_snd, H, sat8_succ_sat8, sat8_eqb3.
  destruct (Nat.eqb_spec (S (occK x seen)) 3); lia.
Qed.

(* the table after a history reports, for every board, the saturated number of key-equal boards added *)
Theorem tf_get_counts : forall tf seen, counts tf seen ->
  forall b, tf_get tf b = if (255 <? N.of_nat (occK b seen)) then 255 else N.of_nat (occK b seen).
Proof. intros tf seen H b. exact (H b). Qed.

(* ------------------------------------------------------------------ *)
(** * The statement of props/C15.v *)

Fixpoint add_all (tf : threefold) (bs : list board) : threefold * list bool :=
  match bs with
  | [] => (tf, [])
  | b :: r => let '(tf1, f) := tf_add tf b in let '(tf2, fs) := add_all tf1 r in (tf2, f :: fs)
  end.
Fixpoint occurrences (b : board) (l : list board) : nat :=
  match l with [] => O | x :: r => (if board_eqb x b then 1 else 0) + occurrences b r end.
Fixpoint expected_flags (seen : list board) (bs : list board) : list bool :=
  match bs with
  | [] => []
  | b :: r => Nat.eqb (S (occurrences b seen)) 3 :: expected_flags (b :: seen) r
  end.
Definition C15_threefold_statement : Prop :=
  forall bs, (forall x y, In x bs -> In y bs -> board_eqb x y = true -> b_zob x = b_zob y) ->
    (length bs <= 255)%nat -> snd (add_all [] bs) = expected_flags [] bs.

(* flags in terms of the key comparison: holds for EVERY history (no hash hypothesis) *)
Fixpoint flagsK (seen : list board) (bs : list board) : list bool :=
  match bs with
  | [] => []
  | b :: r => Nat.eqb (S (occK b seen)) 3 :: flagsK (b :: seen) r
  end.

Lemma add_all_cons : forall tf b r,
  add_all tf (b :: r) = (fst (add_all (fst (tf_add tf b)) r), snd (tf_add tf b) :: snd (add_all (fst (tf_add tf b)) r)).
Proof.
  intros tf b r. cbn [add_all]. destruct (tf_add tf b) as [tf1 f]. cbn [fst snd].
  destruct (add_all tf1 r) as [tf2 fs]. reflexivity.
Qed.

Theorem add_all_flagsK : forall bs tf seen, counts tf seen ->
  snd (add_all tf bs) = flagsK seen bs /\ counts (fst (add_all tf bs)) (rev bs ++ seen).
Proof.
  induction bs as [|b r IH]; intros tf seen H.
  - split; [reflexivity|exact H].
  - rewrite add_all_cons. cbn [fst snd flagsK rev].
    destruct (IH _ _ (counts_add tf seen b H)) as [IH1 IH2].
    rewrite IH1, (counts_flag tf seen b H). split; [reflexivity|].
    rewrite <- app_assoc. exact IH2.
Qed.

Lemma occK_occurrences : forall b seen,
  (forall x, In x seen -> board_eqb x b = true -> b_zob x = b_zob b) -> occK b seen = occurrences b seen.
Proof.
  induction seen as [|x r IH]; intros H; [reflexivity|].
  cbn [occK occurrences]. rewrite IH by (intros y Hy; apply H; right; exact Hy).
  rewrite (tf_key_eqb_board_eqb x b (H x (or_introl eq_refl))). reflexivity.
Qed.

Lemma flagsK_expected : forall bs seen,
  (forall x y, In x (seen ++ bs) -> In y (seen ++ bs) -> board_eqb x y = true -> b_zob x = b_zob y) ->
  flagsK seen bs = expected_flags seen bs.
Proof.
  induction bs as [|b r IH]; intros seen H; [reflexivity|].
  cbn [flagsK expected_flags]. f_equal.
  - rewrite occK_occurrences; [reflexivity|].
    intros x Hx. apply H; apply in_or_app; [left; exact Hx|right; left; reflexivity].
  - apply IH. intros x y Hx Hy. apply H.
    + cbn [app] in Hx. destruct Hx as [<-|Hx]; [apply in_or_app; right; left; reflexivity|].
      apply in_app_or in Hx. apply in_or_app. destruct Hx; [left|right; right]; assumption.
    + cbn [app] in Hy. destruct Hy as [<-|Hy]; [apply in_or_app; right; left; reflexivity|].
      apply in_app_or in Hy. apply in_or_app. destruct Hy; [left|right; right]; assumption.
Qed.

(* general form: any table that counts `seen`, any continuation, no bound on the length *)
Theorem threefold_flags_general : forall tf seen bs, counts tf seen ->
  (forall x y, In x (seen ++ bs) -> In y (seen ++ bs) -> board_eqb x y = true -> b_zob x = b_zob y) ->
  snd (add_all tf bs) = expected_flags seen bs.
Proof.
  intros tf seen bs Hc H. rewrite (proj1 (add_all_flagsK bs tf seen Hc)). apply flagsK_expected, H.
Qed.

(* from the empty table, without the length hypothesis (saturation at 255 cannot affect `count == 3`) *)
Theorem threefold_flags_unbounded : forall bs,
  (forall x y, In x bs -> In y bs -> board_eqb x y = true -> b_zob x = b_zob y) ->
  snd (add_all [] bs) = expected_flags [] bs.
Proof. intros bs H. apply threefold_flags_general; [exact counts_nil|exact H]. Qed.

(* the statement exactly as given in props/C15.v *)
Theorem C15_threefold_proved : C15_threefold_statement.
Proof. intros bs H _. apply threefold_flags_unbounded, H. Qed.

(* and the table content after the history: for boards of the history, the number of board_eqb-equal
   boards added so far (exact below the u8 saturation point) *)
Theorem threefold_table_counts : forall bs b,
  (forall x y, In x (b :: bs) -> In y (b :: bs) -> board_eqb x y = true -> b_zob x = b_zob y) ->
  (length bs <= 255)%nat ->
  tf_get (fst (add_all [] bs)) b = N.of_nat (occurrences b (rev bs)).
Proof.
  intros bs b H Hl.
  pose proof (proj2 (add_all_flagsK bs [] [] counts_nil) b) as Hc. rewrite app_nil_r in Hc.
  rewrite Hc, occK_occurrences.
  - apply sat8_id.
    assert (forall l, (occurrences b l <= length l)%nat) as Hle.
    { induction l as [|x l IHl]; cbn [occurrences length]; [lia|]. destruct (board_eqb x b); lia. }
    specialize (Hle (rev bs)). rewrite rev_length in Hle. lia.
  - intros x Hx. apply H; [right; apply in_rev; exact Hx|left; reflexivity].
Qed.

Print Assumptions C15_threefold_proved.
Print Assumptions threefold_flags_general.
Print Assumptions threefold_table_counts.
Print Assumptions board_eqb_trans.
