(* Generic game-tree theorems for the engine's fail-soft alpha-beta (used by C11-C13). *)
From Coq Require Import NArith ZArith List Bool Lia Permutation Orders OrdersTac Morphisms RelationClasses.
From Chess Require Import model.Score proofs.ScoreOrder spec.GameTree.
Import ListNotations.

(* ---------- order reasoning on score ---------- *)

Definition slt (a b : score) : Prop := cmp a b = Lt.
Definition sle (a b : score) : Prop := cmp a b <> Gt.

Module SO.
  Definition t := score.
  Definition eq := @Logic.eq score.
  Definition lt := slt.
  Definition le := sle.
  Definition eq_equiv : Equivalence eq := eq_equivalence.
  Lemma lt_strorder : StrictOrder lt.
  Proof.
    split.
    - intros a H. unfold lt, slt in H. rewrite cmp_refl in H. discriminate.
    - intros a b c. apply cmp_lt_trans.
  Qed.
  Lemma lt_compat : Proper (eq ==> eq ==> iff) lt.
  Proof. intros a b -> c d ->. reflexivity. Qed.
  Lemma le_lteq : forall x y, le x y <-> lt x y \/ eq x y.
  Proof.
    intros x y. unfold le, lt, eq, sle, slt. rewrite <- cmp_eq_iff.
    destruct (cmp x y); split; intros H; auto; try congruence.
    destruct H; discriminate.
  Qed.
  Lemma lt_total : forall x y, lt x y \/ eq x y \/ lt y x.
  Proof. exact cmp_total. Qed.
End SO.
Module SOT := MakeOrderTac SO SO.

Lemma cmp_Gt_slt a b : cmp a b = Gt <-> slt b a.
Proof. unfold slt. rewrite (cmp_antisym a b). destruct (cmp a b); cbn; split; congruence. Qed.
Lemma cmp_nLt_sle a b : cmp a b <> Lt <-> sle b a.
Proof. unfold sle. rewrite (cmp_antisym a b). destruct (cmp a b); cbn; split; congruence. Qed.
Lemma cmp_nEq a b : cmp a b <> Eq <-> a <> b.
Proof. rewrite cmp_eq_iff. reflexivity. Qed.

Lemma sle_min a : sle SMin a.
Proof. destruct a; cbn; discriminate. Qed.
Lemma sle_max a : sle a SMax.
Proof. destruct a; cbn; discriminate. Qed.

(* turn every cmp fact into slt / sle / = *)
Ltac cmp_norm :=
  repeat match goal with
  | H : cmp ?a ?b = Lt |- _ => change (slt a b) in H
  | H : cmp ?a ?b = Gt |- _ => apply cmp_Gt_slt in H
  | H : cmp ?a ?b = Eq |- _ => apply cmp_eq_iff in H
  | H : cmp ?a ?b <> Gt |- _ => change (sle a b) in H
  | H : cmp ?a ?b <> Lt |- _ => apply cmp_nLt_sle in H
  | H : cmp ?a ?b <> Eq |- _ => apply cmp_nEq in H
  | |- cmp ?a ?b = Lt => change (slt a b)
  | |- cmp ?a ?b = Gt => apply cmp_Gt_slt
  | |- cmp ?a ?b = Eq => apply cmp_eq_iff
  | |- cmp ?a ?b <> Gt => change (sle a b)
  | |- cmp ?a ?b <> Lt => apply cmp_nLt_sle
  | |- cmp ?a ?b <> Eq => apply cmp_nEq
  end.

Ltac cmp_split :=
  repeat match goal with
  | |- context[match cmp ?a ?b with _ => _ end] => destruct (cmp a b) eqn:?
  | H : context[match cmp ?a ?b with _ => _ end] |- _ => destruct (cmp a b) eqn:?
  end.

Ltac unfold_ops :=
  unfold pick, better, upd_alpha, upd_beta, smax, smin, ltb, gtb, leb in *.

(* add the sentinel bounds for a given term *)
Ltac bounds x := pose proof (sle_min x); pose proof (sle_max x).

Ltac sorder := cmp_norm; SOT.order.

(* ---------- negation symmetry ---------- *)

Lemma neg_worst w : worst (negb w) = neg (worst w).
Proof. destruct w; reflexivity. Qed.

Lemma neg_better w a b : better (negb w) (neg a) (neg b) = better w a b.
Proof.
  destruct w; cbn; unfold ltb, gtb; rewrite neg_anti, (cmp_antisym a b);
    destruct (cmp a b); reflexivity.
Qed.

Lemma neg_pick w a b : pick (negb w) (neg a) (neg b) = neg (pick w a b).
Proof. unfold pick. rewrite neg_better. destruct (better w a b); reflexivity. Qed.

Lemma neg_smax a b : smin (neg a) (neg b) = neg (smax a b).
Proof.
  unfold smin, smax. rewrite neg_anti, (cmp_antisym a b).
  destruct (cmp a b) eqn:E; cbn; try reflexivity.
  apply cmp_eq_iff in E; subst; reflexivity.
Qed.

Lemma neg_smin a b : smax (neg a) (neg b) = neg (smin a b).
Proof.
  unfold smin, smax. rewrite neg_anti, (cmp_antisym a b).
  destruct (cmp a b) eqn:E; cbn; try reflexivity.
  apply cmp_eq_iff in E; subst; reflexivity.
Qed.

Lemma neg_upd_alpha w sc a : upd_beta (negb w) (neg sc) (neg a) = neg (upd_alpha w sc a).
Proof. destruct w; cbn; [apply neg_smax | reflexivity]. Qed.

Lemma neg_upd_beta w sc b : upd_alpha (negb w) (neg sc) (neg b) = neg (upd_beta w sc b).
Proof. destruct w; cbn; [reflexivity | apply neg_smin]. Qed.

Lemma neg_leb a b : leb (neg a) (neg b) = leb b a.
Proof. unfold leb. rewrite neg_anti. reflexivity. Qed.

Lemma neg_tree_involutive : forall t, neg_tree (neg_tree t) = t.
Proof.
  induction t as [v | cs IH] using tree_ind'; cbn.
  - rewrite neg_involutive; reflexivity.
  - f_equal. rewrite map_map. induction IH as [| c cs Hc _ IHcs]; cbn; congruence.
Qed.

Theorem minimax_neg : forall t w, minimax (negb w) (neg_tree t) = neg (minimax w t).
Proof.
  induction t as [v | cs IH] using tree_ind'; intros w; cbn [minimax neg_tree].
  - reflexivity.
  - rewrite neg_worst. generalize (worst w) as a.
    induction IH as [| c cs Hc _ IHcs]; intros a; cbn [map fold_left].
    + reflexivity.
    + rewrite (Hc (negb w)), neg_pick. apply IHcs.
Qed.

Lemma ab_loop_neg {A : Type} (g : A -> A) w (f f' : score -> score -> A -> score) :
  forall cs,
  Forall (fun c => forall a b, f' (neg b) (neg a) (g c) = neg (f a b c)) cs ->
  forall alpha beta sc,
  ab_loop (negb w) f' (map g cs) (neg beta) (neg alpha) (neg sc) = neg (ab_loop w f cs alpha beta sc).
Proof.
  induction 1 as [| c cs Hc _ IHcs]; intros alpha beta sc; cbn [map ab_loop].
  - reflexivity.
  - rewrite Hc, neg_pick, neg_upd_alpha, neg_upd_beta, neg_leb.
    destruct (leb _ _); [reflexivity | apply IHcs].
Qed.

Theorem alphabeta_neg : forall t w alpha beta,
  alphabeta (negb w) (neg beta) (neg alpha) (neg_tree t) = neg (alphabeta w alpha beta t).
Proof.
  induction t as [v | cs IH] using tree_ind'; intros w alpha beta; cbn [alphabeta neg_tree].
  - reflexivity.
  - rewrite neg_worst. apply ab_loop_neg.
    apply Forall_impl with (2 := IH). intros c Hc a b. apply Hc.
Qed.

Lemma forallb_map_ext {A : Type} (p q : A -> bool) (g : A -> A) cs :
  Forall (fun c => p (g c) = q c) cs -> forallb p (map g cs) = forallb q cs.
Proof. induction 1 as [| c cs Hc _ IHcs]; cbn; congruence. Qed.

Lemma wftb_neg : forall t, wftb (neg_tree t) = wftb t.
Proof.
  induction t as [v | cs IH] using tree_ind'; cbn [wftb neg_tree].
  - reflexivity.
  - destruct cs as [| c0 cs0]; [reflexivity |].
    change (forallb wftb (map neg_tree (c0 :: cs0)) = forallb wftb (c0 :: cs0)).
    apply forallb_map_ext, IH.
Qed.

Lemma wft_neg t : wft (neg_tree t) <-> wft t.
Proof. unfold wft. rewrite wftb_neg. reflexivity. Qed.

Lemma sentinelb_neg s : sentinelb (neg s) = sentinelb s.
Proof. destruct s; reflexivity. Qed.

Lemma properb_neg : forall t, properb (neg_tree t) = properb t.
Proof.
  induction t as [v | cs IH] using tree_ind'; cbn [properb neg_tree].
  - rewrite sentinelb_neg. reflexivity.
  - apply forallb_map_ext, IH.
Qed.

Lemma proper_neg t : proper (neg_tree t) <-> proper t.
Proof. unfold proper. rewrite properb_neg. reflexivity. Qed.

(* ---------- running maximum (White's fold) ---------- *)

Lemma fold_pick_ge_init : forall l a, sle a (fold_left (pick true) l a).
Proof.
  induction l as [| x l IH]; intros a; cbn [fold_left].
  - sorder.
  - specialize (IH (pick true a x)). revert IH. unfold_ops. cmp_split; intros IH; sorder.
Qed.

(* ---------- the fail-soft window lemma ---------- *)

(* r = alphabeta w alpha beta t versus v = minimax w t:
   fail low  (r <= alpha)      : r is an upper bound of v;
   fail high (beta <= r)       : r is a lower bound of v;
   inside    (alpha < r < beta): r is exact. *)
Definition window_ok (w : bool) (alpha beta : score) (t : tree) : Prop :=
  (cmp (alphabeta w alpha beta t) alpha <> Gt ->
     cmp (minimax w t) (alphabeta w alpha beta t) <> Gt) /\
  (cmp (alphabeta w alpha beta t) beta <> Lt ->
     cmp (minimax w t) (alphabeta w alpha beta t) <> Lt) /\
  (cmp alpha (alphabeta w alpha beta t) = Lt -> cmp (alphabeta w alpha beta t) beta = Lt ->
     alphabeta w alpha beta t = minimax w t).

Lemma window_ok_neg w alpha beta t :
  window_ok (negb w) (neg beta) (neg alpha) (neg_tree t) -> window_ok w alpha beta t.
Proof.
  unfold window_ok. rewrite alphabeta_neg, minimax_neg, !neg_anti.
  intros (H1 & H2 & H3). repeat split.
  - intros H. specialize (H2 ltac:(sorder)). sorder.
  - intros H. specialize (H1 ltac:(sorder)). sorder.
  - intros Ha Hb. specialize (H3 Hb Ha).
    rewrite <- (neg_involutive (alphabeta w alpha beta t)), H3. apply neg_involutive.
Qed.

Lemma window_ok_neg' w alpha beta t :
  window_ok w alpha beta t -> window_ok (negb w) (neg beta) (neg alpha) (neg_tree t).
Proof.
  unfold window_ok. rewrite alphabeta_neg, minimax_neg, !neg_anti.
  intros (H1 & H2 & H3). repeat split.
  - intros H. specialize (H2 ltac:(sorder)). sorder.
  - intros H. specialize (H1 ltac:(sorder)). sorder.
  - intros Ha Hb. rewrite (H3 Hb Ha). reflexivity.
Qed.

Lemma window_cases w alpha beta t : window_ok w alpha beta t ->
  let r := alphabeta w alpha beta t in let v := minimax w t in
  (sle r alpha /\ sle v r) \/ (sle beta r /\ sle r v) \/ (slt alpha r /\ slt r beta /\ r = v).
Proof.
  unfold window_ok. intros (H1 & H2 & H3). cbn zeta.
  destruct (SO.lt_total (alphabeta w alpha beta t) alpha) as [H | [H | H]].
  - left. specialize (H1 ltac:(sorder)). split; sorder.
  - left. specialize (H1 ltac:(sorder)). split; sorder.
  - destruct (SO.lt_total (alphabeta w alpha beta t) beta) as [H' | [H' | H']].
    + right; right. auto.
    + right; left. specialize (H2 ltac:(sorder)). split; sorder.
    + right; left. specialize (H2 ltac:(sorder)). split; sorder.
Qed.

Lemma smax_cases a b : (slt b a /\ smax a b = a) \/ (sle a b /\ smax a b = b).
Proof. unfold smax. destruct (cmp a b) eqn:E; [right | right | left]; split; auto; sorder. Qed.

Lemma pick_true_cases sc new :
  (slt sc new /\ pick true sc new = new) \/ (sle new sc /\ pick true sc new = sc).
Proof.
  unfold pick, better, ltb. destruct (cmp sc new) eqn:E; [right | left | right]; split; auto; sorder.
Qed.

Lemma leb_true_sle a b : leb a b = true -> sle a b.
Proof. unfold leb. destruct (cmp a b) eqn:E; intros H; try discriminate; sorder. Qed.
Lemma leb_false_slt a b : leb a b = false -> slt b a.
Proof. unfold leb. destruct (cmp a b) eqn:E; intros H; try discriminate; sorder. Qed.

(* loop invariant for a White node: [M] is the maximum of the true values of the children
   already searched, [sc] the running score, [alpha0] the window's original lower end *)
Lemma white_loop alpha0 beta : forall cs,
  Forall (fun c => forall a b, cmp a b = Lt -> window_ok false a b c) cs ->
  forall alpha sc M,
  slt alpha beta -> alpha = smax sc alpha0 -> sle M sc -> (slt alpha0 sc -> M = sc) ->
  let r := ab_loop true (alphabeta false) cs alpha beta sc in
  let V := fold_left (pick true) (map (minimax false) cs) M in
  (sle r alpha0 -> sle V r) /\ (sle beta r -> sle r V) /\ (slt alpha0 r -> slt r beta -> r = V).
Proof.
  induction 1 as [| c cs Hc _ IHcs]; intros alpha sc M Hab Ha HM HM'; cbn zeta.
  - cbn [ab_loop map fold_left].
    destruct (smax_cases sc alpha0) as [(S1 & S2) | (S1 & S2)]; rewrite S2 in Ha; subst alpha;
      repeat split; intros; try (specialize (HM' ltac:(SOT.order))); SOT.order.
  - cbn [ab_loop map fold_left negb].
    specialize (Hc alpha beta Hab). apply window_cases in Hc. cbn zeta in Hc.
    pose proof (fold_pick_ge_init (map (minimax false) cs)
                  (pick true M (minimax false c))) as HV.
    revert Hc HV IHcs.
    generalize (alphabeta false alpha beta c) as new. generalize (minimax false c) as v.
    intros v new Hc HV IHcs.
    cbn [upd_alpha upd_beta].
    specialize (IHcs (smax (pick true sc new) alpha) (pick true sc new) (pick true M v)).
    revert HV IHcs.
    generalize (fold_left (pick true) (map (minimax false) cs) (pick true M v)) as V.
    generalize (ab_loop true (alphabeta false) cs (smax (pick true sc new) alpha) beta
                  (pick true sc new)) as R.
    intros R V HV IHcs. cbn zeta in IHcs.
    destruct (pick_true_cases sc new) as [(P1 & P2) | (P1 & P2)]; rewrite P2 in *; clear P2;
    destruct (pick_true_cases M v) as [(Q1 & Q2) | (Q1 & Q2)]; rewrite Q2 in *; clear Q2.
    all: destruct (smax_cases sc alpha0) as [(S1 & S2) | (S1 & S2)]; rewrite S2 in Ha; clear S2; subst alpha.
    all: match type of IHcs with context[smax ?a ?b] =>
           destruct (smax_cases a b) as [(T1 & T2) | (T1 & T2)]; rewrite T2 in *; clear T2 end.
    all: match type of IHcs with context[smax ?a ?b] =>
           destruct (smax_cases a b) as [(U1 & U2) | (U1 & U2)]; rewrite U2 in *; clear U2
         | _ => idtac end.
    all: destruct (leb _ _) eqn:Hcut;
         [apply leb_true_sle in Hcut; clear IHcs | apply leb_false_slt in Hcut].
    all: destruct Hc as [(A1 & A2) | [(A1 & A2) | (A1 & A2 & A3)]].
    all: try (exfalso; SOT.order).
    all: try (repeat split; intros; SOT.order).
    all: apply IHcs; clear IHcs; try SOT.order.
    all: intros; try (specialize (HM' ltac:(SOT.order))); SOT.order.
Qed.

Lemma smax_min_l a : smax SMin a = a.
Proof. destruct a; reflexivity. Qed.

Lemma white_node cs alpha beta :
  Forall (fun c => forall a b, cmp a b = Lt -> window_ok false a b c) cs ->
  cmp alpha beta = Lt -> window_ok true alpha beta (Node cs).
Proof.
  intros Hcs Hab.
  pose proof (white_loop alpha beta cs Hcs alpha SMin SMin Hab) as H.
  rewrite smax_min_l in H. specialize (H eq_refl ltac:(SOT.order)).
  pose proof (sle_min alpha) as Hm.
  specialize (H ltac:(intros; SOT.order)). cbn zeta in H.
  unfold window_ok. cbn [alphabeta minimax negb worst].
  destruct H as (H1 & H2 & H3). repeat split; intros.
  - specialize (H1 ltac:(sorder)). sorder.
  - specialize (H2 ltac:(sorder)). sorder.
  - apply H3; sorder.
Qed.

(* The fail-soft alpha-beta window theorem.  Holds for every tree (no well-formedness or
   properness needed), both players, every non-empty window. *)
Theorem AB_window_gen : forall t w alpha beta,
  cmp alpha beta = Lt -> window_ok w alpha beta t.
Proof.
  induction t as [v | cs IH] using tree_ind'; intros w alpha beta Hab.
  - unfold window_ok; cbn [alphabeta minimax]. repeat split; intros; sorder.
  - destruct w.
    + apply white_node; [| exact Hab].
      apply Forall_impl with (2 := IH). intros c Hc a b Hlt. apply Hc, Hlt.
    + apply window_ok_neg. cbn [negb neg_tree]. apply white_node.
      * apply Forall_forall. intros c' Hin a b Hlt.
        apply in_map_iff in Hin. destruct Hin as (c & <- & Hin).
        rewrite Forall_forall in IH.
        rewrite <- (neg_involutive a), <- (neg_involutive b).
        apply (window_ok_neg' true). apply IH; [exact Hin |].
        rewrite <- neg_anti, !neg_involutive. exact Hlt.
      * rewrite neg_anti. exact Hab.
Qed.

Theorem AB_window : forall t w alpha beta,
  wft t -> proper t -> cmp alpha beta = Lt ->
  (cmp (alphabeta w alpha beta t) alpha <> Gt ->
     cmp (minimax w t) (alphabeta w alpha beta t) <> Gt) /\
  (cmp (alphabeta w alpha beta t) beta <> Lt ->
     cmp (minimax w t) (alphabeta w alpha beta t) <> Lt) /\
  (cmp alpha (alphabeta w alpha beta t) = Lt -> cmp (alphabeta w alpha beta t) beta = Lt ->
     alphabeta w alpha beta t = minimax w t).
Proof. intros t w alpha beta _ _ Hab. exact (AB_window_gen t w alpha beta Hab). Qed.

(* full window: alpha-beta computes the minimax value (any tree) *)
Theorem AB_exact_gen : forall t w, alphabeta w SMin SMax t = minimax w t.
Proof.
  intros t w. pose proof (AB_window_gen t w SMin SMax eq_refl) as H.
  apply window_cases in H. cbn zeta in H.
  bounds (alphabeta w SMin SMax t). bounds (minimax w t).
  destruct H as [(A1 & A2) | [(A1 & A2) | (A1 & A2 & A3)]]; SOT.order.
Qed.

Theorem AB_exact : forall t w, wft t -> proper t -> alphabeta w SMin SMax t = minimax w t.
Proof. intros t w _ _. apply AB_exact_gen. Qed.

(* ---------- child order does not matter ---------- *)

Lemma pick_false_cases sc new :
  (slt new sc /\ pick false sc new = new) \/ (sle sc new /\ pick false sc new = sc).
Proof.
  unfold pick, better, gtb. destruct (cmp sc new) eqn:E; [right | right | left]; split; auto; sorder.
Qed.

Lemma pick_comm_r w a x y : pick w (pick w a x) y = pick w (pick w a y) x.
Proof.
  destruct w.
  - destruct (pick_true_cases a x) as [(P1 & P2) | (P1 & P2)]; rewrite P2;
    destruct (pick_true_cases a y) as [(Q1 & Q2) | (Q1 & Q2)]; rewrite Q2;
    try (destruct (pick_true_cases x y) as [(R1 & R2) | (R1 & R2)]; rewrite R2);
    try (destruct (pick_true_cases y x) as [(S1 & S2) | (S1 & S2)]; rewrite S2);
    try (destruct (pick_true_cases a x) as [(T1 & T2) | (T1 & T2)]; rewrite T2);
    try (destruct (pick_true_cases a y) as [(U1 & U2) | (U1 & U2)]; rewrite U2);
    SOT.order.
  - destruct (pick_false_cases a x) as [(P1 & P2) | (P1 & P2)]; rewrite P2;
    destruct (pick_false_cases a y) as [(Q1 & Q2) | (Q1 & Q2)]; rewrite Q2;
    try (destruct (pick_false_cases x y) as [(R1 & R2) | (R1 & R2)]; rewrite R2);
    try (destruct (pick_false_cases y x) as [(S1 & S2) | (S1 & S2)]; rewrite S2);
    try (destruct (pick_false_cases a x) as [(T1 & T2) | (T1 & T2)]; rewrite T2);
    try (destruct (pick_false_cases a y) as [(U1 & U2) | (U1 & U2)]; rewrite U2);
    SOT.order.
Qed.

Lemma fold_pick_perm w l l' : Permutation l l' ->
  forall a, fold_left (pick w) l a = fold_left (pick w) l' a.
Proof.
  induction 1 as [| x l l' _ IH | x y l | l l' l'' _ IH1 _ IH2]; intros a; cbn [fold_left].
  - reflexivity.
  - apply IH.
  - rewrite pick_comm_r. reflexivity.
  - rewrite IH1. apply IH2.
Qed.

Theorem minimax_perm : forall w cs cs',
  Permutation cs cs' -> minimax w (Node cs) = minimax w (Node cs').
Proof.
  intros w cs cs' HP. cbn [minimax]. apply fold_pick_perm, Permutation_map, HP.
Qed.

(* hence full-window alpha-beta does not depend on the order in which moves are searched *)
Corollary AB_exact_perm : forall w cs cs',
  Permutation cs cs' -> alphabeta w SMin SMax (Node cs) = alphabeta w SMin SMax (Node cs').
Proof. intros w cs cs' HP. rewrite !AB_exact_gen. apply minimax_perm, HP. Qed.

(* the same with a different move order at every node of the tree *)
Inductive tree_perm : tree -> tree -> Prop :=
| TP_leaf : forall v, tree_perm (Leaf v) (Leaf v)
| TP_node : forall cs cs1 cs2,
    Forall2 tree_perm cs cs1 -> Permutation cs1 cs2 -> tree_perm (Node cs) (Node cs2).

Theorem minimax_tree_perm : forall t t' w, tree_perm t t' -> minimax w t = minimax w t'.
Proof.
  induction t as [v | cs IH] using tree_ind'; intros t' w HP; inversion HP as [v' | cs0 cs1 cs2 HF HPm]; subst.
  - reflexivity.
  - rewrite <- (minimax_perm w cs1 cs2 HPm). cbn [minimax]. f_equal.
    clear HP HPm. induction HF as [| c c1 cs cs1 Hc _ IHF]; cbn [map]; [reflexivity |].
    inversion IH as [| ? ? IHc IHcs]; subst. f_equal; [apply IHc, Hc | apply IHF, IHcs].
Qed.

Corollary AB_exact_tree_perm : forall t t' w,
  tree_perm t t' -> alphabeta w SMin SMax t = alphabeta w SMin SMax t'.
Proof. intros t t' w HP. rewrite !AB_exact_gen. apply minimax_tree_perm, HP. Qed.

(* ---------- values of well-formed proper trees are not sentinels ---------- *)

Lemma pick_worst w x : pick w (worst w) x = x.
Proof.
  destruct w; cbn [worst].
  - bounds x. destruct (pick_true_cases SMin x) as [(P1 & P2) | (P1 & P2)]; rewrite P2; SOT.order.
  - bounds x. destruct (pick_false_cases SMax x) as [(P1 & P2) | (P1 & P2)]; rewrite P2; SOT.order.
Qed.

Lemma pick_either w a x : pick w a x = a \/ pick w a x = x.
Proof. unfold pick. destruct (better w a x); auto. Qed.

Lemma fold_pick_pred (P : score -> Prop) w : forall l a,
  P a -> Forall P l -> P (fold_left (pick w) l a).
Proof.
  induction l as [| x l IH]; intros a Ha Hl; cbn [fold_left]; [exact Ha |].
  inversion Hl as [| ? ? Hx Hl']; subst. apply IH; [| exact Hl'].
  destruct (pick_either w a x) as [-> | ->]; assumption.
Qed.

Lemma nonsentinel_iff s : nonsentinel s <-> sentinelb s = false.
Proof. unfold nonsentinel. destruct s; cbn; split; intros H; try reflexivity; try discriminate;
  try (split; discriminate); destruct H; congruence. Qed.

Lemma wft_node c cs : wft (Node (c :: cs)) <-> wft c /\ Forall wft cs.
Proof.
  unfold wft. cbn [wftb forallb]. rewrite andb_true_iff, forallb_forall, Forall_forall. reflexivity.
Qed.

Lemma proper_node cs : proper (Node cs) <-> Forall proper cs.
Proof. unfold proper. cbn [properb]. rewrite forallb_forall, Forall_forall. reflexivity. Qed.

Lemma wft_node_nonempty cs : wft (Node cs) -> cs <> [].
Proof. destruct cs; [discriminate | discriminate]. Qed.

Theorem minimax_nonsentinel : forall t w, wft t -> proper t -> nonsentinel (minimax w t).
Proof.
  induction t as [v | cs IH] using tree_ind'; intros w Hw Hp.
  - cbn [minimax]. apply nonsentinel_iff. unfold proper in Hp. cbn in Hp.
    destruct (sentinelb v); [discriminate | reflexivity].
  - destruct cs as [| c cs]; [discriminate |].
    apply wft_node in Hw. destruct Hw as (Hwc & Hwcs). apply proper_node in Hp.
    inversion Hp as [| ? ? Hpc Hpcs]; subst. inversion IH as [| ? ? IHc IHcs]; subst.
    cbn [minimax map fold_left]. rewrite pick_worst.
    apply fold_pick_pred; [apply IHc; assumption |].
    apply Forall_forall. intros x Hx. apply in_map_iff in Hx. destruct Hx as (c' & <- & Hin).
    rewrite Forall_forall in IHcs, Hwcs, Hpcs. apply IHcs; auto.
Qed.

(* ---------- the root loop (one pass of search_with) ---------- *)

Lemma smax_idem_ge a b : sle b a -> smax a b = a.
Proof. intros H. destruct (smax_cases a b) as [(S1 & S2) | (S1 & S2)]; rewrite S2; SOT.order. Qed.

Lemma better_true_cases sc new :
  (slt sc new /\ better true sc new = true) \/ (sle new sc /\ better true sc new = false).
Proof.
  unfold better, ltb. destruct (cmp sc new) eqn:E; [right | left | right]; split; auto; sorder.
Qed.

(* White at the root: alpha always equals the running score, beta stays Max *)
Lemma root_loop_white {A : Type} : forall (cs : list (A * tree)),
  Forall (fun mt => wft (snd mt) /\ proper (snd mt)) cs ->
  forall sc best, slt sc SMax ->
  let res := root_loop true cs sc SMax sc best in
  snd res = fold_left (pick true) (map (fun mt => minimax false (snd mt)) cs) sc /\
  ((snd res = sc /\ fst res = best) \/
   (slt sc (snd res) /\
    exists l1 m t l2, cs = l1 ++ (m, t) :: l2 /\ fst res = Some m /\
      minimax false t = snd res /\
      Forall (fun mt => slt (minimax false (snd mt)) (snd res)) l1)).
Proof.
  induction 1 as [| [m c] cs (Hw & Hp) _ IHcs]; intros sc best Hsc; cbn zeta.
  - cbn. split; [reflexivity | left; split; reflexivity].
  - cbn [root_loop map fold_left snd negb upd_alpha upd_beta]. cbn [snd] in Hw, Hp.
    pose proof (minimax_nonsentinel c false Hw Hp) as (Hv1 & Hv2).
    pose proof (window_cases _ _ _ _ (AB_window_gen c false sc SMax Hsc)) as Hc. cbn zeta in Hc.
    remember (minimax false c) as v eqn:Ev. revert Hc.
    generalize (alphabeta false sc SMax c) as new. intros new Hc. bounds v. bounds new.
    destruct (better_true_cases sc new) as [(B1 & B2) | (B1 & B2)]; rewrite B2.
    + (* strictly better: the value is exact *)
      assert (new = v) as -> by (destruct Hc as [(A1 & A2) | [(A1 & A2) | (A1 & A2 & A3)]]; SOT.order).
      rewrite (smax_idem_ge v sc) by SOT.order.
      assert (pick true sc v = v) as ->
        by (destruct (pick_true_cases sc v) as [(P1 & P2) | (P1 & P2)]; rewrite P2; SOT.order).
      specialize (IHcs v (Some m) ltac:(SOT.order)). cbn zeta in IHcs.
      destruct IHcs as (E & D). split; [exact E |]. right.
      destruct D as [(D1 & D2) | (D1 & l1 & m' & t & l2 & -> & D2 & D3 & D4)].
      * split; [SOT.order |]. exists [], m, c, cs. rewrite D1. repeat split; auto.
      * split; [SOT.order |]. exists ((m, c) :: l1), m', t, l2. repeat split; auto.
        constructor; [cbn [snd]; rewrite <- Ev; SOT.order | exact D4].
    + (* not better: the child's true value is not better either *)
      assert (sle v sc) as Hvs
        by (destruct Hc as [(A1 & A2) | [(A1 & A2) | (A1 & A2 & A3)]]; SOT.order).
      rewrite (smax_idem_ge sc sc) by SOT.order.
      assert (pick true sc v = sc) as ->
        by (destruct (pick_true_cases sc v) as [(P1 & P2) | (P1 & P2)]; rewrite P2; SOT.order).
      specialize (IHcs sc best Hsc). cbn zeta in IHcs.
      destruct IHcs as (E & D). split; [exact E |].
      destruct D as [(D1 & D2) | (D1 & l1 & m' & t & l2 & -> & D2 & D3 & D4)].
      * left. auto.
      * right. split; [exact D1 |]. exists ((m, c) :: l1), m', t, l2. repeat split; auto.
        constructor; [cbn [snd]; rewrite <- Ev; SOT.order | exact D4].
Qed.

Definition neg_move {A : Type} (mt : A * tree) : A * tree := (fst mt, neg_tree (snd mt)).

Lemma root_loop_neg {A : Type} w : forall (cs : list (A * tree)) alpha beta sc best,
  root_loop (negb w) (map neg_move cs) (neg beta) (neg alpha) (neg sc) best =
  (fst (root_loop w cs alpha beta sc best), neg (snd (root_loop w cs alpha beta sc best))).
Proof.
  induction cs as [| [m c] cs IH]; intros alpha beta sc best; cbn [map root_loop neg_move fst snd].
  - reflexivity.
  - rewrite (alphabeta_neg c (negb w)), neg_better.
    destruct (better w sc (alphabeta (negb w) alpha beta c));
      rewrite neg_upd_alpha, neg_upd_beta; apply IH.
Qed.

Lemma root_neg {A : Type} w (cs : list (A * tree)) :
  root (negb w) (map neg_move cs) = (fst (root w cs), neg (snd (root w cs))).
Proof.
  unfold root. rewrite neg_worst.
  change SMin with (neg SMax) at 1. change SMax with (neg SMin) at 2. apply root_loop_neg.
Qed.

Lemma neg_move_involutive {A : Type} (cs : list (A * tree)) : map neg_move (map neg_move cs) = cs.
Proof.
  rewrite map_map. rewrite <- (map_id cs) at 2. apply map_ext.
  intros [m t]. unfold neg_move; cbn. rewrite neg_tree_involutive. reflexivity.
Qed.

Lemma root_best_white {A : Type} (cs : list (A * tree)) :
  cs <> [] -> Forall (fun mt => wft (snd mt) /\ proper (snd mt)) cs ->
  snd (root true cs) = minimax true (Node (map snd cs)) /\
  exists l1 m t l2, cs = l1 ++ (m, t) :: l2 /\ fst (root true cs) = Some m /\
    minimax false t = snd (root true cs) /\
    Forall (fun mt => slt (minimax false (snd mt)) (snd (root true cs))) l1.
Proof.
  intros Hne Hcs. unfold root. cbn [worst].
  pose proof (root_loop_white cs Hcs SMin None eq_refl) as (E & D). cbn zeta in *.
  split.
  - rewrite E. cbn [minimax negb worst]. rewrite map_map. reflexivity.
  - destruct D as [(D1 & D2) | (D1 & D)]; [| exact D]. exfalso.
    destruct cs as [| [m c] cs]; [congruence |].
    inversion Hcs as [| ? ? (Hw & Hp) _]; subst. cbn [snd] in Hw, Hp.
    pose proof (minimax_nonsentinel c false Hw Hp) as (Hv1 & Hv2).
    rewrite D1 in E. cbn [map fold_left snd] in E. rewrite (pick_worst true) in E.
    pose proof (fold_pick_ge_init (map (fun mt => minimax false (snd mt)) cs) (minimax false c)) as HV.
    rewrite <- E in HV. bounds (minimax false c). SOT.order.
Qed.

(* The root pass returns the minimax value of the position, together with the FIRST move (in
   iteration order) whose subtree has that value: every earlier move is strictly worse. *)
Theorem root_best {A : Type} : forall w (cs : list (A * tree)),
  cs <> [] -> Forall (fun mt => wft (snd mt) /\ proper (snd mt)) cs ->
  snd (root w cs) = minimax w (Node (map snd cs)) /\
  exists l1 m t l2, cs = l1 ++ (m, t) :: l2 /\ fst (root w cs) = Some m /\
    minimax (negb w) t = snd (root w cs) /\
    Forall (fun mt => better w (minimax (negb w) (snd mt)) (snd (root w cs)) = true) l1.
Proof.
  intros w cs Hne Hcs. destruct w.
  - destruct (root_best_white cs Hne Hcs) as (E & l1 & m & t & l2 & H1 & H2 & H3 & H4).
    split; [exact E |]. exists l1, m, t, l2. repeat split; auto.
    apply Forall_impl with (2 := H4). intros mt Hlt. cbn [negb better]. unfold ltb.
    unfold slt in Hlt. rewrite Hlt. reflexivity.
  - assert (Hne' : map neg_move cs <> []) by (destruct cs; [congruence | discriminate]).
    assert (Hcs' : Forall (fun mt => wft (snd mt) /\ proper (snd mt)) (map (@neg_move A) cs)).
    { apply Forall_forall. intros mt' Hin. apply in_map_iff in Hin. destruct Hin as (mt & <- & Hin).
      rewrite Forall_forall in Hcs. destruct (Hcs mt Hin) as (Hw & Hp).
      cbn [neg_move snd]. split; [apply wft_neg, Hw | apply proper_neg, Hp]. }
    destruct (root_best_white _ Hne' Hcs') as (E & l1 & m & t & l2 & H1 & H2 & H3 & H4).
    pose proof (root_neg true (map neg_move cs)) as HR. rewrite neg_move_involutive in HR.
    cbn [negb] in HR. rewrite HR. cbn [fst snd]. split.
    + rewrite E. rewrite map_map. cbn [neg_move snd].
      rewrite <- (map_map snd neg_tree).
      change (Node (map neg_tree (map snd cs))) with (neg_tree (Node (map snd cs))).
      rewrite (minimax_neg _ false), neg_involutive. reflexivity.
    + exists (map neg_move l1), m, (neg_tree t), (map neg_move l2). repeat split.
      * rewrite <- (neg_move_involutive cs), H1, map_app. reflexivity.
      * exact H2.
      * rewrite (minimax_neg t false), H3. reflexivity.
      * apply Forall_forall. intros mt' Hin. apply in_map_iff in Hin.
        destruct Hin as (mt & <- & Hin). rewrite Forall_forall in H4. specialize (H4 mt Hin).
        cbn [neg_move snd better]. rewrite (minimax_neg (snd mt) false).
        unfold gtb. rewrite neg_anti. apply cmp_Gt_slt in H4.
        rewrite cmp_antisym in H4. rewrite cmp_antisym.
        destruct (cmp _ _); cbn in *; congruence.
Qed.

Corollary root_score_perm {A : Type} : forall w (cs cs' : list (A * tree)),
  cs <> [] -> Forall (fun mt => wft (snd mt) /\ proper (snd mt)) cs ->
  Permutation cs cs' -> snd (root w cs) = snd (root w cs').
Proof.
  intros w cs cs' Hne Hcs HP.
  assert (Hne' : cs' <> []) by (intros ->; apply Permutation_sym, Permutation_nil in HP; congruence).
  assert (Hcs' : Forall (fun mt => wft (snd mt) /\ proper (snd mt)) cs').
  { rewrite Forall_forall in *. intros mt Hin. apply Hcs.
    apply Permutation_in with (1 := Permutation_sym HP), Hin. }
  destruct (root_best w cs Hne Hcs) as (-> & _). destruct (root_best w cs' Hne' Hcs') as (-> & _).
  apply minimax_perm, Permutation_map, HP.
Qed.

(* ---------- non-vacuity ---------- *)

Definition ex_tree : tree :=
  Node [ Node [Leaf (SRaw 3); Leaf (SRaw 5)];
         Node [Leaf (SRaw 2); Leaf (SWhiteMateIn 3)];     (* second leaf is cut off *)
         Node [Leaf (SRaw 7); Node [Leaf (SRaw 4); Leaf (SBlackMateIn 2)]; Leaf (SRaw 9)] ].

Example ex_tree_ok : wft ex_tree /\ proper ex_tree.
Proof. split; vm_compute; reflexivity. Qed.

Example ex_minimax : minimax true ex_tree = SRaw 4 /\ minimax false ex_tree = SRaw 5.
Proof. split; vm_compute; reflexivity. Qed.

Example ex_alphabeta :
  alphabeta true SMin SMax ex_tree = SRaw 4 /\
  alphabeta true (SRaw 4) (SRaw 6) ex_tree = SRaw 4 /\      (* fail low: upper bound *)
  alphabeta true (SRaw 0) (SRaw 3) ex_tree = SRaw 3 /\      (* fail high: lower bound *)
  alphabeta false SMin SMax (neg_tree ex_tree) = SRaw (-4).
Proof. repeat split; vm_compute; reflexivity. Qed.

Example ex_root :
  root true [(1%N, Leaf (SRaw 3)); (2%N, Node [Leaf (SRaw 8); Leaf (SRaw 5)]);
             (3%N, Node [Leaf (SRaw 5); Leaf (SRaw 6)]); (4%N, Leaf (SRaw 4))]
  = (Some 2%N, SRaw 5).
Proof. vm_compute. reflexivity. Qed.
