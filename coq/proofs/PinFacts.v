(* C01 (P) - pins and check masks: for a NON-king man of the side to move making an ordinary step / capture,
   the mover's king is safe on the successor board exactly when the generator's pin / check-mask filter
   [step_filter b src d] accepts the destination.

   The shared attack layer (AttackDefs: AT2..AT7) is taken as premises.  Route:
     1. the successor placement / occupancy of such a move:  src emptied, d holds the mover, the rest unchanged
        (no castling, no en passant: an ordinary pawn step never lands on the e.p. square);
     2. safe_after  <->  every checker other than the one captured on d has d strictly between itself and the king,
                         and every enemy slider that has src as its ONLY blocker (a pinner of src), other than the
                         one captured on d, has d strictly between itself and the king            (safe_char);
     3. comparison with the filter in the three cases no check / single check / double check, with the geometry of
        PinFactsAux (a pseudo-legal destination on the line src-king lies between king and pinner or is the pinner).
   Axiom-free. *)
From Coq Require Import NArith ZArith List Bool Lia ZifyBool ZifyN.
From Chess Require Import base.Bits base.Types base.BitBoard base.Sweep geom.Geometry model.Board model.MoveGen model.Apply spec.Rules.
From Chess Require Import proofs.BitsFacts proofs.BitBoardFacts proofs.GeomSweeps proofs.BridgeFacts proofs.PinFactsAux.
From Chess Require proofs.ApplyFacts.
From Chess Require Import spec.IterSpec proofs.HashFacts proofs.InvFacts proofs.LegalDefs proofs.AttackDefs.
Import ListNotations.
Local Open Scope N_scope.

Lemma piece_eqb_King_false : forall pc, pc <> King -> piece_eqb pc King = false.
Proof. intros [] H; try reflexivity. contradiction H. reflexivity. Qed.

Lemma occ_raw : forall x s, Part x -> s < 64 ->
  mem (all_occ x) s = match raw_get x s with Some _ => true | None => false end.
Proof.
  intros x s P Hs. destruct (raw_get x s) as [cp|] eqn:E.
  - exact (raw_some_occ x s cp P Hs E).
  - apply (HashFacts.raw_get_spec x P s Hs). exact E.
Qed.

Lemma from_pos_mem_eq : forall X s x, X = from_pos s -> mem X x = true -> x = s.
Proof.
  intros X s x E H. rewrite E, mem_from_pos_full in H. apply andb_prop in H. apply N.eqb_eq, H.
Qed.

Lemma slider_kind_cases : forall pc k t, slider_kind pc k t = true -> pc = Bishop \/ pc = Rook \/ pc = Queen.
Proof. intros [] k t H; try discriminate H; auto. Qed.

Lemma att_pawn : forall c s o t, att_from Pawn c s o t = mem (pawn_att_geo (opp c) s) t.
Proof. reflexivity. Qed.
Lemma att_knight : forall c s o t, att_from Knight c s o t = mem (knight_geo s) t.
Proof. reflexivity. Qed.
Lemma att_king : forall c s o t, att_from King c s o t = mem (king_geo s) t.
Proof. reflexivity. Qed.

Section Pin.
  Hypothesis AT2 : slider_att_statement.
  Hypothesis AT3 : kings_statement.
  Hypothesis AT4 : checkers_spec_statement.
  Hypothesis AT5 : pinned_spec_statement.
  Hypothesis AT6 : after_move_statement.
  Hypothesis AT7 : safe_after_spec_statement.

  Variable b : board.
  Variables src d : N.
  Variable pc : piece.
  Variable pr : option piece.
  Hypothesis G : Good b.
  Hypothesis Npc : pc <> King.
  Hypothesis Hs : src < 64.
  Hypothesis Hd : d < 64.
  Hypothesis Hraw : raw_get b src = Some (b_turn b, pc).
  Hypothesis Hstep : mem (pseudo_legals pc src (b_turn b) (all_occ b) (bb_not (own b))) d = true.
  Hypothesis Hpr : promo_ok b pc src pr.

  Local Notation m := {| m_src := src; m_dst := d; m_promo := pr |}.
  Local Notation k := (ksq b).
  Local Notation c := (b_turn b).
  Local Notation e := (opp (b_turn b)).
  Local Notation occ := (all_occ b).
  Local Notation b' := (apply b m).
  Local Notation occ' := (all_occ (apply b m)).
  Local Notation promo := (piece_eqb pc Pawn && (rank_of src =? seventh_rank (b_turn b))).

  Let P : Part b := inv_part b (good_inv b G).
  Let EP : ep_ok b := inv_ep b (good_inv b G).

  Lemma MO : move_ok b m pc promo.
  Proof.
    constructor; cbn [m_src m_dst m_promo].
    - exact Hs.
    - exact Hd.
    - exact Hraw.
    - apply DK_step; [exact Hstep|reflexivity].
    - intros H. apply andb_prop in H. destruct H as [H _]. destruct pc; try discriminate H. reflexivity.
    - unfold promo_ok in Hpr. change (match b_turn b with White => 6 | Black => 1 end) with (seventh_rank (b_turn b)) in Hpr.
      destruct promo; exact Hpr.
    - intros E. contradiction.
  Qed.

  (* --- the kings --- *)
  Lemma k_lt : k < 64.
  Proof. exact (proj1 (AT3 b c G)). Qed.
  Lemma k_raw : raw_get b k = Some (c, King).
  Proof. exact (proj1 (proj2 (AT3 b c G))). Qed.
  Lemma k_occ : mem occ k = true.
  Proof. exact (raw_some_occ b k _ P k_lt k_raw). Qed.

  Lemma d_free : raw_get b d = None \/ exists cp, raw_get b d = Some (e, cp).
  Proof. exact (kind_dest b pc src d promo P EP (mo_kind _ _ _ _ MO) Hd). Qed.
  Lemma src_ne_d : src <> d.
  Proof. exact (src_dst_ne b m pc Hraw d_free). Qed.
  Lemma d_ne_k : d <> k.
  Proof.
    intros E. pose proof d_free as F. rewrite E, k_raw in F. destruct F as [F|[cp F]]; [discriminate F|].
    injection F as F _. exact (opp_neq _ (eq_sym F)).
  Qed.
  Lemma src_occ : mem occ src = true.
  Proof. exact (raw_some_occ b src _ P Hs Hraw). Qed.
  Lemma enemy_ne_src : forall t p, raw_get b t = Some (e, p) -> t <> src.
  Proof. intros t p H E. rewrite E, Hraw in H. injection H as H _. exact (opp_neq _ (eq_sym H)). Qed.

  (* --- 1. the successor placement --- *)
  Lemma after5_step : exists pcd, forall s,
    after5 b m pc s = if s =? src then None else if s =? d then Some (c, pcd) else raw_get b s.
  Proof.
    assert (M : forall s, moved b m pc s = if s =? src then None else if s =? d then Some (c, pc) else raw_get b s) by reflexivity.
    assert (NC : is_castle_move pc m = false) by exact (ApplyFacts.is_castle_move_not_king pc m Npc).
    pose proof src_ne_d as SD.
    destruct pc eqn:Epc.
    - (* pawn *)
      destruct pr as [p|] eqn:Epr.
      + exists p. intros s. unfold after5. cbv zeta. cbn [m_promo m_dst]. rewrite M.
        destruct (N.eqb_spec s src) as [->|_]; [|destruct (s =? d); reflexivity].
        destruct (N.eqb_spec src d) as [E|_]; [contradiction (SD E)|reflexivity].
      + exists Pawn. intros s. unfold after5. cbv zeta. cbn [m_promo m_dst]. rewrite M.
        destruct (is_double_push _ _); [reflexivity|].
        rewrite enpassant_pos_eq. destruct (b_ep b) as [f|] eqn:Ef; [|reflexivity].
        destruct (N.eqb_spec d (mk_sq f (ep_capture_rank_of c))) as [E|_]; [|reflexivity].
        exfalso. exact (pawn_step_not_ep_square b src d f P EP Hs Hd Hraw Hstep Ef E).
    - exists Knight. intros s. unfold after5. cbv zeta. apply M.
    - exists Bishop. intros s. unfold after5. cbv zeta. rewrite NC. apply M.
    - exists Rook. intros s. unfold after5. cbv zeta. rewrite NC. apply M.
    - exists Queen. intros s. unfold after5. cbv zeta. rewrite NC. apply M.
    - contradiction Npc; reflexivity.
  Qed.

  Lemma P' : Part b'.
  Proof. exact (proj1 (AT6 b m pc promo G MO)). Qed.

  Lemma raw_after : exists pcd, forall s, s < 64 ->
    raw_get b' s = if s =? src then None else if s =? d then Some (c, pcd) else raw_get b s.
  Proof.
    destruct after5_step as (pcd & A). exists pcd. intros s Hlt.
    rewrite (proj2 (AT6 b m pc promo G MO) s Hlt). apply A.
  Qed.

  Lemma occ_after : forall s, s < 64 ->
    mem occ' s = if s =? src then false else if s =? d then true else mem occ s.
  Proof.
    intros s Hlt. destruct raw_after as (pcd & A).
    rewrite (occ_raw b' s P' Hlt), (A s Hlt), (occ_raw b s P Hlt).
    destruct (s =? src); [reflexivity|]. destruct (s =? d); reflexivity.
  Qed.

  (* --- 2. safe_after, in terms of the men of the board before the move --- *)
  Lemma safe_men : safe_after b m = true <->
    forall t p, t < 64 -> t <> d -> raw_get b t = Some (e, p) -> att_from p e k occ' t = false.
  Proof.
    pose proof (AT7 b m pc promo G MO) as A7. cbv zeta in A7. cbn [m_dst] in A7.
    rewrite (piece_eqb_King_false pc Npc) in A7. destruct A7 as [_ A7].
    destruct raw_after as (pcd & A). rewrite A7. split.
    - intros H t p Ht Htd Hr. apply (H t p Ht). rewrite (A t Ht).
      destruct (N.eqb_spec t src) as [E|_]; [contradiction (enemy_ne_src t p Hr E)|].
      destruct (N.eqb_spec t d) as [E|_]; [contradiction|exact Hr].
    - intros H t p Ht Hr. rewrite (A t Ht) in Hr.
      destruct (N.eqb_spec t src) as [E|_]; [discriminate Hr|].
      destruct (N.eqb_spec t d) as [E|Htd].
      + injection Hr as Hr _. contradiction (opp_neq _ (eq_sym Hr)).
      + exact (H t p Ht Htd Hr).
  Qed.

  (* --- blockers after the move --- *)
  Lemma blocked_intro : forall t x, x < 64 -> x <> src -> (mem occ x = true \/ x = d) ->
    mem (between_geo k t) x = true -> bb_and occ' (between_geo k t) <> 0.
  Proof.
    intros t x Hx Hxs Hox Hb. apply (and_nonzero _ _ x); [|exact Hb].
    rewrite (occ_after x Hx). apply N.eqb_neq in Hxs. rewrite Hxs.
    destruct (N.eqb_spec x d) as [_|Hxd]; [reflexivity|]. destruct Hox as [H|H]; [exact H|contradiction].
  Qed.

  Lemma blocked_elim : forall t, bb_and occ' (between_geo k t) <> 0 ->
    exists x, mem (between_geo k t) x = true /\ x <> src /\ (x = d \/ mem occ x = true).
  Proof.
    intros t H.
    assert (W : wf64 (bb_and occ' (between_geo k t))) by (apply wf64_land_r, wf64_between).
    assert (A : any (bb_and occ' (between_geo k t)) = true) by (unfold any; apply negb_true_iff, N.eqb_neq, H).
    apply (any_spec _ W) in A. destruct A as (x & Hx & Hm). rewrite mem_and in Hm. apply andb_prop in Hm.
    destruct Hm as [H1 H2]. rewrite (occ_after x Hx) in H1. exists x. split; [exact H2|].
    destruct (N.eqb_spec x src) as [_|N1]; [discriminate H1|]. split; [exact N1|].
    destruct (N.eqb_spec x d) as [E|_]; [left; exact E|right; exact H1].
  Qed.

  Lemma slider_att : forall p o t, (p = Bishop \/ p = Rook \/ p = Queen) ->
    att_from p e k o t = slider_kind p k t && none (bb_and o (between_geo k t)).
  Proof. intros p o t Hp. exact (AT2 p e k o t k_lt Hp). Qed.

  (* --- the checkers --- *)
  Lemma checker_facts : forall c0, mem (b_checkers b) c0 = true ->
    c0 < 64 /\ (exists p, raw_get b c0 = Some (e, p)) /\ bb_and occ (between_geo k c0) = 0.
  Proof.
    intros c0 H. apply (AT4 b c0 G) in H. destruct H as (Hlt & p & Hr & Nk & Ha).
    split; [exact Hlt|split; [exists p; exact Hr|]].
    destruct p.
    - rewrite att_pawn in Ha. rewrite (leaper_between k c0 k_lt Hlt (or_intror (ex_intro _ _ Ha))). apply N.land_0_r.
    - rewrite att_knight in Ha. rewrite (leaper_between k c0 k_lt Hlt (or_introl Ha)). apply N.land_0_r.
    - rewrite slider_att in Ha by auto. apply andb_prop in Ha. apply none_true, Ha.
    - rewrite slider_att in Ha by auto. apply andb_prop in Ha. apply none_true, Ha.
    - rewrite slider_att in Ha by auto. apply andb_prop in Ha. apply none_true, Ha.
    - contradiction Nk; reflexivity.
  Qed.

  Lemma checker_occ : forall c0, mem (b_checkers b) c0 = true -> mem occ c0 = true /\ c0 <> src.
  Proof.
    intros c0 H. destruct (checker_facts c0 H) as (Hlt & (p & Hr) & _).
    split; [exact (raw_some_occ b c0 _ P Hlt Hr)|exact (enemy_ne_src c0 p Hr)].
  Qed.

  (* a surviving checker must be blocked by the moved man *)
  Lemma parry : safe_after b m = true -> forall c0, mem (b_checkers b) c0 = true -> c0 <> d ->
    mem (between_geo k c0) d = true.
  Proof.
    intros S c0 H Hcd. pose proof (checker_facts c0 H) as (_ & _ & Hclear).
    apply (AT4 b c0 G) in H. destruct H as (Hlt & p & Hr & Nk & Ha).
    pose proof (proj1 safe_men S c0 p Hlt Hcd Hr) as Ha'.
    assert (Sl : forall (Hp : p = Bishop \/ p = Rook \/ p = Queen), mem (between_geo k c0) d = true).
    { intros Hp. rewrite (slider_att p _ c0 Hp) in Ha. rewrite (slider_att p _ c0 Hp) in Ha'. apply andb_prop in Ha. destruct Ha as [Hk _].
      rewrite Hk, andb_true_l in Ha'.
      assert (Hnz : bb_and occ' (between_geo k c0) <> 0).
      { intros E. rewrite E in Ha'. discriminate Ha'. }
      destruct (blocked_elim c0 Hnz) as (x & Hb & _ & [->|Ho]); [exact Hb|].
      rewrite (and_zero_mem _ _ x Hclear Ho) in Hb. discriminate Hb. }
    destruct p; try (apply Sl; auto; fail).
    - rewrite att_pawn in Ha, Ha'. rewrite Ha in Ha'. discriminate Ha'.
    - rewrite att_knight in Ha, Ha'. rewrite Ha in Ha'. discriminate Ha'.
    - contradiction Nk; reflexivity.
  Qed.

  (* a surviving pinner of src must be blocked by the moved man *)
  Lemma pin_hold : safe_after b m = true -> forall t0 p0, t0 < 64 -> raw_get b t0 = Some (e, p0) ->
    slider_kind p0 k t0 = true -> bb_and occ (between_geo k t0) = from_pos src -> t0 <> d ->
    mem (between_geo k t0) d = true.
  Proof.
    intros S t0 p0 Hlt Hr Hk Hpin Htd.
    pose proof (proj1 safe_men S t0 p0 Hlt Htd Hr) as Ha'.
    rewrite (slider_att p0 _ t0 (slider_kind_cases _ _ _ Hk)), Hk, andb_true_l in Ha'.
    assert (Hnz : bb_and occ' (between_geo k t0) <> 0).
    { intros E. rewrite E in Ha'. discriminate Ha'. }
    destruct (blocked_elim t0 Hnz) as (x & Hb & Nx & [->|Ho]); [exact Hb|].
    exfalso. apply Nx. apply (from_pos_mem_eq _ _ x Hpin). rewrite mem_and, Ho, Hb. reflexivity.
  Qed.

  (* conversely: these two conditions make the king safe *)
  Lemma safe_intro :
    (forall c0, mem (b_checkers b) c0 = true -> c0 <> d -> mem (between_geo k c0) d = true) ->
    (forall t0 p0, t0 < 64 -> raw_get b t0 = Some (e, p0) -> slider_kind p0 k t0 = true ->
       bb_and occ (between_geo k t0) = from_pos src -> t0 <> d -> mem (between_geo k t0) d = true) ->
    safe_after b m = true.
  Proof.
    intros H1 H2. apply safe_men. intros t p Ht Htd Hr.
    destruct (att_from p e k occ' t) eqn:A; [exfalso|reflexivity].
    assert (Leap : att_from p e k occ t = true -> p <> King -> between_geo k t = 0 -> False).
    { intros Ha Nk Hb.
      assert (Hc : mem (b_checkers b) t = true) by (apply (AT4 b t G); split; [exact Ht|exists p; repeat split; assumption]).
      pose proof (H1 t Hc Htd) as Hm. rewrite Hb, mem_0 in Hm. discriminate Hm. }
    assert (Sl : (p = Bishop \/ p = Rook \/ p = Queen) -> False).
    { intros Hp. rewrite (slider_att p _ t Hp) in A. apply andb_prop in A. destruct A as [Hk Hn].
      apply none_true in Hn.
      assert (Blk : mem (between_geo k t) d = true -> False).
      { intros Hm. exact (blocked_intro t d Hd (fun E => src_ne_d (eq_sym E)) (or_intror eq_refl) Hm Hn). }
      destruct (mem (b_checkers b) t) eqn:Hc; [exact (Blk (H1 t Hc Htd))|].
      assert (Hnz : bb_and occ (between_geo k t) <> 0).
      { intros E. assert (Hc' : mem (b_checkers b) t = true).
        { apply (AT4 b t G). split; [exact Ht|exists p]. split; [exact Hr|split].
          - destruct Hp as [->|[->| ->]]; discriminate.
          - rewrite (slider_att p _ t Hp), Hk, E. reflexivity. }
        rewrite Hc' in Hc. discriminate Hc. }
      destruct (N.eq_dec (bb_and occ (between_geo k t)) (from_pos src)) as [Hpin|Hnp].
      - exact (Blk (H2 t p Ht Hr Hk Hpin Htd)).
      - assert (W : wf64 (bb_and occ (between_geo k t))) by (apply wf64_land_r, wf64_between).
        destruct (member_not _ src W Hs Hnz Hnp) as (x & Hx & Nx & Hm).
        rewrite mem_and in Hm. apply andb_prop in Hm. destruct Hm as [Ho Hb].
        exact (blocked_intro t x Hx Nx (or_introl Ho) Hb Hn). }
    destruct p; try (apply Sl; auto; fail).
    - rewrite att_pawn in A. apply Leap; [rewrite att_pawn; exact A|discriminate|].
      exact (leaper_between k t k_lt Ht (or_intror (ex_intro _ _ A))).
    - rewrite att_knight in A. apply Leap; [rewrite att_knight; exact A|discriminate|].
      exact (leaper_between k t k_lt Ht (or_introl A)).
    - rewrite att_king in A.
      destruct (AT3 b e G) as (_ & _ & Uq & _). rewrite (Uq t Ht Hr) in A.
      destruct (AT3 b c G) as (_ & _ & _ & Adj). unfold ksq in A. rewrite Adj in A. discriminate A.
  Qed.

  (* --- 3. comparison with the generator's filter --- *)
  Lemma pinner_mem : forall t0, bb_and occ (between_geo k t0) = from_pos src -> mem (between_geo k t0) src = true.
  Proof.
    intros t0 E.
    assert (H : mem (bb_and occ (between_geo k t0)) src = true).
    { rewrite E, mem_from_pos_full, N.eqb_refl. apply N.ltb_lt in Hs. rewrite Hs. reflexivity. }
    rewrite mem_and in H. apply andb_prop in H. apply H.
  Qed.

  Lemma pinned_intro : forall t0 p0, t0 < 64 -> raw_get b t0 = Some (e, p0) -> slider_kind p0 k t0 = true ->
    bb_and occ (between_geo k t0) = from_pos src -> mem (b_pinned b) src = true.
  Proof.
    intros t0 p0 Ht Hr Hk Hpin. apply (AT5 b src G). split; [exact Hs|].
    exists t0, p0. split; [exact Ht|split; [exact Hr|split; [exact Hk|exact Hpin]]].
  Qed.

  (* a pseudo-legal destination on the line src-king lies strictly between king and pinner, or is the pinner *)
  Lemma line_to_between : forall t0, t0 < 64 -> mem occ t0 = true -> mem (between_geo k t0) src = true ->
    mem (line_geo src k) d = true -> t0 <> d -> mem (between_geo k t0) d = true.
  Proof.
    intros t0 Ht Hot Hsb Hl Htd.
    assert (Clear : forall x, mem occ x = true -> mem (between_geo src d) x = true -> False).
    { intros x Hox Hbx. destruct (pseudo_clear pc src c occ _ d Hs Hd Npc Hstep) as [[_ Hkn]|Hcl].
      - rewrite (knight_line src k d Hs k_lt Hkn) in Hl. discriminate Hl.
      - rewrite (and_zero_mem _ _ x Hcl Hox) in Hbx. discriminate Hbx. }
    destruct (line_dest k t0 src d k_lt Ht Hd Hsb Hl) as [E|[H|[E|[E|[H|H]]]]].
    - exfalso. apply src_ne_d. symmetry. exact E.
    - exact H.
    - exfalso. apply Htd. symmetry. exact E.
    - exfalso. exact (d_ne_k E).
    - exfalso. exact (Clear k k_occ H).
    - exfalso. exact (Clear t0 Hot H).
  Qed.

  Lemma negb_true_orb : forall x, negb true || x = x.
  Proof. reflexivity. Qed.

  Lemma case_no_check : b_checkers b = 0 ->
    safe_after b m = (negb (mem (b_pinned b) src) || mem (line_geo src k) d).
  Proof.
    intros Hc0. apply eq_iff_eq_true. split.
    - intros S. destruct (mem (b_pinned b) src) eqn:Hp; [|reflexivity]. rewrite negb_true_orb.
      apply (AT5 b src G) in Hp. destruct Hp as (_ & t0 & p0 & Ht & Hr & Hk & Hpin).
      pose proof (pinner_mem t0 Hpin) as Hsb.
      destruct (N.eq_dec t0 d) as [E|Htd].
      + apply (line_between k t0 src d k_lt Ht Hsb). right. symmetry. exact E.
      + apply (line_between k t0 src d k_lt Ht Hsb). left. exact (pin_hold S t0 p0 Ht Hr Hk Hpin Htd).
    - intros F. apply safe_intro.
      + intros c0 H. rewrite Hc0, mem_0 in H. discriminate H.
      + intros t0 p0 Ht Hr Hk Hpin Htd.
        rewrite (pinned_intro t0 p0 Ht Hr Hk Hpin), negb_true_orb in F.
        exact (line_to_between t0 Ht (raw_some_occ b t0 _ P Ht Hr) (pinner_mem t0 Hpin) F Htd).
  Qed.

  Lemma case_single : b_checkers b <> 0 -> count (b_checkers b) = 1 ->
    safe_after b m = (negb (mem (b_pinned b) src) && mem (check_mask b true k) d).
  Proof.
    intros Hnz Hc1.
    pose proof (part_wf_checkers b P) as W.
    pose proof (fun s => count_1_mem (b_checkers b) s W Hc1) as CM.
    assert (Mask0 : check_mask b true k = bb_or (between_geo k (tz64 (b_checkers b))) (b_checkers b)) by reflexivity.
    set (c0 := tz64 (b_checkers b)) in *.
    assert (Hc0 : mem (b_checkers b) c0 = true) by (apply CM; reflexivity).
    destruct (checker_facts c0 Hc0) as (Hc0lt & _ & Hclear).
    destruct (checker_occ c0 Hc0) as [Hc0occ Hc0src].
    assert (Mask : mem (check_mask b true k) d = mem (between_geo k c0) d || (d =? c0)).
    { rewrite Mask0, mem_or. f_equal. destruct (N.eqb_spec d c0) as [->|Hn]; [exact Hc0|].
      destruct (mem (b_checkers b) d) eqn:E; [apply CM in E; contradiction|reflexivity]. }
    rewrite Mask. apply eq_iff_eq_true. split.
    - intros S. apply andb_true_iff. split.
      + apply negb_true_iff. destruct (mem (b_pinned b) src) eqn:Hp; [exfalso|reflexivity].
        apply (AT5 b src G) in Hp. destruct Hp as (_ & t0 & q0 & Ht & Hr & Hk & Hpin).
        pose proof (raw_some_occ b t0 _ P Ht Hr) as Hot.
        assert (Nsrc : forall x, mem occ x = true -> mem (between_geo k t0) x = true -> x = src).
        { intros x Ho Hb. apply (from_pos_mem_eq _ _ x Hpin). rewrite mem_and, Ho, Hb. reflexivity. }
        assert (Nt0 : mem (between_geo k c0) t0 = true -> False).
        { intros H. rewrite (and_zero_mem _ _ t0 Hclear Hot) in H. discriminate H. }
        assert (Nc0 : mem (between_geo k t0) c0 = true -> False).
        { intros H. exact (Hc0src (Nsrc c0 Hc0occ H)). }
        destruct (N.eq_dec t0 c0) as [E|Ne].
        * rewrite E, Hclear in Hpin.
          assert (X : mem (from_pos src) src = true).
          { rewrite mem_from_pos_full, N.eqb_refl. apply N.ltb_lt in Hs. rewrite Hs. reflexivity. }
          rewrite <- Hpin, mem_0 in X. discriminate X.
        * destruct (N.eq_dec t0 d) as [E|Htd].
          -- apply Nt0. rewrite E. apply (parry S c0 Hc0). intros E2. apply Ne. rewrite E, E2. reflexivity.
          -- pose proof (pin_hold S t0 q0 Ht Hr Hk Hpin Htd) as Hdt.
             destruct (N.eq_dec c0 d) as [E|Hcd].
             ++ apply Nc0. rewrite E. exact Hdt.
             ++ pose proof (parry S c0 Hc0 Hcd) as Hdc.
                destruct (same_ray k c0 t0 d k_lt Hdc Hdt) as [E|[H|H]].
                ** apply Ne. symmetry. exact E.
                ** exact (Nc0 H).
                ** exact (Nt0 H).
      + destruct (N.eqb_spec d c0) as [E|Hn]; [apply orb_true_r|]. rewrite orb_false_r.
        apply (parry S c0 Hc0). intros E. apply Hn. symmetry. exact E.
    - intros F. apply andb_true_iff in F. destruct F as [F1 F2]. apply negb_true_iff in F1. apply safe_intro.
      + intros x Hx Hxd. apply CM in Hx. rewrite Hx in *. apply orb_true_iff in F2.
        destruct F2 as [F2|F2]; [exact F2|]. apply N.eqb_eq in F2. exfalso. apply Hxd. symmetry. exact F2.
      + intros t0 q0 Ht Hr Hk Hpin Htd. exfalso.
        rewrite (pinned_intro t0 q0 Ht Hr Hk Hpin) in F1. discriminate F1.
  Qed.

  Lemma case_double : b_checkers b <> 0 -> count (b_checkers b) <> 1 -> safe_after b m = false.
  Proof.
    intros Hnz Hc. destruct (safe_after b m) eqn:S; [exfalso|reflexivity].
    destruct (two_members _ (part_wf_checkers b P) Hnz Hc) as (c1 & c2 & _ & _ & Hne & H1 & H2).
    destruct (checker_facts c1 H1) as (_ & _ & Cl1). destruct (checker_facts c2 H2) as (_ & _ & Cl2).
    destruct (checker_occ c1 H1) as [O1 _]. destruct (checker_occ c2 H2) as [O2 _].
    assert (N12 : mem (between_geo k c2) c1 = true -> False).
    { intros H. rewrite (and_zero_mem _ _ c1 Cl2 O1) in H. discriminate H. }
    assert (N21 : mem (between_geo k c1) c2 = true -> False).
    { intros H. rewrite (and_zero_mem _ _ c2 Cl1 O2) in H. discriminate H. }
    destruct (N.eq_dec c1 d) as [E1|N1].
    - apply N12. rewrite E1. apply (parry S c2 H2). intros E2. apply Hne. rewrite E1, E2. reflexivity.
    - destruct (N.eq_dec c2 d) as [E2|N2].
      + apply N21. rewrite E2. exact (parry S c1 H1 N1).
      + destruct (same_ray k c1 c2 d k_lt (parry S c1 H1 N1) (parry S c2 H2 N2)) as [E|[H|H]];
          [exact (Hne E)|exact (N12 H)|exact (N21 H)].
  Qed.

  Theorem pin_filter_main : safe_after b m = step_filter b src d.
  Proof.
    unfold step_filter. cbv zeta. destruct (none (b_checkers b)) eqn:E0.
    - apply none_true in E0. exact (case_no_check E0).
    - assert (Hnz : b_checkers b <> 0) by (intros E; rewrite E in E0; discriminate E0).
      destruct (N.eqb_spec (count (b_checkers b)) 1) as [E1|N1].
      + exact (case_single Hnz E1).
      + exact (case_double Hnz N1).
  Qed.
End Pin.

(* (P) *)
Theorem pin_filter :
  attackers_mem_statement -> slider_att_statement -> kings_statement -> checkers_spec_statement ->
  pinned_spec_statement -> after_move_statement -> safe_after_spec_statement ->
  pin_filter_statement.
Proof.
  intros _ AT2 AT3 AT4 AT5 AT6 AT7 b src d pc pr G Npc Hs Hd Hraw Hstep Hpr.
  exact (pin_filter_main AT2 AT3 AT4 AT5 AT6 AT7 b src d pc pr G Npc Hs Hd Hraw Hstep Hpr).
Qed.

Print Assumptions pin_filter.
