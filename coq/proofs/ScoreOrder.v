(* Proofs for C14: Score comparison is a strict total order matching game-theoretic preference. *)
From Coq Require Import NArith ZArith List Bool Lia.
From Chess Require Import model.Score.

Local Open Scope N_scope.

Lemma cmp_refl : forall a, cmp a a = Eq.
Proof.
  destruct a; cbn; auto using N.compare_refl, Z.compare_refl.
Qed.

Lemma cmp_eq_iff : forall a b, cmp a b = Eq <-> a = b.
Proof.
  intros a b; split.
  - destruct a, b; cbn; intros H; try discriminate; try reflexivity.
    + apply N.compare_eq_iff in H; subst; reflexivity.
    + apply Z.compare_eq_iff in H; subst; reflexivity.
    + apply N.compare_eq_iff in H; subst; reflexivity.
  - intros ->; apply cmp_refl.
Qed.

Lemma cmp_antisym : forall a b, cmp b a = CompOpp (cmp a b).
Proof.
  destruct a, b; cbn; try reflexivity;
    first [apply N.compare_antisym | apply Z.compare_antisym].
Qed.

Lemma cmp_lt_trans : forall a b c, cmp a b = Lt -> cmp b c = Lt -> cmp a c = Lt.
Proof.
  destruct a, b, c; cbn; intros H1 H2; try discriminate; try reflexivity;
    rewrite ?N.compare_lt_iff, ?Z.compare_lt_iff in *; lia.
Qed.

Lemma cmp_total : forall a b, cmp a b = Lt \/ a = b \/ cmp b a = Lt.
Proof.
  intros a b. destruct (cmp a b) eqn:E.
  - right; left; apply cmp_eq_iff; exact E.
  - left; reflexivity.
  - right; right. rewrite cmp_antisym, E; reflexivity.
Qed.

Lemma cmp_irrefl : forall a, cmp a a <> Lt.
Proof. intros a; rewrite cmp_refl; discriminate. Qed.

Lemma eqb_cmp : forall a b, eqb a b = true <-> cmp a b = Eq.
Proof.
  destruct a, b; cbn; try (split; congruence); try (split; reflexivity).
  - rewrite N.eqb_eq, N.compare_eq_iff; reflexivity.
  - rewrite Z.eqb_eq, Z.compare_eq_iff; reflexivity.
  - rewrite N.eqb_eq, N.compare_eq_iff; split; congruence.
Qed.

Lemma partial_cmp_agrees : forall a b, partial_cmp a b = Some (cmp a b).
Proof. reflexivity. Qed.

(* class ordering: Min < BlackMateIn _ < Raw _ < WhiteMateIn _ < Max *)
Lemma class_order : forall m n z,
  cmp SMin (SBlackMateIn m) = Lt /\ cmp (SBlackMateIn m) (SRaw z) = Lt /\
  cmp (SRaw z) (SWhiteMateIn n) = Lt /\ cmp (SWhiteMateIn n) SMax = Lt.
Proof. intros; repeat split. Qed.

Lemma sentinels_extreme : forall s, cmp SMin s <> Gt /\ cmp s SMax <> Gt.
Proof. destruct s; cbn; split; discriminate. Qed.

Lemma white_mate_quicker_greater : forall a b, cmp (SWhiteMateIn a) (SWhiteMateIn b) = Gt <-> a < b.
Proof. intros; cbn. rewrite N.compare_gt_iff. reflexivity. Qed.

Lemma black_mate_slower_greater : forall a b, cmp (SBlackMateIn a) (SBlackMateIn b) = Gt <-> b < a.
Proof. intros; cbn. rewrite N.compare_gt_iff. reflexivity. Qed.

Lemma raw_by_value : forall x y, cmp (SRaw x) (SRaw y) = (x ?= y)%Z.
Proof. reflexivity. Qed.

Lemma smax_ge : forall a b, cmp (smax a b) a <> Lt /\ cmp (smax a b) b <> Lt /\ (smax a b = a \/ smax a b = b).
Proof.
  intros a b; unfold smax; destruct (cmp a b) eqn:E.
  - apply cmp_eq_iff in E; subst. rewrite cmp_refl. repeat split; auto; discriminate.
  - rewrite cmp_antisym, E, cmp_refl; cbn. repeat split; auto; discriminate.
  - rewrite cmp_refl, E. repeat split; auto; discriminate.
Qed.

Lemma smin_le : forall a b, cmp (smin a b) a <> Gt /\ cmp (smin a b) b <> Gt /\ (smin a b = a \/ smin a b = b).
Proof.
  intros a b; unfold smin; destruct (cmp a b) eqn:E.
  - rewrite cmp_refl, E. repeat split; auto; discriminate.
  - rewrite cmp_refl, E. repeat split; auto; discriminate.
  - rewrite cmp_antisym, E, cmp_refl; cbn. repeat split; auto; discriminate.
Qed.

(* negation is an order anti-automorphism (used by C13) *)
Lemma neg_involutive : forall s, neg (neg s) = s.
Proof. destruct s; cbn; try reflexivity. f_equal; apply Z.opp_involutive. Qed.

Lemma neg_anti : forall a b, cmp (neg a) (neg b) = cmp b a.
Proof.
  destruct a, b; cbn; try reflexivity.
  apply Z.compare_opp.
Qed.
